"""Stand-alone reproductions of the three C09 findings on algbio/flowpaths (run: /venv/bin/python repro_c09_findings.py [repo])."""
import sys, logging
sys.path.insert(0, sys.argv[1] if len(sys.argv) > 1 else "/repo")
import networkx as nx, flowpaths as fp
logging.disable(logging.CRITICAL)


def G(edges):
    g = nx.DiGraph(); g.add_edges_from(edges); return g


# 1. kPathCover(cover_type="node"): constructor raises TypeError (int + str)
try:
    m = fp.kPathCover(G([("a", "b")]), k=1, cover_type="node")
    print("1. kPathCover node: constructed; solve() =", m.solve(), m.get_solution()["paths"])
except TypeError as e:
    print("1. kPathCover(cover_type='node') -> TypeError:", e)

# 2. MinPathCoverCycles drops additional starts/ends when computing its lower bound: ValueError in solve()
g = G([("a", "b"), ("b", "a")])
k = fp.kPathCoverCycles(g, k=1, additional_starts=["a"], additional_ends=["a"])
print("2. kPathCoverCycles(k=1) on a<->b, start=end=a:", k.solve(), k.get_solution()["walks"])
try:
    m = fp.MinPathCoverCycles(g, additional_starts=["a"], additional_ends=["a"])
    print("2. MinPathCoverCycles.solve():", m.solve(), m.get_solution()["walks"])
except ValueError as e:
    print("2. MinPathCoverCycles.solve() -> ValueError:", e)

# 3. MinPathCoverCycles counts the synthetic source/sink edges in its lower bound: non-minimal answer
g = G([("s1", "a"), ("s2", "a"), ("a", "a"), ("a", "t")])
m = fp.MinPathCoverCycles(g, elements_to_ignore=[("s1", "a")])
print("3. lower bound:", m.get_lowerbound_k(), " solve():", m.solve(), " walks:", m.get_solution()["walks"])
k1 = fp.kPathCoverCycles(g, k=1, elements_to_ignore=[("s1", "a")])
print("3. kPathCoverCycles(k=1) same input:", k1.solve(), k1.get_solution()["walks"], " its lower bound:", k1.get_lowerbound_k())

# refuted suspicions
st = fp.stDAG(G([("a", "b"), ("b", "c"), ("a", "c")]))
print("(ii) stDAG.get_width with every edge ignored:", st.get_width(edges_to_ignore=list(st.edges())),
      "(empty weight dict is falsy: default demands; excluded by the property's wording)")
m = fp.MinPathCover(G([("a", "b"), ("b", "c"), ("a", "c"), ("c", "d"), ("c", "e")]))
print("(iii) MinPathCover lower bound on the doubly augmented graph:", m.get_lowerbound_k(), "(minimum cover: 2)")
