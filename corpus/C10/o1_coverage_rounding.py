# observation: the threshold len(constraint)*coverage is a float product: 10*0.7 = 7.000000000000001 > 7
import networkx as nx, flowpaths as fp
G = nx.DiGraph()
chain = ["s"] + [f"v{i}" for i in range(1, 10)] + ["t"]
for a, b in zip(chain[:-1], chain[1:]):
    G.add_edge(a, b, flow=0)
for a, b in zip(chain[:7], chain[1:8]):          # first 7 chain edges carry flow 4, then a bypass v7 -> t
    G[a][b]["flow"] = 4
G.add_edge("v7", "t", flow=4)
con = list(zip(chain[:-1], chain[1:]))           # 10 edges; the only flow path contains exactly 7 = 70 % of them
print("threshold", len(con) * 0.7)
for greedy in (True, False):
    m = fp.kFlowDecomp(G, flow_attr="flow", k=1, weight_type=int, subpath_constraints=[con], subpath_constraints_coverage=0.7,
                       optimization_options={"optimize_with_greedy": greedy})
    m.solve()
    print("greedy option", greedy, "| solved by greedy:", m.external_solution_paths is not None, "| solved:", m.is_solved(),
          m.get_solution()["paths"] if m.is_solved() else None)
