# C10-F5: walk error models: the flow value of an IGNORED edge changes the optimum (it enters the per-edge repetition caps)
import networkx as nx, flowpaths as fp
def run(cls, f_ignored):
    G = nx.DiGraph()
    G.add_edge("f", "h", flow=0.5); G.add_edge("h", "hc", flow=f_ignored); G.add_edge("hc", "h", flow=1.5); G.add_edge("h", "g", flow=0.5)
    m = cls(G, flow_attr="flow", k=1, weight_type=float, elements_to_ignore=[("h", "hc")]); m.solve()
    return m.solver.get_objective_value(), m.get_solution()["walks"], {e: b for e, b in m.edge_upper_bounds.items() if e[0] in "fh"}
for cls in (fp.kLeastAbsErrorsCycles, fp.kMinPathErrorCycles):
    for f in (1.5, 3.5):
        print(cls.__name__, "ignored edge flow", f, "->", run(cls, f))
