# C10-F6: walk error models: ignoring the only edge of positive flow makes a solved model infeasible
# (w_max = 0 -> add_integer_continuous_product_constraint creates 0 bits -> multiplicity of every non-ignored edge forced to 0)
import networkx as nx, flowpaths as fp
def run(cls, ignore):
    G = nx.DiGraph(); G.add_edge("d", "s", flow=1); G.add_edge("s", "s", flow=0); G.add_edge("s", "u0", flow=0)
    m = cls(G, flow_attr="flow", k=1, weight_type=int, elements_to_ignore=ignore)
    ok = m.solve()
    print(cls.__name__, "ignored", ignore, "->", "solved" if ok else m.solver.get_model_status(), "w_max =", m.w_max,
          m.get_solution()["walks"] if ok else "")
for cls in (fp.kLeastAbsErrorsCycles, fp.kMinPathErrorCycles):
    run(cls, [("s", "s")])
    run(cls, [("s", "s"), ("d", "s")])
