# C10-F2: MinErrorFlow on a graph with a cycle silently drops additional_starts / additional_ends
import networkx as nx, flowpaths as fp
def err(edges, **kw):
    G = nx.DiGraph()
    for u, v, f in edges: G.add_edge(u, v, flow=f)
    m = fp.MinErrorFlow(G, flow_attr="flow", weight_type=int, **kw); m.solve()
    return m.get_solution()["error"]
dag = [("s","a",1),("a","b",3),("b","t",1)]           # = path s-a-b-t (1) + path a-b (2) which starts at a and ends at b
cyc = dag + [("b","c",1),("c","b",1)]                 # the same plus a closed walk through b
print("DAG , starts=[a], ends=[b]:", err(dag, additional_starts=["a"], additional_ends=["b"]), "(expected 0)")
print("cyc , starts=[a], ends=[b]:", err(cyc, additional_starts=["a"], additional_ends=["b"]), "(expected 0)")
print("cyc , no starts/ends      :", err(cyc))
