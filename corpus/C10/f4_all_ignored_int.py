# C10-F4: error models with weight_type=int crash (OverflowError) once every edge is ignored / has scale 0
import networkx as nx, flowpaths as fp
G = nx.DiGraph(); G.add_edge("a", "b", flow=3); G.add_edge("b", "c", flow=2)
for cls in (fp.kLeastAbsErrors, fp.kMinPathError):
    for wt in (float, int):
        for ign in ([("a","b")], [("a","b"),("b","c")]):
            try:
                m = cls(G, flow_attr="flow", k=1, weight_type=wt, elements_to_ignore=ign); m.solve()
                print(cls.__name__, wt.__name__, ign, "solved" if m.is_solved() else "unsolved", m.solver.get_objective_value())
            except Exception as e:
                print(cls.__name__, wt.__name__, ign, "raised", type(e).__name__, e)
