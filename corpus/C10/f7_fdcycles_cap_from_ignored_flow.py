# C10-F7: kFlowDecompCycles / MinFlowDecompCycles: the flow value (or its absence) of an IGNORED edge decides feasibility / the minimum
import networkx as nx, flowpaths as fp
E = [("a","u0",1),("a","a_c1",3),("a_c1","a_c2",1),("a_c2","a",1),("a_c1","a",2),("e","a",1)]   # one walk e a (a_c1 a)x2 a_c1 a_c2 a u0, weight 1
def graph(ignored_flow):
    G = nx.DiGraph()
    for u, v, f in E:
        if (u, v) == ("a", "a_c1"):
            G.add_edge(u, v, **({} if ignored_flow is None else {"flow": ignored_flow}))
        else:
            G.add_edge(u, v, flow=f)
    return G
for val in (3, 2, None):
    m = fp.MinFlowDecompCycles(graph(val), flow_attr="flow", weight_type=int, elements_to_ignore=[("a", "a_c1")]); m.solve()
    k1 = fp.kFlowDecompCycles(graph(val), flow_attr="flow", k=1, weight_type=int, elements_to_ignore=[("a", "a_c1")]); k1.solve()
    sol = m.get_solution() if m.is_solved() else None
    print("flow on the ignored edge:", val, "| MinFlowDecompCycles:", (len(sol["walks"]), sol["weights"]) if sol else "UNSOLVED",
          "| kFlowDecompCycles(k=1) solved:", k1.is_solved())
