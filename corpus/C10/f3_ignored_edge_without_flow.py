# C10-F3: kFlowDecomp / MinFlowDecomp crash with KeyError when an ignored edge has no flow attribute and joins a source to a sink
import networkx as nx, flowpaths as fp
G = nx.DiGraph()
G.add_edge("s", "a", flow=2); G.add_edge("a", "t", flow=2)
G.add_edge("s", "t")                                   # untrusted edge: no flow value, ignored
for cls, kw in ((fp.kFlowDecomp, {"k": 1}), (fp.MinFlowDecomp, {})):
    try:
        m = cls(G, flow_attr="flow", weight_type=int, elements_to_ignore=[("s", "t")], **kw)
        m.solve(); print(cls.__name__, m.is_solved(), m.get_solution())
    except Exception as e:
        print(cls.__name__, "raised", type(e).__name__, e)
G["s"]["t"]["flow"] = 99                               # with any value on the ignored edge it works
m = fp.kFlowDecomp(G, flow_attr="flow", weight_type=int, elements_to_ignore=[("s", "t")], k=1); m.solve()
print("with a value on the ignored edge:", m.get_solution())
