# C10-F1: kFlowDecomp greedy route + length_attr + edge-count coverage: constraint not contained in any returned path
import networkx as nx, flowpaths as fp
G = nx.DiGraph()
for u, v, f, l in [("s","a",2,10),("s","b",2,1),("a","c",2,1),("b","c",2,1),("c","d",3,1),("c","e",1,1),("d","t",3,1),("e","t",1,1)]:
    G.add_edge(u, v, flow=f, length=l)
con = [("s","a"),("c","e")]          # non-contiguous constraint, coverage 1 (default): both edges in ONE path
for greedy in (True, False):
    m = fp.kFlowDecomp(G, flow_attr="flow", k=3, weight_type=int, length_attr="length", subpath_constraints=[con],
                       optimization_options={"optimize_with_greedy": greedy})
    m.solve()
    paths = m.get_solution()["paths"]
    ok = any(all(e in set(zip(p[:-1], p[1:])) for e in con) for p in paths)
    print("greedy" if greedy else "milp  ", paths, "constraint contained in one path:", ok)
