import sys; sys.path.insert(0, "/repo")
import networkx as nx, flowpaths as fp
G = nx.DiGraph()
for u,v in [("s","h"),("h","x"),("x","h"),("h","y"),("y","h"),("x","z"),("z","h"),("h","t")]:
    G.add_edge(u,v,flow=1)
m = fp.kMinPathErrorCycles(G, flow_attr="flow", k=1, weight_type=int)
print("(iv) solve", m.solve(), m.solver.get_model_status())
m = fp.kMinPathErrorCycles(G, flow_attr="flow", weight_type=int)
print("k=None ->", m.k, m.solve())
