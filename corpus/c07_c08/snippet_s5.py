import sys; sys.path.insert(0, "/repo")
import networkx as nx, flowpaths as fp
# (vi) cyclic classes: pi / ee / gamma columns bounded by w_max = k*max f cut off walks that re-use an edge
G = nx.DiGraph(); G.add_edge("s","a",flow=4); G.add_edge("a","b",flow=0); G.add_edge("b","a",flow=4)
m = fp.kLeastAbsErrorsCycles(G, flow_attr="flow", k=1, weight_type=int, error_scaling={("a","b"):0.25}, additional_ends=["b"])
m.solve(); s = m.get_solution(); print("LAE cycles returns", s["walks"], s["weights"], "scaled error", m.solver.get_objective_value(), "w_max", m.w_max)
print("   walk s,a,b,a,b with weight 4: errors (s,a)=0, (b,a)=0, (a,b)=|0-8|*0.25 = 2  < 5")
m = fp.kMinPathErrorCycles(G, flow_attr="flow", k=1, weight_type=int, error_scaling={("a","b"):0.25}, additional_ends=["b"])
m.solve(); s = m.get_solution(); print("MPE cycles returns", s["walks"], s["weights"], s["slacks"])
print("   walk s,a,b,a,b weight 4 slack 1: (a,b): |0-8|*0.25 = 2 <= 2*1, others exact -> total slack 1 < 2")
G = nx.DiGraph(); G.add_edge("x","q",flow=0); G.add_edge("q","u",flow=2); G.add_edge("u","q",flow=1); G.add_edge("u","b",flow=3)
m = fp.kMinPathErrorCycles(G, flow_attr="flow", k=1, weight_type=int)
print("MPE cycles k=1=width:", m.solve(), m.solver.get_model_status(), " (walk x,q,u,q,u,b weight 1 slack 2 is a solution; gamma(q,u)=2*2=4 > w_max=3)")
