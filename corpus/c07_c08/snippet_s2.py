import sys; sys.path.insert(0, "/repo")
import networkx as nx, flowpaths as fp
# (ii)
G = nx.DiGraph(); G.add_edge("a","b",flow=2); G.add_edge("b","c",flow=10)
m = fp.kMinPathError(G, flow_attr="flow", k=1, weight_type=int, path_length_ranges=[[0,100]], path_length_factors=[0.5])
print("(ii) solve", m.solve(), m.solver.get_model_status())
m = fp.kMinPathError(G, flow_attr="flow", k=1, weight_type=int)
print("    no factors: solve", m.solve(), m.get_solution(), m.get_objective_value())
# (iii)
for fac in [2, 3, 1.5]:
    m = fp.kMinPathError(G, flow_attr="flow", k=1, weight_type=int, path_length_ranges=[[0,100]], path_length_factors=[fac])
    ok = m.solve(); print("(iii) factor", fac, "solve", ok, m.get_solution() if ok else None, m.get_objective_value() if ok else None)
