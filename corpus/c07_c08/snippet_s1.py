import sys; sys.path.insert(0, "/repo")
import networkx as nx, flowpaths as fp
# (i) kLeastAbsErrors objective inconsistent with scaling != 1
G = nx.DiGraph(); G.add_edge("a","b",flow=4); G.add_edge("b","c",flow=1)
m = fp.kLeastAbsErrors(G, flow_attr="flow", k=1, weight_type=int, error_scaling={("a","b"):0.5})
print("solve", m.solve()); s = m.get_solution(); print(s)
print("get_objective_value", m.get_objective_value(), "solver obj", m.solver.get_objective_value(), "is_valid", m.is_valid_solution())
# cycles
G = nx.DiGraph(); G.add_edge("s","a",flow=4); G.add_edge("a","b",flow=1); G.add_edge("b","a",flow=1); G.add_edge("a","t",flow=1)
m = fp.kLeastAbsErrorsCycles(G, flow_attr="flow", k=1, weight_type=int, error_scaling={("s","a"):0.5})
print("solve", m.solve()); s = m.get_solution(); print(s)
print("get_objective_value", m.get_objective_value(), "solver obj", m.solver.get_objective_value(), "is_valid", m.is_valid_solution())
