import sys; sys.path.insert(0, "/repo")
import networkx as nx, flowpaths as fp
G = nx.DiGraph(); G.add_edge("a","b",flow=1); G.add_edge("b","c",flow=3)
for fac in [1, 2, 3, 4, 5]:
    m = fp.kMinPathError(G, flow_attr="flow", k=1, weight_type=int, path_length_ranges=[[0,100]], path_length_factors=[fac])
    ok = m.solve(); print("(iii) factor", fac, "solve", ok, m.solver.get_model_status(), m.get_solution() if ok else None)
