import sys; sys.path.insert(0, "/repo")
import networkx as nx, flowpaths as fp
# (vii) kMinPathError.is_valid_solution ignores error_scaling
G = nx.DiGraph(); G.add_edge("a","b",flow=6); G.add_edge("b","c",flow=0)
m = fp.kMinPathError(G, flow_attr="flow", k=1, weight_type=int, error_scaling={("a","b"):0.5})
m.solve(); print(m.get_solution(), "is_valid_solution:", m.is_valid_solution())
G = nx.DiGraph(); G.add_edge("s","a",flow=6); G.add_edge("a","b",flow=0); G.add_edge("b","a",flow=0); G.add_edge("a","t",flow=0)
m = fp.kMinPathErrorCycles(G, flow_attr="flow", k=1, weight_type=int, error_scaling={("s","a"):0.5})
m.solve(); print(m.get_solution(), "is_valid_solution:", m.is_valid_solution())
# (viii) is_valid_solution raises on a solved model
G = nx.DiGraph(); G.add_edge("a","b",flow=2)
m = fp.kMinPathError(G, flow_attr="flow", k=2, weight_type=int, additional_ends=["a"])
print(m.solve(), m.get_solution())
try: print(m.is_valid_solution())
except Exception as e: print("is_valid_solution raised", type(e).__name__, e)
