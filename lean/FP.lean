-- This module serves as the root of the `FP` library.
-- Import modules here that should be built as part of the library.
import FP.Basic
