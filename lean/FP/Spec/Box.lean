import FP.Model.Wrapper
/-!
# FP.Spec.Box — vocabulary for the objective / read-back statements about the wrapper model:
"the last `set_objective` of a history", "the cost an expression asks for", "an optimal solution of a linear
objective over a box"
-/
namespace FP

def WOp.isSetObjective : WOp → Bool
  | .setObjective .. => true
  | _ => false

/-- the cost of column `i` asked for by an expression with terms `ts` (coefficients of a repeated variable add up) -/
def termCost (ts : List (Nat × Rat)) (i : Nat) : Rat := ((ts.filter (·.1 = i)).map (·.2)).sum

end FP

namespace FP.Spec
open FP

/-- `x` assigns to every column a value within its bounds -/
def InBox (cols : List WCol) (x : List Rat) : Prop :=
  x.length = cols.length ∧
    ∀ (i : Nat) (c : WCol) (v : Rat), cols[i]? = some c → x[i]? = some v → c.lb ≤ v ∧ v ≤ c.ub

/-- objective value `a` is at least as good as `b` in the given sense -/
def AsGood (maximize : Bool) (a b : Rat) : Prop := if maximize then b ≤ a else a ≤ b

/-- `x` is an optimal solution of `min/max Σ cost·x + offset` over the box of the columns -/
def IsBoxOptimum (maximize : Bool) (cols : List WCol) (offset : Rat) (x : List Rat) : Prop :=
  InBox cols x ∧ ∀ y, InBox cols y → AsGood maximize (objValue cols offset x) (objValue cols offset y)

end FP.Spec
