import FP.Spec.Routes
/-!
# FP.Spec.WalkDecomp — what a weighted walk decomposition of a flow is

`k` walks `walk 0 … walk (k-1)` (vertex sequences of the user's graph, the synthetic endpoints
`src`/`snk` are put back before counting) with weights `w 0 … w (k-1)` *explain* an edge `e` by
`Σ_i w_i · traversals(src :: walk_i ++ [snk], e)`; they decompose `f` on a set of edges when that
number is `f e` on every edge of the set. Nothing else is demanded here (no bound on how often a walk
may run through an edge, no bound on the weights) — this is the vocabulary of the property text.

The same on the level of per-walk edge multiplicities (`m i e` = how often walk `i` uses `e`), which
is all an MILP sees of a walk.
-/
namespace FP.Spec
open FP

/-- `Σ_i w_i · traversals(src :: walk_i ++ [snk], e)` -/
def walkExplained (src snk : Node) (k : Nat) (walk : Nat → List Node) (w : Nat → Rat) (e : Edge) : Rat :=
  ((List.range k).map fun i => w i * (traversals (src :: walk i ++ [snk]) e : Rat)).sum

/-- the `k` weighted walks decompose `f` on the edges `on` -/
def IsWalkDecomp (src snk : Node) (on : List Edge) (f : Edge → Rat) (k : Nat)
    (walk : Nat → List Node) (w : Nat → Rat) : Prop :=
  ∀ e ∈ on, walkExplained src snk k walk w e = f e

/-- `Σ_i w_i · m_i(e)` -/
def explainedM (k : Nat) (m : Nat → Edge → Nat) (w : Nat → Rat) (e : Edge) : Rat :=
  ((List.range k).map fun i => w i * (m i e : Rat)).sum

/-- the multiplicity vectors of a family of walks -/
def multsOf (src snk : Node) (walk : Nat → List Node) : Nat → Edge → Nat :=
  fun i e => traversals (src :: walk i ++ [snk]) e

theorem explained_eq_explainedM (src snk : Node) (k : Nat) (walk : Nat → List Node) (w : Nat → Rat)
    (e : Edge) : walkExplained src snk k walk w e = explainedM k (multsOf src snk walk) w e := rfl

end FP.Spec
