/-!
# FP.Spec.Optimum — "the minimum of an objective over a feasible set"
-/
namespace FP.Spec

/-- `v` is the minimum of `obj` over the feasible set `P` (attained) -/
def IsMin {α} (P : α → Prop) (obj : α → Rat) (v : Rat) : Prop :=
  (∃ s, P s ∧ obj s = v) ∧ ∀ s, P s → v ≤ obj s

end FP.Spec
