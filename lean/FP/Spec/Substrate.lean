import FP.Model.Graph
import FP.Spec.Routes
/-!
# FP.Spec.Substrate — vocabulary of C17: source-to-sink paths of a DAG, conserving flows, edge antichains
-/
namespace FP.Spec
open FP

/-- `p` is a source-to-sink path of `g` with at least one edge: it walks along edges of `g` from a
node without in-edges to a node without out-edges -/
structure IsSTPath (g : Graph) (p : List Node) : Prop where
  len : 2 ≤ p.length
  walk : IsWalkIn g p
  first : ∀ v, p.head? = some v → g.pred v = []
  last : ∀ v, p.getLast? = some v → g.succ v = []

/-- total flow into / out of a node -/
def inflowOf (g : Graph) (f : Edge → Rat) (v : Node) : Rat := ((g.edges.filter (·.2 = v)).map f).sum
def outflowOf (g : Graph) (f : Edge → Rat) (v : Node) : Rat := ((g.edges.filter (·.1 = v)).map f).sum

/-- `f` is conserved at every node that has both in- and out-edges -/
def Conserving (g : Graph) (f : Edge → Rat) : Prop :=
  ∀ v, g.pred v ≠ [] → g.succ v ≠ [] → inflowOf g f v = outflowOf g f v

/-- two edges are comparable when the head of one reaches the tail of the other -/
def Comparable (g : Graph) (e e' : Edge) : Prop := Reach g.edges e.2 e'.1 ∨ Reach g.edges e'.2 e.1

/-- an edge antichain: edges of `g`, pairwise incomparable -/
def IsEdgeAntichain (g : Graph) (A : List Edge) : Prop :=
  (∀ e ∈ A, e ∈ g.edges) ∧ A.Pairwise (fun e e' => ¬ Comparable g e e')

end FP.Spec
