import FP.Model.Tables
/-!
# FP.Spec.Rejections — which violations each model class is to reject with `ValueError` (C19)

Hand-written from the "Raises" sections and parameter descriptions of the docstrings and from the text
of property C19; `knownMissing` mirrors `known_findings.json`.
-/
namespace FP.Spec.Rejections
open FP.Tables

/-- the model classes of the property -/
def modelClasses : List String :=
  ["kFlowDecomp", "MinFlowDecomp", "kLeastAbsErrors", "kMinPathError", "kPathCover", "MinPathCover",
   "kFlowDecompCycles", "MinFlowDecompCycles", "kLeastAbsErrorsCycles", "kMinPathErrorCycles",
   "kPathCoverCycles", "MinPathCoverCycles", "MinErrorFlow", "MinGenSet", "MinSetCover", "NumPathsOptimization"]

def dagGraph : List Flag := [.nonStringNode, .cyclicForDag, .emptyGraph]
def cycGraph : List Flag := [.nonStringNode, .noSourceOrSink, .emptyGraph]
def weights : List Flag := [.missingWeight, .negativeWeight, .badWeightType]
def constraints : List Flag :=
  [.constraintNotListOfLists, .constraintEmpty, .constraintEdgeAbsent, .constraintNotTuples, .coverageOutOfRange]
/-- `subpath_constraints_coverage_length`: in (0, 1]; needs `length_attr`; not together with `coverage < 1` -/
def coverageLength : List Flag :=
  [.coverageLengthOutOfRange, .coverageLengthWithoutLengthAttr, .coverageLengthWithCoverage]
def misc : List Flag := [.badOrigin, .ignoreWrongShape]
def startsEnds : List Flag := [.unknownStart, .unknownEnd]
def kFlags : List Flag := [.kNonPositive, .kNotInt]

/-- which violations each class is to reject -/
def expected : String → List Flag
  | "kFlowDecomp" => dagGraph ++ weights ++ [.nonConservingFlow] ++ constraints ++ coverageLength ++ misc ++ kFlags
  | "MinFlowDecomp" => dagGraph ++ weights ++ [.nonConservingFlow] ++ constraints ++ coverageLength ++ misc ++ startsEnds
  | "kLeastAbsErrors" => dagGraph ++ weights ++ constraints ++ coverageLength ++ misc ++ startsEnds ++ kFlags ++ [.scalingOutOfRange]
  | "kMinPathError" => dagGraph ++ weights ++ constraints ++ coverageLength ++ misc ++ startsEnds ++ kFlags ++ [.scalingOutOfRange]
  | "kPathCover" => dagGraph ++ constraints ++ coverageLength ++ misc ++ startsEnds ++ kFlags
  | "MinPathCover" => dagGraph ++ constraints ++ coverageLength ++ misc ++ startsEnds
  | "kFlowDecompCycles" => cycGraph ++ weights ++ [.nonConservingFlow] ++ constraints ++ misc ++ startsEnds ++ kFlags
  | "MinFlowDecompCycles" => cycGraph ++ weights ++ [.nonConservingFlow] ++ constraints ++ misc ++ startsEnds
  | "kLeastAbsErrorsCycles" => cycGraph ++ weights ++ constraints ++ misc ++ startsEnds ++ kFlags ++ [.scalingOutOfRange]
  | "kMinPathErrorCycles" => cycGraph ++ weights ++ constraints ++ misc ++ startsEnds ++ kFlags ++ [.scalingOutOfRange]
  | "kPathCoverCycles" => cycGraph ++ constraints ++ misc ++ startsEnds ++ kFlags
  | "MinPathCoverCycles" => cycGraph ++ constraints ++ misc ++ startsEnds
  | "MinErrorFlow" => [.nonStringNode, .emptyGraph, .missingWeight, .badWeightType, .scalingOutOfRange] ++ misc ++ startsEnds
  | "MinGenSet" => [.badWeightType, .constraintNotListOfLists]
  | _ => []

/-- the graph classes and abstract bases whose constructors the model classes call -/
def supportClasses : List String :=
  ["AbstractSourceSinkGraph", "stDAG", "stDiGraph", "NodeExpandedDiGraph", "AbstractPathModelDAG", "AbstractWalkModelDiGraph"]

/-- what the supporting constructors themselves are to reject (their docstrings' "Raises" sections): a
guard deleted from a base class is noticed even where a subclass happens to duplicate it -/
def supportExpected : String → List Flag
  | "AbstractSourceSinkGraph" => [.nonStringNode, .unknownStart, .unknownEnd]
  | "stDAG" => [.nonStringNode, .cyclicForDag, .unknownStart, .unknownEnd]
  | "stDiGraph" => [.nonStringNode, .noSourceOrSink, .unknownStart, .unknownEnd]
  | "NodeExpandedDiGraph" => [.nonStringNode, .emptyGraph, .unknownStart, .unknownEnd]
  | "AbstractPathModelDAG" => [.emptyGraph] ++ constraints ++ coverageLength
  | "AbstractWalkModelDiGraph" => [.emptyGraph] ++ constraints ++ kFlags
  | _ => []

/-- violations a class is expected to reject but has **no guard** for — each entry mirrors a finding of
`known_findings.json`. Kept minimal: an entry that no longer applies would let the defect come back
unnoticed by `expected_guarded`, so repaired entries are removed (k checks: /repo e001a45). -/
def knownMissing : List (String × Flag) :=
  [ -- cyclic flow decomposition never checks conservation      [C19-cycles-nonconserving-unsolved]
    ("kFlowDecompCycles", .nonConservingFlow), ("MinFlowDecompCycles", .nonConservingFlow) ]

/-- violations whose guard exists but is reached **too late** on some inputs (an earlier statement of
the constructor already fails with another exception). Empty on the current tree: constraints are
validated before their first use (/repo d47f5dc) and `isinstance(k, int)` is tested before `k <= 0`
(/repo e001a45). -/
def knownPreempted : List (String × Flag) := []

def Flag.name : Flag → String
  | .nonStringNode => "nonStringNode" | .cyclicForDag => "cyclicForDag" | .noSourceOrSink => "noSourceOrSink"
  | .missingWeight => "missingWeight" | .negativeWeight => "negativeWeight" | .nonConservingFlow => "nonConservingFlow"
  | .constraintNotListOfLists => "constraintNotListOfLists" | .constraintEmpty => "constraintEmpty"
  | .constraintEdgeAbsent => "constraintEdgeAbsent" | .constraintNotTuples => "constraintNotTuples"
  | .coverageOutOfRange => "coverageOutOfRange" | .coverageLengthOutOfRange => "coverageLengthOutOfRange"
  | .coverageLengthWithoutLengthAttr => "coverageLengthWithoutLengthAttr"
  | .coverageLengthWithCoverage => "coverageLengthWithCoverage"
  | .kNonPositive => "kNonPositive" | .kNotInt => "kNotInt" | .badWeightType => "badWeightType"
  | .badOrigin => "badOrigin" | .unknownStart => "unknownStart" | .unknownEnd => "unknownEnd"
  | .scalingOutOfRange => "scalingOutOfRange" | .ignoreWrongShape => "ignoreWrongShape" | .emptyGraph => "emptyGraph"
  | .optionConflict n => "optionConflict:" ++ n | .other t => "other:" ++ t | .unmapped t => "unmapped:" ++ t

end FP.Spec.Rejections
