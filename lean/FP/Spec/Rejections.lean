import FP.Model.Tables
/-!
# FP.Spec.Rejections — which violations each model class is to reject with `ValueError` (C19)

Hand-written from the "Raises" sections and parameter descriptions of the docstrings and from the text
of property C19; `knownMissing` mirrors `known_findings.json`.
-/
namespace FP.Spec.Rejections
open FP.Tables

/-- the model classes of the property -/
def modelClasses : List String :=
  ["kFlowDecomp", "MinFlowDecomp", "kLeastAbsErrors", "kMinPathError", "kPathCover", "MinPathCover",
   "kFlowDecompCycles", "MinFlowDecompCycles", "kLeastAbsErrorsCycles", "kMinPathErrorCycles",
   "kPathCoverCycles", "MinPathCoverCycles", "MinErrorFlow", "MinGenSet", "MinSetCover", "NumPathsOptimization"]

def dagGraph : List Flag := [.nonStringNode, .cyclicForDag, .emptyGraph]
def cycGraph : List Flag := [.nonStringNode, .noSourceOrSink, .emptyGraph]
def weights : List Flag := [.missingWeight, .negativeWeight, .badWeightType]
def constraints : List Flag :=
  [.constraintNotListOfLists, .constraintEmpty, .constraintEdgeAbsent, .constraintNotTuples, .coverageOutOfRange]
def misc : List Flag := [.badOrigin, .ignoreWrongShape]
def startsEnds : List Flag := [.unknownStart, .unknownEnd]
def kFlags : List Flag := [.kNonPositive, .kNotInt]

/-- which violations each class is to reject -/
def expected : String → List Flag
  | "kFlowDecomp" => dagGraph ++ weights ++ [.nonConservingFlow] ++ constraints ++ [.coverageLengthOutOfRange] ++ misc ++ kFlags
  | "MinFlowDecomp" => dagGraph ++ weights ++ [.nonConservingFlow] ++ constraints ++ [.coverageLengthOutOfRange] ++ misc ++ startsEnds
  | "kLeastAbsErrors" => dagGraph ++ weights ++ constraints ++ [.coverageLengthOutOfRange] ++ misc ++ startsEnds ++ kFlags ++ [.scalingOutOfRange]
  | "kMinPathError" => dagGraph ++ weights ++ constraints ++ [.coverageLengthOutOfRange] ++ misc ++ startsEnds ++ kFlags ++ [.scalingOutOfRange]
  | "kPathCover" => dagGraph ++ constraints ++ [.coverageLengthOutOfRange] ++ misc ++ startsEnds ++ kFlags
  | "MinPathCover" => dagGraph ++ constraints ++ [.coverageLengthOutOfRange] ++ misc ++ startsEnds
  | "kFlowDecompCycles" => cycGraph ++ weights ++ [.nonConservingFlow] ++ constraints ++ misc ++ startsEnds ++ kFlags
  | "MinFlowDecompCycles" => cycGraph ++ weights ++ [.nonConservingFlow] ++ constraints ++ misc ++ startsEnds
  | "kLeastAbsErrorsCycles" => cycGraph ++ weights ++ constraints ++ misc ++ startsEnds ++ kFlags ++ [.scalingOutOfRange]
  | "kMinPathErrorCycles" => cycGraph ++ weights ++ constraints ++ misc ++ startsEnds ++ kFlags ++ [.scalingOutOfRange]
  | "kPathCoverCycles" => cycGraph ++ constraints ++ misc ++ startsEnds ++ kFlags
  | "MinPathCoverCycles" => cycGraph ++ constraints ++ misc ++ startsEnds
  | "MinErrorFlow" => [.nonStringNode, .emptyGraph, .missingWeight, .badWeightType, .scalingOutOfRange] ++ misc ++ startsEnds
  | "MinGenSet" => [.badWeightType, .constraintNotListOfLists]
  | _ => []

/-- violations a class is expected to reject but has **no guard** for — each entry mirrors a finding of
`known_findings.json` (repairing one in /repo leaves a stale, harmless entry here) -/
def knownMissing : List (String × Flag) :=
  [ -- DAG error / cover models have no `k > 0` check           [C19-k-nonpositive-dag-models]
    ("kLeastAbsErrors", .kNonPositive), ("kMinPathError", .kNonPositive), ("kPathCover", .kNonPositive),
    -- only kFlowDecomp checks that k is an int                 [C19-k-not-int]
    ("kLeastAbsErrors", .kNotInt), ("kMinPathError", .kNotInt), ("kPathCover", .kNotInt),
    ("kFlowDecompCycles", .kNotInt), ("kLeastAbsErrorsCycles", .kNotInt), ("kMinPathErrorCycles", .kNotInt),
    ("kPathCoverCycles", .kNotInt),
    -- cyclic flow decomposition never checks conservation      [C19-cycles-nonconserving-unsolved]
    ("kFlowDecompCycles", .nonConservingFlow), ("MinFlowDecompCycles", .nonConservingFlow) ]

/-- violations whose guard exists but is reached **too late** on some inputs: an earlier statement of
the constructor already fails with another exception — each entry mirrors a finding of
`known_findings.json` -/
def knownPreempted : List (String × Flag) :=
  [ -- the greedy pre-solve of kFlowDecomp indexes the graph with the constraint edges before
    -- `_check_valid_subpath_constraints` runs (KeyError / TypeError)   [C19-constraints-used-before-validation]
    ("kFlowDecomp", .constraintEdgeAbsent), ("MinFlowDecomp", .constraintEdgeAbsent),
    ("kFlowDecomp", .constraintNotTuples), ("MinFlowDecomp", .constraintNotTuples),
    -- `trusted_edges_for_safety.update(constraint)` hashes the constraint's elements before validation
    ("kLeastAbsErrors", .constraintNotTuples), ("kLeastAbsErrorsCycles", .constraintNotTuples),
    ("kMinPathErrorCycles", .constraintNotTuples),
    -- `k <= 0 or not isinstance(k, int)`: the comparison fails for a `str` before the type test  [C19-k-not-int]
    ("kFlowDecomp", .kNotInt) ]

def Flag.name : Flag → String
  | .nonStringNode => "nonStringNode" | .cyclicForDag => "cyclicForDag" | .noSourceOrSink => "noSourceOrSink"
  | .missingWeight => "missingWeight" | .negativeWeight => "negativeWeight" | .nonConservingFlow => "nonConservingFlow"
  | .constraintNotListOfLists => "constraintNotListOfLists" | .constraintEmpty => "constraintEmpty"
  | .constraintEdgeAbsent => "constraintEdgeAbsent" | .constraintNotTuples => "constraintNotTuples"
  | .coverageOutOfRange => "coverageOutOfRange" | .coverageLengthOutOfRange => "coverageLengthOutOfRange"
  | .kNonPositive => "kNonPositive" | .kNotInt => "kNotInt" | .badWeightType => "badWeightType"
  | .badOrigin => "badOrigin" | .unknownStart => "unknownStart" | .unknownEnd => "unknownEnd"
  | .scalingOutOfRange => "scalingOutOfRange" | .ignoreWrongShape => "ignoreWrongShape" | .emptyGraph => "emptyGraph"
  | .optionConflict n => "optionConflict:" ++ n | .other t => "other:" ++ t | .unmapped t => "unmapped:" ++ t

end FP.Spec.Rejections
