import FP.Model.Parser
/-!
# FP.Spec.GraphFile — vocabulary of property C20: file descriptions, their rendering, the graphs they describe

A *file description* is what a writer of the format has in mind: a list of blocks, each with its `#` lines
(header lines and `#S` subpath lines in any interleaving), some blank lines, the vertex-count line and a body of
edge lines and blank lines.  `render` turns a description into classified lines (what the python classifier
produces from the text); `graphOf` is the graph a block describes, defined without reference to the parser's loops:

* edges: `(u, v, w) ∈ edges ↔ lastWeight listed (u, v) = some w` (`FP.Props.C20.built_graph_exact`), no edge key
  twice, nodes = endpoints, no node twice; when no edge is listed twice the edge list *is* the listed list
  (`built_graph_distinct`);
* constraints: the distinct `#S` token sequences in order of first appearance (`List.eraseDups`), those with at
  least two nodes, each turned into its list of consecutive pairs;
* id: the text of the first header line.
-/
namespace FP.Spec.GraphFile
open FP.Parser

inductive HashLine (S : Type) where
  | header (text : S)
  | subpath (tokens : List S)

inductive BodyItem (S : Type) where
  | blank
  /-- an edge line `u v wtok` (`text` = the stripped line, irrelevant here) -/
  | edge (text u v wtok : S)

structure BlockDesc (S : Type) where
  hashes : List (HashLine S)
  /-- blank lines between the `#` lines and the vertex-count line -/
  blanks : Nat
  countText : S
  countTokens : List S
  body : List (BodyItem S)

structure FileDesc (S : Type) where
  /-- blank lines at the top of the file -/
  lead : Nat
  blocks : List (BlockDesc S)

variable {S W Wd : Type}

def HashLine.toLine : HashLine S → Line S
  | .header t => .header t
  | .subpath toks => .subpath toks

def BodyItem.toLine : BodyItem S → Line S
  | .blank => .blank
  | .edge t u v w => .data t [u, v, w]

def renderBlock (b : BlockDesc S) : List (Line S) :=
  b.hashes.map HashLine.toLine ++
    (List.replicate b.blanks Line.blank ++ (Line.data b.countText b.countTokens :: b.body.map BodyItem.toLine))

def render (d : FileDesc S) : List (Line S) :=
  List.replicate d.lead Line.blank ++ d.blocks.flatMap renderBlock

/-- the listed edges of a block with their weights (`float()` of the third token) -/
def listedEdges (o : Oracles S W Wd) (b : BlockDesc S) : List (S × S × W) :=
  b.body.filterMap fun
    | .edge _ u v wt => (o.parseFloat wt).map fun w => (u, v, w)
    | .blank => none

def key (e : S × S × W) : S × S := (e.1, e.2.1)

def BodyItem.isBlank : BodyItem S → Bool
  | .blank => true
  | .edge .. => false

/-- `float()` accepts the weight token of an edge line -/
def BodyItem.weightOk (o : Oracles S W Wd) : BodyItem S → Bool
  | .edge _ _ _ wt => (o.parseFloat wt).isSome
  | .blank => true

/-- the `#S` token sequences of a block, in file order -/
def seqs (b : BlockDesc S) : List (List S) :=
  b.hashes.filterMap fun
    | .subpath t => some t
    | .header _ => none

/-- the header texts of a block, in file order -/
def headerTexts (b : BlockDesc S) : List S :=
  b.hashes.filterMap fun
    | .header t => some t
    | .subpath _ => none

section
variable [DecidableEq S]

/-- the weight of the last listed edge with key `k` -/
def lastWeight : List (S × S × W) → S × S → Option W
  | [], _ => none
  | e :: es, k =>
    match lastWeight es k with
    | some w => some w
    | none => if key e = k then some e.2.2 else none

/-- constraints a block describes: distinct `#S` sequences (first appearance), at least two nodes,
as lists of consecutive pairs -/
def constraintsOf (b : BlockDesc S) : List (List (S × S)) :=
  ((seqs b).eraseDups.filter fun s => 2 ≤ s.length).map fun s => s.zip s.tail

/-- the graph with the listed edges inserted one after the other (`nx.DiGraph.add_edge`) -/
def buildGraph (es : List (S × S × W)) : Gr S W := es.foldl (fun g e => g.addEdge e.1 e.2.1 e.2.2) {}

def isZero (o : Oracles S W Wd) (b : BlockDesc S) : Bool := o.parseInt b.countText = some 0

/-- the graph (and `G.graph` dictionary) a block describes -/
def graphOf (o : Oracles S W Wd) (b : BlockDesc S) : PGraph S W Wd :=
  let g := buildGraph (listedEdges o b)
  { nodes := g.nodes, edges := g.edges, id := (headerTexts b).head?, constraints := constraintsOf b,
    n := some g.nodes.length, m := some g.edges.length,
    w := if isZero o b then some o.zeroWidth else some (o.width g.nodes g.edges) }

/-- Well-formedness of a block (all clauses decidable given the oracles):
1. at least one `#` line (header or `#S`);
2. the vertex-count line converts with `int()`;
3. the third token of every edge line converts with `float()`;
4. every edge of every constraint is the key of a listed edge line;
5. a zero-vertex block (count converts to 0) describes no constraint (no `#S` sequence with two or more nodes)
   and its body holds blank lines only; a non-zero block describes a graph with a node without in-edges and a
   node without out-edges (otherwise `stDiGraph` raises). -/
def WFBlock (o : Oracles S W Wd) (b : BlockDesc S) : Prop :=
  b.hashes ≠ [] ∧
  (o.parseInt b.countText).isSome ∧
  (∀ it ∈ b.body, it.weightOk o = true) ∧
  (∀ c ∈ constraintsOf b, ∀ e ∈ c, e ∈ (listedEdges o b).map key) ∧
  (if isZero o b then (constraintsOf b).isEmpty = true ∧ b.body.all BodyItem.isBlank = true
   else (buildGraph (listedEdges o b)).hasSource = true ∧ (buildGraph (listedEdges o b)).hasSink = true)

instance (o : Oracles S W Wd) (b : BlockDesc S) : Decidable (WFBlock o b) := by
  unfold WFBlock; infer_instance

/-! ### vocabulary for arbitrary classified lines (not only rendered descriptions) -/

/-- the `#S` token lists among classified lines -/
def lineSeqs : List (Line S) → List (List S)
  | [] => []
  | .subpath t :: r => t :: lineSeqs r
  | _ :: r => lineSeqs r

/-- the header texts among classified lines -/
def lineHeaders : List (Line S) → List S
  | [] => []
  | .header t :: r => t :: lineHeaders r
  | _ :: r => lineHeaders r

/-- constraint lists of a list of distinct sequences -/
def consOfSeqs (l : List (List S)) : List (List (S × S)) :=
  (l.filter fun s => 2 ≤ s.length).map fun s => s.zip s.tail

/-- the edge an edge line contributes -/
def lineEdge (o : Oracles S W Wd) : Line S → Option (S × S × W)
  | .data _ [u, v, ws] => (o.parseFloat ws).map fun w => (u, v, w)
  | _ => none

/-- a line on which the edge loop raises -/
def lineBad (o : Oracles S W Wd) : Line S → Bool
  | .data t toks => (lineEdge o (.data t toks)).isNone
  | _ => false

def lineEdges (o : Oracles S W Wd) (ls : List (Line S)) : List (S × S × W) := ls.filterMap (lineEdge o)

/-- the vertex-count line of the block converts to 0 -/
def ZeroCount (o : Oracles S W Wd) (ls : List (Line S)) : Prop :=
  ∃ cl body, countPart ls = cl :: body ∧ cl.countVal o = some 0

/-- A block (list of classified lines) that the property wants rejected:
no vertex-count line; a vertex-count line that `int()` rejects; below the vertex-count line a data line that
does not split into three tokens, or whose third token `float()` rejects; a `#S` line in the header naming two
consecutive nodes `a b` such that no edge line `a b w` is below the vertex-count line. -/
inductive Malformed (o : Oracles S W Wd) (ls : List (Line S)) : Prop where
  | missingCount (h : countPart ls = [])
  | badCount (cl : Line S) (body : List (Line S)) (h : countPart ls = cl :: body) (hc : cl.countVal o = none)
  | badEdgeLine (t : S) (toks : List S) (hm : Line.data t toks ∈ (countPart ls).tail) (hl : toks.length ≠ 3)
  | badWeight (t u v ws : S) (hm : Line.data t [u, v, ws] ∈ (countPart ls).tail) (hw : o.parseFloat ws = none)
  | absentEdge (toks : List S) (a b : S) (hs : Line.subpath toks ∈ hashPart ls)
      (he : (a, b) ∈ toks.zip toks.tail) (hab : ∀ t ws, Line.data t [a, b, ws] ∉ (countPart ls).tail)

end
end FP.Spec.GraphFile
