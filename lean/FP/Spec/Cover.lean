import FP.Model.Graph
import FP.Spec.Routes
/-!
# FP.Spec.Cover — path / walk covers of an s-t graph, antichains, integral covering flows

Everything is phrased on the *augmented* graph (`STGraph`): a route is the full vertex sequence from
the synthetic source to the synthetic sink. On a DAG a route is automatically a simple path.
-/
namespace FP.Spec
open FP

/-- a source-to-sink walk of an s-t graph, as its vertex sequence -/
structure IsSTWalk (s : STGraph) (l : List Node) : Prop where
  first : l.head? = some s.source
  last : l.getLast? = some s.sink
  walk : IsWalkIn s.g l

/-- every edge of `active` lies on at least one of the routes -/
def Covers (routes : List (List Node)) (active : List Edge) : Prop :=
  ∀ e ∈ active, ∃ r ∈ routes, e ∈ walkEdges r

/-- every constraint (a list of edges) is contained, completely, in one of the routes
(subpath / subset constraints at coverage fraction 1) -/
def Satisfies (routes : List (List Node)) (cons : List (List Edge)) : Prop :=
  ∀ c ∈ cons, ∃ r ∈ routes, ∀ e ∈ c, e ∈ walkEdges r

/-- `k` source-to-sink routes cover `active` and satisfy the constraints `cons` -/
def HasCover (s : STGraph) (active : List Edge) (cons : List (List Edge)) (k : Nat) : Prop :=
  ∃ routes : List (List Node), routes.length = k ∧ (∀ r ∈ routes, IsSTWalk s r) ∧
    Covers routes active ∧ Satisfies routes cons

/-- `m` is the minimum size of a cover -/
def IsMinCover (s : STGraph) (active : List Edge) (cons : List (List Edge)) (m : Nat) : Prop :=
  HasCover s active cons m ∧ ∀ j, j < m → ¬ HasCover s active cons j

/-- distinct edges no two of which lie on a common source-to-sink walk -/
structure Antichain (s : STGraph) (A : List Edge) : Prop where
  nodup : A.Nodup
  incomparable : ∀ r, IsSTWalk s r → ∀ e1 ∈ A, ∀ e2 ∈ A, e1 ∈ walkEdges r → e2 ∈ walkEdges r → e1 = e2

/-- out-flow / in-flow of a natural-number edge function -/
def outN (g : Graph) (f : Edge → Nat) (v : Node) : Nat := ((g.edges.filter (·.1 = v)).map f).sum
def inN (g : Graph) (f : Edge → Nat) (v : Node) : Nat := ((g.edges.filter (·.2 = v)).map f).sum

/-- an integral feasible flow of the min-flow instance solved by `compute_max_edge_antichain`:
conserved at every node other than the synthetic ones and at least the demand on every edge -/
structure CoveringFlow (s : STGraph) (demand : Edge → Nat) (f : Edge → Nat) : Prop where
  cons : ∀ v ∈ s.g.nodes, v ≠ s.source → v ≠ s.sink → inN s.g f v = outN s.g f v
  dem : ∀ e ∈ s.g.edges, demand e ≤ f e

end FP.Spec
