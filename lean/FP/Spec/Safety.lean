import FP.Spec.Routes
/-!
# FP.Spec.Safety — what "safe", "incompatible" and "forbidden soundly" mean

All notions are about source-to-sink walks of a graph (a path is a walk; in a DAG every walk is a path).
A sequence of edges *occurs* in a walk when it is a subsequence of the walk's edge sequence: in order and
with multiplicity.
-/
namespace FP.Spec
open FP

/-- `w` is a walk of `g` from `s` to `t` (a vertex sequence) -/
structure IsSTWalkG (g : Graph) (s t : Node) (w : List Node) : Prop where
  walk : IsWalkIn g w
  first : w.head? = some s
  last : w.getLast? = some t

/-- `seq` occurs in the walk `w`, in order and with multiplicity -/
def Occurs (seq : List Edge) (w : List Node) : Prop := seq.Sublist (walkEdges w)

/-- `seq` occurs in `w` as a contiguous piece -/
def OccursContiguously (seq : List Edge) (w : List Node) : Prop := seq <:+: walkEdges w

/-- the family `ws` covers every trusted edge -/
def CoversX (ws : List (List Node)) (X : List Edge) : Prop := ∀ x ∈ X, ∃ w ∈ ws, x ∈ walkEdges w

/-- the family `ws` covers every trusted item (a list of edges that one walk has to contain in order;
an edge is the item `[e]`) -/
def CoversItems (ws : List (List Node)) (items : List (List Edge)) : Prop :=
  ∀ it ∈ items, ∃ w ∈ ws, Occurs it w

/-- **safe for `X`**: in every source-to-sink walk cover of `X` some walk contains `seq` -/
def SafeFor (g : Graph) (s t : Node) (X : List Edge) (seq : List Edge) : Prop :=
  ∀ ws : List (List Node), (∀ w ∈ ws, IsSTWalkG g s t w) → CoversX ws X → ∃ w ∈ ws, Occurs seq w

/-- the same for trusted items (subpath constraints) -/
def SafeForItems (g : Graph) (s t : Node) (items : List (List Edge)) (seq : List Edge) : Prop :=
  ∀ ws : List (List Node), (∀ w ∈ ws, IsSTWalkG g s t w) → CoversItems ws items → ∃ w ∈ ws, Occurs seq w

/-- every source-to-sink walk that contains the item `it` contains `seq` -/
def ForcedBy (g : Graph) (s t : Node) (it : List Edge) (seq : List Edge) : Prop :=
  ∀ w, IsSTWalkG g s t w → Occurs it w → Occurs seq w

/-- the edge `d` lies on every walk from `a` to `b` (arc dominance) -/
def Dominates (g : Graph) (a b : Node) (d : Edge) : Prop :=
  ∀ w, IsSTWalkG g a b w → d ∈ walkEdges w

/-- some single source-to-sink walk contains both sequences -/
def CoOccur (g : Graph) (s t : Node) (p q : List Edge) : Prop :=
  ∃ w, IsSTWalkG g s t w ∧ Occurs p w ∧ Occurs q w

theorem safeForItems_of_forcedBy {g : Graph} {s t : Node} {items : List (List Edge)} {it seq : List Edge}
    (hit : it ∈ items) (h : ForcedBy g s t it seq) : SafeForItems g s t items seq := by
  intro ws hws hc
  obtain ⟨w, hw, ho⟩ := hc it hit
  exact ⟨w, hw, h w (hws w hw) ho⟩

theorem safeFor_of_forcedBy {g : Graph} {s t : Node} {X : List Edge} {e : Edge} {seq : List Edge}
    (he : e ∈ X) (h : ForcedBy g s t [e] seq) : SafeFor g s t X seq := by
  intro ws hws hc
  obtain ⟨w, hw, ho⟩ := hc e he
  exact ⟨w, hw, h w (hws w hw) (by simpa [Occurs] using ho)⟩

end FP.Spec
