import FP.Model.Enc.KFD
import FP.Spec.Routes
/-!
# FP.Spec.Decomp — what a weighted source-to-sink path decomposition of a flow is

The vocabulary of property C03. `inp : FlowInput` only contributes *data* here: the user's graph with
its synthetic source/sink (`inp.st`), the flow values `inp.f`, the edges whose flow has to be explained
(`inp.activeEdges` = edges of the user's graph that are not ignored), the requested weight type and the
subpath constraints. Nothing of the MILP encoding is mentioned.
-/
namespace FP.Spec
open FP

/-- `P 0 … P (k-1)` with weights `w 0 … w (k-1)` is a path decomposition of the flow of `inp`:
every `source :: P i ++ [sink]` is a walk of the augmented DAG (hence `P i` is a non-empty path of the
user's graph from a node without in-edges to a node without out-edges), the weights are non-negative and
of the requested type, every active edge's flow is the sum of the weights of the paths through it, and
every subpath constraint is contained (coverage 1) in some path. -/
structure IsDecomp (inp : FlowInput) (k : Nat) (P : Nat → List Node) (w : Nat → Rat) : Prop where
  walk : ∀ i, i < k → IsWalkIn inp.st.g (inp.st.source :: P i ++ [inp.st.sink])
  wnonneg : ∀ i, i < k → 0 ≤ w i
  wint : inp.weightInt = true → ∀ i, i < k → ∃ z : Int, w i = z
  explains : ∀ e ∈ inp.activeEdges,
    ((List.range k).map fun i =>
        w i * (traversals (inp.st.source :: P i ++ [inp.st.sink]) e : Rat)).sum = inp.f e
  constraints : ∀ con ∈ inp.cfg.constraints, ∃ i, i < k ∧
    ∀ e ∈ con, e ∈ walkEdges (inp.st.source :: P i ++ [inp.st.sink])

/-- some decomposition into `k` weighted paths exists (no bound on the weights) -/
def HasDecompFree (inp : FlowInput) (k : Nat) : Prop := ∃ P w, IsDecomp inp k P w

/-- some decomposition into `k` weighted paths exists whose weights do not exceed the largest flow value
(the box the MILP puts around its weight variables; `decomp_bound_wlog` shows that this loses nothing) -/
def HasDecomp (inp : FlowInput) (k : Nat) : Prop :=
  ∃ P w, IsDecomp inp k P w ∧ ∀ i, i < k → w i ≤ inp.wmax

/-- `k` is the minimum number of paths of a decomposition -/
def IsMinDecomp (inp : FlowInput) (k : Nat) : Prop := HasDecomp inp k ∧ ∀ j, j < k → ¬ HasDecomp inp j

/-- two edges never lie on a common source-to-sink path of the augmented graph -/
def NoCommonPath (s : STGraph) (e1 e2 : Edge) : Prop :=
  ∀ p : List Node, IsWalkIn s.g (s.source :: p ++ [s.sink]) →
    ¬ (e1 ∈ walkEdges (s.source :: p ++ [s.sink]) ∧ e2 ∈ walkEdges (s.source :: p ++ [s.sink]))

/-- an edge antichain: distinct edges, pairwise on no common source-to-sink path -/
def IsAntichain (s : STGraph) (A : List Edge) : Prop :=
  A.Nodup ∧ ∀ e1 ∈ A, ∀ e2 ∈ A, e1 ≠ e2 → NoCommonPath s e1 e2

/-- all sums `Σ_{i ∈ S} w i` over subsets `S ⊆ {0,…,k-1}` (with repetitions, `2^k` entries) -/
def subsetSums (w : Nat → Rat) : Nat → List Rat
  | 0 => [0]
  | k+1 => subsetSums w k ++ (subsetSums w k).map (· + w k)

end FP.Spec
