import FP.Model.Enc.KMPEC
import FP.Spec.WalkDecomp
import FP.Spec.ErrModels
/-!
# FP.Spec.ErrWalks — vocabulary of the two error models on digraphs with cycles

The cyclic counterparts of `LAE.absErr`, `LAE.totalErr`, `MPE.SlackOK` (`FP/Spec/ErrModels.lean`): a layer
is a *walk* (inner vertex sequence, the synthetic endpoints are put back before counting) and the
indicator `[e ∈ p_i]` becomes the number of traversals of `e` by walk `i`
(`walkExplained … w e = Σ_i w_i · traversals(source :: walk_i ++ [sink], e)`, `FP/Spec/WalkDecomp.lean`).
Everything is stated on rationals and is independent of the LP generators.
-/
namespace FP.Spec
open FP

namespace LAEC

/-- `|f(e) − Σ_i w_i · traversals_i(e)|` -/
def absErr (inp : WalkInput) (walk : Nat → List Node) (w : Nat → Rat) (e : Edge) : Rat :=
  (inp.f e - walkExplained inp.st.source inp.st.sink inp.k walk w e).abs

/-- the quantity `kLeastAbsErrorsCycles` minimises:
`Σ_{e not ignored} scale(e) · |f(e) − Σ_i w_i · traversals_i(e)|` -/
def totalErr (inp : WalkInput) (walk : Nat → List Node) (w : Nat → Rat) : Rat :=
  ((inp.activeEdges true).map fun e => inp.scale e * absErr inp walk w e).sum

end LAEC

namespace MPEC

/-- `|f(e) − Σ_i w_i · traversals_i(e)| · scale(e) ≤ Σ_i slack_i · traversals_i(e)` -/
def SlackOK (inp : WalkInput) (walk : Nat → List Node) (w sl : Nat → Rat) (e : Edge) : Prop :=
  (inp.f e - walkExplained inp.st.source inp.st.sink inp.k walk w e).abs * inp.scale e
    ≤ walkExplained inp.st.source inp.st.sink inp.k walk sl e

end MPEC

end FP.Spec
