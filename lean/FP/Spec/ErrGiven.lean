import FP.Spec.ErrModels
/-!
# FP.Spec.ErrGiven — vocabulary of the two error models when `solution_weights_superset` is given

With `solution_weights_superset = ws` the classes set `k = len(ws)`, allow empty paths, use the `i`-th
given number as the weight of layer `i` and add the row "at most `original_k` layers are used".

A *choice* of the given weights **by index** is a family `P : Nat → List Node` (only `i < k` matters):
`P i = []` — the `i`-th given weight is not used; otherwise `P i` is the route that carries the `i`-th
given weight. Unused layers contribute nothing to `explained` (`trav s [] e = 0` on every edge of the
graph), so `LAE.absErr inp P (givenW ws) e = |f(e) − Σ_{i used} ws[i]·[e ∈ P i]|`.
-/
namespace FP.Spec
open FP

/-- the weight of layer `i`: the `i`-th given number -/
def givenW (ws : List Rat) (i : Nat) : Rat := ws.getD i 0

/-- the number of used (non-empty) layers among the first `k` -/
def usedCount (k : Nat) (P : Nat → List Node) : Nat :=
  ((List.range k).filter fun i => decide (P i ≠ [])).length

namespace LAE

/-- a choice of at most `originalK` of the given weights (by index) with routes -/
structure GivenChoice (inp : ErrInput) (originalK : Nat) (P : Nat → List Node) : Prop where
  routes : ∀ i, i < inp.k → Route inp.st inp.fi.cfg.allowEmpty (P i)
  cap : usedCount inp.k P ≤ originalK

/-- the choices the LP can represent: every per-edge error within the bound `w_max` of the error
columns (`w_max = max(k·weight_type(max f), max ws)`) -/
structure GivenBounded (inp : ErrInput) (ws : List Rat) (originalK : Nat) (P : Nat → List Node) : Prop
    extends GivenChoice inp originalK P where
  errle : ∀ e ∈ inp.basicEdges, absErr inp P (givenW ws) e ≤ inp.wmax (some ws)

end LAE

namespace MPE

/-- a choice of at most `originalK` of the given weights (by index) with routes and slacks of the
requested type satisfying the slack inequality on every non-ignored edge (no path-length factors) -/
structure GivenSolution (inp : ErrInput) (ws : List Rat) (originalK : Nat) (P : Nat → List Node)
    (sl : Nat → Rat) : Prop where
  routes : ∀ i, i < inp.k → Route inp.st inp.fi.cfg.allowEmpty (P i)
  cap : usedCount inp.k P ≤ originalK
  nonneg : ∀ i, i < inp.k → 0 ≤ sl i
  integral : inp.fi.weightInt = true → ∀ i, i < inp.k → IsInt (sl i)
  slackOK : ∀ e ∈ inp.basicEdges, SlackOK inp P (givenW ws) sl e

/-- … with slacks within the column bound `w_max` -/
structure GivenBounded (inp : ErrInput) (ws : List Rat) (originalK : Nat) (P : Nat → List Node)
    (sl : Nat → Rat) : Prop extends GivenSolution inp ws originalK P sl where
  sle : ∀ i, i < inp.k → sl i ≤ inp.wmax (some ws)

end MPE

end FP.Spec
