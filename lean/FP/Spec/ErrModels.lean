import FP.Model.Enc.KMPE
import FP.Spec.Routes
/-!
# FP.Spec.ErrModels — vocabulary of the two error models (k-Least-Absolute-Errors, k-Min-Path-Error)

A *k-route solution* on the augmented graph `s` is a family `P : Nat → List Node` of inner paths
(`P i` is what `get_solution()` returns for layer `i`, i.e. without the synthetic endpoints; the
empty list stands for an unused layer), weights `w : Nat → Rat` and — for k-Min-Path-Error —
slacks `sl : Nat → Rat`. Only the indices `i < k` matter.

Everything here is stated on rationals and is independent of the LP generators: these are the
quantities of the property texts C07 / C08.
-/
namespace FP.Spec
open FP

/-- the path of a layer with its synthetic endpoints -/
def full (s : STGraph) (p : List Node) : List Node := s.source :: p ++ [s.sink]

/-- a layer is either unused (only if empty paths are allowed) or a simple source-to-sink path of
the augmented graph -/
def Route (s : STGraph) (allowEmpty : Bool) (p : List Node) : Prop :=
  (p = [] ∧ allowEmpty = true) ∨ (p ≠ [] ∧ IsWalkIn s.g (full s p) ∧ (full s p).Nodup)

/-- `[e ∈ p]` as a rational (number of traversals; 0 or 1 for a route) -/
def trav (s : STGraph) (p : List Node) (e : Edge) : Rat := (traversals (full s p) e : Nat)

/-- `Σ_i w_i · [e ∈ p_i]` -/
def explained (s : STGraph) (k : Nat) (P : Nat → List Node) (w : Nat → Rat) (e : Edge) : Rat :=
  ((List.range k).map fun i => w i * trav s (P i) e).sum

/-- being (the cast of) an integer -/
def IsInt (q : Rat) : Prop := ∃ z : Int, q = z

namespace LAE

/-- `|f(e) − Σ_i w_i · [e ∈ p_i]|` -/
def absErr (inp : ErrInput) (P : Nat → List Node) (w : Nat → Rat) (e : Edge) : Rat :=
  (inp.fi.f e - explained inp.st inp.k P w e).abs

/-- the quantity k-Least-Absolute-Errors minimises: `Σ_{e not ignored} scale(e) · |f(e) − Σ_i w_i[e ∈ p_i]|` -/
def totalErr (inp : ErrInput) (P : Nat → List Node) (w : Nat → Rat) : Rat :=
  (inp.basicEdges.map fun e => inp.scale e * absErr inp P w e).sum

/-- a k-route solution of the requested weight type (weights non-negative, integral if
`weight_type = int`) -/
structure Solution (inp : ErrInput) (P : Nat → List Node) (w : Nat → Rat) : Prop where
  routes : ∀ i, i < inp.k → Route inp.st inp.fi.cfg.allowEmpty (P i)
  nonneg : ∀ i, i < inp.k → 0 ≤ w i
  integral : inp.fi.weightInt = true → ∀ i, i < inp.k → IsInt (w i)

/-- the solutions the LP can represent: weights and per-edge errors within the column bound `w_max` -/
structure Bounded (inp : ErrInput) (P : Nat → List Node) (w : Nat → Rat) : Prop extends Solution inp P w where
  wle : ∀ i, i < inp.k → w i ≤ inp.wmax none
  errle : ∀ e ∈ inp.basicEdges, absErr inp P w e ≤ inp.wmax none

end LAE

namespace MPE

/-- `|f(e) − Σ_i w_i[e ∈ p_i]| · scale(e) ≤ Σ_i slack_i · [e ∈ p_i]` -/
def SlackOK (inp : ErrInput) (P : Nat → List Node) (w sl : Nat → Rat) (e : Edge) : Prop :=
  (inp.fi.f e - explained inp.st inp.k P w e).abs * inp.scale e ≤ explained inp.st inp.k P sl e

/-- the quantity k-Min-Path-Error minimises -/
def totalSlack (k : Nat) (sl : Nat → Rat) : Rat := ((List.range k).map sl).sum

/-- a k-route solution with slacks (no path-length factors): weights and slacks non-negative, of the
requested type, and the slack inequality on every non-ignored edge -/
structure Solution (inp : ErrInput) (P : Nat → List Node) (w sl : Nat → Rat) : Prop where
  routes : ∀ i, i < inp.k → Route inp.st inp.fi.cfg.allowEmpty (P i)
  nonneg : ∀ i, i < inp.k → 0 ≤ w i ∧ 0 ≤ sl i
  integral : inp.fi.weightInt = true → ∀ i, i < inp.k → IsInt (w i) ∧ IsInt (sl i)
  slackOK : ∀ e ∈ inp.basicEdges, SlackOK inp P w sl e

/-- … with weights and slacks within the column bound `w_max` -/
structure Bounded (inp : ErrInput) (P : Nat → List Node) (w sl : Nat → Rat) : Prop
    extends Solution inp P w sl where
  wle : ∀ i, i < inp.k → w i ≤ inp.wmax none ∧ sl i ≤ inp.wmax none

/-- every non-ignored edge lies on some route -/
def Covers (inp : ErrInput) (P : Nat → List Node) : Prop :=
  ∀ e ∈ inp.basicEdges, ∃ i, i < inp.k ∧ trav inp.st (P i) e = 1

end MPE

end FP.Spec

namespace FP

/-- model of `kLeastAbsErrors.get_objective_value` (since fix 1c464ac):
`sum(err * self.edge_error_scaling.get(e, 1) for e, err in edge_errors.items())` — the error columns
read back from the solver (`edge_errors` has exactly the non-ignored edges as keys), each multiplied
by its scale factor -/
def reportedObjective (inp : ErrInput) (a : Asg) : Rat :=
  (inp.basicEdges.map fun e => a (eeVar e) * inp.scale e).sum

/-- history: before fix 1c464ac `get_objective_value` returned this *unscaled* sum of the error columns -/
def unscaledErrorSum (inp : ErrInput) (a : Asg) : Rat := (inp.basicEdges.map fun e => a (eeVar e)).sum

end FP
