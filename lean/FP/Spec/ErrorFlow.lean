import FP.Model.Enc.MEF
/-!
# FP.Spec.ErrorFlow — vocabulary of property C16 (closest non-negative flow)

* `IsFlow g x` — `x` is non-negative on the edges of `g` and conserved at every node of `g` that has
  both an incoming and an outgoing edge (nodes with only incoming or only outgoing edges are free);
* `qabs` — absolute value on `Rat`;
* `absErr es scale f x` — the total scaled absolute change `Σ_{e ∈ es} scale e · |f e − x e|`.
-/
namespace FP.Spec
open FP

/-- absolute value -/
def qabs (q : Rat) : Rat := if 0 ≤ q then q else -q

/-- total value on the edges entering `v` -/
def inSum (g : Graph) (x : Edge → Rat) (v : Node) : Rat := ((g.inEdges v).map x).sum
/-- total value on the edges leaving `v` -/
def outSum (g : Graph) (x : Edge → Rat) (v : Node) : Rat := ((g.outEdges v).map x).sum

/-- a non-negative flow on `g`: conservation is demanded exactly at the nodes that have both an
in-edge and an out-edge -/
structure IsFlow (g : Graph) (x : Edge → Rat) : Prop where
  nonneg : ∀ e ∈ g.edges, 0 ≤ x e
  cons : ∀ v ∈ g.nodes, g.inEdges v ≠ [] → g.outEdges v ≠ [] → inSum g x v = outSum g x v

/-- total scaled absolute change of `x` against the observation `f` over the edge list `es` -/
def absErr (es : List Edge) (scale f x : Edge → Rat) : Rat :=
  (es.map fun e => scale e * qabs (f e - x e)).sum

end FP.Spec

namespace FP
open FP.Spec

/-! ## the quantities of `MinErrorFlow` on its model graph -/

/-- observed weight of an edge (`data.get(flow_attr, 0)`) -/
def MEFInput.f (inp : MEFInput) (e : Edge) : Rat := lookupD inp.flow e 0
/-- error scale factor of an edge (`error_scaling.get(e, 1)`) -/
def MEFInput.scale (inp : MEFInput) (e : Edge) : Rat := lookupD inp.scaling e 1
/-- the edges of the model graph that are not ignored (user ignore list, scale factor 0, synthetic edges) -/
def MEFInput.active (inp : MEFInput) : List Edge := inp.graph.edges.filter fun e => !inp.ignored e
/-- `sparsity_lambda ·` (corrected flow leaving the synthetic source), present only for `lambda > 0` -/
def MEFInput.sparsity (inp : MEFInput) (x : Edge → Rat) : Rat :=
  if inp.lambda > 0 then inp.lambda * outSum inp.graph x srcName else 0
/-- what `MinErrorFlow` minimises: total scaled absolute change on the non-ignored edges plus the
sparsity term -/
def MEFInput.cost (inp : MEFInput) (x : Edge → Rat) : Rat :=
  absErr inp.active inp.scale inp.f x + inp.sparsity x

/-- the candidate flows of the LP: flows on the model graph with every value at most `ub = w_max·|E|`,
integral when `weight_type = int` -/
structure MEFInput.Candidate (inp : MEFInput) (x : Edge → Rat) : Prop where
  flow : IsFlow inp.graph x
  bounded : ∀ e ∈ inp.graph.edges, x e ≤ inp.ub
  integral : inp.weightInt = true → ∀ e ∈ inp.graph.edges, ∃ z : Int, x e = z

/-- well-formed observations: non-negative weights on all edges, scale factors in `[0, ∞)`, and integral
observed weights on the non-ignored edges when `weight_type = int` -/
structure MEFInput.DataOK (inp : MEFInput) : Prop where
  fNonneg : ∀ e ∈ inp.graph.edges, 0 ≤ inp.f e
  scaleNonneg : ∀ p ∈ inp.scaling, 0 ≤ p.2
  fInt : inp.weightInt = true → ∀ e ∈ inp.active, ∃ z : Int, inp.f e = z

end FP
