/-!
# FP.Spec.Walk — vocabulary for walks in multigraphs given as edge lists
-/
namespace FP.Spec
variable {V : Type} [DecidableEq V]

/-- consecutive pairs of a vertex sequence -/
def walkEdges (l : List V) : List (V × V) := l.zip l.tail

def outdeg (es : List (V × V)) (x : V) : Int := (es.countP (·.1 = x) : Nat)
def indeg  (es : List (V × V)) (x : V) : Int := (es.countP (·.2 = x) : Nat)
/-- out-degree minus in-degree -/
def bal (es : List (V × V)) (x : V) : Int := outdeg es x - indeg es x

/-- `y` is reachable from `x` along edges of `es` -/
inductive Reach (es : List (V × V)) : V → V → Prop
  | refl (x) : Reach es x x
  | step {x y z} : Reach es x y → (y, z) ∈ es → Reach es x z

end FP.Spec
