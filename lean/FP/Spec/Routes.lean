import FP.Model.Graph
import FP.Spec.Walk
/-!
# FP.Spec.Routes — what a source-to-sink route of the caller's graph is
-/
namespace FP.Spec
open FP

/-- every consecutive pair of `l` is an edge of `g` -/
def IsWalkIn (g : Graph) (l : List Node) : Prop := ∀ e ∈ walkEdges l, e ∈ g.edges

/-- number of traversals of `e` by the vertex sequence `l` -/
def traversals (l : List Node) (e : Edge) : Nat := (walkEdges l).count e

/-- `p` is an admissible route of the *user's* graph `base` with declared additional starts/ends:
non-empty, all nodes are nodes of `base`, consecutive nodes are adjacent in `base`, it starts at a
node without incoming edges or a declared start and ends at a node without outgoing edges or a
declared end. -/
structure ValidRoute (base : Graph) (starts ends : List Node) (p : List Node) : Prop where
  nonempty : p ≠ []
  nodes : ∀ v ∈ p, v ∈ base.nodes
  adjacent : IsWalkIn base p
  first : ∀ v, p.head? = some v → (base.pred v = [] ∨ v ∈ starts)
  last : ∀ v, p.getLast? = some v → (base.succ v = [] ∨ v ∈ ends)

/-- acyclicity witnessed by a rank function -/
def Acyclic (g : Graph) : Prop := ∃ rank : Node → Nat, ∀ e ∈ g.edges, rank e.1 < rank e.2

end FP.Spec
