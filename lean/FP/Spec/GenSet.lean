/-!
# FP.Spec.GenSet — vocabulary of the minimum generating set and the minimum set cover problems

Written against the docstrings of `flowpaths/mingenset.py` and `flowpaths/minsetcover.py`, not against
the encodings.

* `Generates g mult x` — `x = Σ cᵢ·gᵢ` with natural coefficients `cᵢ ≤ mult`
  ("every element of `a` can be expressed as the sum of some elements of the generating set", each element
  used at most `max_multiplicity` times);
* `IsGenSet g total numbers mult` — `Σ g = total`, all `gᵢ ≥ 0`, every number generated;
* `RespectsPartition g con` — every element of `g` is used exactly once to obtain the parts of `con`;
* `IsCover univ subsets ch` — every universe entry lies in a chosen subset; `coverWeight`.
-/
namespace FP.Spec

/-- `Σ cᵢ·gᵢ` (over the common prefix) -/
def dot : List Nat → List Rat → Rat
  | c :: cs, g :: gs => (c : Rat) * g + dot cs gs
  | _, _ => 0

/-- `x` is a sum of elements of `g`, the `i`-th one taken `cᵢ ≤ mult` times -/
def Generates (g : List Rat) (mult : Nat) (x : Rat) : Prop :=
  ∃ c : List Nat, c.length = g.length ∧ (∀ ci ∈ c, ci ≤ mult) ∧ dot c g = x

/-- `g` is a generating multiset of `numbers` for `total` with multiplicity `mult` -/
def IsGenSet (g : List Rat) (total : Rat) (numbers : List Rat) (mult : Nat) : Prop :=
  g.sum = total ∧ (∀ x ∈ g, 0 ≤ x) ∧ ∀ a ∈ numbers, Generates g mult a

/-- all values of `g` are integers (`weight_type=int`) -/
def AllInt (g : List Rat) : Prop := ∀ x ∈ g, ∃ z : Int, x = z

/-- sum of the elements of `g` that `assign` sends to part `j` -/
def partSum (assign : List Nat) (g : List Rat) (j : Nat) : Rat :=
  ((assign.zip g).map fun p => if p.1 = j then p.2 else 0).sum

/-- a partition constraint `con` (a number partition of `total`): every element of the generating set is
assigned to exactly one part and the elements assigned to part `j` add up to `con[j]` -/
def RespectsPartition (g : List Rat) (con : List Rat) : Prop :=
  ∃ assign : List Nat, assign.length = g.length ∧ (∀ p ∈ assign, p < con.length) ∧
    ∀ j, j < con.length → partSum assign g j = con.getD j 0

/-! ### decidable enumeration (for concrete witnesses) -/

/-- all coefficient lists of length `n` with entries `≤ mult` -/
def coeffLists (mult : Nat) : Nat → List (List Nat)
  | 0 => [[]]
  | n+1 => (List.range (mult + 1)).flatMap fun c => (coeffLists mult n).map fun cs => c :: cs

/-- executable `Generates` -/
def generatesB (g : List Rat) (mult : Nat) (x : Rat) : Bool :=
  (coeffLists mult g.length).any fun c => dot c g == x

/-! ### set cover -/

/-- every entry of the universe lies in some chosen subset (`ch i = true`: subset `i` is chosen) -/
def IsCover {α} [BEq α] (univ : List α) (subsets : List (List α)) (ch : Nat → Bool) : Prop :=
  ∀ el ∈ univ, ∃ i, ∃ h : i < subsets.length, ch i = true ∧ (subsets[i]).contains el = true

/-- total weight of the chosen subsets among the first `n` -/
def coverWeight (w : Nat → Rat) (n : Nat) (ch : Nat → Bool) : Rat :=
  ((List.range n).map fun i => if ch i then w i else 0).sum

end FP.Spec
