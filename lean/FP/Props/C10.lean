import FP.Model.PathCore
import FP.Model.WalkCore
import FP.Model.Enc.IgnoreBlock
import FP.Model.Enc.KMPE
import FP.Spec.Routes
import FP.Proofs.C10Constraints
import FP.Proofs.C10Ignore
import FP.Proofs.C10IgnoreMPE
import FP.Proofs.C10Witness
import FP.Proofs.C10Augment
import FP.Proofs.C10Subset
import FP.Proofs.C10SubsetComplete
import FP.Proofs.C10Example
/-!
# C10 — constraints, ignored elements and extra start/end nodes behave as documented

* T1 `constraint_honoured` (+ `_length`, `_route`): rows 7a/7b force every subpath constraint into
  one decoded path to the requested fraction.
* T2 `constraint_complete`: conversely, routes containing the constraints extend — by a choice of
  the `r` variables and nothing else — to a satisfying assignment. With T1: the feasible set of the
  LP with constraints, projected to the non-`r` variables, is exactly the feasible set of the LP
  without constraints intersected with "every constraint is contained in some route"; the
  objectives never mention `r`.
* T3 `ignore_is_row_deletion` (+ `_kcover`, `_klae`, `_kmpe`), `ignored_flow_irrelevant`,
  `scale_zero_eq_ignore` (+ `_kmpe`), `ignore_relaxes_*`: ignoring an edge deletes exactly that edge's block.
* T4 `augment_starts_ends` and corollaries: additional starts/ends enlarge the route set by exactly
  the routes starting/ending there.
* T5 `used_indicator_exact`, `subset_constraint_honoured`, `subset_constraint_complete`,
  `subset_block_exact`: the cyclic analogue of T1/T2 over the *set* of a constraint's edges.
-/
namespace FP.Props.C10
open FP FP.Spec

/-! ## T1 -/

/-- **Subpath constraints are honoured (edge-count coverage).** In every satisfying assignment of
`_encode_paths` on a well-formed s-t DAG, for every constraint `j` (whose edges are edges of the
graph, as the constructor checks) there is a layer `i` with `r(i,j) = 1` whose decoded path
contains at least `len(constraint_j) · coverage` of the constraint's list entries. -/
theorem constraint_honoured (s : STGraph) (c : PathCfg) (a : Asg) (hwf : STWF s)
    (hsat : Sat a (encodePaths s c)) (hcl : c.coverageLength = none)
    (j : Nat) (hj : j < c.constraints.length) (hedges : ∀ e ∈ c.constraints[j], e ∈ s.g.edges) :
    ∃ i, i < c.k ∧ a (rVar i j) = 1 ∧
      ∃ p, decodeLayer s (fun e i => a (edgeVar e i)) i = some p ∧
        (c.constraints[j].length : Rat) * c.coverage ≤
          ((c.constraints[j].countP
            (fun e => decide (e ∈ walkEdges (s.source :: p ++ [s.sink]))) : Nat) : Rat) :=
  FP.constraint_honoured s c a hwf hsat hcl j hj hedges

/-- **… length coverage.** The decoded path of the responsible layer contains constraint edges of
total length at least `total_len · coverage_length`. -/
theorem constraint_honoured_length (s : STGraph) (c : PathCfg) (a : Asg) (hwf : STWF s)
    (hsat : Sat a (encodePaths s c)) (cl : Rat) (hcl : c.coverageLength = some cl)
    (j : Nat) (hj : j < c.constraints.length) (hedges : ∀ e ∈ c.constraints[j], e ∈ s.g.edges) :
    ∃ i, i < c.k ∧ a (rVar i j) = 1 ∧
      ∃ p, decodeLayer s (fun e i => a (edgeVar e i)) i = some p ∧
        (c.constraints[j].map c.len).sum * cl ≤
          (c.constraints[j].map fun e =>
            if e ∈ walkEdges (s.source :: p ++ [s.sink]) then c.len e else 0).sum :=
  FP.constraint_honoured_length s c a hwf hsat cl hcl j hj hedges

/-- **… on the user's graph**: the responsible path is a non-empty admissible route of the caller's
DAG and the count is over the route's own edges. -/
theorem constraint_honoured_route (base : Graph) (starts ends : List Node) (c : PathCfg) (a : Asg)
    (h : BaseWF base) (hac : Acyclic base)
    (hsat : Sat a (encodePaths (augment base starts ends) c)) (hcl : c.coverageLength = none)
    (hcov : 0 < c.coverage)
    (j : Nat) (hj : j < c.constraints.length) (hne : c.constraints[j] ≠ [])
    (hedges : ∀ e ∈ c.constraints[j], e ∈ base.edges) :
    ∃ i, i < c.k ∧ ∃ p, decodeLayer (augment base starts ends) (fun e i => a (edgeVar e i)) i = some p ∧
      ValidRoute base starts ends p ∧
      (c.constraints[j].length : Rat) * c.coverage ≤
        ((c.constraints[j].countP (fun e => decide (e ∈ walkEdges p)) : Nat) : Rat) :=
  FP.constraint_honoured_route base starts ends c a h hac hsat hcl hcov j hj hne hedges

/-! ## T2 -/

/-- **Completeness of 7a/7b.** Any satisfying assignment of the LP *without* the constraints whose
edge variables are the indicators of routes `P i`, one of which (`resp j`) contains each constraint
`j` to the requested fraction, becomes a satisfying assignment of the LP *with* the constraints by
setting `r(i,j) = [i = resp j]` and changing no other variable. -/
theorem constraint_complete (s : STGraph) (c : PathCfg) (a : Asg) (P : Nat → List Edge)
    (resp : Nat → Nat) (hsat : Sat a (encodePaths s c.noConstraints))
    (hx : ∀ i, i < c.k → ∀ j (hj : j < c.constraints.length), ∀ e ∈ c.constraints[j],
      a (edgeVar e i) = if e ∈ P i then 1 else 0)
    (hlen : ∀ j (hj : j < c.constraints.length), ∀ e ∈ c.constraints[j], 0 ≤ c.len e)
    (hresp : ∀ j (hj : j < c.constraints.length), resp j < c.k ∧
      match c.coverageLength with
      | none => (c.constraints[j].length : Rat) * c.coverage ≤
          ((c.constraints[j].countP (fun e => decide (e ∈ P (resp j))) : Nat) : Rat)
      | some cl => (c.constraints[j].map c.len).sum * cl ≤
          (c.constraints[j].map fun e => if e ∈ P (resp j) then c.len e else 0).sum) :
    Sat (withR a resp) (encodePaths s c) ∧ ∀ v, v.isR = false → withR a resp v = a v :=
  FP.constraint_complete s c a P resp hsat hx hlen hresp

/-! ## T3 -/

/-- **Ignoring an edge deletes exactly its block (kFlowDecomp).** For an active edge `e` whose
removal does not change the weight bound `w_max` (the maximum flow over the *active* edges):
columns and objective are unchanged and the rows of the LP without `e` ignored are, as a multiset,
the rows of the LP with `e` ignored plus `e`'s `k` product blocks and its class row. -/
theorem ignore_is_row_deletion (inp : FlowInput) (e : Edge) (hnd : inp.st.g.edges.Nodup)
    (he : e ∈ inp.activeEdges) (hw : (inp.ignoreMore e).wmax = inp.wmax) :
    (kfdLP (inp.ignoreMore e)).cols = (kfdLP inp).cols ∧
    (kfdLP (inp.ignoreMore e)).obj = (kfdLP inp).obj ∧
    (kfdLP inp).rows.Perm ((kfdLP (inp.ignoreMore e)).rows ++ kfdEdgeRows inp e) :=
  FP.kfd_ignore_is_row_deletion inp e hnd he hw

/-- … in list form (order produced by `filter`), valid for every `e` -/
theorem ignore_is_row_deletion_filter (inp : FlowInput) (e : Edge)
    (hw : (inp.ignoreMore e).wmax = inp.wmax) :
    kfdLP (inp.ignoreMore e) = (encodePaths inp.st inp.cfg).append
      { cols := kfdCols inp.st inp.cfg.k inp.wmax inp.weightInt,
        rows := kfdRowsOf inp.cfg.k inp.f (inp.activeEdges.filter fun e' => e' != e) inp.wmax } :=
  FP.kfd_ignore_filter inp e hw

/-- ignoring an edge that is already ignored / synthetic / absent changes nothing -/
theorem ignore_inactive_noop (inp : FlowInput) (e : Edge) (he : e ∉ inp.activeEdges) :
    kfdLP (inp.ignoreMore e) = kfdLP inp ∧ kcoverLP (inp.ignoreMore e) = kcoverLP inp :=
  ⟨FP.kfd_ignore_inactive inp e he, FP.kcover_ignore_inactive inp e he⟩

/-- **The flow value of an ignored edge occurs nowhere in the LP**: changing the flow on ignored
edges (or dropping the attribute: `lookupD … 0`) leaves the LP literally unchanged. -/
theorem ignored_flow_irrelevant (inp : FlowInput) (flow' : List (Edge × Rat))
    (h : ∀ e ∈ inp.activeEdges, lookupD flow' e 0 = lookupD inp.flow e 0) :
    kfdLP { inp with flow := flow' } = kfdLP inp :=
  FP.kfd_ignored_flow_irrelevant inp flow' h

/-- **kPathCover**: same statement, no side condition -/
theorem ignore_is_row_deletion_kcover (inp : FlowInput) (e : Edge) (hnd : inp.st.g.edges.Nodup)
    (he : e ∈ inp.activeEdges) :
    (kcoverLP (inp.ignoreMore e)).cols = (kcoverLP inp).cols ∧
    (kcoverLP (inp.ignoreMore e)).obj = (kcoverLP inp).obj ∧
    (kcoverLP inp).rows.Perm ((kcoverLP (inp.ignoreMore e)).rows ++ kcoverEdgeRows inp e) :=
  FP.kcover_ignore_is_row_deletion inp e hnd he

/-- ignoring never makes a feasible cover model infeasible; same for kFlowDecomp at equal `w_max` -/
theorem ignore_relaxes_kcover (inp : FlowInput) (e : Edge) (a : Asg) (hsat : Sat a (kcoverLP inp)) :
    Sat a (kcoverLP (inp.ignoreMore e)) :=
  FP.kcover_ignore_relaxes inp e a hsat

theorem ignore_relaxes_kfd (inp : FlowInput) (e : Edge) (hw : (inp.ignoreMore e).wmax = inp.wmax)
    (a : Asg) (hsat : Sat a (kfdLP inp)) : Sat a (kfdLP (inp.ignoreMore e)) :=
  FP.kfd_ignore_relaxes inp e hw a hsat

/-- **kLeastAbsErrors**: ignoring `e` removes its rows, its error column and its objective term -/
theorem ignore_is_row_deletion_klae (inp : ErrInput) (e : Edge) (hnd : inp.st.g.edges.Nodup)
    (he : e ∈ inp.basicEdges) (hw : (inp.ignoreMore e).wmax none = inp.wmax none) :
    (klaeLP inp).rows.Perm ((klaeLP (inp.ignoreMore e)).rows ++ klaeEdgeRows inp e) ∧
    (klaeLP inp).obj.Perm ((klaeLP (inp.ignoreMore e)).obj ++ [(inp.scale e, eeVar e)]) ∧
    (klaeLP inp).cols.Perm ((klaeLP (inp.ignoreMore e)).cols
      ++ [errCol (inp.wmax none) inp.fi.weightInt e]) :=
  FP.klae_ignore_is_row_deletion inp e hnd he hw

/-- **error scale 0 ≡ ignore** (kLeastAbsErrors): the two LPs are equal -/
theorem scale_zero_eq_ignore (inp : ErrInput) (e : Edge) :
    klaeLP { inp with scaling := (e, 0) :: inp.scaling } = klaeLP (inp.ignoreMore e) :=
  FP.klae_scale_zero_eq_ignore inp e

/-- **kMinPathError**: ignoring `e` deletes exactly its three blocks (two product blocks, the two error
rows); columns and objective are unchanged -/
theorem ignore_is_row_deletion_kmpe (inp : MpeInput) (e : Edge) (hnd : inp.ei.st.g.edges.Nodup)
    (he : e ∈ inp.ei.basicEdges) (hw : (inp.ei.ignoreMore e).wmax none = inp.ei.wmax none) :
    (kmpeLP (inp.ignoreMore e)).cols = (kmpeLP inp).cols ∧
    (kmpeLP (inp.ignoreMore e)).obj = (kmpeLP inp).obj ∧
    (kmpeLP inp).rows.Perm ((kmpeLP (inp.ignoreMore e)).rows ++ kmpeEdgeRows inp e) :=
  FP.kmpe_ignore_is_row_deletion inp e hnd he hw

/-- **error scale 0 ≡ ignore** (kMinPathError) -/
theorem scale_zero_eq_ignore_kmpe (inp : MpeInput) (e : Edge) :
    kmpeLP { inp with ei := inp.ei.scaleZero e } = kmpeLP (inp.ignoreMore e) :=
  FP.kmpe_scale_zero_eq_ignore inp e

/-- ignoring relaxes the error models as well (same weight bound) -/
theorem ignore_relaxes_klae (inp : ErrInput) (e : Edge)
    (hw : (inp.ignoreMore e).wmax none = inp.wmax none) (a : Asg) (hsat : Sat a (klaeLP inp)) :
    Sat a (klaeLP (inp.ignoreMore e)) :=
  FP.klae_ignore_relaxes inp e hw a hsat

theorem ignore_relaxes_kmpe (inp : MpeInput) (e : Edge)
    (hw : (inp.ei.ignoreMore e).wmax none = inp.ei.wmax none) (a : Asg) (hsat : Sat a (kmpeLP inp)) :
    Sat a (kmpeLP (inp.ignoreMore e)) :=
  FP.kmpe_ignore_relaxes inp e hw a hsat

/-! ### the cyclic error models falsify the ignore part of C10 (the model mirrors the code)

For `klaecLP` (`kLeastAbsErrorsCycles`) the statements corresponding to `ignored_flow_irrelevant` and
`ignore_relaxes_*` are *false*; the witnesses below are replayed on the real code by the check
(known findings `C10-cyclic-cap-uses-ignored-flow`, `C10-walk-product-bits-from-wmax`). -/

/-- what C10 demands of the cyclic encoder: the flow of ignored edges does not reach the LP -/
def ignored_flow_irrelevant_klaec_FullStatement : Prop :=
  ∀ (inp : WalkInput) (flow' : List (Edge × Rat)),
    (∀ e ∈ inp.activeEdges true, flow'.lookup e = inp.flow.lookup e) →
    klaecLP { inp with flow := flow' } = klaecLP inp

/-- **falsified**: on `f → h ⇄ hc`, `h → g` with `(h, hc)` ignored, the flow value of the ignored edge
is the upper bound of its multiplicity variable (`compute_edge_max_reachable_value`) -/
theorem ignored_flow_irrelevant_klaec_false : ¬ ignored_flow_irrelevant_klaec_FullStatement := by
  intro h
  have := h (C10Witness.winp (3/2)) (C10Witness.winp (7/2)).flow C10Witness.agree_off_ignored
  exact C10Witness.klaec_ignored_flow_matters this.symm

/-- what C10 demands: ignoring one more edge keeps a feasible model feasible -/
def ignore_relaxes_klaec_FullStatement : Prop :=
  ∀ (inp : WalkInput) (e : Edge), (∃ a, Sat a (klaecLP inp)) →
    ∃ a, Sat a (klaecLP { inp with ignore := e :: inp.ignore })

/-- **falsified**: on `d → s → u0` with a loop at `s` (flows 1, 0, 0; the loop ignored), ignoring
`(d, s)` makes `w_max = 0`; the integer × continuous product then has no bits and forces the
multiplicity of `(s, u0)` to 0 — the LP becomes infeasible -/
theorem ignore_relaxes_klaec_false : ¬ ignore_relaxes_klaec_FullStatement := by
  intro h
  obtain ⟨a, ha⟩ := h (C10Witness.zinp [("s", "s")]) ("d", "s") ⟨_, C10Witness.klaec_feasible_before_ignoring⟩
  exact C10Witness.klaec_infeasible_after_ignoring a ha

/-! ## T4 -/

/-- **Source-to-sink walks of the augmented graph = admissible routes of the user's graph**, for
every well-formed user graph and all declared additional starts / ends (both directions). -/
theorem augment_starts_ends (base : Graph) (starts ends : List Node) (h : BaseWF base)
    (p : List Node) :
    IsWalkIn (augment base starts ends).g (srcName :: p ++ [snkName]) ↔
      ValidRoute base starts ends p :=
  FP.augment_starts_ends base starts ends h p

/-- enlarging `starts` / `ends` only adds admissible routes -/
theorem starts_ends_monotone (base : Graph) (starts starts' ends ends' : List Node)
    (hs : ∀ v ∈ starts, v ∈ starts') (he : ∀ v ∈ ends, v ∈ ends') (p : List Node)
    (h : ValidRoute base starts ends p) : ValidRoute base starts' ends' p :=
  FP.validRoute_mono base starts starts' ends ends' hs he p h

/-- … and adds *exactly* the routes starting (ending) at the new node -/
theorem new_route_starts_there (base : Graph) (starts ends : List Node) (v : Node) (p : List Node)
    (h : ValidRoute base (v :: starts) ends p) (hn : ¬ ValidRoute base starts ends p) :
    p.head? = some v :=
  FP.new_route_starts_there base starts ends v p h hn

theorem new_route_ends_there (base : Graph) (starts ends : List Node) (v : Node) (p : List Node)
    (h : ValidRoute base starts (v :: ends) p) (hn : ¬ ValidRoute base starts ends p) :
    p.getLast? = some v :=
  FP.new_route_ends_there base starts ends v p h hn

/-- declaring a node that already is a source (sink) changes nothing, not even the augmented graph -/
theorem start_at_source_noop (base : Graph) (starts ends : List Node) (v : Node)
    (hv : base.pred v = []) : augment base (v :: starts) ends = augment base starts ends :=
  FP.augment_start_at_source base starts ends v hv

theorem end_at_sink_noop (base : Graph) (starts ends : List Node) (v : Node)
    (hv : base.succ v = []) : augment base starts (v :: ends) = augment base starts ends :=
  FP.augment_end_at_sink base starts ends v hv

/-! ## T5 -/

/-- the two `min1` rows make `used_edge(e,i)` the indicator of `edge(e,i) ≥ 1` -/
theorem used_indicator_exact (a : Asg) (e : Edge) (i : Nat) (ub : Rat)
    (hu : a (usedVar e i) = 0 ∨ a (usedVar e i) = 1) (hx0 : 0 ≤ a (edgeVar e i))
    (hrows : ∀ r ∈ min1Rows e i ub, r.holds a) :
    (a (usedVar e i) = 1 ↔ 1 ≤ a (edgeVar e i)) ∧ (a (usedVar e i) = 0 ↔ a (edgeVar e i) = 0) :=
  FP.used_indicator_exact a e i ub hu hx0 hrows

/-- … and for an integral multiplicity in `[0, ub]` that indicator satisfies both rows -/
theorem used_indicator_complete (a : Asg) (e : Edge) (i : Nat) (ub : Rat)
    (hz : ∃ z : Int, a (edgeVar e i) = z) (hx0 : 0 ≤ a (edgeVar e i)) (hub : a (edgeVar e i) ≤ ub)
    (hu : a (usedVar e i) = if 1 ≤ a (edgeVar e i) then 1 else 0) :
    ∀ r ∈ min1Rows e i ub, r.holds a :=
  FP.used_indicator_complete a e i ub hz hx0 hub hu

/-- **Subset constraints are honoured**: the responsible walk traverses (multiplicity ≥ 1; the
multiplicities are the traversal counts of the reconstructed walk, C14) at least
`|set(constraint_j)| · coverage` of the *distinct* edges of the constraint. -/
theorem subset_constraint_honoured (s : STGraph) (c : WalkCfg) (ub : Edge → Rat) (a : Asg)
    (hsat : Sat a (walkCore s c ub)) (j : Nat) (hj : j < c.constraints.length)
    (hedges : ∀ e ∈ c.constraints[j], e ∈ s.g.edges) :
    ∃ i, i < c.k ∧ a (rVar i j) = 1 ∧
      (c.constraints[j].eraseDups.length : Rat) * c.coverage ≤
        ((c.constraints[j].eraseDups.countP (fun e => decide (1 ≤ a (edgeVar e i))) : Nat) : Rat) :=
  FP.subset_constraint_honoured s c ub a hsat j hj hedges

/-- **Completeness of the subset block** (the analogue of `constraint_complete`; formerly the unproven
`subset_constraint_complete_Statement`, which is true as it was written). Any satisfying assignment of
`_encode_walks` in which, for every subset constraint `j` (its edges are edges of the graph, as
`_check_valid_subset_constraints` enforces), the layer `resp j` traverses at least
`|set(constraint_j)| · coverage` of the constraint's distinct edges becomes a satisfying assignment of
`create_solver_and_walks` by the explicit choice `FP.subsetAsg`: `used_edge(e,i) = [edge(e,i) ≥ 1]`,
`r(i,j) = [layer i covers constraint j to the fraction]`; every column other than `r` / `used_edge` keeps its
value. No hypothesis was added: the coverage fraction is arbitrary, and the row `edge ≤ ub·used_edge` follows
from the column bound `edge(e,i) ≤ ub e`, which is part of `Sat a (encodeWalks s c ub)`. -/
theorem subset_constraint_complete (s : STGraph) (c : WalkCfg) (ub : Edge → Rat) (a : Asg) (resp : Nat → Nat)
    (hsat : Sat a (encodeWalks s c ub))
    (hresp : ∀ j (hj : j < c.constraints.length), resp j < c.k ∧
      (∀ e ∈ c.constraints[j], e ∈ s.g.edges) ∧
      (c.constraints[j].eraseDups.length : Rat) * c.coverage ≤
        ((c.constraints[j].eraseDups.countP (fun e => decide (1 ≤ a (edgeVar e (resp j)))) : Nat) : Rat)) :
    ∃ a', Sat a' (walkCore s c ub) ∧ (∀ e i, a' (edgeVar e i) = a (edgeVar e i)) ∧
      ∀ v, (∀ i j, v ≠ rVar i j) → (∀ e i, v ≠ usedVar e i) → a' v = a v :=
  ⟨_, FP.c10s_subset_complete_proof s c ub a resp hsat hresp⟩

/-- **The subset block is exact** (`subset_constraint_honoured` + `subset_constraint_complete`): the
feasible set of `create_solver_and_walks`, projected to the columns other than `r` / `used_edge`, is the
feasible set of `_encode_walks` intersected with "every subset constraint is covered, to the requested
fraction of its distinct edges, by some layer". -/
theorem subset_block_exact (s : STGraph) (c : WalkCfg) (ub : Edge → Rat) (a : Asg)
    (hedges : ∀ con ∈ c.constraints, ∀ e ∈ con, e ∈ s.g.edges) :
    (∃ a', Sat a' (walkCore s c ub) ∧
        ∀ v, (∀ i j, v ≠ rVar i j) → (∀ e i, v ≠ usedVar e i) → a' v = a v) ↔
      (Sat a (encodeWalks s c ub) ∧ ∀ j (hj : j < c.constraints.length), ∃ i, i < c.k ∧
        (c.constraints[j].eraseDups.length : Rat) * c.coverage ≤
          ((c.constraints[j].eraseDups.countP (fun e => decide (1 ≤ a (edgeVar e i))) : Nat) : Rat)) :=
  FP.c10s_subset_exact_proof s c ub a hedges

/-! ## non-vacuity -/

open FP.C10Example in
/-- T2 produces a satisfying assignment of the LP with the constraint `[(a,b),(b,c)]`, T1 applies to it -/
example : ∃ i, i < cfgC.k ∧ (withR PathCoreExample.asg (fun _ => 0)) (rVar i 0) = 1 ∧ ∃ p,
    decodeLayer PathCoreExample.st (fun e i => (withR PathCoreExample.asg (fun _ => 0)) (edgeVar e i)) i = some p ∧
    ((cfgC.constraints[0]'(by decide)).length : Rat) * cfgC.coverage ≤
      (((cfgC.constraints[0]'(by decide)).countP
        (fun e => decide (e ∈ walkEdges (PathCoreExample.st.source :: p ++ [PathCoreExample.st.sink]))) : Nat) : Rat) :=
  constraint_honoured PathCoreExample.st cfgC _ PathCoreExample.st_wf sat_with_constraint rfl 0
    (by decide) (by decide)

example := FP.C10Example.ignore_example
example := FP.C10Example.route_example
example := FP.C10Example.min1_example

open FP.C10SubsetExample in
/-- T5 completeness on the walk `source, s, a, a, a, t, sink` with the subset constraint `[(a,a), (a,t), (a,a)]`
(two distinct edges): the hypotheses are met, and `subset_constraint_honoured` applies to the result -/
example : ∃ a', Sat a' (walkCore WalkCoreExample.st cfgS WalkCoreExample.ub) ∧
    (∀ e i, a' (edgeVar e i) = WalkCoreExample.asg (edgeVar e i)) ∧
    ∀ v, (∀ i j, v ≠ rVar i j) → (∀ e i, v ≠ usedVar e i) → a' v = WalkCoreExample.asg v :=
  subset_constraint_complete WalkCoreExample.st cfgS WalkCoreExample.ub WalkCoreExample.asg (fun _ => 0)
    sat_enc resp_ok

example := FP.C10SubsetExample.ext_values

end FP.Props.C10
