import FP.Model.Enc.KCover
import FP.Model.Enc.KCoverC
import FP.Model.WalkDecode
import FP.Model.Width
import FP.Spec.Cover
import FP.Proofs.Cover
import FP.Proofs.FlowCover
import FP.Proofs.Width
import FP.Proofs.PathCoreExample
import FP.Proofs.C09WalkCover
import FP.Proofs.CondWalkCoverNeeds
import FP.Proofs.C09WalkComplete
/-!
# C09 — minimum path/walk covers cover everything with fewest routes; the width equals it

DAG part (`kPathCover`, `MinPathCover`, `stDAG.get_width`): proven.

* `kcover_sound` (T1), `kcover_complete` (T2), `kcover_feasible_iff`: the LP of `kPathCover` is
  feasible exactly when `k` source-to-sink paths cover every edge that is not ignored (and contain every
  subpath constraint, at coverage fraction 1), and every solution decodes to such paths.
* `cover_monotone` (T3), `mincover_search` (T4): with a faithful solver and a valid lower bound the loop
  of `MinPathCover.solve` returns the minimum cover size.
* `antichain_weak_duality` (T5), `antichain_of_unreachable`: an antichain is a lower bound; pairwise
  unreachability (a BFS check) makes an antichain — for digraphs with cycles as well.
* `flow_to_cover` (T6), `width_certificate`: a feasible integral flow of cost `c` decomposes into `c`
  covering paths; together with an antichain of the same size it certifies `c` = minimum cover size.
  The min-flow/max-antichain *strong duality* (that such a pair always exists and that the network
  simplex and the residual search find it) is not proven: the harness checks the pair on every run.

Cyclic part (`kPathCoverCycles`, `MinPathCoverCycles`, `stDiGraph.get_width`): LP soundness
(`walkcover_sound`, `walkcover_hascover`: every solution of the `kPathCoverCycles` LP decodes to `k`
source-to-sink walks covering every edge that is not ignored, and containing the subset constraints at
coverage fraction 1), LP completeness (`walkcover_complete`: every family of `k ≥ 1` covering walks within the
repetition caps extends to a solution whose edge variables are the traversal counts;
`walkcover_caps_suffice`: the caps `|E|·|V|` inside SCCs / `1` outside cut off no cover), hence
`walkcover_feasible_iff` and the minimum search `walkcover_search_minimal` /
`walkcover_search_finds_minimum`, and the lower-bound side (T5, `antichain_of_unreachable`) are proven for arbitrary
digraphs; the flow-to-walks direction on the condensation (`condensation_flow_to_walkcover`) and its corollary
`digraph_width_is_min_walk_cover` are proven under three extra hypotheses that are each shown necessary (`cwc_needs_*`).
-/
namespace FP.Props.C09
open FP FP.Spec FP.Search

/-- **T1.** every satisfying assignment of the `kPathCover` LP on a well-formed user DAG decodes to
`k` paths, each a valid simple route of the user's graph (or empty, only if empty paths are allowed),
such that every edge that is neither ignored nor synthetic lies on at least one of them -/
theorem kcover_sound (inp : FlowInput) (a : Asg) (h : BaseWF inp.base) (hac : Acyclic inp.base)
    (hsat : Sat a (kcoverLP inp)) :
    ∃ ps : List (List Node), decodePaths inp.st (fun e i => a (edgeVar e i)) inp.cfg.k = some ps ∧
      ps.length = inp.cfg.k ∧
      (∀ p ∈ ps, p ≠ [] → ValidRoute inp.base inp.starts inp.ends p ∧ p.Nodup) ∧
      (∀ p ∈ ps, p = [] → inp.cfg.allowEmpty = true) ∧
      ∀ e ∈ inp.activeEdges, ∃ p ∈ ps, e ∈ walkEdges p :=
  FP.kcover_sound inp a h hac hsat

/-- **T2.** `k` source-to-sink paths of the augmented graph covering every active edge and containing
every subpath constraint give a satisfying assignment (coverage fraction 1, no length coverage, no
position variables — the configuration `kPathCover` uses unless `length_attr` coverage is requested) -/
theorem kcover_complete (inp : FlowInput) (h : BaseWF inp.base) (hac : Acyclic inp.base)
    (routes : List (List Node)) (hk : routes.length = inp.cfg.k)
    (hcl : inp.cfg.coverageLength = none) (hcov : inp.cfg.coverage = 1)
    (hpos : inp.cfg.encodePosition = false)
    (hr : ∀ r ∈ routes, IsSTWalk inp.st r) (hc : Covers routes inp.activeEdges)
    (hs : Satisfies routes inp.cfg.constraints) :
    Sat (coverAsg routes inp.cfg.constraints) (kcoverLP inp) :=
  FP.kcover_complete inp (augment_wf _ _ _ h hac) routes hk hcl hcov hpos hr hc hs

/-- **feasible ⇔ a cover exists** (empty paths not allowed, the default) -/
theorem kcover_feasible_iff (inp : FlowInput) (h : BaseWF inp.base) (hac : Acyclic inp.base)
    (hae : inp.cfg.allowEmpty = false) (hcl : inp.cfg.coverageLength = none)
    (hcov : inp.cfg.coverage = 1) (hpos : inp.cfg.encodePosition = false)
    (hce : ∀ c ∈ inp.cfg.constraints, ∀ e ∈ c, e ∈ inp.st.g.edges) :
    (∃ a, Sat a (kcoverLP inp)) ↔ HasCover inp.st inp.activeEdges inp.cfg.constraints inp.cfg.k :=
  FP.kcover_feasible_iff inp (augment_wf _ _ _ h hac) hae hcl hcov hpos hce

/-- **T3.** -/
theorem cover_monotone (s : STGraph) (active : List Edge) (cons : List (List Edge)) (k : Nat)
    (hk : 1 ≤ k) (h : HasCover s active cons k) : HasCover s active cons (k + 1) :=
  FP.cover_monotone s active cons k hk h

/-- **T5.** distinct active edges no two of which lie on a common source-to-sink walk bound every cover
from below (any s-t digraph, cycles allowed) -/
theorem antichain_weak_duality (s : STGraph) (active : List Edge) (cons : List (List Edge))
    (A : List Edge) (hA : Antichain s A) (hact : ∀ e ∈ A, e ∈ active) (k : Nat)
    (h : HasCover s active cons k) : A.length ≤ k :=
  FP.antichain_weak_duality s active cons A hA hact k h

/-- what the harness's breadth-first check of a reported antichain establishes -/
theorem antichain_of_unreachable (s : STGraph) (A : List Edge) (hnd : A.Nodup)
    (h : ∀ e1 ∈ A, ∀ e2 ∈ A, e1 ≠ e2 → ¬ Reach s.g.edges e1.2 e2.1) : Antichain s A :=
  FP.antichain_of_unreachable s A hnd h

/-- **T4 (generic).** `stopSearch` with a faithful status script and a valid lower bound returns the
minimum cover size … -/
theorem cover_search_minimal (s : STGraph) (active : List Edge) (cons : List (List Edge))
    (σ : Nat → Status) (lo hi m : Nat)
    (hopt : ∀ k, σ k = .optimal → HasCover s active cons k)
    (hinf : ∀ k, σ k = .infeasible → ¬ HasCover s active cons k)
    (hlb : ∀ j, j < lo → ¬ HasCover s active cons j)
    (h : (stopSearch σ lo hi).solved = some m) : IsMinCover s active cons m :=
  FP.search_minimal_sound _ σ lo hi m hopt hinf hlb h

/-- … and finds it whenever it lies inside the searched range -/
theorem cover_search_finds_minimum (s : STGraph) (active : List Edge) (cons : List (List Edge))
    (σ : Nat → Status) (lo hi m : Nat)
    (hopt : ∀ k, HasCover s active cons k → σ k = .optimal)
    (hinf : ∀ k, ¬ HasCover s active cons k → σ k = .infeasible)
    (hlb : ∀ j, j < lo → ¬ HasCover s active cons j)
    (hm : IsMinCover s active cons m) (hhi : m < hi) :
    (stopSearch σ lo hi).solved = some m :=
  FP.search_minimal_complete _ σ lo hi m hopt hinf hlb hm.1 hm.2 hhi

/-- **`MinPathCover.solve`, end to end.** The solver is faithful (it reports `optimal` exactly for
feasible and `infeasible` exactly for infeasible `k`-models), the search starts at the size of an
antichain of active edges (the certificate behind `get_width`): an answer `m` is the minimum number of
paths covering every edge that is not ignored and containing the subpath constraints. -/
theorem mincover_search (inp : FlowInput) (h : BaseWF inp.base) (hac : Acyclic inp.base)
    (hae : inp.cfg.allowEmpty = false) (hcl : inp.cfg.coverageLength = none)
    (hcov : inp.cfg.coverage = 1) (hpos : inp.cfg.encodePosition = false)
    (hce : ∀ c ∈ inp.cfg.constraints, ∀ e ∈ c, e ∈ inp.st.g.edges)
    (σ : Nat → Status)
    (hopt : ∀ k, σ k = .optimal → ∃ a, Sat a (kcoverLP (withK inp k)))
    (hinf : ∀ k, σ k = .infeasible → ¬ ∃ a, Sat a (kcoverLP (withK inp k)))
    (A : List Edge) (hA : Antichain inp.st A) (hAact : ∀ e ∈ A, e ∈ inp.activeEdges)
    (hi m : Nat) (hs : (stopSearch σ A.length hi).solved = some m) :
    IsMinCover inp.st inp.activeEdges inp.cfg.constraints m :=
  FP.mincover_search inp h hac hae hcl hcov hpos hce σ hopt hinf A hA hAact hi m hs

/-- **T6.** an integral feasible flow of the min-flow instance (conserved at the inner nodes, at
least the demand on every edge) with source out-flow `c` decomposes into `c` source-to-sink paths
covering every edge of positive demand: the width is at least the minimum cover size -/
theorem flow_to_cover (s : STGraph) (hwf : STWF s) (demand f : Edge → Nat)
    (hf : CoveringFlow s demand f) (c : Nat) (hc : outN s.g f s.source = c) :
    HasCover s (s.g.edges.filter fun e => decide (1 ≤ demand e)) [] c :=
  FP.flow_to_cover s hwf demand f hf c hc

/-- **the run-time certificate of `get_width`.** a feasible integral flow whose cost equals the size of
an antichain of edges with positive demand: that number is the minimum size of a path cover -/
theorem width_certificate (s : STGraph) (hwf : STWF s) (demand f : Edge → Nat)
    (hf : CoveringFlow s demand f) (A : List Edge) (hA : Antichain s A)
    (hAact : ∀ e ∈ A, e ∈ s.g.edges.filter fun e => decide (1 ≤ demand e))
    (hcost : outN s.g f s.source = A.length) :
    IsMinCover s (s.g.edges.filter fun e => decide (1 ≤ demand e)) [] A.length :=
  FP.width_certificate s hwf demand f hf A hA hAact hcost

/-- the demands `stDAG.get_width(source_sink_edges ∪ ignored)` puts on the min-flow instance are the
indicator of the active edges (also when every edge is ignored: the empty weight dictionary means
demand 0 everywhere since fix 820f3e3) -/
theorem dag_width_demands (inp : FlowInput) (e : Edge) (he : e ∈ inp.st.g.edges) :
    lookupD (dagWidthDemands inp.st (inp.st.sourceSinkEdges ++ inp.ignore)) e 0
      = if e ∈ inp.activeEdges then 1 else 0 :=
  FP.dag_width_demands inp e he

/-! ### cyclic models -/

/-- **cyclic counterpart of T1.** Every satisfying assignment of the `kPathCoverCycles` LP on a well-formed
user digraph (cycles allowed), empty walks not allowed (the default), decodes (Eulerian reconstruction per
layer, `get_solution_walks`) to exactly `k` walks such that

* each decoded walk is a route of the *user's* graph (`ValidRoute`: from a node without in-edges or a declared
  start to a node without out-edges or a declared end) and, with the synthetic endpoints that
  `get_solution_walks` strips put back, a source-to-sink walk of the augmented graph;
* every edge that is not ignored lies on one of the decoded walks (already on the stripped walk: an edge that
  is not ignored is not a synthetic edge).

No hypothesis beyond those of the former `walkcover_sound_Statement` is needed (subset constraints and the
coverage fraction are arbitrary). Proof: `walkcore_sound` / `walk_routes_valid` (C01) + the cover rows. -/
theorem walkcover_sound (inp : WalkInput) (a : Asg) (h : BaseWF inp.base)
    (hae : inp.cfg.allowEmpty = false) (hsat : Sat a (kcovercLP inp)) :
    (decodeWalks inp.st a inp.k).length = inp.k ∧
    (∀ r ∈ decodeWalks inp.st a inp.k,
      IsSTWalk inp.st (inp.st.source :: r ++ [inp.st.sink]) ∧ ValidRoute inp.base inp.starts inp.ends r) ∧
    Covers (decodeWalks inp.st a inp.k) (inp.activeEdges false) :=
  FP.c09w_walkcover_sound_proof inp a h hae hsat

/-- **… in the vocabulary of covers** (the direction "feasible ⇒ a cover exists" of `kcover_feasible_iff`
for digraphs with cycles): a feasible `kPathCoverCycles` LP yields `k` source-to-sink walks of the augmented
graph covering every edge that is not ignored and containing every subset constraint completely. Two
hypotheses concern the constraints only: the coverage fraction is at least 1 (i.e. 1: the class accepts `(0, 1]`; `Satisfies`
speaks of complete containment) and every constraint edge is an edge of the augmented graph (anything else
is rejected by `_check_valid_subset_constraints`). -/
theorem walkcover_hascover (inp : WalkInput) (a : Asg) (h : BaseWF inp.base)
    (hae : inp.cfg.allowEmpty = false) (hsat : Sat a (kcovercLP inp)) (hcov : 1 ≤ inp.cfg.coverage)
    (hce : ∀ c ∈ inp.cfg.constraints, ∀ e ∈ c, e ∈ inp.st.g.edges) :
    HasCover inp.st (inp.activeEdges false) inp.cfg.constraints inp.k :=
  FP.c09w_hascover_proof inp a h hae hsat hcov hce

/-- feasible ⇒ a walk cover with `k` walks exists: the hypothesis `hopt` of `cover_search_minimal` for
`MinPathCoverCycles` with a solver that reports `optimal` only for feasible `k`-models -/
theorem walkcover_optimal_has_cover (inp : WalkInput) (h : BaseWF inp.base)
    (hae : inp.cfg.allowEmpty = false) (hcov : 1 ≤ inp.cfg.coverage)
    (hce : ∀ c ∈ inp.cfg.constraints, ∀ e ∈ c, e ∈ inp.st.g.edges)
    (hfeas : ∃ a, Sat a (kcovercLP inp)) :
    HasCover inp.st (inp.activeEdges false) inp.cfg.constraints inp.k :=
  hfeas.elim fun a hsat => walkcover_hascover inp a h hae hsat hcov hce

/-! #### completeness of the `kPathCoverCycles` LP -/

/-- **cyclic counterpart of T2.** `k ≥ 1` source-to-sink walks of the augmented graph (`walk i` is the inner
vertex sequence of the `i`-th one) such that (`WalkCoverWithin`)

* every edge that is not ignored lies on one of them,
* no walk runs through an edge more often than the model's cap for it (`kcovercCap`: `|E|·|V|` of the augmented
  graph — the `max_edge_repetition` the class passes — on the edges inside a strongly connected component, `1` on
  every other edge),
* every subset constraint is covered by one of them, to the coverage fraction of the model (`coversB`: the number
  of distinct constraint edges the walk uses is at least `|set(constraint)| · coverage`),

extend to a satisfying assignment of `kcovercLP` whose edge variables are the traversal counts (`selected_edge` =
first-entry edges, `distance` = first-visit ranks, `used_edge` = indicator of a positive count, `r(i, j)` = "walk
`i` covers constraint `j`"). No hypothesis on `allow_empty_walks`, the coverage fraction or the constraints. -/
theorem walkcover_complete (inp : WalkInput) (walk : Nat → List Node) (h : BaseWF inp.base)
    (hk : 0 < inp.k) (hw : WalkCoverWithin inp walk) :
    Sat (kcovercWalkAsg inp walk) (kcovercLP inp) ∧
      (∀ i e, kcovercWalkAsg inp walk (edgeVar e i)
        = (traversals (inp.st.source :: walk i ++ [inp.st.sink]) e : Rat)) ∧
      (∀ i e, multOf (kcovercWalkAsg inp walk) i e
        = traversals (inp.st.source :: walk i ++ [inp.st.sink]) e) :=
  FP.c09k_complete_proof inp walk h hk hw

/-- **"within the caps" is no restriction (1): one walk.** Every source-to-sink walk `r` of the augmented graph
has a companion `source :: p ++ [sink]` that runs through every edge of `r` and respects every cap: it uses no
edge more than `2|E| + 1 ≤ |E|·|V|` times (`FP.c09c_compress`: simple path to the first edge still to be visited,
the edge, and so on; a graph with a source-to-sink walk has `|V| ≥ 3`, `|E| ≥ 1`) and an edge outside the SCCs
at most once (as every walk does). With a smaller `max_edge_repetition` this fails: with `|V|` (seeded change
C09-2) the graphs `D(p, q)` with `p·q > |V|` have a one-walk cover, none within the caps, and
`MinPathCoverCycles` answers 2. -/
theorem walk_within_caps (inp : WalkInput) (h : BaseWF inp.base) (r : List Node) (hr : IsSTWalk inp.st r) :
    ∃ p, IsWalkIn inp.st.g (inp.st.source :: p ++ [inp.st.sink]) ∧
      (∀ e ∈ walkEdges r, e ∈ walkEdges (inp.st.source :: p ++ [inp.st.sink])) ∧
      ∀ e ∈ inp.st.g.edges,
        (traversals (inp.st.source :: p ++ [inp.st.sink]) e : Rat) ≤ kcovercCap inp e :=
  FP.c09k_route_within inp h r hr

/-- **"within the caps" is no restriction (2): covers.** Whatever `k` source-to-sink walks cover (every edge that
is not ignored; every subset constraint completely), `k` walks within the caps cover as well — for every `k`, in
particular for the minimum (coverage fraction at most 1, which the class enforces) … -/
theorem walkcover_caps_suffice (inp : WalkInput) (h : BaseWF inp.base) (hcov : inp.cfg.coverage ≤ 1)
    (hc : HasCover inp.st (inp.activeEdges false) inp.cfg.constraints inp.k) :
    ∃ walk, WalkCoverWithin inp walk :=
  FP.c09k_within_of_cover inp h hcov hc

/-- … and conversely a family within the caps is a cover in the sense of `HasCover` when the coverage fraction is
(at least) 1. At coverage fraction 1 the two notions coincide. -/
theorem walkcover_within_is_cover (inp : WalkInput) (walk : Nat → List Node) (hcov : 1 ≤ inp.cfg.coverage)
    (hw : WalkCoverWithin inp walk) :
    HasCover inp.st (inp.activeEdges false) inp.cfg.constraints inp.k :=
  FP.c09k_cover_of_within inp walk hcov hw

/-- **feasible ⇔ a walk cover with `k` walks exists** (cyclic counterpart of `kcover_feasible_iff`): empty walks
not allowed (the default; needed for ⇒), coverage fraction 1 (⇒ needs `≥ 1`, ⇐ needs `≤ 1`), constraints made of
edges of the augmented graph (needed for ⇒; anything else is rejected by the class). Any `k`, `k = 0` included
(then both sides say: nothing to cover). -/
theorem walkcover_feasible_iff (inp : WalkInput) (h : BaseWF inp.base) (hae : inp.cfg.allowEmpty = false)
    (hcov : inp.cfg.coverage = 1)
    (hce : ∀ c ∈ inp.cfg.constraints, ∀ e ∈ c, e ∈ inp.st.g.edges) :
    (∃ a, Sat a (kcovercLP inp)) ↔
      HasCover inp.st (inp.activeEdges false) inp.cfg.constraints inp.k :=
  FP.c09k_feasible_iff inp h hae hcov hce

/-- **feasible ⇔ a family within the caps exists** (`k ≥ 1`): the same in the vocabulary of `walkcover_complete` -/
theorem walkcover_feasible_iff_within (inp : WalkInput) (h : BaseWF inp.base) (hae : inp.cfg.allowEmpty = false)
    (hcov : inp.cfg.coverage = 1)
    (hce : ∀ c ∈ inp.cfg.constraints, ∀ e ∈ c, e ∈ inp.st.g.edges) (hk : 0 < inp.k) :
    (∃ a, Sat a (kcovercLP inp)) ↔ ∃ walk, WalkCoverWithin inp walk :=
  ⟨fun hf => walkcover_caps_suffice inp h (by rw [hcov]; exact Rat.le_refl)
      ((walkcover_feasible_iff inp h hae hcov hce).1 hf),
   fun ⟨walk, hw⟩ => ⟨_, (walkcover_complete inp walk h hk hw).1⟩⟩

/-- **`MinPathCoverCycles.solve`, end to end** (cyclic counterpart of `mincover_search`). The solver is faithful
(`optimal` only for feasible and `infeasible` only for infeasible `k`-models; nothing is assumed about other
statuses), the loop `for k in range(lowerbound, …)` starts at the size of an antichain of edges that are not
ignored (what `stDiGraph.get_width` certifies; `antichain_of_unreachable` turns pairwise unreachable edges into
one): an answer `m` is the minimum number of source-to-sink walks covering every edge that is not ignored and
containing every subset constraint — among *all* walk covers, not only those within the caps
(`walkcover_caps_suffice`). -/
theorem walkcover_search_minimal (inp : WalkInput) (h : BaseWF inp.base)
    (hae : inp.cfg.allowEmpty = false) (hcov : inp.cfg.coverage = 1)
    (hce : ∀ c ∈ inp.cfg.constraints, ∀ e ∈ c, e ∈ inp.st.g.edges)
    (σ : Nat → Status)
    (hopt : ∀ k, σ k = .optimal → ∃ a, Sat a (kcovercLP (inp.withK k)))
    (hinf : ∀ k, σ k = .infeasible → ¬ ∃ a, Sat a (kcovercLP (inp.withK k)))
    (A : List Edge) (hA : Antichain inp.st A) (hAact : ∀ e ∈ A, e ∈ inp.activeEdges false)
    (hi m : Nat) (hs : (stopSearch σ A.length hi).solved = some m) :
    IsMinCover inp.st (inp.activeEdges false) inp.cfg.constraints m :=
  FP.c09k_search_minimal inp h hae hcov hce σ hopt hinf A hA hAact hi m hs

/-- **… the least `k` for which a cover within the caps exists.** The answer `m` of the loop comes with `m` walks
within the caps of the `m`-model, and for no `j < m` is there a family of `j` walks within the caps of the
`j`-model (the caps do not depend on `k`). By `walkcover_caps_suffice` / `walkcover_within_is_cover` this is the
same statement as `walkcover_search_minimal`. -/
theorem walkcover_search_minimal_within (inp : WalkInput) (h : BaseWF inp.base)
    (hae : inp.cfg.allowEmpty = false) (hcov : inp.cfg.coverage = 1)
    (hce : ∀ c ∈ inp.cfg.constraints, ∀ e ∈ c, e ∈ inp.st.g.edges)
    (σ : Nat → Status)
    (hopt : ∀ k, σ k = .optimal → ∃ a, Sat a (kcovercLP (inp.withK k)))
    (hinf : ∀ k, σ k = .infeasible → ¬ ∃ a, Sat a (kcovercLP (inp.withK k)))
    (A : List Edge) (hA : Antichain inp.st A) (hAact : ∀ e ∈ A, e ∈ inp.activeEdges false)
    (hi m : Nat) (hs : (stopSearch σ A.length hi).solved = some m) :
    (∃ walk, WalkCoverWithin (inp.withK m) walk) ∧
      ∀ j, j < m → ¬ ∃ walk, WalkCoverWithin (inp.withK j) walk := by
  obtain ⟨hm, hmin⟩ := walkcover_search_minimal inp h hae hcov hce σ hopt hinf A hA hAact hi m hs
  refine ⟨walkcover_caps_suffice (inp.withK m) h (by show inp.cfg.coverage ≤ 1; rw [hcov]; exact Rat.le_refl) hm, ?_⟩
  rintro j hj ⟨walk, hw⟩
  exact hmin j hj (walkcover_within_is_cover (inp.withK j) walk
    (by show 1 ≤ inp.cfg.coverage; rw [hcov]; exact Rat.le_refl) hw)

/-- … and with a solver that decides every `k`-model the loop does return the minimum whenever it lies inside
the searched range (`hi = |E| + 1` in `MinPathCoverCycles.solve`) -/
theorem walkcover_search_finds_minimum (inp : WalkInput) (h : BaseWF inp.base)
    (hae : inp.cfg.allowEmpty = false) (hcov : inp.cfg.coverage = 1)
    (hce : ∀ c ∈ inp.cfg.constraints, ∀ e ∈ c, e ∈ inp.st.g.edges)
    (σ : Nat → Status)
    (hopt : ∀ k, (∃ a, Sat a (kcovercLP (inp.withK k))) → σ k = .optimal)
    (hinf : ∀ k, (¬ ∃ a, Sat a (kcovercLP (inp.withK k))) → σ k = .infeasible)
    (A : List Edge) (hA : Antichain inp.st A) (hAact : ∀ e ∈ A, e ∈ inp.activeEdges false)
    (hi m : Nat) (hm : IsMinCover inp.st (inp.activeEdges false) inp.cfg.constraints m) (hhi : m < hi) :
    (stopSearch σ A.length hi).solved = some m :=
  FP.c09k_search_finds inp h hae hcov hce σ hopt hinf A hA hAact hi m hm hhi

/-! note: `walkcover_sound` replaces the former `def walkcover_sound_Statement`, whose first clause read
`IsSTWalk inp.st r` for the decoded walk `r` itself; `get_solution_walks` strips the synthetic endpoints, so
that clause holds for `source :: r ++ [sink]` (see `walkcover_sound_literal_false` below). -/

/-! ### stated, not proven (cyclic models) -/

/-! #### begin `condensation_flow_to_walkcover` (cyclic T6) — proven -/

/-- **cyclic counterpart of T6.** a feasible integral flow of the min-flow instance
`stDiGraph.get_width` builds on the expanded condensation (demands `CondInput.demands`) with source
out-flow `cost` yields `cost` source-to-sink walks of the digraph covering every edge that is not
ignored, provided the labelling is the SCC labelling and every edge lies on a source-to-sink walk.
Proof (`FP.Proofs.CondWalkCover*`): the expanded condensation is a well-formed s-t DAG, the flow
decomposes into `cost` paths with exactly `f e` paths through every edge `e`; a path lifts to a walk
that tours all member edges of every SCC whose edge `(k, k_expanded)` it uses and crosses between two
SCCs along a parallel edge of its own (the demand on a condensation edge is the number of its parallel
edges minus the ignored ones, so there are enough paths to give every parallel edge that is not
ignored to a different one).

Two hypotheses were added to the statement as first written; without either of them it is false
(`FP.cwc_needs_closed`, `FP.cwc_needs_no_isolated`):
* `hclosed` — edges join nodes of the graph (always true of a networkx graph; the model's `Graph`
  does not enforce it and `condNodes` is computed from the node list);
* `hinc` — no isolated node (true of an `stDiGraph`: a node of the base graph without in-edges gets a
  source edge, the synthetic nodes have an edge each, `_post_build`); an isolated node is a component
  `source → k → sink` of the instance along which a flow may send units that no walk can realise.

`edges_to_ignore` may contain duplicates: since fix afcb013 `get_width` decrements `edge_multiplicity`
once per *distinct* ignored edge (before, once per entry: a duplicate lowered the demand below the
number of parallel edges left to cover and the width came out too small — the former hypothesis
`c.ignore.Nodup`; regression on the witness of that defect: `FP.cwc_duplicate_ignore_counts_once`). -/
theorem condensation_flow_to_walkcover (c : CondInput) (w d : List (Edge × Int)) (f : Edge → Nat)
    (cost : Nat)
    (hscc : ∀ u ∈ c.g.nodes, ∀ v ∈ c.g.nodes,
      c.comp u = c.comp v ↔ (Reach c.g.edges u v ∧ Reach c.g.edges v u))
    (hlive : ∀ e ∈ c.g.edges, Reach c.g.edges srcName e.1 ∧ Reach c.g.edges e.2 snkName)
    (hclosed : ∀ e ∈ c.g.edges, e.1 ∈ c.g.nodes ∧ e.2 ∈ c.g.nodes)
    (hinc : ∀ v ∈ c.g.nodes, ∃ e ∈ c.g.edges, e.1 = v ∨ e.2 = v)
    (hw : c.weightFunction = some w) (hd : c.demands = some d)
    (hf : CoveringFlow c.expandedST (fun e => (lookupD d e 0).toNat) f)
    (hcost : outN c.expandedST.g f c.expandedST.source = cost) :
    HasCover ⟨c.g, srcName, snkName⟩ (c.g.edges.filter fun e => !c.ignore.contains e) [] cost :=
  FP.cwc_condensation_flow_to_walkcover c w d f cost hscc hlive hclosed hinc hw hd hf hcost

/-- **`stDiGraph.get_width` = minimum walk cover, given the certificate.** a feasible integral flow of
the instance on the expanded condensation whose cost equals the size of a set of pairwise unreachable
edges that are not ignored: that number is the minimum number of source-to-sink walks covering every
edge that is not ignored (upper bound: `condensation_flow_to_walkcover`; lower bound: T5 +
`antichain_of_unreachable`). That the min-cost flow and such an antichain of equal size always exist
(strong duality) and that the network simplex finds the former is not proven. -/
theorem digraph_width_is_min_walk_cover (c : CondInput) (w d : List (Edge × Int)) (f : Edge → Nat)
    (hscc : ∀ u ∈ c.g.nodes, ∀ v ∈ c.g.nodes,
      c.comp u = c.comp v ↔ (Reach c.g.edges u v ∧ Reach c.g.edges v u))
    (hlive : ∀ e ∈ c.g.edges, Reach c.g.edges srcName e.1 ∧ Reach c.g.edges e.2 snkName)
    (hclosed : ∀ e ∈ c.g.edges, e.1 ∈ c.g.nodes ∧ e.2 ∈ c.g.nodes)
    (hinc : ∀ v ∈ c.g.nodes, ∃ e ∈ c.g.edges, e.1 = v ∨ e.2 = v)
    (hw : c.weightFunction = some w) (hd : c.demands = some d)
    (hf : CoveringFlow c.expandedST (fun e => (lookupD d e 0).toNat) f)
    (A : List Edge) (hA : A.Nodup)
    (hAact : ∀ e ∈ A, e ∈ c.g.edges.filter fun e => !c.ignore.contains e)
    (hun : ∀ e1 ∈ A, ∀ e2 ∈ A, e1 ≠ e2 → ¬ Reach c.g.edges e1.2 e2.1)
    (hcost : outN c.expandedST.g f c.expandedST.source = A.length) :
    IsMinCover ⟨c.g, srcName, snkName⟩ (c.g.edges.filter fun e => !c.ignore.contains e) [] A.length := by
  refine ⟨condensation_flow_to_walkcover c w d f _ hscc hlive hclosed hinc hw hd hf hcost,
    fun j hj hcov => ?_⟩
  have := antichain_weak_duality ⟨c.g, srcName, snkName⟩ _ [] A
    (antichain_of_unreachable ⟨c.g, srcName, snkName⟩ A hA hun) hAact j hcov
  omega

/-! ##### non-vacuity: `s → a ⇄ b`, exits `a → t`, `b → t` (augmented): exactly two walks,
`source s a b a t sink` and `source s a b t sink` (the parallel exits need a walk each) -/

/-- the augmented digraph with its SCC labelling; the source and sink edges are ignored -/
def cyc1 : CondInput :=
  { g := { nodes := ["s", "a", "b", "t", "source", "sink"],
           edges := [("s", "a"), ("a", "b"), ("a", "t"), ("b", "a"), ("b", "t"), ("t", "sink"),
                     ("source", "s")] },
    scc := [("sink", 0), ("t", 1), ("a", 2), ("b", 2), ("s", 3), ("source", 4)],
    ignore := [("source", "s"), ("t", "sink")] }

theorem cyc1_closed : ∀ e ∈ cyc1.g.edges, e.1 ∈ cyc1.g.nodes ∧ e.2 ∈ cyc1.g.nodes := by decide

set_option maxRecDepth 20000 in
theorem cyc1_scc : ∀ u ∈ cyc1.g.nodes, ∀ v ∈ cyc1.g.nodes,
    cyc1.comp u = cyc1.comp v ↔ (Reach cyc1.g.edges u v ∧ Reach cyc1.g.edges v u) :=
  cwc_scc_of_reachFrom cyc1 cyc1_closed (by decide)

set_option maxRecDepth 20000 in
theorem cyc1_live :
    ∀ e ∈ cyc1.g.edges, Reach cyc1.g.edges srcName e.1 ∧ Reach cyc1.g.edges e.2 snkName :=
  cwc_live_of_reachFrom cyc1.g (by decide)

/-- two units along `source 4 3 2 2_expanded 1 0 sink` (the demand on `2_expanded → 1` is 2) -/
def cyc1Flow : Edge → Nat := fun _ => 2

example : (cyc1.demands.getD []).lookup ("2_expanded", "1") = some 2 := by decide

set_option maxRecDepth 20000 in
theorem cyc1_flow : CoveringFlow cyc1.expandedST
    (fun e => (lookupD (cyc1.demands.getD []) e 0).toNat) cyc1Flow := ⟨by decide, by decide⟩

set_option maxRecDepth 20000 in
/-- two walks cover `s → a`, `a → b`, `b → a`, `a → t`, `b → t` … -/
theorem cyc1_cover : HasCover ⟨cyc1.g, srcName, snkName⟩
    (cyc1.g.edges.filter fun e => !cyc1.ignore.contains e) [] 2 :=
  condensation_flow_to_walkcover cyc1 (cyc1.weightFunction.getD []) (cyc1.demands.getD []) cyc1Flow 2
    cyc1_scc cyc1_live cyc1_closed (by decide) (by decide) (by decide) cyc1_flow (by decide)

set_option maxRecDepth 20000 in
/-- … and 2 is the minimum (antichain: the parallel exits `a → t`, `b → t`) -/
example : IsMinCover ⟨cyc1.g, srcName, snkName⟩
    (cyc1.g.edges.filter fun e => !cyc1.ignore.contains e) [] 2 :=
  digraph_width_is_min_walk_cover cyc1 (cyc1.weightFunction.getD []) (cyc1.demands.getD []) cyc1Flow
    cyc1_scc cyc1_live cyc1_closed (by decide) (by decide) (by decide) cyc1_flow
    [("a", "t"), ("b", "t")] (by decide) (by decide)
    (cwc_unreachable_of_reachFrom cyc1.g cyc1_closed _ (by decide) (by decide)) (by decide)

/-! #### end `condensation_flow_to_walkcover` -/

/-- the lower-bound side for walks, from a condensation antichain: pairwise unreachable active edges
(parallel edges between two SCCs are pairwise unreachable; at most one edge per SCC) bound every walk
cover from below — this *is* proven, as a corollary of T5 -/
theorem walkcover_condensation_lower_bound (s : STGraph) (active : List Edge) (A : List Edge)
    (hnd : A.Nodup) (hact : ∀ e ∈ A, e ∈ active)
    (hun : ∀ e1 ∈ A, ∀ e2 ∈ A, e1 ≠ e2 → ¬ Reach s.g.edges e1.2 e2.1) (k : Nat)
    (h : HasCover s active [] k) : A.length ≤ k :=
  antichain_weak_duality s active [] A (antichain_of_unreachable s A hnd hun) hact k h

/-- parallel edges between two components (and, generally, an edge into a later component versus an
edge out of an earlier one) are pairwise unreachable: each needs a walk of its own — why the
multiplicity of parallel inter-SCC edges is the demand on the condensation edge -/
theorem inter_scc_unreachable (es : List Edge) (comp : Node → Nat) (rank : Nat → Nat)
    (hmono : ∀ e ∈ es, comp e.1 = comp e.2 ∨ rank (comp e.1) < rank (comp e.2)) (e1 e2 : Edge)
    (h : rank (comp e2.1) < rank (comp e1.2)) : ¬ Reach es e1.2 e2.1 :=
  FP.inter_scc_unreachable es comp rank hmono e1 e2 h

/-! ### non-vacuity: the DAG `a → b → c`, `a → c` needs exactly two paths -/

section Example
open FP.PathCoreExample

def inp2 : FlowInput := { base := base, flow := [], cfg := { k := 2 } }

def routes2 : List (List Node) := [["source", "a", "b", "c", "sink"], ["source", "a", "c", "sink"]]

theorem inp2_active : inp2.activeEdges = [("a", "b"), ("a", "c"), ("b", "c")] := by decide

theorem routes2_walk : ∀ r ∈ routes2, IsSTWalk inp2.st r := by
  intro r hr
  simp only [routes2, List.mem_cons, List.not_mem_nil, or_false] at hr
  rcases hr with rfl | rfl
  · exact ⟨by decide, by decide, by unfold IsWalkIn; decide⟩
  · exact ⟨by decide, by decide, by unfold IsWalkIn; decide⟩

theorem routes2_cover : Covers routes2 inp2.activeEdges := by
  rw [inp2_active]
  intro e he
  simp only [List.mem_cons, List.not_mem_nil, or_false] at he
  rcases he with rfl | rfl | rfl
  · exact ⟨_, List.mem_cons_self, by decide⟩
  · exact ⟨_, List.mem_cons_of_mem _ List.mem_cons_self, by decide⟩
  · exact ⟨_, List.mem_cons_self, by decide⟩

theorem cover2 : HasCover inp2.st inp2.activeEdges [] 2 :=
  ⟨routes2, rfl, routes2_walk, routes2_cover, fun c hc => by simp at hc⟩

/-- the LP for `k = 2` is satisfiable (hypotheses of T1 are met by the assignment T2 builds) -/
theorem sat2 : Sat (coverAsg routes2 []) (kcoverLP inp2) :=
  kcover_complete inp2 base_wf base_acyclic routes2 rfl rfl rfl rfl routes2_walk routes2_cover
    (fun c hc => by simp [inp2] at hc)

example := kcover_sound inp2 _ base_wf base_acyclic sat2

/-- `(a,b)` and `(a,c)` leave the same node: an antichain of size 2 -/
theorem antichain2 : Antichain inp2.st [("a", "b"), ("a", "c")] :=
  ⟨by decide, fun r hr e1 he1 e2 he2 h1 h2 => by
    apply same_tail_incomparable (augment_wf _ _ _ base_wf base_acyclic) hr e1 e2 h1 h2
    simp only [List.mem_cons, List.not_mem_nil, or_false] at he1 he2
    rcases he1 with rfl | rfl <;> rcases he2 with rfl | rfl <;> rfl⟩

/-- so one path does not suffice, and the minimum is 2 -/
theorem mincover2 : IsMinCover inp2.st inp2.activeEdges [] 2 := by
  refine ⟨cover2, fun j hj hc => ?_⟩
  have := antichain_weak_duality inp2.st inp2.activeEdges [] _ antichain2
    (by rw [inp2_active]; decide) j hc
  simp at this; omega

/-- the LP for `k = 1` is infeasible -/
example : ¬ ∃ a, Sat a (kcoverLP (withK inp2 1)) := by
  intro hsat
  have := (kcover_feasible_iff (withK inp2 1) base_wf base_acyclic rfl rfl rfl rfl
    (fun c hc => by simp [withK, inp2] at hc)).1 hsat
  exact mincover2.2 1 (by decide) this

/-- the search started at the antichain size answers 2 -/
example : (stopSearch (fun k => if k < 2 then .infeasible else .optimal) 2 5).solved = some 2 := by decide

/-- the flow certificate: 1 unit on `source→a→b→c→sink`, 1 unit on `a→c` (2 on `source→a`, `c→sink`) -/
def flow2 : Edge → Nat := fun e =>
  if e = ("source", "a") ∨ e = ("c", "sink") then 2
  else if e ∈ [("a", "b"), ("b", "c"), ("a", "c")] then 1 else 0

def demand2 : Edge → Nat := fun e => if e ∈ inp2.activeEdges then 1 else 0

theorem flow2_covering : CoveringFlow inp2.st demand2 flow2 :=
  ⟨by decide, by decide⟩

example : IsMinCover inp2.st (inp2.st.g.edges.filter fun e => decide (1 ≤ demand2 e)) [] 2 :=
  width_certificate inp2.st (augment_wf _ _ _ base_wf base_acyclic) demand2 flow2 flow2_covering
    [("a", "b"), ("a", "c")] antichain2 (by decide) (by decide)

/-- the condensation model on `s → a ⇄ b → t` with the parallel exit `b → t`: SCC `{a, b}` expands
to an edge of weight 1, both exits `a → t`, `b → t` count (multiplicity 2) -/
example : (CondInput.weightFunction
    { g := { nodes := ["s", "a", "b", "t", "source", "sink"],
             edges := [("s", "a"), ("a", "b"), ("a", "t"), ("b", "a"), ("b", "t"), ("t", "sink"), ("source", "s")] },
      scc := [("sink", 0), ("t", 1), ("a", 2), ("b", 2), ("s", 3), ("source", 4)],
      ignore := [("source", "s"), ("t", "sink")] }).map (fun w => lookupD w ("2_expanded", "1") 0) = some 2 := by
  decide

end Example

/-! ### non-vacuity, cyclic: `s → a → t` with a self-loop at `a` that a subset constraint requires -/

section WalkExample
open FP.C09WalkExample

/-- the hypotheses of `walkcover_sound` are met by a concrete assignment (walk `s, a, a, a, t`) -/
example := walkcover_sound inpC asgC WalkCoreExample.base_wf rfl satC

example : decodeWalks inpC.st asgC inpC.k = [["s", "a", "a", "a", "t"]] := decodeC

example : HasCover inpC.st [("s", "a"), ("a", "a"), ("a", "t")] [[("a", "a")]] 1 :=
  inpC_active ▸ walkcover_hascover inpC asgC WalkCoreExample.base_wf rfl satC (by decide) (by decide)

/-- **non-vacuity of `walkcover_complete`**: the family `[source, s, a, a, a, t, sink]` is within the caps (the
loop is used twice, its cap is 25), the assignment built from it satisfies the LP and has `edge((a,a),0) = 2` -/
example : Sat (kcovercWalkAsg inpC walkC) (kcovercLP inpC) ∧ kcovercWalkAsg inpC walkC (edgeVar ("a", "a") 0) = 2 :=
  ⟨(walkcover_complete inpC walkC WalkCoreExample.base_wf (by decide) withinC).1, walkAsgC_loop⟩

/-- one walk covers `s → a`, the loop and `a → t` and contains the constraint … -/
theorem coverC : HasCover inpC.st (inpC.activeEdges false) inpC.cfg.constraints inpC.k :=
  walkcover_within_is_cover inpC walkC (by decide) withinC

example : ∃ walk, WalkCoverWithin inpC walk :=
  walkcover_caps_suffice inpC WalkCoreExample.base_wf (by decide) coverC

/-- … so the `k = 1` model is feasible (`walkcover_feasible_iff`, ⇐), the `k = 0` model is not (⇒) -/
example : ∃ a, Sat a (kcovercLP inpC) :=
  (walkcover_feasible_iff inpC WalkCoreExample.base_wf rfl rfl (by decide)).2 coverC

theorem noCover0 : ¬ HasCover inpC.st (inpC.activeEdges false) inpC.cfg.constraints 0 := by
  rintro ⟨routes, hlen, _, hc, _⟩
  have hr : routes = [] := List.eq_nil_of_length_eq_zero hlen
  subst hr
  obtain ⟨r, hr, _⟩ := hc ("s", "a") (by rw [inpC_active]; decide)
  simp at hr

example : ¬ ∃ a, Sat a (kcovercLP (inpC.withK 0)) := fun h =>
  noCover0 ((walkcover_feasible_iff (inpC.withK 0) WalkCoreExample.base_wf rfl rfl (by decide)).1 h)

theorem hceC : ∀ c ∈ inpC.cfg.constraints, ∀ e ∈ c, e ∈ inpC.st.g.edges := by decide

theorem coverC_ge (k : Nat) (hk : 1 ≤ k) :
    HasCover inpC.st (inpC.activeEdges false) inpC.cfg.constraints k := by
  induction k with
  | zero => omega
  | succ n ih =>
    by_cases hn : n = 0
    · subst hn; exact coverC
    · exact cover_monotone _ _ _ n (by omega) (ih (by omega))

/-- the search with a faithful solver, started at the antichain `[(s, a)]`, answers 1, the minimum -/
example : IsMinCover inpC.st (inpC.activeEdges false) inpC.cfg.constraints 1 :=
  walkcover_search_minimal inpC WalkCoreExample.base_wf rfl rfl (by decide)
    (fun k => if k < 1 then .infeasible else .optimal)
    (fun k hk => by
      have hk1 : 1 ≤ k := by
        apply Classical.byContradiction; intro hlt
        have : k < 1 := by omega
        simp [this] at hk
      exact (walkcover_feasible_iff (inpC.withK k) WalkCoreExample.base_wf rfl rfl hceC).2 (coverC_ge k hk1))
    (fun k hk hfeas => by
      have hk0 : k = 0 := by
        apply Classical.byContradiction; intro hne
        have : ¬ k < 1 := by omega
        simp [this] at hk
      subst hk0
      exact noCover0 ((walkcover_feasible_iff (inpC.withK 0) WalkCoreExample.base_wf rfl rfl (by decide)).1 hfeas))
    [("s", "a")] ⟨by decide, fun r _ e1 he1 e2 he2 _ _ => by
      simp only [List.mem_cons, List.not_mem_nil, or_false] at he1 he2
      rw [he1, he2]⟩
    (by rw [inpC_active]; decide) 6 1 (by decide)

/-- the literal reading of the former statement (decoded walks *themselves* start at the synthetic source) is
false: the decoded walk of the example starts at `s` -/
theorem walkcover_sound_literal_false :
    ¬ ∀ (inp : WalkInput) (a : Asg), BaseWF inp.base → inp.cfg.allowEmpty = false → Sat a (kcovercLP inp) →
      (∀ r ∈ decodeWalks inp.st a inp.k, IsSTWalk inp.st r) ∧
      Covers (decodeWalks inp.st a inp.k) (inp.activeEdges false) := by
  intro hall
  have h := (hall inpC asgC WalkCoreExample.base_wf rfl satC).1
  rw [decodeC] at h
  exact absurd (h _ List.mem_cons_self).first (by decide)

end WalkExample

end FP.Props.C09
