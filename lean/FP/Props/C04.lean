import FP.Proofs.KFDC
import FP.Proofs.KFDCScale
import FP.Proofs.KFDCComplete
import FP.Proofs.KFDCWalks
import FP.Proofs.KFDCSearch
import FP.Proofs.WalkWitness
import FP.Proofs.Reach
import FP.Proofs.KFDCRangeWitness
import FP.Proofs.KFDCRangeInt
import FP.Proofs.KFDCRangeRat
import FP.Proofs.KFDCRangeCons
import FP.Proofs.FlowDecompExists
/-!
# C04 — MinFlowDecompCycles finds a decomposition into the fewest walks

Objects (all mirrored from the code and tied to it by the harness):
`kfdcLP inp given` — the MILP of `kFlowDecompCycles.__init__` for the user's digraph `inp.base` with flow
`inp.f`, `k = inp.k` layers, safety optimisations off (K2: LP-dump equality with the real constructor);
`kfdcCap inp e` — `edge_upper_bounds[e]` (floor of the own flow value inside an SCC — floored since fix
fcfd0b0, so always an integer: `kfdc_cap_int` —, floor of `w_max` without the attribute, `1` outside SCCs); `decodeWalkLayer` — `get_solution_walks` (C14/C01);
`stopSearchTimed` — the k-loop of `MinFlowDecompCycles.solve` (K3 traces, C13).

* T1 `kfdc_exact`       — every satisfying assignment decodes to walks and weights explaining every
                          non-ignored edge exactly, multiplicities within the caps (any `w_max`, also
                          fractional: `intProdQ_sound`).
* T2 `kfdc_complete`    — every family of multiplicities/weights with connectivity witnesses that respects
                          the caps extends to a satisfying assignment (any `w_max`, natural or fractional);
     `walk_has_conn_witness` — every source-to-sink walk has such witnesses;
     `kfdc_complete_walks`   — the two combined, for walks.
* T3 `cap_adequate_int`, `cap_adequate_floor` — with weights ≥ 1 a walk runs through `e` at most `f e`, hence
                          at most `floor(f e)` times;
     `cap_adequate_min_weight` — with weights ≥ δ at most `f e / δ` times (soundness of the proposed repair).
     `nonScc_once`, `caps_are_flows`, `within_of_int` — a walk runs through an edge outside the SCCs at
                          most once (the model's iterated-closure reachability is sound and complete),
                          so families with weights ≥ 1 meet all caps by themselves.
* T4 `scale_law_counterexample` — the cap is not scale invariant (self-loop instance, flows 1 vs 1/2:
                          caps `1` vs `floor(1/2) = 0`, `scale_law_cap_violated`).
* T5 `mfdc_search_minimal`, `mfdc_search_finds`, `mfdc_min_walks`, `mfdc_minimum_int` — the search
                          returns the least feasible k; no decomposition with weights ≥ 1 has fewer walks.

* T6 the search range — `range(lower bound, |E(G)| + 1)` until fix 26b11a1, since then
     `range(lower bound, |E(G)| + len(subset_constraints) + 1)`:
     `search_range_counterexample`, `search_range_not_adequate` — the OLD range was not adequate: with
                          subset constraints the minimum number of walks can exceed `|E|` (two sources →
                          hub → three sinks, the six constraints `{(s_a,m),(m,t_b)}`: satisfiable for
                          `k = 6`, for no `k ≤ 5 = |E|`; the old `solve()` returned `False`) — the reason
                          for fix 26b11a1, kept as regression theorems;
     `search_range_witness_solved` — over the repaired range the search returns `6` on that witness;
     `search_range_adequate_constraints`, `search_range_adequate_constraints_float` — the repaired range
                          is adequate: some k-model satisfiable ⇒ one with `≤ |E| + #constraints` layers
                          is (integer weights: edge mode, nothing ignored; float weights: ignored edges
                          and additional starts/ends allowed; both: every edge with the flow attribute,
                          no empty layers, constraint edges in the graph, some flow value `≥ 1`): at most
                          `|E|` walks for the flow plus one covering walk of weight `0` per constraint;
     `search_range_adequate` — without subset constraints `≤ |E|` layers suffice for plain integer
                          instances (`walks_at_most_edges`, `few_walks_suffice`: any family of walks with
                          positive integer weights can be replaced by at most `|E|` walks with the same
                          weighted traversal counts);
     `search_range_adequate_float` — … and for float weights when every edge has the flow attribute and
                          some non-ignored flow value is `≥ 1` (`caratheodory`);
     `search_range_adequate_of_bound`, `mfdc_search_complete_plain`, `mfdc_search_complete_float`,
     `mfdc_search_complete_constraints`, `mfdc_search_complete_constraints_float` — what the range
                          guarantees: if a k-model with `j < hi` layers is satisfiable, the lower bound
                          is valid and the solver is conclusive and in time on `lo … j`, the search
                          returns the least satisfiable `k`; on the classes above this holds whenever a
                          decomposition exists at all.

Not covered by T6 (open, not refuted): integer weights together with ignored edges, additional
starts/ends (node mode) or edges without the attribute; float weights when all non-ignored flow values
are below `1` (there the product blocks get too few bits for the completeness theorem T2, and the caps of
T4 make most such instances unsatisfiable anyway); `allow_empty_walks` together with subset constraints.
Not modelled: `stDiGraph.get_width` / the min-gen-set bound as valid lower bounds (hypothesis `hlo`;
brute-force oracle).
-/
namespace FP.Props.C04
open FP FP.Spec FP.Search

/-! ## T1: soundness of the k-model -/

/-- **integer × continuous with a rational bound, soundness** — the product helper as the walk models
call it (`ub = w_max = k·max flow`, fractional for float data): `p = n·c` whatever the number of bits. -/
theorem intProdQ_sound (a : Asg) (n c p : Var) (lb ub : Rat) (name : String)
    (hc : lb ≤ a c ∧ a c ≤ ub) (h : Sat a (intProdQ n c p lb ub name)) : a p = a n * a c :=
  FP.intProdQ_sound a n c p lb ub name hc h

/-- the repetition cap of an edge of the augmented graph: inside an SCC the floor (since fix fcfd0b0) of
the edge's own flow value (`w_max` without the attribute), `1` outside -/
theorem kfdc_cap (inp : WalkInput) (e : Edge) (he : e ∈ inp.st.g.edges) :
    kfdcCap inp e = if isSccEdge inp.st.g e
      then ((((inp.fOpt e).getD (inp.wmax false)).floor : Int) : Rat) else 1 :=
  FP.kfdcCap_eq inp e he

/-- … an integer in every case (since fix fcfd0b0) -/
theorem kfdc_cap_int (inp : WalkInput) (e : Edge) : ∃ z : Int, kfdcCap inp e = (z : Rat) :=
  FP.kfdcCap_int inp e

/-- **T1.** For every satisfying assignment of the `kFlowDecompCycles` LP (with or without given
weights) on a well-formed user digraph: the weights lie in `[0, w_max]` (integral for
`weight_type=int`); in every layer the traversal counts of the decoded walk (synthetic endpoints put
back) are the layer's edge variables, natural numbers within the caps; and the decoded walks with the
weight variables explain the flow of every non-ignored edge exactly:
`Σ_i w_i · traversals(source :: walk_i ++ [sink], e) = f e`. -/
theorem kfdc_exact (inp : WalkInput) (given : Option (List Rat)) (a : Asg)
    (h : BaseWF inp.base) (hsat : Sat a (kfdcLP inp given)) :
    (∀ i, i < inp.k → 0 ≤ a (weightsVar i) ∧ a (weightsVar i) ≤ inp.wmax false ∧
        (inp.weightInt = true → ∃ z : Int, a (weightsVar i) = z)) ∧
    (∀ i, i < inp.k → ∀ e ∈ inp.st.g.edges,
        traversals (inp.st.source :: decodeWalkLayer inp.st a i ++ [inp.st.sink]) e = multOf a i e ∧
        a (edgeVar e i) = (multOf a i e : Rat) ∧ (multOf a i e : Rat) ≤ kfdcCap inp e) ∧
    IsWalkDecomp inp.st.source inp.st.sink (inp.activeEdges false) inp.f inp.k
      (decodeWalkLayer inp.st a) (fun i => a (weightsVar i)) :=
  FP.kfdc_exact_proof inp given a h hsat

/-- with given weights the first `|ws|` weight variables are the given numbers -/
theorem kfdc_given_weights (inp : WalkInput) (ws : List Rat) (a : Asg)
    (hsat : Sat a (kfdcLP inp (some ws))) (i : Nat) (hi : i < ws.length) :
    a (weightsVar i) = ws.getD i 0 :=
  FP.kfdc_given_weights_proof inp ws a hsat i hi

/-! ## T2: completeness of the k-model -/

/-- **T2.** Multiplicities `m i e`, weights `w i` and connectivity witnesses `sel`, `dist` with
(`KfdcDecomp`): per layer conservation, unit out-flow of the source, caps, witnesses; weights in
`[0, w_max]`; multiplicities at most `w_max`; `Σ_i w_i·m_i(e) = f e` on the non-ignored edges; subset
constraints covered — extend to the satisfying assignment `kfdcAsg` of the whole LP (all auxiliary
columns included), which carries exactly these multiplicities and weights. `NameInj`: the product
blocks have pairwise different names (the model identifies a column with its name). -/
theorem kfdc_complete (inp : WalkInput) (m : Nat → Edge → Nat) (w : Nat → Rat)
    (sel : Nat → Edge → Bool) (dist : Nat → Node → Nat)
    (hwf : STWFc inp.st) (hsrc : inp.st.source ∈ inp.st.g.nodes) (hinj : NameInj inp)
    (h : KfdcDecomp inp m w sel dist) :
    Sat (kfdcAsg inp m w sel dist) (kfdcLP inp none) ∧
    (∀ i e, kfdcAsg inp m w sel dist (edgeVar e i) = (m i e : Rat)) ∧
    (∀ i, kfdcAsg inp m w sel dist (weightsVar i) = w i) :=
  FP.kfdc_complete_proof inp m w sel dist hwf hsrc hinj h

/-- **every walk admits connectivity witnesses**: for a source-to-sink walk of a well-formed s-t
digraph, its traversal counts with the first-entry edges (`walkSel`) and first-visit ranks
(`walkDist`, at most `|V|`) satisfy everything rows 17a, 17b, 21, 22a, 22b, 18a, 19c ask for. -/
theorem walk_has_conn_witness (s : STGraph) (hwf : STWFc s) (ae : Bool) (ub : Edge → Rat) (p : List Node)
    (hW : IsWalkIn s.g (s.source :: p ++ [s.sink]))
    (hcap : ∀ e ∈ s.g.edges, (traversals (s.source :: p ++ [s.sink]) e : Rat) ≤ ub e) :
    LayerWitness s ae ub (traversals (s.source :: p ++ [s.sink]))
      (walkSel (s.source :: p ++ [s.sink])) (walkDist s.g.nodes (s.source :: p ++ [s.sink])) :=
  FP.walk_layer_witness s hwf ae ub p hW hcap

/-- **T2 for walks.** `k ≥ 1` weighted walks of the augmented graph that decompose the flow, stay within
the caps and have weights in `[0, w_max]` (`WalkDecompWithin`) are represented by a satisfying
assignment: the decoded multiplicities are the walks' traversal counts, the weight variables the given
weights. -/
theorem kfdc_complete_walks (inp : WalkInput) (walk : Nat → List Node) (w : Nat → Rat)
    (hb : BaseWF inp.base) (hk : 0 < inp.k) (hinj : NameInj inp)
    (h : WalkDecompWithin inp walk w) :
    ∃ a : Asg, Sat a (kfdcLP inp none) ∧
      (∀ i e, multOf a i e = traversals (inp.st.source :: walk i ++ [inp.st.sink]) e) ∧
      (∀ i, a (weightsVar i) = w i) :=
  FP.kfdc_complete_walks_proof inp walk w hb hk hinj h

/-- the boolean evaluation used by the driver op `kfdc.witness` is sound for `Sat` -/
theorem satCheck_sound (a : Asg) (lp : LP) (h : satCheck a lp = true) : Sat a lp :=
  FP.satCheck_sound a lp h

/-! ## T3: the cap `floor(f e)` is adequate for weights ≥ 1 -/

/-- **T3.** In a decomposition with non-negative weights, a walk of weight at least `1` (any positive
integer) runs through `e` at most `f e` times … -/
theorem cap_adequate_int (k : Nat) (m : Nat → Edge → Nat) (w : Nat → Rat) (fe : Rat) (e : Edge)
    (hw0 : ∀ j, j < k → 0 ≤ w j) (hdec : explainedM k m w e = fe)
    (i : Nat) (hi : i < k) (hw : 1 ≤ w i) : (m i e : Rat) ≤ fe :=
  FP.cap_adequate_int_proof k m w fe e hw0 hdec i hi hw

/-- … hence, the count being a natural number, at most `floor(f e)` times: the cap
`edge_upper_bounds[e] = floor(f e)` (floored since fix fcfd0b0) excludes no decomposition with weights
`≥ 1`, in particular no integer-weighted one. -/
theorem cap_adequate_floor (k : Nat) (m : Nat → Edge → Nat) (w : Nat → Rat) (fe : Rat) (e : Edge)
    (hw0 : ∀ j, j < k → 0 ≤ w j) (hdec : explainedM k m w e = fe)
    (i : Nat) (hi : i < k) (hw : 1 ≤ w i) : (m i e : Rat) ≤ ((fe.floor : Int) : Rat) :=
  FP.cap_adequate_floor_proof k m w fe e hw0 hdec i hi hw

/-- the same with a minimum weight `δ > 0`: at most `f e / δ` traversals (the bound behind the proposed
repair `cap e = ⌈f e / δ⌉` with `δ` the smallest weight a walk may have) -/
theorem cap_adequate_min_weight (k : Nat) (m : Nat → Edge → Nat) (w : Nat → Rat) (fe δ : Rat) (e : Edge)
    (hw0 : ∀ j, j < k → 0 ≤ w j) (hdec : explainedM k m w e = fe)
    (i : Nat) (hi : i < k) (hw : δ ≤ w i) : δ * (m i e : Rat) ≤ fe := by
  have h1 := FP.sum_explainedM_term_le k m w e hw0 i hi
  rw [hdec] at h1
  have hm : (0 : Rat) ≤ (m i e : Rat) := Rat.natCast_nonneg
  have h2 := Rat.mul_nonneg (show (0 : Rat) ≤ w i - δ by grind) hm
  grind

/-- **a walk runs through an edge outside the SCCs at most once** — with `isSccEdge` as the code
computes it (`stDiGraph.is_scc_edge`, modelled by iterated closure): the cap `1` of these edges excludes
nothing -/
theorem nonScc_once (g : Graph) (hcl : ∀ e ∈ g.edges, e.1 ∈ g.nodes ∧ e.2 ∈ g.nodes)
    (L : List Node) (hW : IsWalkIn g L) (e : Edge) (he : e ∈ g.edges) (hscc : isSccEdge g e = false) :
    traversals L e ≤ 1 :=
  FP.nonScc_once_proof g hcl L hW e he hscc

/-- on a plain flow instance (nothing ignored, every edge of the user's graph carries its flow value)
every SCC edge is a non-ignored edge whose cap is the floor of its own flow value (`CapsAreFlows`; floored
since fix fcfd0b0); the synthetic edges are never SCC edges -/
theorem caps_are_flows (inp : WalkInput) (hb : BaseWF inp.base) (hign : inp.ignore = [])
    (hattr : ∀ e ∈ inp.base.edges, ∃ q, inp.fOpt e = some q) : CapsAreFlows inp :=
  FP.caps_are_flows inp hb hign hattr

/-- **the caps exclude no decomposition with weights ≥ 1**: walks of the augmented graph with weights in
`[1, w_max]` decomposing a flow with values at most `w_max` are within all caps (`T3` on SCC edges,
`nonScc_once` on the others), hence representable by the k-model (`kfdc_complete_walks`) -/
theorem within_of_int (inp : WalkInput) (walk : Nat → List Node) (w : Nat → Rat)
    (hb : BaseWF inp.base) (hcaps : CapsAreFlows inp)
    (hwalk : ∀ i, i < inp.k → IsWalkIn inp.st.g (inp.st.source :: walk i ++ [inp.st.sink]))
    (hw : ∀ i, i < inp.k → 1 ≤ w i ∧ w i ≤ inp.wmax false ∧ (inp.weightInt = true → ∃ z : Int, w i = z))
    (hflow : ∀ e ∈ inp.activeEdges false, inp.f e ≤ inp.wmax false)
    (hdec : IsWalkDecomp inp.st.source inp.st.sink (inp.activeEdges false) inp.f inp.k walk w)
    (hcov : ∀ j (hj : j < inp.cfg.constraints.length), ∃ i, i < inp.k ∧
      coversB (multsOf inp.st.source inp.st.sink walk i) inp.cfg.constraints[j] inp.cfg.coverage = true) :
    WalkDecompWithin inp walk w :=
  FP.within_of_int inp walk w hb hcaps hwalk hw hflow hdec hcov

/-! ## T4: the cap is not scale invariant -/

/-- **T4.** `s → a → t` with a self-loop at `a`, float weights. With all flows `1` the LP for `k = 1`
has a satisfying assignment; with all flows `1/2` — the same instance scaled by `1/2` — the LP has no
satisfying assignment for *any* `k`, although the walk `s, a, a, t` with weight `1/2` decomposes the
scaled flow. (The real `MinFlowDecompCycles` returns `True` / `False` on the two inputs.) -/
theorem scale_law_counterexample :
    (∃ a : Asg, Sat a (kfdcLP (ScaleWitness.inp 1 1) none)) ∧
    (∀ (k : Nat) (a : Asg), ¬ Sat a (kfdcLP (ScaleWitness.inp (1/2) k) none)) ∧
    IsWalkDecomp "source" "sink" ((ScaleWitness.inp (1/2) 1).activeEdges false)
      (ScaleWitness.inp (1/2) 1).f 1 (fun _ => ["s", "a", "a", "t"]) (fun _ => 1/2) :=
  ⟨⟨_, ScaleWitness.loop_unscaled_feasible⟩, ScaleWitness.loop_scaled_infeasible,
    ScaleWitness.loop_scaled_decomposition⟩

/-- the column bound that the intended solution of the scaled instance violates: the loop's cap is the
floor of its flow value `c` (since fix fcfd0b0; the raw value `c` before) — `1` on the unscaled instance,
`floor(1/2) = 0` on the scaled one —, the walk runs through the loop once -/
theorem scale_law_cap_violated :
    (∀ (c : Rat) (k : Nat), kfdcCap (ScaleWitness.inp c k) ("a", "a") = ((c.floor : Int) : Rat)) ∧
    kfdcCap (ScaleWitness.inp 1 1) ("a", "a") = 1 ∧
    kfdcCap (ScaleWitness.inp (1/2) 1) ("a", "a") = 0 ∧
    kfdcCap (ScaleWitness.inp (1/2) 1) ("a", "a")
      < (traversals ["source", "s", "a", "a", "t", "sink"] ("a", "a") : Rat) :=
  ⟨ScaleWitness.loop_cap, by rw [ScaleWitness.loop_cap]; decide +kernel, ScaleWitness.loop_cap_half 1,
    ScaleWitness.loop_scaled_cap_violated⟩

/-! ## T5: the search -/

/-- **T5, soundness.** `FaithfulC`: the solver says `kOptimal` only for satisfiable k-models and
`kInfeasible` only for unsatisfiable ones. With a valid lower bound (`hlo`) the `k` returned by the
timed search machine is the least `k` whose k-model is satisfiable. -/
theorem mfdc_search_minimal (inp : WalkInput) (σ : Nat → Status) (late : Nat → Bool)
    (lo hi k : Nat) (hσ : FaithfulC inp σ) (hlo : ∀ j, j < lo → ¬ KfdcFeasible inp j)
    (h : (stopSearchTimed σ late lo hi).solved = some k) :
    KfdcFeasible inp k ∧ (∀ j, j < k → ¬ KfdcFeasible inp j) ∧ lo ≤ k ∧ k < hi ∧ late k = false :=
  FP.mfdc_search_minimal_proof inp σ late lo hi k hσ hlo h

/-- **T5, completeness.** If the least satisfiable k-model lies in the searched range and the solver is
conclusive and in time up to it, the search returns it. -/
theorem mfdc_search_finds (inp : WalkInput) (σ : Nat → Status) (late : Nat → Bool)
    (lo hi k : Nat) (hσ : FaithfulC inp σ) (h1 : lo ≤ k) (h2 : k < hi)
    (hk : KfdcFeasible inp k) (hmin : ∀ j, j < k → ¬ KfdcFeasible inp j)
    (hconcl : ∀ j, lo ≤ j → j ≤ k → σ j ≠ .other ∧ late j = false) :
    (stopSearchTimed σ late lo hi).solved = some k :=
  FP.mfdc_search_finds_proof inp σ late lo hi k hσ h1 h2 hk hmin hconcl

/-- **C04, minimality.** The returned `k` comes with `k` walks and weights (integral for
`weight_type=int`) that decompose the flow on every non-ignored edge, and no family of fewer walks that
stays within the caps and `w_max` decomposes it. By `cap_adequate_int` the caps exclude nothing for
positive integer weights on SCC edges. -/
theorem mfdc_min_walks (inp : WalkInput) (σ : Nat → Status) (late : Nat → Bool) (lo hi k : Nat)
    (hb : BaseWF inp.base) (hσ : FaithfulC inp σ) (hlo : ∀ j, j < lo → ¬ KfdcFeasible inp j)
    (h : (stopSearchTimed σ late lo hi).solved = some k) :
    (∃ (walk : Nat → List Node) (w : Nat → Rat),
      IsWalkDecomp inp.st.source inp.st.sink (inp.activeEdges false) inp.f k walk w ∧
      (∀ i, i < k → 0 ≤ w i ∧ (inp.weightInt = true → ∃ z : Int, w i = z))) ∧
    (∀ j, 0 < j → j < k → NameInj (inp.withK j) →
      ∀ walk w, ¬ WalkDecompWithin (inp.withK j) walk w) :=
  FP.mfdc_min_walks_proof inp σ late lo hi k hb hσ hlo h

/-- **C04, minimality for positive integer weights.** With a faithful status script and a valid lower
bound, the returned `k` is at most the number `j` of walks of *any* family of source-to-sink walks with
weights `≥ 1` (integral for `weight_type=int`) that decomposes the flow and covers the subset
constraints. Side conditions on `j`: product blocks with distinct names, weights and flow values at most
`w_max = j·max flow` (true for positive integer flows), caps = floored flow values (`caps_are_flows`). -/
theorem mfdc_minimum_int (inp : WalkInput) (σ : Nat → Status) (late : Nat → Bool) (lo hi k : Nat)
    (hb : BaseWF inp.base) (hcaps : ∀ j, CapsAreFlows (inp.withK j)) (hσ : FaithfulC inp σ)
    (hlo : ∀ j, j < lo → ¬ KfdcFeasible inp j)
    (h : (stopSearchTimed σ late lo hi).solved = some k)
    (j : Nat) (hj0 : 0 < j) (hinj : NameInj (inp.withK j))
    (walk : Nat → List Node) (w : Nat → Rat)
    (hwalk : ∀ i, i < j → IsWalkIn inp.st.g (inp.st.source :: walk i ++ [inp.st.sink]))
    (hw : ∀ i, i < j → 1 ≤ w i ∧ w i ≤ (inp.withK j).wmax false ∧
      (inp.weightInt = true → ∃ z : Int, w i = z))
    (hflow : ∀ e ∈ inp.activeEdges false, inp.f e ≤ (inp.withK j).wmax false)
    (hdec : IsWalkDecomp inp.st.source inp.st.sink (inp.activeEdges false) inp.f j walk w)
    (hcov : ∀ c (hc : c < inp.cfg.constraints.length), ∃ i, i < j ∧
      coversB (multsOf inp.st.source inp.st.sink walk i) inp.cfg.constraints[c] inp.cfg.coverage = true) :
    k ≤ j :=
  FP.mfdc_minimum_int_proof inp σ late lo hi k hb hcaps hσ hlo h j hj0 hinj walk w hwalk hw hflow hdec hcov

/-! ## T6: the search range

Until fix 26b11a1 the loop of `MinFlowDecompCycles.solve` ran over `range(lower bound, |E| + 1)`; the three
theorems on `RangeWitness.inp` below are the reason for the fix and stay as regression theorems. Since the
fix it runs over `range(lower bound, |E| + len(subset_constraints) + 1)`. -/

/-- the OLD search range of `MinFlowDecompCycles.solve` (`k ≤ |E|`, before fix 26b11a1) contains the minimum on *every* input:
whenever some k-model is satisfiable, one with at most `|E(G)|` layers is. **False** (next theorem). -/
def search_range_adequate_FullStatement : Prop :=
  ∀ (inp : WalkInput) (k : Nat), BaseWF inp.base → KfdcFeasible inp k →
    ∃ j, j ≤ inp.base.edges.length ∧ KfdcFeasible inp j

/-- **T6, the witness.** Two sources `s0, s1`, a hub `m`, three sinks `t0, t1, t2`, the five edges
`s_a → m` (flow 3) and `m → t_b` (flow 2), `weight_type = int`, and the six subset constraints
`{(s_a, m), (m, t_b)}`: the k-model is satisfiable for `k = 6` (the six paths with weight 1) and for no
`k ≤ 5 = |E|` — a walk is one of the six paths and covers one constraint. The old loop of `solve()` ended
at `k = |E| = 5`, so `MinFlowDecompCycles(..., subset_constraints=…).solve()` answered `False` although six
weighted walks decompose the flow and cover every constraint (the reason for fix 26b11a1). -/
theorem search_range_counterexample :
    BaseWF RangeWitness.inp.base ∧ RangeWitness.inp.base.edges.length = 5 ∧
    KfdcFeasible RangeWitness.inp 6 ∧
    (∀ j, j ≤ RangeWitness.inp.base.edges.length → ¬ KfdcFeasible RangeWitness.inp j) :=
  ⟨RangeWitness.base_wf, rfl, RangeWitness.feasible6, fun j hj => RangeWitness.infeasible_le5 j hj⟩

/-- **T6, negative part (old range).** With subset constraints the range `k ≤ |E|` can miss the minimum:
the reason for fix 26b11a1. -/
theorem search_range_not_adequate : ¬ search_range_adequate_FullStatement := by
  intro h
  obtain ⟨j, hj, hf⟩ := h RangeWitness.inp 6 RangeWitness.base_wf RangeWitness.feasible6
  exact RangeWitness.infeasible_le5 j hj hf

/-- **T6, regression for fix 26b11a1.** Over the repaired range `lo … |E| + #constraints` (here
`hi = 5 + 6 + 1`) the search machine returns `6` on the witness for every faithful status script that is
conclusive and in time on `lo … 6` — the real `solve()` now answers `True` with six walks. -/
theorem search_range_witness_solved (σ : Nat → Status) (late : Nat → Bool) (lo : Nat)
    (hσ : FaithfulC RangeWitness.inp σ) (hlo : lo ≤ 6)
    (hconcl : ∀ i, lo ≤ i → i ≤ 6 → σ i ≠ .other ∧ late i = false) :
    (stopSearchTimed σ late lo
      (RangeWitness.inp.base.edges.length + RangeWitness.inp.cfg.constraints.length + 1)).solved = some 6 :=
  FP.mfdc_search_finds_proof RangeWitness.inp σ late lo _ 6 hσ hlo (by decide) RangeWitness.feasible6
    (fun j hj => RangeWitness.infeasible_le5 j (by omega)) hconcl

/-- **T6, the combinatorial core.** On the augmented graph of an input without additional starts/ends
(`Thin`), every family `F` of source-to-sink walks with positive integer weights, each through an edge of
the user's graph (`kfdcr_AWalk`), has the same weighted traversal counts `Σ weight · traversals` on
*every* edge of the augmented graph as a family `A` of at most `#edges of the user's graph` such walks
(peel simple closed walks off the circulation obtained by closing every walk with `sink → source`, the
bottleneck always on an edge of the user's graph; closed walks not through the source are absorbed by a
walk of weight 1 split off a walk they meet). -/
theorem few_walks_suffice (s : STGraph) (hwf : STWFc s) (hth : Thin s) (F : List (List Node × Nat))
    (hF : ∀ d ∈ F, kfdcr_AWalk s d) :
    ∃ A : List (List Node × Nat), A.length ≤ (s.g.edges.filter (isInner s)).length ∧
      (∀ d ∈ A, kfdcr_AWalk s d) ∧ ∀ e ∈ s.g.edges, kfdcr_tot A e = kfdcr_tot F e :=
  FP.kfdcr_few_walks hwf hth F hF

/-- **T6, the classical statement on the level of walks** (no LP involved). On a plain instance (edge
mode, nothing ignored) `k` source-to-sink walks of the augmented graph with natural weights that decompose
the flow on the edges of the user's graph can be replaced by `j ≤ |E(G)|` source-to-sink walks with
positive integer weights that decompose it. -/
theorem walks_at_most_edges (inp : WalkInput) (hb : BaseWF inp.base) (hst : inp.starts = [])
    (hen : inp.ends = []) (hign : inp.ignore = []) (k : Nat) (walk : Nat → List Node) (c : Nat → Nat)
    (hwalk : ∀ i, i < k → IsWalkIn inp.st.g (inp.st.source :: walk i ++ [inp.st.sink]))
    (hdec : IsWalkDecomp inp.st.source inp.st.sink (inp.activeEdges false) inp.f k walk (fun i => (c i : Rat))) :
    ∃ (j : Nat) (walk' : Nat → List Node) (n : Nat → Nat), j ≤ inp.base.edges.length ∧
      (∀ i, i < j → 1 ≤ n i ∧ IsWalkIn inp.st.g (inp.st.source :: walk' i ++ [inp.st.sink])) ∧
      IsWalkDecomp inp.st.source inp.st.sink (inp.activeEdges false) inp.f j walk' (fun i => (n i : Rat)) :=
  FP.kfdcr_walks_le_edges inp hb hst hen hign k walk c hwalk hdec

/-- **T6, positive part: the range `k ≤ |E|` is adequate for plain integer instances.**
`weight_type = int`, edge mode (no additional starts/ends), nothing ignored, every edge of the user's
graph carries the flow attribute, no subset constraints: whenever some k-model is satisfiable, one with
at most `|E(G)|` layers is. (`hinj`: the product blocks of the k-models up to `|E|` have distinct
names — the model identifies a column with its name.) -/
theorem search_range_adequate (inp : WalkInput) (k : Nat) (hb : BaseWF inp.base)
    (hst : inp.starts = []) (hen : inp.ends = []) (hign : inp.ignore = [])
    (hint : inp.weightInt = true) (hcons : inp.cfg.constraints = [])
    (hattr : ∀ e ∈ inp.base.edges, ∃ q, inp.fOpt e = some q)
    (hinj : ∀ j, j ≤ inp.base.edges.length → NameInj (inp.withK j))
    (hf : KfdcFeasible inp k) :
    ∃ j, j ≤ inp.base.edges.length ∧ KfdcFeasible inp j :=
  FP.kfdcr_range_int inp hb hst hen hign hint hcons hattr hinj k hf

/-- **Carathéodory's theorem for cones** (the algebra behind the float case): a non-negative combination
of the vectors `vec i`, `i ∈ I`, agrees on the coordinates `Ea` with a non-negative combination of at most
`|Ea|` of them. -/
theorem caratheodory (Ea : List Edge) (vec : Nat → Edge → Rat) (I : List Nat) (w : Nat → Rat)
    (hnd : I.Nodup) (hw : ∀ i ∈ I, 0 ≤ w i) :
    ∃ (I' : List Nat) (w' : Nat → Rat), I'.Nodup ∧ (∀ i ∈ I', i ∈ I) ∧ I'.length ≤ Ea.length ∧
      (∀ i ∈ I', 0 ≤ w' i) ∧ ∀ e ∈ Ea, kfdcr_comb I' w' vec e = kfdcr_comb I w vec e :=
  FP.kfdcr_caratheodory Ea vec I.length I w (Nat.le_refl _) hnd hw

/-- **T6, positive part for float weights.** `weight_type = float`, every edge of the user's graph
carries the flow attribute (the caps then do not depend on `k`), no subset constraints, some non-ignored
flow value is at least `1` (so that `w_max ≥ 1` for every `k ≥ 1`; the scaled instance of T4 is excluded
by this); ignored edges and additional starts/ends are allowed: whenever some k-model is satisfiable, one
with at most `|E(G)|` layers is — the same walks, re-weighted by Carathéodory's theorem. -/
theorem search_range_adequate_float (inp : WalkInput) (k : Nat) (hb : BaseWF inp.base)
    (hfloat : inp.weightInt = false) (hcons : inp.cfg.constraints = [])
    (hattr : ∀ e ∈ inp.base.edges, ∃ q, inp.fOpt e = some q)
    (hM : ∃ e ∈ inp.activeEdges false, 1 ≤ inp.f e)
    (hinj : ∀ j, j ≤ inp.base.edges.length → NameInj (inp.withK j))
    (hf : KfdcFeasible inp k) :
    ∃ j, j ≤ inp.base.edges.length ∧ KfdcFeasible inp j :=
  FP.kfdcr_range_rat inp hb hfloat hcons hattr hM hinj k hf

/-- **T6, the repaired range is adequate (integer weights, subset constraints allowed).**
`weight_type = int`, edge mode, nothing ignored, every edge with the flow attribute, no empty layers
(`allow_empty_walks` off, the default), constraint edges are edges of the graph, some flow value `≥ 1`:
whenever some k-model is satisfiable, one with at most `|E(G)| + #constraints` layers is — the flow is
re-decomposed into at most `|E|` walks (`walks_at_most_edges`), and for every constraint one walk of the
given solution that covers it is kept with weight `0` (it is within the caps because it comes from a
satisfying assignment). -/
theorem search_range_adequate_constraints (inp : WalkInput) (k : Nat) (hb : BaseWF inp.base)
    (hst : inp.starts = []) (hen : inp.ends = []) (hign : inp.ignore = [])
    (hint : inp.weightInt = true) (hae : inp.cfg.allowEmpty = false)
    (hedges : ∀ con ∈ inp.cfg.constraints, ∀ e ∈ con, e ∈ inp.st.g.edges)
    (hattr : ∀ e ∈ inp.base.edges, ∃ q, inp.fOpt e = some q)
    (hM : ∃ e ∈ inp.activeEdges false, 1 ≤ inp.f e)
    (hinj : ∀ j, j ≤ inp.base.edges.length + inp.cfg.constraints.length → NameInj (inp.withK j))
    (hf : KfdcFeasible inp k) :
    ∃ j, j ≤ inp.base.edges.length + inp.cfg.constraints.length ∧ KfdcFeasible inp j :=
  FP.kfdcr_range_int_cons inp hb hst hen hign hint hae hedges hattr hM hinj k hf

/-- **T6, the repaired range is adequate (float weights, subset constraints allowed)**: the selected
walks of `search_range_adequate_float` plus one covering walk of weight `0` per constraint. -/
theorem search_range_adequate_constraints_float (inp : WalkInput) (k : Nat) (hb : BaseWF inp.base)
    (hfloat : inp.weightInt = false) (hae : inp.cfg.allowEmpty = false)
    (hedges : ∀ con ∈ inp.cfg.constraints, ∀ e ∈ con, e ∈ inp.st.g.edges)
    (hattr : ∀ e ∈ inp.base.edges, ∃ q, inp.fOpt e = some q)
    (hM : ∃ e ∈ inp.activeEdges false, 1 ≤ inp.f e)
    (hinj : ∀ j, j ≤ inp.base.edges.length + inp.cfg.constraints.length → NameInj (inp.withK j))
    (hf : KfdcFeasible inp k) :
    ∃ j, j ≤ inp.base.edges.length + inp.cfg.constraints.length ∧ KfdcFeasible inp j :=
  FP.kfdcr_range_rat_cons inp hb hfloat hae hedges hattr hM hinj k hf

/-- **T6, what the range does guarantee.** If *some* k-model with `j < hi` layers is satisfiable (for the
real loop `hi = |E| + 1`, i.e. `j ≤ |E|`), the lower bound is valid and the solver is conclusive and in
time up to `j`, then the search returns the least satisfiable `k` (and `k ≤ j`). -/
theorem search_range_adequate_of_bound (inp : WalkInput) (σ : Nat → Status) (late : Nat → Bool)
    (lo hi j : Nat) (hσ : FaithfulC inp σ) (hlo : ∀ i, i < lo → ¬ KfdcFeasible inp i)
    (hj : KfdcFeasible inp j) (hjhi : j < hi)
    (hconcl : ∀ i, lo ≤ i → i ≤ j → σ i ≠ .other ∧ late i = false) :
    ∃ k, (stopSearchTimed σ late lo hi).solved = some k ∧ k ≤ j ∧ KfdcFeasible inp k ∧
      ∀ i, i < k → ¬ KfdcFeasible inp i := by
  obtain ⟨k, hkj, hk, hmin⟩ := FP.exists_least (KfdcFeasible inp) j hj
  have hlok : lo ≤ k := by
    apply Classical.byContradiction
    intro h
    exact hlo k (by omega) hk
  refine ⟨k, ?_, hkj, hk, hmin⟩
  exact FP.mfdc_search_finds_proof inp σ late lo hi k hσ hlok (by omega) hk hmin
    (fun i h1 h2 => hconcl i h1 (by omega))

/-- **C04 for plain integer instances: the search finds the minimum whenever a decomposition exists.**
If some k-model is satisfiable at all (any `k`, also beyond the range), the lower bound is valid and the
solver is conclusive and in time on `lo … |E|`, then the loop `for k in range(lo, |E| + 1)` returns the
least `k` whose k-model is satisfiable. -/
theorem mfdc_search_complete_plain (inp : WalkInput) (σ : Nat → Status) (late : Nat → Bool) (lo k : Nat)
    (hb : BaseWF inp.base) (hst : inp.starts = []) (hen : inp.ends = []) (hign : inp.ignore = [])
    (hint : inp.weightInt = true) (hcons : inp.cfg.constraints = [])
    (hattr : ∀ e ∈ inp.base.edges, ∃ q, inp.fOpt e = some q)
    (hinj : ∀ j, j ≤ inp.base.edges.length → NameInj (inp.withK j))
    (hσ : FaithfulC inp σ) (hlo : ∀ i, i < lo → ¬ KfdcFeasible inp i)
    (hf : KfdcFeasible inp k)
    (hconcl : ∀ i, lo ≤ i → i ≤ inp.base.edges.length → σ i ≠ .other ∧ late i = false) :
    ∃ k', (stopSearchTimed σ late lo (inp.base.edges.length + 1)).solved = some k' ∧
      k' ≤ inp.base.edges.length ∧ KfdcFeasible inp k' ∧ ∀ i, i < k' → ¬ KfdcFeasible inp i := by
  obtain ⟨j, hj, hfj⟩ := search_range_adequate inp k hb hst hen hign hint hcons hattr hinj hf
  obtain ⟨k', h1, h2, h3, h4⟩ := search_range_adequate_of_bound inp σ late lo (inp.base.edges.length + 1) j
    hσ hlo hfj (by omega) (fun i hi1 hi2 => hconcl i hi1 (by omega))
  exact ⟨k', h1, by omega, h3, h4⟩

/-- the same for float weights -/
theorem mfdc_search_complete_float (inp : WalkInput) (σ : Nat → Status) (late : Nat → Bool) (lo k : Nat)
    (hb : BaseWF inp.base) (hfloat : inp.weightInt = false) (hcons : inp.cfg.constraints = [])
    (hattr : ∀ e ∈ inp.base.edges, ∃ q, inp.fOpt e = some q)
    (hM : ∃ e ∈ inp.activeEdges false, 1 ≤ inp.f e)
    (hinj : ∀ j, j ≤ inp.base.edges.length → NameInj (inp.withK j))
    (hσ : FaithfulC inp σ) (hlo : ∀ i, i < lo → ¬ KfdcFeasible inp i)
    (hf : KfdcFeasible inp k)
    (hconcl : ∀ i, lo ≤ i → i ≤ inp.base.edges.length → σ i ≠ .other ∧ late i = false) :
    ∃ k', (stopSearchTimed σ late lo (inp.base.edges.length + 1)).solved = some k' ∧
      k' ≤ inp.base.edges.length ∧ KfdcFeasible inp k' ∧ ∀ i, i < k' → ¬ KfdcFeasible inp i := by
  obtain ⟨j, hj, hfj⟩ := search_range_adequate_float inp k hb hfloat hcons hattr hM hinj hf
  obtain ⟨k', h1, h2, h3, h4⟩ := search_range_adequate_of_bound inp σ late lo (inp.base.edges.length + 1) j
    hσ hlo hfj (by omega) (fun i hi1 hi2 => hconcl i hi1 (by omega))
  exact ⟨k', h1, by omega, h3, h4⟩

/-- **C04 with subset constraints (integer weights): over the repaired range the search finds the
minimum whenever a decomposition covering the constraints exists.** -/
theorem mfdc_search_complete_constraints (inp : WalkInput) (σ : Nat → Status) (late : Nat → Bool) (lo k : Nat)
    (hb : BaseWF inp.base) (hst : inp.starts = []) (hen : inp.ends = []) (hign : inp.ignore = [])
    (hint : inp.weightInt = true) (hae : inp.cfg.allowEmpty = false)
    (hedges : ∀ con ∈ inp.cfg.constraints, ∀ e ∈ con, e ∈ inp.st.g.edges)
    (hattr : ∀ e ∈ inp.base.edges, ∃ q, inp.fOpt e = some q)
    (hM : ∃ e ∈ inp.activeEdges false, 1 ≤ inp.f e)
    (hinj : ∀ j, j ≤ inp.base.edges.length + inp.cfg.constraints.length → NameInj (inp.withK j))
    (hσ : FaithfulC inp σ) (hlo : ∀ i, i < lo → ¬ KfdcFeasible inp i)
    (hf : KfdcFeasible inp k)
    (hconcl : ∀ i, lo ≤ i → i ≤ inp.base.edges.length + inp.cfg.constraints.length →
      σ i ≠ .other ∧ late i = false) :
    ∃ k', (stopSearchTimed σ late lo (inp.base.edges.length + inp.cfg.constraints.length + 1)).solved = some k' ∧
      k' ≤ inp.base.edges.length + inp.cfg.constraints.length ∧ KfdcFeasible inp k' ∧
      ∀ i, i < k' → ¬ KfdcFeasible inp i := by
  obtain ⟨j, hj, hfj⟩ := search_range_adequate_constraints inp k hb hst hen hign hint hae hedges hattr hM hinj hf
  obtain ⟨k', h1, h2, h3, h4⟩ := search_range_adequate_of_bound inp σ late lo
    (inp.base.edges.length + inp.cfg.constraints.length + 1) j
    hσ hlo hfj (by omega) (fun i hi1 hi2 => hconcl i hi1 (by omega))
  exact ⟨k', h1, by omega, h3, h4⟩

/-- the same for float weights -/
theorem mfdc_search_complete_constraints_float (inp : WalkInput) (σ : Nat → Status) (late : Nat → Bool)
    (lo k : Nat) (hb : BaseWF inp.base) (hfloat : inp.weightInt = false) (hae : inp.cfg.allowEmpty = false)
    (hedges : ∀ con ∈ inp.cfg.constraints, ∀ e ∈ con, e ∈ inp.st.g.edges)
    (hattr : ∀ e ∈ inp.base.edges, ∃ q, inp.fOpt e = some q)
    (hM : ∃ e ∈ inp.activeEdges false, 1 ≤ inp.f e)
    (hinj : ∀ j, j ≤ inp.base.edges.length + inp.cfg.constraints.length → NameInj (inp.withK j))
    (hσ : FaithfulC inp σ) (hlo : ∀ i, i < lo → ¬ KfdcFeasible inp i)
    (hf : KfdcFeasible inp k)
    (hconcl : ∀ i, lo ≤ i → i ≤ inp.base.edges.length + inp.cfg.constraints.length →
      σ i ≠ .other ∧ late i = false) :
    ∃ k', (stopSearchTimed σ late lo (inp.base.edges.length + inp.cfg.constraints.length + 1)).solved = some k' ∧
      k' ≤ inp.base.edges.length + inp.cfg.constraints.length ∧ KfdcFeasible inp k' ∧
      ∀ i, i < k' → ¬ KfdcFeasible inp i := by
  obtain ⟨j, hj, hfj⟩ := search_range_adequate_constraints_float inp k hb hfloat hae hedges hattr hM hinj hf
  obtain ⟨k', h1, h2, h3, h4⟩ := search_range_adequate_of_bound inp σ late lo
    (inp.base.edges.length + inp.cfg.constraints.length + 1) j
    hσ hlo hfj (by omega) (fun i hi1 hi2 => hconcl i hi1 (by omega))
  exact ⟨k', h1, by omega, h3, h4⟩

/-! ## non-vacuity -/

/-- T1 applies to a concrete satisfying assignment: flows `(1, 1, 1)` on the self-loop graph, `k = 1` -/
example := kfdc_exact (ScaleWitness.inp 1 1) none ScaleWitness.asg1 ScaleWitness.base_wf
  ScaleWitness.loop_unscaled_feasible

/-- … and it decodes to the walk `s, a, a, t` -/
example : decodeWalkLayer (ScaleWitness.inp 1 1).st ScaleWitness.asg1 0 = ["s", "a", "a", "t"] := by
  decide +kernel

/-- the hypotheses of T2 (walk form) hold for the README graph `s→a, a→b, b→a, a→t` with flows
`(1, 2, 2, 1)` and the single walk `s a b a b a t` of weight `1` (twice round the cycle) -/
def readmeInp : WalkInput :=
  { base := { nodes := ["s", "a", "b", "t"], edges := [("s", "a"), ("a", "b"), ("b", "a"), ("a", "t")] },
    flow := [(("s", "a"), 1), (("a", "b"), 2), (("b", "a"), 2), (("a", "t"), 1)], weightInt := true,
    cfg := { k := 1 } }

theorem readme_wf : BaseWF readmeInp.base where
  edgesNodup := by decide
  nodesNodup := by decide
  closed := by decide
  freshSrc := by decide
  freshSnk := by decide

theorem readme_within : WalkDecompWithin readmeInp (fun _ => ["s", "a", "b", "a", "b", "a", "t"]) (fun _ => 1) where
  isWalk := by intro i _; unfold IsWalkIn; decide +kernel
  withinCap := by
    intro i _
    decide +kernel
  weights := by
    intro i _
    exact ⟨by decide +kernel, by decide +kernel, fun _ => ⟨1, by decide +kernel⟩⟩
  multBits := by intro i _; decide +kernel
  flowLe := by decide +kernel
  decomposes := by unfold IsWalkDecomp; decide +kernel
  covered := by intro j hj; exact absurd hj (Nat.not_lt_zero j)

example : CapsAreFlows readmeInp :=
  caps_are_flows readmeInp readme_wf rfl (by
    intro e he
    have h : (readmeInp.fOpt e).isSome = true := by
      revert e
      decide +kernel
    exact Option.isSome_iff_exists.1 h)

theorem readme_names : NameInj readmeInp := by
  unfold NameInj
  decide +kernel

example : ∃ a : Asg, Sat a (kfdcLP readmeInp none) ∧
    (∀ i e, multOf a i e = traversals ("source" :: ["s", "a", "b", "a", "b", "a", "t"] ++ ["sink"]) e) ∧
    (∀ i, a (weightsVar i) = 1) :=
  kfdc_complete_walks readmeInp _ _ readme_wf (by decide) readme_names readme_within

/-- T6 (positive part) applies to the README instance: its hypotheses hold, the k-model for `k = 1` is
satisfiable, so one with at most `|E| = 4` layers is -/
theorem readme_names_le : ∀ j, j ≤ readmeInp.base.edges.length → NameInj (readmeInp.withK j) := by
  unfold NameInj
  decide +kernel

theorem readme_attr : ∀ e ∈ readmeInp.base.edges, ∃ q, readmeInp.fOpt e = some q := by
  intro e he
  have h : (readmeInp.fOpt e).isSome = true := by
    revert e
    decide +kernel
  exact Option.isSome_iff_exists.1 h

theorem readme_feasible1 : KfdcFeasible readmeInp 1 := by
  obtain ⟨a, ha, _⟩ := kfdc_complete_walks readmeInp _ _ readme_wf (by decide) readme_names readme_within
  exact ⟨a, ha⟩

example : ∃ j, j ≤ readmeInp.base.edges.length ∧ KfdcFeasible readmeInp j :=
  search_range_adequate readmeInp 1 readme_wf rfl rfl rfl rfl rfl readme_attr readme_names_le readme_feasible1

/-- `walks_at_most_edges` on the README instance with the walk `s a b a b a t` given twice with weights
`1` and `0`: at most four walks with positive weights do -/
example := walks_at_most_edges readmeInp readme_wf rfl rfl rfl 2 (fun _ => ["s", "a", "b", "a", "b", "a", "t"])
  (fun i => if i = 0 then 1 else 0)
  (by intro i _; unfold IsWalkIn; decide +kernel)
  (by unfold IsWalkDecomp; decide +kernel)

/-- … and so the search over `1 … |E|` with a faithful, conclusive and punctual solver returns the minimum -/
example (σ : Nat → Status) (hσ : FaithfulC readmeInp σ) (hc : ∀ i, σ i ≠ .other) :=
  mfdc_search_complete_plain readmeInp σ (fun _ => false) 0 1 readme_wf rfl rfl rfl rfl rfl readme_attr
    readme_names_le hσ (fun i hi => absurd hi (Nat.not_lt_zero i)) readme_feasible1 (fun i _ _ => ⟨hc i, rfl⟩)

/-- T6 for float weights applies to the unscaled self-loop instance of T4 (flows `1`) -/
theorem loop_names_le : ∀ j, j ≤ (ScaleWitness.inp 1 1).base.edges.length →
    NameInj ((ScaleWitness.inp 1 1).withK j) := by
  unfold NameInj
  decide +kernel

example : ∃ j, j ≤ (ScaleWitness.inp 1 1).base.edges.length ∧ KfdcFeasible (ScaleWitness.inp 1 1) j :=
  search_range_adequate_float (ScaleWitness.inp 1 1) 1 ScaleWitness.base_wf rfl rfl
    (by
      intro e he
      have h : ((ScaleWitness.inp 1 1).fOpt e).isSome = true := by
        revert e
        decide +kernel
      exact Option.isSome_iff_exists.1 h)
    ⟨("a", "a"), ScaleWitness.loop_active 1 1, by decide +kernel⟩ loop_names_le
    ⟨_, ScaleWitness.loop_unscaled_feasible⟩

/-- `search_range_adequate_constraints` applies to the witness of fix 26b11a1 (six constraints, `k = 6`) -/
theorem witness_names_le : ∀ j, j ≤ RangeWitness.inp.base.edges.length + RangeWitness.inp.cfg.constraints.length →
    NameInj (RangeWitness.inp.withK j) := by
  unfold NameInj
  decide +kernel

example : ∃ j, j ≤ 5 + 6 ∧ KfdcFeasible RangeWitness.inp j :=
  search_range_adequate_constraints RangeWitness.inp 6 RangeWitness.base_wf rfl rfl rfl rfl rfl
    (by decide +kernel)
    (by
      intro e he
      have h : (RangeWitness.inp.fOpt e).isSome = true := by
        revert e
        decide +kernel
      exact Option.isSome_iff_exists.1 h)
    ⟨("s0", "m"), by decide +kernel, by decide +kernel⟩ witness_names_le RangeWitness.feasible6

/-- T5 on the two instances of T4: the unscaled one is found at `k = 1`, on the scaled one every faithful
script without inconclusive answers makes the search end unsolved (as the real code does) -/
example : (stopSearchTimed (fun k => if k = 1 then .optimal else .other) (fun _ => false) 1 4).solved = some 1 := by
  decide

theorem faithful_unscaled : FaithfulC (ScaleWitness.inp 1 1) (fun k => if k = 1 then .optimal else .other) := by
  intro k
  by_cases hk : k = 1
  · subst hk
    exact ⟨fun _ => ⟨_, ScaleWitness.loop_unscaled_feasible⟩, fun h => by simp at h⟩
  · simp [hk]

example := mfdc_search_minimal (ScaleWitness.inp 1 1) _ (fun _ => false) 1 4 1 faithful_unscaled
  (fun j hj => by
    have : j = 0 := by omega
    subst this
    rintro ⟨a, ha⟩
    -- k = 0: the 10d row of the loop reads 0 = 1
    have h := (kfdc_exact ((ScaleWitness.inp 1 1).withK 0) none a ScaleWitness.base_wf ha).2.2
      ("a", "a") (ScaleWitness.loop_active 1 0)
    exact absurd (show (0 : Rat) = 1 from h) (by decide +kernel))
  (by decide)

theorem faithful_scaled : FaithfulC (ScaleWitness.inp (1/2) 1) (fun _ => .infeasible) := by
  intro k
  constructor
  · intro h; cases h
  · intro _ hf
    obtain ⟨a, ha⟩ := hf
    exact ScaleWitness.loop_scaled_infeasible k a ha

example (lo hi : Nat) : (stopSearchTimed (fun _ => Status.infeasible) (fun _ => false) lo hi).solved = none := by
  cases h : (stopSearchTimed (fun _ => Status.infeasible) (fun _ => false) lo hi).solved with
  | none => rfl
  | some k =>
    have := (FP.Props.C13.timed_sound _ _ lo hi k h).1
    cases this

end FP.Props.C04
