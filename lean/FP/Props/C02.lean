import FP.Model.Enc.KFD
import FP.Spec.Routes
import FP.Proofs.PathCore
import FP.Proofs.KFD
/-!
# C02 — flow decompositions explain every non-ignored edge's flow exactly  (DAG MILP routes)
-/
namespace FP.Props.C02
open FP FP.Spec

/-- **kFlowDecomp, MILP route.** For every satisfying assignment of the k-flow-decomposition LP on a
well-formed user DAG: with `p i` the decoded paths and `w i` the weight variables, every edge that
is neither explicitly ignored nor synthetic satisfies `Σ_i w_i · [e ∈ p_i] = f(e)` exactly, and all
weights lie in `[0, w_max]`. -/
theorem kfd_exact (inp : FlowInput) (a : Asg) (h : BaseWF inp.base) (hac : Acyclic inp.base)
    (hsat : Sat a (kfdLP inp)) :
    ∃ ps : List (List Node), decodePaths inp.st (fun e i => a (edgeVar e i)) inp.cfg.k = some ps ∧
      ps.length = inp.cfg.k ∧
      (∀ i, i < inp.cfg.k → 0 ≤ a (wVar i) ∧ a (wVar i) ≤ inp.wmax) ∧
      ∀ e ∈ inp.activeEdges,
        ((List.range inp.cfg.k).map fun i =>
            a (wVar i) * (traversals (inp.st.source :: (ps.getD i []) ++ [inp.st.sink]) e : Rat)).sum
          = inp.f e :=
  FP.kfd_exact inp a h hac hsat

/-- **given-weights route.** The same with the prescribed weights `W i`. -/
theorem kfd_given_exact (inp : FlowInput) (ws : List Rat) (ok : Nat) (a : Asg) (h : BaseWF inp.base)
    (hac : Acyclic inp.base) (hk : inp.cfg.k = ws.length) (hsat : Sat a (kfdGivenLP inp ws ok)) :
    ∃ ps : List (List Node), decodePaths inp.st (fun e i => a (edgeVar e i)) inp.cfg.k = some ps ∧
      ∀ e ∈ inp.activeEdges,
        ((List.range inp.cfg.k).map fun i =>
            ws.getD i 0 * (traversals (inp.st.source :: (ps.getD i []) ++ [inp.st.sink]) e : Rat)).sum
          = inp.f e :=
  FP.kfd_given_exact inp ws ok a h hac hk hsat

end FP.Props.C02
