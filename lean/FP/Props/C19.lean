import FP.Model.GuardEval
import FP.Model.Generated.Guards
import FP.Spec.Rejections
/-!
# C19 — invalid inputs are rejected with `ValueError` instead of being solved

The theorems are stated over `FP.Generated.guardTable`, the table of `raise ValueError` guards that
`harness/extract.py` reads off the current source of flowpaths (regenerated on every run), and are
re-checked by the kernel each time:

* `no_unmapped_guard` — every guard of the source is classified (a new or edited guard condition breaks
  this obligation until it is added to `harness/guards_map.json`);
* `expected_guarded` / `invalid_rejected` — for every class and every violation its documentation (and
  the property text) lists as rejected, the class has a guard carrying that flag, hence *every* input
  descriptor with that violation (all `2^23` combinations with other violations) evaluates to
  `valueError` — except the literal list `knownMissing`, which mirrors `known_findings.json`;
* `valid_accepted` — with no violation flag set, no guard fires.

`outcome` is the function the observation suite of `harness/props/c19.py` compares with the behaviour of
the real constructors (driver op `k4.outcome`).
-/
namespace FP.Props.C19
open FP.Tables FP.GuardEval FP.Generated FP.Spec.Rejections

/-! `modelClasses`, `expected : String → List Flag` (which violations each class is to reject, from the
docstrings' "Raises" sections and the property text) and the exception list `knownMissing` (mirroring
`known_findings.json`) are hand-written in `FP/Spec/Rejections.lean`. -/

def guardsOf (cls : String) : List Guard :=
  (guardTable.filter (fun cg => cg.cls = cls)).flatMap (·.guards)

def hasGuard (cls : String) (f : Flag) : Bool := (guardsOf cls).any (fun g => g.flag = f)

/-- `outcome` of a class by name -/
def outcomeOf (cls : String) (d : D) : Outcome := outcome ⟨cls, guardsOf cls⟩ d

/-- every `raise ValueError` guard found in the source is classified -/
theorem no_unmapped_guard : ∀ cg ∈ guardTable, ∀ g ∈ cg.guards, g.flag.isUnmapped = false := by
  decide +kernel

/-- every documented rejection has a guard in the source (up to `knownMissing`) -/
theorem expected_guarded :
    ∀ cls ∈ modelClasses, ∀ f ∈ expected cls, (cls, f) ∉ knownMissing → hasGuard cls f = true := by
  decide +kernel

/-- the same for the graph classes and abstract bases the model constructors call (no exceptions) -/
theorem support_guarded :
    ∀ cls ∈ supportClasses, ∀ f ∈ supportExpected cls, hasGuard cls f = true := by
  decide +kernel

theorem support_rejected (cls : String) (hc : cls ∈ supportClasses) (f : Flag) (hf : f ∈ supportExpected cls)
    (d : D) (hd : d.has f = true) : outcomeOf cls d = .valueError := by
  have hg := support_guarded cls hc f hf
  unfold hasGuard at hg
  obtain ⟨g, hmem, hflag⟩ := List.any_eq_true.1 hg
  exact outcome_valueError ⟨cls, guardsOf cls⟩ d f ⟨g, hmem, by simpa using hflag⟩ hd

/-- **invalid_rejected**: for every class, every documented violation `f` (not in `knownMissing`) and
*every* descriptor containing `f` — alone or combined with any other violations — the guards evaluate
to `ValueError` -/
theorem invalid_rejected (cls : String) (hc : cls ∈ modelClasses) (f : Flag) (hf : f ∈ expected cls)
    (hk : (cls, f) ∉ knownMissing) (d : D) (hd : d.has f = true) : outcomeOf cls d = .valueError := by
  have hg := expected_guarded cls hc f hf hk
  unfold hasGuard at hg
  obtain ⟨g, hmem, hflag⟩ := List.any_eq_true.1 hg
  exact outcome_valueError ⟨cls, guardsOf cls⟩ d f ⟨g, hmem, by simpa using hflag⟩ hd

/-- **valid_accepted**: with no violation flag set (and a weighted element) no guard fires, for every class -/
theorem valid_accepted (cls : String) (d : D) (h : d.anyViolation = false) (hw : d.hasWeightedElement = true) :
    outcomeOf cls d = .ok :=
  outcome_ok _ d h hw

/-- an input with some violation never evaluates to "accepted" -/
theorem violation_never_ok (cls : String) (d : D) (h : d.anyViolation = true) : outcomeOf cls d ≠ .ok :=
  outcome_not_ok_of_violation _ d h

/-! ### non-vacuity

Examples on the regenerated table may only state what stays true when a listed defect is repaired in
/repo (a repaired defect must leave the build intact); the behaviour of `outcome` on a class *without*
a guard is shown on a literal fixture. -/

example : outcomeOf "kFlowDecomp" { kNonPositive := true } = .valueError := by decide +kernel
example : outcomeOf "kFlowDecompCycles" { kNonPositive := true, negativeWeight := true } = .valueError := by decide +kernel
example : outcomeOf "kPathCover" {} = .ok := by decide +kernel
example : (firing ⟨"stDAG", guardsOf "stDAG"⟩ { cyclicForDag := true }).map (·.func) = some "stDAG._pre_build_validate" := by
  decide +kernel
example : (guardsOf "kFlowDecomp").length > 20 := by decide +kernel

/-- fixture: a constructor with a weight check but no check of `k` (the shape of the finding
`C19-k-nonpositive-error-models`) -/
def fixture : ClassGuards :=
  ⟨"Fixture", [⟨"Fixture", "Fixture.__init__", "data[flow_attr] < 0", "", .negativeWeight, .construct⟩,
               ⟨"Fixture", "Fixture.__init__", "weight_type not in [int, float]", "", .badWeightType, .construct⟩]⟩

example : outcome fixture { kNonPositive := true } = .other := by decide
example : outcome fixture { kNonPositive := true, badWeightType := true } = .valueError := by decide
example : determined fixture [] { kNonPositive := true, badWeightType := true } = false := by decide
example : determined fixture [] { negativeWeight := true, badWeightType := true } = true := by decide

end FP.Props.C19
