import FP.Model.Enc.MEF
import FP.Spec.ErrorFlow
import FP.Proofs.MEF
import FP.Proofs.MEFBound
/-!
# C16 — `MinErrorFlow` returns a closest non-negative flow on the same graph

Property theorems only; the proofs are in `FP/Proofs/MEF.lean`, the vocabulary (`IsFlow`, `absErr`,
`MEFInput.cost`, `MEFInput.Candidate`, `MEFInput.DataOK`) in `FP/Spec/ErrorFlow.lean`.

The LPs are those of `FP/Model/Enc/MEF.lean` (tied to `flowpaths/minerrorflow.py` by LP-dump equality):
`mefStage1` is solved first; with `few_flow_values_epsilon` a fresh `mefStage2` is solved afterwards.
The model graph `inp.graph` is the s-t augmentation of the input when it is acyclic and the input itself
otherwise (`additional_starts/ends` are then dropped — see the finding recorded for C16).
-/
namespace FP.Props.C16
open FP FP.Spec

/-- **(T1) soundness.** Every satisfying assignment of the first-stage LP is a candidate flow on the
model graph — non-negative, conserved at every node having both an in-edge and an out-edge, every value
at most `ub`, integral when `weight_type = int` —; the error variable of an ignored edge is `0` (there is
no coupling to its value), that of any other edge is at least `|f − x|`; and the objective is
`Σ_{non-ignored} scale · err  +  λ · (flow leaving the synthetic source)` (the last term only for `λ > 0`). -/
theorem mef_sound (inp : MEFInput) (a : Asg) (hsat : Sat a (mefStage1 inp)) :
    inp.Candidate (fun e => a (evVar e)) ∧
    (∀ e ∈ inp.graph.edges, inp.ignored e = true → a (mefErrVar e) = 0) ∧
    (∀ e ∈ inp.graph.edges, inp.ignored e = false →
        qabs (inp.f e - a (evVar e)) ≤ a (mefErrVar e)) ∧
    evalTerms a (mefStage1 inp).obj =
      (inp.active.map fun e => inp.scale e * a (mefErrVar e)).sum
        + inp.sparsity (fun e => a (evVar e)) :=
  FP.mef_sound inp a hsat

/-- **(T1, user level, acyclic input).** A flow on the s-t augmentation of a well-formed input graph is,
on the user's own edges: non-negative; balanced at every node once the (free, non-negative) values of
its synthetic edges are counted — the synthetic in-edge exists exactly at nodes without in-edges and at
declared additional starts, the synthetic out-edge exactly at nodes without out-edges and at declared
additional ends —; hence conserved at every node that has in- and out-edges and is neither an additional
start nor an additional end; `in ≤ out` at every node with out-edges that is not an additional end (an
additional start may only *emit* flow); `out ≤ in` at every node with in-edges that is not an
additional start (an additional end may only *absorb* flow). -/
theorem mef_user_acyclic (inp : MEFInput) (x : Edge → Rat) (hwf : BaseWF inp.base)
    (hac : inp.acyclic = true) (hx : IsFlow inp.graph x) :
    (∀ e ∈ inp.base.edges, 0 ≤ x e) ∧
    (∀ v ∈ inp.base.nodes,
      inSum inp.base x v + (if isStart inp.base inp.starts v then x (srcName, v) else 0)
        = outSum inp.base x v + (if isEnd inp.base inp.ends v then x (v, snkName) else 0)) ∧
    (∀ v ∈ inp.base.nodes, inp.base.inEdges v ≠ [] → inp.base.outEdges v ≠ [] →
      v ∉ inp.starts → v ∉ inp.ends → inSum inp.base x v = outSum inp.base x v) ∧
    (∀ v ∈ inp.base.nodes, inp.base.outEdges v ≠ [] → v ∉ inp.ends →
      inSum inp.base x v ≤ outSum inp.base x v) ∧
    (∀ v ∈ inp.base.nodes, inp.base.inEdges v ≠ [] → v ∉ inp.starts →
      outSum inp.base x v ≤ inSum inp.base x v) :=
  FP.mef_user_acyclic inp x hwf hac hx

/-- **(T1, user level, input with cycles).** The model graph is the input graph: the result is conserved
at *every* node with in- and out-edges — declared additional starts/ends included, they are not exempt. -/
theorem mef_user_cyclic (inp : MEFInput) (x : Edge → Rat) (hac : inp.acyclic = false)
    (hx : IsFlow inp.graph x) : IsFlow inp.base x :=
  FP.mef_user_cyclic inp x hac hx

/-- **(T2) completeness.** For well-formed observations every candidate flow `x` (values `≤ ub`,
integral if asked) extends, with `err := |f − x|` (and `0` on ignored edges), to a satisfying assignment
whose objective is the total scaled absolute change plus the sparsity term. -/
theorem mef_complete (inp : MEFInput) (x : Edge → Rat) (hd : inp.DataOK) (hx : inp.Candidate x) :
    ∃ a : Asg, Sat a (mefStage1 inp) ∧ (∀ e, a (evVar e) = x e) ∧
      (∀ e, a (mefErrVar e) = if inp.ignored e then 0 else qabs (inp.f e - x e)) ∧
      evalTerms a (mefStage1 inp).obj = inp.cost x :=
  FP.mef_complete inp x hd hx

/-- **(T3) optimality transfer.** An optimal assignment of the first-stage LP yields a candidate flow
whose cost (total scaled absolute change + sparsity term) is minimal among all candidate flows; the
optimal objective *is* that cost, and `err = |f − x|` on every non-ignored edge with a positive scale
factor — so the reported `error` is the recomputed one. -/
theorem mef_opt_transfer (inp : MEFInput) (a : Asg) (hd : inp.DataOK) (hsat : Sat a (mefStage1 inp))
    (hopt : ∀ a', Sat a' (mefStage1 inp) →
      evalTerms a (mefStage1 inp).obj ≤ evalTerms a' (mefStage1 inp).obj) :
    inp.Candidate (fun e => a (evVar e)) ∧
    (∀ x', inp.Candidate x' → inp.cost (fun e => a (evVar e)) ≤ inp.cost x') ∧
    evalTerms a (mefStage1 inp).obj = inp.cost (fun e => a (evVar e)) ∧
    (∀ e ∈ inp.active, 0 < inp.scale e →
      a (mefErrVar e) = qabs (inp.f e - a (evVar e))) :=
  FP.mef_opt_transfer inp a hd hsat hopt

/-- **(T4) adequacy of the a-priori bound.** Restricting the search to values
`≤ ub = w_max · |E(model graph)|` loses no optimum: on a model graph without parallel edges, for
non-negative observations (integral ones when `weight_type = int`), every flow (integral, if asked) is
matched by a candidate flow of at most the same cost. -/
def ub_adequate_Statement : Prop :=
  ∀ inp : MEFInput, inp.DataOK → inp.graph.edges.Nodup →
    (inp.weightInt = true → ∀ e ∈ inp.graph.edges, ∃ z : Int, inp.f e = z) →
    ∀ x : Edge → Rat, IsFlow inp.graph x →
      (inp.weightInt = true → ∀ e ∈ inp.graph.edges, ∃ z : Int, x e = z) →
      ∃ x', inp.Candidate x' ∧ inp.cost x' ≤ inp.cost x

/-- (T4) is proven (`FP/Proofs/MEFBound.lean`): induction on the number of edges with `x e > w_max`;
an edge above `w_max · |E|` lies on a closed walk of such edges or on a simple path of such edges
between two nodes where conservation is not demanded — otherwise the nodes reachable from its head (or
reaching its tail) along such edges form a cut that bounds it by `w_max · |E|` —, and lowering the
flow along that walk by the least excess keeps it a flow, does not raise any `|f e − x e|` (as
`f e ≤ w_max`) nor the source outflow, and makes one more edge `≤ w_max`. It needs `f ≥ 0`: with
all-negative observations `ub < 0` and the LP is infeasible. -/
theorem ub_adequate : ub_adequate_Statement :=
  fun inp hd hnd hfi x hx hxi => FP.mef_ub_adequate inp hd hnd hfi x hx hxi

/-- **(T3 + T4) the closest flow.** On a well-formed input graph with non-negative (integral, if
asked) observations, an optimal assignment of the first-stage LP yields a flow whose cost — total
scaled absolute change plus sparsity term — is minimal among **all** (integral, if asked) flows on
the model graph, bounded or not. -/
theorem mef_opt_all_flows (inp : MEFInput) (a : Asg) (hwf : BaseWF inp.base) (hd : inp.DataOK)
    (hfi : inp.weightInt = true → ∀ e ∈ inp.graph.edges, ∃ z : Int, inp.f e = z)
    (hsat : Sat a (mefStage1 inp))
    (hopt : ∀ a', Sat a' (mefStage1 inp) →
      evalTerms a (mefStage1 inp).obj ≤ evalTerms a' (mefStage1 inp).obj) :
    IsFlow inp.graph (fun e => a (evVar e)) ∧
    ∀ x : Edge → Rat, IsFlow inp.graph x →
      (inp.weightInt = true → ∀ e ∈ inp.graph.edges, ∃ z : Int, x e = z) →
      inp.cost (fun e => a (evVar e)) ≤ inp.cost x := by
  have h := FP.mef_opt_transfer inp a hd hsat hopt
  refine ⟨h.1.flow, ?_⟩
  intro x hx hxi
  obtain ⟨x', hc, hle⟩ := ub_adequate inp hd (inp.graph_edges_nodup hwf) hfi x hx hxi
  exact Rat.le_trans (h.2.1 x' hc) hle

/-- **(C16 on the user's graph, acyclic input, `sparsity_lambda = 0`).** The corrected values on the
user's non-ignored edges are at least as close (total scaled absolute change) to the observation as
**any** non-negative (integral, if asked) edge function `y` of the input graph that is conserved at every
node with in- and out-edges that is no additional start/end, has `in ≤ out` at every node with out-edges
that is no additional end and `out ≤ in` at every node with in-edges that is no additional start. -/
theorem mef_closest_user_acyclic (inp : MEFInput) (a : Asg) (hwf : BaseWF inp.base)
    (hac : inp.acyclic = true) (hlam : ¬ inp.lambda > 0) (hd : inp.DataOK)
    (hfi : inp.weightInt = true → ∀ e ∈ inp.graph.edges, ∃ z : Int, inp.f e = z)
    (hsat : Sat a (mefStage1 inp))
    (hopt : ∀ a', Sat a' (mefStage1 inp) →
      evalTerms a (mefStage1 inp).obj ≤ evalTerms a' (mefStage1 inp).obj)
    (y : Edge → Rat) (hnn : ∀ e ∈ inp.base.edges, 0 ≤ y e)
    (h1 : ∀ v ∈ inp.base.nodes, inp.base.outEdges v ≠ [] → v ∉ inp.ends →
      inSum inp.base y v ≤ outSum inp.base y v)
    (h2 : ∀ v ∈ inp.base.nodes, inp.base.inEdges v ≠ [] → v ∉ inp.starts →
      outSum inp.base y v ≤ inSum inp.base y v)
    (hyi : inp.weightInt = true → ∀ e ∈ inp.base.edges, ∃ z : Int, y e = z) :
    absErr inp.active inp.scale inp.f (fun e => a (evVar e))
      ≤ absErr inp.active inp.scale inp.f y :=
  FP.mef_closest_user_acyclic inp a hwf hac hlam hd hfi hsat hopt y hnn h1 h2 hyi

/-- **(C16 on the user's graph, input with cycles).** The corrected values are at least as close to the
observation as any (integral, if asked) flow of the input graph that is conserved at **every** node with
in- and out-edges — flows that use a declared additional start/end are *not* among the competitors
(finding C16-cyclic-additional-starts-ends-dropped). -/
theorem mef_closest_user_cyclic (inp : MEFInput) (a : Asg) (hnd : inp.base.edges.Nodup)
    (hac : inp.acyclic = false) (hlam : ¬ inp.lambda > 0) (hd : inp.DataOK)
    (hfi : inp.weightInt = true → ∀ e ∈ inp.graph.edges, ∃ z : Int, inp.f e = z)
    (hsat : Sat a (mefStage1 inp))
    (hopt : ∀ a', Sat a' (mefStage1 inp) →
      evalTerms a (mefStage1 inp).obj ≤ evalTerms a' (mefStage1 inp).obj)
    (y : Edge → Rat) (hy : IsFlow inp.base y)
    (hyi : inp.weightInt = true → ∀ e ∈ inp.base.edges, ∃ z : Int, y e = z) :
    absErr inp.active inp.scale inp.f (fun e => a (evVar e))
      ≤ absErr inp.active inp.scale inp.f y :=
  FP.mef_closest_user_cyclic inp a hnd hac hlam hd hfi hsat hopt y hy hyi

/-- **(T5) the second stage.** Every satisfying assignment of the second-stage LP built with the
right-hand side `(1+ε)·opt` is still a candidate flow, satisfies `first-stage objective ≤ (1+ε)·opt`
(literally one of its rows), and therefore has cost `≤ (1+ε)·opt`. -/
theorem mef_eps (inp : MEFInput) (eps opt : Rat) (nvals : Nat) (a : Asg)
    (hsc : ∀ p ∈ inp.scaling, 0 ≤ p.2) (hsat : Sat a (mefStage2 inp ((1 + eps) * opt) nvals)) :
    inp.Candidate (fun e => a (evVar e)) ∧
    evalTerms a (mefStage1 inp).obj ≤ (1 + eps) * opt ∧
    inp.cost (fun e => a (evVar e)) ≤ (1 + eps) * opt :=
  FP.mef_eps inp _ nvals a hsc hsat

/-- (T5, values) a second-stage solution takes, on the edges of the input graph, only the `nvals` values
held by `all_flow_values_vars` -/
theorem mef_eps_values (inp : MEFInput) (bound : Rat) (nvals : Nat) (a : Asg)
    (hsat : Sat a (mefStage2 inp bound nvals)) :
    ∀ e ∈ inp.base.edges, ∃ i, i < nvals ∧ a (evVar e) = a (afvVar i) :=
  FP.mef_stage2_values inp bound nvals a hsat

/-- (T5, feasibility) the second stage is satisfiable as soon as there is one slot per distinct value
that some candidate flow within the budget takes **on all edges of the input graph** — the count the
code should use. (The code counts `corrected_graph[u][v].get(flow_attr, 0)`, i.e. takes `0` for an
ignored edge without the attribute, and can so undercount: finding C16-eps-infeasible-ignored-edge-without-attribute.) -/
theorem mef_stage2_complete (inp : MEFInput) (bound : Rat) (nvals : Nat) (x : Edge → Rat)
    (vals : Nat → Rat) (hd : inp.DataOK) (hx : inp.Candidate x) (hcost : inp.cost x ≤ bound)
    (hcl : ∀ e ∈ inp.base.edges, e.1 ∈ inp.base.nodes ∧ e.2 ∈ inp.base.nodes)
    (hvals : ∀ i, i < nvals → 0 ≤ vals i ∧ vals i ≤ inp.ub ∧
      (inp.weightInt = true → ∃ z : Int, vals i = z))
    (hcover : ∀ e ∈ inp.base.edges, ∃ i, i < nvals ∧ x e = vals i) :
    ∃ a : Asg, Sat a (mefStage2 inp bound nvals) ∧ ∀ e, a (evVar e) = x e :=
  FP.mef_stage2_complete inp bound nvals x vals hd hx hcost hcl hvals hcover

/-! ## non-vacuity: `a → b → c` observed as `2, 5` (acyclic) and the 2-cycle `a ⇄ b` observed as `1, 3` -/

def exInp : MEFInput :=
  { base := { nodes := ["a", "b", "c"], edges := [("a", "b"), ("b", "c")] },
    flow := [(("a", "b"), 2), (("b", "c"), 5)], weightInt := true }

theorem exInp_acyclic : exInp.acyclic = true := by decide +kernel
theorem exInp_graph : exInp.graph =
    { nodes := ["a", "b", "c", "source", "sink"],
      edges := [("a", "b"), ("b", "c"), ("c", "sink"), ("source", "a")] } := by decide +kernel
theorem exInp_ub : exInp.ub = 20 := by decide +kernel

/-- the correction `5, 5` (flow 5 from the synthetic source to the synthetic sink) -/
def exFlow : Edge → Rat := fun _ => 5

theorem exInp_dataOK : exInp.DataOK where
  fNonneg := by decide +kernel
  scaleNonneg := by decide +kernel
  fInt := fun _ e he => by
    have : e ∈ [("a", "b"), ("b", "c")] := by
      have : exInp.active = [("a", "b"), ("b", "c")] := by decide +kernel
      rw [← this]; exact he
    simp only [List.mem_cons, List.not_mem_nil, or_false] at this
    rcases this with rfl | rfl
    · exact ⟨2, by decide +kernel⟩
    · exact ⟨5, by decide +kernel⟩

theorem exFlow_candidate : exInp.Candidate exFlow where
  flow := ⟨by decide +kernel, by decide +kernel⟩
  bounded := by rw [exInp_ub]; decide +kernel
  integral := fun _ e _ => ⟨5, by simp [exFlow]⟩

/-- the hypotheses of `mef_sound` / `mef_opt_transfer` are satisfiable: the first-stage LP of the
example has a satisfying assignment, with objective `3 = |2 − 5| + |5 − 5|` -/
example : ∃ a : Asg, Sat a (mefStage1 exInp) ∧ evalTerms a (mefStage1 exInp).obj = 3 := by
  obtain ⟨a, hsat, _, _, hobj⟩ := mef_complete exInp exFlow exInp_dataOK exFlow_candidate
  exact ⟨a, hsat, by rw [hobj]; decide +kernel⟩

/-- `3` is the optimum of the example: every candidate flow changes the observation by at least `3`
(conservation at `b` forces one common value `t`, and `|2 − t| + |5 − t| ≥ 3`) -/
theorem exInp_optimum (x : Edge → Rat) (hx : exInp.Candidate x) : 3 ≤ exInp.cost x := by
  have hc := hx.flow.cons "b" (by decide +kernel) (by decide +kernel) (by decide +kernel)
  have h1 : exInp.graph.inEdges "b" = [("a", "b")] := by decide +kernel
  have h2 : exInp.graph.outEdges "b" = [("b", "c")] := by decide +kernel
  have h3 : exInp.active = [("a", "b"), ("b", "c")] := by decide +kernel
  have h4 : exInp.f ("a", "b") = 2 := by decide +kernel
  have h5 : exInp.f ("b", "c") = 5 := by decide +kernel
  have h6 : exInp.scale ("a", "b") = 1 := by decide +kernel
  have h7 : exInp.scale ("b", "c") = 1 := by decide +kernel
  have h8 : exInp.sparsity x = 0 := by
    unfold MEFInput.sparsity
    have : ¬ (exInp.lambda > 0) := by decide +kernel
    simp [this]
  simp only [inSum, outSum, h1, h2, List.map_cons, List.map_nil, List.sum_cons, List.sum_nil] at hc
  simp only [MEFInput.cost, absErr, h3, h4, h5, h6, h7, h8, List.map_cons, List.map_nil, List.sum_cons,
    List.sum_nil]
  unfold qabs
  split <;> split <;> grind

/-- and it is attained: the closest-flow problem of the example has optimum exactly `3` -/
example : exInp.cost exFlow = 3 := by decide +kernel

/-- (T4) applies to the example: the flow `100, 100` (far above `ub = 20`) is matched by a candidate -/
example : ∃ x', exInp.Candidate x' ∧ exInp.cost x' ≤ exInp.cost (fun _ => 100) :=
  ub_adequate exInp exInp_dataOK (by decide +kernel)
    (fun _ e he => by
      have : exInp.graph.edges = [("a", "b"), ("b", "c"), ("c", "sink"), ("source", "a")] := by
        decide +kernel
      rw [this] at he
      simp only [List.mem_cons, List.not_mem_nil, or_false] at he
      rcases he with rfl | rfl | rfl | rfl
      · exact ⟨2, by decide +kernel⟩
      · exact ⟨5, by decide +kernel⟩
      · exact ⟨0, by decide +kernel⟩
      · exact ⟨0, by decide +kernel⟩)
    (fun _ => 100) ⟨by decide +kernel, by decide +kernel⟩ (fun _ e _ => ⟨100, by simp⟩)

/-- a digraph with a cycle: the model graph is the input itself; `2, 2` is a flow at distance `2` -/
def exCyc : MEFInput :=
  { base := { nodes := ["a", "b"], edges := [("a", "b"), ("b", "a")] },
    flow := [(("a", "b"), 1), (("b", "a"), 3)], starts := ["a"] }

theorem exCyc_cyclic : exCyc.acyclic = false := by decide +kernel

example : ∃ a : Asg, Sat a (mefStage1 exCyc) ∧ evalTerms a (mefStage1 exCyc).obj = 2 := by
  have hd : exCyc.DataOK :=
    { fNonneg := by decide +kernel, scaleNonneg := by decide +kernel, fInt := fun h => by simp [exCyc] at h }
  have hub : exCyc.ub = 6 := by decide +kernel
  have hx : exCyc.Candidate (fun _ => 2) :=
    { flow := ⟨by decide +kernel, by decide +kernel⟩, bounded := by rw [hub]; decide +kernel,
      integral := fun h => by simp [exCyc] at h }
  obtain ⟨a, hsat, _, _, hobj⟩ := mef_complete exCyc (fun _ => 2) hd hx
  exact ⟨a, hsat, by rw [hobj]; decide +kernel⟩

/-- the declared additional start `a` of the cyclic example is **not** exempt: every model flow is
conserved at `a` (`mef_user_cyclic`), although `1, 3` itself would be a flow if `a` could emit 2 units -/
example (x : Edge → Rat) (hx : IsFlow exCyc.graph x) : x ("b", "a") = x ("a", "b") := by
  have h := mef_user_cyclic exCyc x exCyc_cyclic hx
  have hc := h.cons "a" (by decide +kernel) (by decide +kernel) (by decide +kernel)
  have h1 : exCyc.base.inEdges "a" = [("b", "a")] := by decide +kernel
  have h2 : exCyc.base.outEdges "a" = [("a", "b")] := by decide +kernel
  simp only [inSum, outSum, h1, h2, List.map_cons, List.map_nil, List.sum_cons, List.sum_nil] at hc
  grind

end FP.Props.C16
