import FP.Model.Euler
import FP.Spec.Walk
import FP.Proofs.Euler
import FP.Proofs.Round
import FP.Proofs.WalkDecodeMult
/-!
# C14 — walk reconstruction uses every edge exactly as often as the solver decided
-/
namespace FP.Props.C14
open FP FP.WDM FP.Euler FP.Spec
variable {V : Type} [DecidableEq V]

/-- edge multiset of an adjacency structure -/
abbrev edges (g : Adj V) : List (V × V) := FP.Euler.edges g

/-- Hypotheses of the property: distinct dict keys, every vertex has a key (python would raise
`KeyError` otherwise), balanced at inner vertices, source leaves once more than it is entered,
sink symmetric, every vertex with an out-edge reachable from the source. -/
structure EulerianST (g : Adj V) (s t : V) : Prop where
  keys : (g.map (·.1)).Nodup
  skey : s ∈ g.map (·.1)
  closedKeys : ∀ e ∈ edges g, e.2 ∈ g.map (·.1)
  st : s ≠ t
  inner : ∀ x, x ≠ s → x ≠ t → bal (edges g) x = 0
  src : bal (edges g) s = 1
  snk : bal (edges g) t = -1
  conn : ∀ e ∈ edges g, Reach (edges g) s e.1

/-- **C14 (full strength).** The walk handed to the user, with the synthetic endpoints put back,
is a single source-to-sink walk whose consecutive pairs are, as a multiset, exactly the edges of
the residual graph: no edge dropped, none invented. -/
theorem reconstruct_euler (g : Adj V) (s t : V) (h : EulerianST g s t) :
    (walkEdges (s :: reconstruct g s t ++ [t])).Perm (edges g) ∧ remaining g s = 0 :=
  FP.Euler.reconstruct_euler_main g s t h.keys h.skey h.closedKeys h.st h.inner h.src h.snk h.conn

/-- an all-zero assignment yields the empty walk -/
theorem reconstruct_zero (g : Adj V) (s t : V) (h : edges g = []) : reconstruct g s t = [] :=
  FP.Euler.reconstruct_nil g s t h

/-! ## From the solver's values to the walk (`_build_residual_graph_for_layer` + `round()`) -/

/-- Python's `round(x)` returns the integer within distance `< 1/2` of `x` -/
theorem pyRound_near (x : Rat) (n : Int) (h1 : (n : Rat) - 1/2 < x) (h2 : x < (n : Rat) + 1/2) :
    pyRound x = n := FP.pyRound_near x n h1 h2

/-- `round` fixes integers -/
theorem pyRound_int (n : Int) : pyRound (n : Rat) = n := FP.pyRound_int n

/-- `_build_residual_graph_for_layer`: the residual adjacency structure contains every graph edge
`e` exactly `m e` times and no other pair. -/
theorem edges_buildResidual (g : Graph) (m : Edge → Nat) (hN : g.nodes.Nodup) (hE : g.edges.Nodup)
    (hEnd : ∀ e ∈ g.edges, e.1 ∈ g.nodes) (e : Edge) :
    (edges (buildResidual g m)).count e = if e ∈ g.edges then m e else 0 :=
  FP.WDM.edges_buildResidual g m hN hE hEnd e

/-- the balance used in `MultST` is the sum of the multiplicities over the out-edges of `x` minus
the sum over its in-edges -/
theorem bal_multEdges (g : Graph) (m : Edge → Nat) (x : Node) :
    bal (multEdges g m) x = (outN g m x : Int) - (inN g m x : Int) := FP.WDM.bal_multEdges g m x

/-- **C14 in the user's vocabulary.** For per-walk multiplicities `m` that are balanced at inner
nodes, leave the source once, enter the sink once and are connected (`MultST`), every pair `e`
occurs among the consecutive pairs of `s :: walk ++ [t]` exactly `m e` times if it is a graph
edge and never otherwise: none dropped, none invented. -/
theorem walk_traverses_multiplicity (g : Graph) (m : Edge → Nat) (s t : Node)
    (h : MultST g m s t) (e : Edge) :
    (walkEdges (s :: walkOfMult g m s t ++ [t])).count e = if e ∈ g.edges then m e else 0 :=
  FP.WDM.walkOfMult_count g m s t h e

/-- the same from the solver's raw values: whenever every value is within `< 1/2` of the intended
multiplicity, the walk built from `range(round(value))` traverses each edge exactly `m e` times -/
theorem walk_traverses_rounded_values (g : Graph) (vals : Edge → Rat) (m : Edge → Nat) (s t : Node)
    (h : MultST g m s t)
    (hv : ∀ e, (m e : Rat) - 1/2 < vals e ∧ vals e < (m e : Rat) + 1/2) (e : Edge) :
    (walkEdges (s :: walkOfValues g vals s t ++ [t])).count e = if e ∈ g.edges then m e else 0 :=
  FP.WDM.walkOfValues_count g vals m s t h hv e

/-- the layer decode of the walk models (`decodeWalkLayer`, the function the C05/C09/C10 LP
theorems speak about) is this very function, applied to the solver's values of layer `i` -/
theorem decodeWalkLayer_eq_walkOfValues (s : STGraph) (a : Asg) (i : Nat) :
    decodeWalkLayer s a i = walkOfValues s.g (fun e => a (edgeVar e i)) s.source s.sink := rfl

/-- and the multiplicities the LP theorems use are the rounded counts -/
theorem decodeWalkLayer_eq_walkOfMult (s : STGraph) (a : Asg) (i : Nat) :
    decodeWalkLayer s a i = walkOfMult s.g (multOf a i) s.source s.sink := rfl

/-- `walk_traverses_rounded_values` for `get_solution_walks` of a walk model: layer `i` of the
decoded solution traverses each edge exactly `m e` times whenever every `edge_vars_sol` value of
the layer is within `< 1/2` of `m e` -/
theorem decodeWalkLayer_traverses_rounded_values (s : STGraph) (a : Asg) (i : Nat) (m : Edge → Nat)
    (h : MultST s.g m s.source s.sink)
    (hv : ∀ e, (m e : Rat) - 1/2 < a (edgeVar e i) ∧ a (edgeVar e i) < (m e : Rat) + 1/2) (e : Edge) :
    (walkEdges (s.source :: decodeWalkLayer s a i ++ [s.sink])).count e
      = if e ∈ s.g.edges then m e else 0 :=
  walk_traverses_rounded_values s.g (fun e => a (edgeVar e i)) m s.source s.sink h hv e

/-! ### non-vacuity: a 2-cycle traversed twice plus a self-loop -/
namespace Example

def exG : Graph :=
  { nodes := ["s", "a", "b", "t"],
    edges := [("s", "a"), ("a", "b"), ("b", "a"), ("a", "a"), ("a", "t")] }

def exM : Edge → Nat := fun e =>
  ([(("s", "a"), 1), (("a", "b"), 2), (("b", "a"), 2), (("a", "a"), 1), (("a", "t"), 1)].lookup e).getD 0

example : walkOfMult exG exM "s" "t" = ["a", "b", "a", "b", "a", "a"] := by decide

theorem bal_zero_of_notMem (x : Node) (hx : x ∉ exG.nodes) : bal (multEdges exG exM) x = 0 := by
  have h1 : (multEdges exG exM).countP (·.1 = x) = 0 := by
    rw [List.countP_eq_zero]; intro e he
    have : e.1 ∈ exG.nodes := by revert e; decide
    simp only [decide_eq_true_eq]; intro h; exact hx (h ▸ this)
  have h2 : (multEdges exG exM).countP (·.2 = x) = 0 := by
    rw [List.countP_eq_zero]; intro e he
    have : e.2 ∈ exG.nodes := by revert e; decide
    simp only [decide_eq_true_eq]; intro h; exact hx (h ▸ this)
  simp [bal, outdeg, indeg, h1, h2]

/-- the hypotheses of `walk_traverses_multiplicity` hold on a graph with a 2-cycle of
multiplicity 2 and a self-loop -/
theorem exMultST : MultST exG exM "s" "t" where
  nodesNodup := by decide
  edgesNodup := by decide
  endpoints := by decide
  smem := by decide
  st := by decide
  inner := by
    intro x h0 h3
    by_cases hx : x ∈ exG.nodes
    · simp only [exG, List.mem_cons, List.not_mem_nil, or_false] at hx
      rcases hx with rfl | rfl | rfl | rfl <;> first | decide | contradiction
    · exact bal_zero_of_notMem x hx
  src := by decide
  snk := by decide
  conn := by
    have r0 : Reach (multEdges exG exM) "s" "s" := .refl _
    have r1 : Reach (multEdges exG exM) "s" "a" := .step r0 (by decide)
    have r2 : Reach (multEdges exG exM) "s" "b" := .step r1 (by decide)
    intro e he _
    simp only [exG, List.mem_cons, List.not_mem_nil, or_false] at he
    rcases he with rfl | rfl | rfl | rfl | rfl <;> assumption

example (e : Edge) : (walkEdges ("s" :: walkOfMult exG exM "s" "t" ++ ["t"])).count e
    = if e ∈ exG.edges then exM e else 0 := walk_traverses_multiplicity exG exM "s" "t" exMultST e

/-- solver values with noise and an exact tie-free neighbourhood: `1.9999`, `2.3`, `-0.2` … -/
def exVals : Edge → Rat := fun e =>
  ([(("s", "a"), (10000001 : Rat) / 10000000), (("a", "b"), 23 / 10), (("b", "a"), 17 / 10),
    (("a", "a"), 1), (("a", "t"), 7 / 10), (("t", "s"), -2 / 10)].lookup e).getD 0

example : walkOfValues exG exVals "s" "t" = ["a", "b", "a", "b", "a", "a"] := by decide +kernel

end Example

end FP.Props.C14
