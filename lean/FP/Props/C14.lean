import FP.Model.Euler
import FP.Spec.Walk
import FP.Proofs.Euler
/-!
# C14 — walk reconstruction uses every edge exactly as often as the solver decided
-/
namespace FP.Props.C14
open FP.Euler FP.Spec
variable {V : Type} [DecidableEq V]

/-- edge multiset of an adjacency structure -/
abbrev edges (g : Adj V) : List (V × V) := FP.Euler.edges g

/-- Hypotheses of the property: distinct dict keys, every vertex has a key (python would raise
`KeyError` otherwise), balanced at inner vertices, source leaves once more than it is entered,
sink symmetric, every vertex with an out-edge reachable from the source. -/
structure EulerianST (g : Adj V) (s t : V) : Prop where
  keys : (g.map (·.1)).Nodup
  skey : s ∈ g.map (·.1)
  closedKeys : ∀ e ∈ edges g, e.2 ∈ g.map (·.1)
  st : s ≠ t
  inner : ∀ x, x ≠ s → x ≠ t → bal (edges g) x = 0
  src : bal (edges g) s = 1
  snk : bal (edges g) t = -1
  conn : ∀ e ∈ edges g, Reach (edges g) s e.1

/-- **C14 (full strength).** The walk handed to the user, with the synthetic endpoints put back,
is a single source-to-sink walk whose consecutive pairs are, as a multiset, exactly the edges of
the residual graph: no edge dropped, none invented. -/
theorem reconstruct_euler (g : Adj V) (s t : V) (h : EulerianST g s t) :
    (walkEdges (s :: reconstruct g s t ++ [t])).Perm (edges g) ∧ remaining g s = 0 :=
  FP.Euler.reconstruct_euler_main g s t h.keys h.skey h.closedKeys h.st h.inner h.src h.snk h.conn

/-- an all-zero assignment yields the empty walk -/
theorem reconstruct_zero (g : Adj V) (s t : V) (h : edges g = []) : reconstruct g s t = [] :=
  FP.Euler.reconstruct_nil g s t h

end FP.Props.C14
