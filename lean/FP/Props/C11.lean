import FP.Model.NodeExpand
import FP.Spec.Routes
import FP.Proofs.NodeExpandStr
import FP.Proofs.NodeExpandGraph
import FP.Proofs.NodeExpandKFD
import FP.Proofs.NodeExpandModes
import FP.Proofs.WalkCoreExample
import FP.Proofs.NodeExpandModesCyc
import FP.Proofs.NodeExpandModesCycWalks
import FP.Proofs.NodeExpandModesCycWitness
/-!
# C11 — node-weighted solving equals solving the explicitly node-expanded instance

Model: `FP/Model/NodeExpand.lean` (`NodeExpandedDiGraph` and the node branch of `kFlowDecomp.__init__`).

What is proven here, for **every** name alphabet (names are arbitrary strings: they may contain dots and
end in `.0` / `.1`):

* expand-then-condense is the identity on paths, elements, constraints, starts / ends, node values;
* `get_expanded_edge` is injective and node copies never collide with edge copies;
* the ignore list is exactly {copies of original edges} ∪ {copies of attribute-less nodes};
* the expansion of a (closed, acyclic) graph is a well-formed acyclic graph whose admissible routes are
  exactly the expansions `v₁.0 v₁.1 … vₙ.0 vₙ.1` of admissible routes of the original graph, and
  `get_condensed_paths` returns `v₁ … vₙ`;
* `node_mode_is_edge_mode_on_expansion`: the LP that `kFlowDecomp(flow_attr_origin="node")` builds is, as
  data, the LP that `kFlowDecomp` builds in edge mode on the explicit expansion of the property text
  (`expandInput`). The content of this equality is that the code's ignore list (built inside the expansion
  loop from predecessor lists, then `list(set(…))`) and its copied attributes (original edges may carry an
  attribute of the same name) cannot be told apart, by the edge-level encoder, from the specification's
  "all original edges and all attribute-less nodes are ignored, only node copies carry values". That the
  Lean `kfdNodeLP` *is* what the real constructor builds is not a theorem: it is checked by the 3-way K2
  LP-dump comparison in `harness/props/c11.py`.
* the same equality for the node branches of `kLeastAbsErrors`, `kMinPathError` (with additional starts / ends,
  `error_scaling`, `path_length_ranges` / `path_length_factors`, `encode_edge_position`) and of
  `kPathCover(cover_type="node")` (model: `FP/Model/NodeExpandModes.lean`):
  `node_mode_is_edge_mode_on_expansion_klae`, `…_kmpe`, `…_kcover`, all three unconditional. Until fix 65014a7
  `kPathCover` / `MinPathCover` built their `NodeExpandedDiGraph` *without* `node_length_attr`, so the copy
  `(u.1, v.0)` of an original edge that lacks the length attribute counted with length 1 in
  `subpath_constraints_coverage_length` constraints, where the expansion of the other classes gives it length 0
  (former finding C11-kpathcover-node-length-default); `kcover_node_mode_length_regression` is the regression theorem
  on the input of that defect (node LP = edge LP on the expansion, feasible for `k = 1`),
  `kcover_former_reading_differs` records what the LP was before the fix.

* the four **cyclic** k-classes (model: `FP/Model/NodeExpandModesCyc.lean`):
  `node_mode_is_edge_mode_on_expansion_kcoverc` (unconditional), `…_kfdc`, `…_klaec`, `…_kmpec`. The cyclic
  constructors compute their per-edge repetition caps on the expanded graph from whatever `flow_attr` values sit on it
  — ignored edges included — and `NodeExpandedDiGraph` copies every attribute of an original edge `(u, v)` onto
  `(u.1, v.0)`. `w_max` always comes out equal; the caps of `kFlowDecompCycles` come out equal **exactly when** no
  original edge inside a cycle carries an attribute named like the flow attribute with a value whose floor differs
  from that of `w_max` (`kfdc_caps_equal_iff`; the caps are floored since fix fcfd0b0); for the two error classes it suffices that such attributes have value `0`. Without the
  hypothesis the equality fails: `kfdc_node_mode_cap_from_edge_attribute_differs` (the node LP is infeasible, the LP
  on the explicit expansion feasible), `errc_node_mode_cap_from_edge_attribute_differs`; both inputs are replayed on
  the real classes (finding `C11-cyclic-node-mode-cap-from-edge-attribute`). Independent of the caps:
  `node_mode_walks_condense_kfdc` / `_kcoverc` / `_klaec` / `_kmpec` — every walk decoded from a satisfying
  assignment of a cyclic node branch condenses to an admissible walk of the caller's graph in original names.

The candidate falsifiers of the design notes are settled as follows: dotted names do **not** break
condensing (`condense_expand`, `dotted_names_condense_witness`); the other candidates
(`kPathCover(cover_type="node")` raising, `MinPathCover` returning expanded names, node mode of
`kFlowDecomp` crashing on graphs without inner nodes) are outside this model and are reported by the
end-to-end oracle of the check.
-/
namespace FP.Props.C11
open FP FP.NX FP.Spec

/-- **expand then condense is the identity on paths** — any node names whatsoever -/
theorem condense_expand (orig : List Node) (p : List Node) (h : ∀ v ∈ p, v ∈ orig) :
    condensePath orig [] (expandPath p) = .ok p :=
  NX.condense_expand orig p h

/-- with global source / sink ids: they are accepted and dropped, everything else comes back -/
theorem condense_expand_globals (orig globals : List Node) (p : List Node)
    (h : ∀ v ∈ p, v ∈ orig ∨ v ∈ globals) :
    condensePath orig globals (expandPath p) = .ok (p.filter fun v => !globals.contains v) :=
  NX.condense_expand_globals orig globals p h

theorem condensePaths_expand (orig : List Node) (ps : List (List Node)) (h : ∀ p ∈ ps, ∀ v ∈ p, v ∈ orig) :
    condensePaths orig [] (ps.map expandPath) = .ok ps :=
  NX.condensePaths_expand orig ps h

/-- `get_expanded_edge` is injective on nodes and on edges -/
theorem expandedEdge_injective :
    (∀ a b : Node, nodeEdge a = nodeEdge b → a = b) ∧ (∀ a b : Edge, edgeEdge a = edgeEdge b → a = b) :=
  ⟨fun _ _ => nodeEdge_inj, fun _ _ => edgeEdge_inj⟩

/-- the copy of a node is never the copy of an edge, and the two copies of a node differ -/
theorem expandedEdge_disjoint (v : Node) (e : Edge) : nodeEdge v ≠ edgeEdge e ∧ n0 v ≠ n1 v :=
  ⟨nodeEdge_ne_edgeEdge v e, n0_ne_n1 v v⟩

/-- expanding an element and reading it back yields the element -/
theorem condenseElement_expand (g : Graph) :
    (∀ v x, expandedNode g v = .ok x → condenseElement x = some (.node v) ∧ v ∈ g.nodes) ∧
    (∀ e x, expandedEdge g e = .ok x → condenseElement x = some (.edge e) ∧ e ∈ g.edges) :=
  NX.condenseElement_expand g

/-- constraints: whatever `get_expanded_subpath_constraints` accepts is the element-wise translation,
and reading the expanded constraints back yields the original node lists / edge lists -/
theorem constraints_roundtrip (g : Graph) (cs : Constraints) (xs : List (List Edge))
    (h : expandConstraints g cs = .ok xs) :
    xs = specConstraints cs ∧
    match cs with
    | .nodes l => xs.map condenseConstraint = l.map (·.map .node)
    | .edges l => xs.map (fun x => edgesOf (condenseConstraint x)) = l :=
  ⟨expandConstraints_ok h, NX.constraints_roundtrip h⟩

theorem starts_ends_roundtrip (g : Graph) (l xs : List Node) :
    (expandStarts g l = .ok xs → xs = l.map n0 ∧ (∀ v ∈ l, v ∈ g.nodes) ∧ xs.map strip2 = l) ∧
    (expandEnds g l = .ok xs → xs = l.map n1 ∧ (∀ v ∈ l, v ∈ g.nodes) ∧ xs.map strip2 = l) :=
  ⟨expandStarts_ok, expandEnds_ok⟩

/-- nodes lacking the attribute are ignored, every original edge is ignored, and a node that carries
the attribute is not ignored -/
theorem missing_attr_ignored (ng : NodeGraph) (hc : Closed ng.g) :
    (∀ v ∈ ng.g.nodes, ng.hasFlow v = false → nodeEdge v ∈ edgesToIgnore ng) ∧
    (∀ e ∈ ng.g.edges, edgeEdge e ∈ edgesToIgnore ng) ∧
    (∀ v ∈ ng.g.nodes, ng.hasFlow v = true → nodeEdge v ∉ edgesToIgnore ng) :=
  NX.missing_attr_ignored ng hc

theorem edgesToIgnore_exact (ng : NodeGraph) (hc : Closed ng.g) (x : Edge) :
    x ∈ edgesToIgnore ng ↔
      (∃ e ∈ ng.g.edges, x = edgeEdge e) ∨ (∃ v ∈ ng.g.nodes, ng.hasFlow v = false ∧ x = nodeEdge v) :=
  NX.edgesToIgnore_exact ng hc x

theorem expansion_nodes (g : Graph) (hc : Closed g) (x : Node) :
    x ∈ (expandGraph g).nodes ↔ ∃ v ∈ g.nodes, x = n0 v ∨ x = n1 v :=
  NX.expansion_nodes g hc x

theorem expansion_edges (g : Graph) (hc : Closed g) (x : Edge) :
    x ∈ (expandGraph g).edges ↔ (∃ v ∈ g.nodes, x = nodeEdge v) ∨ (∃ e ∈ g.edges, x = edgeEdge e) :=
  NX.expansion_edges g hc x

/-- the expansion is a well-formed input of the edge-level models (distinct nodes and edges, closed,
synthetic names unused) whatever the names of the original graph are -/
theorem expansion_wf (g : Graph) (hc : Closed g) : BaseWF (expandGraph g) := NX.expansion_wf g hc

theorem expansion_acyclic (g : Graph) (hac : Acyclic g) : Acyclic (expandGraph g) := NX.expansion_acyclic g hac

/-- a walk of the expansion from a `.0` node to a `.1` node alternates `v.0, v.1` and condenses to a
walk of the original graph -/
theorem expanded_walk_condenses (g : Graph) (l : List Node) (v w : Node)
    (hw : IsWalkIn (expandGraph g) l) (hfirst : l.head? = some (n0 v)) (hlast : l.getLast? = some (n1 w)) :
    ∃ p, l = expandPath p ∧ IsWalkIn g p ∧ p.head? = some v ∧ p.getLast? = some w :=
  NX.expanded_walk_condenses g l v w hw hfirst hlast

/-- admissible routes of the expansion (with expanded additional starts / ends) are the expansions of
admissible routes of the original graph, and condensing returns the latter -/
theorem expanded_route_condenses (g : Graph) (hc : Closed g) (starts ends : List Node) (l : List Node)
    (h : ValidRoute (expandGraph g) (starts.map n0) (ends.map n1) l) :
    ∃ p, l = expandPath p ∧ ValidRoute g starts ends p ∧ condensePath g.nodes [] l = .ok p :=
  NX.expanded_route_condenses g hc starts ends l h

/-- **DAG k-models in node mode return routes of the original graph in original names**: every
non-empty path decoded from a satisfying assignment of `_encode_paths` on the augmented expansion
condenses (by `get_condensed_paths`) to an admissible route of the caller's graph -/
theorem node_mode_paths_condense (g : Graph) (hc : Closed g) (hac : Acyclic g) (starts ends : List Node)
    (c : PathCfg) (a : Asg)
    (hsat : Sat a (encodePaths (augment (expandGraph g) (starts.map n0) (ends.map n1)) c)) (i : Nat) (hi : i < c.k) :
    ∃ l, decodeLayer (augment (expandGraph g) (starts.map n0) (ends.map n1)) (fun e j => a (edgeVar e j)) i = some l ∧
      (l ≠ [] → ∃ p, condensePath g.nodes [] l = .ok p ∧ ValidRoute g starts ends p ∧ l = expandPath p) :=
  NX.node_mode_paths_condense g hc hac starts ends c a hsat i hi

/-- the condensed graph carries on every node exactly the value the original node carries -/
theorem condenseFlow_expandFlow (ng : NodeGraph) :
    condenseFlow ng.g (expandFlow ng) = ng.g.nodes.filterMap fun v => (ng.nodeFlow.lookup v).map fun q => (v, q) :=
  NX.condenseFlow_expandFlow ng

/-- the LP of kFlowDecomp depends on the ignore list only as a set and on the values of non-ignored
edges only -/
theorem kfdLP_ignore_as_set (a b : FlowInput) (hbase : a.base = b.base) (hs : a.starts = b.starts)
    (he : a.ends = b.ends) (hw : a.weightInt = b.weightInt) (hcfg : a.cfg = b.cfg)
    (hign : ∀ e, a.ignore.contains e = b.ignore.contains e)
    (hf : ∀ e, a.ignored e = false → a.f e = b.f e) : kfdLP a = kfdLP b :=
  NX.kfdLP_congr a b hbase hs he hw hcfg hign hf

/-- **node mode is edge mode on the expansion (kFlowDecomp), as equality of LP data.** Whenever the node
branch accepts its input, the LP it builds equals the LP of the edge-level model on the explicit expansion
of the property text. `hc`, `hef` hold for every networkx graph (edges join nodes; attributes sit on
existing edges). -/
theorem node_mode_is_edge_mode_on_expansion (inp : NodeFlowInput) (lp : LP) (hc : Closed inp.ng.g)
    (hef : ∀ p ∈ inp.ng.edgeFlow, p.1 ∈ inp.ng.g.edges) (h : kfdNodeLP inp = .ok lp) :
    lp = kfdLP (expandInput inp) :=
  NX.node_mode_is_edge_mode_on_expansion inp lp hc hef h

/-- node mode accepts every input in which some node carries the attribute and is not ignored, `k > 0`,
ignored nodes are known, and the (node-form) constraints are non-empty lists of known nodes -/
theorem node_mode_accepts (inp : NodeFlowInput) (l : List (List Node)) (hcs : inp.constraints = .nodes l)
    (hc : Closed inp.ng.g) (hk : inp.k ≠ 0)
    (hact : ∃ v ∈ inp.ng.g.nodes, inp.ng.hasFlow v = true ∧ v ∉ inp.ignoreNodes)
    (hl : ∀ c ∈ l, c ≠ [] ∧ ∀ v ∈ c, v ∈ inp.ng.g.nodes)
    (hi : ∀ v ∈ inp.ignoreNodes, v ∈ inp.ng.g.nodes) : ∃ lp, kfdNodeLP inp = .ok lp :=
  NX.node_mode_accepts inp l hcs hc hk hact hl hi

/-- what an accepted input satisfies: the translation succeeded, some expanded edge is left to be
explained ("All edges are ignored" is a `ValueError` since fix 1731a87) and `k > 0` -/
theorem node_mode_accepted_has_active (inp : NodeFlowInput) (fi : FlowInput) (h : kfdNodeInternal inp = .ok fi) :
    kfdNodeTranslate inp = .ok fi ∧ fi.activeEdges ≠ [] ∧ fi.cfg.k ≠ 0 :=
  NX.kfdNodeInternal_ok h

/-! ## node mode = edge mode on the expansion, for more classes -/

/-- **kLeastAbsErrors.** Whenever the node branch of `kLeastAbsErrors.__init__` accepts its input (constraints,
additional starts / ends, ignored nodes and the keys of `error_scaling` are known nodes, …), the LP it builds
equals the LP of the edge-level model on the explicit expansion: starts `v.0`, ends `v.1`, error scaling on the
node copies, all original edges and all attribute-less nodes ignored, only node copies carry values, lengths as
`NodeExpandedDiGraph(node_length_attr=length_attr)` defines them. `hc`, `hef` as for `kFlowDecomp`. -/
theorem node_mode_is_edge_mode_on_expansion_klae (inp : NodeModeInput) (lp : LP) (hc : Closed inp.nf.ng.g)
    (hef : ∀ p ∈ inp.nf.ng.edgeFlow, p.1 ∈ inp.nf.ng.g.edges) (h : klaeNodeLP inp = .ok lp) :
    lp = klaeLP (expandModeInput inp false) :=
  NX.nxm_klae_node_eq inp lp hc hef h

/-- **kMinPathError** (`encode_edge_position=True`; `path_length_ranges` / `path_length_factors` are passed
through unchanged by both branches) -/
theorem node_mode_is_edge_mode_on_expansion_kmpe (inp : NodeMpeInput) (lp : LP) (hc : Closed inp.nm.nf.ng.g)
    (hef : ∀ p ∈ inp.nm.nf.ng.edgeFlow, p.1 ∈ inp.nm.nf.ng.g.edges) (h : kmpeNodeLP inp = .ok lp) :
    lp = kmpeLP (expandMpeInput inp) :=
  NX.nxm_kmpe_node_eq inp lp hc hef h

/-- **kPathCover(cover_type="node").** The node branch equals the edge branch on the explicit expansion (every
node an edge to be covered unless the caller ignores it, all original edges ignored; the length attribute as
`NodeExpandedDiGraph(node_length_attr=length_attr)` defines it). Unconditional since fix 65014a7 (before it the
class did not pass `node_length_attr` and the equality needed the hypothesis of `kcover_former_lp_eq`). -/
theorem node_mode_is_edge_mode_on_expansion_kcover (inp : NodeModeInput) (lp : LP) (hc : Closed inp.nf.ng.g)
    (h : kcoverNodeLP inp = .ok lp) : lp = kcoverLP (expandCoverInput inp) :=
  NX.nxm_kcover_node_eq inp lp hc h

/-- the LP the class built before fix 65014a7 — length attribute read as `coverLengths` (copied attributes,
default 1 on attribute-less edge copies) — equals the present one when the two readings agree on every edge of
every expanded constraint or `subpath_constraints_coverage_length` is not set -/
theorem kcover_former_lp_eq (inp : NodeModeInput)
    (hlen : inp.nf.coverageLength = none ∨
      ∀ con ∈ specConstraints inp.nf.constraints, ∀ e ∈ con,
        lenAt (coverLengths inp.nf.ng) e = lenAt (expandLengths inp.nf.ng) e) :
    kcoverLP (nxmTranslated inp (coverNG inp.nf.ng) (coverLengths inp.nf.ng) false).fi
      = kcoverLP (nxmTranslated inp (coverNG inp.nf.ng) (expandLengths inp.nf.ng) false).fi :=
  NX.nxm_kcover_former_eq inp hlen

/-- the former and the present reading agree when the constraints are given as lists of nodes … -/
theorem kcover_lengths_agree_on_node_constraints (ng : NodeGraph) (l : List (List Node)) :
    ∀ con ∈ specConstraints (.nodes l), ∀ e ∈ con,
      lenAt (coverLengths ng) e = lenAt (expandLengths ng) e :=
  NX.nxm_len_agree_nodes ng l

/-- … and when every original edge carries the length attribute (then the two readings are the same list) -/
theorem kcover_lengths_eq_of_all_edges (ng : NodeGraph)
    (hall : ∀ e ∈ ng.g.edges, (ng.edgeLen.lookup e).isSome = true) : coverLengths ng = expandLengths ng :=
  NX.nxm_lengths_eq_of_all ng hall

/-- the ignore list the node branches build is, as a set, that of the property text, and outside it the
attribute copied onto the expansion is the node's value -/
theorem node_branch_ignore_and_values (ng : NodeGraph) (hc : Closed ng.g)
    (hef : ∀ p ∈ ng.edgeFlow, p.1 ∈ ng.g.edges) (ignoreNodes : List Node) (e : Edge) :
    (e ∈ (edgesToIgnore ng ++ ignoreNodes.map nodeEdge).eraseDups ↔
      (∃ x ∈ ng.g.edges, e = edgeEdge x) ∨ (∃ v ∈ ng.g.nodes, ng.hasFlow v = false ∧ e = nodeEdge v) ∨
        (∃ v ∈ ignoreNodes, e = nodeEdge v)) ∧
    ((edgesToIgnore ng ++ ignoreNodes.map nodeEdge).eraseDups.contains e = false →
      lookupD (expandFlow ng) e 0 = lookupD (ng.nodeFlow.map fun p => (nodeEdge p.1, p.2)) e 0) := by
  refine ⟨?_, NX.nxm_flow_agree ng hc hef ignoreNodes e⟩
  rw [NX.nxm_ignore_mem ng hc ignoreNodes e]
  simp only [nxmSpecIgnore, List.mem_append, List.mem_map, List.mem_filter]
  constructor
  · rintro ((⟨x, hx, rfl⟩ | ⟨v, ⟨hv, hf⟩, rfl⟩) | ⟨v, hv, rfl⟩)
    · exact Or.inl ⟨x, hx, rfl⟩
    · exact Or.inr (Or.inl ⟨v, hv, by simpa using hf, rfl⟩)
    · exact Or.inr (Or.inr ⟨v, hv, rfl⟩)
  · rintro (⟨x, hx, rfl⟩ | ⟨v, hv, hf, rfl⟩ | ⟨v, hv, rfl⟩)
    · exact Or.inl (Or.inl ⟨x, hx, rfl⟩)
    · exact Or.inl (Or.inr ⟨v, ⟨hv, by simp [hf]⟩, rfl⟩)
    · exact Or.inr ⟨v, hv, rfl⟩

/-! ## witnesses and non-vacuity -/

def exG : Graph := { nodes := ["a.0", "a", "x.1.0"], edges := [("a", "a.0"), ("a.0", "x.1.0")] }

/-- the candidate falsifier "names containing `.0` / dots break condensing" does not falsify: the path
`a → a.0 → x.1.0` survives the round trip (replayed on the real class by the check) -/
theorem dotted_names_condense_witness :
    condensePath exG.nodes [] (expandPath ["a", "a.0", "x.1.0"]) = .ok ["a", "a.0", "x.1.0"] ∧
    expandPath ["a", "a.0", "x.1.0"] = ["a.0", "a.1", "a.0.0", "a.0.1", "x.1.0.0", "x.1.0.1"] :=
  ⟨rfl, by decide⟩

/-- an empty constraint, first or not, is rejected (`ValueError`); before the repair an empty first constraint made
`subpath_constraints[0][0]` raise `IndexError` and an empty later one was passed on to the model's own validation -/
theorem empty_constraint_rejected_witness :
    expandConstraints exG (.nodes [[], ["a"]]) = .error "empty" ∧
    expandConstraints exG (.nodes [["a"], []]) = .error "empty" ∧
    expandConstraints exG (.edges [[("a", "a.0")], []]) = .error "empty" ∧
    expandConstraints exG (.nodes [["a"]]) = .ok [[("a.0", "a.1")]] :=
  ⟨rfl, rfl, rfl, rfl⟩

/-- a damaged path (odd length, or starting at a `.1` node) is rejected or truncated exactly as the code does -/
example : condensePath exG.nodes [] ["a.1", "a.0.0", "a.0.1"] = .error "invalid" := rfl
example : condensePath exG.nodes [] ["a.0", "a.1", "a.0.0"] = .ok ["a"] := rfl
example : condensePath exG.nodes [] ["b.0", "b.1"] = .error "notin" := rfl

/-- the expansion of `exG` in networkx insertion order -/
example : (expandGraph exG).nodes = ["a.0.0", "a.0.1", "a.1", "x.1.0.0", "a.0", "x.1.0.1"] := by decide
example : (expandGraph exG).edges =
    [("a.0.0", "a.0.1"), ("a.1", "a.0.0"), ("a.0.1", "x.1.0.0"), ("a.0", "a.1"), ("x.1.0.0", "x.1.0.1")] := by decide
example : edgesToIgnore { g := exG, nodeFlow := [("a", 2), ("a.0", 1)] } =
    [("a.1", "a.0.0"), ("x.1.0.0", "x.1.0.1"), ("a.0.1", "x.1.0.0")] := by decide

def exInp : NodeFlowInput :=
  { ng := { g := exG, nodeFlow := [("a", 2), ("a.0", 2)], edgeFlow := [(("a", "a.0"), 7)] },
    ignoreNodes := ["a.0"], constraints := .nodes [["a", "a.0"]], k := 2 }

/-- the hypotheses of `node_mode_is_edge_mode_on_expansion` are satisfiable: the node branch accepts `exInp` -/
example : ∃ lp, kfdNodeLP exInp = .ok lp ∧ lp = kfdLP (expandInput exInp) := by
  have hc : Closed exInp.ng.g := by
    intro e he
    have : e = ("a", "a.0") ∨ e = ("a.0", "x.1.0") := by simpa [exInp, exG] using he
    rcases this with rfl | rfl <;> decide
  obtain ⟨lp, h⟩ := node_mode_accepts exInp [["a", "a.0"]] rfl hc (by decide)
    ⟨"a", by decide, by decide, by decide⟩ (by decide) (by decide)
  refine ⟨lp, h, node_mode_is_edge_mode_on_expansion exInp lp hc ?_ h⟩
  · intro p hp
    have : p = (("a", "a.0"), 7) := by simpa [exInp] using hp
    subst this; decide

/-- … and the two input records really differ (ignore list and values), so the equality has content -/
example : (kfdNodeTranslate exInp).toOption.map (·.ignore.length) = some 4 ∧
    (expandInput exInp).ignore.length = 4 ∧
    (kfdNodeTranslate exInp).toOption.map (·.flow.length) = some 3 ∧ (expandInput exInp).flow.length = 2 := by
  decide

/-- ignoring every node that carries a value is rejected, as the repaired constructor does -/
example : kfdNodeInternal { exInp with ignoreNodes := ["a", "a.0"] } = .error "allignored" ∧
    (kfdNodeTranslate { exInp with ignoreNodes := ["a", "a.0"] }).toBool = true := ⟨rfl, rfl⟩

/-! ### the other classes -/

theorem exG_closed : Closed exG := by
  intro e he
  have : e = ("a", "a.0") ∨ e = ("a.0", "x.1.0") := by simpa [exG] using he
  rcases this with rfl | rfl <;> decide

/-- `exInp` with an additional start and end, and error scaling on two nodes (one factor 0: that node is ignored) -/
def exMode : NodeModeInput :=
  { nf := exInp, starts := ["a.0"], ends := ["a"], scaling := [("a", 1/2), ("x.1.0", 0)] }

theorem exMode_hef : ∀ p ∈ exMode.nf.ng.edgeFlow, p.1 ∈ exMode.nf.ng.g.edges := by
  intro p hp
  have : p = (("a", "a.0"), 7) := by simpa [exMode, exInp] using hp
  subst this; decide

/-- the hypotheses of `node_mode_is_edge_mode_on_expansion_klae` are satisfiable -/
example : ∃ lp, klaeNodeLP exMode = .ok lp ∧ lp = klaeLP (expandModeInput exMode false) := by
  have hok : (klaeNodeLP exMode).toBool = true := by decide +kernel
  cases h : klaeNodeLP exMode with
  | error e => rw [h] at hok; cases hok
  | ok lp => exact ⟨lp, rfl, node_mode_is_edge_mode_on_expansion_klae exMode lp exG_closed exMode_hef h⟩

/-- … and the two records differ (ignore list: code order with duplicates removed vs the list of the property
text; values: the copied edge attribute is not in the explicit expansion) -/
example : (klaeNodeInternal exMode).toOption.map (·.fi.ignore) ≠ some (expandModeInput exMode false).fi.ignore ∧
    (klaeNodeInternal exMode).toOption.map (·.fi.flow.length) = some 3 ∧
    (expandModeInput exMode false).fi.flow.length = 2 ∧
    (expandModeInput exMode false).fi.starts = ["a.0.0"] ∧ (expandModeInput exMode false).fi.ends = ["a.1"] ∧
    (expandModeInput exMode false).scaling = [(("a.0", "a.1"), 1/2), (("x.1.0.0", "x.1.0.1"), 0)] := by
  decide +kernel

def exMpe : NodeMpeInput :=
  { nm := { exMode with nf := { exInp with weightInt := true } }, ranges := [(0, 2), (3, 9)], factors := [1, 2] }

/-- the hypotheses of `node_mode_is_edge_mode_on_expansion_kmpe` are satisfiable (integer weights, two length
ranges with factors) -/
example : ∃ lp, kmpeNodeLP exMpe = .ok lp ∧ lp = kmpeLP (expandMpeInput exMpe) := by
  have hok : (kmpeNodeLP exMpe).toBool = true := by decide +kernel
  cases h : kmpeNodeLP exMpe with
  | error e => rw [h] at hok; cases hok
  | ok lp => exact ⟨lp, rfl, node_mode_is_edge_mode_on_expansion_kmpe exMpe lp exG_closed exMode_hef h⟩

/-- unknown nodes among the starts or the keys of `error_scaling` are rejected, as `get_expanded_edge` does -/
example : (klaeNodeLP { exMode with starts := ["nosuch"] }).toBool = false ∧
    (klaeNodeLP { exMode with scaling := [("nosuch", 1)] }).toBool = false ∧
    (klaeNodeLP { exMode with scaling := [("a", 2)] }).toBool = false := by decide +kernel

/-- `a → b`, `a → c → b`, every node of length 1, no edge carries the length attribute; the constraint is the
*edge* `(a, b)`, 75 % of its length must lie on one path; `k = 1` -/
def exCover : NodeModeInput :=
  { nf := { ng := { g := { nodes := ["a", "b", "c"], edges := [("a", "b"), ("a", "c"), ("c", "b")] },
                    nodeLen := some [("a", 1), ("b", 1), ("c", 1)] },
            constraints := .edges [[("a", "b")]], k := 1, coverageLength := some (3/4) } }

theorem exCover_closed : Closed exCover.nf.ng.g := by
  intro e he
  have : e = ("a", "b") ∨ e = ("a", "c") ∨ e = ("c", "b") := by simpa [exCover] using he
  rcases this with rfl | rfl | rfl <;> decide

/-- the coefficients of all rows of an LP (a decidable fingerprint) -/
def rowCoeffs (lp : LP) : List (List Rat) := lp.rows.map fun r => r.terms.map (·.1)

/-- the path `a, c, b` on the augmented expansion, `r(0,0) = 1` -/
def exCoverAsg : Asg := fun v =>
  if v ∈ [edgeVar ("source", "a.0") 0, edgeVar ("a.0", "a.1") 0, edgeVar ("a.1", "c.0") 0, edgeVar ("c.0", "c.1") 0,
      edgeVar ("c.1", "b.0") 0, edgeVar ("b.0", "b.1") 0, edgeVar ("b.1", "sink") 0, rVar 0 0] then 1 else 0

/-- **regression for fix 65014a7** (former finding C11-kpathcover-node-length-default), on the input of the
defect: the node branch of `kPathCover` builds the LP of the edge branch on the explicit expansion — the constraint
`(a.0,a.1), (a.1,b.0), (b.0,b.1)` has lengths `1, 0, 1`, threshold `3/2` — and that LP is feasible for `k = 1`: the
path `a, c, b` covers every node and carries length 2 of the constraint. -/
theorem kcover_node_mode_length_regression :
    ∃ lp, kcoverNodeLP exCover = .ok lp ∧ lp = kcoverLP (expandCoverInput exCover) ∧ Sat exCoverAsg lp ∧
      lenAt (expandLengths exCover.nf.ng) ("a.1", "b.0") = 0 := by
  have hok : (kcoverNodeLP exCover).toBool = true := by decide +kernel
  cases h : kcoverNodeLP exCover with
  | error e => rw [h] at hok; cases hok
  | ok lp =>
    have heq := node_mode_is_edge_mode_on_expansion_kcover exCover lp exCover_closed h
    refine ⟨lp, rfl, heq, ?_, by decide +kernel⟩
    rw [heq]
    exact FP.WalkCoreExample.sat_of_check _ _ (by decide +kernel) (by decide +kernel)

/-- **what the defect was**: with the former reading of the length attribute (`coverLengths`: the copy `(a.1, b.0)`
of the attribute-less edge `(a, b)` has length 1) the LP of the node branch on `exCover` differs from the LP on the
explicit expansion — lengths `1, 1, 1`, threshold `9/4`, which the path `a, c, b` (length 2) misses: `k = 1` was
infeasible and `MinPathCover` answered 2. -/
theorem kcover_former_reading_differs :
    kcoverLP (nxmTranslated exCover (coverNG exCover.nf.ng) (coverLengths exCover.nf.ng) false).fi
        ≠ kcoverLP (expandCoverInput exCover) ∧
      lenAt (coverLengths exCover.nf.ng) ("a.1", "b.0") = 1 ∧
      ¬ Sat exCoverAsg (kcoverLP (nxmTranslated exCover (coverNG exCover.nf.ng) (coverLengths exCover.nf.ng) false).fi) := by
  refine ⟨?_, by decide +kernel, ?_⟩
  · intro heq
    have h1 : rowCoeffs (kcoverLP (nxmTranslated exCover (coverNG exCover.nf.ng) (coverLengths exCover.nf.ng) false).fi)
        = rowCoeffs (kcoverLP (expandCoverInput exCover)) := by rw [heq]
    revert h1
    decide +kernel
  · intro hsat
    have := NX.nxm_rowOk_of_sat _ _ hsat
    revert this
    decide +kernel

/-- with the constraint given as the node list `[a, b]` the LPs coincide as well -/
example : ∃ lp, kcoverNodeLP { exCover with nf := { exCover.nf with constraints := .nodes [["a", "b"]] } } = .ok lp ∧
    lp = kcoverLP (expandCoverInput { exCover with nf := { exCover.nf with constraints := .nodes [["a", "b"]] } }) := by
  have hok : (kcoverNodeLP { exCover with nf := { exCover.nf with constraints := .nodes [["a", "b"]] } }).toBool
      = true := by decide +kernel
  cases h : kcoverNodeLP { exCover with nf := { exCover.nf with constraints := .nodes [["a", "b"]] } } with
  | error e => rw [h] at hok; cases hok
  | ok lp =>
    exact ⟨lp, rfl, node_mode_is_edge_mode_on_expansion_kcover _ lp exCover_closed h⟩

/-! ## the cyclic k-classes: kFlowDecompCycles, kPathCoverCycles, kLeastAbsErrorsCycles, kMinPathErrorCycles -/

/-- **kPathCoverCycles(cover_type="node").** Whenever the node branch accepts its input, its LP is the LP of the
edge-level class on the explicit expansion (every node an edge to be covered unless the caller ignores it, all
original edges ignored, additional starts `v.0` / ends `v.1`). Unconditional: the repetition caps are
`number_of_edges * number_of_nodes` of the augmented expansion and read no attribute. `hc` holds for every networkx
graph (edges join nodes). -/
theorem node_mode_is_edge_mode_on_expansion_kcoverc (inp : NodeModeInput) (lp : LP) (hc : Closed inp.nf.ng.g)
    (h : kcovercNodeLP inp = .ok lp) : lp = kcovercLP (expandWalkCoverInput inp) :=
  NX.nxc_kcoverc_node_eq inp lp hc h

/-- **kFlowDecompCycles** (with or without `given_weights`). `hc`, `hef` hold for every networkx graph (edges join
nodes; attributes sit on existing edges). `hcap` is needed (`kfdc_caps_equal_iff`,
`kfdc_node_mode_cap_from_edge_attribute_differs`): the class caps the repetitions of an edge of the expanded graph by
`floor(data[flow_attr] if flow_attr in data else w_max)` (floored since fix fcfd0b0), and the copy `(u.1, v.0)` of an
original edge carries every attribute of `(u, v)` — so an original edge inside a cycle that happens to carry an attribute
named like the flow attribute must carry a value with the floor of `w_max` (e.g. `w_max` itself) for the node branch to
build the LP of the explicit expansion. -/
theorem node_mode_is_edge_mode_on_expansion_kfdc (inp : NodeModeInput) (given : Option (List Rat)) (lp : LP)
    (hc : Closed inp.nf.ng.g) (hef : ∀ p ∈ inp.nf.ng.edgeFlow, p.1 ∈ inp.nf.ng.g.edges)
    (hcap : ∀ x q, inp.nf.ng.edgeFlow.lookup x = some q →
      isSccEdge (expandWalkInput inp).st.g (edgeEdge x) = true →
        q.floor = ((expandWalkInput inp).wmax false).floor)
    (h : kfdcNodeLP inp given = .ok lp) : lp = kfdcLP (expandWalkInput inp) given :=
  NX.nxc_kfdc_node_eq inp given lp hc hef hcap h

/-- … in particular when no original edge carries an attribute named like the flow attribute -/
theorem node_mode_is_edge_mode_on_expansion_kfdc_of_no_edge_attr (inp : NodeModeInput) (given : Option (List Rat))
    (lp : LP) (hc : Closed inp.nf.ng.g) (hno : inp.nf.ng.edgeFlow = [])
    (h : kfdcNodeLP inp given = .ok lp) : lp = kfdcLP (expandWalkInput inp) given :=
  NX.nxc_kfdc_node_eq inp given lp hc (by rw [hno]; intro p hp; cases hp)
    (by rw [hno]; intro x q hl; cases hl) h

/-- **`w_max` always agrees, and the caps of `kFlowDecompCycles` agree exactly under `hcap`** -/
theorem kfdc_caps_equal_iff (inp : NodeModeInput) (hc : Closed inp.nf.ng.g)
    (hef : ∀ p ∈ inp.nf.ng.edgeFlow, p.1 ∈ inp.nf.ng.g.edges) :
    (nxcTranslated inp inp.nf.ng).wmax false = (expandWalkInput inp).wmax false ∧
    (kfdcBounds (nxcTranslated inp inp.nf.ng) = kfdcBounds (expandWalkInput inp) ↔
      ∀ x q, inp.nf.ng.edgeFlow.lookup x = some q →
        isSccEdge (expandWalkInput inp).st.g (edgeEdge x) = true →
        q.floor = ((expandWalkInput inp).wmax false).floor) :=
  NX.nxc_kfdc_caps_iff inp hc hef

/-- what the node branch hands to the edge-level constructor is `nxcTranslated` (so `kfdc_caps_equal_iff` speaks about
the caps of the LP the node branch builds) -/
theorem kfdc_node_branch_input (inp : NodeModeInput) (wi : WalkInput) (h : kfdcNodeInternal inp = .ok wi) :
    wi = nxcTranslated inp inp.nf.ng :=
  NX.nxc_kfdcNodeInternal_ok h

/-- **kLeastAbsErrorsCycles.** `hzero` is needed (`errc_node_mode_cap_from_edge_attribute_differs`): the caps are
`compute_edge_max_reachable_value(flow_attr)` of the expanded graph, which reads `data.get(flow_attr, 0)` on every
edge, copies of original edges included — an original edge that carries an attribute named like the flow attribute
must carry `0`, the value read on an edge without it. Error scaling keyed by node goes to the node copies. -/
theorem node_mode_is_edge_mode_on_expansion_klaec (inp : NodeModeInput) (lp : LP) (hc : Closed inp.nf.ng.g)
    (hef : ∀ p ∈ inp.nf.ng.edgeFlow, p.1 ∈ inp.nf.ng.g.edges)
    (hzero : ∀ x q, inp.nf.ng.edgeFlow.lookup x = some q → q = 0)
    (h : klaecNodeLP inp = .ok lp) : lp = klaecLP (expandWalkInput inp) :=
  NX.nxc_klaec_node_eq inp lp hc hef hzero h

/-- **kMinPathErrorCycles** (same caps as `kLeastAbsErrorsCycles`) -/
theorem node_mode_is_edge_mode_on_expansion_kmpec (inp : NodeModeInput) (lp : LP) (hc : Closed inp.nf.ng.g)
    (hef : ∀ p ∈ inp.nf.ng.edgeFlow, p.1 ∈ inp.nf.ng.g.edges)
    (hzero : ∀ x q, inp.nf.ng.edgeFlow.lookup x = some q → q = 0)
    (h : kmpecNodeLP inp = .ok lp) : lp = kmpecLP (expandWalkInput inp) :=
  NX.nxc_kmpec_node_eq inp lp hc hef hzero h

/-- the only edges on which `data.get(flow_attr, d)` differs between the node branch's graph and the explicit
expansion are copies of original edges carrying an attribute of the same name with a value other than `d` -/
theorem cyclic_node_branch_attribute (inp : NodeModeInput) (e : Edge) (d : Rat)
    (hd : ∀ x q, inp.nf.ng.edgeFlow.lookup x = some q → e = edgeEdge x → q = d) :
    ((nxcTranslated inp inp.nf.ng).fOpt e).getD d = ((expandWalkInput inp).fOpt e).getD d :=
  NX.nxc_fOpt_agree inp e d hd

/-- **cyclic node branches return walks of the caller's graph in original names** (composition with the walk core's
soundness and `expanded_route_condenses`): every layer of a satisfying assignment of the LP that the node branch of
`kFlowDecompCycles` builds decodes to a walk of the augmented expansion that is empty (only with `allow_empty_walks`)
or `v₁.0 v₁.1 … vₙ.0 vₙ.1`, which `get_condensed_paths` turns into the admissible walk `v₁ … vₙ` of the caller's graph
(a node may repeat). No hypothesis on copied attributes: the caps are not involved. -/
theorem node_mode_walks_condense_kfdc (inp : NodeModeInput) (given : Option (List Rat)) (lp : LP)
    (hc : Closed inp.nf.ng.g) (h : kfdcNodeLP inp given = .ok lp) (a : Asg) (hsat : Sat a lp)
    (i : Nat) (hi : i < inp.nf.k) : WalksCondense inp a i :=
  NX.nxc_kfdc_walks_condense inp given lp hc h a hsat i hi

theorem node_mode_walks_condense_kcoverc (inp : NodeModeInput) (lp : LP)
    (hc : Closed inp.nf.ng.g) (h : kcovercNodeLP inp = .ok lp) (a : Asg) (hsat : Sat a lp)
    (i : Nat) (hi : i < inp.nf.k) : WalksCondense inp a i :=
  NX.nxc_kcoverc_walks_condense inp lp hc h a hsat i hi

theorem node_mode_walks_condense_klaec (inp : NodeModeInput) (lp : LP)
    (hc : Closed inp.nf.ng.g) (h : klaecNodeLP inp = .ok lp) (a : Asg) (hsat : Sat a lp)
    (i : Nat) (hi : i < inp.nf.k) : WalksCondense inp a i :=
  NX.nxc_klaec_walks_condense inp lp hc h a hsat i hi

theorem node_mode_walks_condense_kmpec (inp : NodeModeInput) (lp : LP)
    (hc : Closed inp.nf.ng.g) (h : kmpecNodeLP inp = .ok lp) (a : Asg) (hsat : Sat a lp)
    (i : Nat) (hi : i < inp.nf.k) : WalksCondense inp a i :=
  NX.nxc_kmpec_walks_condense inp lp hc h a hsat i hi

/-- `WalksCondense` spelled out -/
example (inp : NodeModeInput) (a : Asg) (i : Nat) : WalksCondense inp a i ↔
    ((decodeWalkLayer (expandWalkInput inp).st a i = [] → inp.nf.allowEmpty = true) ∧
     (decodeWalkLayer (expandWalkInput inp).st a i ≠ [] →
        ∃ p, condensePath inp.nf.ng.g.nodes [] (decodeWalkLayer (expandWalkInput inp).st a i) = .ok p ∧
          ValidRoute inp.nf.ng.g inp.starts inp.ends p ∧
          decodeWalkLayer (expandWalkInput inp).st a i = expandPath p)) := Iff.rfl

/-- **the hypothesis `hcap` cannot be dropped** (finding `C11-cyclic-node-mode-cap-from-edge-attribute`, replayed on the
real class): `s → a → t` with the self-loop `a → a`, node values `1, 2, 1`, `k = 1`, and the edge attribute `flow = 0`
on the self-loop. The node branch accepts the input and caps the copy `(a.1, a.0)` of the self-loop at `0`; its LP has no
satisfying assignment, whereas the LP of the edge-level class on the explicit expansion (cap `w_max = 2`) is satisfied by
the walk `s, a, a, t` with weight `1`. -/
theorem kfdc_node_mode_cap_from_edge_attribute_differs :
    ∃ lp, kfdcNodeLP NX.LoopCap.inp none = .ok lp ∧ (∀ a, ¬ Sat a lp) ∧
      Sat NX.LoopCap.asgX (kfdcLP (expandWalkInput NX.LoopCap.inp) none) ∧
      lp ≠ kfdcLP (expandWalkInput NX.LoopCap.inp) none ∧
      nxcCapOf lp ("a.1", "a.0") = some (some 0) ∧
      nxcCapOf (kfdcLP (expandWalkInput NX.LoopCap.inp) none) ("a.1", "a.0") = some (some 2) :=
  ⟨_, NX.LoopCap.node_lp, NX.LoopCap.node_infeasible, NX.LoopCap.expansion_feasible, NX.LoopCap.lp_differs,
    NX.LoopCap.caps.1, NX.LoopCap.caps.2.1⟩

/-- **the hypothesis `hzero` cannot be dropped**: the same graph with node values `1/2, 3/2, 1/2`, float weights and the
edge attribute `flow = 9` on the self-loop: the node branches of the two error classes cap the expanded edge of `a` at `9`,
the edge-level classes on the explicit expansion at `floor(3/2) = 1` (on the real classes: objective `0` in node mode — `s, a, a, a, t`
with weight `1/2` — against `1` / `1/2` on the explicit expansion). -/
theorem errc_node_mode_cap_from_edge_attribute_differs :
    errcNodeInternal NX.LoopCapErr.inp = .ok (nxcTranslated NX.LoopCapErr.inp NX.LoopCapErr.inp.nf.ng) ∧
    klaecLP (nxcTranslated NX.LoopCapErr.inp NX.LoopCapErr.inp.nf.ng) ≠ klaecLP (expandWalkInput NX.LoopCapErr.inp) ∧
    kmpecLP (nxcTranslated NX.LoopCapErr.inp NX.LoopCapErr.inp.nf.ng) ≠ kmpecLP (expandWalkInput NX.LoopCapErr.inp) ∧
    nxcCapOf (klaecLP (nxcTranslated NX.LoopCapErr.inp NX.LoopCapErr.inp.nf.ng)) ("a.0", "a.1") = some (some 9) ∧
    nxcCapOf (klaecLP (expandWalkInput NX.LoopCapErr.inp)) ("a.0", "a.1") = some (some 1) :=
  ⟨NX.LoopCapErr.node_internal, NX.LoopCapErr.klaec_lp_differs, NX.LoopCapErr.kmpec_lp_differs,
    NX.LoopCapErr.caps.1, NX.LoopCapErr.caps.2.1⟩

/-! ### non-vacuity on a concrete cyclic node-weighted graph: `s → a ⇄ b → t` with the self-loop `a → a` -/

open NX.CycExample in
/-- the expansion of the self-loop `a → a` is `a.1 → a.0`, an edge inside an SCC of the augmented expansion -/
example : edgeEdge ("a", "a") = ("a.1", "a.0") ∧ ("a.1", "a.0") ∈ (expandGraph g).edges ∧
    isSccEdge (expandWalkInput exKfdc).st.g ("a.1", "a.0") = true := selfloop_copy

open NX.CycExample in
/-- the hypotheses of `node_mode_is_edge_mode_on_expansion_kfdc` are satisfiable with original edges that carry the
attribute (`7` on `(s, a)`, whose copy is outside every SCC; `w_max = 6` on the self-loop), an ignored node, a node
without the attribute, an edge-form constraint on the self-loop, additional start / end and given weights -/
example : ∃ lp, kfdcNodeLP exKfdc (some [1]) = .ok lp ∧ lp = kfdcLP (expandWalkInput exKfdc) (some [1]) := by
  have hok := exKfdc_accepted
  cases h : kfdcNodeLP exKfdc (some [1]) with
  | error e => rw [h] at hok; cases hok
  | ok lp =>
    exact ⟨lp, rfl, node_mode_is_edge_mode_on_expansion_kfdc exKfdc (some [1]) lp g_closed exKfdc_hef exKfdc_hcap h⟩

open NX.CycExample in
/-- … and the two input records really differ (ignore list, copied values, translated constraint with a duplicate) -/
example : (nxcTranslated exKfdc exKfdc.nf.ng).ignore ≠ (expandWalkInput exKfdc).ignore ∧
    (nxcTranslated exKfdc exKfdc.nf.ng).flow.length = 5 ∧ (expandWalkInput exKfdc).flow.length = 3 ∧
    (expandWalkInput exKfdc).cfg.constraints = [[("a.0", "a.1"), ("a.1", "a.0"), ("a.0", "a.1")]] ∧
    (expandWalkInput exKfdc).starts = ["a.0"] ∧ (expandWalkInput exKfdc).ends = ["b.1"] := by decide +kernel

open NX.CycExample in
example : ∃ lp, klaecNodeLP exErrc = .ok lp ∧ lp = klaecLP (expandWalkInput exErrc) := by
  have hok := exErrc_klaec_accepted
  cases h : klaecNodeLP exErrc with
  | error e => rw [h] at hok; cases hok
  | ok lp =>
    exact ⟨lp, rfl, node_mode_is_edge_mode_on_expansion_klaec exErrc lp g_closed exErrc_hef exErrc_hzero h⟩

open NX.CycExample in
example : ∃ lp, kmpecNodeLP exErrc = .ok lp ∧ lp = kmpecLP (expandWalkInput exErrc) := by
  have hok := exErrc_kmpec_accepted
  cases h : kmpecNodeLP exErrc with
  | error e => rw [h] at hok; cases hok
  | ok lp =>
    exact ⟨lp, rfl, node_mode_is_edge_mode_on_expansion_kmpec exErrc lp g_closed exErrc_hef exErrc_hzero h⟩

open NX.CycExample in
example : ∃ lp, kcovercNodeLP exErrc = .ok lp ∧ lp = kcovercLP (expandWalkCoverInput exErrc) := by
  have hok := exErrc_kcoverc_accepted
  cases h : kcovercNodeLP exErrc with
  | error e => rw [h] at hok; cases hok
  | ok lp => exact ⟨lp, rfl, node_mode_is_edge_mode_on_expansion_kcoverc exErrc lp g_closed h⟩

open NX.CycExample in
/-- the error-class record: scaling on the node copies, the zero-scaled node `s` ends up ignored -/
example : (expandWalkInput exErrc).scaling = [(("a.0", "a.1"), 1/2), (("s.0", "s.1"), 0)] ∧
    (expandWalkInput exErrc).activeEdges true = [("a.0", "a.1")] ∧
    (expandWalkInput exErrc).activeEdges false = [("s.0", "s.1"), ("a.0", "a.1")] := by decide +kernel

/-- the 2-cycle `a ⇄ b` alone: no node without in-edges, no node without out-edges; an end is declared, no start -/
def exNoSource : NodeModeInput :=
  { nf := { ng := { g := { nodes := ["a", "b"], edges := [("a", "b"), ("b", "a")] }, nodeFlow := [("a", 1), ("b", 1)] },
            k := 1 }, ends := ["b"] }

open NX.CycExample in
/-- rejected inputs: unknown start, no source (every node has an in-edge and no start is declared; accepted once a
start is declared), `k = 0`, more given
weights than `k`, every valued node ignored -/
example : (kfdcNodeLP { exKfdc with starts := ["nosuch"] } none).toBool = false ∧
    (kfdcNodeLP exNoSource none).toBool = false ∧
    (kfdcNodeLP { exNoSource with starts := ["a"] } none).toBool = true ∧
    (kfdcNodeLP { exKfdc with nf := { exKfdc.nf with k := 0 } } none).toBool = false ∧
    (kfdcNodeLP exKfdc (some [1, 1, 1])).toBool = false ∧
    (kfdcNodeLP { exKfdc with nf := { exKfdc.nf with ignoreNodes := ["s", "a", "b"] } } none).toBool = false := by
  decide +kernel

end FP.Props.C11
