import FP.Spec.Safety
import FP.Model.SafetyAdj
import FP.Model.SafetyDom
import FP.Model.SafetyDag
import FP.Model.SafetyFix
import FP.Proofs.SafetyPaths
import FP.Proofs.SafetyBridges
import FP.Proofs.SafetyIdom
import FP.Proofs.SafetyGraph
import FP.Proofs.SafetySeq
import FP.Proofs.SafetyFix
import FP.Proofs.SafetyMaxSeq
import FP.Proofs.SafetyFlow
import FP.Proofs.SafetyExcess
import FP.Proofs.SafetyIncompat
import FP.Proofs.Antichain
import FP.Proofs.C06Incompat
import FP.Proofs.C06IncompatExample
/-!
# C06 — safe paths / sequences are truly safe, mutually incompatible, and prune soundly

Models: `FP/Model/Safety{Adj,Dom,Dag,Fix}.lean`; vocabulary: `FP/Spec/Safety.lean`.

Proven here (for **all** graphs — acyclicity is never needed — and all trusted sets):

* `safe_paths_univocal`, `safe_paths_safe` — DAG routine `safe_paths`;
* `bridge_sound`, `bridges_in_order` — `find_all_bridges` (any adjacency dict, any `s`, `t`);
* `idom_sound` — `find_idom`;
* `safe_sequences_safe` — routine `safe_sequences` (edges and subpath constraints);
* `zero_fix_sound` — `_apply_safety_optimizations_fix_zero_edges` of the walk model.

* `maximal_safe_sequences_safe` — `maximal_safe_sequences_via_dominators` with `Arc_Dominator_Tree`
  (including `idom_restores`: the dicts threaded through the `find_idom` calls keep their neighbour sets).

* `excess_flow_safe` — the paths reported by the two-pointer scan of
  `compute_inexact_flow_decomp_safe_paths` are in every flow decomposition (`excess_flow_safe_partial`: the
  loop invariant, `excess_flow_lemma`: the excess-flow lemma).

* `incompatible_sound` — T6 in full: on a well-formed digraph with distinct edges, `mapping` an SCC numbering,
  the members of the antichain pairwise unreachable in the expanded condensation (the contract that C17 proves
  for the extraction, `antichain_contract_of_extraction`), the sequences that
  `get_longest_incompatible_sequences` chooses among the maximal safe sequences are pairwise never contained in
  one source-to-sink walk. `incompatible_sound_family`: the same for every family of sequences with pairwise
  different cores (`CoreFamily`, which `maximal_safe_sequences_core_family` proves of the maximal safe
  sequences); `antichain_hyp_of_contract`: the projection of walks to the expanded condensation.
* `incompatible_sound_partial` — the earlier form under `AntichainHyp` and `NoSharedParallel` (kept; its second
  hypothesis is *not* satisfied by the maximal safe sequences in general, see the note at `incompatible_sound`).

The SCC numbering (`nx.condensation`) and the network simplex behind `compute_max_edge_antichain` stay oracle
parameters; their contracts are the hypotheses `SccLabelling` and `CondAntichain`, checked on every real run by
`harness/props/c06.py` (and the final result by the independent co-occurrence oracle).
-/
namespace FP.Props.C06
open FP FP.Spec FP.Safety

/-- hypotheses on an augmented graph: edges connect nodes, nothing enters the source, nothing leaves the sink
(`FP.aug_closed`, `FP.aug_srcNoIn`, `FP.aug_snkNoOut` show them for every `augment base starts ends`) -/
structure STShape (g : Graph) (s t : Node) : Prop where
  wf : GraphWF g
  noIn : g.pred s = []
  noOut : g.succ t = []

/-- **T1.** Every source-to-sink walk through `e` traverses the whole univocal extension that
`safe_paths` computes for `e` (in-degree-1 predecessors, `e`, out-degree-1 successors), contiguously. -/
theorem safe_paths_univocal (g : Graph) (s t : Node) (h : STShape g s t) (e : Edge) (p : List Edge)
    (hp : safePathOf g e = .ok p) :
    ∀ w, IsSTWalkG g s t w → e ∈ walkEdges w → OccursContiguously p w :=
  safePathOf_forced g s t h.noIn h.noOut e p hp

/-- **T1, property form.** Every path returned by `safe_paths(G, X)` is safe for `X`: it occurs in some
walk of every source-to-sink walk cover of `X`. -/
theorem safe_paths_safe (g : Graph) (s t : Node) (h : STShape g s t) (X : List Edge) (ps : List (List Edge))
    (hps : safePaths g X = .ok ps) : ∀ p ∈ ps, SafeFor g s t X p := by
  intro p hp
  obtain ⟨e, he, hpe⟩ := mapRes_mem _ _ _ hps p hp
  refine safeFor_of_forcedBy he ?_
  intro w hw ho
  have hmem : e ∈ walkEdges w := by
    have : [e].Sublist (walkEdges w) := ho
    exact this.subset (by simp)
  exact (safe_paths_univocal g s t h e p hpe w hw hmem).sublist

/-- **T2.** Every edge returned by `find_all_bridges(adj, s, t)` lies on every walk from `s` to `t` of the
graph given by the adjacency dict (any dict, cyclic or not). -/
theorem bridge_sound {V : Type} [DecidableEq V] (adj : Adj V) (s t : V) (bs : List (V × V)) (adj' : Adj V)
    (h : findAllBridges adj s t = .ok (bs, adj')) :
    ∀ e ∈ bs, ∀ w, IsWalkAdj adj s t w → e ∈ walkEdges w :=
  findAllBridges_sound adj s t bs adj' h

/-- **T2, in order.** Every walk from `s` to `t` meets the returned bridges in the order of the list. -/
theorem bridges_in_order {V : Type} [DecidableEq V] (adj : Adj V) (s t : V) (bs : List (V × V)) (adj' : Adj V)
    (h : findAllBridges adj s t = .ok (bs, adj')) :
    ∀ w, IsWalkAdj adj s t w → bs.Sublist (walkEdges w) :=
  findAllBridges_ordered adj s t bs adj' h

/-- **T2 for `find_idom`.** The edge returned by `find_idom(adj, s, t)` lies on every walk from `s` to `t`. -/
theorem idom_sound {V : Type} [DecidableEq V] (adj : Adj V) (s t : V) (b : V × V) (adj' : Adj V)
    (h : findIdom adj s t = .ok (some b, adj')) :
    ∀ w, IsWalkAdj adj s t w → b ∈ walkEdges w :=
  findIdom_sound adj s t b adj' h

/-- graph form of T2: the right extension computed for an edge into `v` dominates the walks from `v` to the
sink, the (re-reversed) left extension those from the source to `u` -/
theorem bridge_sound_graph (g : Graph) (hg : GraphWF g) (u v : Node) (bs : List Edge) (adj' : Adj Node) :
    (findAllBridges (succAdj g) u v = .ok (bs, adj') → ∀ e ∈ bs, Dominates g u v e) ∧
    (findAllBridges (predAdj g) v u = .ok (bs, adj') → ∀ e ∈ bs, Dominates g u v (e.2, e.1)) := by
  refine ⟨fun h e he w hw => bridge_sound _ _ _ _ _ h e he w (isWalkAdj_succ g hg u v w hw), ?_⟩
  intro h e he w hw
  have := bridge_sound _ _ _ _ _ h e he _ (isWalkAdj_pred g hg u v w hw)
  rw [we_reverse] at this
  simp only [List.mem_reverse, List.mem_map] at this
  obtain ⟨e', he', rfl⟩ := this
  exact he'

/-- **`safe_sequences` is safe.** Every sequence returned by `safe_sequences(G, items)` — left bridges,
the item, right bridges — occurs (in order, with multiplicity) in some walk of every source-to-sink walk
cover of the items; an item is an edge or a subpath constraint. -/
theorem safe_sequences_safe (g : Graph) (s t : Node) (hg : GraphWF g) (items : List (List Edge))
    (seqs : List (List Edge)) (h : safeSequences g s t items = .ok seqs) :
    ∀ q ∈ seqs, SafeForItems g s t items q := by
  intro q hq
  obtain ⟨it, hit, hqi⟩ := mapRes_mem _ _ _ h q hq
  exact safeForItems_of_forcedBy hit (safeSequenceOf_forced g hg s t it q hqi)

/-- **T3.** An edge that `_apply_safety_optimizations_fix_zero_edges` fixes to zero in slot `i` lies on no
walk of the graph that contains slot `i`'s sequence (so in particular on no source-to-sink walk). -/
theorem zero_fix_sound (g : Graph) (hg : GraphWF g) (walks : List (List Edge)) (k : Nat)
    (zs : List (Edge × Nat)) (h : zeroFix g walks k = .ok zs) :
    ∀ e i, (e, i) ∈ zs → ∀ w, IsWalkIn g w → Occurs (walks.getD i []) w → e ∉ walkEdges w :=
  zeroFix_sound g hg walks k zs h

/-- **T5.** Every sequence returned by `maximal_safe_sequences_via_dominators(G, X)` is safe for `X`: it
occurs, in order and with multiplicity, in some walk of every source-to-sink walk cover of `X` — because it
occurs in *every* source-to-sink walk through its core, which is a member of `X`. (Any digraph, any `X`.) -/
theorem maximal_safe_sequences_safe (g : Graph) (hg : GraphWF g) (s t : Node) (X : List Edge)
    (seqs : List (List Edge)) (h : maxSafeSeqs g s t X = .ok seqs) : ∀ q ∈ seqs, SafeFor g s t X q := by
  intro q hq
  obtain ⟨c, hc, hf⟩ := maxSafeSeqs_safe g hg s t X seqs h q hq
  exact safeFor_of_forcedBy hc hf

/-- T5, sharper: every returned sequence is forced by a trusted edge (its core) -/
theorem maximal_safe_sequences_forced (g : Graph) (hg : GraphWF g) (s t : Node) (X : List Edge)
    (seqs : List (List Edge)) (h : maxSafeSeqs g s t X = .ok seqs) :
    ∀ q ∈ seqs, ∃ c ∈ X, ForcedBy g s t [c] q :=
  maxSafeSeqs_safe g hg s t X seqs h

/-- `find_idom` leaves every neighbour list with the same members (the edges of the found path move to the
end of their lists): the adjacency relation is restored -/
theorem idom_restores {V : Type} [DecidableEq V] (adj : Adj V) (s t : V) (b : Option (V × V)) (adj' : Adj V)
    (h : findIdom adj s t = .ok (b, adj')) : ∀ u v, v ∈ out adj' u ↔ v ∈ out adj u :=
  findIdom_sameOut adj s t b adj' h

/-! ## Flow-safe paths (T4) and what is stated but not proven (T6) -/

/-- a flow decomposition of `f` on `g`: positively weighted walks of `g`, each ending in a node without
out-edges, whose superposition is `f` on every edge. (Every decomposition into source-to-sink paths is one;
where the walks start is irrelevant.) -/
def IsFlowDecomposition (g : Graph) (f : Edge → Rat) (D : List (List Node × Rat)) : Prop :=
  (∀ pw ∈ D, IsWalkIn g pw.1 ∧ 0 < pw.2 ∧ ∃ t, pw.1.getLast? = some t ∧ g.succ t = []) ∧
  ∀ e ∈ g.edges, f e = (D.map fun pw => ((walkEdges pw.1).count e : Rat) * pw.2).sum

/-- **T4.** Every path reported by `compute_inexact_flow_decomp_safe_paths` with `lb = ub = flow` (whatever
paths it is given to scan, as long as their edges carry positive flow — python raises otherwise) is
contained, contiguously, in some walk of **every** flow decomposition of the flow. `g` is the caller's graph,
`flow` its edge attribute. -/
theorem excess_flow_safe (g : Graph) (flow : List (Edge × Rat))
    (hkeys : ∀ e q, flow.lookup e = some q → e ∈ g.edges)
    (paths : List (List Node)) (out : List (List Edge)) (h : flowSafePaths g flow paths = .ok out)
    (D : List (List Node × Rat)) (hD : IsFlowDecomposition g (fun e => lookupD flow e 0) D) :
    ∀ P ∈ out, ∃ pw ∈ D, P <:+: walkEdges pw.1 :=
  flowSafePaths_safe g flow hkeys paths out h D hD.1 hD.2

/-- the excess-flow lemma behind T4: a window of positive excess flow is traversed in every decomposition -/
theorem excess_flow_lemma (g : Graph) (f : Edge → Rat) (D : List (List Node × Rat))
    (hD : IsFlowDecomposition g f D) (W : List Node) (hW : IsWalkIn g W) (hlen : 2 ≤ W.length)
    (hpos : 0 < excessOf f (fun v => ((g.outEdges v).map f).sum) W) :
    ∃ pw ∈ D, walkEdges W <:+: walkEdges pw.1 :=
  excess_positive_in_decomposition g f D hD.1 hD.2 W hW hlen hpos

/-- **T4, scan half.** The loop invariant of the two-pointer scan (`inexact_excess` is the excess flow of
`path[L..R]`, positive whenever the window is about to be reported) gives: every reported path is the edge
sequence of a window of a decomposition path with at least two nodes and **positive excess flow**
`f(v₁,v₂) − Σ_{1<i<k} (outflow(v_i) − f(v_i,v_{i+1}))`. -/
theorem excess_flow_safe_partial (g : Graph) (flow : List (Edge × Rat)) (paths : List (List Node))
    (out : List (List Edge)) (h : flowSafePaths g flow paths = .ok out) :
    ∀ P ∈ out, ∃ path ∈ paths, ∃ W : List Node, P = walkEdges W ∧ 2 ≤ W.length ∧ W <:+: path ∧
      0 < excessOf (fun e => lookupD flow e 0) (fun v => ((g.outEdges v).map fun e => lookupD flow e 0).sum) W :=
  flowSafePaths_windows g flow paths out h

/-- **T6, partial.** The sequences that `get_longest_incompatible_sequences` assembles for different slots
are pairwise never contained in one source-to-sink walk, provided (1) the members handed over by
`compute_max_edge_antichain` form an antichain (`AntichainHyp`: no source-to-sink walk traverses two graph
edges of two different members, nor two parallel graph edges of one inter-SCC member) and (2) no two input
sequences share a graph edge that lies on an inter-SCC member (`NoSharedParallel`). Hypothesis (2) cannot
be dropped: for `s→a, a⇄b, a→c, b→c, c→t` and the input `[[(a,c)], [(a,c),(c,t)]]` the real method returns
both sequences, which the walk `s a c t` contains (the library itself only passes maximal safe sequences). -/
theorem incompatible_sound_partial (c : Cond) (s t : Node) (seqs : List (List Edge))
    (anti : List (String × String)) (chosen : List (List Edge))
    (hanti : AntichainHyp c s t anti) (hshare : NoSharedParallel c seqs anti)
    (h : longestIncompatible c seqs anti = .ok chosen) :
    chosen.Pairwise fun p q => ¬ CoOccur c.g s t p q :=
  longestIncompatible_pairwise c s t seqs anti chosen hanti hshare h

/-- the maximal safe sequences come with pairwise different cores: sequence `i` contains `core i`, occurs in
every source-to-sink walk through `core i`, and `core i ≠ core j` for `i ≠ j` (the cores are the distinct members
of `X` that `maximal_safe_sequences_via_dominators` selects) -/
theorem maximal_safe_sequences_core_family (g : Graph) (hg : GraphWF g) (s t : Node) (X : List Edge)
    (seqs : List (List Edge)) (h : maxSafeSeqs g s t X = .ok seqs) : CoreFamily g s t seqs :=
  c06i_maxSafeSeqs_coreFamily g hg s t X seqs h

/-- **contract of `compute_max_edge_antichain`, as used by T6.** If the list handed back is an edge antichain
(`IsEdgeAntichain`: pairwise, the head of none reaches the tail of another) of a graph `G` that contains the
expanded condensation, its members are pairwise unreachable in the expanded condensation. -/
theorem antichain_contract (c : Cond) (G : Graph) (anti : List (String × String))
    (hsub : ∀ e ∈ c.g.edges, c.expandedEdge e ∈ G.edges) (h : IsEdgeAntichain G anti) : CondAntichain c anti :=
  c06i_condAntichain_of_isEdgeAntichain c G anti hsub h

/-- the same, straight from the extraction modelled in C17 (`FP.Props.C17.antichain_sound`): whatever flow the
solver returned, the list extracted from the (augmented) expanded condensation satisfies `CondAntichain` -/
theorem antichain_contract_of_extraction (c : Cond) (a : ACInput) (A : List Edge)
    (hsub : ∀ e ∈ c.g.edges, c.expandedEdge e ∈ a.g.edges) (h : acExtract a = .ok (some A)) :
    CondAntichain c A :=
  antichain_contract c a.g A hsub (acExtract_sound a A h).choose_spec.2.2.2.2.2

/-- **projection to the expanded condensation.** A source-to-sink walk of the digraph that takes two different
graph edges takes their members of the expanded condensation in the same order; with an SCC numbering and
pairwise unreachable members, no walk traverses graph edges of two different members, nor two parallel graph
edges of one inter-SCC member (the first hypothesis of `incompatible_sound_partial`). -/
theorem antichain_hyp_of_contract (c : Cond) (s t : Node) (anti : List (String × String)) (hg : GraphWF c.g)
    (hscc : SccLabelling c) (hanti : CondAntichain c anti) : AntichainHyp c s t anti :=
  c06i_antichainHyp c s t anti hg hscc hanti

/-- **T6, for every family with pairwise different cores.** Hypotheses: edges join nodes and are distinct;
`mapping` numbers the strongly connected components (`SccLabelling`: same number iff mutually reachable, for
nodes of the graph); the input sequences are a `CoreFamily`; the members of the antichain are pairwise
unreachable in the expanded condensation (`CondAntichain`). -/
theorem incompatible_sound_family (c : Cond) (s t : Node) (seqs : List (List Edge))
    (anti : List (String × String)) (chosen : List (List Edge))
    (hg : GraphWF c.g) (hnd : c.g.edges.Nodup) (hscc : SccLabelling c) (hfam : CoreFamily c.g s t seqs)
    (hanti : CondAntichain c anti) (h : longestIncompatible c seqs anti = .ok chosen) :
    chosen.Pairwise fun p q => ¬ CoOccur c.g s t p q :=
  c06i_incompatible_family c s t seqs anti chosen hg hnd hscc hfam hanti h

/-- **T6.** The sequences that `get_longest_incompatible_sequences` assembles for different slots out of the
maximal safe sequences of the graph are pairwise never contained in one source-to-sink walk, whenever `mapping`
numbers the strongly connected components and the members obtained from `compute_max_edge_antichain` are pairwise
unreachable in the expanded condensation (`antichain_contract_of_extraction`). Any `s`, `t`, any `X`.

What replaces `NoSharedParallel` (which is false for the maximal safe sequences: every sequence of a graph with
a single source edge shares that edge, an inter-SCC member of multiplicity one that the antichain may well
contain — on the real code in about one run out of eight): a member of multiplicity one keeps one sequence
anyway; an inter-SCC edge `e` that has a parallel twin dominates nothing (`c06i_reroute`), so a sequence that
contains `e` and lies on a source-to-sink walk has the core `e` (`c06i_twin_core`), and different sequences have
different cores. Distinctness of the graph edges is needed: the multiplicity is a count over `G.edges`. -/
theorem incompatible_sound (c : Cond) (s t : Node) (X : List Edge) (seqs : List (List Edge))
    (anti : List (String × String)) (chosen : List (List Edge))
    (hg : GraphWF c.g) (hnd : c.g.edges.Nodup) (hscc : SccLabelling c)
    (hseqs : maxSafeSeqs c.g s t X = .ok seqs) (hanti : CondAntichain c anti)
    (h : longestIncompatible c seqs anti = .ok chosen) :
    chosen.Pairwise fun p q => ¬ CoOccur c.g s t p q :=
  c06i_incompatible_sound c s t X seqs anti chosen hg hnd hscc hseqs hanti h

/-! ## Non-vacuity -/

def exG : Graph :=
  { nodes := ["a", "b", "c", "d", "source", "sink"],
    edges := [("a", "b"), ("b", "c"), ("b", "d"), ("c", "sink"), ("d", "sink"), ("source", "a")] }

example : safePathOf exG ("b", "c") = .ok [("source", "a"), ("a", "b"), ("b", "c"), ("c", "sink")] := by decide
example : STShape exG "source" "sink" := ⟨by unfold GraphWF; decide, by decide, by decide⟩
example : findAllBridges (succAdj exG) "a" "sink" =
    .ok ([("a", "b")], succAdj exG) := by decide
example : safeSequences exG "source" "sink" [[("b", "d")]] =
    .ok [[("source", "a"), ("a", "b"), ("b", "d"), ("d", "sink")]] := by decide

/-- a digraph with a cycle `b ⇄ c` and two exits -/
def exC : Graph :=
  { nodes := ["a", "b", "c", "d", "source", "sink"],
    edges := [("a", "b"), ("b", "c"), ("c", "b"), ("c", "d"), ("b", "sink"), ("d", "sink"), ("source", "a")] }

set_option maxRecDepth 20000 in
example : findIdom (succAdj exC) "a" "sink" =
    .ok (some ("a", "b"),
      [("a", ["b"]), ("b", ["sink", "c"]), ("c", ["b", "d"]), ("d", ["sink"]), ("source", ["a"]), ("sink", [])]) := by
  decide
set_option maxRecDepth 20000 in
example : zeroFix exC [[("c", "d")]] 1 = .ok [(("b", "sink"), 0)] := by decide
set_option maxRecDepth 100000 in
example : maxSafeSeqs exC "source" "sink" [("c", "d"), ("b", "sink")] =
    .ok [[("source", "a"), ("a", "b"), ("b", "c"), ("c", "d"), ("d", "sink")],
         [("source", "a"), ("a", "b"), ("b", "sink")]] := by decide

/-- a digraph with a cycle `x ⇄ y` that nothing enters (not reachable from the source) leading into the route
`s → a → t`: since fix 4057fb6 its edges are skipped (before, `find_idom` raised `IndexError` and the constructor of every
cyclic model crashed on such an input under the default options) -/
def exU : Graph :=
  { nodes := ["s", "a", "t", "x", "y", "source", "sink"],
    edges := [("s", "a"), ("a", "t"), ("x", "y"), ("y", "x"), ("x", "a"), ("source", "s"), ("t", "sink")] }

set_option maxRecDepth 100000 in
example : onSomeWalk exU "source" "sink" = .ok [("s", "a"), ("a", "t"), ("source", "s"), ("t", "sink")] := by decide
set_option maxRecDepth 100000 in
example : maxSafeSeqs exU "source" "sink" exU.edges =
    .ok [[("source", "s"), ("s", "a"), ("a", "t"), ("t", "sink")]] := by decide +kernel
set_option maxRecDepth 100000 in
example : maxSafeSeqs exU "source" "sink" [("x", "y")] = .ok [] := by decide +kernel

/-- **T6 is not vacuous**: the digraph `exP` (`FP/Proofs/C06IncompatExample.lean`) has the cycle `a ⇄ b`, the two
parallel edges `a→c`, `b→c` between the components `{a,b}` and `{c}` and a second branch through `d`. With the SCC
numbering and the antichain of the real run all hypotheses of `incompatible_sound` hold, three sequences are
chosen — both sequences of the parallel edges among them, which share the inter-SCC edges `(source,a)` and
`(c,sink)` — and they pairwise share no walk. -/
example : GraphWF exP ∧ exP.edges.Nodup ∧ SccLabelling exPc ∧ CondAntichain exPc exPanti ∧
    maxSafeSeqs exPc.g "source" "sink" exP.edges = .ok exPseqs ∧
    longestIncompatible exPc exPseqs exPanti = .ok exPchosen ∧ exPchosen.length = 3 ∧
    exPchosen.Pairwise fun p q => ¬ CoOccur exP "source" "sink" p q :=
  ⟨exP_wf, exP_nodup, exP_scc, exP_anti, exP_maxSafeSeqs, exP_longest, rfl,
   incompatible_sound exPc "source" "sink" exP.edges exPseqs exPanti exPchosen exP_wf exP_nodup exP_scc
     exP_maxSafeSeqs exP_anti exP_longest⟩

/-- the second hypothesis of `incompatible_sound_partial` fails on a real run: for `exQ` (`u → v`, `u → sink`, loops
at `v` and `x`, `v → x`, `x → sink`) two maximal safe sequences share `(u, v)`, the only graph edge of a member of
the antichain that the real code obtained — while the hypotheses of `incompatible_sound` hold -/
example : maxSafeSeqs exQ "source" "sink" exQ.edges = .ok exQseqs ∧ SccLabelling exQc ∧
    CondAntichain exQc exQanti ∧ ¬ NoSharedParallel exQc exQseqs exQanti :=
  ⟨exQ_maxSafeSeqs, exQ_scc, exQ_anti, exQ_shared⟩

-- (`flowSafePaths` uses `Rat` arithmetic and `mergeSort`, which the kernel does not unfold under `decide`; its
-- non-trivial runs are the K1 suite `K1.flow_safe_paths`. `longestIncompatible` is evaluated above with
-- `mergeSort` unfolded by hand.)

end FP.Props.C06
