import FP.Spec.Decomp
import FP.Model.MFD
import FP.Proofs.MFD
import FP.Proofs.DecompExample
import FP.Proofs.FlowDecompExists
import FP.Proofs.DecompManyPaths
import FP.Proofs.DecompConstraints
import FP.Proofs.GreedyShortcut
/-!
# C03 — MinFlowDecomp (DAG) finds a decomposition with the fewest paths

`inp : FlowInput` is the user's DAG with its flow values, ignore list, weight type and subpath
constraints; `inp.withK k` is the `kFlowDecomp` model `MinFlowDecomp.solve` builds in iteration `k`.
`HasDecomp inp k` is the specification-level statement "the flow on the non-ignored edges is a sum of `k`
weighted source-to-sink paths with non-negative weights of the requested type, each subpath constraint
contained in one of them" (`FP/Spec/Decomp.lean`). `PlainCfg inp` = the configurations `MinFlowDecomp`
uses by default (no empty paths, coverage 1 in edges, no position variables, constraints over graph edges).
-/
namespace FP.Props.C03
open FP FP.Spec FP.Search FP.MFD

/-- **T1 (completeness of the k-model).** Every decomposition into `k` weighted paths with weights in the
box `[0, w_max]` — edge variables = indicator of the path, `w` = weights, `pi` = products, `r` = constraint
containment — is a feasible assignment of the `kFlowDecomp` MILP. -/
theorem kfd_complete (inp : FlowInput) (k : Nat) (h : BaseWF inp.base) (hac : Acyclic inp.base)
    (hcfg : PlainCfg inp) (P : Nat → List Node) (w : Nat → Rat)
    (hd : IsDecomp inp k P w) (hb : ∀ i, i < k → w i ≤ inp.wmax) :
    Sat (decompAsg inp.st inp.cfg.constraints P w) (kfdLP (inp.withK k)) :=
  FP.kfd_complete_proof inp k h hac hcfg P w hd hb

/-- soundness of the k-model including weight type and subpath constraints (extends `C02.kfd_exact`) -/
theorem kfd_sound (inp : FlowInput) (k : Nat) (h : BaseWF inp.base) (hac : Acyclic inp.base)
    (hcfg : PlainCfg inp) (a : Asg) (hsat : Sat a (kfdLP (inp.withK k))) : HasDecomp inp k :=
  FP.kfd_sound_proof inp k h hac hcfg a hsat

/-- **T2.** The `kFlowDecomp` model for `k` is feasible exactly when a decomposition into `k` paths exists. -/
theorem kfd_feasible_iff (inp : FlowInput) (k : Nat) (h : BaseWF inp.base) (hac : Acyclic inp.base)
    (hcfg : PlainCfg inp) : (∃ a, Sat a (kfdLP (inp.withK k))) ↔ HasDecomp inp k :=
  FP.kfd_feasible_iff_proof inp k h hac hcfg

/-- **adequacy of the box, by hypothesis.** In any decomposition the weight of a path through at least one
active edge is at most the largest flow value. -/
theorem decomp_weights_le_wmax (inp : FlowInput) (k : Nat) (P : Nat → List Node) (w : Nat → Rat)
    (hd : IsDecomp inp k P w) (i : Nat) (hi : i < k) (e : Edge) (he : e ∈ inp.activeEdges)
    (hon : e ∈ walkEdges (inp.st.source :: P i ++ [inp.st.sink])) : w i ≤ inp.wmax :=
  FP.decomp_weights_le_wmax_proof inp k P w hd i hi e he hon

/-- **adequacy of the box, unconditional.** Paths through no active edge (the route through an isolated
node, paths of ignored edges only) can be given weight 0: a decomposition with unbounded weights exists
iff one within the box exists. -/
theorem decomp_bound_wlog (inp : FlowInput) (k : Nat) : HasDecompFree inp k ↔ HasDecomp inp k :=
  ⟨FP.decomp_bound_wlog_proof inp k, fun ⟨P, w, hd, _⟩ => ⟨P, w, hd⟩⟩

/-- **T3.** From `k ≥ 1` paths to `k + 1`: repeat a path with weight 0. -/
theorem decomp_monotone (inp : FlowInput) (k : Nat) (hk : 1 ≤ k) (h : HasDecomp inp k) :
    HasDecomp inp (k + 1) :=
  FP.decomp_monotone_proof inp k hk h

/-- **T4, soundness of the search.** If every `optimal`/`infeasible` the solver reports is true and no
decomposition with fewer than `lo` paths exists, an answer `k` of the search `range(lo, hi)` is the
minimum number of paths. (Inconclusive statuses may occur anywhere: then there is no answer, C13.) -/
theorem mfd_search_minimal (inp : FlowInput) (h : BaseWF inp.base) (hac : Acyclic inp.base)
    (hcfg : PlainCfg inp) (σ : Nat → Status) (hf : Faithful inp σ) (lo hi k : Nat)
    (hlo : ∀ j, j < lo → ¬ HasDecomp inp j)
    (hs : (stopSearch σ lo hi).solved = some k) :
    IsMinDecomp inp k ∧ lo ≤ k ∧ k < hi := by
  obtain ⟨h1, h2, h3, h4⟩ := FP.mfd_search_minimal_proof inp h hac hcfg σ hf lo hi k hlo hs
  exact ⟨⟨h1, h2⟩, h3, h4⟩

/-- **T4, completeness of the search.** With a solver that always finishes, the search returns the
minimum `k*` whenever `lo ≤ k* < hi`. -/
theorem mfd_search_finds (inp : FlowInput) (h : BaseWF inp.base) (hac : Acyclic inp.base)
    (hcfg : PlainCfg inp) (σ : Nat → Status) (hd : Decisive inp σ) (lo hi k : Nat)
    (hmin : IsMinDecomp inp k) (h1 : lo ≤ k) (h2 : k < hi) :
    (stopSearch σ lo hi).solved = some k :=
  FP.mfd_search_finds_proof inp h hac hcfg σ hd lo hi k hmin h1 h2

/-- **T5a.** `k` weighted paths produce at most `2^k` distinct values on the active edges, however the
values are read (`g` = identity or python's `int`): so `ceil(log2 #distinct) ≤ k`. -/
theorem lb_log_valid {α : Type} (g : Rat → α) (inp : FlowInput) (k : Nat)
    (h : BaseWF inp.base) (hac : Acyclic inp.base) (P : Nat → List Node) (w : Nat → Rat)
    (hd : IsDecomp inp k P w) (vals : List α) (hnd : vals.Nodup)
    (hv : ∀ v ∈ vals, ∃ e ∈ inp.activeEdges, g (inp.f e) = v) :
    vals.length ≤ 2 ^ k ∧ (1 ≤ vals.length → clog2 vals.length ≤ k) := by
  have := FP.lb_log_valid_proof g inp k h hac P w hd vals hnd hv
  exact ⟨this, fun h1 => clog2_le _ _ h1 this⟩

/-- the multiset formulation: every active edge's value is one of the `2^k` subset sums of the weights -/
theorem lb_log_subset_sums (inp : FlowInput) (k : Nat) (h : BaseWF inp.base) (hac : Acyclic inp.base)
    (P : Nat → List Node) (w : Nat → Rat) (hd : IsDecomp inp k P w) :
    (∀ e ∈ inp.activeEdges, inp.f e ∈ subsetSums w k) ∧ (subsetSums w k).length = 2 ^ k :=
  ⟨FP.flow_values_subset_sums inp k h hac P w hd, FP.length_subsetSums w k⟩

/-- **T5b.** An antichain of active edges with positive flow forces one path per edge. -/
theorem lb_antichain_valid (inp : FlowInput) (k : Nat) (P : Nat → List Node) (w : Nat → Rat)
    (hd : IsDecomp inp k P w) (A : List Edge) (hA : IsAntichain inp.st A)
    (hact : ∀ e ∈ A, e ∈ inp.activeEdges) (hpos : ∀ e ∈ A, 0 < inp.f e) : A.length ≤ k :=
  FP.lb_antichain_valid_proof inp k P w hd A hA hact hpos

/-- the model of `get_lowerbound_k` returns a value below every `m` that bounds all its ingredients
(the generating-set ingredient only counts when the ignore list is empty, as in the code) -/
theorem lowerboundK_valid (x : LBIn) (m lb : Nat) (hopt : x.optLb.getD 1 ≤ m)
    (hlog : distinctInt x.flows ≤ 2 ^ m) (hwidth : x.width ≤ m)
    (hmgs : x.ignoreEmpty = true → x.useMgs = true → ∀ s, x.mgs = some s → s ≤ m)
    (hscan : x.useScan = true → ∀ s, x.scan = some s → s ≤ m)
    (h : lowerboundK x = .value lb) : lb ≤ m :=
  FP.lowerboundK_valid_proof x m lb hopt hlog hwidth hmgs hscan h

/-- **C03 over the model of `solve`.** True minimum `m ≤ |E| + #constraints`, valid lower-bound
ingredients, a solver that always finishes: the modelled `MinFlowDecomp.solve` returns `m`. -/
theorem mfd_solve_returns_min (inp : FlowInput) (h : BaseWF inp.base) (hac : Acyclic inp.base)
    (hcfg : PlainCfg inp) (σ : Nat → Status) (hd : Decisive inp σ) (x : LBIn) (numEdges numCons m : Nat)
    (hmin : IsMinDecomp inp m) (hm : m ≤ numEdges + numCons)
    (hopt : x.optLb.getD 1 ≤ m) (hlog : distinctInt x.flows ≤ 2 ^ m) (hwidth : x.width ≤ m)
    (hmgs : x.ignoreEmpty = true → x.useMgs = true → ∀ s, x.mgs = some s → s ≤ m)
    (hscan : x.useScan = true → ∀ s, x.scan = some s → s ≤ m) :
    (MFD.solve x numEdges numCons σ).solved = some m :=
  FP.mfd_solve_returns_min_proof inp h hac hcfg σ hd x numEdges numCons m hmin hm hopt hlog hwidth hmgs hscan

/-- **flow decomposition theorem on s-t DAGs.** A non-negative flow `φ` on a well-formed s-t DAG of the
shape `augment` produces (`Thin`), conserved at every inner node, is the sum of at most
`#(inner edges with positive flow)` weighted source-to-sink paths with positive weights — integers when
`φ` is integral. -/
theorem flow_decomposition_exists (s : STGraph) (hwf : STWF s) (hth : Thin s) (isInt : Bool)
    (φ : Edge → Rat) (hf : FlowOn s φ) (hint : isInt = true → ∀ e ∈ s.g.edges, ∃ z : Int, φ e = z) :
    ∃ D : List (List Node × Rat), D.length ≤ posInner s φ ∧
      (∀ d ∈ D, IsWalkIn s.g (s.source :: d.1 ++ [s.sink]) ∧ 0 < d.2 ∧ (isInt = true → ∃ z : Int, d.2 = z)) ∧
      ExplainsL s D φ :=
  FP.flow_decomp_general s hwf hth isInt _ φ (Nat.le_refl _) hf hint

/-- **a decomposition always exists and the minimum is at most `|E|`.** For a non-negative flow on a
well-formed user DAG that is conserved at every node having both in- and out-edges (no additional
starts/ends, no subpath constraints; integer flow values when integer weights are requested; any ignore
list): the minimum number of paths `m` exists and `m ≤ |E|`, i.e. it lies inside `range(lb, |E| + 1)`
for every valid lower bound. -/
theorem mfd_total (inp : FlowInput) (h : BaseWF inp.base) (hac : Acyclic inp.base)
    (hci : ConservingInput inp) (hnocons : inp.cfg.constraints = [])
    (hint : inp.weightInt = true → ∀ e ∈ inp.base.edges, ∃ z : Int, inp.f e = z) :
    ∃ m, m ≤ inp.base.edges.length ∧ IsMinDecomp inp m :=
  FP.mfd_total_proof inp h hac hci hnocons hint

/-- **existence with subpath constraints.** If moreover every subpath constraint lies on some
source-to-sink path (`Coverable` — necessary for any decomposition to exist), the minimum exists and is at
most `|E| + #constraints`: a constraint-free decomposition plus one weight-0 path per constraint. -/
theorem mfd_total_constraints (inp : FlowInput) (h : BaseWF inp.base) (hac : Acyclic inp.base)
    (hci : ConservingInput inp) (hcov : Coverable inp)
    (hint : inp.weightInt = true → ∀ e ∈ inp.base.edges, ∃ z : Int, inp.f e = z) :
    ∃ m, m ≤ inp.base.edges.length + inp.cfg.constraints.length ∧ IsMinDecomp inp m :=
  FP.mfd_total_constraints_proof inp h hac hci hcov hint

theorem coverable_necessary (inp : FlowInput) (k : Nat) (h : HasDecomp inp k) : Coverable inp :=
  FP.coverable_of_hasDecomp inp k h

/-- **C03 end to end over the model, subpath constraints included.** Conserving non-negative flow, subpath
constraints (coverage 1) each on some source-to-sink path, lower-bound ingredients that are valid for the
minimum, a solver that always finishes: the modelled `MinFlowDecomp.solve` — search over
`range(lb, |E| + #constraints + 1)` — succeeds and returns the minimum number of paths. -/
theorem mfd_solve_succeeds (inp : FlowInput) (h : BaseWF inp.base) (hac : Acyclic inp.base)
    (hcfg : PlainCfg inp) (hci : ConservingInput inp) (hcov : Coverable inp)
    (hint : inp.weightInt = true → ∀ e ∈ inp.base.edges, ∃ z : Int, inp.f e = z)
    (σ : Nat → Status) (hd : Decisive inp σ) (x : LBIn)
    (hvalid : ∀ m, IsMinDecomp inp m → x.optLb.getD 1 ≤ m ∧ distinctInt x.flows ≤ 2 ^ m ∧ x.width ≤ m ∧
      (x.ignoreEmpty = true → x.useMgs = true → ∀ s, x.mgs = some s → s ≤ m) ∧
      (x.useScan = true → ∀ s, x.scan = some s → s ≤ m)) :
    ∃ m, (MFD.solve x inp.base.edges.length inp.cfg.constraints.length σ).solved = some m ∧
      IsMinDecomp inp m := by
  obtain ⟨m, hm, hmin⟩ := mfd_total_constraints inp h hac hci hcov hint
  obtain ⟨h1, h2, h3, h4, h5⟩ := hvalid m hmin
  exact ⟨m, mfd_solve_returns_min inp h hac hcfg σ hd x _ _ m hmin hm h1 h2 h3 h4 h5, hmin⟩

/-- a further valid lower bound (not used by the code): subpath constraints that pairwise leave a common
node by different edges need one path each -/
theorem lb_constraints_valid (inp : FlowInput) (h : BaseWF inp.base) (hac : Acyclic inp.base) (k : Nat)
    (P : Nat → List Node) (w : Nat → Rat) (hd : IsDecomp inp k P w) (C : List (List Edge))
    (hC : ∀ c ∈ C, c ∈ inp.cfg.constraints) (hnd : C.Nodup)
    (hinc : ∀ c1 ∈ C, ∀ c2 ∈ C, c1 ≠ c2 → DecompManyPaths.Incompat c1 c2 = true) : C.length ≤ k :=
  DecompManyPaths.lb_constraints inp h hac k P w hd C hC hnd hinc

/-- **the range before fix e0ac661 falsified "solve() succeeds" for subpath constraints.** Concrete input
(complete DAG on 6 nodes without three edges: 12 edges, 13 source-to-sink paths, each a subpath constraint,
one unit of flow per path): a decomposition exists, the minimum is 13 paths, and a search over
`range(lo, |E| + 1)` ends without an answer for every lower bound and every truthful solver. -/
theorem search_range_too_small_witness (σ : Nat → Status) (hf : Faithful DecompManyPaths.inp σ) (lo : Nat) :
    DecompManyPaths.base.edges.length = 12 ∧ IsMinDecomp DecompManyPaths.inp 13 ∧
      (stopSearch σ lo (searchHiPre DecompManyPaths.base.edges.length)).solved = none :=
  DecompManyPaths.range_too_small_pre σ hf lo

/-- **regression for fix e0ac661.** The same input is inside the current range
`range(lo, |E| + #constraints + 1) = range(lo, 26)`: every finishing solver makes the search return 13.
Replayed on the real code by `harness/props/c03.py: many_paths_instance`. -/
theorem search_range_regression (σ : Nat → Status) (hd : Decisive DecompManyPaths.inp σ) (lo : Nat)
    (hlo : lo ≤ 13) :
    searchHi DecompManyPaths.base.edges.length DecompManyPaths.inp.cfg.constraints.length = 26 ∧
      (stopSearch σ lo (searchHi DecompManyPaths.base.edges.length
        DecompManyPaths.inp.cfg.constraints.length)).solved = some 13 :=
  DecompManyPaths.range_now_sufficient σ hd lo hlo

/-! ### non-vacuity: the diamond with flows 3/2, integer weights, one subpath constraint -/

open FP.DecompExample in
example : IsDecomp DecompExample.inp 2 DecompExample.P DecompExample.w := isDecomp

open FP.DecompExample in
example : ∃ a, Sat a (kfdLP (DecompExample.inp.withK 2)) :=
  (kfd_feasible_iff _ 2 base_wf base_acyclic plain).2 hasDecomp2

open FP.DecompExample in
example : IsMinDecomp DecompExample.inp 2 := min_is_2

open FP.DecompExample in
example : ¬ ∃ a, Sat a (kfdLP (DecompExample.inp.withK 1)) :=
  fun hf => no_decomp_below_2 1 (by omega) ((kfd_feasible_iff _ 1 base_wf base_acyclic plain).1 hf)

/-- the same diamond without the subpath constraint satisfies the hypotheses of `mfd_total` -/
def diamond0 : FlowInput := { DecompExample.inp with cfg := { k := 1 } }

theorem diamond0_conserving : ConservingInput diamond0 where
  noStarts := rfl
  noEnds := rfl
  nonneg := by decide +kernel
  cons := by decide +kernel

example : ∃ m, m ≤ 4 ∧ IsMinDecomp diamond0 m :=
  mfd_total diamond0 DecompExample.base_wf DecompExample.base_acyclic diamond0_conserving rfl
    (fun _ e he => by
      have : e ∈ [(("a", "b") : Edge), ("a", "c"), ("b", "d"), ("c", "d")] := he
      simp only [List.mem_cons, List.not_mem_nil, or_false] at this
      rcases this with rfl | rfl | rfl | rfl
      · exact ⟨3, by decide +kernel⟩
      · exact ⟨2, by decide +kernel⟩
      · exact ⟨3, by decide +kernel⟩
      · exact ⟨2, by decide +kernel⟩)

/-- the diamond with its subpath constraint satisfies the hypotheses of `mfd_total_constraints` -/
theorem diamond_conserving : ConservingInput DecompExample.inp where
  noStarts := rfl
  noEnds := rfl
  nonneg := by decide +kernel
  cons := by decide +kernel

theorem diamond_coverable : Coverable DecompExample.inp :=
  coverable_necessary _ 2 DecompExample.hasDecomp2

example : ∃ m, m ≤ 4 + 1 ∧ IsMinDecomp DecompExample.inp m :=
  mfd_total_constraints DecompExample.inp DecompExample.base_wf DecompExample.base_acyclic
    diamond_conserving diamond_coverable
    (fun _ e he => by
      have : e ∈ [(("a", "b") : Edge), ("a", "c"), ("b", "d"), ("c", "d")] := he
      simp only [List.mem_cons, List.not_mem_nil, or_false] at this
      rcases this with rfl | rfl | rfl | rfl
      · exact ⟨3, by decide +kernel⟩
      · exact ⟨2, by decide +kernel⟩
      · exact ⟨3, by decide +kernel⟩
      · exact ⟨2, by decide +kernel⟩)

/-- the model's lower bound on the diamond: two distinct values (log term 1), width 2 -/
example : lowerboundK { flows := [3, 2, 3, 2], width := 2 } = .value 2 := by decide +kernel
/-- no value at all (everything ignored / no attribute): the log term is skipped (fix 01f9777) … -/
example : lowerboundK { flows := [], width := 0, ignoreEmpty := false } = .value 1 := by decide +kernel
/-- … before the fix `math.log2(0)` raised -/
example : lowerboundKPre { flows := [], width := 0 } = .valueError := by decide +kernel
/-- an unsolved `MinGenSet` leaves the bound as it is (fix 50cb8a9) … -/
example : lowerboundK { flows := [1, 2, 4], width := 2, useMgs := true, mgs := none } = .value 2 := by
  decide +kernel
/-- … before the fix it terminated the interpreter: no answer at all although the minimum exists -/
theorem mingenset_exit_witness :
    lowerboundKPre { flows := [3, 1, 2, 2], width := 2, useMgs := true, mgs := none } = .exit := by
  decide +kernel
/-- s→a→t with flow 5 and ignored edges carrying 9, 2, 3 (finding C03-lowerbound-counts-ignored-values):
before fix 01f9777 all five values were counted (bound 2 > minimum 1), now only the non-ignored ones -/
theorem ignored_values_witness :
    lowerboundKPre { flows := [5, 5, 9, 2, 3], width := 1 } = .value 2 ∧
    lowerboundK { flows := [5, 5], width := 1, ignoreEmpty := false } = .value 1 := by decide +kernel
/-- the generating-set ingredient is not used when something is ignored -/
example : lowerboundK { flows := [5, 5], width := 1, ignoreEmpty := false, useMgs := true, mgs := some 4 }
    = .value 1 := by decide +kernel
example : (MFD.solve { flows := [3, 2, 3, 2], width := 2 } 4 1
    (fun k => if k < 2 then .infeasible else .optimal)).solved = some 2 := by decide +kernel

/-! ### the greedy shortcut of `kFlowDecomp` (`optimize_with_greedy`, used by every k-model `MinFlowDecomp` builds)

`x : GSIn` = the internal DAG in `edges()` order with its flow, the topological order
`max_bottleneck_path` iterates in (oracle, contract `IsTopo`), `k`, the three guards of the constructor
(`optimize_with_greedy`, no ignored edges, `satisfies_flow_conservation`), the subpath constraints with the
length each edge counts and the coverage fraction. `greedyShortcut x = some (paths, weights)` iff the
constructor stores that solution and marks the model solved without calling the solver. -/

/-- **the shortcut returns a decomposition into exactly `k` paths.** Distinct edges, non-negative flow
conserved at every inner node: when the shortcut fires, `k ≥ 1`, it returns `k` paths and `k` weights that
form a decomposition of the flow into source-to-sink paths; they are the `n ≤ k` paths peeled by
`decompose_using_max_bottleneck` (C17 `greedy_exact`) with their positive weights followed by `k - n`
copies of the first path with weight 0 — all weights positive when `n = k`. -/
theorem greedy_shortcut_sound (x : GSIn) (hnd : x.g.edges.Nodup) (htopo : IsTopo x.g.edges x.topo)
    (hnn : ∀ e ∈ x.g.edges, 0 ≤ x.f e) (hc : Conserving x.g x.f)
    (ps : List (List Node)) (ws : List Rat) (h : greedyShortcut x = some (ps, ws)) :
    ps.length = x.k ∧ ws.length = x.k ∧ 1 ≤ x.k ∧ IsPathDecomp x.g x.f (ps.zip ws) ∧
    ∃ r, decompose x.g x.f x.topo = .done r ∧ 1 ≤ r.paths.length ∧ r.paths.length ≤ x.k ∧
      IsPathDecomp x.g x.f r.paths ∧ (∀ pw ∈ r.paths, 0 < pw.2) ∧
      ps.take r.paths.length = r.paths.map (·.1) ∧ ws.take r.paths.length = r.paths.map (·.2) ∧
      (∀ w ∈ ws.drop r.paths.length, w = 0) ∧ (r.paths.length = x.k → ∀ w ∈ ws, 0 < w) :=
  FP.greedy_shortcut_sound_proof x hnd htopo hnn hc ps ws h

/-- **the shortcut's answer is minimum.** `lb` = the lower bound `MinFlowDecomp` starts its search at
(width, enters by its contract: no decomposition has fewer than `lb` paths — `lb_antichain_valid`), `k ≤ lb`
(the first k-model is built with `k = lb`): when the shortcut fires, its `k` paths with `k` positive weights
decompose the flow and no decomposition with fewer than `k` paths exists. -/
theorem greedy_shortcut_minimal (x : GSIn) (hnd : x.g.edges.Nodup) (htopo : IsTopo x.g.edges x.topo)
    (hnn : ∀ e ∈ x.g.edges, 0 ≤ x.f e) (hc : Conserving x.g x.f) (lb : Nat)
    (hlb : ∀ D, IsPathDecomp x.g x.f D → lb ≤ D.length) (hk : x.k ≤ lb)
    (ps : List (List Node)) (ws : List Rat) (h : greedyShortcut x = some (ps, ws)) :
    IsPathDecomp x.g x.f (ps.zip ws) ∧ (ps.zip ws).length = x.k ∧ (∀ w ∈ ws, 0 < w) ∧
    (∀ D, IsPathDecomp x.g x.f D → x.k ≤ D.length) :=
  FP.greedy_shortcut_minimal_proof x hnd htopo hnn hc lb hlb hk ps ws h

/-- **skipping the solver changes nothing.** Every solver script that answers `optimal` whenever a
decomposition into `j` paths exists makes the search `range(k, hi)` return `k`, the number of paths the
shortcut returns. -/
theorem shortcut_agrees_with_search (x : GSIn) (hnd : x.g.edges.Nodup) (htopo : IsTopo x.g.edges x.topo)
    (hnn : ∀ e ∈ x.g.edges, 0 ≤ x.f e) (hc : Conserving x.g x.f)
    (σ : Nat → Status) (hσ : ∀ j, (∃ D, IsPathDecomp x.g x.f D ∧ D.length = j) → σ j = .optimal)
    (hi : Nat) (hhi : x.k < hi)
    (ps : List (List Node)) (ws : List Rat) (h : greedyShortcut x = some (ps, ws)) :
    (stopSearch σ x.k hi).solved = some (ps.zip ws).length :=
  FP.shortcut_agrees_with_search_proof x hnd htopo hnn hc σ hσ hi hhi ps ws h

/-- **the shortcut respects the subpath constraints.** Coverage fraction 1 (edges count 1, or any positive
lengths): when the shortcut fires every subpath constraint is contained in one of the returned paths - the
`constraints` clause of `IsDecomp`. -/
theorem greedy_shortcut_constraints (x : GSIn) (hcov : x.coverage = 1)
    (hlen : ∀ con ∈ x.constraints, ∀ el ∈ con, 0 < el.2)
    (ps : List (List Node)) (ws : List Rat) (h : greedyShortcut x = some (ps, ws)) :
    ∀ con ∈ x.constraints, ∃ p ∈ ps, ∀ el ∈ con, el.1 ∈ walkEdges p :=
  FP.greedy_shortcut_constraints_proof x hcov hlen ps ws h

/-- the diamond with flows 3/2: fires for `k = 2` … -/
def gsDiamond (k : Nat) : GSIn := { g := C17Example.d, f := C17Example.dflow, topo := C17Example.dtopo, k := k }

example : greedyShortcut (gsDiamond 2) = some ([["s", "a", "t"], ["s", "b", "t"]], [3, 2]) := by decide +kernel
/-- … pads for `k = 3` … -/
example : greedyShortcut (gsDiamond 3) =
    some ([["s", "a", "t"], ["s", "b", "t"], ["s", "a", "t"]], [3, 2, 0]) := by decide +kernel
/-- … does not fire for `k = 1`, nor with `optimize_with_greedy = False`, nor when a subpath constraint
(here the pair of edges `s→a`, `b→t`, on no common path) is not covered by a greedy path … -/
example : greedyShortcut (gsDiamond 1) = none := by decide +kernel
example : greedyShortcut { gsDiamond 2 with optGreedy := false } = none := by decide +kernel
example : greedyShortcut { gsDiamond 2 with constraints := [[(("s", "a"), 1), (("b", "t"), 1)]] } = none := by
  decide +kernel
/-- … nor on the all-zero flow (fix 7138f39) -/
example : greedyShortcut { gsDiamond 2 with f := fun _ => 0 } = none := by decide +kernel

/-- non-vacuity: the diamond with the constraint `s→a, a→t` fires -/
example : greedyShortcut { gsDiamond 2 with constraints := [[(("s", "a"), 1), (("a", "t"), 1)]] } =
    some ([["s", "a", "t"], ["s", "b", "t"]], [3, 2]) := by decide +kernel

/-- the hypotheses of `greedy_shortcut_sound` are satisfiable: the diamond -/
example : IsPathDecomp C17Example.d C17Example.dflow [(["s", "a", "t"], 3), (["s", "b", "t"], 2)] :=
  (greedy_shortcut_sound (gsDiamond 2) (by decide) C17Example.d_topo' C17Example.d_nonneg
    C17Example.d_conserving [["s", "a", "t"], ["s", "b", "t"]] [3, 2] (by decide +kernel)).2.2.2.1

end FP.Props.C03
