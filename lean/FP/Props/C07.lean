import FP.Spec.ErrModels
import FP.Proofs.KLAE
import FP.Proofs.KLAEExtra
import FP.Proofs.RouteUser
import FP.Proofs.ErrExample
import FP.Proofs.ErrExampleOpt
/-!
# C07 — k-Least-Absolute-Errors returns a true optimum with a consistent objective  (DAG model)

`klaeLP inp` is the LP that `kLeastAbsErrors.__init__` hands to the solver (tied to the code by the
K2 LP-dump suite). Vocabulary (`FP/Spec/ErrModels.lean`): `Route`, `trav`, `explained`,
`LAE.absErr = |f(e) − Σ_i w_i[e ∈ p_i]|`, `LAE.totalErr = Σ_e scale(e)·absErr(e)` over the non-ignored
edges, `LAE.Solution` (k routes, weights ≥ 0 of the requested type), `LAE.Bounded` (… and weights,
errors ≤ `w_max`).

Scope of the completeness / optimality theorems: no subpath constraints, unit lengths
(`constraints = []`, `lengths = none`); with `weight_type = int` the flow values are integers
(otherwise the integer error columns cannot take the value `|f − Σ|`).
-/
namespace FP.Props.C07
open FP FP.Spec FP.Spec.LAE

/-- **(a) soundness.** Every satisfying assignment of the LP on a well-formed user DAG decodes to `k`
routes; with `w_i` the weight columns: weights lie in `[0, w_max]` and are integral for
`weight_type = int`, the edge columns are the route indicators, `pi(e,i) = x(e,i)·w_i`, and on every
non-ignored edge `|f(e) − Σ_i w_i[e ∈ p_i]| ≤ ee(e) ≤ w_max`. -/
theorem klae_sound (inp : ErrInput) (a : Asg) (h : BaseWF inp.fi.base) (hac : Acyclic inp.fi.base)
    (hsat : Sat a (klaeLP inp)) :
    ∃ ps : List (List Node),
      decodePaths inp.st (fun e i => a (edgeVar e i)) inp.k = some ps ∧ ps.length = inp.k ∧
      Solution inp (fun i => ps.getD i []) (fun i => a (weightsVar i)) ∧
      (∀ i, i < inp.k → a (weightsVar i) ≤ inp.wmax none) ∧
      (∀ i, i < inp.k → ∀ e ∈ inp.st.g.edges, a (edgeVar e i) = trav inp.st (ps.getD i []) e) ∧
      (∀ e ∈ inp.basicEdges, ∀ i, i < inp.k → a (piVar e i) = a (edgeVar e i) * a (weightsVar i)) ∧
      (∀ e ∈ inp.basicEdges,
        absErr inp (fun i => ps.getD i []) (fun i => a (weightsVar i)) e ≤ a (eeVar e) ∧
        a (eeVar e) ≤ inp.wmax none ∧ (inp.fi.weightInt = true → IsInt (a (eeVar e)))) :=
  FP.klae_sound inp a h hac hsat

/-- the decoded non-empty paths are routes of the *user's* graph (C01) -/
theorem klae_routes_valid (inp : ErrInput) (a : Asg) (h : BaseWF inp.fi.base) (hac : Acyclic inp.fi.base)
    (hsat : Sat a (klaeLP inp)) (i : Nat) (hi : i < inp.k) :
    ∃ p, decodeLayer inp.st (fun e i => a (edgeVar e i)) i = some p ∧
      (p = [] → inp.fi.cfg.allowEmpty = true) ∧
      (p ≠ [] → ValidRoute inp.fi.base inp.fi.starts inp.fi.ends p ∧ p.Nodup) :=
  FP.dag_routes_valid inp.fi.base inp.fi.starts inp.fi.ends inp.fi.cfg a h hac
    (sat_append_left a _ _ hsat) i hi

/-- the solver's objective at an assignment is `Σ_e scale(e)·ee(e)` over the non-ignored edges -/
theorem klae_objective (inp : ErrInput) (a : Asg) :
    evalTerms a (klaeLP inp).obj = (inp.basicEdges.map fun e => inp.scale e * a (eeVar e)).sum :=
  FP.klaeLP_obj inp a

/-- **(b) completeness.** Every choice of `k` routes and weights in `[0, w_max]` of the requested type
whose errors are at most `w_max` (the `ee` column bound; automatic after clamping, see
`wmax_adequate`) extends to a satisfying assignment with `ee(e) = |f(e) − Σ…|` and objective
`Σ scale(e)·|f(e) − Σ…|`. -/
theorem klae_complete (inp : ErrInput) (P : Nat → List Node) (w : Nat → Rat)
    (h : BaseWF inp.fi.base) (hac : Acyclic inp.fi.base)
    (hcons : inp.fi.cfg.constraints = []) (hlen : inp.fi.cfg.lengths = none)
    (hfint : inp.fi.weightInt = true → ∀ e ∈ inp.basicEdges, IsInt (inp.fi.f e))
    (hb : Bounded inp P w) :
    ∃ a : Asg, Sat a (klaeLP inp) ∧
      (∀ i, i < inp.k → ∀ e ∈ inp.st.g.edges, a (edgeVar e i) = trav inp.st (P i) e) ∧
      (∀ i, i < inp.k → a (weightsVar i) = w i) ∧
      (∀ e ∈ inp.basicEdges, a (eeVar e) = absErr inp P w e) ∧
      evalTerms a (klaeLP inp).obj = totalErr inp P w :=
  FP.klae_complete inp P w h hac hcons hlen hfint hb

/-- **(c) optimality transfer.** An assignment that is optimal for the LP decodes to a solution
minimising the total scaled absolute error among all bounded k-route solutions; at the optimum the
error columns are tight (`ee(e) = |f(e) − Σ…|`) on every edge of positive scale, and the solver's
objective *is* the total scaled error of the returned solution. -/
theorem klae_opt_transfer (inp : ErrInput) (a : Asg) (h : BaseWF inp.fi.base) (hac : Acyclic inp.fi.base)
    (hcons : inp.fi.cfg.constraints = []) (hlen : inp.fi.cfg.lengths = none)
    (hfint : inp.fi.weightInt = true → ∀ e ∈ inp.basicEdges, IsInt (inp.fi.f e))
    (hscale : ∀ e ∈ inp.basicEdges, 0 ≤ inp.scale e)
    (hsat : Sat a (klaeLP inp))
    (hopt : ∀ a', Sat a' (klaeLP inp) → evalTerms a (klaeLP inp).obj ≤ evalTerms a' (klaeLP inp).obj) :
    ∃ ps : List (List Node),
      decodePaths inp.st (fun e i => a (edgeVar e i)) inp.k = some ps ∧
      Bounded inp (fun i => ps.getD i []) (fun i => a (weightsVar i)) ∧
      (∀ P' w', Bounded inp P' w' →
        totalErr inp (fun i => ps.getD i []) (fun i => a (weightsVar i)) ≤ totalErr inp P' w') ∧
      (∀ e ∈ inp.basicEdges, 0 < inp.scale e →
        a (eeVar e) = absErr inp (fun i => ps.getD i []) (fun i => a (weightsVar i)) e) ∧
      evalTerms a (klaeLP inp).obj = totalErr inp (fun i => ps.getD i []) (fun i => a (weightsVar i)) :=
  FP.klae_opt_transfer inp a h hac hcons hlen hfint hscale hsat hopt

/-- **(d) the bound `w_max = k·max f` loses no optimum (DAG).** For `k ≥ 1`, flow values in
`[0, fmax]` (`fmax = weight_type(max f)`; automatic for float and for integral values): clamping the
weights of any k-route solution to `fmax` gives a *bounded* solution of the same type whose error is
no larger on any non-ignored edge. -/
theorem wmax_adequate (inp : ErrInput) (P : Nat → List Node) (w : Nat → Rat)
    (h : BaseWF inp.fi.base) (hac : Acyclic inp.fi.base) (hk : 1 ≤ inp.k)
    (hf : ∀ e ∈ inp.basicEdges, 0 ≤ inp.fi.f e ∧ inp.fi.f e ≤ inp.fmax)
    (hsol : Solution inp P w) :
    Bounded inp P (clampW inp w) ∧
      ∀ e ∈ inp.basicEdges, absErr inp P (clampW inp w) e ≤ absErr inp P w e :=
  FP.wmax_adequate inp P w h hac hk hf hsol

/-- **(c)+(d): the returned solution is optimal among all k-tuples of routes of the user's graph and
all non-negative weights of the requested type.** -/
theorem klae_optimal (inp : ErrInput) (a : Asg) (h : BaseWF inp.fi.base) (hac : Acyclic inp.fi.base)
    (hcons : inp.fi.cfg.constraints = []) (hlen : inp.fi.cfg.lengths = none) (hk : 1 ≤ inp.k)
    (hfint : inp.fi.weightInt = true → ∀ e ∈ inp.basicEdges, IsInt (inp.fi.f e))
    (hf : ∀ e ∈ inp.basicEdges, 0 ≤ inp.fi.f e ∧ inp.fi.f e ≤ inp.fmax)
    (hscale : ∀ e ∈ inp.basicEdges, 0 ≤ inp.scale e)
    (hsat : Sat a (klaeLP inp))
    (hopt : ∀ a', Sat a' (klaeLP inp) → evalTerms a (klaeLP inp).obj ≤ evalTerms a' (klaeLP inp).obj) :
    ∃ ps : List (List Node),
      decodePaths inp.st (fun e i => a (edgeVar e i)) inp.k = some ps ∧
      ∀ (P' : Nat → List Node) (w' : Nat → Rat),
        (∀ i, i < inp.k → ValidRoute inp.fi.base inp.fi.starts inp.fi.ends (P' i)) →
        (∀ i, i < inp.k → 0 ≤ w' i) → (inp.fi.weightInt = true → ∀ i, i < inp.k → IsInt (w' i)) →
        totalErr inp (fun i => ps.getD i []) (fun i => a (weightsVar i)) ≤ totalErr inp P' w' := by
  obtain ⟨ps, hps, _, hmin⟩ :=
    FP.klae_opt_unbounded inp a h hac hcons hlen hk hfint hf hscale hsat hopt
  refine ⟨ps, hps, fun P' w' hr h0 hint => hmin P' w' ⟨fun i hi => ?_, h0, hint⟩⟩
  exact route_of_validRoute inp.fi.base inp.fi.starts inp.fi.ends h hac _ _ (hr i hi)

/-! ### (e) objective consistency -/

/-- **`get_objective_value()` agrees with the solver's objective exactly when every non-ignored edge
has scale 1 or a zero error column** (scales ≤ 1 as the constructor checks). `reportedObjective`
models `sum(edge_errors.values())`. -/
theorem objective_consistent_iff (inp : ErrInput) (a : Asg) (hsat : Sat a (klaeLP inp))
    (hscale : ∀ e ∈ inp.basicEdges, inp.scale e ≤ 1) :
    reportedObjective inp a = evalTerms a (klaeLP inp).obj ↔
      ∀ e ∈ inp.basicEdges, inp.scale e = 1 ∨ a (eeVar e) = 0 :=
  FP.objective_consistent_iff inp a hsat hscale

/-- without `error_scaling` (all scales 1) the two objectives coincide on every assignment -/
theorem objective_consistent_unscaled (inp : ErrInput) (a : Asg)
    (h1 : ∀ e ∈ inp.basicEdges, inp.scale e = 1) :
    reportedObjective inp a = evalTerms a (klaeLP inp).obj := by
  rw [FP.klaeLP_obj]
  apply sum_map_congr
  intro e he
  rw [h1 e he]; grind

/-- **the code falsifies "the reported objective equals the solver's objective" under
`error_scaling`**: on `a → b → c`, `f = (4, 1)`, `error_scaling = {(a,b): 1/2}`, `k = 1`,
`weight_type = int` there is a satisfying assignment (path `a,b,c`, weight 1, errors `3, 0`) with
`get_objective_value() = 3` and solver objective `3/2` — the difference `3/2` exceeds the tolerance
`0.001·k` of `is_valid_solution()`. -/
theorem objective_inconsistent_witness :
    ∃ a : Asg, Sat a (klaeLP ErrExample.inp) ∧ reportedObjective ErrExample.inp a = 3 ∧
      evalTerms a (klaeLP ErrExample.inp).obj = 3/2 := by
  obtain ⟨a, hsat, _, _, hee, hobj⟩ := FP.klae_complete ErrExample.inp ErrExample.P ErrExample.w
    ErrExample.base_wf ErrExample.base_acyclic rfl rfl ErrExample.flows_int ErrExample.bounded
  refine ⟨a, hsat, ?_, by rw [hobj, ErrExample.totalErr_val]⟩
  unfold reportedObjective
  rw [← ErrExample.sumErr_val]
  exact sum_map_congr _ _ _ hee

/-- **every optimum of that instance is reported inconsistently**: whatever optimal assignment the
solver returns, the solver objective is `3/2` and `get_objective_value()` is `3`, so the objective
clause of `is_valid_solution()` (`|3 − 3/2| > 0.001·k`) rejects the model's own optimal solution. -/
theorem every_optimum_inconsistent (a : Asg) (hsat : Sat a (klaeLP ErrExample.inp))
    (hopt : ∀ a', Sat a' (klaeLP ErrExample.inp) →
      evalTerms a (klaeLP ErrExample.inp).obj ≤ evalTerms a' (klaeLP ErrExample.inp).obj) :
    reportedObjective ErrExample.inp a = 3 ∧ evalTerms a (klaeLP ErrExample.inp).obj = 3/2 :=
  ErrExample.every_optimum_inconsistent a hsat hopt

/-! ### non-vacuity -/

/-- the hypotheses of the soundness theorem are satisfiable on a non-trivial instance -/
example : ∃ a, Sat a (klaeLP ErrExample.inp) := by
  obtain ⟨a, h, _⟩ := objective_inconsistent_witness
  exact ⟨a, h⟩

/-- … and so are those of the completeness / adequacy theorems -/
example : Bounded ErrExample.inp ErrExample.P ErrExample.w := ErrExample.bounded
example : ∀ e ∈ ErrExample.inp.basicEdges,
    0 ≤ ErrExample.inp.fi.f e ∧ ErrExample.inp.fi.f e ≤ ErrExample.inp.fmax := ErrExample.flows_ok

end FP.Props.C07
