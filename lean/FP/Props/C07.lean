import FP.Spec.ErrModels
import FP.Proofs.KLAE
import FP.Proofs.KLAEExtra
import FP.Proofs.RouteUser
import FP.Proofs.ErrExample
import FP.Proofs.ErrExampleOpt
/-!
# C07 — k-Least-Absolute-Errors returns a true optimum with a consistent objective  (DAG model)

`klaeLP inp` is the LP that `kLeastAbsErrors.__init__` hands to the solver (tied to the code by the
K2 LP-dump suite). Vocabulary (`FP/Spec/ErrModels.lean`): `Route`, `trav`, `explained`,
`LAE.absErr = |f(e) − Σ_i w_i[e ∈ p_i]|`, `LAE.totalErr = Σ_e scale(e)·absErr(e)` over the non-ignored
edges, `LAE.Solution` (k routes, weights ≥ 0 of the requested type), `LAE.Bounded` (… and weights,
errors ≤ `w_max`).

Scope of the completeness / optimality theorems: no subpath constraints, unit lengths
(`constraints = []`, `lengths = none`); with `weight_type = int` the flow values are integers
(otherwise the integer error columns cannot take the value `|f − Σ|`).
-/
namespace FP.Props.C07
open FP FP.Spec FP.Spec.LAE

/-- **(a) soundness.** Every satisfying assignment of the LP on a well-formed user DAG decodes to `k`
routes; with `w_i` the weight columns: weights lie in `[0, w_max]` and are integral for
`weight_type = int`, the edge columns are the route indicators, `pi(e,i) = x(e,i)·w_i`, and on every
non-ignored edge `|f(e) − Σ_i w_i[e ∈ p_i]| ≤ ee(e) ≤ w_max`. -/
theorem klae_sound (inp : ErrInput) (a : Asg) (h : BaseWF inp.fi.base) (hac : Acyclic inp.fi.base)
    (hsat : Sat a (klaeLP inp)) :
    ∃ ps : List (List Node),
      decodePaths inp.st (fun e i => a (edgeVar e i)) inp.k = some ps ∧ ps.length = inp.k ∧
      Solution inp (fun i => ps.getD i []) (fun i => a (weightsVar i)) ∧
      (∀ i, i < inp.k → a (weightsVar i) ≤ inp.wmax none) ∧
      (∀ i, i < inp.k → ∀ e ∈ inp.st.g.edges, a (edgeVar e i) = trav inp.st (ps.getD i []) e) ∧
      (∀ e ∈ inp.basicEdges, ∀ i, i < inp.k → a (piVar e i) = a (edgeVar e i) * a (weightsVar i)) ∧
      (∀ e ∈ inp.basicEdges,
        absErr inp (fun i => ps.getD i []) (fun i => a (weightsVar i)) e ≤ a (eeVar e) ∧
        a (eeVar e) ≤ inp.wmax none ∧ (inp.fi.weightInt = true → IsInt (a (eeVar e)))) :=
  FP.klae_sound inp a h hac hsat

/-- the decoded non-empty paths are routes of the *user's* graph (C01) -/
theorem klae_routes_valid (inp : ErrInput) (a : Asg) (h : BaseWF inp.fi.base) (hac : Acyclic inp.fi.base)
    (hsat : Sat a (klaeLP inp)) (i : Nat) (hi : i < inp.k) :
    ∃ p, decodeLayer inp.st (fun e i => a (edgeVar e i)) i = some p ∧
      (p = [] → inp.fi.cfg.allowEmpty = true) ∧
      (p ≠ [] → ValidRoute inp.fi.base inp.fi.starts inp.fi.ends p ∧ p.Nodup) :=
  FP.dag_routes_valid inp.fi.base inp.fi.starts inp.fi.ends inp.fi.cfg a h hac
    (sat_append_left a _ _ hsat) i hi

/-- the solver's objective at an assignment is `Σ_e scale(e)·ee(e)` over the non-ignored edges -/
theorem klae_objective (inp : ErrInput) (a : Asg) :
    evalTerms a (klaeLP inp).obj = (inp.basicEdges.map fun e => inp.scale e * a (eeVar e)).sum :=
  FP.klaeLP_obj inp a

/-- **(b) completeness.** Every choice of `k` routes and weights in `[0, w_max]` of the requested type
whose errors are at most `w_max` (the `ee` column bound; automatic after clamping, see
`wmax_adequate`) extends to a satisfying assignment with `ee(e) = |f(e) − Σ…|` and objective
`Σ scale(e)·|f(e) − Σ…|`. -/
theorem klae_complete (inp : ErrInput) (P : Nat → List Node) (w : Nat → Rat)
    (h : BaseWF inp.fi.base) (hac : Acyclic inp.fi.base)
    (hcons : inp.fi.cfg.constraints = []) (hlen : inp.fi.cfg.lengths = none)
    (hfint : inp.fi.weightInt = true → ∀ e ∈ inp.basicEdges, IsInt (inp.fi.f e))
    (hb : Bounded inp P w) :
    ∃ a : Asg, Sat a (klaeLP inp) ∧
      (∀ i, i < inp.k → ∀ e ∈ inp.st.g.edges, a (edgeVar e i) = trav inp.st (P i) e) ∧
      (∀ i, i < inp.k → a (weightsVar i) = w i) ∧
      (∀ e ∈ inp.basicEdges, a (eeVar e) = absErr inp P w e) ∧
      evalTerms a (klaeLP inp).obj = totalErr inp P w :=
  FP.klae_complete inp P w h hac hcons hlen hfint hb

/-- **(c) optimality transfer.** An assignment that is optimal for the LP decodes to a solution
minimising the total scaled absolute error among all bounded k-route solutions; at the optimum the
error columns are tight (`ee(e) = |f(e) − Σ…|`) on every edge of positive scale, and the solver's
objective *is* the total scaled error of the returned solution. -/
theorem klae_opt_transfer (inp : ErrInput) (a : Asg) (h : BaseWF inp.fi.base) (hac : Acyclic inp.fi.base)
    (hcons : inp.fi.cfg.constraints = []) (hlen : inp.fi.cfg.lengths = none)
    (hfint : inp.fi.weightInt = true → ∀ e ∈ inp.basicEdges, IsInt (inp.fi.f e))
    (hscale : ∀ e ∈ inp.basicEdges, 0 ≤ inp.scale e)
    (hsat : Sat a (klaeLP inp))
    (hopt : ∀ a', Sat a' (klaeLP inp) → evalTerms a (klaeLP inp).obj ≤ evalTerms a' (klaeLP inp).obj) :
    ∃ ps : List (List Node),
      decodePaths inp.st (fun e i => a (edgeVar e i)) inp.k = some ps ∧
      Bounded inp (fun i => ps.getD i []) (fun i => a (weightsVar i)) ∧
      (∀ P' w', Bounded inp P' w' →
        totalErr inp (fun i => ps.getD i []) (fun i => a (weightsVar i)) ≤ totalErr inp P' w') ∧
      (∀ e ∈ inp.basicEdges, 0 < inp.scale e →
        a (eeVar e) = absErr inp (fun i => ps.getD i []) (fun i => a (weightsVar i)) e) ∧
      evalTerms a (klaeLP inp).obj = totalErr inp (fun i => ps.getD i []) (fun i => a (weightsVar i)) :=
  FP.klae_opt_transfer inp a h hac hcons hlen hfint hscale hsat hopt

/-- **(d) the bound `w_max = k·max f` loses no optimum (DAG).** For `k ≥ 1`, flow values in
`[0, fmax]` (`fmax = weight_type(max f)`; automatic for float and for integral values): clamping the
weights of any k-route solution to `fmax` gives a *bounded* solution of the same type whose error is
no larger on any non-ignored edge. -/
theorem wmax_adequate (inp : ErrInput) (P : Nat → List Node) (w : Nat → Rat)
    (h : BaseWF inp.fi.base) (hac : Acyclic inp.fi.base) (hk : 1 ≤ inp.k)
    (hf : ∀ e ∈ inp.basicEdges, 0 ≤ inp.fi.f e ∧ inp.fi.f e ≤ inp.fmax)
    (hsol : Solution inp P w) :
    Bounded inp P (clampW inp w) ∧
      ∀ e ∈ inp.basicEdges, absErr inp P (clampW inp w) e ≤ absErr inp P w e :=
  FP.wmax_adequate inp P w h hac hk hf hsol

/-- **(c)+(d): the returned solution is optimal among all k-tuples of routes of the user's graph and
all non-negative weights of the requested type.** -/
theorem klae_optimal (inp : ErrInput) (a : Asg) (h : BaseWF inp.fi.base) (hac : Acyclic inp.fi.base)
    (hcons : inp.fi.cfg.constraints = []) (hlen : inp.fi.cfg.lengths = none) (hk : 1 ≤ inp.k)
    (hfint : inp.fi.weightInt = true → ∀ e ∈ inp.basicEdges, IsInt (inp.fi.f e))
    (hf : ∀ e ∈ inp.basicEdges, 0 ≤ inp.fi.f e ∧ inp.fi.f e ≤ inp.fmax)
    (hscale : ∀ e ∈ inp.basicEdges, 0 ≤ inp.scale e)
    (hsat : Sat a (klaeLP inp))
    (hopt : ∀ a', Sat a' (klaeLP inp) → evalTerms a (klaeLP inp).obj ≤ evalTerms a' (klaeLP inp).obj) :
    ∃ ps : List (List Node),
      decodePaths inp.st (fun e i => a (edgeVar e i)) inp.k = some ps ∧
      ∀ (P' : Nat → List Node) (w' : Nat → Rat),
        (∀ i, i < inp.k → ValidRoute inp.fi.base inp.fi.starts inp.fi.ends (P' i)) →
        (∀ i, i < inp.k → 0 ≤ w' i) → (inp.fi.weightInt = true → ∀ i, i < inp.k → IsInt (w' i)) →
        totalErr inp (fun i => ps.getD i []) (fun i => a (weightsVar i)) ≤ totalErr inp P' w' := by
  obtain ⟨ps, hps, _, hmin⟩ :=
    FP.klae_opt_unbounded inp a h hac hcons hlen hk hfint hf hscale hsat hopt
  refine ⟨ps, hps, fun P' w' hr h0 hint => hmin P' w' ⟨fun i hi => ?_, h0, hint⟩⟩
  exact route_of_validRoute inp.fi.base inp.fi.starts inp.fi.ends h hac _ _ (hr i hi)

/-! ### (e) objective consistency

`reportedObjective` models `get_objective_value()` as it is since fix 1c464ac:
`sum(err * error_scaling.get(e, 1) for e, err in edge_errors.items())`, the error columns read back
from the solver times their scale factors. (Before the fix the method returned the unscaled sum,
which agrees with the solver's objective only if every edge has scale 1 or a zero error column —
`FP.unscaledErrorSum_eq_objective_iff` — so that `is_valid_solution()` rejected the model's own
optimum under `error_scaling`.) -/

/-- **the reported objective equals the solver's objective `Σ scale(e)·ee(e)` — for every assignment
of the columns**, in particular for whatever solution the solver returns -/
theorem objective_consistent (inp : ErrInput) (a : Asg) :
    reportedObjective inp a = evalTerms a (klaeLP inp).obj :=
  FP.objective_consistent inp a

/-- hence the objective clause of `is_valid_solution(tolerance)` —
`abs(get_objective_value() − solver objective) > tolerance · original_k` rejects — never rejects, for
any tolerance ≥ 0 -/
theorem objective_check_passes (inp : ErrInput) (a : Asg) (tol : Rat) (htol : 0 ≤ tol) (originalK : Nat) :
    objectiveCheckPasses inp a tol originalK :=
  FP.objective_check_passes inp a tol htol originalK

/-- **at an optimum the reported objective is the total scaled absolute error recomputed from the
returned paths and weights** (objective consistency + tightness of the error columns), and the
per-edge errors `ee(e)` are the recomputed `|f(e) − Σ_i w_i[e ∈ p_i]|` on every edge of positive scale -/
theorem reported_objective_at_optimum (inp : ErrInput) (a : Asg) (h : BaseWF inp.fi.base)
    (hac : Acyclic inp.fi.base)
    (hcons : inp.fi.cfg.constraints = []) (hlen : inp.fi.cfg.lengths = none)
    (hfint : inp.fi.weightInt = true → ∀ e ∈ inp.basicEdges, IsInt (inp.fi.f e))
    (hscale : ∀ e ∈ inp.basicEdges, 0 ≤ inp.scale e)
    (hsat : Sat a (klaeLP inp))
    (hopt : ∀ a', Sat a' (klaeLP inp) → evalTerms a (klaeLP inp).obj ≤ evalTerms a' (klaeLP inp).obj) :
    ∃ ps : List (List Node),
      decodePaths inp.st (fun e i => a (edgeVar e i)) inp.k = some ps ∧
      reportedObjective inp a = totalErr inp (fun i => ps.getD i []) (fun i => a (weightsVar i)) ∧
      ∀ e ∈ inp.basicEdges, 0 < inp.scale e →
        a (eeVar e) = absErr inp (fun i => ps.getD i []) (fun i => a (weightsVar i)) e := by
  obtain ⟨ps, hps, _, _, htight, hobj⟩ :=
    FP.klae_opt_transfer inp a h hac hcons hlen hfint hscale hsat hopt
  exact ⟨ps, hps, by rw [FP.objective_consistent, hobj], htight⟩

/-- **regression example for fix 1c464ac**: on `a → b → c`, `f = (4, 1)`,
`error_scaling = {(a,b): 1/2}`, `k = 1`, `weight_type = int` the path `a,b,c` with weight 1 and errors
`3, 0` is a satisfying assignment with solver objective `3/2` and reported objective `3/2` (the
pre-fix unscaled sum is `3`) -/
theorem objective_regression_example :
    ∃ a : Asg, Sat a (klaeLP ErrExample.inp) ∧ evalTerms a (klaeLP ErrExample.inp).obj = 3/2 ∧
      reportedObjective ErrExample.inp a = 3/2 ∧ unscaledErrorSum ErrExample.inp a = 3 := by
  obtain ⟨a, hsat, _, _, hee, hobj⟩ := FP.klae_complete ErrExample.inp ErrExample.P ErrExample.w
    ErrExample.base_wf ErrExample.base_acyclic rfl rfl ErrExample.flows_int ErrExample.bounded
  refine ⟨a, hsat, by rw [hobj, ErrExample.totalErr_val],
    by rw [FP.objective_consistent, hobj, ErrExample.totalErr_val], ?_⟩
  unfold unscaledErrorSum
  rw [← ErrExample.sumErr_val]
  exact sum_map_congr _ _ _ hee

/-- … and *every* optimum of that instance has error columns `3` and `0`, solver objective `3/2`
and reported objective `3/2` -/
theorem every_optimum_consistent (a : Asg) (hsat : Sat a (klaeLP ErrExample.inp))
    (hopt : ∀ a', Sat a' (klaeLP ErrExample.inp) →
      evalTerms a (klaeLP ErrExample.inp).obj ≤ evalTerms a' (klaeLP ErrExample.inp).obj) :
    a (eeVar ("a", "b")) = 3 ∧ a (eeVar ("b", "c")) = 0 ∧
      evalTerms a (klaeLP ErrExample.inp).obj = 3/2 ∧ reportedObjective ErrExample.inp a = 3/2 ∧
      unscaledErrorSum ErrExample.inp a = 3 :=
  ErrExample.every_optimum_consistent a hsat hopt

/-! ### non-vacuity -/

/-- the hypotheses of the soundness theorem are satisfiable on a non-trivial instance -/
example : ∃ a, Sat a (klaeLP ErrExample.inp) := by
  obtain ⟨a, h, _⟩ := objective_regression_example
  exact ⟨a, h⟩

/-- … and so are those of the completeness / adequacy theorems -/
example : Bounded ErrExample.inp ErrExample.P ErrExample.w := ErrExample.bounded
example : ∀ e ∈ ErrExample.inp.basicEdges,
    0 ≤ ErrExample.inp.fi.f e ∧ ErrExample.inp.fi.f e ≤ ErrExample.inp.fmax := ErrExample.flows_ok

end FP.Props.C07
