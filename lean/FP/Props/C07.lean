import FP.Spec.ErrModels
import FP.Proofs.KLAE
import FP.Proofs.KLAEExtra
import FP.Proofs.RouteUser
import FP.Proofs.ErrExample
import FP.Proofs.ErrExampleOpt
import FP.Proofs.KLAEC
import FP.Proofs.KLAECComplete
import FP.Proofs.KLAECExample
import FP.Spec.ErrGiven
import FP.Proofs.KLAEGiven
import FP.Proofs.KLAEGivenExample
/-!
# C07 — k-Least-Absolute-Errors returns a true optimum with a consistent objective  (DAG model)

`klaeLP inp` is the LP that `kLeastAbsErrors.__init__` hands to the solver (tied to the code by the
K2 LP-dump suite). Vocabulary (`FP/Spec/ErrModels.lean`): `Route`, `trav`, `explained`,
`LAE.absErr = |f(e) − Σ_i w_i[e ∈ p_i]|`, `LAE.totalErr = Σ_e scale(e)·absErr(e)` over the non-ignored
edges, `LAE.Solution` (k routes, weights ≥ 0 of the requested type), `LAE.Bounded` (… and weights,
errors ≤ `w_max`).

Scope of the completeness / optimality theorems: no subpath constraints, unit lengths
(`constraints = []`, `lengths = none`); with `weight_type = int` the flow values are integers
(otherwise the integer error columns cannot take the value `|f − Σ|`).

**Cyclic class** (last section): `klaecLP inp` is the LP of `kLeastAbsErrorsCycles.__init__` (K2 LP-dump
equality). Vocabulary (`FP/Spec/ErrWalks.lean`): `LAEC.absErr = |f(e) − Σ_i w_i·traversals_i(e)|`,
`LAEC.totalErr`; `klaecCap` — the repetition caps; `LaecWithinCaps` — the families of `k` weighted walks
the LP can represent (caps, `w_i·traversals_i(e) ≤ w_max`, errors `≤ w_max`). Soundness holds for every
input (`klaec_sound`); completeness and optimality only *within* these bounds
(`klaec_complete_within_caps`, `klaec_opt_within_caps`, `klaec_opt_tight`) — the bound `w_max = k·max f`
on the products cuts off better solutions (`klaec_wmax_cuts_optimum`, finding
C07-laecycles-wmax-cuts-optimum), so the DAG theorem `klae_optimal` has no cyclic counterpart.
-/
namespace FP.Props.C07
open FP FP.Spec FP.Spec.LAE

/-- **(a) soundness.** Every satisfying assignment of the LP on a well-formed user DAG decodes to `k`
routes; with `w_i` the weight columns: weights lie in `[0, w_max]` and are integral for
`weight_type = int`, the edge columns are the route indicators, `pi(e,i) = x(e,i)·w_i`, and on every
non-ignored edge `|f(e) − Σ_i w_i[e ∈ p_i]| ≤ ee(e) ≤ w_max`. -/
theorem klae_sound (inp : ErrInput) (a : Asg) (h : BaseWF inp.fi.base) (hac : Acyclic inp.fi.base)
    (hsat : Sat a (klaeLP inp)) :
    ∃ ps : List (List Node),
      decodePaths inp.st (fun e i => a (edgeVar e i)) inp.k = some ps ∧ ps.length = inp.k ∧
      Solution inp (fun i => ps.getD i []) (fun i => a (weightsVar i)) ∧
      (∀ i, i < inp.k → a (weightsVar i) ≤ inp.wmax none) ∧
      (∀ i, i < inp.k → ∀ e ∈ inp.st.g.edges, a (edgeVar e i) = trav inp.st (ps.getD i []) e) ∧
      (∀ e ∈ inp.basicEdges, ∀ i, i < inp.k → a (piVar e i) = a (edgeVar e i) * a (weightsVar i)) ∧
      (∀ e ∈ inp.basicEdges,
        absErr inp (fun i => ps.getD i []) (fun i => a (weightsVar i)) e ≤ a (eeVar e) ∧
        a (eeVar e) ≤ inp.wmax none ∧ (inp.fi.weightInt = true → IsInt (a (eeVar e)))) :=
  FP.klae_sound inp a h hac hsat

/-- the decoded non-empty paths are routes of the *user's* graph (C01) -/
theorem klae_routes_valid (inp : ErrInput) (a : Asg) (h : BaseWF inp.fi.base) (hac : Acyclic inp.fi.base)
    (hsat : Sat a (klaeLP inp)) (i : Nat) (hi : i < inp.k) :
    ∃ p, decodeLayer inp.st (fun e i => a (edgeVar e i)) i = some p ∧
      (p = [] → inp.fi.cfg.allowEmpty = true) ∧
      (p ≠ [] → ValidRoute inp.fi.base inp.fi.starts inp.fi.ends p ∧ p.Nodup) :=
  FP.dag_routes_valid inp.fi.base inp.fi.starts inp.fi.ends inp.fi.cfg a h hac
    (sat_append_left a _ _ hsat) i hi

/-- the solver's objective at an assignment is `Σ_e scale(e)·ee(e)` over the non-ignored edges -/
theorem klae_objective (inp : ErrInput) (a : Asg) :
    evalTerms a (klaeLP inp).obj = (inp.basicEdges.map fun e => inp.scale e * a (eeVar e)).sum :=
  FP.klaeLP_obj inp a

/-- **(b) completeness.** Every choice of `k` routes and weights in `[0, w_max]` of the requested type
whose errors are at most `w_max` (the `ee` column bound; automatic after clamping, see
`wmax_adequate`) extends to a satisfying assignment with `ee(e) = |f(e) − Σ…|` and objective
`Σ scale(e)·|f(e) − Σ…|`. -/
theorem klae_complete (inp : ErrInput) (P : Nat → List Node) (w : Nat → Rat)
    (h : BaseWF inp.fi.base) (hac : Acyclic inp.fi.base)
    (hcons : inp.fi.cfg.constraints = []) (hlen : inp.fi.cfg.lengths = none)
    (hfint : inp.fi.weightInt = true → ∀ e ∈ inp.basicEdges, IsInt (inp.fi.f e))
    (hb : Bounded inp P w) :
    ∃ a : Asg, Sat a (klaeLP inp) ∧
      (∀ i, i < inp.k → ∀ e ∈ inp.st.g.edges, a (edgeVar e i) = trav inp.st (P i) e) ∧
      (∀ i, i < inp.k → a (weightsVar i) = w i) ∧
      (∀ e ∈ inp.basicEdges, a (eeVar e) = absErr inp P w e) ∧
      evalTerms a (klaeLP inp).obj = totalErr inp P w :=
  FP.klae_complete inp P w h hac hcons hlen hfint hb

/-- **(c) optimality transfer.** An assignment that is optimal for the LP decodes to a solution
minimising the total scaled absolute error among all bounded k-route solutions; at the optimum the
error columns are tight (`ee(e) = |f(e) − Σ…|`) on every edge of positive scale, and the solver's
objective *is* the total scaled error of the returned solution. -/
theorem klae_opt_transfer (inp : ErrInput) (a : Asg) (h : BaseWF inp.fi.base) (hac : Acyclic inp.fi.base)
    (hcons : inp.fi.cfg.constraints = []) (hlen : inp.fi.cfg.lengths = none)
    (hfint : inp.fi.weightInt = true → ∀ e ∈ inp.basicEdges, IsInt (inp.fi.f e))
    (hscale : ∀ e ∈ inp.basicEdges, 0 ≤ inp.scale e)
    (hsat : Sat a (klaeLP inp))
    (hopt : ∀ a', Sat a' (klaeLP inp) → evalTerms a (klaeLP inp).obj ≤ evalTerms a' (klaeLP inp).obj) :
    ∃ ps : List (List Node),
      decodePaths inp.st (fun e i => a (edgeVar e i)) inp.k = some ps ∧
      Bounded inp (fun i => ps.getD i []) (fun i => a (weightsVar i)) ∧
      (∀ P' w', Bounded inp P' w' →
        totalErr inp (fun i => ps.getD i []) (fun i => a (weightsVar i)) ≤ totalErr inp P' w') ∧
      (∀ e ∈ inp.basicEdges, 0 < inp.scale e →
        a (eeVar e) = absErr inp (fun i => ps.getD i []) (fun i => a (weightsVar i)) e) ∧
      evalTerms a (klaeLP inp).obj = totalErr inp (fun i => ps.getD i []) (fun i => a (weightsVar i)) :=
  FP.klae_opt_transfer inp a h hac hcons hlen hfint hscale hsat hopt

/-- **(d) the bound `w_max = k·max f` loses no optimum (DAG).** For `k ≥ 1`, flow values in
`[0, fmax]` (`fmax = weight_type(max f)`; automatic for float and for integral values): clamping the
weights of any k-route solution to `fmax` gives a *bounded* solution of the same type whose error is
no larger on any non-ignored edge. -/
theorem wmax_adequate (inp : ErrInput) (P : Nat → List Node) (w : Nat → Rat)
    (h : BaseWF inp.fi.base) (hac : Acyclic inp.fi.base) (hk : 1 ≤ inp.k)
    (hf : ∀ e ∈ inp.basicEdges, 0 ≤ inp.fi.f e ∧ inp.fi.f e ≤ inp.fmax)
    (hsol : Solution inp P w) :
    Bounded inp P (clampW inp w) ∧
      ∀ e ∈ inp.basicEdges, absErr inp P (clampW inp w) e ≤ absErr inp P w e :=
  FP.wmax_adequate inp P w h hac hk hf hsol

/-- **(c)+(d): the returned solution is optimal among all k-tuples of routes of the user's graph and
all non-negative weights of the requested type.** -/
theorem klae_optimal (inp : ErrInput) (a : Asg) (h : BaseWF inp.fi.base) (hac : Acyclic inp.fi.base)
    (hcons : inp.fi.cfg.constraints = []) (hlen : inp.fi.cfg.lengths = none) (hk : 1 ≤ inp.k)
    (hfint : inp.fi.weightInt = true → ∀ e ∈ inp.basicEdges, IsInt (inp.fi.f e))
    (hf : ∀ e ∈ inp.basicEdges, 0 ≤ inp.fi.f e ∧ inp.fi.f e ≤ inp.fmax)
    (hscale : ∀ e ∈ inp.basicEdges, 0 ≤ inp.scale e)
    (hsat : Sat a (klaeLP inp))
    (hopt : ∀ a', Sat a' (klaeLP inp) → evalTerms a (klaeLP inp).obj ≤ evalTerms a' (klaeLP inp).obj) :
    ∃ ps : List (List Node),
      decodePaths inp.st (fun e i => a (edgeVar e i)) inp.k = some ps ∧
      ∀ (P' : Nat → List Node) (w' : Nat → Rat),
        (∀ i, i < inp.k → ValidRoute inp.fi.base inp.fi.starts inp.fi.ends (P' i)) →
        (∀ i, i < inp.k → 0 ≤ w' i) → (inp.fi.weightInt = true → ∀ i, i < inp.k → IsInt (w' i)) →
        totalErr inp (fun i => ps.getD i []) (fun i => a (weightsVar i)) ≤ totalErr inp P' w' := by
  obtain ⟨ps, hps, _, hmin⟩ :=
    FP.klae_opt_unbounded inp a h hac hcons hlen hk hfint hf hscale hsat hopt
  refine ⟨ps, hps, fun P' w' hr h0 hint => hmin P' w' ⟨fun i hi => ?_, h0, hint⟩⟩
  exact route_of_validRoute inp.fi.base inp.fi.starts inp.fi.ends h hac _ _ (hr i hi)

/-! ### (e) objective consistency

`reportedObjective` models `get_objective_value()` as it is since fix 1c464ac:
`sum(err * error_scaling.get(e, 1) for e, err in edge_errors.items())`, the error columns read back
from the solver times their scale factors. (Before the fix the method returned the unscaled sum,
which agrees with the solver's objective only if every edge has scale 1 or a zero error column —
`FP.unscaledErrorSum_eq_objective_iff` — so that `is_valid_solution()` rejected the model's own
optimum under `error_scaling`.) -/

/-- **the reported objective equals the solver's objective `Σ scale(e)·ee(e)` — for every assignment
of the columns**, in particular for whatever solution the solver returns -/
theorem objective_consistent (inp : ErrInput) (a : Asg) :
    reportedObjective inp a = evalTerms a (klaeLP inp).obj :=
  FP.objective_consistent inp a

/-- hence the objective clause of `is_valid_solution(tolerance)` —
`abs(get_objective_value() − solver objective) > tolerance · original_k` rejects — never rejects, for
any tolerance ≥ 0 -/
theorem objective_check_passes (inp : ErrInput) (a : Asg) (tol : Rat) (htol : 0 ≤ tol) (originalK : Nat) :
    objectiveCheckPasses inp a tol originalK :=
  FP.objective_check_passes inp a tol htol originalK

/-- **at an optimum the reported objective is the total scaled absolute error recomputed from the
returned paths and weights** (objective consistency + tightness of the error columns), and the
per-edge errors `ee(e)` are the recomputed `|f(e) − Σ_i w_i[e ∈ p_i]|` on every edge of positive scale -/
theorem reported_objective_at_optimum (inp : ErrInput) (a : Asg) (h : BaseWF inp.fi.base)
    (hac : Acyclic inp.fi.base)
    (hcons : inp.fi.cfg.constraints = []) (hlen : inp.fi.cfg.lengths = none)
    (hfint : inp.fi.weightInt = true → ∀ e ∈ inp.basicEdges, IsInt (inp.fi.f e))
    (hscale : ∀ e ∈ inp.basicEdges, 0 ≤ inp.scale e)
    (hsat : Sat a (klaeLP inp))
    (hopt : ∀ a', Sat a' (klaeLP inp) → evalTerms a (klaeLP inp).obj ≤ evalTerms a' (klaeLP inp).obj) :
    ∃ ps : List (List Node),
      decodePaths inp.st (fun e i => a (edgeVar e i)) inp.k = some ps ∧
      reportedObjective inp a = totalErr inp (fun i => ps.getD i []) (fun i => a (weightsVar i)) ∧
      ∀ e ∈ inp.basicEdges, 0 < inp.scale e →
        a (eeVar e) = absErr inp (fun i => ps.getD i []) (fun i => a (weightsVar i)) e := by
  obtain ⟨ps, hps, _, _, htight, hobj⟩ :=
    FP.klae_opt_transfer inp a h hac hcons hlen hfint hscale hsat hopt
  exact ⟨ps, hps, by rw [FP.objective_consistent, hobj], htight⟩

/-- **regression example for fix 1c464ac**: on `a → b → c`, `f = (4, 1)`,
`error_scaling = {(a,b): 1/2}`, `k = 1`, `weight_type = int` the path `a,b,c` with weight 1 and errors
`3, 0` is a satisfying assignment with solver objective `3/2` and reported objective `3/2` (the
pre-fix unscaled sum is `3`) -/
theorem objective_regression_example :
    ∃ a : Asg, Sat a (klaeLP ErrExample.inp) ∧ evalTerms a (klaeLP ErrExample.inp).obj = 3/2 ∧
      reportedObjective ErrExample.inp a = 3/2 ∧ unscaledErrorSum ErrExample.inp a = 3 := by
  obtain ⟨a, hsat, _, _, hee, hobj⟩ := FP.klae_complete ErrExample.inp ErrExample.P ErrExample.w
    ErrExample.base_wf ErrExample.base_acyclic rfl rfl ErrExample.flows_int ErrExample.bounded
  refine ⟨a, hsat, by rw [hobj, ErrExample.totalErr_val],
    by rw [FP.objective_consistent, hobj, ErrExample.totalErr_val], ?_⟩
  unfold unscaledErrorSum
  rw [← ErrExample.sumErr_val]
  exact sum_map_congr _ _ _ hee

/-- … and *every* optimum of that instance has error columns `3` and `0`, solver objective `3/2`
and reported objective `3/2` -/
theorem every_optimum_consistent (a : Asg) (hsat : Sat a (klaeLP ErrExample.inp))
    (hopt : ∀ a', Sat a' (klaeLP ErrExample.inp) →
      evalTerms a (klaeLP ErrExample.inp).obj ≤ evalTerms a' (klaeLP ErrExample.inp).obj) :
    a (eeVar ("a", "b")) = 3 ∧ a (eeVar ("b", "c")) = 0 ∧
      evalTerms a (klaeLP ErrExample.inp).obj = 3/2 ∧ reportedObjective ErrExample.inp a = 3/2 ∧
      unscaledErrorSum ErrExample.inp a = 3 :=
  ErrExample.every_optimum_consistent a hsat hopt

/-! ### non-vacuity -/

/-- the hypotheses of the soundness theorem are satisfiable on a non-trivial instance -/
example : ∃ a, Sat a (klaeLP ErrExample.inp) := by
  obtain ⟨a, h, _⟩ := objective_regression_example
  exact ⟨a, h⟩

/-- … and so are those of the completeness / adequacy theorems -/
example : Bounded ErrExample.inp ErrExample.P ErrExample.w := ErrExample.bounded
example : ∀ e ∈ ErrExample.inp.basicEdges,
    0 ≤ ErrExample.inp.fi.f e ∧ ErrExample.inp.fi.f e ≤ ErrExample.inp.fmax := ErrExample.flows_ok

/-! ## the cyclic class `kLeastAbsErrorsCycles` -/

/-- the repetition cap of an edge of the augmented graph: inside an SCC the floor (since fix fcfd0b0) of
the largest flow value (`0` where the attribute is missing) among the edge, the edges leaving a vertex
reachable from its head and the edges entering a vertex reaching its tail; `1` outside the SCCs -/
theorem klaec_cap (inp : WalkInput) (e : Edge) (he : e ∈ inp.st.g.edges) :
    klaecCap inp e = if isSccEdge inp.st.g e
      then (((lookupD (edgeMaxReachable inp.st.g fun e => (inp.fOpt e).getD 0) e 0).floor : Int) : Rat)
      else 1 :=
  FP.klaecCap_eq inp e he

/-- … an integer in every case (since fix fcfd0b0) -/
theorem klaec_cap_int (inp : WalkInput) (e : Edge) : ∃ z : Int, klaecCap inp e = (z : Rat) :=
  FP.klaecCap_int inp e

/-- **(a) soundness, cyclic class.** For every satisfying assignment of the `kLeastAbsErrorsCycles` LP
on a well-formed user digraph (cycles allowed): the weights lie in `[0, w_max]` and are integral for
`weight_type = int`; every layer decodes to a route of the *user's* graph (empty only if empty walks are
allowed); the traversal counts of the decoded walk (synthetic endpoints put back) are the layer's edge
variables, natural numbers within the repetition caps; `pi(e,i) = w_i · traversals_i(e) ≤ w_max` and
`|f(e) − Σ_i w_i · traversals_i(e)| ≤ ee(e) ≤ w_max` on every non-ignored edge (`ee` integral for
`weight_type = int`); the solver's objective is `Σ_e scale(e)·ee(e)`. -/
theorem klaec_sound (inp : WalkInput) (a : Asg) (h : BaseWF inp.base) (hsat : Sat a (klaecLP inp)) :
    (∀ i, i < inp.k → 0 ≤ a (weightsVar i) ∧ a (weightsVar i) ≤ inp.wmax true ∧
        (inp.weightInt = true → IsInt (a (weightsVar i)))) ∧
    (∀ i, i < inp.k →
        (decodeWalkLayer inp.st a i = [] → inp.cfg.allowEmpty = true) ∧
        (decodeWalkLayer inp.st a i ≠ [] →
          ValidRoute inp.base inp.starts inp.ends (decodeWalkLayer inp.st a i))) ∧
    (∀ i, i < inp.k → ∀ e ∈ inp.st.g.edges,
        traversals (inp.st.source :: decodeWalkLayer inp.st a i ++ [inp.st.sink]) e = multOf a i e ∧
        a (edgeVar e i) = (multOf a i e : Rat) ∧ (multOf a i e : Rat) ≤ klaecCap inp e) ∧
    (∀ e ∈ inp.activeEdges true, ∀ i, i < inp.k →
        a (piVar e i) = a (weightsVar i) * (multOf a i e : Rat) ∧ a (piVar e i) ≤ inp.wmax true) ∧
    (∀ e ∈ inp.activeEdges true,
        LAEC.absErr inp (decodeWalkLayer inp.st a) (fun i => a (weightsVar i)) e ≤ a (eeVar e) ∧
        a (eeVar e) ≤ inp.wmax true ∧ (inp.weightInt = true → IsInt (a (eeVar e)))) ∧
    evalTerms a (klaecLP inp).obj
      = ((inp.activeEdges true).map fun e => inp.scale e * a (eeVar e)).sum :=
  FP.klaec_sound_proof inp a h hsat

/-- the solver's objective at an assignment is `Σ_e scale(e)·ee(e)` over the non-ignored edges -/
theorem klaec_objective (inp : WalkInput) (a : Asg) :
    evalTerms a (klaecLP inp).obj = ((inp.activeEdges true).map fun e => inp.scale e * a (eeVar e)).sum :=
  FP.klaecLP_obj inp a

/-- in a satisfying assignment every multiplicity on a non-ignored edge fits into the
`klaecBits inp = ⌈log2(w_max + 1)⌉` bit columns of its product block -/
theorem klaec_mult_bits (inp : WalkInput) (a : Asg) (hsat : Sat a (klaecLP inp))
    (e : Edge) (he : e ∈ inp.activeEdges true) (i : Nat) (hi : i < inp.k) :
    multOf a i e < 2 ^ klaecBits inp :=
  FP.klaec_mult_bits inp a hsat e he i hi

/-- a traversal count of at most `w_max` fits into the bits (convenience for `LaecWithinCaps.multBits`) -/
theorem klaec_bits_of_le (inp : WalkInput) (n : Nat) (h : (n : Rat) ≤ inp.wmax true) :
    n < 2 ^ klaecBits inp :=
  FP.klaec_lt_bits_of_le _ n h

/-- **(b) restricted completeness, cyclic class.** `k ≥ 1` weighted source-to-sink walks of the augmented
graph that are *within the caps* (`LaecWithinCaps`: repetition caps, weights in `[0, w_max]` of the
requested type, traversal counts fitting the bits, **every product `w_i · traversals_i(e) ≤ w_max` and
every error `|f(e) − Σ…| ≤ w_max`** on the non-ignored edges, subset constraints covered) extend to the
satisfying assignment `klaecWalkAsg` of the whole LP (all auxiliary columns included) with these
traversal counts and weights, tight error columns and objective `Σ scale(e)·|f(e) − Σ…|`.
`KlaecNameInj`: the product blocks have pairwise different names (the model identifies a column with
its name); `hfint`: integral flow values for `weight_type = int` (integer error columns). -/
theorem klaec_complete_within_caps (inp : WalkInput) (walk : Nat → List Node) (w : Nat → Rat)
    (hb : BaseWF inp.base) (hk : 0 < inp.k) (hinj : KlaecNameInj inp)
    (hfint : inp.weightInt = true → ∀ e ∈ inp.activeEdges true, IsInt (inp.f e))
    (h : LaecWithinCaps inp walk w) :
    Sat (klaecWalkAsg inp walk w) (klaecLP inp) ∧
      (∀ i e, multOf (klaecWalkAsg inp walk w) i e
        = traversals (inp.st.source :: walk i ++ [inp.st.sink]) e) ∧
      (∀ i, klaecWalkAsg inp walk w (weightsVar i) = w i) ∧
      (∀ e, klaecWalkAsg inp walk w (eeVar e) = LAEC.absErr inp walk w e) ∧
      evalTerms (klaecWalkAsg inp walk w) (klaecLP inp).obj = LAEC.totalErr inp walk w :=
  FP.klaec_complete_within_caps_proof inp walk w hb hk hinj hfint h

/-- … and conversely (no empty walks, no subset constraints) the decoded family of every satisfying
assignment is within the caps: `LaecWithinCaps` describes exactly what the LP can represent -/
theorem klaec_decoded_within_caps (inp : WalkInput) (a : Asg) (hb : BaseWF inp.base)
    (hae : inp.cfg.allowEmpty = false) (hcons : inp.cfg.constraints = [])
    (hsat : Sat a (klaecLP inp)) :
    LaecWithinCaps inp (decodeWalkLayer inp.st a) (fun i => a (weightsVar i)) :=
  FP.klaec_decoded_within_caps inp a hb hae hcons hsat

/-- **(c) optimum transfer, cyclic class.** For an optimum `a` of the LP (non-negative scales): the total
scaled absolute error of the decoded walks is at most the solver's objective, which is at most the total
scaled absolute error of *every* family of `k` weighted walks within the caps — the returned solution is
optimal among all bounded families. -/
theorem klaec_opt_within_caps (inp : WalkInput) (a : Asg) (hb : BaseWF inp.base) (hk : 0 < inp.k)
    (hinj : KlaecNameInj inp)
    (hfint : inp.weightInt = true → ∀ e ∈ inp.activeEdges true, IsInt (inp.f e))
    (hscale : ∀ e ∈ inp.activeEdges true, 0 ≤ inp.scale e)
    (hsat : Sat a (klaecLP inp))
    (hopt : ∀ a', Sat a' (klaecLP inp) → evalTerms a (klaecLP inp).obj ≤ evalTerms a' (klaecLP inp).obj) :
    LAEC.totalErr inp (decodeWalkLayer inp.st a) (fun i => a (weightsVar i))
        ≤ evalTerms a (klaecLP inp).obj ∧
    ∀ walk' w', LaecWithinCaps inp walk' w' →
      evalTerms a (klaecLP inp).obj ≤ LAEC.totalErr inp walk' w' ∧
      LAEC.totalErr inp (decodeWalkLayer inp.st a) (fun i => a (weightsVar i))
        ≤ LAEC.totalErr inp walk' w' :=
  FP.klaec_opt_within_caps_proof inp a hb hk hinj hfint hscale hsat hopt

/-- **(c) tight form** (no empty walks, no subset constraints): the decoded family of an optimum is itself
within the caps, the solver's objective *is* its total scaled absolute error, and the error columns are
tight (`ee(e) = |f(e) − Σ…|`) on every edge of positive scale. -/
theorem klaec_opt_tight (inp : WalkInput) (a : Asg) (hb : BaseWF inp.base) (hk : 0 < inp.k)
    (hinj : KlaecNameInj inp)
    (hae : inp.cfg.allowEmpty = false) (hcons : inp.cfg.constraints = [])
    (hfint : inp.weightInt = true → ∀ e ∈ inp.activeEdges true, IsInt (inp.f e))
    (hscale : ∀ e ∈ inp.activeEdges true, 0 ≤ inp.scale e)
    (hsat : Sat a (klaecLP inp))
    (hopt : ∀ a', Sat a' (klaecLP inp) → evalTerms a (klaecLP inp).obj ≤ evalTerms a' (klaecLP inp).obj) :
    LaecWithinCaps inp (decodeWalkLayer inp.st a) (fun i => a (weightsVar i)) ∧
    evalTerms a (klaecLP inp).obj
      = LAEC.totalErr inp (decodeWalkLayer inp.st a) (fun i => a (weightsVar i)) ∧
    (∀ e ∈ inp.activeEdges true, 0 < inp.scale e →
      a (eeVar e) = LAEC.absErr inp (decodeWalkLayer inp.st a) (fun i => a (weightsVar i)) e) :=
  FP.klaec_opt_tight_proof inp a hb hk hinj hae hcons hfint hscale hsat hopt

/-- **what the bound cuts off — the code falsifies optimality on cyclic inputs** (finding
C07-laecycles-wmax-cuts-optimum; instance `s → a ⇄ b`, additional end `b`, `f = (4, 0, 4)`,
`error_scaling = {(a,b): 1/4}`, `k = 1`, `weight_type = int`, hence `w_max = 4`):

* the LP the constructor builds has optimum `5`: the assignment of the walk `s a b a b` with weight `2`
  is satisfying with objective `5`, and *every* satisfying assignment has objective at least `5`;
* yet the same walk — a route of the user's graph within the repetition caps — with the integer weight
  `4 ≤ w_max` has total scaled absolute error `2`;
* that family is not within the caps (`pi(a,b) = 4·2 = 8 > w_max`): it is exactly what the bound on the
  products excludes.

Replayed on the real code by `harness/props/c07.py` (returns error 5, brute force 2). -/
theorem klaec_wmax_cuts_optimum :
    (Sat (klaecWalkAsg CycleWitness.inp CycleWitness.walk (fun _ => 2)) (klaecLP CycleWitness.inp) ∧
      evalTerms (klaecWalkAsg CycleWitness.inp CycleWitness.walk (fun _ => 2))
        (klaecLP CycleWitness.inp).obj = 5) ∧
    (∀ a, Sat a (klaecLP CycleWitness.inp) → 5 ≤ evalTerms a (klaecLP CycleWitness.inp).obj) ∧
    (ValidRoute CycleWitness.inp.base CycleWitness.inp.starts CycleWitness.inp.ends (CycleWitness.walk 0) ∧
      (∀ e ∈ CycleWitness.inp.st.g.edges,
        (traversals (CycleWitness.inp.st.source :: CycleWitness.walk 0 ++ [CycleWitness.inp.st.sink]) e : Rat)
          ≤ klaecCap CycleWitness.inp e) ∧
      (4 : Rat) ≤ CycleWitness.inp.wmax true ∧
      LAEC.totalErr CycleWitness.inp CycleWitness.walk (fun _ => 4) = 2) ∧
    ¬ LaecWithinCaps CycleWitness.inp CycleWitness.walk (fun _ => 4) :=
  ⟨⟨CycleWitness.laec_sat, CycleWitness.laec_obj⟩, CycleWitness.laec_lp_lower_bound,
    ⟨CycleWitness.walk_valid, CycleWitness.laec_better_family.2.2, CycleWitness.laec_better_family.2.1,
      CycleWitness.laec_better_family.1⟩,
    CycleWitness.laec_cut_off⟩

/-! ### non-vacuity (cyclic class) -/

/-- (a) applies to a concrete satisfying assignment of a cyclic instance (42 columns, 71 rows, checked
column by column and row by row) … -/
example := klaec_sound CycleWitness.inp _ CycleWitness.base_wf CycleWitness.laec_sat_checked

/-- … which decodes to the walk `s a b a b` (once round the cycle `a ⇄ b`) and has objective `5` -/
example : decodeWalkLayer CycleWitness.inp.st
    (klaecWalkAsg CycleWitness.inp CycleWitness.walk (fun _ => 2)) 0 = ["s", "a", "b", "a", "b"] :=
  CycleWitness.laec_decode

example : evalTerms (klaecWalkAsg CycleWitness.inp CycleWitness.walk (fun _ => 2))
    (klaecLP CycleWitness.inp).obj = 5 := by
  rw [(klaec_complete_within_caps CycleWitness.inp CycleWitness.walk _ CycleWitness.base_wf (by decide)
    CycleWitness.laec_names CycleWitness.flows_int CycleWitness.laec_within).2.2.2.2]
  exact CycleWitness.laec_totalErr

/-- the hypotheses of (b) hold for that family -/
example := klaec_complete_within_caps CycleWitness.inp CycleWitness.walk _ CycleWitness.base_wf
  (by decide) CycleWitness.laec_names CycleWitness.flows_int CycleWitness.laec_within

/-- (c) applies to a true optimum of the instance (`CycleWitness.laec_optimal`: objective `5`, minimal) -/
example := klaec_opt_within_caps CycleWitness.inp _ CycleWitness.base_wf (by decide)
  CycleWitness.laec_names CycleWitness.flows_int CycleWitness.scale_nonneg CycleWitness.laec_sat
  CycleWitness.laec_optimal

example := klaec_opt_tight CycleWitness.inp _ CycleWitness.base_wf (by decide)
  CycleWitness.laec_names rfl rfl CycleWitness.flows_int CycleWitness.scale_nonneg CycleWitness.laec_sat
  CycleWitness.laec_optimal

/-- the decoded family of the concrete satisfying assignment is within the caps -/
example := klaec_decoded_within_caps CycleWitness.inp _ CycleWitness.base_wf rfl rfl
  CycleWitness.laec_sat_checked


/-! ## the given-weights branch (`solution_weights_superset`)

`klaeGivenLP inp ws original_k` is the LP that `kLeastAbsErrors.__init__` hands to the solver when
`solution_weights_superset = ws` is given (`_encode_leastabserrors_decomposition_with_given_weights` +
`_encode_objective`; K2 LP-dump equality). The constructor sets `k = len(ws)` and allows empty paths:
`inp.forGiven ws`; the theorems hold for every `inp` (for `inp.forGiven ws` in particular).
Vocabulary (`FP/Spec/ErrGiven.lean`): `givenW ws i` — the `i`-th given number, the weight of layer `i`;
`usedCount k P` — the number of non-empty layers; a *choice* `P` of the given weights by index
(`P i = []`: the `i`-th number is not used); `LAE.GivenChoice inp original_k P` — every layer is the empty
path or a route, at most `original_k` layers used; `LAE.GivenBounded inp ws original_k P` — … and every
per-edge error `|f(e) − Σ_{i used} ws[i][e ∈ P i]| ≤ w_max = max(k·weight_type(max f), max ws)`, the bound of
the error columns. -/

/-- **(a) soundness, given weights.** For every satisfying assignment of the given-weights LP on a
well-formed user DAG: every layer decodes to the empty path or a route (`GivenChoice.routes`), at most
`original_k` layers are non-empty (`GivenChoice.cap`, the row `max_paths_original_k_paths`); the non-empty
ones are routes of the *user's* graph; the edge columns are the route indicators; with layer `i` carrying
the `i`-th given number, `|f(e) − Σ_{i used} ws[i][e ∈ p_i]| ≤ ee(e) ≤ w_max` on every non-ignored edge
(`ee` integral for `weight_type = int`); the solver's objective is `Σ_e scale(e)·ee(e)`. -/
theorem klae_given_sound (inp : ErrInput) (ws : List Rat) (originalK : Nat) (a : Asg)
    (h : BaseWF inp.fi.base) (hac : Acyclic inp.fi.base)
    (hsat : Sat a (klaeGivenLP inp ws originalK)) :
    ∃ ps : List (List Node),
      decodePaths inp.st (fun e i => a (edgeVar e i)) inp.k = some ps ∧ ps.length = inp.k ∧
      GivenChoice inp originalK (fun i => ps.getD i []) ∧
      (∀ i, i < inp.k → ps.getD i [] ≠ [] →
        ValidRoute inp.fi.base inp.fi.starts inp.fi.ends (ps.getD i []) ∧ (ps.getD i []).Nodup) ∧
      (∀ i, i < inp.k → ∀ e ∈ inp.st.g.edges, a (edgeVar e i) = trav inp.st (ps.getD i []) e) ∧
      (∀ e ∈ inp.basicEdges,
        absErr inp (fun i => ps.getD i []) (givenW ws) e ≤ a (eeVar e) ∧
        a (eeVar e) ≤ inp.wmax (some ws) ∧ (inp.fi.weightInt = true → IsInt (a (eeVar e)))) ∧
      evalTerms a (klaeGivenLP inp ws originalK).obj
        = (inp.basicEdges.map fun e => inp.scale e * a (eeVar e)).sum :=
  FP.klae_given_sound inp ws originalK a h hac hsat

/-- **(b) completeness, given weights.** Every choice of at most `original_k` of the given weights (by
index) with routes whose errors are at most `w_max` (the `ee` column bound) extends to a satisfying
assignment with `ee(e) = |f(e) − Σ…|` and objective `Σ scale(e)·|f(e) − Σ…|`. Scope as for `klae_complete`
(no subpath constraints, unit lengths); `hfint`: with `weight_type = int` the error columns are integer
columns, so the flow values and the given numbers have to be integers. -/
theorem klae_given_complete (inp : ErrInput) (ws : List Rat) (originalK : Nat) (P : Nat → List Node)
    (h : BaseWF inp.fi.base) (hac : Acyclic inp.fi.base)
    (hcons : inp.fi.cfg.constraints = []) (hlen : inp.fi.cfg.lengths = none)
    (hfint : inp.fi.weightInt = true →
      (∀ e ∈ inp.basicEdges, IsInt (inp.fi.f e)) ∧ ∀ i, i < inp.k → IsInt (givenW ws i))
    (hb : GivenBounded inp ws originalK P) :
    ∃ a : Asg, Sat a (klaeGivenLP inp ws originalK) ∧
      (∀ i, i < inp.k → ∀ e ∈ inp.st.g.edges, a (edgeVar e i) = trav inp.st (P i) e) ∧
      (∀ e ∈ inp.basicEdges, a (eeVar e) = absErr inp P (givenW ws) e) ∧
      evalTerms a (klaeGivenLP inp ws originalK).obj = totalErr inp P (givenW ws) :=
  FP.klae_given_complete inp ws originalK P h hac hcons hlen hfint hb

/-- **(c) optimum transfer, given weights.** An assignment that is optimal for the LP decodes to a bounded
choice minimising the total scaled absolute error among all bounded choices of at most `original_k` of the
given weights with routes; the error columns are tight on every edge of positive scale, and the solver's
objective *is* the total scaled error of the returned choice. -/
theorem klae_given_opt_transfer (inp : ErrInput) (ws : List Rat) (originalK : Nat) (a : Asg)
    (h : BaseWF inp.fi.base) (hac : Acyclic inp.fi.base)
    (hcons : inp.fi.cfg.constraints = []) (hlen : inp.fi.cfg.lengths = none)
    (hfint : inp.fi.weightInt = true →
      (∀ e ∈ inp.basicEdges, IsInt (inp.fi.f e)) ∧ ∀ i, i < inp.k → IsInt (givenW ws i))
    (hscale : ∀ e ∈ inp.basicEdges, 0 ≤ inp.scale e)
    (hsat : Sat a (klaeGivenLP inp ws originalK))
    (hopt : ∀ a', Sat a' (klaeGivenLP inp ws originalK) →
      evalTerms a (klaeGivenLP inp ws originalK).obj ≤ evalTerms a' (klaeGivenLP inp ws originalK).obj) :
    ∃ ps : List (List Node),
      decodePaths inp.st (fun e i => a (edgeVar e i)) inp.k = some ps ∧
      GivenBounded inp ws originalK (fun i => ps.getD i []) ∧
      (∀ P', GivenBounded inp ws originalK P' →
        totalErr inp (fun i => ps.getD i []) (givenW ws) ≤ totalErr inp P' (givenW ws)) ∧
      (∀ e ∈ inp.basicEdges, 0 < inp.scale e →
        a (eeVar e) = absErr inp (fun i => ps.getD i []) (givenW ws) e) ∧
      evalTerms a (klaeGivenLP inp ws originalK).obj
        = totalErr inp (fun i => ps.getD i []) (givenW ws) :=
  FP.klae_given_opt_transfer inp ws originalK a h hac hcons hlen hfint hscale hsat hopt

/-- **(d) when the bound `w_max` loses nothing.** If the given numbers are non-negative and *sum to at most
`w_max`* (e.g. none of the `len(ws)` numbers exceeds the largest flow value) and the flow values lie in
`[0, w_max]`, every choice is bounded. -/
theorem klae_given_adequate (inp : ErrInput) (ws : List Rat) (originalK : Nat) (P : Nat → List Node)
    (h : BaseWF inp.fi.base) (hac : Acyclic inp.fi.base)
    (hw0 : ∀ i, i < inp.k → 0 ≤ givenW ws i)
    (hsum : ((List.range inp.k).map (givenW ws)).sum ≤ inp.wmax (some ws))
    (hf : ∀ e ∈ inp.basicEdges, 0 ≤ inp.fi.f e ∧ inp.fi.f e ≤ inp.wmax (some ws))
    (hch : GivenChoice inp originalK P) : GivenBounded inp ws originalK P :=
  FP.klae_given_adequate inp ws originalK P h hac hw0 hsum hf hch

/-- **(c)+(d): under that hypothesis the returned choice is optimal among all choices** of at most
`original_k` of the given weights (by index) with routes of the user's graph. -/
theorem klae_given_optimal (inp : ErrInput) (ws : List Rat) (originalK : Nat) (a : Asg)
    (h : BaseWF inp.fi.base) (hac : Acyclic inp.fi.base)
    (hcons : inp.fi.cfg.constraints = []) (hlen : inp.fi.cfg.lengths = none)
    (hfint : inp.fi.weightInt = true →
      (∀ e ∈ inp.basicEdges, IsInt (inp.fi.f e)) ∧ ∀ i, i < inp.k → IsInt (givenW ws i))
    (hscale : ∀ e ∈ inp.basicEdges, 0 ≤ inp.scale e)
    (hw0 : ∀ i, i < inp.k → 0 ≤ givenW ws i)
    (hsum : ((List.range inp.k).map (givenW ws)).sum ≤ inp.wmax (some ws))
    (hf : ∀ e ∈ inp.basicEdges, 0 ≤ inp.fi.f e ∧ inp.fi.f e ≤ inp.wmax (some ws))
    (hsat : Sat a (klaeGivenLP inp ws originalK))
    (hopt : ∀ a', Sat a' (klaeGivenLP inp ws originalK) →
      evalTerms a (klaeGivenLP inp ws originalK).obj ≤ evalTerms a' (klaeGivenLP inp ws originalK).obj) :
    ∃ ps : List (List Node),
      decodePaths inp.st (fun e i => a (edgeVar e i)) inp.k = some ps ∧
      usedCount inp.k (fun i => ps.getD i []) ≤ originalK ∧
      ∀ P' : Nat → List Node,
        (∀ i, i < inp.k → P' i = [] ∨ ValidRoute inp.fi.base inp.fi.starts inp.fi.ends (P' i)) →
        usedCount inp.k P' ≤ originalK → inp.fi.cfg.allowEmpty = true →
        totalErr inp (fun i => ps.getD i []) (givenW ws) ≤ totalErr inp P' (givenW ws) :=
  FP.klae_given_optimal inp ws originalK a h hac hcons hlen hfint hscale hw0 hsum hf hsat hopt

/-- **what the bound cuts off — the code falsifies optimality when the given weights exceed the flow
values** (finding C07-given-weights-wmax-cuts-optimum; instance `a → b`, `b → c → c2`, `b → d → d2`,
`f(a,b) = 0`, `f = 10` elsewhere, `k = 2`, `weight_type = int`, `solution_weights_superset = [12, 12]`,
hence `w_max = max(2·10, 12) = 20`):

* the LP the constructor builds has optimum `36`: a satisfying assignment with objective `36` exists (one
  route, weight 12) and *every* satisfying assignment has objective at least `36`;
* yet the choice using both given weights on the routes `a b c c2` and `a b d d2` — routes of the user's
  graph, `2 ≤ original_k` layers used — has total absolute error `32`;
* that choice is not bounded (`|0 − 24| = 24 > w_max`): it is exactly what the bound on the error column
  of `(a,b)` excludes.

Replayed on the real code by `harness/props/c07.py` (returns error 36, brute force 32). -/
theorem klae_given_wmax_cuts_optimum :
    (∃ a : Asg, Sat a (klaeGivenLP GivenExample.inp GivenExample.ws 2) ∧
      evalTerms a (klaeGivenLP GivenExample.inp GivenExample.ws 2).obj = 36) ∧
    (∀ a, Sat a (klaeGivenLP GivenExample.inp GivenExample.ws 2) →
      36 ≤ evalTerms a (klaeGivenLP GivenExample.inp GivenExample.ws 2).obj) ∧
    (GivenChoice GivenExample.inp 2 GivenExample.P2 ∧
      ValidRoute GivenExample.inp.fi.base GivenExample.inp.fi.starts GivenExample.inp.fi.ends
        (GivenExample.P2 0) ∧
      ValidRoute GivenExample.inp.fi.base GivenExample.inp.fi.starts GivenExample.inp.fi.ends
        (GivenExample.P2 1) ∧
      totalErr GivenExample.inp GivenExample.P2 (givenW GivenExample.ws) = 32) ∧
    ¬ GivenBounded GivenExample.inp GivenExample.ws 2 GivenExample.P2 :=
  ⟨GivenExample.sat36, GivenExample.lp_lower_bound,
    ⟨GivenExample.choice2, GivenExample.valid_pc, GivenExample.valid_pd, GivenExample.total2⟩,
    GivenExample.not_bounded2⟩

/-! ### non-vacuity (given weights) -/

/-- `forGiven` is the constructor's treatment of `solution_weights_superset`: `k = len(ws)` (so `givenW ws i` is
the `i`-th given number for every layer `i < k`) and empty paths allowed -/
example (inp : ErrInput) (ws : List Rat) :
    (inp.forGiven ws).k = ws.length ∧ (inp.forGiven ws).fi.cfg.allowEmpty = true := ⟨rfl, rfl⟩

/-- the instance is what the constructor makes of the user's call (`k = len(ws)`, empty paths allowed) -/
example : GivenExample.inp = ({ fi := GivenExample.fi0 } : ErrInput).forGiven GivenExample.ws := rfl
example : GivenExample.inp.k = 2 ∧ GivenExample.inp.fi.cfg.allowEmpty = true := ⟨rfl, rfl⟩

/-- the hypotheses of (b) hold for the one-route choice (layer 0 = `a b c c2`, layer 1 unused), total error 36 -/
example : LAE.GivenBounded GivenExample.inp GivenExample.ws 2 GivenExample.P1 := GivenExample.bounded1
example : LAE.totalErr GivenExample.inp GivenExample.P1 (givenW GivenExample.ws) = 36 := GivenExample.total1

/-- a satisfying assignment of the given-weights LP of that instance (21 columns, 26 rows), objective 36:
the hypotheses of (a) are satisfiable -/
example : ∃ a, Sat a (klaeGivenLP GivenExample.inp GivenExample.ws 2) ∧
    evalTerms a (klaeGivenLP GivenExample.inp GivenExample.ws 2).obj = 36 := GivenExample.sat36

/-- (c) applies to a true optimum of the instance (objective `36`, minimal by `lp_lower_bound`) -/
example : ∃ a, Sat a (klaeGivenLP GivenExample.inp GivenExample.ws 2) ∧
    ∀ a', Sat a' (klaeGivenLP GivenExample.inp GivenExample.ws 2) →
      evalTerms a (klaeGivenLP GivenExample.inp GivenExample.ws 2).obj
        ≤ evalTerms a' (klaeGivenLP GivenExample.inp GivenExample.ws 2).obj := by
  obtain ⟨a, hsat, hobj⟩ := GivenExample.sat36
  exact ⟨a, hsat, fun a' h' => by rw [hobj]; exact GivenExample.lp_lower_bound a' h'⟩

/-- the hypotheses of (d) are satisfiable: with the given numbers `[4, 6]` on the same graph
`Σ ws = 10 ≤ w_max = 20` -/
example : ((List.range GivenExample.inp.k).map (givenW [4, 6])).sum ≤ GivenExample.inp.wmax (some [4, 6]) := by
  have h1 : GivenExample.inp.wmax (some [4, 6])
      = max ((GivenExample.inp.k : Rat) * GivenExample.inp.fmax) (listMax [4, 6]) := rfl
  have h2 : listMax ([4, 6] : List Rat) = 6 := by decide
  have h3 : ((GivenExample.inp.k : Nat) : Rat) = 2 := by decide
  rw [h1, h2, h3, GivenExample.fmax10, GivenExample.range_k, Rat.max_def]
  show (4 : Rat) + (6 + 0) ≤ _
  split <;> grind


end FP.Props.C07
