import FP.Model.Store
import FP.Model.Generated.Aliasing
/-!
# C18 — a model's result depends only on its own arguments; caller data is never mutated

Stated over `FP.Generated.aliasTable`, the aliasing table that `harness/extract.py` reads off the current
source of flowpaths (regenerated on every run; the kernel re-checks the table theorems each time).

* `no_write_through_alias` — every write through a reference that may be the caller's object is one of
  the literal, documented exceptions `knownBad` (mirroring `known_findings.json`). A *new* write through
  an alias in /repo makes this theorem fail; repairing one leaves a stale, harmless entry.
* `no_mutable_default_written` — likewise for the shared default objects of `= {}` / `= []` parameters.
* `store_unchanged`, `history_independent` — on the object-store semantics of `FP.Model.Store`: after any
  history of uses of classes whose rows list no caller-visible write, every caller-visible object has
  the value it had before, and a model computes the same result as on the untouched heap.
* `getters_idempotent` — every `get_solution` whose computing path ends in a `return` answers the same
  when called again; the classes whose computing path falls off the end are the literal list
  `knownFallsOff`.
-/
namespace FP.Props.C18
open FP.Tables FP.Store FP.Generated

def allWrites : List WriteSite := aliasTable.flatMap (·.writes)
def allDefaults : List MutableDefault := aliasTable.flatMap (·.defaults)

/-- parameters documented as *output* parameters ("Dictionary to store solve statistics"): writing into
the caller's object is their purpose -/
def outParams : List String := ["solve_statistics"]

/-- (class, parameter): the class writes into the object the caller passed — the currently failing
entries, one per root cause in `known_findings.json`. Empty on the current tree (repaired in /repo:
c89801b `dict(optimization_options or {})`, 76a8f62 `dict(max_edge_repetition_dict)`): every write through
an alias of a caller object that appears in the regenerated table breaks `no_write_through_alias`. -/
def knownBad : List (String × String) := []

/-- (class, function, parameter): a shared default object (`= {}`) is written. Empty on the current tree
(/repo 9ad156a: `solve_statistics: dict = None`). -/
def knownBadDefaults : List (String × String × String) := []

/-- classes whose `get_solution` computing path does not end in `return`. Empty on the current tree
(/repo b8cab9d). -/
def knownFallsOff : List String := []

/-- **no_write_through_alias** -/
theorem no_write_through_alias :
    ∀ w ∈ allWrites, w.viaCaller = true → w.param ∉ outParams → (w.cls, w.param) ∈ knownBad := by
  decide +kernel

/-- **no_mutable_default_written** (the signatures' own defaults) -/
theorem no_mutable_default_written :
    ∀ d ∈ allDefaults, d.written = true → (d.cls, d.func, d.param) ∈ knownBadDefaults := by
  decide +kernel

/-- no class reaches, through an inner call that omits an argument, the default object of another
signature -/
theorem no_inner_default_written : ∀ w ∈ allWrites, w.viaDefault = false := by
  decide +kernel

/-- the remaining writes through an alias concern one internal list (`NodeExpandedDiGraph._edges_to_ignore`,
extended with `+=` by the node branches of the constructors) — not caller data, recorded as latent -/
theorem internal_alias_writes :
    ∀ w ∈ allWrites, w.viaCaller = false → w.viaDefault = false →
      w.param = "NodeExpandedDiGraph._edges_to_ignore" := by
  decide +kernel

/-- the classes of the current table without any caller-visible write -/
def cleanClasses : List String := (aliasTable.filter cleanRow).map (·.cls)

theorem cleanClasses_isClean : ∀ c ∈ cleanClasses, isClean aliasTable c = true := by
  decide +kernel

/-- **store_unchanged** on the current table: any history of constructions / solves of clean classes,
sharing graphs, option dictionaries, constraint and ignore lists in any way, leaves every caller-visible
object as it was — whatever the code does within its may-write set (`eff`) -/
theorem store_unchanged {V} (eff : Construction → Ref → V → V) (h : List Construction) (s : Store V)
    (hc : ∀ c ∈ h, c.cls ∈ cleanClasses) : ∀ r, run aliasTable eff s h r = s r :=
  FP.Store.store_unchanged aliasTable eff h s (fun c hm => cleanClasses_isClean c.cls (hc c hm))

/-- **history_independent**: results are pure functions of the argument values, so a model built after
such a history returns what it returns when built first -/
theorem history_independent {V R} (eff : Construction → Ref → V → V) (f : String → List (String × V) → R)
    (h : List Construction) (s : Store V) (c : Construction) (hc : ∀ c' ∈ h, c'.cls ∈ cleanClasses) :
    resultOf f (run aliasTable eff s h) c = resultOf f s c :=
  result_history_independent_clean aliasTable eff f h s c
    (fun c' hm => cleanClasses_isClean c'.cls (hc c' hm))

/-- for the classes that are *not* clean the damage is confined: a reference only changes if it was
bound to a parameter listed in `knownBad` (or an output parameter) -/
theorem dirty_confined (c : Construction) (r : Ref) (hw : mayWrite aliasTable c r = true)
    (hk : c.cls ∈ aliasTable.map (·.cls)) :
    ∃ a ∈ c.args, a.2 = r ∧ (a.1 ∈ outParams ∨ (c.cls, a.1) ∈ knownBad) := by
  unfold mayWrite at hw
  cases hl : lookup aliasTable c.cls with
  | none =>
    exfalso
    unfold lookup at hl
    have := List.find?_eq_none.1 hl
    obtain ⟨ca, hca, hcls⟩ := List.mem_map.1 hk
    exact absurd (by simpa using hcls) (by simpa using this ca hca)
  | some ca =>
    simp only [hl] at hw
    obtain ⟨a, ha, hcond⟩ := List.any_eq_true.1 hw
    simp only [Bool.and_eq_true, decide_eq_true_eq, List.contains_iff_mem] at hcond
    obtain ⟨hr, hp⟩ := hcond
    refine ⟨a, ha, hr, ?_⟩
    unfold writtenParams at hp
    obtain ⟨w, hwmem, hwp⟩ := List.mem_map.1 hp
    obtain ⟨hwin, hvia⟩ := List.mem_filter.1 hwmem
    have hfound := List.find?_some hl
    have hmemtbl : ca ∈ aliasTable := List.mem_of_find?_eq_some hl
    have hall : w ∈ allWrites := List.mem_flatMap.2 ⟨ca, hmemtbl, hwin⟩
    have hrow : ∀ ca ∈ aliasTable, ∀ w ∈ ca.writes, w.cls = ca.cls := by decide +kernel
    have hwcls : w.cls = c.cls := by
      rw [hrow ca hmemtbl w hwin]; simpa using hfound
    by_cases hout : w.param ∈ outParams
    · left; rw [← hwp]; exact hout
    · right
      have := no_write_through_alias w hall hvia hout
      rw [← hwp, ← hwcls]; exact this

/-- **getters_idempotent**: for every class of the table outside `knownFallsOff`, calling `get_solution()`
again returns what the previous call returned (from any cache state, for any computed value) -/
theorem getters_fallsOff_known : ∀ ca ∈ aliasTable, ca.getter.fallsOff = true → ca.cls ∈ knownFallsOff := by
  decide +kernel

theorem getters_idempotent {α} (ca : ClassAlias) (hca : ca ∈ aliasTable) (hk : ca.cls ∉ knownFallsOff)
    (compute : α) (st : GetterState α) :
    (getSolution ca.getter compute (getSolution ca.getter compute st).2).1
      = (getSolution ca.getter compute st).1 := by
  apply getter_idempotent
  cases h : ca.getter.fallsOff with
  | false => rfl
  | true => exact absurd (getters_fallsOff_known ca hca h) hk

/-! ### non-vacuity

Examples on the regenerated table may only state what stays true when a listed defect is repaired in
/repo (a repaired defect must leave the build intact); what the store model says about a class *with* a
write through the caller's object is shown on a literal fixture. -/

example : "kFlowDecomp" ∈ cleanClasses ∧ "kPathCover" ∈ cleanClasses ∧ "MinFlowDecomp" ∈ cleanClasses := by
  decide +kernel
example : allWrites.length ≥ 10 ∧ allDefaults.length ≥ 60 := by decide +kernel
/-- a history sharing one options dict (ref 0) and one graph (ref 1) between two clean classes -/
example (eff : Construction → Ref → Nat → Nat) (s : Store Nat) :
    run aliasTable eff s [⟨"kFlowDecomp", [("optimization_options", 0), ("G", 1)]⟩,
                           ⟨"kPathCover", [("optimization_options", 0), ("G", 1)]⟩] 0 = s 0 :=
  store_unchanged eff _ s (by decide +kernel) 0

/-- fixture: a class that keeps `optimization_options or {}` and writes a key (the shape of the findings
`C18-options-alias-*`), and a getter without `return` on its computing path (`C18-kFlowDecomp-get-solution-none`) -/
def fixture : List ClassAlias :=
  [{ cls := "Fixture",
     stores := [⟨"Fixture", "optimization_options", "optimization_options", .aliasOrEmpty⟩],
     writes := [⟨"Fixture", "Fixture.__init__", "self.optimization_options", "optimization_options",
                 "[trusted_edges_for_safety]", "[]=", true, false, true⟩],
     defaults := [], delegates := [], getter := ⟨"Fixture", true, true, true⟩ }]

/-- the table predicts the damage: the shared dict (ref 0) may change, the graph (ref 1) cannot -/
example : mayWrite fixture ⟨"Fixture", [("optimization_options", 0), ("G", 1)]⟩ 0 = true ∧
          mayWrite fixture ⟨"Fixture", [("optimization_options", 0), ("G", 1)]⟩ 1 = false := by decide
/-- and with an effect that adds one key the heap really differs after the construction -/
example : run fixture (fun _ _ v => v + 1) (fun _ => 0) [⟨"Fixture", [("optimization_options", 0), ("G", 1)]⟩] 0 = 1 := by
  decide
example : isClean fixture "Fixture" = false := by decide
/-- the getter defect: `None` on the computing call, the data on the next one -/
example : (getSolution (⟨"Fixture", true, true, true⟩ : GetterFact) 7 ⟨none⟩).1 = none ∧
    (getSolution (⟨"Fixture", true, true, true⟩ : GetterFact) 7
      (getSolution (⟨"Fixture", true, true, true⟩ : GetterFact) 7 ⟨none⟩).2).1 = some 7 :=
  getter_first_call_none _ 7 rfl rfl

end FP.Props.C18
