import FP.Model.Search
import FP.Proofs.Search
/-!
# C13 — solved means proven optimal; inconclusive solver runs never yield an answer

`σ` ranges over *all* status scripts (every position at which the solver may give up),
`lo`/`hi` over all search ranges; nothing is bounded.
-/
namespace FP.Props.C13
open FP.Search

/-! ### a single k-model -/

/-- `get_model_status`: the custom-timeout flag overrides whatever the backend reports -/
def modelStatus (didTimeout : Bool) (native : Status) : Status :=
  if didTimeout then .other else native

/-- `solve()` of the abstract models sets `_is_solved` iff the status is `kOptimal` -/
def isSolvedAfter (didTimeout : Bool) (native : Status) : Bool :=
  decide (modelStatus didTimeout native = .optimal)

/-- `get_solution` / `get_objective_value` go through `check_is_solved` -/
def getter {α} (solved : Bool) (data : α) : Except String α :=
  if solved then .ok data else .error "Model not solved"

theorem solved_iff_optimal (didTimeout : Bool) (native : Status) :
    isSolvedAfter didTimeout native = true ↔ (didTimeout = false ∧ native = .optimal) := by
  cases didTimeout <;> cases native <;> simp [isSolvedAfter, modelStatus]

theorem getter_only_when_optimal {α} (didTimeout : Bool) (native : Status) (d x : α)
    (h : getter (isSolvedAfter didTimeout native) d = .ok x) :
    didTimeout = false ∧ native = .optimal := by
  unfold getter at h
  split at h
  · rename_i hs; exact (solved_iff_optimal _ _).1 hs
  · cases h

/-! ### one model object solved several times

`solve()` of the abstract k-models ends with `self._is_solved = True` in the optimal branch and `self._is_solved = False`
in every other branch, so the flag always reflects the LAST run (the seeded change C13-5 dropped the second assignment
and made the flag sticky). -/

/-- the solved flag of one model object after a sequence of `solve()` calls, each with its custom-timeout flag and the
status the backend reported; `false` before the first call -/
def flagAfter (runs : List (Bool × Status)) : Bool :=
  runs.foldl (fun _ r => isSolvedAfter r.1 r.2) false

theorem flag_reflects_last_run (runs : List (Bool × Status)) (dt : Bool) (st : Status) :
    flagAfter (runs ++ [(dt, st)]) = isSolvedAfter dt st := by
  simp [flagAfter, List.foldl_append]

/-- after any history of runs the getters hand out data only if the last run was proven optimal -/
theorem resolve_getter_only_when_last_optimal {α} (runs : List (Bool × Status)) (dt : Bool) (st : Status) (d x : α)
    (h : getter (flagAfter (runs ++ [(dt, st)])) d = .ok x) : dt = false ∧ st = .optimal := by
  rw [flag_reflects_last_run] at h
  exact getter_only_when_optimal dt st d x h

/-- an earlier optimal run does not survive a later inconclusive one -/
example : flagAfter [(false, .optimal), (false, .other)] = false := by decide

theorem never_solved_before_first_run : flagAfter [] = false := rfl

/-! ### minimum searches (`MinFlowDecomp`, `MinPathCover`, `MinPathCoverCycles`, `MinGenSet`) -/

/-- a returned `k` was proven optimal, lies in the searched range and every smaller tried value was
proven infeasible -/
theorem search_sound (σ : Nat → Status) (lo hi k : Nat) (h : (stopSearch σ lo hi).solved = some k) :
    σ k = .optimal ∧ lo ≤ k ∧ k < hi ∧ ∀ j, lo ≤ j → j < k → σ j = .infeasible := by
  obtain ⟨h1, h2, h3, h4⟩ := stopLoop_sound σ _ _ _ _ h
  exact ⟨h1, h2, by omega, h4⟩

/-- conversely the first feasible `k` of the range is found -/
theorem search_complete (σ : Nat → Status) (lo hi k : Nat) (h1 : lo ≤ k) (h2 : k < hi)
    (h3 : σ k = .optimal) (h4 : ∀ j, lo ≤ j → j < k → σ j = .infeasible) :
    (stopSearch σ lo hi).solved = some k :=
  stopLoop_complete σ _ _ _ _ h1 (by omega) h3 h4

/-- **C13, searches.** If the solver gives up (any status other than optimal/infeasible) at some
position `j` of the search and no earlier `k` was already proven optimal, the search ends
not-solved — it never skips `j` to return a larger answer. -/
theorem no_answer_after_inconclusive (σ : Nat → Status) (lo hi j : Nat) (hj1 : lo ≤ j)
    (hj : σ j = .other) (hbefore : ∀ i, lo ≤ i → i < j → σ i ≠ .optimal) :
    (stopSearch σ lo hi).solved = none := by
  cases hs : (stopSearch σ lo hi).solved with
  | none => rfl
  | some k =>
    obtain ⟨h1, h2, _, h4⟩ := search_sound σ lo hi k hs
    rcases Nat.lt_trichotomy k j with hlt | heq | hgt
    · exact absurd h1 (hbefore k h2 hlt)
    · subst heq; rw [hj] at h1; cases h1
    · have := h4 j hj1 hgt; rw [hj] at this; cases this

/-- the trace handed to the correspondence check is exactly `σ` on consecutive values from `lo` -/
theorem search_trace (σ : Nat → Status) (lo hi : Nat) :
    ∃ m, m ≤ hi - lo ∧ (stopSearch σ lo hi).tried = (List.range m).map (fun i => (lo + i, σ (lo + i))) := by
  obtain ⟨m, hm, h⟩ := stopLoop_trace σ (hi - lo) lo []
  exact ⟨m, hm, by simpa [stopSearch] using h⟩

/-! ### searches with a ready-made (guessed-weights) decomposition -/

/-- with `optimize_with_guessed_weights` a ready-made decomposition with `g` routes may be taken at
`k = g`; still, an answer `r` means: `r` is that decomposition's size or was proven optimal, and every
smaller tried `k` was proven infeasible (and was not the ready-made size) -/
theorem given_sound (σ : Nat → Status) (given : Option Nat) (lo hi r : Nat)
    (h : (givenSearch σ given lo hi).solved = some r) :
    (given = some r ∨ σ r = .optimal) ∧ lo ≤ r ∧ r < hi ∧
      ∀ j, lo ≤ j → j < r → σ j = .infeasible ∧ given ≠ some j := by
  obtain ⟨h1, h2, h3, h4⟩ := givenLoop_sound σ given _ _ _ _ h
  exact ⟨h1, h2, by omega, h4⟩

/-- an inconclusive status before any accepted `k` ends the search unsolved — the ready-made
decomposition is never used as a fallback -/
theorem given_no_answer_after_inconclusive (σ : Nat → Status) (given : Option Nat) (lo hi j : Nat)
    (hj1 : lo ≤ j) (hj : σ j = .other) (hg : ∀ g, given = some g → j < g)
    (hbefore : ∀ i, lo ≤ i → i < j → σ i ≠ .optimal) :
    (givenSearch σ given lo hi).solved = none := by
  cases hs : (givenSearch σ given lo hi).solved with
  | none => rfl
  | some r =>
    obtain ⟨h1, h2, _, h4⟩ := given_sound σ given lo hi r hs
    rcases Nat.lt_trichotomy r j with hlt | heq | hgt
    · rcases h1 with h1 | h1
      · have := hg r h1; omega
      · exact absurd h1 (hbefore r h2 hlt)
    · subst heq
      rcases h1 with h1 | h1
      · have := hg r h1; omega
      · rw [hj] at h1; cases h1
    · have := (h4 j hj1 hgt).1; rw [hj] at this; cases this

/-! ### `MinFlowDecompCycles` (elapsed-time check after every k) -/

theorem timed_sound (σ : Nat → Status) (late : Nat → Bool) (lo hi k : Nat)
    (h : (stopSearchTimed σ late lo hi).solved = some k) :
    σ k = .optimal ∧ late k = false ∧ lo ≤ k ∧ k < hi ∧ ∀ j, lo ≤ j → j < k → σ j = .infeasible := by
  obtain ⟨h1, h1', h2, h3, h4⟩ := timedLoop_sound σ late _ _ _ _ h
  exact ⟨h1, h1', h2, by omega, fun j a b => (h4 j a b).1⟩

theorem timed_complete (σ : Nat → Status) (late : Nat → Bool) (lo hi k : Nat) (h1 : lo ≤ k)
    (h2 : k < hi) (h3 : σ k = .optimal) (hl : late k = false)
    (h4 : ∀ j, lo ≤ j → j < k → σ j = .infeasible ∧ late j = false) :
    (stopSearchTimed σ late lo hi).solved = some k :=
  timedLoop_complete σ late _ _ _ _ h1 (by omega) h3 hl h4

theorem timed_no_answer_after_inconclusive (σ : Nat → Status) (late : Nat → Bool) (lo hi j : Nat)
    (hj1 : lo ≤ j) (hj : σ j = .other ∨ late j = true)
    (hbefore : ∀ i, lo ≤ i → i < j → σ i ≠ .optimal) :
    (stopSearchTimed σ late lo hi).solved = none := by
  cases hs : (stopSearchTimed σ late lo hi).solved with
  | none => rfl
  | some k =>
    obtain ⟨h1, h1', h2, h3, h4⟩ := timedLoop_sound σ late _ _ _ _ hs
    rcases Nat.lt_trichotomy k j with hlt | heq | hgt
    · exact absurd h1 (hbefore k h2 hlt)
    · subst heq; rcases hj with hj | hj
      · rw [hj] at h1; cases h1
      · rw [hj] at h1'; cases h1'
    · have := h4 j hj1 hgt
      rcases hj with hj | hj
      · rw [hj] at this; cases this.1
      · rw [hj] at this; cases this.2

/-! ### the loop `MinGenSet.solve` had on the pinned tree -/

/-- skipping non-optimal statuses returns a larger answer after an inconclusive run: the loop shape
`if optimal: return … else: continue` violates the property (kept as the negative witness; the
repaired code is `stopSearch`). -/
theorem skip_violates :
    (skipSearch (fun k => if k = 1 then .other else .optimal) 1 3).solved = some 2 := by decide

/-! ### `NumPathsOptimization` -/

/-- **C13, generic optimiser.** Whatever the stopping rules, objective values, status script and
clock: when `solve()` returns `True` the model it hands out was itself proven optimal for its `k`. -/
theorem npo_returns_only_optimal (cfg : NpoCfg) (σ : Nat → Status) (obj : Nat → Rat)
    (late : Nat → Bool) (lo hi k : Nat) (h : (npo cfg σ obj late lo hi).answer = some k) :
    σ k = .optimal ∧ lo ≤ k ∧ k ≤ hi := by
  obtain ⟨h1, h2, h3⟩ := npoLoop_answer cfg σ obj late _ _ _ _ _ _ h
  exact ⟨h1, h2, by omega⟩

/-! ### non-vacuity -/

example : (stopSearch (fun k => if k < 3 then .infeasible else .optimal) 1 6).solved = some 3 := by decide
example : (stopSearch (fun k => if k = 2 then .other else if k < 2 then .infeasible else .optimal) 1 6).solved = none := by
  decide
example : (stopSearchTimed (fun _ => .optimal) (fun k => k == 2) 2 6).solved = none := by decide
example : (npo ⟨false, some 1, none⟩ (fun _ => .optimal) (fun k => 10 - k) (fun _ => false) 1 5).answer = some 2 := by
  decide +kernel

end FP.Props.C13
