import FP.Model.Wrapper
import FP.Proofs.Wrapper
/-!
# C12 — MILP building blocks encode exactly the relation they name

Property theorems only; the proofs are in `FP/Proofs/Wrapper.lean`.
-/
namespace FP.Props.C12
open FP

/-- **binary × continuous.** For a binary value of `b` and `lb ≤ c ≤ ub` the four McCormick rows
hold iff `p = b·c` — every admissible pair is allowed and every other product value excluded. -/
theorem binProd_exact (a : Asg) (b c p : Var) (lb ub : Rat)
    (hb : a b = 0 ∨ a b = 1) (hc : lb ≤ a c ∧ a c ≤ ub) :
    (∀ r ∈ binProd b c p lb ub, r.holds a) ↔ a p = a b * a c :=
  FP.binProd_exact a b c p lb ub hb hc

/-- the number of bits is the least `n` with `ub + 1 ≤ 2^n` (also for `ub = 0` and non powers of two) -/
theorem numBits_spec (ub : Nat) :
    ub + 1 ≤ 2 ^ numBits ub ∧ ∀ n, ub + 1 ≤ 2 ^ n → numBits ub ≤ n :=
  FP.numBits_spec ub

/-- **integer × continuous, soundness.** Any assignment satisfying the fragment (column bounds,
integrality of the bit columns and all rows) has `p = n·c`, whenever `lb ≤ c ≤ ub`. -/
theorem intProd_sound (a : Asg) (n c p : Var) (lb : Rat) (ubN : Nat) (name : String)
    (hc : lb ≤ a c ∧ a c ≤ (ubN : Rat)) (h : Sat a (intProd n c p lb ubN name)) :
    a p = a n * a c :=
  FP.intProd_sound a n c p lb ubN name hc h

/-- **integer × continuous, completeness.** For every natural value `k ≤ ub` of the integer factor,
every `lb ≤ c ≤ ub` with `lb ≤ 0`, the intended product value extends to an assignment of the
auxiliary bit/component columns that satisfies the whole fragment (the auxiliary columns being
distinct from the three user columns and from each other). -/
theorem intProd_complete (a : Asg) (n c p : Var) (lb : Rat) (ubN : Nat) (name : String) (k : Nat)
    (hk : a n = k) (hkub : k ≤ ubN) (hlb : lb ≤ 0)
    (hc : lb ≤ a c ∧ a c ≤ (ubN : Rat)) (hp : a p = a n * a c)
    (hfresh : ∀ i, bitVar name i ≠ n ∧ bitVar name i ≠ c ∧ bitVar name i ≠ p ∧
                   compVar name i ≠ n ∧ compVar name i ≠ c ∧ compVar name i ≠ p)
    (hbc : ∀ i j, bitVar name i ≠ compVar name j) :
    ∃ a' : Asg, (∀ v, (∀ i, v ≠ bitVar name i ∧ v ≠ compVar name i) → a' v = a v) ∧
      Sat a' (intProd n c p lb ubN name) :=
  FP.intProd_complete a n c p lb ubN name k hk hkub hlb hc hp hfresh hbc

/-- **piecewise constant, soundness.** A satisfying assignment selects a range that contains `x`
and forces `y` to that range's constant (`ranges` and `constants` of equal length, `L ≤ U`). -/
theorem piecewise_sound (a : Asg) (x y : Var) (ranges : List (Rat × Rat)) (constants : List Rat)
    (name : String) (hlen : ranges.length = constants.length)
    (hLU : ∀ r ∈ ranges, r.1 ≤ r.2)
    (h : Sat a (piecewise x y ranges constants name)) :
    ∃ i, ∃ hi : i < ranges.length, (ranges[i]).1 ≤ a x ∧ a x ≤ (ranges[i]).2 ∧
      a y = constants[i]'(hlen ▸ hi) :=
  FP.piecewise_sound a x y ranges constants name hlen hLU h

/-- **piecewise constant, completeness.** If `x` lies in range `j` and `y` is that range's
constant, the one-hot assignment satisfies the fragment — for *all* constants (since fix 445f2b7 the
rows linking `y` use the spread of the constants as their big-M). -/
theorem piecewise_complete (a : Asg) (x y : Var) (ranges : List (Rat × Rat))
    (constants : List Rat) (name : String) (hlen : ranges.length = constants.length)
    (hLU : ∀ r ∈ ranges, r.1 ≤ r.2) (j : Nat) (hj : j < ranges.length)
    (hx : (ranges[j]).1 ≤ a x ∧ a x ≤ (ranges[j]).2) (hy : a y = constants[j]'(hlen ▸ hj))
    (hfresh : ∀ i, zVar name i ≠ x ∧ zVar name i ≠ y) :
    ∃ a' : Asg, (∀ v, (∀ i, v ≠ zVar name i) → a' v = a v) ∧
      Sat a' (piecewise x y ranges constants name) :=
  FP.piecewise_complete a x y ranges constants name hlen hLU j hj hx hy hfresh

/-- non-vacuity / regression witness: the instance that was infeasible before the fix (ranges
`[(0,1),(2,3)]`, constants `[0,100]`, `x = 1/2`) now has a satisfying assignment with `y = 0` -/
theorem piecewise_far_constants_feasible :
    ∃ a : Asg, a (.ix "x" 0) = 1/2 ∧ a (.ix "y" 0) = 0 ∧
      Sat a (piecewise (.ix "x" 0) (.ix "y" 0) [(0,1),(2,3)] [0,100] "f") :=
  FP.piecewise_far_constants_feasible

/-! ### queued bound changes, objective replacement -/

/-- after a flush with the intended `getCols` field, a queued fix gives `lb = ub = v`, cost kept
(distinct queued indices, nothing queued for lower bounds) -/
theorem flush_fix_exact (f : GetColsField) (s : WState) (hnolb : s.pendingLb = [])
    (hnd : (s.pendingFix.map (·.1)).Nodup) (i : Nat) (hi : i < s.cols.length) :
    ((flush f s).cols.length = s.cols.length) ∧
    (∀ v, (i, v) ∈ s.pendingFix →
        (flush f s).cols[i]? = some { lb := v, ub := v, cost := (s.cols.getD i default).cost }) ∧
    (i ∉ s.pendingFix.map (·.1) → (flush f s).cols[i]? = s.cols[i]?) :=
  FP.flush_fix_exact f s hnolb hnd i hi

/-- after a flush with the intended field (`.upper`), a queued lower bound gives `lb = v` and leaves
`ub` and the cost unchanged; other columns are untouched -/
theorem flush_lb_exact (s : WState) (hnofix : s.pendingFix = [])
    (hnd : (s.pendingLb.map (·.1)).Nodup) (i : Nat) (hi : i < s.cols.length) :
    (∀ v, (i, v) ∈ s.pendingLb →
        (flush .upper s).cols[i]? = some { (s.cols.getD i default) with lb := v }) ∧
    (i ∉ s.pendingLb.map (·.1) → (flush .upper s).cols[i]? = s.cols[i]?) :=
  FP.flush_lb_exact s hnofix hnd i hi

/-- the queues are empty after a flush -/
theorem flush_clears (f : GetColsField) (s : WState) :
    (flush f s).pendingFix = [] ∧ (flush f s).pendingLb = [] := ⟨rfl, rfl⟩

/-- using the wrong tuple component of `getCols` is observable: raising the lower bound of a
`[0, 5]` column to `2` yields `[2, 0]` (infeasible) -/
theorem flush_lb_wrong_field_witness :
    (flush .lower { cols := [{ lb := 0, ub := 5, cost := 0 }], pendingLb := [(0, 2)] }).cols
      = [{ lb := 2, ub := 0, cost := 0 }] := by decide

/-- a replaced objective fully replaces the previous one -/
theorem setObjective_replaces (cols : List WCol) (t1 t2 : List (Nat × Rat)) :
    setObjective (setObjective cols t1) t2 = setObjective cols t2 :=
  FP.setObjective_replaces cols t1 t2

/-- the new cost of column `i` is the sum of its coefficients in the expression -/
theorem setObjective_cost (cols : List WCol) (t : List (Nat × Rat)) (i : Nat) (hi : i < cols.length) :
    ((setObjective cols t)[i]?).map (·.cost) = some ((t.filter (·.1 = i)).map (·.2)).sum :=
  FP.setObjective_cost cols t i hi

end FP.Props.C12
