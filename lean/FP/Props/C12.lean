import FP.Model.Wrapper
import FP.Spec.Box
import FP.Proofs.Wrapper
import FP.Proofs.WrapperObj
import FP.Proofs.WrapperObjRead
/-!
# C12 — MILP building blocks encode exactly the relation they name

Property theorems only; the proofs are in `FP/Proofs/Wrapper.lean` (helpers, queued bounds),
`FP/Proofs/WrapperObj.lean` (objective replacement) and `FP/Proofs/WrapperObjRead.lean` (solve of a box model,
`get_values`, freshness of the read-back).
-/
namespace FP.Props.C12
open FP FP.Spec

/-- **binary × continuous.** For a binary value of `b` and `lb ≤ c ≤ ub` the four McCormick rows
hold iff `p = b·c` — every admissible pair is allowed and every other product value excluded. -/
theorem binProd_exact (a : Asg) (b c p : Var) (lb ub : Rat)
    (hb : a b = 0 ∨ a b = 1) (hc : lb ≤ a c ∧ a c ≤ ub) :
    (∀ r ∈ binProd b c p lb ub, r.holds a) ↔ a p = a b * a c :=
  FP.binProd_exact a b c p lb ub hb hc

/-- the number of bits is the least `n` with `ub + 1 ≤ 2^n` (also for `ub = 0` and non powers of two) -/
theorem numBits_spec (ub : Nat) :
    ub + 1 ≤ 2 ^ numBits ub ∧ ∀ n, ub + 1 ≤ 2 ^ n → numBits ub ≤ n :=
  FP.numBits_spec ub

/-- **integer × continuous, soundness.** Any assignment satisfying the fragment (column bounds,
integrality of the bit columns and all rows) has `p = n·c`, whenever `lb ≤ c ≤ ub`. -/
theorem intProd_sound (a : Asg) (n c p : Var) (lb : Rat) (ubN : Nat) (name : String)
    (hc : lb ≤ a c ∧ a c ≤ (ubN : Rat)) (h : Sat a (intProd n c p lb ubN name)) :
    a p = a n * a c :=
  FP.intProd_sound a n c p lb ubN name hc h

/-- **integer × continuous, completeness.** For every natural value `k ≤ ub` of the integer factor,
every `lb ≤ c ≤ ub` with `lb ≤ 0`, the intended product value extends to an assignment of the
auxiliary bit/component columns that satisfies the whole fragment (the auxiliary columns being
distinct from the three user columns and from each other). -/
theorem intProd_complete (a : Asg) (n c p : Var) (lb : Rat) (ubN : Nat) (name : String) (k : Nat)
    (hk : a n = k) (hkub : k ≤ ubN) (hlb : lb ≤ 0)
    (hc : lb ≤ a c ∧ a c ≤ (ubN : Rat)) (hp : a p = a n * a c)
    (hfresh : ∀ i, bitVar name i ≠ n ∧ bitVar name i ≠ c ∧ bitVar name i ≠ p ∧
                   compVar name i ≠ n ∧ compVar name i ≠ c ∧ compVar name i ≠ p)
    (hbc : ∀ i j, bitVar name i ≠ compVar name j) :
    ∃ a' : Asg, (∀ v, (∀ i, v ≠ bitVar name i ∧ v ≠ compVar name i) → a' v = a v) ∧
      Sat a' (intProd n c p lb ubN name) :=
  FP.intProd_complete a n c p lb ubN name k hk hkub hlb hc hp hfresh hbc

/-- **piecewise constant, soundness.** A satisfying assignment selects a range that contains `x`
and forces `y` to that range's constant (`ranges` and `constants` of equal length, `L ≤ U`). -/
theorem piecewise_sound (a : Asg) (x y : Var) (ranges : List (Rat × Rat)) (constants : List Rat)
    (name : String) (hlen : ranges.length = constants.length)
    (hLU : ∀ r ∈ ranges, r.1 ≤ r.2)
    (h : Sat a (piecewise x y ranges constants name)) :
    ∃ i, ∃ hi : i < ranges.length, (ranges[i]).1 ≤ a x ∧ a x ≤ (ranges[i]).2 ∧
      a y = constants[i]'(hlen ▸ hi) :=
  FP.piecewise_sound a x y ranges constants name hlen hLU h

/-- **piecewise constant, completeness.** If `x` lies in range `j` and `y` is that range's
constant, the one-hot assignment satisfies the fragment — for *all* constants (since fix 445f2b7 the
rows linking `y` use the spread of the constants as their big-M). -/
theorem piecewise_complete (a : Asg) (x y : Var) (ranges : List (Rat × Rat))
    (constants : List Rat) (name : String) (hlen : ranges.length = constants.length)
    (hLU : ∀ r ∈ ranges, r.1 ≤ r.2) (j : Nat) (hj : j < ranges.length)
    (hx : (ranges[j]).1 ≤ a x ∧ a x ≤ (ranges[j]).2) (hy : a y = constants[j]'(hlen ▸ hj))
    (hfresh : ∀ i, zVar name i ≠ x ∧ zVar name i ≠ y) :
    ∃ a' : Asg, (∀ v, (∀ i, v ≠ zVar name i) → a' v = a v) ∧
      Sat a' (piecewise x y ranges constants name) :=
  FP.piecewise_complete a x y ranges constants name hlen hLU j hj hx hy hfresh

/-- non-vacuity / regression witness: the instance that was infeasible before the fix (ranges
`[(0,1),(2,3)]`, constants `[0,100]`, `x = 1/2`) now has a satisfying assignment with `y = 0` -/
theorem piecewise_far_constants_feasible :
    ∃ a : Asg, a (.ix "x" 0) = 1/2 ∧ a (.ix "y" 0) = 0 ∧
      Sat a (piecewise (.ix "x" 0) (.ix "y" 0) [(0,1),(2,3)] [0,100] "f") :=
  FP.piecewise_far_constants_feasible

/-! ### queued bound changes, objective replacement -/

/-- after a flush with the intended `getCols` field, a queued fix gives `lb = ub = v`, cost kept
(distinct queued indices, nothing queued for lower bounds) -/
theorem flush_fix_exact (f : GetColsField) (s : WState) (hnolb : s.pendingLb = [])
    (hnd : (s.pendingFix.map (·.1)).Nodup) (i : Nat) (hi : i < s.cols.length) :
    ((flush f s).cols.length = s.cols.length) ∧
    (∀ v, (i, v) ∈ s.pendingFix →
        (flush f s).cols[i]? = some { lb := v, ub := v, cost := (s.cols.getD i default).cost }) ∧
    (i ∉ s.pendingFix.map (·.1) → (flush f s).cols[i]? = s.cols[i]?) :=
  FP.flush_fix_exact f s hnolb hnd i hi

/-- after a flush with the intended field (`.upper`), a queued lower bound gives `lb = v` and leaves
`ub` and the cost unchanged; other columns are untouched -/
theorem flush_lb_exact (s : WState) (hnofix : s.pendingFix = [])
    (hnd : (s.pendingLb.map (·.1)).Nodup) (i : Nat) (hi : i < s.cols.length) :
    (∀ v, (i, v) ∈ s.pendingLb →
        (flush .upper s).cols[i]? = some { (s.cols.getD i default) with lb := v }) ∧
    (i ∉ s.pendingLb.map (·.1) → (flush .upper s).cols[i]? = s.cols[i]?) :=
  FP.flush_lb_exact s hnofix hnd i hi

/-- the queues are empty after a flush -/
theorem flush_clears (f : GetColsField) (s : WState) :
    (flush f s).pendingFix = [] ∧ (flush f s).pendingLb = [] := ⟨rfl, rfl⟩

/-- using the wrong tuple component of `getCols` is observable: raising the lower bound of a
`[0, 5]` column to `2` yields `[2, 0]` (infeasible) -/
theorem flush_lb_wrong_field_witness :
    (flush .lower { cols := [{ lb := 0, ub := 5, cost := 0 }], pendingLb := [(0, 2)] }).cols
      = [{ lb := 2, ub := 0, cost := 0 }] := by decide

/-! ### objective: costs, constant (offset), sense -/

/-- **a replaced objective fully replaces the previous one** (full strength, over histories): whatever
happened before the last `set_objective(terms, const, sense)` of a history and whatever follows it (queued bound
changes, new variables, solves), the objective constant is `const` (`0` when the expression has no constant
term), the sense is the requested one, and every column that existed at that call has the cost the expression
asks for (`0` if it does not occur in it) while every column created later has cost `0`. Nothing of an earlier
objective enters the right-hand sides. -/
theorem set_objective_replaces (f : GetColsField) (pre post : List WOp) (ts : List (Nat × Rat))
    (c : Option Rat) (mx : Bool) (hpost : ∀ o ∈ post, o.isSetObjective = false) :
    let s := wrun f (pre ++ WOp.setObjective ts c mx :: post)
    s.offset = offsetOf c ∧ s.maximize = mx ∧
    ∀ i (hi : i < s.cols.length), s.cols[i].cost =
      if i < (wrun f pre).cols.length then termCost ts i else 0 :=
  FP.wobj_set_objective_replaces f pre post ts c mx hpost

/-- `changeObjectiveOffset(expr.constant or 0.0)` -/
theorem offsetOf_spec (q : Rat) : offsetOf none = 0 ∧ offsetOf (some q) = q := ⟨rfl, rfl⟩

/-- a history without any `set_objective`: all costs `0`, constant `0`, minimisation -/
theorem no_objective (f : GetColsField) (ops : List WOp) (hops : ∀ o ∈ ops, o.isSetObjective = false) :
    let s := wrun f ops
    s.offset = 0 ∧ s.maximize = false ∧ ∀ i (hi : i < s.cols.length), s.cols[i].cost = 0 :=
  FP.wobj_no_objective f ops hops

/-- corollary: two `set_objective` calls in a row leave the state of the second alone (costs, constant, sense) -/
theorem set_objective_twice (f : GetColsField) (s : WState) (t1 t2 : List (Nat × Rat))
    (c1 c2 : Option Rat) (m1 m2 : Bool) :
    wstep f (wstep f s (.setObjective t1 c1 m1)) (.setObjective t2 c2 m2)
      = wstep f s (.setObjective t2 c2 m2) :=
  FP.wobj_set_objective_twice f s t1 t2 c1 c2 m1 m2

/-- corollary (cost vector only): a replaced objective fully replaces the previous one -/
theorem setObjective_replaces (cols : List WCol) (t1 t2 : List (Nat × Rat)) :
    setObjective (setObjective cols t1) t2 = setObjective cols t2 :=
  FP.setObjective_replaces cols t1 t2

/-- the new cost of column `i` is the sum of its coefficients in the expression -/
theorem setObjective_cost (cols : List WCol) (t : List (Nat × Rat)) (i : Nat) (hi : i < cols.length) :
    ((setObjective cols t)[i]?).map (·.cost) = some ((t.filter (·.1 = i)).map (·.2)).sum :=
  FP.setObjective_cost cols t i hi

/-- non-vacuity: the constant `5` and the cost of column 1 of the first objective do not survive the second
(which has no constant term and does not mention column 1) -/
example : let s := wrun .upper [.addVars [(0, 3), (1, 4)], .setObjective [(0, 1), (1, -1)] (some 5),
                                .optimize, .setObjective [(0, 2), (0, 1)] none true, .addVars [(0, 1)]]
    (s.offset, s.maximize, s.cols.map (·.cost)) = (0, true, [3, 0, 0]) := by decide +kernel

/-! ### variables are column indices -/

/-- `add_variables` appends columns: the `k`-th returned variable is column `numCol + k`, that column has the
`k`-th bounds and cost `0`, and the existing columns are untouched -/
theorem add_variables_handles (f : GetColsField) (s : WState) (bs : List (Rat × Rat)) (k : Nat)
    (hk : k < bs.length) :
    (addVarsHandles s bs)[k]? = some (s.cols.length + k) ∧
    (wstep f s (.addVars bs)).cols[s.cols.length + k]? = some { lb := bs[k].1, ub := bs[k].2, cost := 0 } ∧
    ∀ i, i < s.cols.length → (wstep f s (.addVars bs)).cols[i]? = s.cols[i]? :=
  FP.wobj_add_variables_handles f s bs k hk

/-! ### the solve of a model without rows, and what is read back -/

/-- **`boxOptimum` is what a solve must return.** On a non-empty box it is an optimal solution of
`min / max Σ cost·x + offset`, and every optimal solution agrees with it on every determined column (cost
non-zero, or lower bound = upper bound): value `lb` where a larger value is worse, `ub` where a smaller one is. -/
theorem box_optimum_correct (mx : Bool) (cols : List WCol) (off : Rat) (hfeas : boxFeasible cols = true) :
    IsBoxOptimum mx cols off (boxOptimum mx cols) ∧
    ∀ x, IsBoxOptimum mx cols off x →
      ∀ (i : Nat) (c : WCol), cols[i]? = some c → colDetermined c = true → x[i]? = some (colOpt mx c) :=
  FP.wobj_box_optimum_correct mx cols off hfeas

/-- the model reports "infeasible" exactly for the empty box -/
theorem box_infeasible (cols : List WCol) : boxFeasible cols = false ↔ ¬ ∃ x, InBox cols x :=
  FP.wobj_box_infeasible cols

/-- the expected read-back: the forced value of a determined column, nothing for the others -/
theorem expectedValues_spec (mx : Bool) (cols : List WCol) (i : Nat) :
    (expectedValues mx cols)[i]? =
      (cols[i]?).map (fun c => if colDetermined c then some (colOpt mx c) else none) :=
  FP.wobj_expectedValues_spec mx cols i

/-- **values are read back for exactly the variables asked for**: `get_values` succeeds with `r` iff `r` has
one entry per asked `(key, variable)` pair, in the order asked, carrying that key and the entry of the solution
vector at the variable's column index; it fails (Python: `IndexError`) iff some asked variable's column index
lies outside the vector. -/
theorem get_values_exact {κ : Type} (x : List Rat) (asked : List (κ × Nat)) :
    (∀ r : List (κ × Rat), readValues x asked = some r ↔
      r.length = asked.length ∧
      ∀ (p : Nat) (kv : κ × Nat) (kr : κ × Rat), asked[p]? = some kv → r[p]? = some kr →
        kr.1 = kv.1 ∧ x[kv.2]? = some kr.2) ∧
    (readValues x asked = none ↔ ∃ kv ∈ asked, x.length ≤ kv.2) :=
  ⟨FP.wobj_get_values_exact x asked, FP.wobj_get_values_raises x asked⟩

/-- **every `optimize` yields a fresh solution**: what the backend holds after `optimize` is the solve of the
model as flushed by this very call; the result of an earlier solve (and the number of earlier solves) has no
influence on it. -/
theorem optimize_fresh (f : GetColsField) (s : WState) :
    (wstep f s .optimize).last
      = some (solveBox (flush f s).maximize (flush f s).cols (flush f s).offset) ∧
    ∀ (l : Option Solve) (n : Nat),
      (wstep f { s with last := l, nSolves := n } .optimize).last = (wstep f s .optimize).last :=
  ⟨rfl, fun _ _ => rfl⟩

/-- one read-back per `optimize` -/
theorem wsnaps_length (f : GetColsField) (ops : List WOp) :
    (wsnaps f ops).length = (ops.filter (·.isOptimize)).length :=
  FP.wobj_wsnaps_length f ops

/-- **the values returned after the `n`-th `optimize` are those of the `n`-th solve**: if `n` solves precede
the `optimize` at the end of `pre`, the `n`-th (0-based) observed state has the columns, constant and sense of
the model as this `optimize` flushed it, counts `n + 1` solves and holds the solve of exactly that model -/
theorem readback_nth (f : GetColsField) (pre post : List WOp) :
    ∃ sn, (wsnaps f (pre ++ WOp.optimize :: post))[(pre.filter (·.isOptimize)).length]? = some sn ∧
      sn.cols = (flush f (wrun f pre)).cols ∧ sn.offset = (flush f (wrun f pre)).offset ∧
      sn.maximize = (flush f (wrun f pre)).maximize ∧
      sn.nSolves = (pre.filter (·.isOptimize)).length + 1 ∧
      sn.last = some (solveBox (flush f (wrun f pre)).maximize (flush f (wrun f pre)).cols
        (flush f (wrun f pre)).offset) :=
  FP.wobj_readback_nth_full f pre post

/-- … hence `get_values` / `get_objective_value` after the `n`-th `optimize` read the optimum of the box as
it is at that `optimize` (current bounds, last objective, its constant), for any set of asked variables -/
theorem get_values_fresh {κ : Type} (f : GetColsField) (pre post : List WOp) (asked : List (κ × Nat))
    (sn : WState)
    (hsn : (wsnaps f (pre ++ WOp.optimize :: post))[(pre.filter (·.isOptimize)).length]? = some sn) :
    getValues sn asked =
      (if boxFeasible (flush f (wrun f pre)).cols then
        readValues (boxOptimum (flush f (wrun f pre)).maximize (flush f (wrun f pre)).cols) asked
       else none) ∧
    getObjectiveValue sn =
      (if boxFeasible (flush f (wrun f pre)).cols then
        some (objValue (flush f (wrun f pre)).cols (flush f (wrun f pre)).offset
          (boxOptimum (flush f (wrun f pre)).maximize (flush f (wrun f pre)).cols))
       else none) :=
  FP.wobj_get_values_fresh f pre post asked sn hsn

/-- non-vacuity / regression witness for a stale solution vector: two solves of one wrapper with a queued lower
bound and a new objective in between; the second read-back is `[2, 1]` with objective value `4` (not the `[0, 4]`
and `1` of the first solve), and asking for column 1 then column 0 returns exactly these two, in that order -/
theorem readback_two_solves_witness :
    let ops := [WOp.addVars [(0, 3), (1, 4)], .setObjective [(0, 1), (1, -1)] (some 5), .optimize,
                .queueLb 0 2, .setObjective [(0, 2)], .optimize]
    (wsnaps .upper ops).map (·.last) = [some (.optimal [0, 4] 1), some (.optimal [2, 1] 4)] ∧
    (wsnaps .upper ops).map (fun s => getValues s [("b", 1), ("a", 0)])
      = [some [("b", 4), ("a", 0)], some [("b", 1), ("a", 2)]] ∧
    (wsnaps .upper ops).map (fun s => expectedValues s.maximize s.cols)
      = [[some 0, some 4], [some 2, none]] := by decide +kernel

end FP.Props.C12
