import FP.Model.Basic
import FP.Model.Search
import FP.Proofs.Search
import FP.Spec.Optimum
import FP.Spec.Safety
import FP.Model.WalkSafetyRows
import FP.Proofs.C05Base
import FP.Proofs.C05Perm
import FP.Proofs.C05Slots
import FP.Proofs.C05Bounds
import FP.Proofs.C05Opt
import FP.Proofs.C05KCoverC
import FP.Proofs.C05KFDC
import FP.Proofs.C06IncompatPipeline
import FP.Props.C04
import FP.Props.C06
/-!
# C05 — optimisation options never change solvability or the optimal objective

The options act in three ways: (1) they add rows / tighten bounds (`extra`) to the base LP of a
k-model, (2) they replace a row by a bound (fixing through variable bounds), (3) they let a search
accept a solution found by other means (greedy, given weights) at the `k` under test.

**Generic facts** (first part): `opt_preserved`, `sat_append`, `lowerBound_row_equiv`, `fix_row_equiv`,
`shortcut_preserves_search`.

**The safety options of the cyclic (walk) models** (second part; model `FP/Model/WalkSafetyRows.lean`, tied to
the real constructors by the K2 adapters `kcoverc_safety`, `kfdc_safety`):

* T1 `layer_perm_invariant` (`_kcoverc`, `_kfdc`) — the LPs are invariant under permutations of the layers;
* T2 `safety_rows_satisfiable_after_perm` — every solution can be re-indexed so that slot `j` contains the safe
  sequence handed to it: all rows of the fragment hold (uses C01 `walkcore_sound`, C04 `nonScc_once`, C06 T3/T5/T6);
* T3 `safety_options_preserve_optimum` (generic), `bounds_variant_equiv`;
* T4 `subset_variants_extend` — safe sequences appended as subset constraints (completeness of the subset block);
* `kcoverc_safety_options_preserve_optimum`, `kfdc_safety_options_preserve_feasibility` — `kPathCoverCycles`
  (feasibility and minimum) and `kFlowDecompCycles` without given weights (feasibility; the k-model has no
  objective) for **every** subset of the six flags, given what C06 proves about the computed data
  (`SafetyData`); `…_pipeline` — the same for the fragment that `safetyPipeline` computes, under the hypotheses of
  C06's `incompatible_sound_partial` (`AntichainHyp`, `NoSharedParallel`); `…_pipeline_…_full`,
  `pipeline_data_sound_full` — under the contracts of the two oracle parameters only (C06 `incompatible_sound`):
  `mapping` numbers the strongly connected components (`SccLabelling`) and the captured antichain is pairwise
  unreachable in the expanded condensation (`CondAntichain`, which C17 proves for the extraction).

Not covered by theorems (oracle only, see `harness/props/c05.py`): the DAG models' options, the error models'
instances of the generic T3, `kFlowDecompCycles` with `given_weights` (the rows `weights_i = w_i` are not
layer-symmetric; the library uses that configuration only as a heuristic upper bound), lower-bound options.
-/
namespace FP.Props.C05
open FP FP.Spec

/-- `v` is the minimum of `obj` over the feasible set `P` (attained) -/
abbrev IsMin {α} (P : α → Prop) (obj : α → Rat) (v : Rat) : Prop := FP.Spec.IsMin P obj v

/-- **Optimum preservation.** If every base-feasible point can be mapped to a base-feasible point
with the same objective that also satisfies the extra constraints, then adding the extra
constraints changes neither feasibility nor the optimal value. -/
theorem opt_preserved {α} (Base Extra : α → Prop) (obj : α → Rat)
    (h : ∀ s, Base s → ∃ s', Base s' ∧ Extra s' ∧ obj s' = obj s) :
    ((∃ s, Base s) ↔ (∃ s, Base s ∧ Extra s)) ∧
    (∀ v, IsMin Base obj v ↔ IsMin (fun s => Base s ∧ Extra s) obj v) :=
  FP.opt_preserved_proof Base Extra obj h

/-- the feasible set of `base ++ extra` is the intersection of the two feasible sets -/
theorem sat_append (a : Asg) (l1 l2 : LP) : Sat a (l1.append l2) ↔ Sat a l1 ∧ Sat a l2 := by
  simp only [Sat, LP.append, List.mem_append]
  constructor
  · rintro ⟨hc, hr⟩
    exact ⟨⟨fun c hc' => hc c (Or.inl hc'), fun r hr' => hr r (Or.inl hr')⟩,
           ⟨fun c hc' => hc c (Or.inr hc'), fun r hr' => hr r (Or.inr hr')⟩⟩
  · rintro ⟨⟨hc1, hr1⟩, ⟨hc2, hr2⟩⟩
    exact ⟨fun c hc' => hc'.elim (hc1 c) (hc2 c), fun r hr' => hr'.elim (hr1 r) (hr2 r)⟩

/-- raising the lower bound of a column to `m` (what `queue_set_var_lower_bound` + an exact batch
update does, C12) admits exactly the assignments that the row `x ≥ m` admits -/
theorem lowerBound_row_equiv (a : Asg) (c : Col) (m : Rat) (hm : c.lb ≤ m) :
    ({ c with lb := m } : Col).holds a ↔ (c.holds a ∧ (rowGe [(1, c.v)] m).holds a) :=
  FP.lowerBound_row_equiv_proof a c m hm

/-- fixing a column to `v` through its bounds admits exactly what the row `x = v` admits
(for `v` inside the original bounds) -/
theorem fix_row_equiv (a : Asg) (c : Col) (v : Rat) (hl : c.lb ≤ v) (hu : ∀ u, c.ub = some u → v ≤ u) :
    ({ c with lb := v, ub := some v } : Col).holds a ↔ (c.holds a ∧ (rowEq [(1, c.v)] v).holds a) :=
  FP.fix_row_equiv_proof a c v hl hu

/-! ### search-level shortcuts (greedy, guessed / given weights) -/
open FP.Search

/-- A search that, at iteration `k`, may accept a ready-made solution (`shortcut k = true`)
instead of asking the solver. -/
def shortcutLoop (σ : Nat → Status) (shortcut : Nat → Bool) : Nat → Nat → Option Nat
  | 0, _ => none
  | n+1, k =>
    if shortcut k then some k else
    match σ k with
    | .optimal => some k
    | .infeasible => shortcutLoop σ shortcut n (k+1)
    | .other => none

/-- **Shortcuts do not change the answer.** If a shortcut is only ever offered at a `k` whose
k-model is feasible (the ready-made solution *is* a solution with exactly `k` routes — the code
checks `len(paths) == k`), the search with shortcuts returns what the plain search returns. -/
theorem shortcut_preserves_search (σ : Nat → Status) (shortcut : Nat → Bool)
    (h : ∀ k, shortcut k = true → σ k = .optimal) :
    ∀ n k, shortcutLoop σ shortcut n k = (stopLoop σ n k []).solved := by
  intro n
  induction n with
  | zero => intro k; simp [shortcutLoop, stopLoop]
  | succ n ih =>
    intro k
    unfold shortcutLoop stopLoop
    by_cases hs : shortcut k = true
    · simp [hs, h k hs]
    · simp only [hs]
      cases hk : σ k with
      | optimal => simp
      | infeasible =>
        simp only [Bool.false_eq_true, if_false]
        rw [ih (k+1)]
        have := stopLoop_solved_acc σ n (k+1) [] [(k, Status.infeasible)]
        simpa using this
      | other => simp

/-! ## the safety options of the walk models -/
open FP.Safety

/-- C06 T6 as a property of the sequences handed to the slots: no source-to-sink walk contains two of them -/
def PairwiseIncompatible (s : STGraph) (seqs : List (List Edge)) : Prop :=
  seqs.Pairwise fun p q => ¬ CoOccur s.g s.source s.sink p q

/-- **T1 (`layer_perm_invariant`).** `create_solver_and_walks` without safety options: a satisfying assignment
stays one when the layers are permuted (every row family is generated uniformly over `range k`). -/
theorem layer_perm_invariant (s : STGraph) (c : WalkCfg) (ub : Edge → Rat) (a : Asg) (π : LayerPerm c.k)
    (h : Sat a (walkCore s c ub)) : Sat (a ∘ permLayers π.fwd) (walkCore s c ub) :=
  FP.walkCore_perm s c ub a π _ (permLayers_isLayerRenaming π.fwd) h

/-- T1 for `kPathCoverCycles`: feasibility and the objective (total number of edge traversals) -/
theorem layer_perm_invariant_kcoverc (inp : WalkInput) (a : Asg) (π : LayerPerm inp.k)
    (h : Sat a (kcovercLP inp)) :
    Sat (a ∘ permLayers π.fwd) (kcovercLP inp) ∧
    evalTerms (a ∘ permLayers π.fwd) (kcovercLP inp).obj = evalTerms a (kcovercLP inp).obj :=
  FP.kcovercLP_perm inp a π _ (permLayers_isLayerRenaming π.fwd) h

/-- T1 for `kFlowDecompCycles` (no given weights; the k-model has no objective). The renaming `permLayersK` also
moves the weight columns and the bit / component columns of the product blocks, whose names contain the layer. -/
theorem layer_perm_invariant_kfdc (inp : WalkInput) (hinj : NameInj inp) (a : Asg) (π : LayerPerm inp.k)
    (h : Sat a (kfdcLP inp none)) :
    Sat (a ∘ permLayersK inp π.fwd) (kfdcLP inp none) ∧
    (∀ e i, (a ∘ permLayersK inp π.fwd) (edgeVar e i) = a (edgeVar e (π.fwd i))) ∧
    (∀ i, (a ∘ permLayersK inp π.fwd) (weightsVar i) = a (weightsVar (π.fwd i))) :=
  ⟨FP.kfdcLP_perm inp hinj a π h, fun _ _ => rfl, fun i => by
    show a (permLayersK inp π.fwd (weightsVar i)) = _
    rw [permLayersK_weights]⟩

/-- **T2 (`safety_rows_satisfiable_after_perm`).** `a` satisfies `_encode_walks` and traverses every trusted edge
in some layer (cover rows of `kPathCoverCycles`; positive flow for `kFlowDecompCycles`). The sequences are safe
for the trusted edges (C06 T5), pairwise incompatible (C06 T6), the zero-fixed keys sound (C06 T3). Then some
permutation of the layers makes slot `j`'s walk contain `seqs[j]` with multiplicity (`x(e,j) ≥ m`), use every
edge of it outside the SCCs exactly once (`x(e,j) = 1`) and no zero-fixed edge (`x(e,j) = 0`) — all rows of the
fragment hold for the permuted assignment, whatever the flags. -/
theorem safety_rows_satisfiable_after_perm (s : STGraph) (c : WalkCfg) (ub : Edge → Rat) (a : Asg)
    (hwf : STWFc s) (hsat : Sat a (encodeWalks s c ub)) (X : List Edge) (hX : ∀ x ∈ X, x ∈ s.g.edges)
    (hcover : ∀ x ∈ X, ∃ i, i < c.k ∧ 1 ≤ a (edgeVar x i))
    (seqs : List (List Edge)) (hsafe : ∀ q ∈ seqs, SafeFor s.g s.source s.sink X q)
    (hinc : PairwiseIncompatible s seqs) (zs : List (Edge × Nat)) (hzs : ZeroSound s.g seqs c.k zs) :
    ∃ π : LayerPerm c.k, SlotsFit s a c.k seqs zs π ∧
      ∀ (safe : List (List Edge)) (o : SafetyOpts),
        ∀ r ∈ (safetyExtra s c.k safe seqs zs o).asRows, r.holds (a ∘ permLayers π.fwd) := by
  obtain ⟨π, hfit⟩ := FP.slotsFit_exists hwf hsat X hX hcover seqs hsafe hinc zs hzs
  exact ⟨π, hfit, fun safe o => FP.safetyRows_hold hfit _ (permLayers_isLayerRenaming π.fwd) safe o⟩

/-- the zero-fixed keys computed by `_apply_safety_optimizations_fix_zero_edges` are sound (C06 T3) -/
theorem zero_fix_keys_sound (g : Graph) (hg : GraphWF g) (seqs : List (List Edge)) (k : Nat)
    (zs : List (Edge × Nat)) (h : zeroFix g seqs k = .ok zs) : ZeroSound g seqs k zs :=
  FP.zeroSound_of_zeroFix g hg seqs k zs h

/-- **T3 (`safety_options_preserve_optimum`), generic.** For every model on top of `_encode_walks` whose feasible
set `Base` and objective `obj` are invariant under permutations of the layers and whose solutions traverse
every edge of `X`: adding the rows of the safety fragment (any flags) changes neither feasibility nor the
minimum. (T1 + T2 + `opt_preserved`.) -/
theorem safety_options_preserve_optimum (s : STGraph) (c : WalkCfg) (ub : Edge → Rat) (hwf : STWFc s)
    (Base : Asg → Prop) (obj : Asg → Rat) (X : List Edge) (hX : ∀ x ∈ X, x ∈ s.g.edges)
    (hcore : ∀ a, Base a → Sat a (encodeWalks s c ub))
    (hcover : ∀ a, Base a → ∀ x ∈ X, ∃ i, i < c.k ∧ 1 ≤ a (edgeVar x i))
    (hsym : ∀ a (π : LayerPerm c.k), Base a →
      Base (a ∘ permLayers π.fwd) ∧ obj (a ∘ permLayers π.fwd) = obj a)
    (seqs : List (List Edge)) (hsafe : ∀ q ∈ seqs, SafeFor s.g s.source s.sink X q)
    (hinc : PairwiseIncompatible s seqs)
    (zs : List (Edge × Nat)) (hzs : ZeroSound s.g seqs c.k zs) (safe : List (List Edge)) (o : SafetyOpts) :
    ((∃ a, Base a) ↔ (∃ a, Base a ∧ ∀ r ∈ (safetyExtra s c.k safe seqs zs o).asRows, r.holds a)) ∧
    (∀ v, IsMin Base obj v ↔
      IsMin (fun a => Base a ∧ ∀ r ∈ (safetyExtra s c.k safe seqs zs o).asRows, r.holds a) obj v) :=
  FP.safety_rows_preserve_optimum_proof s c ub hwf Base obj X hX hcore hcover hsym seqs hsafe hinc zs hzs safe o

/-- **`bounds_variant_equiv`.** `optimize_with_safe_sequences_fix_via_bounds`: the LP with the queued bound
changes flushed admits exactly the assignments of the LP with the corresponding rows. -/
theorem bounds_variant_equiv (s : STGraph) (c : WalkCfg) (ub : Edge → Rat) (safe seqs : List (List Edge))
    (zs : List (Edge × Nat)) (o : SafetyOpts)
    (hE : ∀ q ∈ seqs, ∀ e ∈ q, e ∈ s.g.edges)
    (hub1 : ∀ e ∈ s.g.edges, isSccEdge s.g e = false → 1 ≤ ub e) (a : Asg) :
    Sat a (walkCoreS s c ub (safetyExtra s c.k safe seqs zs o)) ↔
      Sat a (walkCoreS s c ub (SafetyFrag.rowVariant (safetyExtra s c.k safe seqs zs o))) :=
  FP.bounds_variant_equiv_proof s c ub _ (FP.safetyExtra_boundsOK s c.k ub safe seqs zs o hE hub1) a

/-- what the LP with a fragment says: `_encode_walks`, the rows of the fragment (row variant), and the subset
block on the extended list of constraints -/
theorem sat_walkCoreS (s : STGraph) (c : WalkCfg) (ub : Edge → Rat) (fr : SafetyFrag)
    (hok : BoundsOK s c.k ub fr) (a : Asg) :
    Sat a (walkCoreS s c ub fr) ↔
      Sat a (encodeWalks s c ub) ∧ (∀ r ∈ fr.asRows, r.holds a) ∧
      Sat a (subsetBlock s (c.withSafety fr) ub) :=
  FP.sat_walkCoreS_iff s c ub fr hok a

/-- **T4 (`subset_variants_extend`).** `optimize_with_safety_as_subset_constraints` /
`optimize_with_max_safe_antichain_as_subset_constraints`: appending subset constraints each of which some layer
traverses completely (a safe sequence is contained in some walk of every solution, C06 T5) keeps the LP
satisfiable; only the `r` and `used_edge` columns get new values (`subsetAsg`). This is the completeness of
the subset block for appended constraints (C10's `subset_constraint_complete` is the general form). -/
theorem subset_variants_extend (s : STGraph) (c : WalkCfg) (ub : Edge → Rat) (a : Asg) (E : List (List Edge))
    (hsat : Sat a (walkCore s c ub))
    (hcons : ∀ con ∈ c.constraints, ∀ e ∈ con, e ∈ s.g.edges)
    (hcov1 : c.coverage ≤ 1)
    (hE : ∀ q ∈ E, ∃ i, i < c.k ∧ ∀ e ∈ q, e ∈ s.g.edges ∧ 1 ≤ a (edgeVar e i)) :
    Sat (subsetAsg a (c.constraints ++ E) c.coverage)
      (walkCore s { c with constraints := c.constraints ++ E } ub) ∧
    (∀ e i, subsetAsg a (c.constraints ++ E) c.coverage (edgeVar e i) = a (edgeVar e i)) :=
  ⟨FP.subset_extend s c ub a E hsat hcons hcov1 hE, fun e i => FP.subsetAsg_edge a _ _ e i⟩

/-- … and dropping appended constraints keeps an assignment feasible -/
theorem subset_variants_drop (s : STGraph) (c : WalkCfg) (ub : Edge → Rat) (a : Asg) (E : List (List Edge))
    (h : Sat a (subsetBlock s { c with constraints := c.constraints ++ E } ub)) :
    Sat a (subsetBlock s c ub) :=
  FP.subsetBlock_drop s c ub a E h

/-- **C05 for `kPathCoverCycles`, every subset of the six safety flags.** With what C06 proves about the computed
data (`SafetyData`: T5 for the maximal safe sequences and for those handed to the slots, T6, T3), the documented
requirements on subset constraints (edges of the graph, coverage `≤ 1`) and a well-formed input graph: the LP
built with the options (`kcovercLPS`, which K2 ties to the real constructor) is feasible iff the LP without
them is, and both have the same minimal objective. -/
theorem kcoverc_safety_options_preserve_optimum (inp : WalkInput) (hb : BaseWF inp.base)
    (safe seqs : List (List Edge)) (zs : List (Edge × Nat))
    (D : SafetyData inp.st inp.k (kcovercTrusted inp) safe seqs zs) (o : SafetyOpts)
    (hcons : ∀ con ∈ inp.cfg.constraints, ∀ e ∈ con, e ∈ inp.st.g.edges)
    (hcov1 : inp.cfg.coverage ≤ 1) :
    ((∃ a, Sat a (kcovercLP inp)) ↔ (∃ a, Sat a (kcovercLPS inp (safetyExtra inp.st inp.k safe seqs zs o)))) ∧
    (∀ v, IsMin (fun a => Sat a (kcovercLP inp)) (fun a => evalTerms a (kcovercLP inp).obj) v ↔
      IsMin (fun a => Sat a (kcovercLPS inp (safetyExtra inp.st inp.k safe seqs zs o)))
        (fun a => evalTerms a (kcovercLPS inp (safetyExtra inp.st inp.k safe seqs zs o)).obj) v) :=
  FP.kcoverc_safety_preserves_proof inp hb safe seqs zs D o hcons hcov1

/-- the same for the fragment that `_apply_safety_optimizations` computes (`safetyPipeline`: maximal safe
sequences, longest incompatible sequences with the captured SCC numbering and antichain, zero-fixing), under
the two hypotheses of C06's `incompatible_sound_partial` -/
theorem kcoverc_safety_pipeline_preserves_optimum (inp : WalkInput) (hb : BaseWF inp.base) (X : List Edge)
    (hX : ∀ x ∈ X, x ∈ kcovercTrusted inp) (mapping : List (Node × Nat)) (anti : List (String × String))
    (o : SafetyOpts) (fr : SafetyFrag) (h : safetyPipeline inp.st inp.k X mapping anti o = .ok fr)
    (hanti : AntichainHyp ⟨inp.st.g, mapping⟩ inp.st.source inp.st.sink anti)
    (hshare : ∀ safe, maxSafeSeqs inp.st.g inp.st.source inp.st.sink X = .ok safe →
      NoSharedParallel ⟨inp.st.g, mapping⟩ safe anti)
    (hcons : ∀ con ∈ inp.cfg.constraints, ∀ e ∈ con, e ∈ inp.st.g.edges)
    (hcov1 : inp.cfg.coverage ≤ 1) :
    ((∃ a, Sat a (kcovercLP inp)) ↔ (∃ a, Sat a (kcovercLPS inp fr))) ∧
    (∀ v, IsMin (fun a => Sat a (kcovercLP inp)) (fun a => evalTerms a (kcovercLP inp).obj) v ↔
      IsMin (fun a => Sat a (kcovercLPS inp fr)) (fun a => evalTerms a (kcovercLPS inp fr).obj) v) :=
  FP.kcoverc_pipeline_preserves_proof inp hb X hX mapping anti o fr h hanti hshare hcons hcov1

/-- **C05 for `kFlowDecompCycles` (no given weights), every subset of the six safety flags.** The k-model has no
objective; the model with the options — bound changes, extra rows, appended subset constraints and the
simplified product rows `pi = 0` / `pi = weight` for the keys of `edges_set_to_zero` / `edges_set_to_one` — is
feasible iff the model without them is. `NameInj`: the product blocks have different names (as in C04);
`hwm`: `w_max > 0` as soon as some non-ignored edge carries flow. -/
theorem kfdc_safety_options_preserve_feasibility (inp : WalkInput) (hb : BaseWF inp.base) (hinj : NameInj inp)
    (safe seqs : List (List Edge)) (zs : List (Edge × Nat))
    (D : SafetyData inp.st inp.k (kfdcTrusted inp) safe seqs zs) (o : SafetyOpts)
    (hcons : ∀ con ∈ inp.cfg.constraints, ∀ e ∈ con, e ∈ inp.st.g.edges)
    (hcov1 : inp.cfg.coverage ≤ 1)
    (hwm : kfdcTrusted inp ≠ [] → 0 < inp.wmax false) :
    (∃ a, Sat a (kfdcLP inp none)) ↔
      (∃ a, Sat a (kfdcLPS inp none (safetyExtra inp.st inp.k safe seqs zs o))) :=
  FP.kfdc_safety_preserves_proof inp hb hinj safe seqs zs D o hcons hcov1 hwm

theorem kfdc_safety_pipeline_preserves_feasibility (inp : WalkInput) (hb : BaseWF inp.base)
    (hinj : NameInj inp) (X : List Edge) (hX : ∀ x ∈ X, x ∈ kfdcTrusted inp) (mapping : List (Node × Nat))
    (anti : List (String × String)) (o : SafetyOpts) (fr : SafetyFrag)
    (h : safetyPipeline inp.st inp.k X mapping anti o = .ok fr)
    (hanti : AntichainHyp ⟨inp.st.g, mapping⟩ inp.st.source inp.st.sink anti)
    (hshare : ∀ safe, maxSafeSeqs inp.st.g inp.st.source inp.st.sink X = .ok safe →
      NoSharedParallel ⟨inp.st.g, mapping⟩ safe anti)
    (hcons : ∀ con ∈ inp.cfg.constraints, ∀ e ∈ con, e ∈ inp.st.g.edges)
    (hcov1 : inp.cfg.coverage ≤ 1)
    (hwm : kfdcTrusted inp ≠ [] → 0 < inp.wmax false) :
    (∃ a, Sat a (kfdcLP inp none)) ↔ (∃ a, Sat a (kfdcLPS inp none fr)) :=
  FP.kfdc_pipeline_preserves_proof inp hb hinj X hX mapping anti o fr h hanti hshare hcons hcov1 hwm

/-- the computed data satisfies `SafetyData` (C06 T5, T6 under its hypotheses, T3) -/
theorem pipeline_data_sound (s : STGraph) (hg : GraphWF s.g) (k : Nat) (X T : List Edge)
    (hXT : ∀ x ∈ X, x ∈ T) (mapping : List (Node × Nat)) (anti : List (String × String)) (o : SafetyOpts)
    (fr : SafetyFrag) (h : safetyPipeline s k X mapping anti o = .ok fr)
    (hanti : AntichainHyp ⟨s.g, mapping⟩ s.source s.sink anti)
    (hshare : ∀ safe, maxSafeSeqs s.g s.source s.sink X = .ok safe → NoSharedParallel ⟨s.g, mapping⟩ safe anti) :
    ∃ safe seqs zs, fr = safetyExtra s k safe seqs zs o ∧ SafetyData s k T safe seqs zs :=
  FP.safetyData_of_pipeline s hg k X T hXT mapping anti o fr h hanti hshare

/-! ### the pipeline under the contracts of its two oracle parameters (C06 `incompatible_sound`)

`NoSharedParallel` is not a property of the maximal safe sequences (C06, `exQ_shared`); the three theorems above
are restated with the hypotheses that the harness checks on every real run: `mapping` is an SCC numbering and the
captured antichain is pairwise unreachable in the expanded condensation. The sequences handed to
`get_longest_incompatible_sequences` are the ones `safetyPipeline` computes itself. -/

theorem kcoverc_safety_pipeline_preserves_optimum_full (inp : WalkInput) (hb : BaseWF inp.base) (X : List Edge)
    (hX : ∀ x ∈ X, x ∈ kcovercTrusted inp) (mapping : List (Node × Nat)) (anti : List (String × String))
    (o : SafetyOpts) (fr : SafetyFrag) (h : safetyPipeline inp.st inp.k X mapping anti o = .ok fr)
    (hscc : SccLabelling ⟨inp.st.g, mapping⟩) (hanti : CondAntichain ⟨inp.st.g, mapping⟩ anti)
    (hcons : ∀ con ∈ inp.cfg.constraints, ∀ e ∈ con, e ∈ inp.st.g.edges)
    (hcov1 : inp.cfg.coverage ≤ 1) :
    ((∃ a, Sat a (kcovercLP inp)) ↔ (∃ a, Sat a (kcovercLPS inp fr))) ∧
    (∀ v, IsMin (fun a => Sat a (kcovercLP inp)) (fun a => evalTerms a (kcovercLP inp).obj) v ↔
      IsMin (fun a => Sat a (kcovercLPS inp fr)) (fun a => evalTerms a (kcovercLPS inp fr).obj) v) :=
  FP.c06i_kcoverc_pipeline_preserves inp hb X hX mapping anti o fr h hscc hanti hcons hcov1

theorem kfdc_safety_pipeline_preserves_feasibility_full (inp : WalkInput) (hb : BaseWF inp.base)
    (hinj : NameInj inp) (X : List Edge) (hX : ∀ x ∈ X, x ∈ kfdcTrusted inp) (mapping : List (Node × Nat))
    (anti : List (String × String)) (o : SafetyOpts) (fr : SafetyFrag)
    (h : safetyPipeline inp.st inp.k X mapping anti o = .ok fr)
    (hscc : SccLabelling ⟨inp.st.g, mapping⟩) (hanti : CondAntichain ⟨inp.st.g, mapping⟩ anti)
    (hcons : ∀ con ∈ inp.cfg.constraints, ∀ e ∈ con, e ∈ inp.st.g.edges)
    (hcov1 : inp.cfg.coverage ≤ 1)
    (hwm : kfdcTrusted inp ≠ [] → 0 < inp.wmax false) :
    (∃ a, Sat a (kfdcLP inp none)) ↔ (∃ a, Sat a (kfdcLPS inp none fr)) :=
  FP.c06i_kfdc_pipeline_preserves inp hb hinj X hX mapping anti o fr h hscc hanti hcons hcov1 hwm

/-- the computed data satisfies `SafetyData` (C06 T5, T6 in full, T3); `hnd`: the graph edges are distinct -/
theorem pipeline_data_sound_full (s : STGraph) (hg : GraphWF s.g) (hnd : s.g.edges.Nodup) (k : Nat)
    (X T : List Edge) (hXT : ∀ x ∈ X, x ∈ T) (mapping : List (Node × Nat)) (anti : List (String × String))
    (o : SafetyOpts) (fr : SafetyFrag) (h : safetyPipeline s k X mapping anti o = .ok fr)
    (hscc : SccLabelling ⟨s.g, mapping⟩) (hanti : CondAntichain ⟨s.g, mapping⟩ anti) :
    ∃ safe seqs zs, fr = safetyExtra s k safe seqs zs o ∧ SafetyData s k T safe seqs zs :=
  FP.c06i_safetyData_of_pipeline s hg hnd k X T hXT mapping anti o fr h hscc hanti

/-- the `…_full` forms are not vacuous: on the digraph `exP` of C06 (cycle `a ⇄ b`, parallel edges `a→c`, `b→c`,
second branch through `d`; SCC numbering and antichain of the real run, `k = 3`, all row-producing flags on) the
pipeline runs through — three sequences are handed to the slots, twelve edge variables are fixed to zero — both
contracts hold, and the computed data satisfies `SafetyData` -/
example : safetyPipeline exPst 3 exP.edges exPc.mapping exPanti exPopts =
      .ok (safetyExtra exPst 3 exPseqs exPchosen exPzero exPopts) ∧
    SccLabelling ⟨exPst.g, exPc.mapping⟩ ∧ CondAntichain ⟨exPst.g, exPc.mapping⟩ exPanti ∧
    ∃ safe seqs zs, safetyExtra exPst 3 exPseqs exPchosen exPzero exPopts = safetyExtra exPst 3 safe seqs zs exPopts ∧
      SafetyData exPst 3 exP.edges safe seqs zs :=
  ⟨exP_pipeline, exP_scc, exP_anti,
   pipeline_data_sound_full exPst exP_wf exP_nodup 3 exP.edges exP.edges (fun _ h => h) exPc.mapping exPanti exPopts _
     exP_pipeline exP_scc exP_anti⟩

/-! ## Non-vacuity: the README graph `s→a, a⇄b, a→t` (flows 1, 2, 2, 1; `k = 1`) -/

open FP.Props.C04 in
/-- its maximal safe sequence: the whole walk once round the cycle -/
def readmeSeq : List (List Edge) :=
  [[("source", "s"), ("s", "a"), ("a", "b"), ("b", "a"), ("a", "t"), ("t", "sink")]]

/-- all row-producing flags on -/
def readmeOpts : SafetyOpts := { safeSequences := true, allowGeq := true, fixZero := true }

set_option maxRecDepth 100000 in
theorem readme_maxSafeSeqs :
    maxSafeSeqs FP.Props.C04.readmeInp.st.g "source" "sink" (kfdcTrusted FP.Props.C04.readmeInp) = .ok readmeSeq := by
  decide +kernel

set_option maxRecDepth 100000 in
theorem readme_zeroFix : zeroFix FP.Props.C04.readmeInp.st.g readmeSeq 1 = .ok [] := by decide +kernel

theorem readme_data :
    SafetyData FP.Props.C04.readmeInp.st FP.Props.C04.readmeInp.k (kfdcTrusted FP.Props.C04.readmeInp)
      readmeSeq readmeSeq [] := by
  have hwf : STWFc FP.Props.C04.readmeInp.st := augment_wfc _ _ _ FP.Props.C04.readme_wf
  have hsafe := FP.Props.C06.maximal_safe_sequences_safe _ hwf.closed "source" "sink" _ _ readme_maxSafeSeqs
  exact ⟨hsafe, hsafe, by decide +kernel, List.pairwise_singleton _ _,
    FP.zeroSound_of_zeroFix _ hwf.closed _ _ _ readme_zeroFix⟩

/-- the fragment has six rows: `x = 1` on the four edges outside the cycle, `x ≥ 1` on `a→b`, `b→a` -/
example : (safetyExtra FP.Props.C04.readmeInp.st 1 readmeSeq readmeSeq [] readmeOpts).one
    = [(("source", "s"), 0), (("s", "a"), 0), (("a", "t"), 0), (("t", "sink"), 0)] := by decide +kernel
example : (geqEntries FP.Props.C04.readmeInp.st.g 1 readmeSeq).map (fun p => (p.1, p.2.1, p.2.2))
    = [(("a", "b"), 0, 1), (("b", "a"), 0, 1)] := by decide +kernel

/-- the README instance is feasible without the options (C04), hence — by the theorem — with them -/
example : ∃ a, Sat a (kfdcLPS FP.Props.C04.readmeInp none
    (safetyExtra FP.Props.C04.readmeInp.st 1 readmeSeq readmeSeq [] readmeOpts)) := by
  have hbase : ∃ a, Sat a (kfdcLP FP.Props.C04.readmeInp none) := by
    obtain ⟨a, ha, _⟩ := FP.Props.C04.kfdc_complete_walks FP.Props.C04.readmeInp _ _ FP.Props.C04.readme_wf
      (by decide) FP.Props.C04.readme_names FP.Props.C04.readme_within
    exact ⟨a, ha⟩
  exact (kfdc_safety_options_preserve_feasibility FP.Props.C04.readmeInp FP.Props.C04.readme_wf
    FP.Props.C04.readme_names readmeSeq readmeSeq [] readme_data readmeOpts
    (fun _ h => nomatch h) (by decide +kernel) (fun _ => by decide +kernel)).1 hbase

end FP.Props.C05
