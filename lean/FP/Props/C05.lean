import FP.Model.Basic
import FP.Model.Search
import FP.Proofs.Search
/-!
# C05 — optimisation options never change solvability or the optimal objective

The options act in three ways: (1) they add rows / tighten bounds (`extra`) to the base LP of a
k-model, (2) they replace a row by a bound (fixing through variable bounds), (3) they let a search
accept a solution found by other means (greedy, given weights) at the `k` under test. This file
proves the generic facts for each; that the concrete safe sequences satisfy hypothesis `h` of
`opt_preserved` is the business of C06 and is, for now, covered by the metamorphic oracle.
-/
namespace FP.Props.C05
open FP

/-- `v` is the minimum of `obj` over the feasible set `P` (attained) -/
def IsMin {α} (P : α → Prop) (obj : α → Rat) (v : Rat) : Prop :=
  (∃ s, P s ∧ obj s = v) ∧ ∀ s, P s → v ≤ obj s

/-- **Optimum preservation.** If every base-feasible point can be mapped to a base-feasible point
with the same objective that also satisfies the extra constraints, then adding the extra
constraints changes neither feasibility nor the optimal value. -/
theorem opt_preserved {α} (Base Extra : α → Prop) (obj : α → Rat)
    (h : ∀ s, Base s → ∃ s', Base s' ∧ Extra s' ∧ obj s' = obj s) :
    ((∃ s, Base s) ↔ (∃ s, Base s ∧ Extra s)) ∧
    (∀ v, IsMin Base obj v ↔ IsMin (fun s => Base s ∧ Extra s) obj v) := by
  refine ⟨⟨fun ⟨s, hs⟩ => ?_, fun ⟨s, hs, _⟩ => ⟨s, hs⟩⟩, fun v => ⟨fun ⟨⟨s, hs, hv⟩, hmin⟩ => ?_, fun ⟨⟨s, ⟨hs, _⟩, hv⟩, hmin⟩ => ?_⟩⟩
  · obtain ⟨s', h1, h2, _⟩ := h s hs; exact ⟨s', h1, h2⟩
  · obtain ⟨s', h1, h2, h3⟩ := h s hs
    exact ⟨⟨s', ⟨h1, h2⟩, by rw [h3, hv]⟩, fun t ht => hmin t ht.1⟩
  · refine ⟨⟨s, hs, hv⟩, fun t ht => ?_⟩
    obtain ⟨t', h1, h2, h3⟩ := h t ht
    have := hmin t' ⟨h1, h2⟩
    rw [h3] at this; exact this

/-- the feasible set of `base ++ extra` is the intersection of the two feasible sets -/
theorem sat_append (a : Asg) (l1 l2 : LP) : Sat a (l1.append l2) ↔ Sat a l1 ∧ Sat a l2 := by
  simp only [Sat, LP.append, List.mem_append]
  constructor
  · rintro ⟨hc, hr⟩
    exact ⟨⟨fun c hc' => hc c (Or.inl hc'), fun r hr' => hr r (Or.inl hr')⟩,
           ⟨fun c hc' => hc c (Or.inr hc'), fun r hr' => hr r (Or.inr hr')⟩⟩
  · rintro ⟨⟨hc1, hr1⟩, ⟨hc2, hr2⟩⟩
    exact ⟨fun c hc' => hc'.elim (hc1 c) (hc2 c), fun r hr' => hr'.elim (hr1 r) (hr2 r)⟩

/-- raising the lower bound of a column to `m` (what `queue_set_var_lower_bound` + an exact batch
update does, C12) admits exactly the assignments that the row `x ≥ m` admits -/
theorem lowerBound_row_equiv (a : Asg) (c : Col) (m : Rat) (hm : c.lb ≤ m) :
    ({ c with lb := m } : Col).holds a ↔ (c.holds a ∧ (rowGe [(1, c.v)] m).holds a) := by
  simp [Col.holds, Row.holds, rowGe, evalTerms]
  grind

/-- fixing a column to `v` through its bounds admits exactly what the row `x = v` admits
(for `v` inside the original bounds) -/
theorem fix_row_equiv (a : Asg) (c : Col) (v : Rat) (hl : c.lb ≤ v) (hu : ∀ u, c.ub = some u → v ≤ u) :
    ({ c with lb := v, ub := some v } : Col).holds a ↔ (c.holds a ∧ (rowEq [(1, c.v)] v).holds a) := by
  simp [Col.holds, Row.holds, rowEq, evalTerms]
  grind

/-! ### search-level shortcuts (greedy, guessed / given weights) -/
open FP.Search

/-- A search that, at iteration `k`, may accept a ready-made solution (`shortcut k = true`)
instead of asking the solver. -/
def shortcutLoop (σ : Nat → Status) (shortcut : Nat → Bool) : Nat → Nat → Option Nat
  | 0, _ => none
  | n+1, k =>
    if shortcut k then some k else
    match σ k with
    | .optimal => some k
    | .infeasible => shortcutLoop σ shortcut n (k+1)
    | .other => none

/-- **Shortcuts do not change the answer.** If a shortcut is only ever offered at a `k` whose
k-model is feasible (the ready-made solution *is* a solution with exactly `k` routes — the code
checks `len(paths) == k`), the search with shortcuts returns what the plain search returns. -/
theorem shortcut_preserves_search (σ : Nat → Status) (shortcut : Nat → Bool)
    (h : ∀ k, shortcut k = true → σ k = .optimal) :
    ∀ n k, shortcutLoop σ shortcut n k = (stopLoop σ n k []).solved := by
  intro n
  induction n with
  | zero => intro k; simp [shortcutLoop, stopLoop]
  | succ n ih =>
    intro k
    unfold shortcutLoop stopLoop
    by_cases hs : shortcut k = true
    · simp [hs, h k hs]
    · simp only [hs]
      cases hk : σ k with
      | optimal => simp
      | infeasible =>
        simp only [Bool.false_eq_true, if_false]
        rw [ih (k+1)]
        have := stopLoop_solved_acc σ n (k+1) [] [(k, Status.infeasible)]
        simpa using this
      | other => simp

end FP.Props.C05
