import FP.Model.Basic
import FP.Model.Search
import FP.Proofs.Search
import FP.Spec.Optimum
import FP.Spec.Safety
import FP.Model.WalkSafetyRows
import FP.Proofs.C05Base
import FP.Proofs.C05Perm
import FP.Proofs.C05Slots
import FP.Proofs.C05Bounds
import FP.Proofs.C05Opt
import FP.Proofs.C05KCoverC
import FP.Proofs.C05KFDC
import FP.Proofs.C06IncompatPipeline
import FP.Props.C04
import FP.Props.C06
import FP.Model.PathSafetyRows
import FP.Proofs.C05DagBase
import FP.Proofs.C05DagLayers
import FP.Proofs.C05DagConstraints
import FP.Proofs.C05DagOpt
import FP.Proofs.C05DagClasses
import FP.Proofs.C05DagFlowSafe
import FP.Proofs.C05DagPerm
import FP.Proofs.DecompExample
import FP.Props.C03
import FP.Props.C09
/-!
# C05 — optimisation options never change solvability or the optimal objective

The options act in three ways: (1) they add rows / tighten bounds (`extra`) to the base LP of a
k-model, (2) they replace a row by a bound (fixing through variable bounds), (3) they let a search
accept a solution found by other means (greedy, given weights) at the `k` under test.

**Generic facts** (first part): `opt_preserved`, `sat_append`, `lowerBound_row_equiv`, `fix_row_equiv`,
`shortcut_preserves_search`.

**The safety options of the cyclic (walk) models** (second part; model `FP/Model/WalkSafetyRows.lean`, tied to
the real constructors by the K2 adapters `kcoverc_safety`, `kfdc_safety`):

* T1 `layer_perm_invariant` (`_kcoverc`, `_kfdc`) — the LPs are invariant under permutations of the layers;
* T2 `safety_rows_satisfiable_after_perm` — every solution can be re-indexed so that slot `j` contains the safe
  sequence handed to it: all rows of the fragment hold (uses C01 `walkcore_sound`, C04 `nonScc_once`, C06 T3/T5/T6);
* T3 `safety_options_preserve_optimum` (generic), `bounds_variant_equiv`;
* T4 `subset_variants_extend` — safe sequences appended as subset constraints (completeness of the subset block);
* `kcoverc_safety_options_preserve_optimum`, `kfdc_safety_options_preserve_feasibility` — `kPathCoverCycles`
  (feasibility and minimum) and `kFlowDecompCycles` without given weights (feasibility; the k-model has no
  objective) for **every** subset of the six flags, given what C06 proves about the computed data
  (`SafetyData`); `…_pipeline` — the same for the fragment that `safetyPipeline` computes, under the hypotheses of
  C06's `incompatible_sound_partial` (`AntichainHyp`, `NoSharedParallel`); `…_pipeline_…_full`,
  `pipeline_data_sound_full` — under the contracts of the two oracle parameters only (C06 `incompatible_sound`):
  `mapping` numbers the strongly connected components (`SccLabelling`) and the captured antichain is pairwise
  unreachable in the expanded condensation (`CondAntichain`, which C17 proves for the extraction).

**The safety options of the DAG (path) models** (third part; model `FP/Model/PathSafetyRows.lean`, tied to the real
constructors by the K2 adapters `kfd_safety`, `kcover_safety`, `klae_safety`, `kmpe_safety`). On this tree
`AbstractPathModelDAG.create_solver_and_paths` never calls `_apply_safety_optimizations`, so the six flags reach
the LP in one way only: under `optimize_with_safety_as_subpath_constraints` the safe lists assembled by `__init__`
join the subpath constraints.

* `dag_safety_flags_lp_identical`, `dag_safety_fragment_shape` — without that flag the LP of `kFlowDecomp`,
  `kPathCover`, `kLeastAbsErrors`, `kMinPathError` is, term by term, the LP built without any option; with it, the
  option-free LP of the input with the extended constraint list (`dag_safety_lp_is_extended_input`);
* `dag_safe_lists_in_layers` — every list that `__init__` assembles (safe paths: C06 T1; safe sequences of trusted
  edges and of subpath constraints of full coverage: C06 T2, C10 `constraint_honoured`) runs inside one layer of
  every solution whose layers use all trusted edges;
* `dag_append_constraints`, `dag_drop_constraints` — appending such lists keeps the LP satisfiable (C10
  `constraint_complete` re-chooses the `r` columns; the appended lists share the coverage fraction of the user's
  constraints, which only weakens them), dropping them keeps the same assignment feasible;
* `layer_perm_invariant_dag` (`_kcover`, `_kfd`) — T1 for the DAG encoders (not needed on this tree: no safety
  row distinguishes a layer);
* `dag_safety_options_preserve_optimum` (generic), `kcover_safety_options_preserve_optimum`,
  `kfd_safety_options_preserve_feasibility` — for **every** subset of the six flags; "every trusted edge is used by
  some path of every solution" is derived for the two classes (`kcover_uses_trusted`, `kfd_uses_trusted`).
  `kFlowDecomp`'s flow-safe paths (`external_safe_paths`) are covered as well: they exist only when nothing is
  ignored (`kfdExternalOK`, fix 3d0fcdd) and then lie in some path of every solution
  (`kfd_flow_safe_paths_in_layers`, from C02 `kfd_exact` and C06 `excess_flow_safe`).

Not covered by theorems (oracle only, see `harness/props/c05.py`): the error models' instances of the generic
theorems, `kFlowDecompCycles` with `given_weights` (the rows `weights_i = w_i` are not layer-symmetric; the library
uses that configuration only as a heuristic upper bound), the DAG models with given weights, lower-bound options.
-/
namespace FP.Props.C05
open FP FP.Spec

/-- `v` is the minimum of `obj` over the feasible set `P` (attained) -/
abbrev IsMin {α} (P : α → Prop) (obj : α → Rat) (v : Rat) : Prop := FP.Spec.IsMin P obj v

/-- **Optimum preservation.** If every base-feasible point can be mapped to a base-feasible point
with the same objective that also satisfies the extra constraints, then adding the extra
constraints changes neither feasibility nor the optimal value. -/
theorem opt_preserved {α} (Base Extra : α → Prop) (obj : α → Rat)
    (h : ∀ s, Base s → ∃ s', Base s' ∧ Extra s' ∧ obj s' = obj s) :
    ((∃ s, Base s) ↔ (∃ s, Base s ∧ Extra s)) ∧
    (∀ v, IsMin Base obj v ↔ IsMin (fun s => Base s ∧ Extra s) obj v) :=
  FP.opt_preserved_proof Base Extra obj h

/-- the feasible set of `base ++ extra` is the intersection of the two feasible sets -/
theorem sat_append (a : Asg) (l1 l2 : LP) : Sat a (l1.append l2) ↔ Sat a l1 ∧ Sat a l2 := by
  simp only [Sat, LP.append, List.mem_append]
  constructor
  · rintro ⟨hc, hr⟩
    exact ⟨⟨fun c hc' => hc c (Or.inl hc'), fun r hr' => hr r (Or.inl hr')⟩,
           ⟨fun c hc' => hc c (Or.inr hc'), fun r hr' => hr r (Or.inr hr')⟩⟩
  · rintro ⟨⟨hc1, hr1⟩, ⟨hc2, hr2⟩⟩
    exact ⟨fun c hc' => hc'.elim (hc1 c) (hc2 c), fun r hr' => hr'.elim (hr1 r) (hr2 r)⟩

/-- raising the lower bound of a column to `m` (what `queue_set_var_lower_bound` + an exact batch
update does, C12) admits exactly the assignments that the row `x ≥ m` admits -/
theorem lowerBound_row_equiv (a : Asg) (c : Col) (m : Rat) (hm : c.lb ≤ m) :
    ({ c with lb := m } : Col).holds a ↔ (c.holds a ∧ (rowGe [(1, c.v)] m).holds a) :=
  FP.lowerBound_row_equiv_proof a c m hm

/-- fixing a column to `v` through its bounds admits exactly what the row `x = v` admits
(for `v` inside the original bounds) -/
theorem fix_row_equiv (a : Asg) (c : Col) (v : Rat) (hl : c.lb ≤ v) (hu : ∀ u, c.ub = some u → v ≤ u) :
    ({ c with lb := v, ub := some v } : Col).holds a ↔ (c.holds a ∧ (rowEq [(1, c.v)] v).holds a) :=
  FP.fix_row_equiv_proof a c v hl hu

/-! ### search-level shortcuts (greedy, guessed / given weights) -/
open FP.Search

/-- A search that, at iteration `k`, may accept a ready-made solution (`shortcut k = true`)
instead of asking the solver. -/
def shortcutLoop (σ : Nat → Status) (shortcut : Nat → Bool) : Nat → Nat → Option Nat
  | 0, _ => none
  | n+1, k =>
    if shortcut k then some k else
    match σ k with
    | .optimal => some k
    | .infeasible => shortcutLoop σ shortcut n (k+1)
    | .other => none

/-- **Shortcuts do not change the answer.** If a shortcut is only ever offered at a `k` whose
k-model is feasible (the ready-made solution *is* a solution with exactly `k` routes — the code
checks `len(paths) == k`), the search with shortcuts returns what the plain search returns. -/
theorem shortcut_preserves_search (σ : Nat → Status) (shortcut : Nat → Bool)
    (h : ∀ k, shortcut k = true → σ k = .optimal) :
    ∀ n k, shortcutLoop σ shortcut n k = (stopLoop σ n k []).solved := by
  intro n
  induction n with
  | zero => intro k; simp [shortcutLoop, stopLoop]
  | succ n ih =>
    intro k
    unfold shortcutLoop stopLoop
    by_cases hs : shortcut k = true
    · simp [hs, h k hs]
    · simp only [hs]
      cases hk : σ k with
      | optimal => simp
      | infeasible =>
        simp only [Bool.false_eq_true, if_false]
        rw [ih (k+1)]
        have := stopLoop_solved_acc σ n (k+1) [] [(k, Status.infeasible)]
        simpa using this
      | other => simp

/-! ## the safety options of the walk models -/
open FP.Safety

/-- C06 T6 as a property of the sequences handed to the slots: no source-to-sink walk contains two of them -/
def PairwiseIncompatible (s : STGraph) (seqs : List (List Edge)) : Prop :=
  seqs.Pairwise fun p q => ¬ CoOccur s.g s.source s.sink p q

/-- **T1 (`layer_perm_invariant`).** `create_solver_and_walks` without safety options: a satisfying assignment
stays one when the layers are permuted (every row family is generated uniformly over `range k`). -/
theorem layer_perm_invariant (s : STGraph) (c : WalkCfg) (ub : Edge → Rat) (a : Asg) (π : LayerPerm c.k)
    (h : Sat a (walkCore s c ub)) : Sat (a ∘ permLayers π.fwd) (walkCore s c ub) :=
  FP.walkCore_perm s c ub a π _ (permLayers_isLayerRenaming π.fwd) h

/-- T1 for `kPathCoverCycles`: feasibility and the objective (total number of edge traversals) -/
theorem layer_perm_invariant_kcoverc (inp : WalkInput) (a : Asg) (π : LayerPerm inp.k)
    (h : Sat a (kcovercLP inp)) :
    Sat (a ∘ permLayers π.fwd) (kcovercLP inp) ∧
    evalTerms (a ∘ permLayers π.fwd) (kcovercLP inp).obj = evalTerms a (kcovercLP inp).obj :=
  FP.kcovercLP_perm inp a π _ (permLayers_isLayerRenaming π.fwd) h

/-- T1 for `kFlowDecompCycles` (no given weights; the k-model has no objective). The renaming `permLayersK` also
moves the weight columns and the bit / component columns of the product blocks, whose names contain the layer. -/
theorem layer_perm_invariant_kfdc (inp : WalkInput) (hinj : NameInj inp) (a : Asg) (π : LayerPerm inp.k)
    (h : Sat a (kfdcLP inp none)) :
    Sat (a ∘ permLayersK inp π.fwd) (kfdcLP inp none) ∧
    (∀ e i, (a ∘ permLayersK inp π.fwd) (edgeVar e i) = a (edgeVar e (π.fwd i))) ∧
    (∀ i, (a ∘ permLayersK inp π.fwd) (weightsVar i) = a (weightsVar (π.fwd i))) :=
  ⟨FP.kfdcLP_perm inp hinj a π h, fun _ _ => rfl, fun i => by
    show a (permLayersK inp π.fwd (weightsVar i)) = _
    rw [permLayersK_weights]⟩

/-- **T2 (`safety_rows_satisfiable_after_perm`).** `a` satisfies `_encode_walks` and traverses every trusted edge
in some layer (cover rows of `kPathCoverCycles`; positive flow for `kFlowDecompCycles`). The sequences are safe
for the trusted edges (C06 T5), pairwise incompatible (C06 T6), the zero-fixed keys sound (C06 T3). Then some
permutation of the layers makes slot `j`'s walk contain `seqs[j]` with multiplicity (`x(e,j) ≥ m`), use every
edge of it outside the SCCs exactly once (`x(e,j) = 1`) and no zero-fixed edge (`x(e,j) = 0`) — all rows of the
fragment hold for the permuted assignment, whatever the flags. -/
theorem safety_rows_satisfiable_after_perm (s : STGraph) (c : WalkCfg) (ub : Edge → Rat) (a : Asg)
    (hwf : STWFc s) (hsat : Sat a (encodeWalks s c ub)) (X : List Edge) (hX : ∀ x ∈ X, x ∈ s.g.edges)
    (hcover : ∀ x ∈ X, ∃ i, i < c.k ∧ 1 ≤ a (edgeVar x i))
    (seqs : List (List Edge)) (hsafe : ∀ q ∈ seqs, SafeFor s.g s.source s.sink X q)
    (hinc : PairwiseIncompatible s seqs) (zs : List (Edge × Nat)) (hzs : ZeroSound s.g seqs c.k zs) :
    ∃ π : LayerPerm c.k, SlotsFit s a c.k seqs zs π ∧
      ∀ (safe : List (List Edge)) (o : SafetyOpts),
        ∀ r ∈ (safetyExtra s c.k safe seqs zs o).asRows, r.holds (a ∘ permLayers π.fwd) := by
  obtain ⟨π, hfit⟩ := FP.slotsFit_exists hwf hsat X hX hcover seqs hsafe hinc zs hzs
  exact ⟨π, hfit, fun safe o => FP.safetyRows_hold hfit _ (permLayers_isLayerRenaming π.fwd) safe o⟩

/-- the zero-fixed keys computed by `_apply_safety_optimizations_fix_zero_edges` are sound (C06 T3) -/
theorem zero_fix_keys_sound (g : Graph) (hg : GraphWF g) (seqs : List (List Edge)) (k : Nat)
    (zs : List (Edge × Nat)) (h : zeroFix g seqs k = .ok zs) : ZeroSound g seqs k zs :=
  FP.zeroSound_of_zeroFix g hg seqs k zs h

/-- **T3 (`safety_options_preserve_optimum`), generic.** For every model on top of `_encode_walks` whose feasible
set `Base` and objective `obj` are invariant under permutations of the layers and whose solutions traverse
every edge of `X`: adding the rows of the safety fragment (any flags) changes neither feasibility nor the
minimum. (T1 + T2 + `opt_preserved`.) -/
theorem safety_options_preserve_optimum (s : STGraph) (c : WalkCfg) (ub : Edge → Rat) (hwf : STWFc s)
    (Base : Asg → Prop) (obj : Asg → Rat) (X : List Edge) (hX : ∀ x ∈ X, x ∈ s.g.edges)
    (hcore : ∀ a, Base a → Sat a (encodeWalks s c ub))
    (hcover : ∀ a, Base a → ∀ x ∈ X, ∃ i, i < c.k ∧ 1 ≤ a (edgeVar x i))
    (hsym : ∀ a (π : LayerPerm c.k), Base a →
      Base (a ∘ permLayers π.fwd) ∧ obj (a ∘ permLayers π.fwd) = obj a)
    (seqs : List (List Edge)) (hsafe : ∀ q ∈ seqs, SafeFor s.g s.source s.sink X q)
    (hinc : PairwiseIncompatible s seqs)
    (zs : List (Edge × Nat)) (hzs : ZeroSound s.g seqs c.k zs) (safe : List (List Edge)) (o : SafetyOpts) :
    ((∃ a, Base a) ↔ (∃ a, Base a ∧ ∀ r ∈ (safetyExtra s c.k safe seqs zs o).asRows, r.holds a)) ∧
    (∀ v, IsMin Base obj v ↔
      IsMin (fun a => Base a ∧ ∀ r ∈ (safetyExtra s c.k safe seqs zs o).asRows, r.holds a) obj v) :=
  FP.safety_rows_preserve_optimum_proof s c ub hwf Base obj X hX hcore hcover hsym seqs hsafe hinc zs hzs safe o

/-- **`bounds_variant_equiv`.** `optimize_with_safe_sequences_fix_via_bounds`: the LP with the queued bound
changes flushed admits exactly the assignments of the LP with the corresponding rows. -/
theorem bounds_variant_equiv (s : STGraph) (c : WalkCfg) (ub : Edge → Rat) (safe seqs : List (List Edge))
    (zs : List (Edge × Nat)) (o : SafetyOpts)
    (hE : ∀ q ∈ seqs, ∀ e ∈ q, e ∈ s.g.edges)
    (hub1 : ∀ e ∈ s.g.edges, isSccEdge s.g e = false → 1 ≤ ub e) (a : Asg) :
    Sat a (walkCoreS s c ub (safetyExtra s c.k safe seqs zs o)) ↔
      Sat a (walkCoreS s c ub (SafetyFrag.rowVariant (safetyExtra s c.k safe seqs zs o))) :=
  FP.bounds_variant_equiv_proof s c ub _ (FP.safetyExtra_boundsOK s c.k ub safe seqs zs o hE hub1) a

/-- what the LP with a fragment says: `_encode_walks`, the rows of the fragment (row variant), and the subset
block on the extended list of constraints -/
theorem sat_walkCoreS (s : STGraph) (c : WalkCfg) (ub : Edge → Rat) (fr : SafetyFrag)
    (hok : BoundsOK s c.k ub fr) (a : Asg) :
    Sat a (walkCoreS s c ub fr) ↔
      Sat a (encodeWalks s c ub) ∧ (∀ r ∈ fr.asRows, r.holds a) ∧
      Sat a (subsetBlock s (c.withSafety fr) ub) :=
  FP.sat_walkCoreS_iff s c ub fr hok a

/-- **T4 (`subset_variants_extend`).** `optimize_with_safety_as_subset_constraints` /
`optimize_with_max_safe_antichain_as_subset_constraints`: appending subset constraints each of which some layer
traverses completely (a safe sequence is contained in some walk of every solution, C06 T5) keeps the LP
satisfiable; only the `r` and `used_edge` columns get new values (`subsetAsg`). This is the completeness of
the subset block for appended constraints (C10's `subset_constraint_complete` is the general form). -/
theorem subset_variants_extend (s : STGraph) (c : WalkCfg) (ub : Edge → Rat) (a : Asg) (E : List (List Edge))
    (hsat : Sat a (walkCore s c ub))
    (hcons : ∀ con ∈ c.constraints, ∀ e ∈ con, e ∈ s.g.edges)
    (hcov1 : c.coverage ≤ 1)
    (hE : ∀ q ∈ E, ∃ i, i < c.k ∧ ∀ e ∈ q, e ∈ s.g.edges ∧ 1 ≤ a (edgeVar e i)) :
    Sat (subsetAsg a (c.constraints ++ E) c.coverage)
      (walkCore s { c with constraints := c.constraints ++ E } ub) ∧
    (∀ e i, subsetAsg a (c.constraints ++ E) c.coverage (edgeVar e i) = a (edgeVar e i)) :=
  ⟨FP.subset_extend s c ub a E hsat hcons hcov1 hE, fun e i => FP.subsetAsg_edge a _ _ e i⟩

/-- … and dropping appended constraints keeps an assignment feasible -/
theorem subset_variants_drop (s : STGraph) (c : WalkCfg) (ub : Edge → Rat) (a : Asg) (E : List (List Edge))
    (h : Sat a (subsetBlock s { c with constraints := c.constraints ++ E } ub)) :
    Sat a (subsetBlock s c ub) :=
  FP.subsetBlock_drop s c ub a E h

/-- **C05 for `kPathCoverCycles`, every subset of the six safety flags.** With what C06 proves about the computed
data (`SafetyData`: T5 for the maximal safe sequences and for those handed to the slots, T6, T3), the documented
requirements on subset constraints (edges of the graph, coverage `≤ 1`) and a well-formed input graph: the LP
built with the options (`kcovercLPS`, which K2 ties to the real constructor) is feasible iff the LP without
them is, and both have the same minimal objective. -/
theorem kcoverc_safety_options_preserve_optimum (inp : WalkInput) (hb : BaseWF inp.base)
    (safe seqs : List (List Edge)) (zs : List (Edge × Nat))
    (D : SafetyData inp.st inp.k (kcovercTrusted inp) safe seqs zs) (o : SafetyOpts)
    (hcons : ∀ con ∈ inp.cfg.constraints, ∀ e ∈ con, e ∈ inp.st.g.edges)
    (hcov1 : inp.cfg.coverage ≤ 1) :
    ((∃ a, Sat a (kcovercLP inp)) ↔ (∃ a, Sat a (kcovercLPS inp (safetyExtra inp.st inp.k safe seqs zs o)))) ∧
    (∀ v, IsMin (fun a => Sat a (kcovercLP inp)) (fun a => evalTerms a (kcovercLP inp).obj) v ↔
      IsMin (fun a => Sat a (kcovercLPS inp (safetyExtra inp.st inp.k safe seqs zs o)))
        (fun a => evalTerms a (kcovercLPS inp (safetyExtra inp.st inp.k safe seqs zs o)).obj) v) :=
  FP.kcoverc_safety_preserves_proof inp hb safe seqs zs D o hcons hcov1

/-- the same for the fragment that `_apply_safety_optimizations` computes (`safetyPipeline`: maximal safe
sequences, longest incompatible sequences with the captured SCC numbering and antichain, zero-fixing), under
the two hypotheses of C06's `incompatible_sound_partial` -/
theorem kcoverc_safety_pipeline_preserves_optimum (inp : WalkInput) (hb : BaseWF inp.base) (X : List Edge)
    (hX : ∀ x ∈ X, x ∈ kcovercTrusted inp) (mapping : List (Node × Nat)) (anti : List (String × String))
    (o : SafetyOpts) (fr : SafetyFrag) (h : safetyPipeline inp.st inp.k X mapping anti o = .ok fr)
    (hanti : AntichainHyp ⟨inp.st.g, mapping⟩ inp.st.source inp.st.sink anti)
    (hshare : ∀ safe, maxSafeSeqs inp.st.g inp.st.source inp.st.sink X = .ok safe →
      NoSharedParallel ⟨inp.st.g, mapping⟩ safe anti)
    (hcons : ∀ con ∈ inp.cfg.constraints, ∀ e ∈ con, e ∈ inp.st.g.edges)
    (hcov1 : inp.cfg.coverage ≤ 1) :
    ((∃ a, Sat a (kcovercLP inp)) ↔ (∃ a, Sat a (kcovercLPS inp fr))) ∧
    (∀ v, IsMin (fun a => Sat a (kcovercLP inp)) (fun a => evalTerms a (kcovercLP inp).obj) v ↔
      IsMin (fun a => Sat a (kcovercLPS inp fr)) (fun a => evalTerms a (kcovercLPS inp fr).obj) v) :=
  FP.kcoverc_pipeline_preserves_proof inp hb X hX mapping anti o fr h hanti hshare hcons hcov1

/-- **C05 for `kFlowDecompCycles` (no given weights), every subset of the six safety flags.** The k-model has no
objective; the model with the options — bound changes, extra rows, appended subset constraints and the
simplified product rows `pi = 0` / `pi = weight` for the keys of `edges_set_to_zero` / `edges_set_to_one` — is
feasible iff the model without them is. `NameInj`: the product blocks have different names (as in C04);
`hwm`: `w_max > 0` as soon as some non-ignored edge carries flow. -/
theorem kfdc_safety_options_preserve_feasibility (inp : WalkInput) (hb : BaseWF inp.base) (hinj : NameInj inp)
    (safe seqs : List (List Edge)) (zs : List (Edge × Nat))
    (D : SafetyData inp.st inp.k (kfdcTrusted inp) safe seqs zs) (o : SafetyOpts)
    (hcons : ∀ con ∈ inp.cfg.constraints, ∀ e ∈ con, e ∈ inp.st.g.edges)
    (hcov1 : inp.cfg.coverage ≤ 1)
    (hwm : kfdcTrusted inp ≠ [] → 0 < inp.wmax false) :
    (∃ a, Sat a (kfdcLP inp none)) ↔
      (∃ a, Sat a (kfdcLPS inp none (safetyExtra inp.st inp.k safe seqs zs o))) :=
  FP.kfdc_safety_preserves_proof inp hb hinj safe seqs zs D o hcons hcov1 hwm

theorem kfdc_safety_pipeline_preserves_feasibility (inp : WalkInput) (hb : BaseWF inp.base)
    (hinj : NameInj inp) (X : List Edge) (hX : ∀ x ∈ X, x ∈ kfdcTrusted inp) (mapping : List (Node × Nat))
    (anti : List (String × String)) (o : SafetyOpts) (fr : SafetyFrag)
    (h : safetyPipeline inp.st inp.k X mapping anti o = .ok fr)
    (hanti : AntichainHyp ⟨inp.st.g, mapping⟩ inp.st.source inp.st.sink anti)
    (hshare : ∀ safe, maxSafeSeqs inp.st.g inp.st.source inp.st.sink X = .ok safe →
      NoSharedParallel ⟨inp.st.g, mapping⟩ safe anti)
    (hcons : ∀ con ∈ inp.cfg.constraints, ∀ e ∈ con, e ∈ inp.st.g.edges)
    (hcov1 : inp.cfg.coverage ≤ 1)
    (hwm : kfdcTrusted inp ≠ [] → 0 < inp.wmax false) :
    (∃ a, Sat a (kfdcLP inp none)) ↔ (∃ a, Sat a (kfdcLPS inp none fr)) :=
  FP.kfdc_pipeline_preserves_proof inp hb hinj X hX mapping anti o fr h hanti hshare hcons hcov1 hwm

/-- the computed data satisfies `SafetyData` (C06 T5, T6 under its hypotheses, T3) -/
theorem pipeline_data_sound (s : STGraph) (hg : GraphWF s.g) (k : Nat) (X T : List Edge)
    (hXT : ∀ x ∈ X, x ∈ T) (mapping : List (Node × Nat)) (anti : List (String × String)) (o : SafetyOpts)
    (fr : SafetyFrag) (h : safetyPipeline s k X mapping anti o = .ok fr)
    (hanti : AntichainHyp ⟨s.g, mapping⟩ s.source s.sink anti)
    (hshare : ∀ safe, maxSafeSeqs s.g s.source s.sink X = .ok safe → NoSharedParallel ⟨s.g, mapping⟩ safe anti) :
    ∃ safe seqs zs, fr = safetyExtra s k safe seqs zs o ∧ SafetyData s k T safe seqs zs :=
  FP.safetyData_of_pipeline s hg k X T hXT mapping anti o fr h hanti hshare

/-! ### the pipeline under the contracts of its two oracle parameters (C06 `incompatible_sound`)

`NoSharedParallel` is not a property of the maximal safe sequences (C06, `exQ_shared`); the three theorems above
are restated with the hypotheses that the harness checks on every real run: `mapping` is an SCC numbering and the
captured antichain is pairwise unreachable in the expanded condensation. The sequences handed to
`get_longest_incompatible_sequences` are the ones `safetyPipeline` computes itself. -/

theorem kcoverc_safety_pipeline_preserves_optimum_full (inp : WalkInput) (hb : BaseWF inp.base) (X : List Edge)
    (hX : ∀ x ∈ X, x ∈ kcovercTrusted inp) (mapping : List (Node × Nat)) (anti : List (String × String))
    (o : SafetyOpts) (fr : SafetyFrag) (h : safetyPipeline inp.st inp.k X mapping anti o = .ok fr)
    (hscc : SccLabelling ⟨inp.st.g, mapping⟩) (hanti : CondAntichain ⟨inp.st.g, mapping⟩ anti)
    (hcons : ∀ con ∈ inp.cfg.constraints, ∀ e ∈ con, e ∈ inp.st.g.edges)
    (hcov1 : inp.cfg.coverage ≤ 1) :
    ((∃ a, Sat a (kcovercLP inp)) ↔ (∃ a, Sat a (kcovercLPS inp fr))) ∧
    (∀ v, IsMin (fun a => Sat a (kcovercLP inp)) (fun a => evalTerms a (kcovercLP inp).obj) v ↔
      IsMin (fun a => Sat a (kcovercLPS inp fr)) (fun a => evalTerms a (kcovercLPS inp fr).obj) v) :=
  FP.c06i_kcoverc_pipeline_preserves inp hb X hX mapping anti o fr h hscc hanti hcons hcov1

theorem kfdc_safety_pipeline_preserves_feasibility_full (inp : WalkInput) (hb : BaseWF inp.base)
    (hinj : NameInj inp) (X : List Edge) (hX : ∀ x ∈ X, x ∈ kfdcTrusted inp) (mapping : List (Node × Nat))
    (anti : List (String × String)) (o : SafetyOpts) (fr : SafetyFrag)
    (h : safetyPipeline inp.st inp.k X mapping anti o = .ok fr)
    (hscc : SccLabelling ⟨inp.st.g, mapping⟩) (hanti : CondAntichain ⟨inp.st.g, mapping⟩ anti)
    (hcons : ∀ con ∈ inp.cfg.constraints, ∀ e ∈ con, e ∈ inp.st.g.edges)
    (hcov1 : inp.cfg.coverage ≤ 1)
    (hwm : kfdcTrusted inp ≠ [] → 0 < inp.wmax false) :
    (∃ a, Sat a (kfdcLP inp none)) ↔ (∃ a, Sat a (kfdcLPS inp none fr)) :=
  FP.c06i_kfdc_pipeline_preserves inp hb hinj X hX mapping anti o fr h hscc hanti hcons hcov1 hwm

/-- the computed data satisfies `SafetyData` (C06 T5, T6 in full, T3); `hnd`: the graph edges are distinct -/
theorem pipeline_data_sound_full (s : STGraph) (hg : GraphWF s.g) (hnd : s.g.edges.Nodup) (k : Nat)
    (X T : List Edge) (hXT : ∀ x ∈ X, x ∈ T) (mapping : List (Node × Nat)) (anti : List (String × String))
    (o : SafetyOpts) (fr : SafetyFrag) (h : safetyPipeline s k X mapping anti o = .ok fr)
    (hscc : SccLabelling ⟨s.g, mapping⟩) (hanti : CondAntichain ⟨s.g, mapping⟩ anti) :
    ∃ safe seqs zs, fr = safetyExtra s k safe seqs zs o ∧ SafetyData s k T safe seqs zs :=
  FP.c06i_safetyData_of_pipeline s hg hnd k X T hXT mapping anti o fr h hscc hanti

/-- the `…_full` forms are not vacuous: on the digraph `exP` of C06 (cycle `a ⇄ b`, parallel edges `a→c`, `b→c`,
second branch through `d`; SCC numbering and antichain of the real run, `k = 3`, all row-producing flags on) the
pipeline runs through — three sequences are handed to the slots, twelve edge variables are fixed to zero — both
contracts hold, and the computed data satisfies `SafetyData` -/
example : safetyPipeline exPst 3 exP.edges exPc.mapping exPanti exPopts =
      .ok (safetyExtra exPst 3 exPseqs exPchosen exPzero exPopts) ∧
    SccLabelling ⟨exPst.g, exPc.mapping⟩ ∧ CondAntichain ⟨exPst.g, exPc.mapping⟩ exPanti ∧
    ∃ safe seqs zs, safetyExtra exPst 3 exPseqs exPchosen exPzero exPopts = safetyExtra exPst 3 safe seqs zs exPopts ∧
      SafetyData exPst 3 exP.edges safe seqs zs :=
  ⟨exP_pipeline, exP_scc, exP_anti,
   pipeline_data_sound_full exPst exP_wf exP_nodup 3 exP.edges exP.edges (fun _ h => h) exPc.mapping exPanti exPopts _
     exP_pipeline exP_scc exP_anti⟩

/-! ## Non-vacuity: the README graph `s→a, a⇄b, a→t` (flows 1, 2, 2, 1; `k = 1`) -/

open FP.Props.C04 in
/-- its maximal safe sequence: the whole walk once round the cycle -/
def readmeSeq : List (List Edge) :=
  [[("source", "s"), ("s", "a"), ("a", "b"), ("b", "a"), ("a", "t"), ("t", "sink")]]

/-- all row-producing flags on -/
def readmeOpts : SafetyOpts := { safeSequences := true, allowGeq := true, fixZero := true }

set_option maxRecDepth 100000 in
theorem readme_maxSafeSeqs :
    maxSafeSeqs FP.Props.C04.readmeInp.st.g "source" "sink" (kfdcTrusted FP.Props.C04.readmeInp) = .ok readmeSeq := by
  decide +kernel

set_option maxRecDepth 100000 in
theorem readme_zeroFix : zeroFix FP.Props.C04.readmeInp.st.g readmeSeq 1 = .ok [] := by decide +kernel

theorem readme_data :
    SafetyData FP.Props.C04.readmeInp.st FP.Props.C04.readmeInp.k (kfdcTrusted FP.Props.C04.readmeInp)
      readmeSeq readmeSeq [] := by
  have hwf : STWFc FP.Props.C04.readmeInp.st := augment_wfc _ _ _ FP.Props.C04.readme_wf
  have hsafe := FP.Props.C06.maximal_safe_sequences_safe _ hwf.closed "source" "sink" _ _ readme_maxSafeSeqs
  exact ⟨hsafe, hsafe, by decide +kernel, List.pairwise_singleton _ _,
    FP.zeroSound_of_zeroFix _ hwf.closed _ _ _ readme_zeroFix⟩

/-- the fragment has six rows: `x = 1` on the four edges outside the cycle, `x ≥ 1` on `a→b`, `b→a` -/
example : (safetyExtra FP.Props.C04.readmeInp.st 1 readmeSeq readmeSeq [] readmeOpts).one
    = [(("source", "s"), 0), (("s", "a"), 0), (("a", "t"), 0), (("t", "sink"), 0)] := by decide +kernel
example : (geqEntries FP.Props.C04.readmeInp.st.g 1 readmeSeq).map (fun p => (p.1, p.2.1, p.2.2))
    = [(("a", "b"), 0, 1), (("b", "a"), 0, 1)] := by decide +kernel

/-- the README instance is feasible without the options (C04), hence — by the theorem — with them -/
example : ∃ a, Sat a (kfdcLPS FP.Props.C04.readmeInp none
    (safetyExtra FP.Props.C04.readmeInp.st 1 readmeSeq readmeSeq [] readmeOpts)) := by
  have hbase : ∃ a, Sat a (kfdcLP FP.Props.C04.readmeInp none) := by
    obtain ⟨a, ha, _⟩ := FP.Props.C04.kfdc_complete_walks FP.Props.C04.readmeInp _ _ FP.Props.C04.readme_wf
      (by decide) FP.Props.C04.readme_names FP.Props.C04.readme_within
    exact ⟨a, ha⟩
  exact (kfdc_safety_options_preserve_feasibility FP.Props.C04.readmeInp FP.Props.C04.readme_wf
    FP.Props.C04.readme_names readmeSeq readmeSeq [] readme_data readmeOpts
    (fun _ h => nomatch h) (by decide +kernel) (fun _ => by decide +kernel)).1 hbase

/-! ## the safety options of the DAG (path) models -/

/-- **`dag_safety_flags_lp_identical`.** Whatever safe lists were computed and whatever the other five flags say:
without `optimize_with_safety_as_subpath_constraints` the LP that the constructor of each of the four DAG classes
builds (K2: `kfdLPS` … are the real LPs) is the LP built without any option. -/
theorem dag_safety_flags_lp_identical (lists : List (List Edge)) (o : PathSafetyOpts) (h : o.asSubpath = false) :
    (∀ inp : FlowInput, kfdLPS inp (pathSafetyExtra lists o) = kfdLP inp) ∧
    (∀ inp : FlowInput, kcoverLPS inp (pathSafetyExtra lists o) = kcoverLP inp) ∧
    (∀ inp : ErrInput, klaeLPS inp (pathSafetyExtra lists o) = klaeLP inp) ∧
    (∀ inp : MpeInput, kmpeLPS inp (pathSafetyExtra lists o) = kmpeLP inp) :=
  ⟨fun inp => FP.c05d_kfdLPS_off inp lists o h, fun inp => FP.c05d_kcoverLPS_off inp lists o h,
   fun inp => FP.c05d_klaeLPS_off inp lists o h, fun inp => FP.c05d_kmpeLPS_off inp lists o h⟩

/-- what `__init__` + `create_solver_and_paths` leave behind, for every subset of the flags: no row, no key of
`edges_set_to_zero` / `edges_set_to_one`; the safe lists as additional subpath constraints iff
`optimize_with_safety_as_subpath_constraints` -/
theorem dag_safety_fragment_shape (s : STGraph) (c : PathCfg) (X : List Edge)
    (external : Option (List (List Edge))) (o : PathSafetyOpts) (fr : PathSafetyFrag)
    (h : pathSafetyPipeline s c X external o = .ok fr) :
    fr.rows = [] ∧ fr.zero = [] ∧ fr.one = [] ∧
    ∃ lists, pathSafeLists s c X external o = .ok lists ∧
      fr.constraints = if o.asSubpath then lists else [] := by
  obtain ⟨lists, hl, rfl⟩ := FP.c05d_pipeline_frag s c X external o fr h
  exact ⟨rfl, rfl, rfl, lists, hl, rfl⟩

/-- with the flag on, the LP is the option-free LP of the input whose subpath constraints are extended -/
theorem dag_safety_lp_is_extended_input (lists : List (List Edge)) (o : PathSafetyOpts) :
    (∀ inp : FlowInput, kfdLPS inp (pathSafetyExtra lists o) = kfdLP (inp.withSafety (pathSafetyExtra lists o))) ∧
    (∀ inp : FlowInput,
      kcoverLPS inp (pathSafetyExtra lists o) = kcoverLP (inp.withSafety (pathSafetyExtra lists o))) ∧
    (∀ inp : ErrInput, klaeLPS inp (pathSafetyExtra lists o) = klaeLP (inp.withSafety (pathSafetyExtra lists o))) ∧
    (∀ inp : MpeInput, kmpeLPS inp (pathSafetyExtra lists o) = kmpeLP (inp.withSafety (pathSafetyExtra lists o))) :=
  ⟨fun inp => FP.c05d_kfdLPS_eq inp lists o, fun inp => FP.c05d_kcoverLPS_eq inp lists o,
   fun inp => FP.c05d_klaeLPS_eq inp lists o, fun inp => FP.c05d_kmpeLPS_eq inp lists o⟩

/-- **`dag_safe_lists_in_layers`.** `a` satisfies `_encode_paths` on a well-formed s-t DAG and every trusted edge is
used by some layer. Then every list that `__init__` assembles — the univocal extensions of the trusted edges
(`safe_paths`, C06 T1), the bridge extensions of the trusted edges and of the subpath constraints of full
coverage (`safe_sequences`, C06 T2; a constraint of full coverage lies completely in the layer responsible for it,
C10) — lies completely in one layer: `x(e,i) = 1` for all its edges. Lists supplied from outside are assumed to
do so (`hext`); `hpos`: positive lengths on the constraints when they are covered by length. -/
theorem dag_safe_lists_in_layers (s : STGraph) (c : PathCfg) (a : Asg) (hwf : STWF s)
    (hsat : Sat a (encodePaths s c)) (X : List Edge) (hX : ∀ x ∈ X, x ∈ s.g.edges)
    (hcover : ∀ x ∈ X, ∃ i, i < c.k ∧ a (edgeVar x i) = 1)
    (external : Option (List (List Edge)))
    (hext : ∀ l, external = some l → ∀ q ∈ l, SomeLayerHas s a c.k q)
    (hcons : ∀ con ∈ c.constraints, ∀ e ∈ con, e ∈ s.g.edges)
    (hpos : c.coverageLength = some 1 → ∀ con ∈ c.constraints, ∀ e ∈ con, 0 < c.len e)
    (o : PathSafetyOpts) (lists : List (List Edge)) (h : pathSafeLists s c X external o = .ok lists) :
    ∀ q ∈ lists, ∃ i, i < c.k ∧ ∀ e ∈ q, e ∈ s.g.edges ∧ a (edgeVar e i) = 1 :=
  FP.c05d_safeLists_in_layers s c a hwf hsat X hX hcover external hext hcons hpos o lists h

/-- **`dag_append_constraints`.** Appending lists each of which lies completely in some layer keeps the LP of
`_encode_paths` satisfiable; only the `r` columns get new values (C10 `constraint_complete`). The appended lists
share the user's coverage fraction: with a fraction below 1 they are weaker than containment, so nothing is lost;
a "fraction" above 1 (never checked when the user passes no constraint) is excluded by `hcov` / `hcl`. -/
theorem dag_append_constraints (s : STGraph) (c : PathCfg) (a : Asg) (hwf : STWF s)
    (hsat : Sat a (encodePaths s c)) (hcons : ∀ con ∈ c.constraints, ∀ e ∈ con, e ∈ s.g.edges)
    (E : List (List Edge)) (hE : ∀ q ∈ E, ∃ i, i < c.k ∧ ∀ e ∈ q, e ∈ s.g.edges ∧ a (edgeVar e i) = 1)
    (hcov : c.coverageLength = none → c.coverage ≤ 1) (hcl : ∀ cl, c.coverageLength = some cl → cl ≤ 1)
    (hlen : ∀ e ∈ s.g.edges, 0 ≤ c.len e) :
    ∃ a', Sat a' (encodePaths s { c with constraints := c.constraints ++ E }) ∧
      ∀ v, v.isR = false → a' v = a v :=
  FP.c05d_append_constraints hwf hsat hcons E hE hcov hcl hlen

/-- … and dropping appended constraints keeps an assignment feasible -/
theorem dag_drop_constraints (s : STGraph) (c : PathCfg) (a : Asg) (E : List (List Edge))
    (h : Sat a (encodePaths s { c with constraints := c.constraints ++ E })) : Sat a (encodePaths s c) :=
  FP.c05d_drop_constraints E h

/-- **generic C05 for the DAG models, every subset of the six flags.** A DAG model = `_encode_paths` followed by
class-specific columns / rows / objective `rest` that do not mention the `r` columns (`RestNoR`). If every
solution uses every trusted edge in some layer and contains the externally supplied lists, the LP with the
options (`pathCoreS … fr` for the fragment `fr` the constructor computes) is feasible iff the LP without them is,
and both have the same minimum. `ConstraintDomain`: constraints made of graph edges, coverage fraction `≤ 1`,
lengths `≥ 0`, and `> 0` on the constraints when they are covered completely by length. -/
theorem dag_safety_options_preserve_optimum (s : STGraph) (c : PathCfg) (hwf : STWF s)
    (D : ConstraintDomain s c) (rest : LP) (hR : RestNoR rest) (X : List Edge) (hX : ∀ x ∈ X, x ∈ s.g.edges)
    (hcover : ∀ a, Sat a ((encodePaths s c).append rest) → ∀ x ∈ X, ∃ i, i < c.k ∧ a (edgeVar x i) = 1)
    (external : Option (List (List Edge)))
    (hext : ∀ a, Sat a ((encodePaths s c).append rest) → ∀ l, external = some l → ∀ q ∈ l, SomeLayerHas s a c.k q)
    (o : PathSafetyOpts) (fr : PathSafetyFrag) (h : pathSafetyPipeline s c X external o = .ok fr) :
    ((∃ a, Sat a ((encodePaths s c).append rest)) ↔ (∃ a, Sat a ((pathCoreS s c fr).append rest))) ∧
    (∀ v, IsMin (fun a => Sat a ((encodePaths s c).append rest)) (fun a => evalTerms a rest.obj) v ↔
      IsMin (fun a => Sat a ((pathCoreS s c fr).append rest)) (fun a => evalTerms a rest.obj) v) :=
  FP.c05d_generic_preserves hwf D rest hR X hX hcover external hext o fr h

/-- **T1 for the DAG models (`layer_perm_invariant_dag`).** `_encode_paths`: a satisfying assignment stays one when
the layers are permuted (`permLayersD` renames `edge(u,v,i)`, `position(u,v,i)`, `r(i,j)`, `path_length<i>`, …).
No row that the safety options add on this tree distinguishes a layer, so the option theorems above do not need
this; it is the symmetry a per-layer fixing routine would rest on. -/
theorem layer_perm_invariant_dag (s : STGraph) (c : PathCfg) (a : Asg) (π : LayerPerm c.k)
    (h : Sat a (encodePaths s c)) : Sat (a ∘ permLayersD π.fwd) (encodePaths s c) :=
  FP.encodePaths_perm s c a π _ (permLayersD_isLayerRenaming π.fwd) h

/-- T1 for `kPathCover` (no objective) -/
theorem layer_perm_invariant_kcover (inp : FlowInput) (a : Asg) (π : LayerPerm inp.cfg.k)
    (h : Sat a (kcoverLP inp)) :
    Sat (a ∘ permLayersD π.fwd) (kcoverLP inp) ∧
    evalTerms (a ∘ permLayersD π.fwd) (kcoverLP inp).obj = evalTerms a (kcoverLP inp).obj :=
  FP.kcoverLP_perm inp a π _ (permLayersD_isLayerRenaming π.fwd) h

/-- T1 for `kFlowDecomp` (no given weights): the weights and products move with their layers -/
theorem layer_perm_invariant_kfd (inp : FlowInput) (a : Asg) (π : LayerPerm inp.cfg.k)
    (h : Sat a (kfdLP inp)) :
    Sat (a ∘ permLayersD π.fwd) (kfdLP inp) ∧
    (∀ e i, (a ∘ permLayersD π.fwd) (edgeVar e i) = a (edgeVar e (π.fwd i))) ∧
    (∀ i, (a ∘ permLayersD π.fwd) (wVar i) = a (wVar (π.fwd i))) :=
  ⟨FP.kfdLP_perm inp a π _ (permLayersD_isLayerRenaming π.fwd) h, fun _ _ => rfl, fun _ => rfl⟩

/-- every edge that is not ignored is used by some path of every solution of the `kPathCover` LP -/
theorem kcover_uses_trusted (inp : FlowInput) (a : Asg) (hsat : Sat a (kcoverLP inp)) :
    ∀ x ∈ kcoverTrusted inp, ∃ i, i < inp.cfg.k ∧ a (edgeVar x i) = 1 :=
  FP.c05d_kcover_uses inp a hsat

/-- every non-ignored edge of non-zero flow is used by some path of every solution of the `kFlowDecomp` LP -/
theorem kfd_uses_trusted (inp : FlowInput) (a : Asg) (hsat : Sat a (kfdLP inp)) :
    ∀ x ∈ kfdTrusted inp, ∃ i, i < inp.cfg.k ∧ a (edgeVar x i) = 1 :=
  FP.c05d_kfd_uses inp a hsat

/-- **C05 for `kPathCover`, every subset of the six safety flags.** On a well-formed user DAG, for the fragment
`fr` that the constructor computes (`pathSafetyPipeline`; `X` any enumeration of trusted edges — the class passes
the non-ignored edges — and no external lists): the LP built with the options (`kcoverLPS`, tied to the real
constructor by K2) is feasible iff the LP without them is, and both have the same minimal objective (the class
sets no objective: both minima are 0). -/
theorem kcover_safety_options_preserve_optimum (inp : FlowInput) (hb : BaseWF inp.base) (hac : Acyclic inp.base)
    (D : ConstraintDomain inp.st inp.cfg) (X : List Edge) (hX : ∀ x ∈ X, x ∈ kcoverTrusted inp)
    (o : PathSafetyOpts) (fr : PathSafetyFrag) (h : pathSafetyPipeline inp.st inp.cfg X none o = .ok fr) :
    ((∃ a, Sat a (kcoverLP inp)) ↔ (∃ a, Sat a (kcoverLPS inp fr))) ∧
    (∀ v, IsMin (fun a => Sat a (kcoverLP inp)) (fun a => evalTerms a (kcoverLP inp).obj) v ↔
      IsMin (fun a => Sat a (kcoverLPS inp fr)) (fun a => evalTerms a (kcoverLPS inp fr).obj) v) :=
  FP.c05d_kcover_preserves inp hb hac D X hX o fr h

/-- **`kFlowDecomp`'s flow-safe paths lie in some path of every solution — when nothing is ignored.** With no
ignored edge (and flow attributes on graph edges only) every satisfying assignment of the k-model is a flow
decomposition of the whole flow of the user's graph (C02 `kfd_exact`), so every path that the scan
`flowSafePaths` reports — for whatever decomposition paths — lies completely in one layer (C06
`excess_flow_safe`). With ignored edges this is false; before fix 3d0fcdd the class handed the paths over
nevertheless (`harness/props/c05.py`, suite `K5.flow_safe_paths_with_ignored_edges`). -/
theorem kfd_flow_safe_paths_in_layers (inp : FlowInput) (hb : BaseWF inp.base) (hac : Acyclic inp.base)
    (hign : inp.ignore = []) (hends : inp.ends = [])
    (hkeys : ∀ e q, inp.flow.lookup e = some q → e ∈ inp.base.edges)
    (paths : List (List Node)) (out : List (List Edge)) (hout : flowSafePaths inp.base inp.flow paths = .ok out)
    (a : Asg) (hsat : Sat a (kfdLP inp)) :
    ∀ q ∈ out, ∃ i, i < inp.cfg.k ∧ ∀ e ∈ q, e ∈ inp.st.g.edges ∧ a (edgeVar e i) = 1 :=
  FP.c05d_flowSafe_in_layers inp hb hac hign hends hkeys paths out hout a hsat

/-- **C05 for `kFlowDecomp` (no given weights), every subset of the six safety flags, with or without flow-safe
paths.** The k-model has no objective; the model with the options is feasible iff the model without them is.
`external` is the option `external_safe_paths`: `none`, or the flow-safe paths that the class computes under
`optimize_with_flow_safe_paths`; `kfdExternalOK` says where they come from — nothing is ignored and each of them
is reported by the modelled scan for the captured decomposition paths (`lp.kfd.safety` refuses a request that
violates it). `hends`: the class has no additional ends; `hkeys`: the flow attribute sits on graph edges. -/
theorem kfd_safety_options_preserve_feasibility (inp : FlowInput) (hb : BaseWF inp.base) (hac : Acyclic inp.base)
    (D : ConstraintDomain inp.st inp.cfg) (hends : inp.ends = [])
    (hkeys : ∀ p ∈ inp.flow, p.1 ∈ inp.base.edges)
    (X : List Edge) (hX : ∀ x ∈ X, x ∈ kfdTrusted inp)
    (external : Option (List (List Edge))) (decompPaths : List (List Node))
    (hext : kfdExternalOK inp external decompPaths = true)
    (o : PathSafetyOpts) (fr : PathSafetyFrag)
    (h : pathSafetyPipeline inp.st inp.cfg X external o = .ok fr) :
    (∃ a, Sat a (kfdLP inp)) ↔ (∃ a, Sat a (kfdLPS inp fr)) :=
  FP.c05d_kfd_preserves_full inp hb hac D hends hkeys X hX external decompPaths hext o fr h

/-! ### Non-vacuity: the diamond `a→b→d`, `a→c→d` (flows 3, 2; constraint `[(a,b),(b,d)]`; `k = 2`) -/

/-- safe sequences of the trusted edges and of the constraint, appended as subpath constraints -/
def diamondOpts : PathSafetyOpts :=
  { safeSequences := true, constraintSequences := true, asSubpath := true, zeroEdges := true, largestAntichain := true }

/-- the five lists `__init__` assembles: one per trusted edge (bridges to the source and to the sink), one for
the constraint -/
def diamondLists : List (List Edge) :=
  [[("source", "a"), ("a", "b"), ("b", "d"), ("d", "sink")],
   [("source", "a"), ("a", "c"), ("c", "d"), ("d", "sink")],
   [("source", "a"), ("a", "b"), ("b", "d"), ("d", "sink")],
   [("source", "a"), ("a", "c"), ("c", "d"), ("d", "sink")],
   [("source", "a"), ("a", "b"), ("b", "d"), ("d", "sink")]]

set_option maxRecDepth 100000 in
theorem diamond_safeLists :
    pathSafeLists FP.DecompExample.inp.st FP.DecompExample.inp.cfg (kfdTrusted FP.DecompExample.inp) none
      diamondOpts = .ok diamondLists := by decide +kernel

theorem diamond_pipeline :
    pathSafetyPipeline FP.DecompExample.inp.st FP.DecompExample.inp.cfg (kfdTrusted FP.DecompExample.inp) none
      diamondOpts = .ok (pathSafetyExtra diamondLists diamondOpts) := by
  unfold pathSafetyPipeline
  rw [diamond_safeLists]
  rfl

theorem diamond_domain : ConstraintDomain FP.DecompExample.inp.st FP.DecompExample.inp.cfg where
  edges := by decide
  cov := fun _ => by decide +kernel
  covLen := fun cl h => by cases h
  len := fun e _ => by
    show (0 : Rat) ≤ 1
    decide +kernel
  lenPos := fun h => by cases h

/-- the diamond instance is feasible without the options (C03), hence — by the theorem — with the five safe lists
appended to its subpath constraints -/
example : ∃ a, Sat a (kfdLPS FP.DecompExample.inp (pathSafetyExtra diamondLists diamondOpts)) := by
  have hbase : ∃ a, Sat a (kfdLP FP.DecompExample.inp) :=
    ⟨_, FP.Props.C03.kfd_complete FP.DecompExample.inp 2 FP.DecompExample.base_wf FP.DecompExample.base_acyclic
      FP.DecompExample.plain FP.DecompExample.P FP.DecompExample.w FP.DecompExample.isDecomp (by
        intro i hi
        rw [FP.DecompExample.wmax_eq]
        have : i = 0 ∨ i = 1 := by omega
        rcases this with rfl | rfl <;> decide +kernel)⟩
  exact (kfd_safety_options_preserve_feasibility FP.DecompExample.inp FP.DecompExample.base_wf
    FP.DecompExample.base_acyclic diamond_domain rfl (by decide) _ (fun _ h => h) none [] rfl diamondOpts _
    diamond_pipeline).1 hbase

/-- the class defaults on the diamond: flow-safe paths (what the scan reports for the greedy decomposition
`a b d`, `a c d`), the constraint's safe sequence, everything appended as subpath constraints -/
def diamondFlowSafe : List (List Edge) := [[("a", "b"), ("b", "d")], [("a", "c"), ("c", "d")]]
def diamondOptsFS : PathSafetyOpts := { constraintSequences := true, asSubpath := true, zeroEdges := true }

set_option maxRecDepth 100000 in
theorem diamond_externalOK :
    kfdExternalOK FP.DecompExample.inp (some diamondFlowSafe) [["a", "b", "d"], ["a", "c", "d"]] = true := by
  decide +kernel

set_option maxRecDepth 100000 in
theorem diamond_safeLists_fs :
    pathSafeLists FP.DecompExample.inp.st FP.DecompExample.inp.cfg (kfdTrusted FP.DecompExample.inp)
      (some diamondFlowSafe) diamondOptsFS =
    .ok (diamondFlowSafe ++ [[("source", "a"), ("a", "b"), ("b", "d"), ("d", "sink")]]) := by decide +kernel

example : ∃ a, Sat a (kfdLPS FP.DecompExample.inp (pathSafetyExtra
    (diamondFlowSafe ++ [[("source", "a"), ("a", "b"), ("b", "d"), ("d", "sink")]]) diamondOptsFS)) := by
  have hbase : ∃ a, Sat a (kfdLP FP.DecompExample.inp) :=
    ⟨_, FP.Props.C03.kfd_complete FP.DecompExample.inp 2 FP.DecompExample.base_wf FP.DecompExample.base_acyclic
      FP.DecompExample.plain FP.DecompExample.P FP.DecompExample.w FP.DecompExample.isDecomp (by
        intro i hi
        rw [FP.DecompExample.wmax_eq]
        have : i = 0 ∨ i = 1 := by omega
        rcases this with rfl | rfl <;> decide +kernel)⟩
  have hpipe : pathSafetyPipeline FP.DecompExample.inp.st FP.DecompExample.inp.cfg
      (kfdTrusted FP.DecompExample.inp) (some diamondFlowSafe) diamondOptsFS = .ok (pathSafetyExtra
        (diamondFlowSafe ++ [[("source", "a"), ("a", "b"), ("b", "d"), ("d", "sink")]]) diamondOptsFS) := by
    unfold pathSafetyPipeline
    rw [diamond_safeLists_fs]
    rfl
  exact (kfd_safety_options_preserve_feasibility FP.DecompExample.inp FP.DecompExample.base_wf
    FP.DecompExample.base_acyclic diamond_domain rfl (by decide) _ (fun _ h => h) _ _ diamond_externalOK
    diamondOptsFS _ hpipe).1 hbase

/-- the same flags without `optimize_with_safety_as_subpath_constraints`: the LP does not change at all -/
example : kfdLPS FP.DecompExample.inp (pathSafetyExtra diamondLists { diamondOpts with asSubpath := false })
    = kfdLP FP.DecompExample.inp :=
  (dag_safety_flags_lp_identical diamondLists _ rfl).1 _

/-- the configuration of C09's example `a→b→c`, `a→c` is inside the documented domain -/
theorem inp2_domain : ConstraintDomain FP.Props.C09.inp2.st FP.Props.C09.inp2.cfg where
  edges := by decide
  cov := fun _ => by decide +kernel
  covLen := fun cl h => by cases h
  len := fun e _ => by
    show (0 : Rat) ≤ 1
    decide +kernel
  lenPos := fun h => by cases h

/-- `kPathCover` on `a→b→c`, `a→c` (`k = 2`, C09): safe paths appended as constraints keep the LP feasible -/
example : ∀ fr, pathSafetyPipeline FP.Props.C09.inp2.st FP.Props.C09.inp2.cfg (kcoverTrusted FP.Props.C09.inp2) none
      { safePaths := true, asSubpath := true } = .ok fr → ∃ a, Sat a (kcoverLPS FP.Props.C09.inp2 fr) := by
  intro fr h
  exact ((kcover_safety_options_preserve_optimum FP.Props.C09.inp2 FP.PathCoreExample.base_wf
    FP.PathCoreExample.base_acyclic inp2_domain _ (fun _ h => h) _ fr h).1).1 ⟨_, FP.Props.C09.sat2⟩

set_option maxRecDepth 100000 in
/-- … and `__init__` does assemble lists there: the three univocal extensions -/
theorem inp2_safeLists :
    pathSafeLists FP.Props.C09.inp2.st FP.Props.C09.inp2.cfg (kcoverTrusted FP.Props.C09.inp2) none
      { safePaths := true, asSubpath := true } =
    .ok [[("source", "a"), ("a", "b"), ("b", "c"), ("c", "sink")],
         [("source", "a"), ("a", "c"), ("c", "sink")],
         [("source", "a"), ("a", "b"), ("b", "c"), ("c", "sink")]] := by decide +kernel

end FP.Props.C05
