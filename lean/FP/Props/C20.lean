import FP.Model.Parser
import FP.Spec.GraphFile
import FP.Proofs.Parser
import FP.Proofs.Lexer
import FP.Proofs.Literals
/-!
# C20 — graph files are parsed faithfully and malformed files are rejected

Model: `FP/Model/Parser.lean` (`readGraph`, `readGraphs` on classified lines; `int()`, `float()`, `get_width()`
are oracle parameters).  Vocabulary: `FP/Spec/GraphFile.lean`.

* (a) `parse_render` + `built_graph_exact` / `built_graph_distinct` / `constraints_spec` / `split_lossless`;
* (b) `malformed_rejected` — full strength since fix 1264962 of /repo (a vertex-count line `0` no longer makes
  `read_graph` return before looking at constraints and at the rest of the block); the two files that used to be
  accepted are kept as regression examples `wConstraint_rejected`, `wEdge_rejected`;
* (c) `counts_match` (zero-vertex blocks included: `n = m = 0`, `w = 0`);
* format facts worth knowing: `leading_lines_ignored`, `no_header_no_graphs`.
-/
namespace FP.Props.C20
open FP.Parser FP.Spec.GraphFile
variable {S W Wd : Type} [DecidableEq S]

/-- **C20 (a).** For every file description `d` (any number of blocks, any number of blank lines at the top)
whose blocks are well-formed — `WFBlock`: at least one `#` line; the vertex-count line converts with `int()`; the
weight token of every edge line converts with `float()`; every edge of every described constraint is listed;
a zero-vertex block has no constraint and only blank lines in its body, a non-zero block describes a graph with
a source and a sink —
`read_graphs` returns, block by block, exactly the described graphs: `graphOf` = the listed edges inserted in
order (`built_graph_exact`), the first header text as id, the distinct `#S` lines as constraints, `n`/`m` the node
and edge counts, `w` the width oracle applied to the graph (the literal 0 for a zero-vertex block). -/
theorem parse_render (o : Oracles S W Wd) (d : FileDesc S) (h : ∀ b ∈ d.blocks, WFBlock o b) :
    readGraphs o (render d) = .ok (d.blocks.map (graphOf o)) :=
  FP.Parser.readGraphs_render o d h

/-- the graph built from a list of edge lines has exactly the listed edges, each with the weight of its *last*
listing; no edge key and no node occurs twice; the nodes are exactly the endpoints -/
theorem built_graph_exact (es : List (S × S × W)) :
    (∀ x y z, (x, y, z) ∈ (buildGraph es).edges ↔ lastWeight es (x, y) = some z) ∧
    (buildGraph es).nodes.Nodup ∧ ((buildGraph es).edges.map key).Nodup ∧
    (∀ x, x ∈ (buildGraph es).nodes ↔ ∃ e ∈ es, x = e.1 ∨ x = e.2.1) :=
  FP.Parser.buildGraph_exact es

/-- when no edge is listed twice the edge list of the graph is the listed list, in order -/
theorem built_graph_distinct (es : List (S × S × W)) (h : (es.map key).Nodup) :
    (buildGraph es).edges = es :=
  FP.Parser.buildGraph_distinct es h

/-- the header loop on arbitrary `#` lines: header texts in order (the id is the first), and the constraints
are those of the distinct `#S` sequences in order of first appearance with at least two nodes -/
theorem constraints_spec (hs : List (Line S)) :
    (scanHeader hs).headers = lineHeaders hs ∧
    (scanHeader hs).cons = consOfSeqs (lineSeqs hs).eraseDups :=
  FP.Parser.scanHeader_spec hs

omit [DecidableEq S] in
/-- block splitting loses no line except those before the first `#` line (no fuel exhaustion) -/
theorem split_lossless (ls : List (Line S)) :
    (splitBlocks (ls.length + 1) ls).flatten = ls.dropWhile (fun l => !l.isHash) :=
  FP.Parser.splitBlocks_flatten _ ls (Nat.lt_succ_self _)

/-- **C20 (b), full strength.** A malformed block (`Malformed`: no / non-numeric vertex-count line, an edge
line with ≠ 3 tokens, a non-numeric weight, a `#S` line naming an edge that no edge line lists) makes `read_graph`
raise `ValueError` — whatever the vertex count, `0` included. -/
theorem malformed_rejected (o : Oracles S W Wd) (ls : List (Line S)) (hm : Malformed o ls) :
    ∃ e, readGraph o ls = .error e :=
  FP.Parser.malformed_error o ls hm

/-- python's `int()` / `float()` on the strings of the regression files -/
def witnessOracles : Oracles String Int Nat :=
  { parseInt := fun s => if s = "0" then some 0 else none
    parseFloat := fun _ => none
    width := fun _ _ => 1
    zeroWidth := 0 }

/-- the file `"# g\n#S a b\n0\n"` (accepted before fix 1264962) -/
def wConstraint : List (Line String) := [.header "g", .subpath ["a", "b"], .data "0" ["0"]]
/-- the file `"# g\n0\na b\n"` (accepted before fix 1264962) -/
def wEdge : List (Line String) := [.header "g", .data "0" ["0"], .data "a b" ["a", "b"]]

theorem wConstraint_rejected : readGraph witnessOracles wConstraint = .error .zeroWithConstraints := by decide

theorem wEdge_rejected : readGraph witnessOracles wEdge = .error .zeroWithData := by decide

/-- both regression files satisfy the hypothesis of `malformed_rejected` (non-vacuity in the zero-vertex case) -/
example : Malformed witnessOracles wConstraint :=
  .absentEdge ["a", "b"] "a" "b" (by decide) (by decide) (by
    intro t ws
    have : (countPart wConstraint).tail = [] := by decide
    rw [this]; exact List.not_mem_nil)

example : Malformed witnessOracles wEdge :=
  .badEdgeLine "a b" ["a", "b"] (by decide) (by decide)

/-- **C20 (c).** Whenever `read_graph` returns: the graph has no node and no edge key twice and its nodes are
exactly the endpoints of its edges, so `nodes.length` / `edges.length` are the node / edge counts; `n` and `m`
are stored and equal those counts; the edges are exactly the edge lines listed below the vertex-count line (last
weight wins); if the vertex-count line was `0` the graph is empty, has no constraint and `w` is the literal 0,
otherwise `w` is the width oracle on this graph. -/
theorem counts_match (o : Oracles S W Wd) (ls : List (Line S)) (g : PGraph S W Wd)
    (h : readGraph o ls = .ok g) :
    (g.nodes.Nodup ∧ (g.edges.map key).Nodup ∧ ∀ x, x ∈ g.nodes ↔ ∃ e ∈ g.edges, x = e.1 ∨ x = e.2.1) ∧
    g.n = some g.nodes.length ∧ g.m = some g.edges.length ∧
    (∀ x y z, (x, y, z) ∈ g.edges ↔ lastWeight (lineEdges o (countPart ls).tail) (x, y) = some z) ∧
    (ZeroCount o ls → g.nodes = [] ∧ g.edges = [] ∧ g.constraints = [] ∧ g.w = some o.zeroWidth) ∧
    (¬ ZeroCount o ls → g.w = some (o.width g.nodes g.edges)) := by
  obtain ⟨hwf, hr⟩ := FP.Parser.readGraph_ok_shape o ls g h
  exact ⟨⟨hwf.nodesNodup, hwf.keysNodup, hwf.nodesEq⟩, hr⟩

/-- lines before the first `#` line — whatever they contain — are skipped silently -/
theorem leading_lines_ignored (o : Oracles S W Wd) (junk ls : List (Line S))
    (hj : ∀ l ∈ junk, l.isHash = false) : readGraphs o (junk ++ ls) = readGraphs o ls :=
  FP.Parser.readGraphs_leading o junk ls hj

/-- a file without any `#` line yields no graph at all (and no error) -/
theorem no_header_no_graphs (o : Oracles S W Wd) (ls : List (Line S)) (h : ∀ l ∈ ls, l.isHash = false) :
    readGraphs o ls = .ok [] :=
  FP.Parser.readGraphs_noHash o ls h

/-! ## non-vacuity: a concrete three-block file

```
                                   (blank)
# graph 1
#S a b c
#S  a b c                          (duplicate)
#S c                               (single node: ignored)
# second header line
                                   (blank)
3
a b 1
b c 2
                                   (blank)
a b 5                              (listed again: weight 5 wins)
#cyclic
4
s x 1
x y 2
y x 3
y t 4
# empty
0
                                   (blank)
```
-/

def exO : Oracles String Int Nat :=
  { parseInt := fun s => [("3", (3 : Int)), ("4", 4), ("0", 0)].lookup s
    parseFloat := fun s => [("1", (1 : Int)), ("2", 2), ("3", 3), ("4", 4), ("5", 5)].lookup s
    width := fun _ es => es.length
    zeroWidth := 0 }

def exFile : FileDesc String :=
  { lead := 1
    blocks := [
      { hashes := [.header "graph 1", .subpath ["a", "b", "c"], .subpath ["a", "b", "c"], .subpath ["c"],
                   .header "second header line"]
        blanks := 1, countText := "3", countTokens := ["3"]
        body := [.edge "a b 1" "a" "b" "1", .edge "b c 2" "b" "c" "2", .blank, .edge "a b 5" "a" "b" "5"] },
      { hashes := [.header "cyclic"], blanks := 0, countText := "4", countTokens := ["4"]
        body := [.edge "s x 1" "s" "x" "1", .edge "x y 2" "x" "y" "2", .edge "y x 3" "y" "x" "3",
                 .edge "y t 4" "y" "t" "4"] },
      { hashes := [.header "empty"], blanks := 0, countText := "0", countTokens := ["0"], body := [.blank] } ] }

/-- the hypotheses of `parse_render` hold for the example file -/
theorem exFile_wf : ∀ b ∈ exFile.blocks, WFBlock exO b := by decide

/-- what `parse_render` then says, evaluated -/
example : readGraphs exO (render exFile) = .ok [
    { nodes := ["a", "b", "c"], edges := [("a", "b", 5), ("b", "c", 2)], id := some "graph 1",
      constraints := [[("a", "b"), ("b", "c")]], n := some 3, m := some 2, w := some 2 },
    { nodes := ["s", "x", "y", "t"], edges := [("s", "x", 1), ("x", "y", 2), ("y", "x", 3), ("y", "t", 4)],
      id := some "cyclic", constraints := [], n := some 4, m := some 4, w := some 4 },
    { nodes := [], edges := [], id := some "empty", constraints := [], n := some 0, m := some 0, w := some 0 } ] := by
  rw [parse_render exO exFile exFile_wf]; decide

/-- the malformed hypotheses are satisfiable in the non-zero case too: the same first block with the edge
line `b c 2` cut to `b c` -/
example : ∃ e, readGraph exO [.header "graph 1", .subpath ["a", "b", "c"], .data "3" ["3"],
    .data "a b 1" ["a", "b", "1"], .data "b c" ["b", "c"]] = .error e :=
  malformed_rejected exO _ (.badEdgeLine "b c" ["b", "c"] (by decide) (by decide))

end FP.Props.C20

/-!
## Character level: the `str` primitives behind the classified lines (`FP/Model/Lexer.lean`)

`Clean t`: `t` is non-empty and contains no character for which python's `str.isspace()` holds.
`joinSp ts` = `" ".join(ts)`.  `classify : String → Line String` is the line classifier (mirror of
`harness/props/c20.py: classify`, tied by suite `K1.lexer`).
-/
namespace FP.Props.C20
open FP.Parser FP.Lexer

/-- every token of `line.split()` is non-empty and contains no whitespace character -/
theorem splitWs_tokens_clean (cs : List Char) :
    ∀ t ∈ splitWs cs, t ≠ [] ∧ ∀ c ∈ t, isPySpace c = false := splitWs_clean cs

example : splitWs "\u00a0a\x1fb\u3000 \tc#\u2028".toList = ["a".toList, "b".toList, "c#".toList] := by decide

/-- `split` inverts `" ".join` on clean tokens, whatever whitespace runs surround the joined text -/
theorem splitWs_join (ts : List (List Char)) (pre post : List Char) (h : ∀ t ∈ ts, Clean t)
    (hpre : ∀ c ∈ pre, isPySpace c = true) (hpost : ∀ c ∈ post, isPySpace c = true) :
    splitWs (pre ++ joinSp ts ++ post) = ts := by
  rw [List.append_assoc, splitWs_ws_append _ _ hpre, splitWs_joinSp_ws _ h post hpost]

example : splitWs ("\u3000\x1f".toList ++ joinSp ["0".toList, "1".toList, "2.5".toList] ++ "\u0085\n".toList)
    = ["0".toList, "1".toList, "2.5".toList] := by decide

theorem classify_ofList (l : List Char) : classify (String.ofList l) = mapLine String.ofList (classifyL l) := by
  simp [classify]

/-- a rendered data line (clean tokens joined by single spaces, the first token not starting with `#`, any
whitespace before and after) lexes to exactly its tokens and its stripped text -/
theorem classify_data_line (t : List Char) (ts : List (List Char)) (pre post : List Char)
    (ht : Clean t) (hh : startsWith t ['#'] = false) (h : ∀ x ∈ ts, Clean x)
    (hpre : ∀ x ∈ pre, isPySpace x = true) (hpost : ∀ x ∈ post, isPySpace x = true) :
    classify (String.ofList (pre ++ joinSp (t :: ts) ++ post))
      = .data (String.ofList (joinSp (t :: ts))) ((t :: ts).map String.ofList) := by
  cases t with
  | nil => exact absurd rfl ht.1
  | cons c t0 =>
    have hc : c ≠ '#' := by
      intro e; subst e; simp [startsWith] at hh
    rw [classify_ofList, classifyL_data c t0 ts pre post hc ht h hpre hpost]
    rfl

/-- **edge lines**: `u v w` rendered with single spaces lexes to exactly the three tokens `[u, v, w]` -/
theorem classify_edge_line (u v w : List Char) (hu : Clean u) (hv : Clean v) (hw : Clean w)
    (hh : startsWith u ['#'] = false) :
    classify (String.ofList (u ++ ' ' :: (v ++ ' ' :: w)))
      = .data (String.ofList (u ++ ' ' :: (v ++ ' ' :: w))) [String.ofList u, String.ofList v, String.ofList w] := by
  have := classify_data_line u [v, w] [] [] hu hh
    (by intro x hx; simp at hx; rcases hx with rfl | rfl <;> assumption) (by simp) (by simp)
  simpa [joinSp] using this

example : classify "\u2003a\x00b 𝔘1\u00a0\t\x1c2.5e3\u3000\n"
    = .data "a\x00b 𝔘1\u00a0\t\x1c2.5e3" ["a\x00b", "𝔘1", "2.5e3"] := by decide

/-- **`#S` lines**: `"#S" ++ whitespace ++ " ".join(nodes)` (any whitespace before `#` and at the end) lexes to the
subpath line with exactly the tokens `nodes` -/
theorem classify_subpath_line (ns : List (List Char)) (pre sp post : List Char) (h : ∀ t ∈ ns, Clean t)
    (hpre : ∀ x ∈ pre, isPySpace x = true) (hsp : ∀ x ∈ sp, isPySpace x = true)
    (hpost : ∀ x ∈ post, isPySpace x = true) :
    classify (String.ofList (pre ++ '#' :: 'S' :: (sp ++ joinSp ns ++ post)))
      = .subpath (ns.map String.ofList) := by
  rw [classify_ofList, classifyL_subpath ns pre sp post h hpre hsp hpost]
  rfl

example : classify "\u205f#S\x1f s a\u2029t \n" = .subpath ["s", "a", "t"] := by decide
example : classify "#Sx y" = .subpath ["x", "y"] := by decide
example : classify "##S x" = .header "S x" := by decide
example : classify "\t# S#\u00a0" = .header "S#" := by decide

/-- a line is blank iff all its characters are python whitespace -/
theorem classify_blank_iff (s : String) : classify s = .blank ↔ ∀ c ∈ s.toList, isPySpace c = true := by
  rw [← classifyL_blank_iff]
  unfold classify
  cases classifyL s.toList <;> simp [mapLine]

example : classify "\u1680\x1d\u2028\u3000\x0b" = .blank := by decide
example : classify "\u200b" = .data "\u200b" ["\u200b"] := by decide

end FP.Props.C20

/-! ## Literal level: which tokens `int()` / `float()` accept (`FP/Model/Literals.lean`), tie: suite `K1.literals`

"A non-numeric weight or vertex count raises ValueError": `pyIntLit` / `pyFloatAccepts` mirror CPython's
recognition of `int(str)` (base 10, with the value) and `float(str)` (acceptance only; the binary64 value of an
accepted literal stays an oracle parameter of `FP/Model/Parser.lean`). -/
namespace FP.Props.C20
open FP.Literals

/-- **the vertex-count line a writer prints is read back exactly**: for every `n` with at most 4300 decimal digits
(CPython refuses longer int strings: `sys.get_int_max_str_digits()`), `int(str(n)) = n` -/
theorem pyIntLit_render_nat (n : Nat) (h : n < 10 ^ 4300) : pyIntLit (Nat.repr n).toList = some (n : Int) :=
  FP.Literals.pyIntLit_render_nat n h

/-- any non-empty string of at most 4300 ASCII digits (leading zeros allowed) is read as its decimal value -/
theorem pyIntLit_ascii_digits (l : List Char) (hne : l ≠ []) (h : ∀ c ∈ l, c.isDigit = true)
    (hlen : l.length ≤ 4300) : pyIntLit l = some (Nat.ofDigitChars 10 l 0 : Int) :=
  FP.Literals.pyIntLit_ascii_digits l hne h hlen

/-- **non-numeric vertex count**: a stripped token containing a character that is neither a decimal digit, an
underscore nor a sign is rejected (ValueError) — in particular alphabetic garbage -/
theorem pyIntLit_rejects_nondigit (cs : List Char) (c : Char) (hc : c ∈ stripL cs) (hd : pyDigitVal c = none)
    (hu : c ≠ '_') (hp : c ≠ '+') (hm : c ≠ '-') : pyIntLit cs = none :=
  FP.Literals.pyIntLit_rejects_nondigit cs c hc hd hu hp hm

/-- ... and a sign is tolerated in first position only: a non-digit, non-underscore character after the first
character of the stripped token is rejected -/
theorem pyIntLit_rejects_nondigit_tail (cs : List Char) (a c : Char) (r : List Char) (hs : stripL cs = a :: r)
    (hc : c ∈ r) (hd : pyDigitVal c = none) (hu : c ≠ '_') : pyIntLit cs = none :=
  FP.Literals.pyIntLit_rejects_nondigit_tail cs a c r hs hc hd hu

/-- every token `int()` accepts is a valid weight for `float()` (non-ASCII digits, underscores, sign, padding
included; `float()` has no length limit) -/
theorem pyFloatAccepts_int (cs : List Char) (v : Int) (h : pyIntLit cs = some v) : pyFloatAccepts cs = true :=
  FP.Literals.pyFloatAccepts_of_pyIntLit cs v h

/-- empty and whitespace-only tokens are neither weights nor vertex counts -/
theorem pyFloatAccepts_rejects_empty (cs : List Char) (h : ∀ c ∈ cs, isLitSpace c = true) :
    pyFloatAccepts cs = false ∧ pyIntLit cs = none :=
  FP.Literals.rejects_whitespace_only cs h

example : pyIntLit "xyz".toList = none :=
  pyIntLit_rejects_nondigit _ 'y' (by decide) (by decide) (by decide) (by decide) (by decide)
example : pyIntLit " +1_000\n".toList = some 1000 := by decide
example : pyIntLit "-0_7".toList = some (-7) := by decide
example : pyIntLit "١٢".toList = some 12 ∧ pyFloatAccepts "١٢".toList = true := by decide
example : pyIntLit "１２".toList = some 12 ∧ pyIntLit "²".toList = none ∧ pyFloatAccepts "²".toList = false := by decide
example : pyIntLit "1__0".toList = none ∧ pyIntLit "_1".toList = none ∧ pyIntLit "1_".toList = none
    ∧ pyIntLit "+_1".toList = none ∧ pyIntLit "1 2".toList = none ∧ pyIntLit "0x10".toList = none
    ∧ pyIntLit "1-".toList = none ∧ pyIntLit "+".toList = none ∧ pyIntLit "".toList = none
    ∧ pyIntLit "1.0".toList = none := by decide
/-- U+001C..U+001F: `str.isspace()` holds (the lexer splits there) but `int()` / `float()` do not strip them -/
example : pyIntLit "\x1c1".toList = none ∧ pyFloatAccepts "1\x1f".toList = false
    ∧ pyIntLit "\u00a01\u3000".toList = some 1 := by decide
example : pyFloatAccepts "1_000.5".toList = true ∧ pyFloatAccepts "1._5".toList = false
    ∧ pyFloatAccepts "1e".toList = false ∧ pyFloatAccepts ".".toList = false ∧ pyFloatAccepts "+.5".toList = true
    ∧ pyFloatAccepts "1.e3".toList = true ∧ pyFloatAccepts "1 2".toList = false
    ∧ pyFloatAccepts "0x10".toList = false ∧ pyFloatAccepts "1e+_5".toList = false := by decide
example : pyFloatAccepts "nan".toList = true ∧ pyFloatAccepts "-Infinity".toList = true
    ∧ pyFloatAccepts "infinit".toList = false ∧ pyFloatAccepts "iNf".toList = true
    ∧ pyFloatAccepts "in_f".toList = false ∧ pyFloatAccepts "nan1".toList = false := by decide
example : pyFloatAccepts "1\x002".toList = false ∧ pyFloatAccepts "1\x00".toList = false
    ∧ pyIntLit "1\x00".toList = none := by decide
example : pyFloatAccepts "１.５e１".toList = true ∧ pyFloatAccepts "1_e5".toList = false
    ∧ pyFloatAccepts "1e5_".toList = false ∧ pyFloatAccepts "1_.5".toList = false
    ∧ pyFloatAccepts "._5".toList = false ∧ pyFloatAccepts "-.5e-3".toList = true
    ∧ pyFloatAccepts "e5".toList = false ∧ pyFloatAccepts ".e5".toList = false
    ∧ pyFloatAccepts "1.0.0".toList = false ∧ pyFloatAccepts "+ 5".toList = false := by decide
example : pyFloatAccepts " \t".toList = false ∧ pyIntLit " \t".toList = none :=
  pyFloatAccepts_rejects_empty _ (by decide)

end FP.Props.C20
