import FP.Spec.ErrModels
import FP.Proofs.KMPE
import FP.Proofs.RouteUser
import FP.Proofs.ErrExample
import FP.Proofs.MpeFactors
/-!
# C08 — k-Minimum-Path-Error is feasible for k ≥ width and minimises total slack  (DAG model)

`kmpeLP inp` is the LP that `kMinPathError.__init__` hands to the solver (tied to the code by the K2
LP-dump suite). Vocabulary (`FP/Spec/ErrModels.lean`): `MPE.SlackOK` is the inequality
`|f(e) − Σ_i w_i[e ∈ p_i]| · scale(e) ≤ Σ_i slack_i[e ∈ p_i]`, `MPE.totalSlack = Σ_i slack_i`,
`MPE.Solution` / `MPE.Bounded` (weights and slacks ≥ 0 of the requested type / … ≤ `w_max`),
`MPE.Covers` (every non-ignored edge lies on some route).

Scope: soundness is proven without (`kmpe_sound`) and with (`kmpe_factors_sound`) path-length
factors; completeness / feasibility / optimality for `path_length_factors = []`, no subpath constraints
and unit lengths. With path-length factors the code falsifies feasibility (findings
C08-factors-lt1-bits, C08-factors-gt1-gamma-ub): the intended completeness statement
`kmpe_factors_complete_FullStatement` is refuted on a concrete witness (`factors_gt1_infeasible`).
-/
namespace FP.Props.C08
open FP FP.Spec FP.Spec.MPE

/-- **(a) soundness** (no path-length factors). Every satisfying assignment decodes to `k` routes;
weights and slacks lie in `[0, w_max]` and have the requested type; `pi = x·w`, `gamma = x·slack`;
every non-ignored edge satisfies the slack inequality; the objective is `Σ_i slack_i`. -/
theorem kmpe_sound (inp : MpeInput) (a : Asg) (h : BaseWF inp.ei.fi.base) (hac : Acyclic inp.ei.fi.base)
    (hfac : inp.factors = []) (hsat : Sat a (kmpeLP inp)) :
    ∃ ps : List (List Node),
      decodePaths inp.ei.st (fun e i => a (edgeVar e i)) inp.ei.k = some ps ∧ ps.length = inp.ei.k ∧
      Bounded inp.ei (fun i => ps.getD i []) (fun i => a (weightsVar i)) (fun i => a (slackVar i)) ∧
      (∀ i, i < inp.ei.k → ∀ e ∈ inp.ei.st.g.edges, a (edgeVar e i) = trav inp.ei.st (ps.getD i []) e) ∧
      (∀ e ∈ inp.ei.basicEdges, ∀ i, i < inp.ei.k →
        a (piVar e i) = a (edgeVar e i) * a (weightsVar i) ∧
        a (gammaVar e i) = a (edgeVar e i) * a (slackVar i)) ∧
      evalTerms a (kmpeLP inp).obj = totalSlack inp.ei.k (fun i => a (slackVar i)) :=
  FP.kmpe_sound inp a h hac hfac hsat

/-- the decoded non-empty paths are routes of the *user's* graph (C01) -/
theorem kmpe_routes_valid (inp : MpeInput) (a : Asg) (h : BaseWF inp.ei.fi.base)
    (hac : Acyclic inp.ei.fi.base) (hsat : Sat a (kmpeLP inp)) (i : Nat) (hi : i < inp.ei.k) :
    ∃ p, decodeLayer inp.ei.st (fun e i => a (edgeVar e i)) i = some p ∧
      (p = [] → inp.ei.fi.cfg.allowEmpty = true) ∧
      (p ≠ [] → ValidRoute inp.ei.fi.base inp.ei.fi.starts inp.ei.fi.ends p ∧ p.Nodup) :=
  FP.dag_routes_valid inp.ei.fi.base inp.ei.fi.starts inp.ei.fi.ends inp.ei.fi.cfg a h hac
    (sat_append_left a _ _ (sat_append_left a _ _ (sat_append_left a _ _ hsat))) i hi

/-- **completeness** (no factors): every bounded solution is represented, with objective `Σ slack_i` -/
theorem kmpe_complete (inp : MpeInput) (P : Nat → List Node) (w sl : Nat → Rat)
    (h : BaseWF inp.ei.fi.base) (hac : Acyclic inp.ei.fi.base) (hfac : inp.factors = [])
    (hcons : inp.ei.fi.cfg.constraints = []) (hlen : inp.ei.fi.cfg.lengths = none)
    (hscale : ∀ e ∈ inp.ei.basicEdges, 0 ≤ inp.ei.scale e)
    (hb : Bounded inp.ei P w sl) :
    ∃ a : Asg, Sat a (kmpeLP inp) ∧
      (∀ i, i < inp.ei.k → ∀ e ∈ inp.ei.st.g.edges, a (edgeVar e i) = trav inp.ei.st (P i) e) ∧
      (∀ i, i < inp.ei.k → a (weightsVar i) = w i ∧ a (slackVar i) = sl i) ∧
      evalTerms a (kmpeLP inp).obj = totalSlack inp.ei.k sl :=
  FP.kmpe_complete inp P w sl h hac hfac hcons hlen hscale hb

/-- **(b) feasibility for every `k ≥ 1` admitting a path cover.** If `k` routes cover every
non-ignored edge, weights `0` and slacks `fmax = weight_type(max f)` (≤ `w_max = k·fmax`) satisfy the
LP — so the model is feasible for every `k` at least the minimum number of routes covering the
non-ignored edges (its "width"). Needs flow values in `[0, fmax]` and scales in `[0, 1]`. -/
theorem kmpe_feasible_of_cover (inp : MpeInput) (P : Nat → List Node)
    (h : BaseWF inp.ei.fi.base) (hac : Acyclic inp.ei.fi.base) (hfac : inp.factors = [])
    (hcons : inp.ei.fi.cfg.constraints = []) (hlen : inp.ei.fi.cfg.lengths = none) (hk : 1 ≤ inp.ei.k)
    (hroutes : ∀ i, i < inp.ei.k → Route inp.ei.st inp.ei.fi.cfg.allowEmpty (P i))
    (hcov : Covers inp.ei P)
    (hf : ∀ e ∈ inp.ei.basicEdges, 0 ≤ inp.ei.fi.f e ∧ inp.ei.fi.f e ≤ inp.ei.fmax)
    (hscale : ∀ e ∈ inp.ei.basicEdges, 0 ≤ inp.ei.scale e ∧ inp.ei.scale e ≤ 1) :
    ∃ a : Asg, Sat a (kmpeLP inp) ∧
      (∀ i, i < inp.ei.k → ∀ e ∈ inp.ei.st.g.edges, a (edgeVar e i) = trav inp.ei.st (P i) e) ∧
      evalTerms a (kmpeLP inp).obj = (inp.ei.k : Rat) * inp.ei.fmax :=
  FP.kmpe_feasible_of_cover inp P h hac hfac hcons hlen hk hroutes hcov hf hscale

/-- the same with the cover given as routes of the user's graph -/
theorem kmpe_feasible_of_user_cover (inp : MpeInput) (P : Nat → List Node)
    (h : BaseWF inp.ei.fi.base) (hac : Acyclic inp.ei.fi.base) (hfac : inp.factors = [])
    (hcons : inp.ei.fi.cfg.constraints = []) (hlen : inp.ei.fi.cfg.lengths = none) (hk : 1 ≤ inp.ei.k)
    (hroutes : ∀ i, i < inp.ei.k → ValidRoute inp.ei.fi.base inp.ei.fi.starts inp.ei.fi.ends (P i))
    (hcov : Covers inp.ei P)
    (hf : ∀ e ∈ inp.ei.basicEdges, 0 ≤ inp.ei.fi.f e ∧ inp.ei.fi.f e ≤ inp.ei.fmax)
    (hscale : ∀ e ∈ inp.ei.basicEdges, 0 ≤ inp.ei.scale e ∧ inp.ei.scale e ≤ 1) :
    ∃ a : Asg, Sat a (kmpeLP inp) :=
  let ⟨a, hsat, _⟩ := FP.kmpe_feasible_of_cover inp P h hac hfac hcons hlen hk
    (fun i hi => route_of_validRoute _ _ _ h hac _ _ (hroutes i hi)) hcov hf hscale
  ⟨a, hsat⟩

/-- **(c) optimality transfer.** An optimal assignment decodes to a bounded solution whose total slack
is minimal among all bounded solutions, and the solver's objective is that total slack. -/
theorem kmpe_opt_transfer (inp : MpeInput) (a : Asg) (h : BaseWF inp.ei.fi.base) (hac : Acyclic inp.ei.fi.base)
    (hfac : inp.factors = [])
    (hcons : inp.ei.fi.cfg.constraints = []) (hlen : inp.ei.fi.cfg.lengths = none)
    (hscale : ∀ e ∈ inp.ei.basicEdges, 0 ≤ inp.ei.scale e)
    (hsat : Sat a (kmpeLP inp))
    (hopt : ∀ a', Sat a' (kmpeLP inp) → evalTerms a (kmpeLP inp).obj ≤ evalTerms a' (kmpeLP inp).obj) :
    ∃ ps : List (List Node),
      decodePaths inp.ei.st (fun e i => a (edgeVar e i)) inp.ei.k = some ps ∧
      Bounded inp.ei (fun i => ps.getD i []) (fun i => a (weightsVar i)) (fun i => a (slackVar i)) ∧
      (∀ P' w' sl', Bounded inp.ei P' w' sl' →
        totalSlack inp.ei.k (fun i => a (slackVar i)) ≤ totalSlack inp.ei.k sl') ∧
      evalTerms a (kmpeLP inp).obj = totalSlack inp.ei.k (fun i => a (slackVar i)) :=
  FP.kmpe_opt_transfer inp a h hac hfac hcons hlen hscale hsat hopt

/-- **the bounds `w_max` lose no optimum once a cover exists**: the total slack of the decoded optimum
is minimal among *all* solutions (weights and slacks unbounded) on routes of the user's graph. -/
theorem kmpe_optimal (inp : MpeInput) (a : Asg) (Pc : Nat → List Node)
    (h : BaseWF inp.ei.fi.base) (hac : Acyclic inp.ei.fi.base) (hfac : inp.factors = [])
    (hcons : inp.ei.fi.cfg.constraints = []) (hlen : inp.ei.fi.cfg.lengths = none) (hk : 1 ≤ inp.ei.k)
    (hroutes : ∀ i, i < inp.ei.k → Route inp.ei.st inp.ei.fi.cfg.allowEmpty (Pc i))
    (hcov : Covers inp.ei Pc)
    (hf : ∀ e ∈ inp.ei.basicEdges, 0 ≤ inp.ei.fi.f e ∧ inp.ei.fi.f e ≤ inp.ei.fmax)
    (hscale : ∀ e ∈ inp.ei.basicEdges, 0 ≤ inp.ei.scale e ∧ inp.ei.scale e ≤ 1)
    (hsat : Sat a (kmpeLP inp))
    (hopt : ∀ a', Sat a' (kmpeLP inp) → evalTerms a (kmpeLP inp).obj ≤ evalTerms a' (kmpeLP inp).obj) :
    ∀ P' w' sl', Solution inp.ei P' w' sl' →
      totalSlack inp.ei.k (fun i => a (slackVar i)) ≤ totalSlack inp.ei.k sl' :=
  FP.kmpe_opt_unbounded inp a Pc h hac hfac hcons hlen hk hroutes hcov hf hscale hsat hopt

/-! ### path-length factors -/

/-- **(a') soundness with path-length factors.** For every satisfying assignment of the LP with
`path_length_factors ≠ []` (ranges and factors of equal length, `L ≤ U`): every layer's path-length
column lies in some range `j` and `scaled_slack_i = slack_i · factors[j]` (piecewise-constant and
integer × continuous fragments, C12); `gamma(e,i) = x(e,i) · scaled_slack_i ≤ w_max`; every
non-ignored edge satisfies `|f(e) − Σ_i w_i[e ∈ p_i]| · scale(e) ≤ Σ_i scaled_slack_i[e ∈ p_i]`; the
objective is the sum of the *unscaled* slacks. `hfb`: the factor column `[min factors, max factors]`
lies inside the bound `[0, w_max·max factors]` given to the product helper (true when `w_max ≥ 1`). -/
theorem kmpe_factors_sound (inp : MpeInput) (a : Asg) (h : BaseWF inp.ei.fi.base) (hac : Acyclic inp.ei.fi.base)
    (hne : inp.factors ≠ []) (hlen : inp.ranges.length = inp.factors.length)
    (hLU : ∀ r ∈ inp.ranges, r.1 ≤ r.2)
    (hfb : 0 ≤ listMin inp.factors ∧ listMax inp.factors ≤ inp.ei.wmax none * listMax inp.factors)
    (hsat : Sat a (kmpeLP inp)) :
    ∃ ps : List (List Node),
      decodePaths inp.ei.st (fun e i => a (edgeVar e i)) inp.ei.k = some ps ∧ ps.length = inp.ei.k ∧
      (∀ i, i < inp.ei.k → Route inp.ei.st inp.ei.fi.cfg.allowEmpty (ps.getD i [])) ∧
      (∀ i, i < inp.ei.k → ∀ e ∈ inp.ei.st.g.edges, a (edgeVar e i) = trav inp.ei.st (ps.getD i []) e) ∧
      (∀ i, i < inp.ei.k → ∃ j, ∃ hj : j < inp.ranges.length,
        (inp.ranges[j]).1 ≤ a (lenVar i) ∧ a (lenVar i) ≤ (inp.ranges[j]).2 ∧
        a (scaledSlackVar i) = a (slackVar i) * inp.factors[j]'(hlen ▸ hj)) ∧
      (∀ e ∈ inp.ei.basicEdges, ∀ i, i < inp.ei.k →
        a (gammaVar e i) = a (edgeVar e i) * a (scaledSlackVar i) ∧ a (gammaVar e i) ≤ inp.ei.wmax none) ∧
      (∀ e ∈ inp.ei.basicEdges,
        (inp.ei.fi.f e - explained inp.ei.st inp.ei.k (fun i => ps.getD i []) (fun i => a (weightsVar i)) e).abs
            * inp.ei.scale e
          ≤ explained inp.ei.st inp.ei.k (fun i => ps.getD i []) (fun i => a (scaledSlackVar i)) e) ∧
      evalTerms a (kmpeLP inp).obj = totalSlack inp.ei.k (fun i => a (slackVar i)) :=
  FP.kmpe_factors_sound inp a h hac hne hlen hLU hfb hsat

/-- **the code falsifies feasibility with a factor above 1** (finding C08-factors-gt1-gamma-ub): on
`a → b → c`, `f = (1, 3)`, `k = 1 = width`, `path_length_ranges = [[0,1000]]`, `path_length_factors = [4]`
weight 2 and slack 1 (scaled slack 4) satisfy the slack inequality on both edges … -/
theorem factors_gt1_problem_has_solution :
    ∀ e ∈ MpeFactors.inp3.ei.basicEdges,
      SlackOK MpeFactors.inp3.ei ErrExample.P (fun _ => 2) (fun _ => (1 : Rat) * 4) e :=
  MpeFactors.problem_has_solution

/-- … but the LP the constructor builds has no satisfying assignment (`gamma ≤ w_max = 3` forces
`4·slack ≤ 3`, i.e. slack 0). Replayed on the real code by `harness/props/c08.py` (kInfeasible). -/
theorem factors_gt1_infeasible : ¬ ∃ a : Asg, Sat a (kmpeLP MpeFactors.inp3) :=
  MpeFactors.factors_gt1_infeasible

/-- the intended completeness statement with path-length factors (see `FP/Proofs/MpeFactors.lean`) is
therefore false for the code as it is -/
theorem kmpe_factors_complete_false : ¬ kmpe_factors_complete_FullStatement :=
  FP.kmpe_factors_complete_false

/-! ### non-vacuity -/

example : Bounded ErrExample.mpe.ei ErrExample.P ErrExample.w ErrExample.sl := ErrExample.mpe_bounded

/-- a satisfying assignment of a non-trivial instance (scaled edge, integral slack 2, positions encoded) -/
example : ∃ a, Sat a (kmpeLP ErrExample.mpe) ∧ evalTerms a (kmpeLP ErrExample.mpe).obj = 2 := by
  obtain ⟨a, hsat, _, _, hobj⟩ := FP.kmpe_complete ErrExample.mpe ErrExample.P ErrExample.w ErrExample.sl
    ErrExample.base_wf ErrExample.base_acyclic rfl rfl rfl
    (fun e he => (ErrExample.scale_nonneg e he).1) ErrExample.mpe_bounded
  refine ⟨a, hsat, ?_⟩
  rw [hobj]; unfold totalSlack
  show ((List.range 1).map ErrExample.sl).sum = 2
  simp [ErrExample.sl]; grind

/-- the cover hypothesis is satisfiable: feasibility of the instance from its one covering route -/
example : ∃ a, Sat a (kmpeLP ErrExample.mpe) :=
  let ⟨a, hsat, _⟩ := FP.kmpe_feasible_of_cover ErrExample.mpe ErrExample.P
    ErrExample.base_wf ErrExample.base_acyclic rfl rfl rfl (by decide)
    (fun _ _ => ErrExample.route _) ErrExample.covers ErrExample.flows_ok ErrExample.scale_nonneg
  ⟨a, hsat⟩

end FP.Props.C08
