import FP.Spec.ErrModels
import FP.Proofs.KMPE
import FP.Proofs.RouteUser
import FP.Proofs.ErrExample
import FP.Proofs.MpeFactors
import FP.Proofs.KMPEC
import FP.Proofs.KMPECComplete
import FP.Proofs.KLAECExample
import FP.Spec.ErrGiven
import FP.Proofs.KMPEGiven
import FP.Proofs.KMPEGivenExample
/-!
# C08 — k-Minimum-Path-Error is feasible for k ≥ width and minimises total slack  (DAG model)

`kmpeLP inp` is the LP that `kMinPathError.__init__` hands to the solver (tied to the code by the K2
LP-dump suite). Vocabulary (`FP/Spec/ErrModels.lean`): `MPE.SlackOK` is the inequality
`|f(e) − Σ_i w_i[e ∈ p_i]| · scale(e) ≤ Σ_i slack_i[e ∈ p_i]`, `MPE.totalSlack = Σ_i slack_i`,
`MPE.Solution` / `MPE.Bounded` (weights and slacks ≥ 0 of the requested type / … ≤ `w_max`),
`MPE.Covers` (every non-ignored edge lies on some route).

Scope: soundness is proven without (`kmpe_sound`) and with (`kmpe_factors_sound`) path-length
factors; completeness / feasibility / optimality for `path_length_factors = []`, no subpath constraints
and unit lengths. With path-length factors the code falsifies feasibility (findings
C08-factors-lt1-bits, C08-factors-gt1-gamma-ub): the intended completeness statement
`kmpe_factors_complete_FullStatement` is refuted on a concrete witness (`factors_gt1_infeasible`).

**Cyclic class** (last section): `kmpecLP inp` is the LP of `kMinPathErrorCycles.__init__`
(`elements_to_ignore_percentile = None`, no path-length factors; K2 LP-dump equality). Vocabulary
(`FP/Spec/ErrWalks.lean`): `MPEC.SlackOK` — the slack inequality with traversal counts in place of
indicators; `klaecCap` — the repetition caps (shared with `kLeastAbsErrorsCycles`); `MpecWithinCaps` —
the families of `k` weighted walks with slacks the LP can represent (caps, `w_i·traversals_i(e) ≤ w_max`,
`slack_i·traversals_i(e) ≤ w_max`). Soundness holds for every input (`kmpec_sound`); completeness and
minimality of the total slack only *within* these bounds (`kmpec_complete_within_caps`,
`kmpec_opt_within_caps`) — the bound `w_max = k·max f` on the products cuts off solutions of smaller
total slack (`kmpec_wmax_cuts_optimum`, finding C08-mpecycles-wmax-cuts-optimum), and the repetition
caps make the model infeasible at `k = width` on some inputs (finding C08-mpecycles-repetition-cap), so
`kmpe_feasible_of_cover` / `kmpe_optimal` have no cyclic counterpart.
-/
namespace FP.Props.C08
open FP FP.Spec FP.Spec.MPE

/-- **(a) soundness** (no path-length factors). Every satisfying assignment decodes to `k` routes;
weights and slacks lie in `[0, w_max]` and have the requested type; `pi = x·w`, `gamma = x·slack`;
every non-ignored edge satisfies the slack inequality; the objective is `Σ_i slack_i`. -/
theorem kmpe_sound (inp : MpeInput) (a : Asg) (h : BaseWF inp.ei.fi.base) (hac : Acyclic inp.ei.fi.base)
    (hfac : inp.factors = []) (hsat : Sat a (kmpeLP inp)) :
    ∃ ps : List (List Node),
      decodePaths inp.ei.st (fun e i => a (edgeVar e i)) inp.ei.k = some ps ∧ ps.length = inp.ei.k ∧
      Bounded inp.ei (fun i => ps.getD i []) (fun i => a (weightsVar i)) (fun i => a (slackVar i)) ∧
      (∀ i, i < inp.ei.k → ∀ e ∈ inp.ei.st.g.edges, a (edgeVar e i) = trav inp.ei.st (ps.getD i []) e) ∧
      (∀ e ∈ inp.ei.basicEdges, ∀ i, i < inp.ei.k →
        a (piVar e i) = a (edgeVar e i) * a (weightsVar i) ∧
        a (gammaVar e i) = a (edgeVar e i) * a (slackVar i)) ∧
      evalTerms a (kmpeLP inp).obj = totalSlack inp.ei.k (fun i => a (slackVar i)) :=
  FP.kmpe_sound inp a h hac hfac hsat

/-- the decoded non-empty paths are routes of the *user's* graph (C01) -/
theorem kmpe_routes_valid (inp : MpeInput) (a : Asg) (h : BaseWF inp.ei.fi.base)
    (hac : Acyclic inp.ei.fi.base) (hsat : Sat a (kmpeLP inp)) (i : Nat) (hi : i < inp.ei.k) :
    ∃ p, decodeLayer inp.ei.st (fun e i => a (edgeVar e i)) i = some p ∧
      (p = [] → inp.ei.fi.cfg.allowEmpty = true) ∧
      (p ≠ [] → ValidRoute inp.ei.fi.base inp.ei.fi.starts inp.ei.fi.ends p ∧ p.Nodup) :=
  FP.dag_routes_valid inp.ei.fi.base inp.ei.fi.starts inp.ei.fi.ends inp.ei.fi.cfg a h hac
    (sat_append_left a _ _ (sat_append_left a _ _ (sat_append_left a _ _ hsat))) i hi

/-- **completeness** (no factors): every bounded solution is represented, with objective `Σ slack_i` -/
theorem kmpe_complete (inp : MpeInput) (P : Nat → List Node) (w sl : Nat → Rat)
    (h : BaseWF inp.ei.fi.base) (hac : Acyclic inp.ei.fi.base) (hfac : inp.factors = [])
    (hcons : inp.ei.fi.cfg.constraints = []) (hlen : inp.ei.fi.cfg.lengths = none)
    (hscale : ∀ e ∈ inp.ei.basicEdges, 0 ≤ inp.ei.scale e)
    (hb : Bounded inp.ei P w sl) :
    ∃ a : Asg, Sat a (kmpeLP inp) ∧
      (∀ i, i < inp.ei.k → ∀ e ∈ inp.ei.st.g.edges, a (edgeVar e i) = trav inp.ei.st (P i) e) ∧
      (∀ i, i < inp.ei.k → a (weightsVar i) = w i ∧ a (slackVar i) = sl i) ∧
      evalTerms a (kmpeLP inp).obj = totalSlack inp.ei.k sl :=
  FP.kmpe_complete inp P w sl h hac hfac hcons hlen hscale hb

/-- **(b) feasibility for every `k ≥ 1` admitting a path cover.** If `k` routes cover every
non-ignored edge, weights `0` and slacks `fmax = weight_type(max f)` (≤ `w_max = k·fmax`) satisfy the
LP — so the model is feasible for every `k` at least the minimum number of routes covering the
non-ignored edges (its "width"). Needs flow values in `[0, fmax]` and scales in `[0, 1]`. -/
theorem kmpe_feasible_of_cover (inp : MpeInput) (P : Nat → List Node)
    (h : BaseWF inp.ei.fi.base) (hac : Acyclic inp.ei.fi.base) (hfac : inp.factors = [])
    (hcons : inp.ei.fi.cfg.constraints = []) (hlen : inp.ei.fi.cfg.lengths = none) (hk : 1 ≤ inp.ei.k)
    (hroutes : ∀ i, i < inp.ei.k → Route inp.ei.st inp.ei.fi.cfg.allowEmpty (P i))
    (hcov : Covers inp.ei P)
    (hf : ∀ e ∈ inp.ei.basicEdges, 0 ≤ inp.ei.fi.f e ∧ inp.ei.fi.f e ≤ inp.ei.fmax)
    (hscale : ∀ e ∈ inp.ei.basicEdges, 0 ≤ inp.ei.scale e ∧ inp.ei.scale e ≤ 1) :
    ∃ a : Asg, Sat a (kmpeLP inp) ∧
      (∀ i, i < inp.ei.k → ∀ e ∈ inp.ei.st.g.edges, a (edgeVar e i) = trav inp.ei.st (P i) e) ∧
      evalTerms a (kmpeLP inp).obj = (inp.ei.k : Rat) * inp.ei.fmax :=
  FP.kmpe_feasible_of_cover inp P h hac hfac hcons hlen hk hroutes hcov hf hscale

/-- the same with the cover given as routes of the user's graph -/
theorem kmpe_feasible_of_user_cover (inp : MpeInput) (P : Nat → List Node)
    (h : BaseWF inp.ei.fi.base) (hac : Acyclic inp.ei.fi.base) (hfac : inp.factors = [])
    (hcons : inp.ei.fi.cfg.constraints = []) (hlen : inp.ei.fi.cfg.lengths = none) (hk : 1 ≤ inp.ei.k)
    (hroutes : ∀ i, i < inp.ei.k → ValidRoute inp.ei.fi.base inp.ei.fi.starts inp.ei.fi.ends (P i))
    (hcov : Covers inp.ei P)
    (hf : ∀ e ∈ inp.ei.basicEdges, 0 ≤ inp.ei.fi.f e ∧ inp.ei.fi.f e ≤ inp.ei.fmax)
    (hscale : ∀ e ∈ inp.ei.basicEdges, 0 ≤ inp.ei.scale e ∧ inp.ei.scale e ≤ 1) :
    ∃ a : Asg, Sat a (kmpeLP inp) :=
  let ⟨a, hsat, _⟩ := FP.kmpe_feasible_of_cover inp P h hac hfac hcons hlen hk
    (fun i hi => route_of_validRoute _ _ _ h hac _ _ (hroutes i hi)) hcov hf hscale
  ⟨a, hsat⟩

/-- **(c) optimality transfer.** An optimal assignment decodes to a bounded solution whose total slack
is minimal among all bounded solutions, and the solver's objective is that total slack. -/
theorem kmpe_opt_transfer (inp : MpeInput) (a : Asg) (h : BaseWF inp.ei.fi.base) (hac : Acyclic inp.ei.fi.base)
    (hfac : inp.factors = [])
    (hcons : inp.ei.fi.cfg.constraints = []) (hlen : inp.ei.fi.cfg.lengths = none)
    (hscale : ∀ e ∈ inp.ei.basicEdges, 0 ≤ inp.ei.scale e)
    (hsat : Sat a (kmpeLP inp))
    (hopt : ∀ a', Sat a' (kmpeLP inp) → evalTerms a (kmpeLP inp).obj ≤ evalTerms a' (kmpeLP inp).obj) :
    ∃ ps : List (List Node),
      decodePaths inp.ei.st (fun e i => a (edgeVar e i)) inp.ei.k = some ps ∧
      Bounded inp.ei (fun i => ps.getD i []) (fun i => a (weightsVar i)) (fun i => a (slackVar i)) ∧
      (∀ P' w' sl', Bounded inp.ei P' w' sl' →
        totalSlack inp.ei.k (fun i => a (slackVar i)) ≤ totalSlack inp.ei.k sl') ∧
      evalTerms a (kmpeLP inp).obj = totalSlack inp.ei.k (fun i => a (slackVar i)) :=
  FP.kmpe_opt_transfer inp a h hac hfac hcons hlen hscale hsat hopt

/-- **the bounds `w_max` lose no optimum once a cover exists**: the total slack of the decoded optimum
is minimal among *all* solutions (weights and slacks unbounded) on routes of the user's graph. -/
theorem kmpe_optimal (inp : MpeInput) (a : Asg) (Pc : Nat → List Node)
    (h : BaseWF inp.ei.fi.base) (hac : Acyclic inp.ei.fi.base) (hfac : inp.factors = [])
    (hcons : inp.ei.fi.cfg.constraints = []) (hlen : inp.ei.fi.cfg.lengths = none) (hk : 1 ≤ inp.ei.k)
    (hroutes : ∀ i, i < inp.ei.k → Route inp.ei.st inp.ei.fi.cfg.allowEmpty (Pc i))
    (hcov : Covers inp.ei Pc)
    (hf : ∀ e ∈ inp.ei.basicEdges, 0 ≤ inp.ei.fi.f e ∧ inp.ei.fi.f e ≤ inp.ei.fmax)
    (hscale : ∀ e ∈ inp.ei.basicEdges, 0 ≤ inp.ei.scale e ∧ inp.ei.scale e ≤ 1)
    (hsat : Sat a (kmpeLP inp))
    (hopt : ∀ a', Sat a' (kmpeLP inp) → evalTerms a (kmpeLP inp).obj ≤ evalTerms a' (kmpeLP inp).obj) :
    ∀ P' w' sl', Solution inp.ei P' w' sl' →
      totalSlack inp.ei.k (fun i => a (slackVar i)) ≤ totalSlack inp.ei.k sl' :=
  FP.kmpe_opt_unbounded inp a Pc h hac hfac hcons hlen hk hroutes hcov hf hscale hsat hopt

/-! ### path-length factors -/

/-- **(a') soundness with path-length factors.** For every satisfying assignment of the LP with
`path_length_factors ≠ []` (ranges and factors of equal length, `L ≤ U`): every layer's path-length
column lies in some range `j` and `scaled_slack_i = slack_i · factors[j]` (piecewise-constant and
integer × continuous fragments, C12); `gamma(e,i) = x(e,i) · scaled_slack_i ≤ w_max`; every
non-ignored edge satisfies `|f(e) − Σ_i w_i[e ∈ p_i]| · scale(e) ≤ Σ_i scaled_slack_i[e ∈ p_i]`; the
objective is the sum of the *unscaled* slacks. `hfb`: the factor column `[min factors, max factors]`
lies inside the bound `[0, w_max·max factors]` given to the product helper (true when `w_max ≥ 1`). -/
theorem kmpe_factors_sound (inp : MpeInput) (a : Asg) (h : BaseWF inp.ei.fi.base) (hac : Acyclic inp.ei.fi.base)
    (hne : inp.factors ≠ []) (hlen : inp.ranges.length = inp.factors.length)
    (hLU : ∀ r ∈ inp.ranges, r.1 ≤ r.2)
    (hfb : 0 ≤ listMin inp.factors ∧ listMax inp.factors ≤ inp.ei.wmax none * listMax inp.factors)
    (hsat : Sat a (kmpeLP inp)) :
    ∃ ps : List (List Node),
      decodePaths inp.ei.st (fun e i => a (edgeVar e i)) inp.ei.k = some ps ∧ ps.length = inp.ei.k ∧
      (∀ i, i < inp.ei.k → Route inp.ei.st inp.ei.fi.cfg.allowEmpty (ps.getD i [])) ∧
      (∀ i, i < inp.ei.k → ∀ e ∈ inp.ei.st.g.edges, a (edgeVar e i) = trav inp.ei.st (ps.getD i []) e) ∧
      (∀ i, i < inp.ei.k → ∃ j, ∃ hj : j < inp.ranges.length,
        (inp.ranges[j]).1 ≤ a (lenVar i) ∧ a (lenVar i) ≤ (inp.ranges[j]).2 ∧
        a (scaledSlackVar i) = a (slackVar i) * inp.factors[j]'(hlen ▸ hj)) ∧
      (∀ e ∈ inp.ei.basicEdges, ∀ i, i < inp.ei.k →
        a (gammaVar e i) = a (edgeVar e i) * a (scaledSlackVar i) ∧ a (gammaVar e i) ≤ inp.ei.wmax none) ∧
      (∀ e ∈ inp.ei.basicEdges,
        (inp.ei.fi.f e - explained inp.ei.st inp.ei.k (fun i => ps.getD i []) (fun i => a (weightsVar i)) e).abs
            * inp.ei.scale e
          ≤ explained inp.ei.st inp.ei.k (fun i => ps.getD i []) (fun i => a (scaledSlackVar i)) e) ∧
      evalTerms a (kmpeLP inp).obj = totalSlack inp.ei.k (fun i => a (slackVar i)) :=
  FP.kmpe_factors_sound inp a h hac hne hlen hLU hfb hsat

/-- **the code falsifies feasibility with a factor above 1** (finding C08-factors-gt1-gamma-ub): on
`a → b → c`, `f = (1, 3)`, `k = 1 = width`, `path_length_ranges = [[0,1000]]`, `path_length_factors = [4]`
weight 2 and slack 1 (scaled slack 4) satisfy the slack inequality on both edges … -/
theorem factors_gt1_problem_has_solution :
    ∀ e ∈ MpeFactors.inp3.ei.basicEdges,
      SlackOK MpeFactors.inp3.ei ErrExample.P (fun _ => 2) (fun _ => (1 : Rat) * 4) e :=
  MpeFactors.problem_has_solution

/-- … but the LP the constructor builds has no satisfying assignment (`gamma ≤ w_max = 3` forces
`4·slack ≤ 3`, i.e. slack 0). Replayed on the real code by `harness/props/c08.py` (kInfeasible). -/
theorem factors_gt1_infeasible : ¬ ∃ a : Asg, Sat a (kmpeLP MpeFactors.inp3) :=
  MpeFactors.factors_gt1_infeasible

/-- the intended completeness statement with path-length factors (see `FP/Proofs/MpeFactors.lean`) is
therefore false for the code as it is -/
theorem kmpe_factors_complete_false : ¬ kmpe_factors_complete_FullStatement :=
  FP.kmpe_factors_complete_false

/-! ### non-vacuity -/

example : Bounded ErrExample.mpe.ei ErrExample.P ErrExample.w ErrExample.sl := ErrExample.mpe_bounded

/-- a satisfying assignment of a non-trivial instance (scaled edge, integral slack 2, positions encoded) -/
example : ∃ a, Sat a (kmpeLP ErrExample.mpe) ∧ evalTerms a (kmpeLP ErrExample.mpe).obj = 2 := by
  obtain ⟨a, hsat, _, _, hobj⟩ := FP.kmpe_complete ErrExample.mpe ErrExample.P ErrExample.w ErrExample.sl
    ErrExample.base_wf ErrExample.base_acyclic rfl rfl rfl
    (fun e he => (ErrExample.scale_nonneg e he).1) ErrExample.mpe_bounded
  refine ⟨a, hsat, ?_⟩
  rw [hobj]; unfold totalSlack
  show ((List.range 1).map ErrExample.sl).sum = 2
  simp [ErrExample.sl]; grind

/-- the cover hypothesis is satisfiable: feasibility of the instance from its one covering route -/
example : ∃ a, Sat a (kmpeLP ErrExample.mpe) :=
  let ⟨a, hsat, _⟩ := FP.kmpe_feasible_of_cover ErrExample.mpe ErrExample.P
    ErrExample.base_wf ErrExample.base_acyclic rfl rfl rfl (by decide)
    (fun _ _ => ErrExample.route _) ErrExample.covers ErrExample.flows_ok ErrExample.scale_nonneg
  ⟨a, hsat⟩

/-! ## the cyclic class `kMinPathErrorCycles` -/

/-- **(a) soundness, cyclic class.** For every satisfying assignment of the `kMinPathErrorCycles` LP on a
well-formed user digraph (cycles allowed): weights and slacks lie in `[0, w_max]` and are integral for
`weight_type = int`; every layer decodes to a route of the *user's* graph (empty only if empty walks are
allowed); the traversal counts of the decoded walk (synthetic endpoints put back) are the layer's edge
variables, natural numbers within the repetition caps; `pi(e,i) = w_i · traversals_i(e) ≤ w_max` and
`gamma(e,i) = slack_i · traversals_i(e) ≤ w_max` on every non-ignored edge; every non-ignored edge
satisfies `|f(e) − Σ_i w_i·traversals_i(e)| · scale(e) ≤ Σ_i slack_i·traversals_i(e)`; the solver's
objective is `Σ_i slack_i`. -/
theorem kmpec_sound (inp : WalkInput) (a : Asg) (h : BaseWF inp.base) (hsat : Sat a (kmpecLP inp)) :
    (∀ i, i < inp.k →
        (0 ≤ a (weightsVar i) ∧ a (weightsVar i) ≤ inp.wmax true ∧
          (inp.weightInt = true → IsInt (a (weightsVar i)))) ∧
        (0 ≤ a (slackVar i) ∧ a (slackVar i) ≤ inp.wmax true ∧
          (inp.weightInt = true → IsInt (a (slackVar i))))) ∧
    (∀ i, i < inp.k →
        (decodeWalkLayer inp.st a i = [] → inp.cfg.allowEmpty = true) ∧
        (decodeWalkLayer inp.st a i ≠ [] →
          ValidRoute inp.base inp.starts inp.ends (decodeWalkLayer inp.st a i))) ∧
    (∀ i, i < inp.k → ∀ e ∈ inp.st.g.edges,
        traversals (inp.st.source :: decodeWalkLayer inp.st a i ++ [inp.st.sink]) e = multOf a i e ∧
        a (edgeVar e i) = (multOf a i e : Rat) ∧ (multOf a i e : Rat) ≤ klaecCap inp e) ∧
    (∀ e ∈ inp.activeEdges true, ∀ i, i < inp.k →
        a (piVar e i) = a (weightsVar i) * (multOf a i e : Rat) ∧
        a (gammaVar e i) = a (slackVar i) * (multOf a i e : Rat) ∧
        a (piVar e i) ≤ inp.wmax true ∧ a (gammaVar e i) ≤ inp.wmax true) ∧
    (∀ e ∈ inp.activeEdges true,
        MPEC.SlackOK inp (decodeWalkLayer inp.st a) (fun i => a (weightsVar i))
          (fun i => a (slackVar i)) e) ∧
    evalTerms a (kmpecLP inp).obj = totalSlack inp.k (fun i => a (slackVar i)) :=
  FP.kmpec_sound_proof inp a h hsat

/-- the solver's objective at an assignment is `Σ_i slack_i` -/
theorem kmpec_objective (inp : WalkInput) (a : Asg) :
    evalTerms a (kmpecLP inp).obj = totalSlack inp.k (fun i => a (slackVar i)) :=
  FP.kmpecLP_obj inp a

/-- in a satisfying assignment every multiplicity on a non-ignored edge fits into the
`klaecBits inp = ⌈log2(w_max + 1)⌉` bit columns of its product blocks -/
theorem kmpec_mult_bits (inp : WalkInput) (a : Asg) (hsat : Sat a (kmpecLP inp))
    (e : Edge) (he : e ∈ inp.activeEdges true) (i : Nat) (hi : i < inp.k) :
    multOf a i e < 2 ^ klaecBits inp :=
  FP.kmpec_mult_bits inp a hsat e he i hi

/-- **(b) restricted completeness, cyclic class.** `k ≥ 1` weighted source-to-sink walks of the augmented
graph with slacks that are *within the caps* (`MpecWithinCaps`: repetition caps, weights and slacks in
`[0, w_max]` of the requested type, traversal counts fitting the bits, **every product
`w_i · traversals_i(e) ≤ w_max` and `slack_i · traversals_i(e) ≤ w_max`** on the non-ignored edges, the
slack inequality on every non-ignored edge, subset constraints covered) extend to the satisfying
assignment `kmpecWalkAsg` of the whole LP (all auxiliary columns included) with these traversal counts,
weights and slacks and objective `Σ_i slack_i`. `KmpecNameInj`: the product blocks have pairwise
different names; scales non-negative. -/
theorem kmpec_complete_within_caps (inp : WalkInput) (walk : Nat → List Node) (w sl : Nat → Rat)
    (hb : BaseWF inp.base) (hk : 0 < inp.k) (hinj : KmpecNameInj inp)
    (hscale : ∀ e ∈ inp.activeEdges true, 0 ≤ inp.scale e)
    (h : MpecWithinCaps inp walk w sl) :
    Sat (kmpecWalkAsg inp walk w sl) (kmpecLP inp) ∧
      (∀ i e, multOf (kmpecWalkAsg inp walk w sl) i e
        = traversals (inp.st.source :: walk i ++ [inp.st.sink]) e) ∧
      (∀ i, kmpecWalkAsg inp walk w sl (weightsVar i) = w i ∧
        kmpecWalkAsg inp walk w sl (slackVar i) = sl i) ∧
      evalTerms (kmpecWalkAsg inp walk w sl) (kmpecLP inp).obj = totalSlack inp.k sl :=
  FP.kmpec_complete_within_caps_proof inp walk w sl hb hk hinj hscale h

/-- … and conversely (no empty walks, no subset constraints) the decoded family of every satisfying
assignment is within the caps: `MpecWithinCaps` describes exactly what the LP can represent -/
theorem kmpec_decoded_within_caps (inp : WalkInput) (a : Asg) (hb : BaseWF inp.base)
    (hae : inp.cfg.allowEmpty = false) (hcons : inp.cfg.constraints = [])
    (hsat : Sat a (kmpecLP inp)) :
    MpecWithinCaps inp (decodeWalkLayer inp.st a) (fun i => a (weightsVar i)) (fun i => a (slackVar i)) :=
  FP.kmpec_decoded_within_caps inp a hb hae hcons hsat

/-- **(c) optimum transfer, cyclic class.** For an optimum `a` of the LP the solver's objective is the
total slack `Σ_i slack_i` of the returned solution, and it is at most the total slack of *every* family
of `k` weighted walks with slacks within the caps. -/
theorem kmpec_opt_within_caps (inp : WalkInput) (a : Asg) (hb : BaseWF inp.base) (hk : 0 < inp.k)
    (hinj : KmpecNameInj inp)
    (hscale : ∀ e ∈ inp.activeEdges true, 0 ≤ inp.scale e)
    (hopt : ∀ a', Sat a' (kmpecLP inp) → evalTerms a (kmpecLP inp).obj ≤ evalTerms a' (kmpecLP inp).obj) :
    evalTerms a (kmpecLP inp).obj = totalSlack inp.k (fun i => a (slackVar i)) ∧
    ∀ walk' w' sl', MpecWithinCaps inp walk' w' sl' →
      totalSlack inp.k (fun i => a (slackVar i)) ≤ totalSlack inp.k sl' :=
  FP.kmpec_opt_within_caps_proof inp a hb hk hinj hscale hopt

/-- **what the bound cuts off — the code falsifies minimality of the slack on cyclic inputs** (finding
C08-mpecycles-wmax-cuts-optimum; instance `s → a ⇄ b`, additional end `b`, `f = (4, 0, 4)`,
`error_scaling = {(a,b): 1/4}`, `k = 1`, `weight_type = int`, hence `w_max = 4`):

* the LP the constructor builds has optimum `2`: the assignment of the walk `s a b a b` with weight `2`
  and slack `2` is satisfying with objective `2`, and *every* satisfying assignment has objective at
  least `2`;
* yet the same walk — a route of the user's graph within the repetition caps — with weight `4 ≤ w_max`
  and slack `1` satisfies the slack inequality on every non-ignored edge: total slack `1`;
* that family is not within the caps (`pi(a,b) = 4·2 = 8 > w_max`).

Replayed on the real code by `harness/props/c08.py` (returns slack 2, brute force 1). -/
theorem kmpec_wmax_cuts_optimum :
    (Sat (kmpecWalkAsg CycleWitness.inp CycleWitness.walk (fun _ => 2) (fun _ => 2))
        (kmpecLP CycleWitness.inp) ∧
      evalTerms (kmpecWalkAsg CycleWitness.inp CycleWitness.walk (fun _ => 2) (fun _ => 2))
        (kmpecLP CycleWitness.inp).obj = 2) ∧
    (∀ a, Sat a (kmpecLP CycleWitness.inp) → 2 ≤ evalTerms a (kmpecLP CycleWitness.inp).obj) ∧
    (ValidRoute CycleWitness.inp.base CycleWitness.inp.starts CycleWitness.inp.ends (CycleWitness.walk 0) ∧
      (∀ e ∈ CycleWitness.inp.st.g.edges,
        (traversals (CycleWitness.inp.st.source :: CycleWitness.walk 0 ++ [CycleWitness.inp.st.sink]) e : Rat)
          ≤ klaecCap CycleWitness.inp e) ∧
      (4 : Rat) ≤ CycleWitness.inp.wmax true ∧
      (∀ e ∈ CycleWitness.inp.activeEdges true,
        MPEC.SlackOK CycleWitness.inp CycleWitness.walk (fun _ => 4) (fun _ => 1) e) ∧
      totalSlack CycleWitness.inp.k (fun _ => 1) = 1) ∧
    ¬ MpecWithinCaps CycleWitness.inp CycleWitness.walk (fun _ => 4) (fun _ => 1) :=
  ⟨⟨CycleWitness.mpec_sat, CycleWitness.mpec_obj⟩, CycleWitness.mpec_lp_lower_bound,
    ⟨CycleWitness.walk_valid, CycleWitness.laec_better_family.2.2, CycleWitness.laec_better_family.2.1,
      CycleWitness.mpec_better_family, by decide +kernel⟩,
    CycleWitness.mpec_cut_off⟩

/-! ### non-vacuity (cyclic class) -/

/-- (a) applies to a concrete satisfying assignment of a cyclic instance (63 columns, 113 rows, checked
column by column and row by row) … -/
example := kmpec_sound CycleWitness.inp _ CycleWitness.base_wf CycleWitness.mpec_sat_checked

/-- … which decodes to the walk `s a b a b` (once round the cycle `a ⇄ b`) and has objective `2` -/
example : decodeWalkLayer CycleWitness.inp.st
    (kmpecWalkAsg CycleWitness.inp CycleWitness.walk (fun _ => 2) (fun _ => 2)) 0
      = ["s", "a", "b", "a", "b"] :=
  CycleWitness.mpec_decode

/-- the hypotheses of (b) hold for that family -/
example := kmpec_complete_within_caps CycleWitness.inp CycleWitness.walk _ _ CycleWitness.base_wf
  (by decide) CycleWitness.mpec_names CycleWitness.scale_nonneg CycleWitness.mpec_within

/-- (c) applies to a true optimum of the instance (`CycleWitness.mpec_optimal`: objective `2`, minimal) -/
example := kmpec_opt_within_caps CycleWitness.inp _ CycleWitness.base_wf (by decide)
  CycleWitness.mpec_names CycleWitness.scale_nonneg CycleWitness.mpec_optimal

/-- the decoded family of the concrete satisfying assignment is within the caps -/
example := kmpec_decoded_within_caps CycleWitness.inp _ CycleWitness.base_wf rfl rfl
  CycleWitness.mpec_sat_checked

/-! ## the given-weights branch (`solution_weights_superset`)

`kmpeGivenLP inp ws original_k` is the LP that `kMinPathError.__init__` hands to the solver when
`solution_weights_superset = ws` is given (`_encode_minpatherror_decomposition_with_given_weights` +
`_encode_objective`; K2 LP-dump equality, with and without path-length factors). The constructor sets
`k = len(ws)` and allows empty paths (`inp.ei.forGiven ws`); the theorems hold for every `inp`.
Vocabulary (`FP/Spec/ErrGiven.lean`): `givenW ws i` — the `i`-th given number, the weight of layer `i`;
`usedCount k P` — the number of non-empty layers; `MPE.GivenSolution inp ws original_k P sl` — every layer
is the empty path or a route, at most `original_k` layers used, slacks `≥ 0` of the requested type, and
`|f(e) − Σ_{i used} ws[i][e ∈ P i]|·scale(e) ≤ Σ_i sl_i[e ∈ P i]` on every non-ignored edge;
`MPE.GivenBounded` — … and every slack `≤ w_max = max(k·weight_type(max f), max ws)`, the bound of the
slack columns. -/

/-- **(a) soundness, given weights** (no path-length factors). Every satisfying assignment decodes to a
bounded choice: every layer is the empty path or a route, at most `original_k` layers are non-empty (the
row `max_paths_original_k_paths`), the slacks lie in `[0, w_max]` and have the requested type, and every
non-ignored edge satisfies the slack inequality with layer `i` carrying the `i`-th given number; the
non-empty layers are routes of the *user's* graph; `gamma = x·slack`; the objective is `Σ_i slack_i`. -/
theorem kmpe_given_sound (inp : MpeInput) (ws : List Rat) (originalK : Nat) (a : Asg)
    (h : BaseWF inp.ei.fi.base) (hac : Acyclic inp.ei.fi.base) (hfac : inp.factors = [])
    (hsat : Sat a (kmpeGivenLP inp ws originalK)) :
    ∃ ps : List (List Node),
      decodePaths inp.ei.st (fun e i => a (edgeVar e i)) inp.ei.k = some ps ∧ ps.length = inp.ei.k ∧
      GivenBounded inp.ei ws originalK (fun i => ps.getD i []) (fun i => a (slackVar i)) ∧
      (∀ i, i < inp.ei.k → ps.getD i [] ≠ [] →
        ValidRoute inp.ei.fi.base inp.ei.fi.starts inp.ei.fi.ends (ps.getD i []) ∧ (ps.getD i []).Nodup) ∧
      (∀ i, i < inp.ei.k → ∀ e ∈ inp.ei.st.g.edges, a (edgeVar e i) = trav inp.ei.st (ps.getD i []) e) ∧
      (∀ e ∈ inp.ei.basicEdges, ∀ i, i < inp.ei.k →
        a (gammaVar e i) = a (edgeVar e i) * a (slackVar i)) ∧
      evalTerms a (kmpeGivenLP inp ws originalK).obj = totalSlack inp.ei.k (fun i => a (slackVar i)) :=
  FP.kmpe_given_sound inp ws originalK a h hac hfac hsat

/-- **(a') soundness, given weights, with path-length factors** (the code of seeded change C08-3: rows
9aa / 9ab must see the *length-scaled* slack). For every satisfying assignment of the given-weights LP
with `path_length_factors ≠ []` (ranges and factors of equal length, `L ≤ U`): every layer is the empty
path or a route of the user's graph, at most `original_k` are non-empty; every layer's path-length column
lies in some range `j` and `scaled_slack_i = slack_i · factors[j]`; `gamma(e,i) = x(e,i) · scaled_slack_i
≤ w_max`; every non-ignored edge satisfies
`|f(e) − Σ_{i used} ws[i][e ∈ p_i]| · scale(e) ≤ Σ_i scaled_slack_i[e ∈ p_i]`; the objective is the sum of
the *unscaled* slacks. `hfb` as in `kmpe_factors_sound`. -/
theorem kmpe_given_factors_sound (inp : MpeInput) (ws : List Rat) (originalK : Nat) (a : Asg)
    (h : BaseWF inp.ei.fi.base) (hac : Acyclic inp.ei.fi.base)
    (hne : inp.factors ≠ []) (hlen : inp.ranges.length = inp.factors.length)
    (hLU : ∀ r ∈ inp.ranges, r.1 ≤ r.2)
    (hfb : 0 ≤ listMin inp.factors ∧
      listMax inp.factors ≤ inp.ei.wmax (some ws) * listMax inp.factors)
    (hsat : Sat a (kmpeGivenLP inp ws originalK)) :
    ∃ ps : List (List Node),
      decodePaths inp.ei.st (fun e i => a (edgeVar e i)) inp.ei.k = some ps ∧ ps.length = inp.ei.k ∧
      (∀ i, i < inp.ei.k → Route inp.ei.st inp.ei.fi.cfg.allowEmpty (ps.getD i [])) ∧
      (∀ i, i < inp.ei.k → ps.getD i [] ≠ [] →
        ValidRoute inp.ei.fi.base inp.ei.fi.starts inp.ei.fi.ends (ps.getD i []) ∧ (ps.getD i []).Nodup) ∧
      usedCount inp.ei.k (fun i => ps.getD i []) ≤ originalK ∧
      (∀ i, i < inp.ei.k → ∀ e ∈ inp.ei.st.g.edges, a (edgeVar e i) = trav inp.ei.st (ps.getD i []) e) ∧
      (∀ i, i < inp.ei.k → 0 ≤ a (slackVar i) ∧ a (slackVar i) ≤ inp.ei.wmax (some ws) ∧
        (inp.ei.fi.weightInt = true → IsInt (a (slackVar i)))) ∧
      (∀ i, i < inp.ei.k → ∃ j, ∃ hj : j < inp.ranges.length,
        (inp.ranges[j]).1 ≤ a (lenVar i) ∧ a (lenVar i) ≤ (inp.ranges[j]).2 ∧
        a (scaledSlackVar i) = a (slackVar i) * inp.factors[j]'(hlen ▸ hj)) ∧
      (∀ e ∈ inp.ei.basicEdges, ∀ i, i < inp.ei.k →
        a (gammaVar e i) = a (edgeVar e i) * a (scaledSlackVar i) ∧
        a (gammaVar e i) ≤ inp.ei.wmax (some ws)) ∧
      (∀ e ∈ inp.ei.basicEdges,
        (inp.ei.fi.f e - explained inp.ei.st inp.ei.k (fun i => ps.getD i []) (givenW ws) e).abs
            * inp.ei.scale e
          ≤ explained inp.ei.st inp.ei.k (fun i => ps.getD i []) (fun i => a (scaledSlackVar i)) e) ∧
      evalTerms a (kmpeGivenLP inp ws originalK).obj = totalSlack inp.ei.k (fun i => a (slackVar i)) :=
  FP.kmpe_given_factors_sound inp ws originalK a h hac hne hlen hLU hfb hsat

/-- **(b) completeness, given weights** (no factors; scope as for `kmpe_complete`): every bounded choice of
at most `original_k` of the given weights (by index) with routes and slacks is represented, with objective
`Σ slack_i` -/
theorem kmpe_given_complete (inp : MpeInput) (ws : List Rat) (originalK : Nat) (P : Nat → List Node)
    (sl : Nat → Rat) (h : BaseWF inp.ei.fi.base) (hac : Acyclic inp.ei.fi.base) (hfac : inp.factors = [])
    (hcons : inp.ei.fi.cfg.constraints = []) (hlen : inp.ei.fi.cfg.lengths = none)
    (hscale : ∀ e ∈ inp.ei.basicEdges, 0 ≤ inp.ei.scale e)
    (hb : GivenBounded inp.ei ws originalK P sl) :
    ∃ a : Asg, Sat a (kmpeGivenLP inp ws originalK) ∧
      (∀ i, i < inp.ei.k → ∀ e ∈ inp.ei.st.g.edges, a (edgeVar e i) = trav inp.ei.st (P i) e) ∧
      (∀ i, i < inp.ei.k → a (slackVar i) = sl i) ∧
      evalTerms a (kmpeGivenLP inp ws originalK).obj = totalSlack inp.ei.k sl :=
  FP.kmpe_given_complete inp ws originalK P sl h hac hfac hcons hlen hscale hb

/-- **(c) optimum transfer, given weights** (no factors). An optimal assignment decodes to a bounded choice
whose total slack is minimal among all bounded choices of at most `original_k` of the given weights with
routes and slacks, and the solver's objective is that total slack. -/
theorem kmpe_given_opt_transfer (inp : MpeInput) (ws : List Rat) (originalK : Nat) (a : Asg)
    (h : BaseWF inp.ei.fi.base) (hac : Acyclic inp.ei.fi.base) (hfac : inp.factors = [])
    (hcons : inp.ei.fi.cfg.constraints = []) (hlen : inp.ei.fi.cfg.lengths = none)
    (hscale : ∀ e ∈ inp.ei.basicEdges, 0 ≤ inp.ei.scale e)
    (hsat : Sat a (kmpeGivenLP inp ws originalK))
    (hopt : ∀ a', Sat a' (kmpeGivenLP inp ws originalK) →
      evalTerms a (kmpeGivenLP inp ws originalK).obj ≤ evalTerms a' (kmpeGivenLP inp ws originalK).obj) :
    ∃ ps : List (List Node),
      decodePaths inp.ei.st (fun e i => a (edgeVar e i)) inp.ei.k = some ps ∧
      GivenBounded inp.ei ws originalK (fun i => ps.getD i []) (fun i => a (slackVar i)) ∧
      (∀ P' sl', GivenBounded inp.ei ws originalK P' sl' →
        totalSlack inp.ei.k (fun i => a (slackVar i)) ≤ totalSlack inp.ei.k sl') ∧
      evalTerms a (kmpeGivenLP inp ws originalK).obj = totalSlack inp.ei.k (fun i => a (slackVar i)) :=
  FP.kmpe_given_opt_transfer inp ws originalK a h hac hfac hcons hlen hscale hsat hopt

/-- **what the bound cuts off — the code falsifies minimality of the slack when the given weights exceed
the flow values** (finding C08-given-weights-wmax-cuts-optimum; instance `s0 → u`, `s1 → u`, `u → v`,
`v → t1`, `v → x`, `s2 → x`, `x → y`, `f = 1` except `f(u,v) = f(x,y) = 0`, `k = 3`, `weight_type = int`,
`solution_weights_superset = [15, 15, 15]`, hence `w_max = max(3·1, 15) = 15`):

* the LP the constructor builds has optimum `45`: a satisfying assignment with objective `45` exists
  (routes `s0 u v t1`, `s1 u v x y`, `s2 x y`, slacks `15, 15, 15`) and *every* satisfying assignment has
  objective at least `45`;
* yet the same routes — routes of the user's graph, `3 ≤ original_k` layers — with the integer slacks
  `14, 16, 14` satisfy the slack inequality on every non-ignored edge: total slack `44`;
* that choice is not bounded (`16 > w_max`): it is exactly what the bound on the slack columns excludes.

Replayed on the real code by `harness/props/c08.py` (returns slack 45, brute force 44). -/
theorem kmpe_given_wmax_cuts_optimum :
    (∃ a : Asg, Sat a (kmpeGivenLP GivenExampleMPE.inp GivenExampleMPE.ws 3) ∧
      evalTerms a (kmpeGivenLP GivenExampleMPE.inp GivenExampleMPE.ws 3).obj = 45) ∧
    (∀ a, Sat a (kmpeGivenLP GivenExampleMPE.inp GivenExampleMPE.ws 3) →
      45 ≤ evalTerms a (kmpeGivenLP GivenExampleMPE.inp GivenExampleMPE.ws 3).obj) ∧
    (GivenSolution GivenExampleMPE.inp.ei GivenExampleMPE.ws 3 GivenExampleMPE.P GivenExampleMPE.sl44 ∧
      (∀ i, i < 3 → ValidRoute GivenExampleMPE.inp.ei.fi.base GivenExampleMPE.inp.ei.fi.starts
        GivenExampleMPE.inp.ei.fi.ends (GivenExampleMPE.P i)) ∧
      totalSlack GivenExampleMPE.inp.ei.k GivenExampleMPE.sl44 = 44) ∧
    ¬ GivenBounded GivenExampleMPE.inp.ei GivenExampleMPE.ws 3 GivenExampleMPE.P GivenExampleMPE.sl44 :=
  ⟨GivenExampleMPE.sat45, GivenExampleMPE.lp_lower_bound,
    ⟨GivenExampleMPE.solution44, GivenExampleMPE.valid_P, GivenExampleMPE.total44⟩,
    GivenExampleMPE.not_bounded44⟩

/-! ### non-vacuity (given weights) -/

/-- the instance is what the constructor makes of the user's call (`k = len(ws)`, empty paths allowed,
positions encoded) -/
example : GivenExampleMPE.inp
    = { ei := ({ fi := GivenExampleMPE.fi0 } : ErrInput).forGiven GivenExampleMPE.ws } := rfl
example : GivenExampleMPE.inp.ei.k = 3 ∧ GivenExampleMPE.inp.ei.fi.cfg.allowEmpty = true ∧
    GivenExampleMPE.inp.ei.fi.cfg.encodePosition = true := ⟨rfl, rfl, rfl⟩

/-- the hypotheses of (b) hold for three routes with slacks `15, 15, 15`, total slack 45 -/
example : GivenBounded GivenExampleMPE.inp.ei GivenExampleMPE.ws 3 GivenExampleMPE.P GivenExampleMPE.sl15 :=
  GivenExampleMPE.bounded45

/-- a satisfying assignment of the given-weights LP of that instance (positions encoded), objective 45:
the hypotheses of (a) are satisfiable -/
example : ∃ a, Sat a (kmpeGivenLP GivenExampleMPE.inp GivenExampleMPE.ws 3) ∧
    evalTerms a (kmpeGivenLP GivenExampleMPE.inp GivenExampleMPE.ws 3).obj = 45 := GivenExampleMPE.sat45

/-- (c) applies to a true optimum of the instance (objective `45`, minimal by `lp_lower_bound`) -/
example : ∃ a, Sat a (kmpeGivenLP GivenExampleMPE.inp GivenExampleMPE.ws 3) ∧
    ∀ a', Sat a' (kmpeGivenLP GivenExampleMPE.inp GivenExampleMPE.ws 3) →
      evalTerms a (kmpeGivenLP GivenExampleMPE.inp GivenExampleMPE.ws 3).obj
        ≤ evalTerms a' (kmpeGivenLP GivenExampleMPE.inp GivenExampleMPE.ws 3).obj := by
  obtain ⟨a, hsat, hobj⟩ := GivenExampleMPE.sat45
  exact ⟨a, hsat, fun a' h' => by rw [hobj]; exact GivenExampleMPE.lp_lower_bound a' h'⟩

/-- (a') applies to a concrete satisfying assignment of a given-weights instance *with* path-length
factors (`a → b → c`, `f = (4, 1)`, given weights `[2]`, one range with factor `2`; 25 columns and 45 rows,
checked column by column and row by row): slack `1`, scaled slack `2` … -/
example := kmpe_given_factors_sound GivenExampleMPE.Factors.inp GivenExampleMPE.Factors.ws 1
  GivenExampleMPE.Factors.asg ErrExample.base_wf ErrExample.base_acyclic
  GivenExampleMPE.Factors.hyps.1 GivenExampleMPE.Factors.hyps.2.1 GivenExampleMPE.Factors.hyps.2.2.1
  GivenExampleMPE.Factors.hyps.2.2.2 GivenExampleMPE.Factors.sat

/-- … which decodes to the route `a b c` -/
example : decodeLayer GivenExampleMPE.Factors.inp.ei.st
    (fun e i => GivenExampleMPE.Factors.asg (edgeVar e i)) 0 = some ["a", "b", "c"] :=
  GivenExampleMPE.Factors.decode


end FP.Props.C08
