import FP.Spec.Substrate
import FP.Proofs.ReachTables
import FP.Proofs.BottleneckPath
import FP.Proofs.Greedy
import FP.Proofs.Antichain
import FP.Proofs.AntichainMax
import FP.Proofs.AntichainFuel
import FP.Proofs.GreedyExact
import FP.Proofs.TopoCheck
import FP.Proofs.C17Example
/-!
# C17 — substrate queries (reachability, antichain, bottleneck peeling) match the graph

Models: `FP/Model/Reach.lean` (stDiGraph queries with their memo dictionaries, stDAG closure tables),
`FP/Model/Bottleneck.lean` (`max_bottleneck_path`, `decompose_using_max_bottleneck`),
`FP/Model/Antichain.lean` (the extraction phases of `compute_max_edge_antichain`).
Values produced by networkx (`condensation`, `descendants`, `ancestors`, `topological_sort`,
`network_simplex`) are oracle parameters; their contracts are `CondContract` and `IsTopo`.
-/
namespace FP.Props.C17
open FP FP.Spec

/-! ## stDiGraph: answers through the condensation are plain reachability -/

/-- `nodes_reachable(v)` holds exactly the nodes reachable from `v`, for every labelling /
condensation / descendants table satisfying the networkx contract. -/
theorem reach_via_condensation (g : Graph) (o : CondOracle) (h : CondContract g o) (v : Node) (hv : v ∈ g.nodes)
    (w : Node) : w ∈ nodesReachableFn g o v ↔ Reach g.edges v w :=
  nodesReachable_correct g o h v hv w

/-- `nodes_reaching(v)` holds exactly the nodes of the graph from which `v` is reachable. -/
theorem reaching_via_condensation (g : Graph) (o : CondOracle) (h : CondContract g o) (v : Node) (hv : v ∈ g.nodes)
    (w : Node) : w ∈ nodesReachingFn g o v ↔ (w ∈ g.nodes ∧ Reach g.edges w v) :=
  nodesReaching_correct g o h v hv w

/-- `is_scc_edge(u, v)` on an edge of the graph: true iff the edge closes a cycle, i.e. `u` is
reachable back from `v`. Convention of the code: a self-loop `(u, u)` is an SCC edge (its
component is "non-trivial" although it has one node); an edge between different components is not. -/
theorem scc_edge_iff (g : Graph) (o : CondOracle) (h : CondContract g o) (u v : Node) (he : (u, v) ∈ g.edges) :
    isSccEdgeFn o u v = true ↔ Reach g.edges v u :=
  isSccEdge_correct g o h u v he

/-- `compute_edge_max_reachable_value`: `x` lies below the value of `e` iff `x ≤ 0` (the floor the
code starts from) or `x` lies below the weight of an edge in the scope of `e` — `e` itself, an edge
whose tail is reachable from the head of `e`, an edge whose head reaches the tail of `e`. For
non-negative weights the value therefore is the maximum weight over that scope (upper bound and
attained). -/
theorem edge_max_reachable_correct (g : Graph) (o : CondOracle) (h : CondContract g o) (wt : Edge → Rat)
    (e : Edge) (he : e ∈ g.edges) :
    (∀ x, x ≤ edgeMaxFn g o wt e ↔ x ≤ 0 ∨ ∃ e' ∈ g.edges, InScope g e e' ∧ x ≤ wt e') ∧
    ((∀ e ∈ g.edges, 0 ≤ wt e) →
      (∀ e' ∈ g.edges, InScope g e e' → wt e' ≤ edgeMaxFn g o wt e) ∧
      (∃ e' ∈ g.edges, InScope g e e' ∧ wt e' = edgeMaxFn g o wt e)) :=
  ⟨edgeMax_char g o h wt e he, fun hnn => edgeMax_is_max g o h wt hnn e he⟩

/-- **the memo dictionaries are transparent**: for every query sequence, in whatever order and
however often repeated, the object (starting with empty caches) answers each query exactly as the
cache-free computation does. (Invariant: every cached entry is the value of the pure function.) -/
theorem cache_transparent (g : Graph) (o : CondOracle) (qs : List Query) :
    (qrun g o {} qs).2 = qs.map (pureAnswer g o) :=
  (qrun_ok g o qs {} (cacheOK_empty g o)).2

example : (qrun C17Example.g C17Example.o {} C17Example.queries).2 =
    [.nodes ["c", "a", "b"], .nodes ["a", "b", "c"], .nodes ["c", "a", "b"], .bool true, .bool false, .valueError,
     .vals [(("a", "b"), 5), (("b", "a"), 5), (("b", "c"), 5)]] := C17Example.answers

example : Reach C17Example.g.edges "a" "c" :=
  (reach_via_condensation _ _ C17Example.contract "a" (by decide) "c").1 (by decide)

/-! ## stDAG: the four closure tables -/

/-- For every order satisfying the topological-order contract, the tables built by sweeping the
order hold at every listed node exactly the reachability sets. -/
theorem dag_tables_correct (g : Graph) (topo : List Node) (h : IsTopo g.edges topo) (v : Node) (hv : v ∈ topo) :
    (∀ x, x ∈ (dagReachNodes g topo).get v ↔ Reach g.edges v x) ∧
    (∀ x, x ∈ (dagNodesReaching g topo).get v ↔ Reach g.edges x v) ∧
    (∀ e, e ∈ (dagReachEdges g topo).get v ↔ (e ∈ g.edges ∧ Reach g.edges v e.1)) ∧
    (∀ e, e ∈ (dagReachEdgesRev g topo).get v ↔ (e ∈ g.edges ∧ Reach g.edges e.2 v)) :=
  ⟨dagReachNodes_correct g topo h v hv, dagNodesReaching_correct g topo h v hv,
   dagReachEdges_correct g topo h v hv, dagReachEdgesRev_correct g topo h v hv⟩

example : IsTopo C17Example.d.edges C17Example.dtopo := C17Example.d_topo
example : (dagReachNodes C17Example.d C17Example.dtopo).get "s" = ["s", "a", "t", "b"] := C17Example.d_tables.1

/-! ## max_bottleneck_path -/

/-- On any DAG (topological order satisfying the contract) and any edge values — the complete case
analysis (`BottleneckSpec`):
* `(None, None)`: either there is no source-to-sink path with at least one edge at all (no node has
  an in-edge and no out-edge, e.g. a graph without edges), or every source-to-sink path has an edge of
  value `≤ 0` and some path has only values `≥ 0` and the value `0` on one edge (best bottleneck
  exactly `0`);
* `(q, p)`: `q ≠ 0`, `p` is a source-to-sink path whose smallest edge value is `q`, and every
  source-to-sink path has an edge of value `≤ q` (so `q` is the best bottleneck);
* the model-internal fuel never runs out.

Conversely `(None, None)` is returned **iff** no source-to-sink path has a positive bottleneck and,
unless no source-to-sink path exists, some path has a non-negative one (a negative best bottleneck
is returned as a path); for non-negative edge values: iff no source-to-sink path has a positive
bottleneck — the case that no path exists at all included. -/
theorem bottleneck_path_correct (g : Graph) (f : Edge → Rat) (topo : List Node) (h : IsTopo g.edges topo) :
    BottleneckSpec g f (maxBottleneckPath g f topo) ∧
    (maxBottleneckPath g f topo = .none ↔
      (∀ p, IsSTPath g p → ∃ e ∈ walkEdges p, f e ≤ 0) ∧
      ((∃ p, IsSTPath g p) → ∃ p, IsSTPath g p ∧ ∀ e ∈ walkEdges p, 0 ≤ f e)) ∧
    ((∀ e ∈ g.edges, 0 ≤ f e) →
      (maxBottleneckPath g f topo = .none ↔ ∀ p, IsSTPath g p → ∃ e ∈ walkEdges p, f e ≤ 0)) :=
  ⟨maxBottleneckPath_spec g f topo h, maxBottleneckPath_none_iff g f topo h,
   maxBottleneckPath_none_iff_nonneg g f topo h⟩

example : maxBottleneckPath C17Example.d C17Example.dflow C17Example.dtopo = .path 3 ["s", "a", "t"] :=
  C17Example.d_bottleneck

/-! ## decompose_using_max_bottleneck -/

/-- **loop invariant, any input**: whenever the peeling stops, the input equals the residual plus
the peeled paths counted with their weights on every edge; every peeled path is a source-to-sink
path with non-zero weight; on the residual every source-to-sink path has an edge of value `≤ 0`. -/
theorem greedy_invariant (g : Graph) (f : Edge → Rat) (topo : List Node) (htopo : IsTopo g.edges topo)
    (r : Peeled) (h : decompose g f topo = .done r) :
    (∀ e, f e = r.residual e + peeledSum r.paths e) ∧
    (∀ pw ∈ r.paths, IsSTPath g pw.1 ∧ pw.2 ≠ 0) ∧
    (∀ p, IsSTPath g p → ∃ e ∈ walkEdges p, r.residual e ≤ 0) :=
  decompose_invariant g f topo htopo r h

example : ∃ r, decompose C17Example.d C17Example.dflow C17Example.dtopo = .done r ∧
    r.paths = [(["s", "a", "t"], 3), (["s", "b", "t"], 2)] ∧ ∀ e ∈ C17Example.d.edges, r.residual e = 0 :=
  C17Example.d_decompose

/-- **greedy peeling is exact (full statement).** On every DAG with distinct edges (a graph without
edges included, see `greedy_edgeless_empty`), `topo` any order satisfying the topological-order
contract, and a non-negative flow conserved at every node that has both in- and out-edges: the
`while True` loop stops within the fuel `|E| + 1` (each round zeroes another edge), the residual
vanishes, every returned path is a source-to-sink path of the graph with positive weight, and
`Σ_i w_i · [e ∈ p_i] = f(e)` on every edge. -/
theorem greedy_exact (g : Graph) (hnd : g.edges.Nodup) (topo : List Node)
    (htopo : IsTopo g.edges topo) (f : Edge → Rat) (hnn : ∀ e ∈ g.edges, 0 ≤ f e) (hc : Conserving g f) :
    ∃ r, decompose g f topo = .done r ∧ (∀ e ∈ g.edges, r.residual e = 0) ∧
      (∀ e ∈ g.edges, peeledSum r.paths e = f e) ∧ (∀ pw ∈ r.paths, IsSTPath g pw.1 ∧ 0 < pw.2) :=
  decompose_exact g hnd topo htopo f hnn hc

example : ∃ r, decompose C17Example.d C17Example.dflow C17Example.dtopo = .done r ∧
    (∀ e ∈ C17Example.d.edges, r.residual e = 0) ∧
    (∀ e ∈ C17Example.d.edges, peeledSum r.paths e = C17Example.dflow e) ∧
    (∀ pw ∈ r.paths, IsSTPath C17Example.d pw.1 ∧ 0 < pw.2) :=
  greedy_exact C17Example.d (by decide) C17Example.dtopo C17Example.d_topo' C17Example.dflow
    C17Example.d_nonneg C17Example.d_conserving

/-- on a graph without edges (any nodes, any order, any `f`) `max_bottleneck_path` answers
`(None, None)` and `decompose_using_max_bottleneck` returns `([], [])` leaving `f` untouched
(repaired finding C17-F1: the code used to raise `KeyError(None)` here). -/
theorem greedy_edgeless_empty (g : Graph) (he : g.edges = []) (topo : List Node) (f : Edge → Rat) :
    maxBottleneckPath g f topo = .none ∧ decompose g f topo = .done { paths := [], residual := f } :=
  decompose_edgeless g he topo f

example : decompose { nodes := ["a", "b"], edges := [] } C17Example.dflow ["a", "b"] =
    .done { paths := [], residual := C17Example.dflow } :=
  (greedy_edgeless_empty _ rfl _ _).2

/-! ## antichain extraction -/

/-- **soundness**: whatever `(minFlowCost, minFlow)` the solver returned, if the two DFS phases run
to completion the returned edges are edges of the graph carrying exactly their demand (`≥ 1`), they
leave a set that contains the source, not the sink, and is closed under predecessors, and they
are pairwise incomparable: the head of none reaches the tail of another. -/
theorem antichain_sound (a : ACInput) (A : List Edge) (h : acExtract a = .ok (some A)) :
    ∃ vis1 : Node → Nat, acVisited a = .ok (some vis1) ∧
      (∀ u, vis1 u ≠ 0 → ∀ v, (v, u) ∈ a.g.edges → vis1 v ≠ 0) ∧ vis1 a.source ≠ 0 ∧ vis1 a.sink = 0 ∧
      (∀ e ∈ A, ACGood a vis1 e) ∧ IsEdgeAntichain a.g A :=
  acExtract_sound a A h

example : IsEdgeAntichain C17Example.ac.g [("a", "b"), ("a", "c")] :=
  (antichain_sound C17Example.ac _ C17Example.ac_extract_eq).choose_spec.2.2.2.2.2

/-- the fuel `2·|E| + 2` handed to each DFS phase always suffices: the extraction either trips the
`assert u != self.sink` or returns a list -/
theorem antichain_fuel (a : ACInput) : acExtract a ≠ .ok none := acExtract_fuel a

/-- **maximality (weak duality).** In the augmented DAG (distinct nodes, closed edge set, source
without in-edges, sink without out-edges) with non-negative demands: if `minFlow` is feasible
(at least the demand everywhere, conserved at inner nodes), `minFlowCost` is its value, and the
final `assert` of the code held, then the returned list is an antichain whose total demand equals
`minFlowCost` and no duplicate-free edge antichain has larger total demand — so the reported
optimum, the weight of the returned antichain and the true maximum coincide. (`useLen` is the
`assert minFlowCost == len(antichain)` branch of the default 0/1 demands.) -/
theorem antichain_max (a : ACInput) (hN : a.g.nodes.Nodup)
    (hwf : ∀ e ∈ a.g.edges, e.1 ∈ a.g.nodes ∧ e.2 ∈ a.g.nodes) (topo : List Node) (htopo : IsTopo a.g.edges topo)
    (hsrc : a.source ∈ a.g.nodes) (hps : a.g.pred a.source = []) (hss : a.g.succ a.sink = [])
    (hne : a.source ≠ a.sink) (hd : ∀ e ∈ a.g.edges, 0 ≤ a.demand e)
    (hx : FeasibleFlow a.g a.source a.sink a.demand a.flow) (cost : Rat) (hcost : cost = flowValue a.g a.source a.flow)
    (useLen : Bool) (hlen : useLen = true → ∀ e ∈ a.g.edges, a.demand e ≤ 1)
    (A : List Edge) (h : acResult a cost useLen = .ok (some A)) :
    IsEdgeAntichain a.g A ∧ (A.map a.demand).sum = cost ∧
      ∀ A', IsEdgeAntichain a.g A' → A'.Nodup → (A'.map a.demand).sum ≤ (A.map a.demand).sum :=
  acResult_max a hN hwf topo htopo hsrc hps hss hne hd hx cost hcost useLen hlen A h

example : ∀ A', IsEdgeAntichain C17Example.ac.g A' → A'.Nodup →
    (A'.map C17Example.ac.demand).sum ≤ ([("a", "b"), ("a", "c")].map C17Example.ac.demand).sum :=
  (antichain_max C17Example.ac (by decide) (by decide) C17Example.actopo C17Example.ac_topo (by decide) (by decide)
    (by decide) (by decide) (by decide +kernel) C17Example.ac_feasible 5 C17Example.ac_cost false (by simp) _
    C17Example.ac_result_eq).2.2

/-- the executable order check run by the driver before every table / DP evaluation implies the
contract `IsTopo` used by the theorems above -/
theorem topo_check_sound (nodes : List Node) (es : List Edge) (order : List Node)
    (h : checkTopo nodes es order = true) : IsTopo es order := checkTopo_sound nodes es order h

end FP.Props.C17
