import FP.Spec.GenSet
import FP.Model.Enc.MGS
import FP.Model.Enc.MSC
import FP.Model.Search
import FP.Props.C13
import FP.Proofs.C15
import FP.Proofs.MGSRange
import FP.Proofs.MGSPartitionRange
/-!
# C15 — MinGenSet and MinSetCover return true optima whenever one exists

Property theorems only (proofs in `FP/Proofs/{GenSetSpec,LPLemmas,MGS,MGSComplete,MGSPre,MGSRange,
MGSPartitionRangeCut,MGSPartitionRange,MSC,C15}.lean`).
Vocabulary: `FP/Spec/GenSet.lean`.

What is proven, in the order of the statement:

* the MILP of `_create_solver(k)` (`mgsLP`) has a satisfying assignment **iff** a generating multiset of
  size `k` exists for the multiplicity the encoding can express (`mgs_feasible_iff`; both product helpers,
  both weight types, partition constraints of equal lengths; `mgs_feasible_iff_partition`: of any lengths, as
  long as they are non-empty and sum to `total` — `mgs_partition_sound_full`);
* that multiplicity is `max_multiplicity` when `max_multiplicity ≤ total` (`mgs_effMult_eq`) and can be
  smaller otherwise — then solutions are lost (`mgs_cap_loses_solutions`);
* the constructor's preprocessing (since fix 20bda28: complements only for multiplicity 1; `0`, `total` and
  duplicates always) keeps the generating multisets for every multiplicity (`preprocess_sound`); dropping
  complements for larger multiplicities would not (`complement_removal_unsound_mult`, the historical defect);
* a search over a range returns the true optimum of that range (`mgs_returns_optimum`); the optimum is at
  most `#distinct numbers + 1` (`genset_exists`); the range of the code (since fix 6c30e65
  `range(lb, max(lb, upper) + 1)`) **always contains the optimum** when there are no partition constraints
  (`mgs_range_contains_optimum`) and also with partition constraints that are number partitions of `total`
  (`mgs_range_contains_optimum_partition`: non-empty, non-negative parts, integral for `weight_type=int`; neither
  of the two extra hypotheses can be dropped: `mgs_range_empty_constraint`, `mgs_range_fractional_constraint`);
  `[1, 2, 4]`, total `7` is now solved (`mgs_range_regression_124`);
* `mscLP`: satisfying assignments are the covers, the objective is the weight, an optimum is a
  minimum-weight cover (`msc_sound`, `msc_complete`, `msc_objective`, `msc_opt_transfer`).
-/
namespace FP.Props.C15
open FP FP.Spec FP.Search FP.GS

/-! ### (b) soundness of the encoding -/

/-- every satisfying assignment of `mgsLP inp k` yields `g_i := a(gen_set_i)` that sums to `total`, is
non-negative, and generates every number of `inp.numbers` (the list after the constructor's
preprocessing) with multiplicities `≤ max_multiplicity` (binary products for multiplicity 1, the
integer helper otherwise; with or without partition constraints); integral for `weight_type=int` -/
theorem mgs_sound (inp : MGSInput) (k : Nat) (a : Asg) (h : Sat a (mgsLP inp k)) :
    IsGenSet (mgsGen a k) inp.total inp.numbers inp.maxMult ∧
      (inp.weightInt = true → AllInt (mgsGen a k)) := by
  obtain ⟨⟨h1, h2, h3⟩, h4⟩ := mgs_sound_proof inp k a h
  exact ⟨⟨h1, h2, fun x hx => generates_mono _ _ _ (mgsEffMult_le inp) x (h3 x hx)⟩, h4⟩

/-- sharper: the multiplicities are bounded by what the bit columns of the integer helper can hold -/
theorem mgs_sound_eff (inp : MGSInput) (k : Nat) (a : Asg) (h : Sat a (mgsLP inp k)) :
    IsGenSet (mgsGen a k) inp.total inp.numbers (mgsEffMult inp) :=
  (mgs_sound_proof inp k a h).1

/-- a satisfying assignment assigns every element of the multiset to exactly one of `t` parts
(`t` = the largest number of parts of a constraint) and the parts of every constraint get their sums -/
theorem mgs_partition_sound (inp : MGSInput) (k : Nat) (a : Asg) (h : Sat a (mgsLP inp k))
    (cons : List (List Rat)) (hp : inp.partition = some cons) (c : Nat) (hc : c < cons.length) :
    ∃ assign : List Nat, assign.length = k ∧ (∀ p ∈ assign, p < maxParts cons) ∧
      ∀ j, j < (cons[c]).length → partSum assign (mgsGen a k) j = (cons[c]).getD j 0 :=
  mgs_partition_sound_proof inp k a h cons hp c hc

/-- constraints with fewer than `t` parts: the elements the LP sends to a part without a sum row carry the
value 0 (`Σ con = total = Σ g`, all `g_i ≥ 0`) and are re-assigned to part 0 — **every satisfying assignment
respects every non-empty partition constraint that sums to `total`**, whatever the lengths -/
theorem mgs_partition_sound_full (inp : MGSInput) (k : Nat) (a : Asg) (h : Sat a (mgsLP inp k))
    (cons : List (List Rat)) (hp : inp.partition = some cons)
    (hcons : ∀ con ∈ cons, con ≠ [] ∧ con.sum = inp.total) :
    ∀ con ∈ cons, RespectsPartition (mgsGen a k) con := by
  intro con hcon
  obtain ⟨c, hc, rfl⟩ := List.mem_iff_getElem.1 hcon
  obtain ⟨asg, ha1, _, ha3⟩ := mgs_partition_sound_proof inp k a h cons hp c hc
  obtain ⟨⟨h1, h2, _⟩, _⟩ := mgs_sound_proof inp k a h
  obtain ⟨hne, hs⟩ := hcons _ hcon
  exact mgsp_reassign _ _ asg hne h2 (by rw [h1, hs]) (by simp [mgsGen, ha1]) ha3

/-! ### (c) completeness of the encoding -/

/-- side condition under which the product columns `pi ≤ total` do not cut anything off: multiplicity 1,
or no number exceeds `total` -/
def MgsSide (inp : MGSInput) : Prop := inp.maxMult = 1 ∨ ∀ x ∈ inp.numbers, x ≤ inp.total

/-- a solution whose first `k-1` elements are non-decreasing (the rows `g_i ≤ g_{i+1}`, `i < k-2`, of
`_encode_symmetry_breaking`) extends to a satisfying assignment with exactly these `gen_set` values -/
theorem mgs_complete (inp : MGSInput) (gs : List Rat) (hg : MgsSolution inp gs)
    (hsym : ∀ i, i + 2 < gs.length → gs.getD i 0 ≤ gs.getD (i+1) 0) (hside : MgsSide inp) :
    ∃ a : Asg, Sat a (mgsLP inp gs.length) ∧ mgsGen a gs.length = gs :=
  mgs_complete_proof inp gs hg.1 hg.2.1 hsym hside (Or.inr (namesOK_all _ _)) hg.2.2

/-- every solution, in whatever order, has a rearrangement (its sorted one) that extends to a
satisfying assignment: the symmetry-breaking rows lose no multiset -/
theorem mgs_complete_multiset (inp : MGSInput) (gs : List Rat) (hg : MgsSolution inp gs)
    (hside : MgsSide inp) :
    ∃ a : Asg, Sat a (mgsLP inp gs.length) ∧ (mgsGen a gs.length).Perm gs :=
  mgs_complete_multiset_proof inp gs hg.1 hg.2.1 hside (Or.inr (namesOK_all _ _)) hg.2.2

/-- `max_multiplicity ≤ total`: the LP expresses the requested multiplicity -/
theorem mgs_effMult_eq (inp : MGSInput) (h : (inp.maxMult : Rat) ≤ inp.total) :
    mgsEffMult inp = inp.maxMult := FP.GS.mgsEffMult_eq inp h

/-- **the LP of size `k` is feasible iff a solution of size `k` exists** (partition constraints all with
the same number of parts, or none) -/
theorem mgs_feasible_iff (inp : MGSInput) (k : Nat) (hside : MgsSide inp)
    (huni : ∀ cons, inp.partition = some cons → ∀ con ∈ cons, con.length = maxParts cons) :
    (∃ a, Sat a (mgsLP inp k)) ↔ ∃ g : List Rat, g.length = k ∧ MgsSolution inp g := by
  constructor
  · rintro ⟨a, h⟩
    obtain ⟨h1, h2⟩ := mgs_sound_proof inp k a h
    refine ⟨mgsGen a k, by simp [mgsGen], h1, h2, ?_⟩
    intro cons hp con hcon
    obtain ⟨c, hc, rfl⟩ := List.mem_iff_getElem.1 hcon
    obtain ⟨asg, ha1, ha2, ha3⟩ := mgs_partition_sound_proof inp k a h cons hp c hc
    exact ⟨asg, by simp [mgsGen, ha1], fun p hp' => by rw [huni cons hp _ hcon]; exact ha2 p hp', ha3⟩
  · rintro ⟨g, rfl, hg⟩
    obtain ⟨a, ha, _⟩ := mgs_complete_multiset inp g hg hside
    exact ⟨a, ha⟩

/-- **the same for partition constraints of any lengths** that are non-empty and sum to `total` (what the
constructor checks, plus `len(con) ≥ 1`): the LP pads every constraint to `t = max len` parts, only zero-valued
elements can land in a padded part -/
theorem mgs_feasible_iff_partition (inp : MGSInput) (k : Nat) (hside : MgsSide inp)
    (hcons : ∀ cons, inp.partition = some cons → ∀ con ∈ cons, con ≠ [] ∧ con.sum = inp.total) :
    (∃ a, Sat a (mgsLP inp k)) ↔ ∃ g : List Rat, g.length = k ∧ MgsSolution inp g :=
  mgsp_feasible_iff inp k hside hcons

/-- `total < max_multiplicity` loses solutions: numbers `3/8, 1/4, 1/8`, total `1`, multiplicity `3` are
generated by `{1/8, 7/8}`, but the helper gets one bit (`ub = total = 1`), the LP for `k = 2` is
infeasible -/
theorem mgs_cap_loses_solutions :
    let inp : MGSInput := { numbers := [3/8, 1/4, 1/8], total := 1, maxMult := 3 }
    IsGenSet [1/8, 7/8] inp.total inp.numbers inp.maxMult ∧ mgsEffMult inp = 1 ∧
      ¬ ∃ a, Sat a (mgsLP inp 2) := by
  refine ⟨by decide +kernel, by decide +kernel, ?_⟩
  rintro ⟨a, h⟩
  have h1 := mgs_sound_eff _ 2 a h
  rw [show mgsEffMult { numbers := [3/8, 1/4, 1/8], total := 1, maxMult := 3 } = 1 from by decide +kernel] at h1
  exact no_two_genset_eighths _ (by simp [mgsGen]) h1

/-- a number larger than `total` (possible for multiplicity `> 1`) is cut off by the bound `pi ≤ total` of the
product columns: `6 = 2·3` with total `3`, multiplicity `2` is generated by `{3}`, the LP for `k = 1` is
infeasible -/
theorem mgs_pi_bound_loses_solutions :
    let inp : MGSInput := { numbers := [6], total := 3, maxMult := 2 }
    IsGenSet [3] inp.total inp.numbers inp.maxMult ∧ ¬ ∃ a, Sat a (mgsLP inp 1) := by
  refine ⟨by decide +kernel, ?_⟩
  rintro ⟨a, h⟩
  obtain ⟨hbase, hnum, _, _⟩ := (mgs_sat_iff _ 1 a).1 h
  obtain ⟨_, hx, _⟩ := (mgsBase_sat_iff _ 1 a).1 hbase
  have hpi := (hx 0 0 (by decide) (by decide)).2
  have hub : a (mgsPiVar 0 0) ≤ 3 := hpi.2.1 _ rfl
  have hrow := ((mgsNumber_sat_iff _ 1 (0, 6) a).1 (hnum (0, 6) (by simp))).2
  simp only [List.range_one, List.map_cons, List.map_nil, List.sum_cons, List.sum_nil] at hrow
  grind

/-! ### (d) the constructor's preprocessing -/

/-- if `g` generates `x` with every element used at most once and `Σ g = total`, then `g` generates
`total − x` -/
theorem complement_removal_sound (g : List Rat) (total x : Rat) (hs : g.sum = total)
    (h : Generates g 1 x) : Generates g 1 (total - x) := by
  rw [← hs]; exact generates_complement g x h

/-- **every multiplicity ≥ 1**: a multiset is a generating multiset of the preprocessed list (for
multiplicity 1 complements removed; `0`, `total` and duplicates dropped always) iff it is one of the
original list -/
theorem preprocess_sound (numbers : List Rat) (total : Rat) (rc : Bool) (mult : Nat) (hm : 1 ≤ mult)
    (g : List Rat) :
    IsGenSet g total (mgsPreprocess numbers total rc mult) mult ↔ IsGenSet g total numbers mult :=
  preprocess_isGenSet_iff numbers total rc mult hm g

/-- why the constructor must not drop complements for multiplicity `> 1` (it did before fix 20bda28):
`{2, 8}` (sum `10`) generates `4 = 2·2` with multiplicity 2 but not `10 − 4 = 6` — the complement would
need a negative coefficient. Pure arithmetic about multisets. -/
theorem complement_removal_unsound_mult :
    ([2, 8] : List Rat).sum = 10 ∧ Generates [2, 8] 2 4 ∧ ¬ Generates [2, 8] 2 (10 - 4) := by
  decide +kernel

/-- regression for fix 20bda28 on the model of the constructor: `[4, 6]`, total `10` loses `6` only for
multiplicity 1 -/
theorem preprocess_keeps_complements_mult :
    mgsPreprocess [4, 6] 10 true 1 = [4] ∧ mgsPreprocess [4, 6] 10 true 2 = [4, 6] := by
  decide +kernel

/-! ### (e) the search -/

/-- numbers in `[0, total]` always have a generating multiset with one element more than there are
*distinct* numbers (sorted differences plus the remainder), for every multiplicity `≥ 1`, integral for
integral data: the optimum is at most `len(set(numbers)) + 1`. -/
theorem genset_exists (numbers : List Rat) (total : Rat) (mult : Nat) (hm : 1 ≤ mult) (h0 : 0 ≤ total)
    (hb : ∀ x ∈ numbers, 0 ≤ x ∧ x ≤ total) :
    ∃ g : List Rat, g.length = distinctCount numbers + 1 ∧ IsGenSet g total numbers mult ∧
      (AllInt numbers → (∃ z : Int, total = z) → AllInt g) :=
  diffSet_exists numbers total mult hm h0 hb

/-- the solver script is faithful: `kOptimal` iff the LP of that size is feasible, `kInfeasible` iff not
(what C13 leaves to the solver) -/
def Faithful (inp : MGSInput) (σ : Nat → Status) : Prop :=
  ∀ k, (σ k = .optimal ↔ ∃ a, Sat a (mgsLP inp k)) ∧ (σ k = .infeasible ↔ ¬ ∃ a, Sat a (mgsLP inp k))

/-- **what `solve()` returns is a true optimum of the searched range**: a returned size is a solution
size, and no size of the range below it is -/
theorem mgs_returns_optimum (inp : MGSInput) (σ : Nat → Status) (hσ : Faithful inp σ)
    (hside : MgsSide inp)
    (huni : ∀ cons, inp.partition = some cons → ∀ con ∈ cons, con.length = maxParts cons)
    (lo hi k : Nat) (h : (stopSearch σ lo hi).solved = some k) :
    SolvableAt inp k ∧ lo ≤ k ∧ k < hi ∧ ∀ j, lo ≤ j → j < k → ¬ SolvableAt inp j := by
  obtain ⟨h1, h2, h3, h4⟩ := FP.Props.C13.search_sound σ lo hi k h
  refine ⟨(mgs_feasible_iff inp k hside huni).1 ((hσ k).1.1 h1), h2, h3, fun j hj1 hj2 hs => ?_⟩
  exact ((hσ j).2.1 (h4 j hj1 hj2)) ((mgs_feasible_iff inp j hside huni).2 hs)

/-- the least solution size `m ≥ lo` is returned iff it lies below the (exclusive) upper end -/
theorem mgs_search_finds_least (inp : MGSInput) (σ : Nat → Status) (hσ : Faithful inp σ)
    (hside : MgsSide inp)
    (huni : ∀ cons, inp.partition = some cons → ∀ con ∈ cons, con.length = maxParts cons)
    (lo hi m : Nat) (hlo : lo ≤ m) (hm : SolvableAt inp m) (hmin : ∀ j, lo ≤ j → j < m → ¬ SolvableAt inp j) :
    (stopSearch σ lo hi).solved = some m ↔ m < hi := by
  constructor
  · intro h
    exact (FP.Props.C13.search_sound σ _ _ m h).2.2.1
  · intro hlt
    apply FP.Props.C13.search_complete σ _ _ m hlo hlt
    · exact (hσ m).1.2 ((mgs_feasible_iff inp m hside huni).2 hm)
    · intro j hj1 hj2
      exact (hσ j).2.2 (fun hf => hmin j hj1 hj2 ((mgs_feasible_iff inp j hside huni).1 hf))

/-- when no size of the range is a solution size the search ends unsolved -/
theorem mgs_range_misses_optimum (inp : MGSInput) (σ : Nat → Status) (hσ : Faithful inp σ)
    (hside : MgsSide inp)
    (huni : ∀ cons, inp.partition = some cons → ∀ con ∈ cons, con.length = maxParts cons)
    (lo hi : Nat) (hmin : ∀ j, lo ≤ j → j < hi → ¬ SolvableAt inp j) :
    (stopSearch σ lo hi).solved = none := by
  cases hs : (stopSearch σ lo hi).solved with
  | none => rfl
  | some k =>
    obtain ⟨h1, h2, h3, _⟩ := mgs_returns_optimum inp σ hσ hside huni _ _ k hs
    exact absurd h1 (hmin k h2 h3)

/-- **the range of the code contains the optimum** (no partition constraints; data as the docstring asks:
numbers within `[0, total]`, integral for `weight_type=int`): with a faithful solver
`for k in range(lowerbound, max(lowerbound, len(set(numbers)) + 1) + 1)` returns the least solution size
`≥ lowerbound` — `solve()` succeeds and the answer is minimum -/
theorem mgs_range_contains_optimum (inp : MGSInput) (σ : Nat → Status) (hσ : Faithful inp σ)
    (hp : inp.partition = none) (hd : MgsData inp) (lb : Nat) :
    ∃ m, (stopSearch σ lb (mgsHi inp lb)).solved = some m ∧ SolvableAt inp m ∧ lb ≤ m ∧
      ∀ j, lb ≤ j → j < m → ¬ SolvableAt inp j := by
  have hside : MgsSide inp := Or.inr (fun x hx => (hd.bounded x hx).2)
  have huni : ∀ cons, inp.partition = some cons → ∀ con ∈ cons, con.length = maxParts cons :=
    fun cons hc => by rw [hp] at hc; cases hc
  have htop : SolvableAt inp (max lb (distinctCount inp.numbers + 1)) :=
    solvable_mono inp hp _ _ (Nat.le_max_right _ _) (solvable_upper inp hp hd)
  obtain ⟨m, hm1, hm2, hm3, hm4⟩ := least_from (SolvableAt inp) lb
    (max lb (distinctCount inp.numbers + 1) - lb) ⟨_, Nat.le_max_left _ _, by omega, htop⟩
  refine ⟨m, ?_, hm3, hm1, hm4⟩
  rw [mgs_search_finds_least inp σ hσ hside huni lb _ m hm1 hm3 hm4, mgsHi_none inp lb hp]
  omega

/-- **the range of the code contains the optimum, with partition constraints**
(`upper = len(set(numbers)) + 1 + Σ (len(con) − 1)`, multiplicity 1 as the constructor enforces; data as the
docstring asks: numbers within `[0, total]`, every constraint a number partition of `total` — at least one part,
parts non-negative, `Σ con = total` —, everything integral for `weight_type=int`; constraints may have different
lengths, zero parts, repeated break points): with a faithful solver
`for k in range(lowerbound, max(lowerbound, upper) + 1)` returns the least solution size `≥ lowerbound`.
Lay every constraint out as consecutive intervals of `[0, total]` and the numbers as prefixes; cutting `[total]`
at every distinct number and every inner prefix sum gives exactly `upper` pieces (`mgsp_pieces`), every number
and every part is a run of consecutive pieces; larger sizes by padding with zeros. -/
theorem mgs_range_contains_optimum_partition (inp : MGSInput) (σ : Nat → Status) (hσ : Faithful inp σ)
    (hd : MgsData inp) (hm : inp.maxMult = 1)
    (hcons : ∀ cons, inp.partition = some cons → ∀ con ∈ cons,
      con ≠ [] ∧ con.sum = inp.total ∧ (∀ x ∈ con, 0 ≤ x) ∧ (inp.weightInt = true → AllInt con))
    (lb : Nat) :
    ∃ m, (stopSearch σ lb (mgsHi inp lb)).solved = some m ∧ SolvableAt inp m ∧ lb ≤ m ∧
      ∀ j, lb ≤ j → j < m → ¬ SolvableAt inp j :=
  mgsp_range_proof inp σ hσ hd hm hcons lb

/-- the statement as it was first written down (no `con ≠ []`, no integrality of the constraints) — false, see
the next two theorems -/
def mgs_range_contains_optimum_partition_FirstStatement : Prop :=
  ∀ (inp : MGSInput) (σ : Nat → Status), Faithful inp σ → MgsData inp → inp.maxMult = 1 →
    (∀ cons, inp.partition = some cons → ∀ con ∈ cons, con.sum = inp.total ∧ ∀ x ∈ con, 0 ≤ x) →
    ∀ lb, ∃ m, (stopSearch σ lb (mgsHi inp lb)).solved = some m ∧ SolvableAt inp m ∧ lb ≤ m ∧
      ∀ j, lb ≤ j → j < m → ¬ SolvableAt inp j

/-- **`con ≠ []` cannot be dropped.** An empty constraint passes the constructor exactly when `total = 0`; "every
element of the generating set is used in exactly one part" then only holds for the empty multiset, so under the
other hypotheses the search returns a least solution size **iff `lowerbound = 0`** (python's default is 1:
`MinGenSet([], 0, partition_constraints=[[]]).solve()` is `False`, rightly) -/
theorem mgs_range_empty_constraint (inp : MGSInput) (σ : Nat → Status) (hσ : Faithful inp σ)
    (hd : MgsData inp) (hm : inp.maxMult = 1)
    (hcons : ∀ cons, inp.partition = some cons → ∀ con ∈ cons, con.sum = inp.total ∧ ∀ x ∈ con, 0 ≤ x)
    (cons : List (List Rat)) (hp : inp.partition = some cons) (hempty : [] ∈ cons) (lb : Nat) :
    (∃ m, (stopSearch σ lb (mgsHi inp lb)).solved = some m ∧ SolvableAt inp m ∧ lb ≤ m ∧
      ∀ j, lb ≤ j → j < m → ¬ SolvableAt inp j) ↔ lb = 0 := by
  constructor
  · rintro ⟨m, _, hs, hle, _⟩
    rcases Nat.eq_zero_or_pos m with h0 | hpos
    · omega
    · exact absurd hs (mgsp_empty_constraint_unsolvable inp cons hp hempty m hpos)
  · rintro rfl
    have hz : inp.total = 0 := by
      have := (hcons cons hp [] hempty).1
      rw [← this]; rfl
    obtain ⟨h1, h2⟩ := mgsp_range_zero inp σ hσ hd hm hcons hz
    exact ⟨0, h1, h2, Nat.le_refl _, fun j _ hj => by omega⟩

/-- **integrality of the constraints cannot be dropped** for `weight_type=int`: total `1`, constraint
`[1/2, 1/2]` satisfies every other hypothesis and has no solution of any size (python:
`MinGenSet([], 1, weight_type=int, partition_constraints=[[0.5, 0.5]]).solve()` is `False`, rightly) -/
theorem mgs_range_fractional_constraint :
    let inp : MGSInput := { numbers := [], total := 1, weightInt := true, partition := some [[1/2, 1/2]] }
    MgsData inp ∧ inp.maxMult = 1 ∧
      (∀ cons, inp.partition = some cons → ∀ con ∈ cons, con ≠ [] ∧ con.sum = inp.total ∧ ∀ x ∈ con, 0 ≤ x) ∧
      ∀ m, ¬ SolvableAt inp m := by
  intro inp
  refine ⟨⟨by decide +kernel, fun x hx => by simp [inp] at hx, by decide, Or.inl rfl,
    fun _ => ⟨fun x hx => by simp [inp] at hx, 1, rfl⟩⟩, rfl, ?_, mgsp_fractional_constraint_unsolvable⟩
  intro cons hc con hcon
  cases hc
  rw [List.mem_singleton.1 hcon]
  exact ⟨by simp, by decide +kernel, by decide +kernel⟩

/-- hence the first statement is false (both witnesses refute it; here the fractional one) -/
theorem mgs_range_first_statement_false : ¬ mgs_range_contains_optimum_partition_FirstStatement := by
  intro h
  obtain ⟨hd, hm, hc, hno⟩ := mgs_range_fractional_constraint
  obtain ⟨σ, hσ⟩ := mgsp_faithful_exists
    { numbers := [], total := 1, weightInt := true, partition := some [[1/2, 1/2]] }
  obtain ⟨m, _, hs, _⟩ := h _ σ hσ hd hm
    (fun cons hp con hcon => ⟨(hc cons hp con hcon).2.1, (hc cons hp con hcon).2.2⟩) 1
  exact hno m hs

/-- **regression for fix 6c30e65.** numbers `[1, 2, 4]`, total `7`, defaults: `{1, 2, 4}` is a solution of
size `3`, no smaller one exists, the loop is now `range(1, 5)` and every faithful solver makes `solve()`
return size `3` (the old loop `range(1, 3)` ended unsolved). -/
theorem mgs_range_regression_124 :
    let inp : MGSInput := { numbers := [1, 2, 4], total := 7, weightInt := true }
    mgsHi inp 1 = 5 ∧ SolvableAt inp 3 ∧ (∀ j, j < 3 → ¬ SolvableAt inp j) ∧
      (∀ σ, Faithful inp σ → (stopSearch σ 1 (mgsHi inp 1)).solved = some 3) ∧
      (∀ σ, Faithful inp σ → (stopSearch σ 1 3).solved = none) := by
  intro inp
  have heff : mgsEffMult inp = 1 := by decide +kernel
  have hnot : ∀ j, j < 3 → ¬ SolvableAt inp j := by
    rintro j hj ⟨g, hlen, hg, _⟩
    rw [heff] at hg
    exact no_small_genset_124 g (by omega) hg
  have h3 : SolvableAt inp 3 := by
    refine ⟨[1, 2, 4], rfl, ?_, ?_, ?_⟩
    · rw [heff]; decide +kernel
    · intro _ x hx
      simp only [List.mem_cons, List.not_mem_nil, or_false] at hx
      rcases hx with rfl | rfl | rfl
      · exact ⟨1, rfl⟩
      · exact ⟨2, rfl⟩
      · exact ⟨4, rfl⟩
    · intro cons hc; cases hc
  have huni : ∀ cons, inp.partition = some cons → ∀ con ∈ cons, con.length = maxParts cons :=
    fun cons hc => by cases hc
  refine ⟨by decide +kernel, h3, hnot, ?_, ?_⟩
  · intro σ hσ
    rw [mgs_search_finds_least inp σ hσ (Or.inl rfl) huni 1 _ 3 (by omega) h3 (fun j _ hj => hnot j hj)]
    decide +kernel
  · intro σ hσ
    exact mgs_range_misses_optimum inp σ hσ (Or.inl rfl) huni 1 3 (fun j _ hj => hnot j hj)

/-! ### (f) minimum set cover -/

/-- a satisfying assignment of `mscLP` selects a cover (python reads `[i | sol[i] == 1]`) -/
theorem msc_sound (inp : MSCInput) (a : Asg) (h : Sat a (mscLP inp)) :
    IsCover inp.univ inp.subsets (mscChosen a) := msc_sound_proof inp a h

/-- every cover is a satisfying assignment -/
theorem msc_complete (inp : MSCInput) (ch : Nat → Bool) (h : IsCover inp.univ inp.subsets ch) :
    Sat (mscAsg ch) (mscLP inp) ∧ ∀ i, mscChosen (mscAsg ch) i = ch i := by
  refine ⟨msc_complete_proof inp ch h, fun i => ?_⟩
  simp only [mscChosen, mscAsg_val]
  cases ch i <;> simp

/-- the objective of a satisfying assignment is the total weight of the selected subsets -/
theorem msc_objective (inp : MSCInput) (a : Asg) (h : Sat a (mscLP inp)) :
    objVal a (mscLP inp) = coverWeight (mscW inp) inp.subsets.length (mscChosen a) :=
  msc_obj_of_sat inp a h

/-- **an LP optimum is a minimum-weight cover** (all weights, also zero and negative ones) -/
theorem msc_opt_transfer (inp : MSCInput) (a : Asg) (h : Sat a (mscLP inp))
    (hopt : ∀ a', Sat a' (mscLP inp) → objVal a (mscLP inp) ≤ objVal a' (mscLP inp)) :
    IsCover inp.univ inp.subsets (mscChosen a) ∧
      ∀ ch, IsCover inp.univ inp.subsets ch →
        coverWeight (mscW inp) inp.subsets.length (mscChosen a) ≤ coverWeight (mscW inp) inp.subsets.length ch :=
  msc_opt_transfer_proof inp a h hopt

/-- `subset_weights=None` (since fix 3364d5e): every subset weighs 1, so the objective counts the chosen
subsets -/
theorem msc_default_unit_weights (univ : List String) (subsets : List (List String)) (ch : Nat → Bool) :
    coverWeight (mscW (⟨univ, subsets, mscWeights none subsets.length⟩ : MSCInput)) subsets.length ch
      = (((List.range subsets.length).filter fun i => ch i).length : Nat) := by
  unfold coverWeight
  have hw : ∀ i ∈ List.range subsets.length,
      (if ch i = true then mscW (⟨univ, subsets, mscWeights none subsets.length⟩ : MSCInput) i else 0)
        = if ch i = true then (1 : Rat) else 0 := by
    intro i hi
    have hi' := List.mem_range.1 hi
    simp [mscW, mscWeights, List.getD_eq_getElem?_getD, hi']
  rw [FP.sum_map_congr _ _ _ hw]
  generalize List.range subsets.length = l
  induction l with
  | nil => simp
  | cons x xs ih =>
    simp only [List.map_cons, List.sum_cons, List.filter_cons, ih]
    cases ch x <;> simp <;> grind

/-! ### non-vacuity -/

/-- the hypotheses of `mgs_complete` are satisfiable with partition constraints of different shapes, and
the conclusion of `mgs_feasible_iff` is not trivially false: `{1, 2, 4}` for `[3, 5, 6]`, total `7`,
partition `[[3, 4], [1, 6]]` -/
example : ∃ a, Sat a (mgsLP ⟨[3, 5, 6], 7, true, 1, some [[3, 4], [1, 6]]⟩ 3) := by
  refine (mgs_feasible_iff _ 3 (Or.inl rfl) ?_).2 ⟨[1, 2, 4], rfl, by decide +kernel, ?_, ?_⟩
  · intro cons hc con hcon
    cases hc
    simp only [List.mem_cons, List.not_mem_nil, or_false] at hcon
    rcases hcon with rfl | rfl <;> rfl
  · intro _ x hx
    simp only [List.mem_cons, List.not_mem_nil, or_false] at hx
    rcases hx with rfl | rfl | rfl
    · exact ⟨1, rfl⟩
    · exact ⟨2, rfl⟩
    · exact ⟨4, rfl⟩
  · intro cons hc con hcon
    cases hc
    simp only [List.mem_cons, List.not_mem_nil, or_false] at hcon
    rcases hcon with rfl | rfl
    · exact ⟨[0, 0, 1], rfl, by decide, by decide +kernel⟩
    · exact ⟨[0, 1, 1], rfl, by decide, by decide +kernel⟩

/-- the hypotheses of `mgs_range_contains_optimum_partition` are satisfiable and its conclusion is not trivial:
numbers `[1, 2, 4]`, total `7`, constraints `[[3, 4], [0, 1, 6]]` (different lengths, a zero part):
`upper = 3 + 1 + 1 + 2 = 7`, the loop is `range(1, 8)`, every faithful solver returns size `3` (`{1, 2, 4}`) -/
example : let inp : MGSInput := ⟨[1, 2, 4], 7, true, 1, some [[3, 4], [0, 1, 6]]⟩
    mgsHi inp 1 = 8 ∧ ∀ σ, Faithful inp σ → (stopSearch σ 1 (mgsHi inp 1)).solved = some 3 := by
  intro inp
  refine ⟨by decide +kernel, fun σ hσ => ?_⟩
  have hd : MgsData inp := ⟨by decide +kernel, by decide +kernel, by decide, Or.inl rfl, fun _ => ⟨?_, 7, rfl⟩⟩
  · have hcons : ∀ cons, inp.partition = some cons → ∀ con ∈ cons,
        con ≠ [] ∧ con.sum = inp.total ∧ (∀ x ∈ con, 0 ≤ x) ∧ (inp.weightInt = true → AllInt con) := by
      intro cons hc con hcon
      cases hc
      simp only [List.mem_cons, List.not_mem_nil, or_false] at hcon
      rcases hcon with rfl | rfl
      · refine ⟨by simp, by decide +kernel, by decide +kernel, fun _ x hx => ?_⟩
        simp only [List.mem_cons, List.not_mem_nil, or_false] at hx
        rcases hx with rfl | rfl
        · exact ⟨3, rfl⟩
        · exact ⟨4, rfl⟩
      · refine ⟨by simp, by decide +kernel, by decide +kernel, fun _ x hx => ?_⟩
        simp only [List.mem_cons, List.not_mem_nil, or_false] at hx
        rcases hx with rfl | rfl | rfl
        · exact ⟨0, rfl⟩
        · exact ⟨1, rfl⟩
        · exact ⟨6, rfl⟩
    obtain ⟨m, hm1, hm2, hm3, hm4⟩ := mgs_range_contains_optimum_partition inp σ hσ hd rfl hcons 1
    have heff : mgsEffMult inp = 1 := by decide +kernel
    have h3 : SolvableAt inp 3 := by
      refine ⟨[1, 2, 4], rfl, ?_, ?_, ?_⟩
      · rw [heff]; decide +kernel
      · intro _ x hx
        simp only [List.mem_cons, List.not_mem_nil, or_false] at hx
        rcases hx with rfl | rfl | rfl
        · exact ⟨1, rfl⟩
        · exact ⟨2, rfl⟩
        · exact ⟨4, rfl⟩
      · intro cons hc con hcon
        cases hc
        simp only [List.mem_cons, List.not_mem_nil, or_false] at hcon
        rcases hcon with rfl | rfl
        · exact ⟨[0, 0, 1], rfl, by decide, by decide +kernel⟩
        · exact ⟨[1, 2, 2], rfl, by decide, by decide +kernel⟩
    have hle : m ≤ 3 := Nat.le_of_not_lt (fun hlt => hm4 3 (by omega) hlt h3)
    have hge : 3 ≤ m := by
      apply Nat.le_of_not_lt
      intro hlt
      obtain ⟨g, hlen, hg, _⟩ := hm2
      rw [heff] at hg
      exact no_small_genset_124 g (by omega) hg
    have : m = 3 := by omega
    rw [← this]; exact hm1
  · intro x hx
    simp only [inp, List.mem_cons, List.not_mem_nil, or_false] at hx
    rcases hx with rfl | rfl | rfl
    · exact ⟨1, rfl⟩
    · exact ⟨2, rfl⟩
    · exact ⟨4, rfl⟩

/-- multiplicity 2 with the integer helper: `{1, 3}` (total 4) generates `2 = 2·1` and `4 = 1 + 3` -/
example : ∃ a, Sat a (mgsLP { numbers := [2, 4], total := 4, maxMult := 2 } 2) := by
  refine (mgs_feasible_iff _ 2 (Or.inr (by decide +kernel)) (fun cons hc => by cases hc)).2
    ⟨[1, 3], rfl, by decide +kernel, fun h => (by cases h), fun cons hc => (by cases hc)⟩

example : IsGenSet [1, 2, 4] 7 [1, 2, 4] 1 := by decide +kernel
example : diffs 0 [1, 2, 4] ++ [8 - lastD 0 [1, 2, 4]] = [1, 1, 2, 4] := by decide +kernel
example : mgsPreprocess [3, 4, 7, 0, 3] 7 true = [3] := by decide +kernel
example : mgsPreprocess [3, 4, 7, 0, 3] 7 true 2 = [3, 4] := by decide +kernel
example : IsCover ["a", "b", "c"] [["a"], ["b", "c"], ["a", "b", "c"]] (fun i => i == 0 || i == 1) := by
  intro el hel
  simp only [List.mem_cons, List.not_mem_nil, or_false] at hel
  rcases hel with rfl | rfl | rfl
  · exact ⟨0, by decide, rfl, by decide⟩
  · exact ⟨1, by decide, rfl, by decide⟩
  · exact ⟨1, by decide, rfl, by decide⟩
example : coverWeight (fun i => [1, 1, 3].getD i 0) 3 (fun i => i == 0 || i == 1) = 2 := by decide +kernel

end FP.Props.C15
