import FP.Model.PathCore
import FP.Spec.Routes
import FP.Proofs.PathCore
import FP.Model.WalkDecode
import FP.Proofs.WalkCore
/-!
# C01 — returned paths/walks are real source-to-sink routes of the caller's graph  (DAG part)
-/
namespace FP.Props.C01
open FP FP.Spec

/-- the values of the edge variables of an assignment -/
def xOf (a : Asg) : Edge → Nat → Rat := fun e i => a (edgeVar e i)

/-- **DAG path encoding is sound and exact (any s-t DAG).** In every satisfying assignment of
`_encode_paths`, every layer decodes — the successor-following loop terminates within its fuel —
to either the empty path (only if empty paths are allowed, and then the layer uses no edge at all)
or a *simple* source-to-sink path of the augmented graph, and the layer's edge variables are
exactly the indicator of that path. -/
theorem pathcore_sound (s : STGraph) (c : PathCfg) (a : Asg) (hwf : STWF s)
    (hsat : Sat a (encodePaths s c)) (i : Nat) (hi : i < c.k) :
    ∃ p, decodeLayer s (xOf a) i = some p ∧
      (p = [] → c.allowEmpty = true ∧ ∀ e ∈ s.g.edges, a (edgeVar e i) = 0) ∧
      (p ≠ [] → IsWalkIn s.g (s.source :: p ++ [s.sink]) ∧ (s.source :: p ++ [s.sink]).Nodup ∧
        ∀ e ∈ s.g.edges, a (edgeVar e i) = if e ∈ walkEdges (s.source :: p ++ [s.sink]) then 1 else 0) :=
  FP.pathcore_sound s c a hwf hsat i hi

/-- the augmentation of a well-formed user DAG is a well-formed s-t DAG -/
theorem augment_wf (base : Graph) (starts ends : List Node) (h : BaseWF base) (hac : Acyclic base) :
    STWF (augment base starts ends) :=
  FP.augment_wf base starts ends h hac

/-- **C01 for every DAG k-model built on `_encode_paths`.** With the user's graph `base`
(distinct nodes/edges, edges between its nodes, synthetic names unused, acyclic) and any declared
additional starts/ends: every non-empty decoded path is a simple route of the *user's* graph from a
node without in-edges (or a declared start) to a node without out-edges (or a declared end); the
synthetic endpoints never leak; empty paths arise only when they are allowed. -/
theorem dag_routes_valid (base : Graph) (starts ends : List Node) (c : PathCfg) (a : Asg)
    (h : BaseWF base) (hac : Acyclic base)
    (hsat : Sat a (encodePaths (augment base starts ends) c)) (i : Nat) (hi : i < c.k) :
    ∃ p, decodeLayer (augment base starts ends) (xOf a) i = some p ∧
      (p = [] → c.allowEmpty = true) ∧
      (p ≠ [] → ValidRoute base starts ends p ∧ p.Nodup) :=
  FP.dag_routes_valid base starts ends c a h hac hsat i hi

/-- a k-model returns exactly `k` layers -/
theorem decodePaths_length (s : STGraph) (x : Edge → Nat → Rat) (k : Nat) (ps : List (List Node))
    (h : decodePaths s x k = some ps) : ps.length = k :=
  FP.decodePaths_length s x k ps h

/-! ## walk models (graphs with cycles) -/

/-- **Walk encoding is sound and exact (any s-t digraph).** In every satisfying assignment of
`_encode_walks` (rows 17a, 17b, 21, 22a, 22b, 18a, 19c) every layer's edge variables are natural
numbers; if the layer leaves the source, the walk handed to the user (Hierholzer reconstruction of
the residual multigraph, C14) with the synthetic endpoints put back is ONE source-to-sink walk that
traverses every edge exactly as often as its variable says and no other pair of nodes; if the layer
does not leave the source it is empty, which is possible only when empty walks are allowed. -/
theorem walkcore_sound (s : STGraph) (c : WalkCfg) (ub : Edge → Rat) (a : Asg) (hwf : STWFc s)
    (hsat : Sat a (encodeWalks s c ub)) (i : Nat) (hi : i < c.k) :
    (∀ e ∈ s.g.edges, a (edgeVar e i) = (multOf a i e : Rat)) ∧
    ((∀ v ∈ s.g.succ s.source, multOf a i (s.source, v) = 0) →
        c.allowEmpty = true ∧ decodeWalkLayer s a i = [] ∧ ∀ e ∈ s.g.edges, multOf a i e = 0) ∧
    ((∃ v ∈ s.g.succ s.source, multOf a i (s.source, v) ≠ 0) →
        ∀ e : Edge, traversals (s.source :: decodeWalkLayer s a i ++ [s.sink]) e
          = if e ∈ s.g.edges then multOf a i e else 0) :=
  FP.walkcore_sound s c ub a hwf hsat i hi

/-- the augmentation of a well-formed user digraph (cycles allowed) is a well-formed s-t digraph -/
theorem augment_wfc (base : Graph) (starts ends : List Node) (h : BaseWF base) :
    STWFc (augment base starts ends) :=
  FP.augment_wfc base starts ends h

/-- **C01 for every cyclic k-model built on `_encode_walks`.** Every non-empty decoded walk is a
route of the *user's* graph from a node without in-edges (or a declared start) to a node without
out-edges (or a declared end); the synthetic endpoints never leak; empty walks arise only when they
are allowed. -/
theorem walk_routes_valid (base : Graph) (starts ends : List Node) (c : WalkCfg) (ub : Edge → Rat)
    (a : Asg) (h : BaseWF base)
    (hsat : Sat a (encodeWalks (augment base starts ends) c ub)) (i : Nat) (hi : i < c.k) :
    let w := decodeWalkLayer (augment base starts ends) a i
    (w = [] → c.allowEmpty = true) ∧ (w ≠ [] → ValidRoute base starts ends w) :=
  FP.walk_routes_valid base starts ends c ub a h hsat i hi

end FP.Props.C01
