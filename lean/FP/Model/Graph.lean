import FP.Model.Basic
/-!
# FP.Model.Graph — directed graphs in networkx iteration order, s-t augmentation, reachability

A `Graph` lists its nodes in insertion order and its edges in the order of `G.edges()`
(`for u in nodes: for v in adj[u]`). `augment` mirrors
`AbstractSourceSinkGraph._augment_with_source_sink`.
-/
namespace FP

abbrev Node := String
abbrev Edge := String × String

structure Graph where
  nodes : List Node
  edges : List Edge
  deriving Repr, Inhabited, DecidableEq

namespace Graph

def succ (g : Graph) (v : Node) : List Node := (g.edges.filter (·.1 = v)).map (·.2)
def pred (g : Graph) (v : Node) : List Node := (g.edges.filter (·.2 = v)).map (·.1)
def outEdges (g : Graph) (v : Node) : List Edge := g.edges.filter (·.1 = v)
def inEdges (g : Graph) (v : Node) : List Edge := g.edges.filter (·.2 = v)
def hasEdge (g : Graph) (e : Edge) : Bool := g.edges.contains e

/-- re-sort an edge list into networkx `edges()` order for the node order `ns` -/
def nxOrder (ns : List Node) (es : List Edge) : List Edge := ns.flatMap fun u => es.filter (·.1 = u)

end Graph

/-- an s-t augmented graph -/
structure STGraph where
  g : Graph
  source : Node
  sink : Node
  deriving Repr, Inhabited

def srcName : Node := "source"
def snkName : Node := "sink"

/-- `_augment_with_source_sink`: every node without in-edges or declared additional start gets an
edge from the synthetic source, every node without out-edges or declared additional end an edge to
the synthetic sink. Node and edge orders are those networkx produces. -/
def augment (base : Graph) (starts ends : List Node) : STGraph :=
  let isStart := fun u => (base.pred u).isEmpty || starts.contains u
  let isEnd := fun u => (base.succ u).isEmpty || ends.contains u
  let srcEdges : List Edge := (base.nodes.filter isStart).map fun u => (srcName, u)
  let snkEdges : List Edge := (base.nodes.filter isEnd).map fun u => (u, snkName)
  -- the synthetic nodes are created by the first `add_edge` that mentions them
  let firstKind : List Node :=
    match base.nodes.find? (fun u => isStart u || isEnd u) with
    | none => []
    | some u => if isStart u then [srcName, snkName] else [snkName, srcName]
  let extra := firstKind.filter fun x => (x = srcName ∧ ¬ srcEdges.isEmpty) ∨ (x = snkName ∧ ¬ snkEdges.isEmpty)
  let nodes := base.nodes ++ extra
  { g := { nodes := nodes, edges := Graph.nxOrder nodes (base.edges ++ snkEdges ++ srcEdges) },
    source := srcName, sink := snkName }

namespace STGraph
def sourceEdges (s : STGraph) : List Edge := s.g.outEdges s.source
def sinkEdges (s : STGraph) : List Edge := s.g.inEdges s.sink
def sourceSinkEdges (s : STGraph) : List Edge := s.sourceEdges ++ s.sinkEdges
end STGraph

/-! ## Reachability (executable): iterate the successor closure `|V|` times -/

def stepClosure (es : List Edge) (seen : List Node) : List Node :=
  es.foldl (fun acc e => if acc.contains e.1 && !acc.contains e.2 then acc ++ [e.2] else acc) seen

def closure (es : List Edge) : Nat → List Node → List Node
  | 0, seen => seen
  | n+1, seen => closure es n (stepClosure es seen)

/-- nodes reachable from `v` (including `v`) -/
def reachFrom (g : Graph) (v : Node) : List Node := closure g.edges g.nodes.length [v]
/-- nodes from which `v` is reachable (including `v`) -/
def reaching (g : Graph) (v : Node) : List Node :=
  closure (g.edges.map fun e => (e.2, e.1)) g.nodes.length [v]

/-- assoc-list lookup with default -/
def lookupD {α β} [BEq α] (l : List (α × β)) (k : α) (d : β) : β := (l.lookup k).getD d

end FP
