import FP.Model.Enc.Parse
/-!
# FP.Model.Enc.KCover — `kPathCover` (`cover_type = "edge"`)

`_encode_path_cover` of `flowpaths/kpathcover.py`: one row `Σ_i edge(u,v,i) ≥ 1` per edge that is
not ignored. No objective is set (all costs zero, sense minimise).

The code intends to skip the edges of the subpath constraints when the coverage is 1, but it
collects `zip(constraint[:-1], constraint[1:])` — pairs of consecutive *edges* of a constraint,
i.e. elements of the form `((a,b),(b,c))` — and then tests `(u, v) in` that set with `u`, `v`
nodes (strings). The test can never succeed, so no edge is skipped; the model mirrors that
(`skipped` is the constant `false`).
-/
namespace FP
open Lean

/-- `self.subpath_constraints_coverage == 1 and (u, v) in subpath_constraint_edges`: the set holds
pairs of edges, `(u, v)` is a pair of nodes — never a member -/
def coverSkipped (_inp : FlowInput) (_e : Edge) : Bool := false

/-- `_encode_path_cover`; `inp.flow` is unused (the class has no flow attribute) -/
def kcoverLP (inp : FlowInput) : LP :=
  let s := inp.st
  let k := inp.cfg.k
  (encodePaths s inp.cfg).append
    { rows := (inp.activeEdges.filter fun e => !coverSkipped inp e).map fun e =>
        rowGe (ones (List.range k) (edgeVar e)) 1 }

def handleKCover (op : String) (j : Json) : Option (Except String Json) :=
  if op ≠ "lp.kcover" then none else some do
    let inp ← parseFlowInput j
    return strArr (kcoverLP inp).dump

end FP
