import FP.Model.Enc.KFD
/-!
# JSON → model inputs (shared by the `lp.*` driver ops)
Edges travel as `[u, v]`, edge-keyed maps as `[[u, v, value], ...]`.
-/
namespace FP
open Lean

def asEdge (j : Json) : Except String Edge := asStrPair j

def asEdgeRat (j : Json) : Except String (Edge × Rat) := do
  let a ← j.getArr?
  match a.toList with
  | [u, v, q] => return ((← u.getStr?, ← v.getStr?), ← asRat q)
  | _ => .error "edge-value triple expected"

def optField {α} (j : Json) (k : String) (f : Json → Except String α) : Except String (Option α) :=
  match j.getObjVal? k with
  | .ok Json.null => .ok none
  | .ok v => (f v).map some
  | .error _ => .ok none

def parseGraph (j : Json) : Except String Graph := do
  return { nodes := ← jList (·.getStr?) j "nodes", edges := ← jList asEdge j "edges" }

def parsePathCfg (j : Json) : Except String PathCfg := do
  let k ← jNat j "k"
  let allowEmpty := (jBool j "allow_empty").toOption.getD false
  let cons := (jList (asList asEdge) j "constraints").toOption.getD []
  let cov := (jRat j "coverage").toOption.getD 1
  let covLen ← optField j "coverage_length" asRat
  let lengths ← optField j "lengths" (asList asEdgeRat)
  let pos := (jBool j "encode_position").toOption.getD false
  return { k := k, allowEmpty := allowEmpty, constraints := cons, coverage := cov,
           coverageLength := covLen, lengths := lengths, encodePosition := pos }

def parseFlowInput (j : Json) : Except String FlowInput := do
  return { base := ← parseGraph j,
           flow := ← jList asEdgeRat j "flow",
           ignore := (jList asEdge j "ignore").toOption.getD [],
           starts := (jList (·.getStr?) j "starts").toOption.getD [],
           ends := (jList (·.getStr?) j "ends").toOption.getD [],
           weightInt := (jStr j "weight_type").toOption == some "int",
           cfg := ← parsePathCfg j }

def graphJson (g : Graph) : Json :=
  Json.mkObj [("nodes", strArr g.nodes),
              ("edges", Json.arr (g.edges.map fun e => strArr [e.1, e.2]).toArray)]

end FP
