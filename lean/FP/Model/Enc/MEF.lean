import FP.Model.Enc.Parse
/-!
# FP.Model.Enc.MEF — `MinErrorFlow` (`flowpaths/minerrorflow.py`), `flow_attr_origin = "edge"`

* the constructor decides with `nx.is_directed_acyclic_graph` whether the model graph is the s-t augmented
  `stDAG` (acyclic input; `additional_starts/ends` are honoured, the synthetic edges are ignored edges) or
  the input graph itself (input with cycles; `additional_starts/ends` are silently dropped, `sparsity_lambda != 0`
  is refused);
* `w_max = max(G[u][v].get(flow_attr, 0))` over **all** edges of the model graph (ignored edges and the
  attribute-less synthetic edges included), `ub = w_max · |E(model graph)|`;
* `mefFlow` — `_encode_flow`; `mefStage1` — `… + _encode_min_sum_errors_objective` (the LP at the first
  `optimize`); `mefStage2` — `_encode_flow + _encode_different_flow_values_and_objective` (the LP at the
  second `optimize`, built on a fresh solver).
-/
namespace FP

structure MEFInput where
  base : Graph
  /-- edges carrying the flow attribute -/
  flow : List (Edge × Rat)
  ignore : List Edge := []
  scaling : List (Edge × Rat) := []
  starts : List Node := []
  ends : List Node := []
  weightInt : Bool := false
  lambda : Rat := 0
  deriving Repr, Inhabited

/-- `nx.is_directed_acyclic_graph`: no edge `(u, v)` with `u` reachable from `v` -/
def isAcyclic (g : Graph) : Bool := g.edges.all fun e => !(reachFrom g e.2).contains e.1

def MEFInput.acyclic (inp : MEFInput) : Bool := isAcyclic inp.base

/-- `self.G` -/
def MEFInput.graph (inp : MEFInput) : Graph :=
  if inp.acyclic then (augment inp.base inp.starts inp.ends).g else inp.base

/-- `self.edges_to_ignore` -/
def MEFInput.ignored (inp : MEFInput) (e : Edge) : Bool :=
  inp.ignore.contains e
  || (inp.acyclic && (augment inp.base inp.starts inp.ends).sourceSinkEdges.contains e)
  || (inp.scaling.any fun (e', q) => e' == e && q == 0)

def MEFInput.wmax (inp : MEFInput) : Rat := listMax (inp.graph.edges.map fun e => lookupD inp.flow e 0)
def MEFInput.ub (inp : MEFInput) : Rat := inp.wmax * (inp.graph.edges.length : Rat)

def evVar (e : Edge) : Var := .uv "edge_vars" e.1 e.2
def mefErrVar (e : Edge) : Var := .uv "edge_error_vars" e.1 e.2

/-- the edges whose flow attribute the encoder needs but does not find (python: `ValueError`) -/
def MEFInput.missing (inp : MEFInput) : List Edge :=
  inp.graph.edges.filter fun e => !inp.ignored e && (inp.flow.lookup e).isNone

/-- `_encode_flow` -/
def mefFlow (inp : MEFInput) : LP :=
  let g := inp.graph
  let ub := inp.ub
  { cols := g.edges.map (fun e => { v := evVar e, lb := 0, ub := some ub, isInt := inp.weightInt })
        ++ g.edges.map (fun e => { v := mefErrVar e, lb := 0, ub := some ub, isInt := inp.weightInt }),
    rows := ((g.nodes.filter fun v => !(g.inEdges v).isEmpty && !(g.outEdges v).isEmpty).map fun v =>
          rowEq ((g.inEdges v).map (fun e => ((1 : Rat), evVar e))
                 ++ (g.outEdges v).map (fun e => ((-1 : Rat), evVar e))) 0)
      ++ g.edges.flatMap fun e =>
          if inp.ignored e then [rowEq [(1, mefErrVar e)] 0]
          else
            let f := lookupD inp.flow e 0
            [ rowLe [(-1, evVar e), (-1, mefErrVar e)] (-f),     -- f − x ≤ err
              rowLe [(1, evVar e), (-1, mefErrVar e)] f ] }      -- x − f ≤ err

/-- the expression shared by the first-stage objective and the `epsilon_constraint` row -/
def mefErrorTerms (inp : MEFInput) : Terms :=
  let g := inp.graph
  ((g.edges.filter fun e => !inp.ignored e).map fun e => (lookupD inp.scaling e 1, mefErrVar e))
  ++ (if inp.lambda > 0 then (g.outEdges srcName).map fun e => (inp.lambda, evVar e) else [])

/-- LP at the first `optimize` -/
def mefStage1 (inp : MEFInput) : LP := { mefFlow inp with obj := mefErrorTerms inp }

def afvVar (i : Nat) : Var := .ix "all_flow_values_vars" i
def indVar (i : Nat) : Var := .ix "all_flow_values_used_indicator_vars" i
def mapVar (e : Edge) (i : Nat) : Var := .uvi "flow_values_map_vars" e.1 e.2 i

/-- LP at the second `optimize`; `bound` is the right-hand side `(1 + ε) · objective_value` and `nvals`
is `ub_different_flow_values` (number of distinct corrected values over the edges of the input graph) -/
def mefStage2 (inp : MEFInput) (bound : Rat) (nvals : Nat) : LP :=
  let ub := inp.ub
  let is := List.range nvals
  let sub := inp.base.edges      -- `edge_subset = original_graph_copy.edges()`
  (mefFlow inp).append
    { cols := is.map (fun i => { v := afvVar i, lb := 0, ub := some ub, isInt := inp.weightInt })
        ++ is.map (fun i => { v := indVar i, lb := 0, ub := some 1, isInt := true })
        ++ sub.flatMap (fun e => is.map fun i => { v := mapVar e i, lb := 0, ub := some 1, isInt := true }),
      rows := (sub.flatMap fun e =>
          [rowEq (is.map fun i => ((1 : Rat), mapVar e i)) 1]
          ++ is.flatMap fun i =>
            [ rowLe [(1, evVar e), (-1, afvVar i), (ub, mapVar e i)] ub,        -- x ≤ val_i + ub(1 − m)
              rowGe [(1, evVar e), (-1, afvVar i), (-ub, mapVar e i)] (-ub),    -- x ≥ val_i − ub(1 − m)
              rowGe [(1, indVar i), (-1, mapVar e i)] 0 ])
        ++ [rowLe (mefErrorTerms inp) bound],
      obj := is.map fun i => ((1 : Rat), indVar i) }

open Lean in
/-- `lp.mef`: graph fields as in `parseGraph`, `flow`, `ignore`, `scaling` (edge-value triples), `starts`,
`ends`, `weight_type`, `lambda`, `stage` (1|2) and for stage 2 `epsilon`, `objective_value`, `nvals` and
optionally `bound_float` (the python float `(1 + ε) * objective_value` when the product is inexact) -/
def handleMEF (op : String) (j : Json) : Option (Except String Json) :=
  if op != "lp.mef" then none else some do
    let inp : MEFInput :=
      { base := ← parseGraph j,
        flow := ← jList asEdgeRat j "flow",
        ignore := (jList asEdge j "ignore").toOption.getD [],
        scaling := (jList asEdgeRat j "scaling").toOption.getD [],
        starts := (jList (·.getStr?) j "starts").toOption.getD [],
        ends := (jList (·.getStr?) j "ends").toOption.getD [],
        weightInt := (jStr j "weight_type").toOption == some "int",
        lambda := (jRat j "lambda").toOption.getD 0 }
    if !inp.acyclic && inp.lambda != 0 then throw "ValueError: sparsity_lambda != 0 on a graph with cycles"
    if !inp.missing.isEmpty then throw "ValueError: flow attribute missing on a non-ignored edge"
    let stage := (jNat j "stage").toOption.getD 1
    if stage = 1 then return strArr (mefStage1 inp).dump
    let eps ← jRat j "epsilon"
    let ov ← jRat j "objective_value"
    let nvals ← jNat j "nvals"
    let bound := (jRat j "bound_float").toOption.getD ((1 + eps) * ov)
    return strArr (mefStage2 inp bound nvals).dump

end FP
