import FP.Model.WalkSafetyRows
import FP.Model.Json
import FP.Model.Enc.Parse
/-!
# FP.Model.Enc.WalkSafety — driver ops `lp.kcoverc.safety`, `lp.kfdc.safety`

Request = the request of `lp.kcoverc` / `lp.kfdc` plus

* `"safety"`: the six flags (`safe_sequences`, `allow_geq`, `via_bounds`, `fix_zero`, `as_subset`,
  `antichain_subset`),
* `"X"`: `trusted_edges_for_safety` in the iteration order of the python set — the handler checks that it is a
  permutation of the trusted set the model computes for the class (`kcovercTrusted`, `kfdcTrusted`),
* `"mapping"`, `"antichain"`: SCC numbering and antichain captured from the real run (as `safety.incompatible`).

Answer: the LP dump; a python exception of the safety step is answered as the single item `raises\t<what>`
(no LP line, hence different from every real dump).
-/
namespace FP
open Lean FP.Safety

def parseSafetyOpts (j : Json) : Except String SafetyOpts := do
  let o ← j.getObjVal? "safety"
  let b := fun k => (jBool o k).toOption.getD false
  return { safeSequences := b "safe_sequences", allowGeq := b "allow_geq", viaBounds := b "via_bounds",
           fixZero := b "fix_zero", asSubset := b "as_subset", antichainSubset := b "antichain_subset" }

def parseMapping (j : Json) : Except String (List (Node × Nat)) := do
  let mp ← jArr j "mapping"
  mp.toList.mapM fun e => do
    let a ← e.getArr?
    match a.toList with
    | [v, c] => return (← v.getStr?, ← c.getNat?)
    | _ => .error "mapping entry"

def sameMembers (a b : List Edge) : Bool :=
  a.length == b.length && a.all b.contains && b.all a.contains

def safetyFragOf (inp : WalkInput) (trusted : List Edge) (j : Json) : Except String (Res SafetyFrag) := do
  let o ← parseSafetyOpts j
  let X ← jList asEdge j "X"
  if !sameMembers X trusted then
    .error s!"trusted_edges_for_safety differs from the model's: {repr trusted}"
  let mapping ← parseMapping j
  let anti ← jList asStrPair j "antichain"
  return safetyPipeline inp.st inp.k X mapping anti o

def handleWalkSafety (op : String) (j : Json) : Option (Except String Json) :=
  match op with
  | "lp.kcoverc.safety" => some do
    let inp ← parseWalkInput j
    match ← safetyFragOf inp (kcovercTrusted inp) j with
    | .ok fr => return strArr (kcovercLPS inp fr).dump
    | .raises w => return strArr ["raises\t" ++ w]
    | .fuel => .error "fuel exhausted"
  | "lp.kfdc.safety" => some do
    let inp ← parseWalkInput j
    let given ← optField j "given_weights" (asList asRat)
    match ← safetyFragOf inp (kfdcTrusted inp) j with
    | .ok fr => return strArr (kfdcLPS inp given fr).dump
    | .raises w => return strArr ["raises\t" ++ w]
    | .fuel => .error "fuel exhausted"
  | _ => none

end FP
