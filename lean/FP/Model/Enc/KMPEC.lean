import FP.Model.Enc.KLAEC
import FP.Model.Enc.Vars
/-!
# FP.Model.Enc.KMPEC — `kMinPathErrorCycles` (edge mode, `elements_to_ignore_percentile = None`)

`__init__` (as `kLeastAbsErrorsCycles`: zero-scaled edges are ignored, caps from
`compute_edge_max_reachable_value`), `_encode_minpatherror_decomposition`, `_encode_objective`.
`k = None` is resolved by the code to `G.get_width(edges_to_ignore)`; the request carries the
resolved `k`.
-/
namespace FP
open Lean


def kmpecProdName (pfx : String) (e : Edge) (i : Nat) : String :=
  pfx ++ "_u=" ++ e.1 ++ "_v=" ++ e.2 ++ "_i=" ++ toString i

def kmpecLP (inp : WalkInput) : LP :=
  let s := inp.st
  let k := inp.k
  let ks := List.range k
  let wm := inp.wmax true
  let bounds := reachBounds inp
  let ub := fun e => lookupD bounds e 1
  let active := inp.activeEdges true
  -- per edge: the `10_` products of all layers, then the `12_` products of all layers
  let prods : List LP := active.flatMap fun e =>
    [ walkProducts [e] k weightsVar piVar wm (kmpecProdName "10"),
      walkProducts [e] k slackVar gammaVar wm (kmpecProdName "12") ]
  (walkCore s inp.cfg ub).append
    { cols := (ks.map fun i => { v := weightsVar i, lb := 0, ub := some wm, isInt := inp.weightInt })
        ++ (ks.flatMap fun i => s.g.edges.map fun e =>
          { v := piVar e i, lb := 0, ub := some wm, isInt := inp.weightInt })
        ++ (ks.map fun i => { v := slackVar i, lb := 0, ub := some wm, isInt := inp.weightInt })
        ++ (ks.flatMap fun i => s.g.edges.map fun e =>
          { v := gammaVar e i, lb := 0, ub := some wm, isInt := false })
        ++ prods.flatMap (·.cols),
      rows := prods.flatMap (·.rows)
        ++ active.flatMap fun e =>
          let sc := inp.scale e
          [ -- (f - Σ pi)·s ≤ Σ gamma
            rowLe ((ks.map fun i => (-sc, piVar e i)) ++ negTerms (ones ks (gammaVar e))) (-(inp.f e * sc)),
            -- (f - Σ pi)·s ≥ -Σ gamma
            rowGe ((ks.map fun i => (-sc, piVar e i)) ++ ones ks (gammaVar e)) (-(inp.f e * sc)) ],
      obj := ones ks slackVar }

def handleKMPEC (op : String) (j : Json) : Option (Except String Json) :=
  if op != "lp.kmpec" then none else some do
    let inp ← parseWalkInput j
    return strArr (kmpecLP inp).dump

end FP
