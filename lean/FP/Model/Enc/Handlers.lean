import FP.Model.Enc.KLAE
import FP.Model.Enc.KMPE
import FP.Model.Enc.KCover
import FP.Model.Enc.MGS
import FP.Model.Enc.MSC
import FP.Model.Enc.MEF
import FP.Model.Enc.KFDC
import FP.Model.Enc.KCoverC
import FP.Model.Enc.KLAEC
import FP.Model.Enc.KMPEC
import FP.Model.ParserJson
import FP.Model.GreedyShortcut
import FP.Model.Lexer
import FP.Model.Literals
import FP.Model.WalkDecodeRound
import FP.Model.Enc.IgnoreBlock
import FP.Model.C17Json
import FP.Model.SafetyJson
import FP.Model.MFD
import FP.Model.NodeExpandJson
import FP.Model.NodeExpandModesJson
import FP.Model.NodeExpandModesCyc
import FP.Model.TablesJson
import FP.Model.Enc.KFDCWitness
import FP.Model.Enc.ErrCheck
import FP.Model.Width
import FP.Model.Enc.WalkSafety
import FP.Model.Enc.PathSafety
/-!
# FP.Model.Enc.Handlers — the `lp.*` handlers of the encoder modules, for `Driver.lean`
-/
namespace FP
open Lean

def encHandlersAll : List (String → Json → Option (Except String Json)) :=
  [handleKLAE, handleKMPE, handleKCover, handleMGS, handleMSC, handleMEF,
   handleKFDC, handleKCoverC, handleKLAEC, handleKMPEC, FP.Parser.handleParser, FP.Lexer.handleLexer, FP.Literals.handleLiterals, FP.MFD.handleMFD, NX.handleNodeExpand, NX.handleNodeModes, NX.handleNodeModesCyc, handleK4, handleKFDCWitness, handleErrCheck, handleWidth, Safety.handleSafety, handleC17, handleIgnoreBlock, handleWalkSafety, handlePathSafety, handleRound, handleGreedyShortcut]

end FP
