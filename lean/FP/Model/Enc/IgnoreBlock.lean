import FP.Model.Enc.KCover
import FP.Model.Enc.KLAE
/-!
# FP.Model.Enc.IgnoreBlock — the part of an encoder's LP that one non-ignored edge generates

Every `_encode_*` method of the DAG models loops over the edges and `continue`s on the members of
`edges_to_ignore`; what the loop body adds for one edge `e` is that edge's *block*. Putting `e` into
`elements_to_ignore` deletes exactly this block (theorems in `FP/Props/C10.lean`); the driver op
`lp.edgeblock` returns the block so that the check can compare it with the difference of two real
LP dumps.
-/
namespace FP
open Lean

/-- the same input with `e` added to the user's `elements_to_ignore` -/
def FlowInput.ignoreMore (inp : FlowInput) (e : Edge) : FlowInput := { inp with ignore := e :: inp.ignore }

def ErrInput.ignoreMore (inp : ErrInput) (e : Edge) : ErrInput := { inp with fi := inp.fi.ignoreMore e }

/-- `kFlowDecomp._encode_flow_decomposition`, body of the edge loop: the `k` product blocks
`pi(e,i) = edge(e,i) · w(i)` and the class row `Σ_i pi(e,i) = f(e)` -/
def kfdEdgeRows (inp : FlowInput) (e : Edge) : List Row :=
  coupleBin [e] inp.cfg.k piVar wVar inp.wmax ++ [rowEq (ones (List.range inp.cfg.k) (piVar e)) (inp.f e)]

/-- `kPathCover._encode_path_cover`, body of the edge loop -/
def kcoverEdgeRows (inp : FlowInput) (e : Edge) : List Row :=
  [rowGe (ones (List.range inp.cfg.k) (edgeVar e)) 1]

/-- `kLeastAbsErrors._encode_leastabserrors_decomposition`, body of the edge loop -/
def klaeEdgeRows (inp : ErrInput) (e : Edge) : List Row :=
  let sumPi := ones (List.range inp.k) (piVar e)
  coupleBin [e] inp.k piVar weightsVar (inp.wmax none)
    ++ [ rowLe (negTerms sumPi ++ [(-1, eeVar e)]) (-(inp.fi.f e)),
         rowLe (sumPi ++ [(-1, eeVar e)]) (inp.fi.f e) ]

def handleIgnoreBlock (op : String) (j : Json) : Option (Except String Json) :=
  if op ≠ "lp.edgeblock" then none else some do
    let cls ← jStr j "class"
    let e ← (j.getObjVal? "edge") >>= asEdge
    match cls with
    | "kfd" =>
      let inp ← parseFlowInput j
      return strArr ({ rows := kfdEdgeRows inp e } : LP).dump
    | "kcover" =>
      let inp ← parseFlowInput j
      return strArr ({ rows := kcoverEdgeRows inp e } : LP).dump
    | "klae" =>
      let inp ← parseErrInput j
      return strArr ({ cols := [{ v := eeVar e, lb := 0, ub := some (inp.wmax none), isInt := inp.fi.weightInt }],
                       rows := klaeEdgeRows inp e, obj := [(inp.scale e, eeVar e)] } : LP).dump
    | _ => .error s!"lp.edgeblock: unknown class {cls}"

end FP
