import FP.Spec.ErrModels
/-!
# FP.Model.Enc.ErrCheck — the spec quantities of C07 / C08 evaluated on a returned solution

`check.klae` / `check.kmpe`: given the instance (same JSON as `lp.klae`), the returned `routes`
(inner paths, as `get_solution()` gives them), `weights` and — for k-Min-Path-Error — `slacks`,
evaluate the definitions of `FP/Spec/ErrModels.lean` (`LAE.absErr`, `LAE.totalErr`, `MPE.SlackOK`,
`MPE.totalSlack`). `k` in the request is the number of returned routes. With `edge_errors` (the dictionary returned by
`get_solution()`), `check.klae` also evaluates `reportedObjective`, the model of `get_objective_value()`.
The harness compares the answers with its own recomputation (written against the property text), so
that the vocabulary in which the theorems are stated is tied to what the oracle checks.
-/
namespace FP
open Lean FP.Spec

def edgeRatJson (e : Edge) (qs : List Rat) : Json :=
  Json.arr ((([e.1, e.2].map Json.str) ++ qs.map fun q => Json.str (ratStr q))).toArray

def handleErrCheck (op : String) (j : Json) : Option (Except String Json) :=
  if op ≠ "check.klae" ∧ op ≠ "check.kmpe" then none else some do
    let inp ← parseErrInput j
    let routes ← jList (asList (·.getStr?)) j "routes"
    let ws ← jList asRat j "weights"
    let P : Nat → List Node := fun i => routes.getD i []
    let w : Nat → Rat := fun i => ws.getD i 0
    let errs := inp.basicEdges.map fun e => (e, LAE.absErr inp P w e)
    let common : List (String × Json) :=
      [("basic", Json.arr (inp.basicEdges.map fun e => strArr [e.1, e.2]).toArray),
       ("wmax", Json.str (ratStr (inp.wmax none))),
       ("errors", Json.arr (errs.map fun p => edgeRatJson p.1 [p.2]).toArray),
       ("total_scaled", Json.str (ratStr (LAE.totalErr inp P w))),
       ("total_unscaled", Json.str (ratStr (errs.map (·.2)).sum))]
    if op = "check.klae" then
      -- optional: the `edge_errors` dictionary of `get_solution()` → the model of `get_objective_value()`
      match (jList asEdgeRat j "edge_errors").toOption with
      | none => return Json.mkObj common
      | some ee =>
        let a : Asg := fun v => match v with
          | .uv "ee" u v => lookupD ee (u, v) 0
          | _ => 0
        return Json.mkObj (common ++ [("reported_objective", Json.str (ratStr (reportedObjective inp a)))])
    else
      let sls ← jList asRat j "slacks"
      let sl : Nat → Rat := fun i => sls.getD i 0
      let rows := inp.basicEdges.map fun e =>
        let lhs := (inp.fi.f e - explained inp.st inp.k P w e).abs * inp.scale e
        let rhs := explained inp.st inp.k P sl e
        Json.arr #[Json.str e.1, Json.str e.2, Json.str (ratStr lhs), Json.str (ratStr rhs),
                   Json.bool (decide (lhs ≤ rhs))]
      return Json.mkObj (common ++
        [("slack_rows", Json.arr rows.toArray),
         ("total_slack", Json.str (ratStr (MPE.totalSlack inp.k sl)))])

end FP
