import FP.Model.Enc.WalkInput
/-!
# FP.Model.Enc.KFDC — `kFlowDecompCycles` (edge mode)

`__init__` (repetition caps), `_encode_flow_decomposition`, `_encode_given_weights`.
-/
namespace FP
open Lean

/-- `edge_upper_bounds_dict`: the edge's own flow value when the edge has the attribute, `w_max`
otherwise (synthetic edges and ignored edges without the attribute); afterwards the parent class
caps the edges outside SCCs to 1 and floors the bounds of the SCC edges (fix fcfd0b0) -/
def kfdcBounds (inp : WalkInput) : List (Edge × Rat) :=
  let wm := inp.wmax false
  capBounds inp.st.g fun e => (inp.fOpt e).getD wm

def kfdcProdName (e : Edge) (i : Nat) : String :=
  "i=" ++ toString i ++ "_u=" ++ e.1 ++ "_v=" ++ e.2 ++ "_10"

/-- the LP after `__init__`; `given` is `optimization_options["given_weights"]` -/
def kfdcLP (inp : WalkInput) (given : Option (List Rat)) : LP :=
  let s := inp.st
  let k := inp.k
  let ks := List.range k
  let wm := inp.wmax false
  let bounds := kfdcBounds inp
  let ub := fun e => lookupD bounds e 1
  let active := inp.activeEdges false
  let prods := walkProducts active k weightsVar piVar wm kfdcProdName
  let flowLP : LP :=
    { cols := (ks.flatMap fun i => s.g.edges.map fun e =>
          { v := piVar e i, lb := 0, ub := some wm, isInt := inp.weightInt })
        ++ (ks.map fun i => { v := weightsVar i, lb := 0, ub := some wm, isInt := inp.weightInt })
        ++ prods.cols,
      rows := prods.rows
        ++ active.map fun e => rowEq (ones ks (piVar e)) (inp.f e) }
  let lp := (walkCore s inp.cfg ub).append flowLP
  match given with
  | none => lp
  | some ws =>
    lp.append
      { rows := (List.range ws.length).map fun i => rowEq [(1, weightsVar i)] (ws.getD i 0),
        obj := s.g.edges.flatMap fun e => ks.map fun i => ((1 : Rat), edgeVar e i) }

def handleKFDC (op : String) (j : Json) : Option (Except String Json) :=
  if op != "lp.kfdc" then none else some do
    let inp ← parseWalkInput j
    let given ← optField j "given_weights" (asList asRat)
    return strArr (kfdcLP inp given).dump

end FP
