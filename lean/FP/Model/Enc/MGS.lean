import FP.Model.Wrapper
import FP.Model.Json
/-!
# FP.Model.Enc.MGS — `MinGenSet` (`flowpaths/mingenset.py`)

* `mgsPreprocess` — the `__init__` treatment of `numbers`: copy; `remove_sums_of_two` is dead code
  (`if False and …`); `remove_complement_values` collects `total - val` whenever `max_multiplicity == 1`,
  it occurs in the list and is strictly larger than `val`, plus every `val` equal to `total` or `0`, and then takes
  `list(set(numbers) - elements_to_remove)` (so duplicates disappear *only* when the flag is set; the
  order of the resulting python list is hash order and is an input of the LP generator).
* `mgsLP` — `_create_solver(k)`: `gen_set`, `x`, `pi` columns, row `total`, the product rows
  (binary×continuous for `max_multiplicity == 1`, integer×continuous named `pi_i={i}_j={j}` otherwise —
  note that the helper is called with `ub = total`, so the number of bits is `ceil(log2(total + 1))`
  whatever `max_multiplicity` is), rows `sum_pi_j`, `_encode_symmetry_breaking` (`range(k - 2)`: the
  last pair is not ordered) and `_encode_partition_constraints`.
-/
namespace FP

/-- `__init__`: what `self.numbers` holds after the constructor, as a list without a meaningful order
when `removeComplement` (python: `list(set(..) - set(..))`), and the untouched copy otherwise. Since fix
20bda28 the larger of `x`, `total - x` is dropped only for `max_multiplicity == 1`; `total` and `0` are
dropped for every multiplicity. -/
def mgsPreprocess (numbers : List Rat) (total : Rat) (removeComplement : Bool) (maxMult : Nat := 1) :
    List Rat :=
  if !removeComplement then numbers else
  let toRemove : List Rat := numbers.flatMap fun v =>
    (if decide (maxMult = 1) && numbers.contains (total - v) && decide (total - v > v) then [total - v] else [])
    ++ (if v == total || v == 0 then [v] else [])
  numbers.eraseDups.filter fun v => !toRemove.contains v

def sortRat (l : List Rat) : List Rat := l.mergeSort (fun a b => decide (a ≤ b))

structure MGSInput where
  /-- `self.numbers` in python's list order -/
  numbers : List Rat
  total : Rat
  weightInt : Bool := false
  maxMult : Nat := 1
  partition : Option (List (List Rat)) := none
  deriving Repr, Inhabited

def genVar (i : Nat) : Var := .ix "gen_set" i
def xVar (i j : Nat) : Var := .ij "x" i j
def mgsPiVar (i j : Nat) : Var := .ij "pi" i j
def yVar (i j c : Nat) : Var := .ijk "y" i j c
def prodYVar (i j c : Nat) : Var := .ijk "product_y" i j c

def sumTerms (l : List Nat) (f : Nat → Var) : Terms := l.map fun x => ((1 : Rat), f x)

/-- `_encode_symmetry_breaking` -/
def mgsSymmetry (k : Nat) : List Row :=
  (List.range (k - 2)).map fun i => rowLe [(1, genVar i), (-1, genVar (i + 1))] 0

/-- `_encode_partition_constraints` -/
def mgsPartition (inp : MGSInput) (k : Nat) : LP :=
  match inp.partition with
  | none => {}
  | some [] => {}
  | some cons =>
    let t := (cons.map List.length).foldl max 0
    let nc := cons.length
    let idx : List (Nat × Nat × Nat) :=
      (List.range k).flatMap fun i => (List.range t).flatMap fun j => (List.range nc).map fun c => (i, j, c)
    { cols := idx.map (fun (i, j, c) => { v := yVar i j c, lb := 0, ub := some 1, isInt := true })
        ++ idx.map (fun (i, j, c) =>
            { v := prodYVar i j c, lb := 0, ub := some inp.total, isInt := inp.weightInt }),
      rows := idx.flatMap (fun (i, j, c) => binProd (yVar i j c) (genVar i) (prodYVar i j c) 0 inp.total)
        ++ ((List.range k).flatMap fun i => (List.range nc).map fun c =>
              rowEq (sumTerms (List.range t) (fun j => yVar i j c)) 1)
        ++ ((List.range nc).zip cons).flatMap fun (c, con) =>
              (List.range con.length).map fun j =>
                rowEq (sumTerms (List.range k) (fun i => prodYVar i j c)) (con.getD j 0) }

/-- `_create_solver(k)` -/
def mgsLP (inp : MGSInput) (k : Nat) : LP :=
  let n := inp.numbers.length
  let is := List.range k
  let js := List.range n
  let ij : List (Nat × Nat) := is.flatMap fun i => js.map fun j => (i, j)
  let base : LP :=
    { cols := is.map (fun i => { v := genVar i, lb := 0, ub := some inp.total, isInt := inp.weightInt })
        ++ ij.map (fun (i, j) =>
            { v := xVar i j, lb := 0, ub := some (if inp.maxMult = 1 then 1 else (inp.maxMult : Rat)),
              isInt := true })
        ++ ij.map (fun (i, j) =>
            { v := mgsPiVar i j, lb := 0, ub := some inp.total, isInt := inp.weightInt }),
      rows := [rowEq (sumTerms is genVar) inp.total] }
  let perNumber : List LP := (js.zip inp.numbers).map fun (j, a) =>
    let prods : List LP := is.map fun i =>
      if inp.maxMult = 1 then
        { rows := binProd (xVar i j) (genVar i) (mgsPiVar i j) 0 inp.total }
      else
        intProdQ (xVar i j) (genVar i) (mgsPiVar i j) 0 inp.total
          ("pi_i=" ++ toString i ++ "_j=" ++ toString j)
    (prods.foldl LP.append {}).append { rows := [rowEq (sumTerms is (fun i => mgsPiVar i j)) a] }
  ((perNumber.foldl LP.append base).append { rows := mgsSymmetry k }).append (mgsPartition inp k)

/-- pseudo columns `pre<i>` fixed at the sorted numbers: makes the K2 comparison see the result of the
constructor's preprocessing as a multiset -/
def preCols (numbers : List Rat) : List Col :=
  let s := sortRat numbers
  ((List.range s.length).zip s).map fun (i, a) => { v := .ix "pre" i, lb := a, ub := some a, isInt := false }

open Lean in
/-- `lp.mgs`: `{"numbers": [...], "numbers_after": [...]|null, "total": q, "weight_type": "int"|"float",
"max_multiplicity": n, "partition": [[...]]|null, "remove_complement": bool, "k": n}` -/
def handleMGS (op : String) (j : Json) : Option (Except String Json) :=
  if op != "lp.mgs" then none else some do
    let numbers ← jList asRat j "numbers"
    let total ← jRat j "total"
    let rc := (jBool j "remove_complement").toOption.getD true
    let mm := (jNat j "max_multiplicity").toOption.getD 1
    let pre := mgsPreprocess numbers total rc mm
    let after : Option (List Rat) := match j.getObjVal? "numbers_after" with
      | .ok Json.null => none
      | .ok v => (asList asRat v).toOption
      | .error _ => none
    -- the python list order is taken from the real object when it is a permutation of the model's list
    let ordered := match after with
      | some l => if sortRat l == sortRat pre then l else pre
      | none => pre
    let part : Option (List (List Rat)) ← match j.getObjVal? "partition" with
      | .ok Json.null => pure none
      | .ok v => (asList (asList asRat) v).map some
      | .error _ => pure none
    let inp : MGSInput :=
      { numbers := ordered, total := total,
        weightInt := (jStr j "weight_type").toOption == some "int",
        maxMult := mm,
        partition := part }
    let k ← jNat j "k"
    let lp := mgsLP inp k
    return strArr ({ lp with cols := lp.cols ++ preCols pre }).dump

end FP
