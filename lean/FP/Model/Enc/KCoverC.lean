import FP.Model.Enc.WalkInput
/-!
# FP.Model.Enc.KCoverC — `kPathCoverCycles` (`cover_type = "edge"`)

`__init__` (`max_edge_repetition = |E|·|V|` of the augmented graph), `_encode_walk_cover`,
`_encode_objective`.

In `_encode_walk_cover` the set `subset_constraint_edges` is built from
`zip(constraint[:-1], constraint[1:])`, i.e. from pairs *of edges*; no graph edge `(u, v)` (a pair
of strings) is ever a member, so the `coverage == 1` shortcut never skips a cover row. The model has
the cover row for every edge that is not ignored.
-/
namespace FP
open Lean

/-- `edge_upper_bounds`: `number_of_edges * number_of_nodes` of the augmented graph on SCC edges (a natural
number: the flooring of fix fcfd0b0 changes nothing, `c09k_cap_scc`), 1 elsewhere -/
def kcovercBounds (s : STGraph) : List (Edge × Rat) :=
  capBounds s.g fun _ => ((s.g.edges.length * s.g.nodes.length : Nat) : Rat)

def kcovercLP (inp : WalkInput) : LP :=
  let s := inp.st
  let ks := List.range inp.k
  let bounds := kcovercBounds s
  let ub := fun e => lookupD bounds e 1
  (walkCore s inp.cfg ub).append
    { rows := (inp.activeEdges false).map fun e => rowGe (ones ks (edgeVar e)) 1,
      obj := s.g.edges.flatMap fun e => ks.map fun i => ((1 : Rat), edgeVar e i) }

def handleKCoverC (op : String) (j : Json) : Option (Except String Json) :=
  if op != "lp.kcoverc" then none else some do
    let inp ← parseWalkInput j
    return strArr (kcovercLP inp).dump

end FP
