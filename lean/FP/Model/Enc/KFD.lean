import FP.Model.PathCore
import FP.Model.Json
/-!
# FP.Model.Enc.KFD — `kFlowDecomp`: `_encode_flow_decomposition` and
`_encode_flow_decomposition_with_given_weights`
-/
namespace FP

def piVar (e : Edge) (i : Nat) : Var := .uvi "pi" e.1 e.2 i
def wVar (i : Nat) : Var := .ix "w" i

/-- common input of the DAG flow models -/
structure FlowInput where
  base : Graph
  flow : List (Edge × Rat)        -- edges carrying the flow attribute
  ignore : List Edge := []        -- user's edges_to_ignore
  starts : List Node := []
  ends : List Node := []
  weightInt : Bool := false
  cfg : PathCfg
  deriving Repr, Inhabited

def FlowInput.st (inp : FlowInput) : STGraph := augment inp.base inp.starts inp.ends

/-- `self.edges_to_ignore = G.source_sink_edges ∪ user's list` -/
def FlowInput.ignored (inp : FlowInput) (e : Edge) : Bool :=
  inp.st.sourceSinkEdges.contains e || inp.ignore.contains e

def FlowInput.activeEdges (inp : FlowInput) : List Edge := inp.st.g.edges.filter fun e => !inp.ignored e

def FlowInput.f (inp : FlowInput) (e : Edge) : Rat := lookupD inp.flow e 0

/-- `get_max_flow_value_and_check_non_negative_flow` -/
def FlowInput.wmax (inp : FlowInput) : Rat := listMax (inp.activeEdges.map inp.f)

/-- the product block shared by the DAG models: `prod(e,i) = edge(e,i) · cont(i)` -/
def coupleBin (edges : List Edge) (k : Nat) (prod : Edge → Nat → Var) (cont : Nat → Var) (ub : Rat) :
    List Row :=
  edges.flatMap fun e => (List.range k).flatMap fun i => binProd (edgeVar e i) (cont i) (prod e i) 0 ub

/-- `_encode_flow_decomposition` -/
def kfdLP (inp : FlowInput) : LP :=
  let s := inp.st
  let k := inp.cfg.k
  let wm := inp.wmax
  (encodePaths s inp.cfg).append
    { cols := ((List.range k).flatMap fun i => s.g.edges.map fun e =>
          { v := piVar e i, lb := 0, ub := some wm, isInt := inp.weightInt })
        ++ (List.range k).map fun i => { v := wVar i, lb := 0, ub := some wm, isInt := inp.weightInt },
      rows := coupleBin inp.activeEdges k piVar wVar wm
        ++ inp.activeEdges.map fun e => rowEq (ones (List.range k) (piVar e)) (inp.f e) }

/-- `_encode_flow_decomposition_with_given_weights`; `cfg.k = len(weights)`, `cfg.allowEmpty = true` -/
def kfdGivenLP (inp : FlowInput) (weights : List Rat) (originalK : Nat) : LP :=
  let s := inp.st
  let k := inp.cfg.k
  let srcTerms : Terms := (List.range k).flatMap fun i =>
    ones (s.g.succ s.source) (fun v => edgeVar (s.source, v) i)
  (encodePaths s inp.cfg).append
    { rows := (inp.activeEdges.map fun e =>
          rowEq ((List.range k).map fun i => (weights.getD i 0, edgeVar e i)) (inp.f e))
        ++ [rowLe srcTerms originalK],
      obj := srcTerms }

end FP
