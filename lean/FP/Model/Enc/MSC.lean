import FP.Model.Wrapper
import FP.Model.Json
/-!
# FP.Model.Enc.MSC — `MinSetCover._encode_set_cover` (`flowpaths/minsetcover.py`)

One binary column `subset<i>` per subset, one row `Σ_{i : element ∈ subsets[i]} subset<i> ≥ 1` per entry of
`universe` (entries are not deduplicated; an element contained in no subset gives the empty row `0 ≥ 1`),
objective `min Σ subset_weights[i] · subset<i>` (`subset_weights=None` stands for unit weights).
-/
namespace FP

structure MSCInput where
  univ : List String
  subsets : List (List String)
  /-- `self.subset_weights` after the constructor (see `mscWeights`) -/
  weights : List Rat
  deriving Repr, Inhabited

/-- `__init__` (since fix 3364d5e): `subset_weights if subset_weights is not None else [1] * len(subsets)` -/
def mscWeights (given : Option (List Rat)) (nSubsets : Nat) : List Rat :=
  match given with
  | some w => w
  | none => List.replicate nSubsets 1

def subsetVar (i : Nat) : Var := .ix "subset" i

def mscLP (inp : MSCInput) : LP :=
  let idx := (List.range inp.subsets.length).zip inp.subsets
  { cols := idx.map fun (i, _) => { v := subsetVar i, lb := 0, ub := some 1, isInt := true },
    rows := inp.univ.map fun el =>
      rowGe ((idx.filter fun (_, s) => s.contains el).map fun (i, _) => ((1 : Rat), subsetVar i)) 1,
    obj := idx.map fun (i, _) => (inp.weights.getD i 0, subsetVar i) }

open Lean in
/-- `lp.msc`: `{"universe": [str], "subsets": [[str]], "weights": [q] | null}` (`null` = `subset_weights=None`) -/
def handleMSC (op : String) (j : Json) : Option (Except String Json) :=
  if op != "lp.msc" then none else some do
    let subsets ← jList (asList (·.getStr?)) j "subsets"
    let given : Option (List Rat) ← match j.getObjVal? "weights" with
      | .ok Json.null => pure none
      | .ok v => (asList asRat v).map some
      | .error _ => pure none
    let inp : MSCInput :=
      { univ := ← jList (·.getStr?) j "universe",
        subsets := subsets,
        weights := mscWeights given subsets.length }
    if inp.weights.length < inp.subsets.length then
      throw "subset_weights shorter than subsets (python: IndexError)"
    return strArr (mscLP inp).dump

end FP
