import FP.Model.Enc.KLAE
import FP.Model.Enc.Vars
/-!
# FP.Model.Enc.KMPE — `kMinPathError`

`_encode_minpatherror_decomposition`, `_encode_minpatherror_decomposition_with_given_weights` and
`_encode_objective` of `flowpaths/kminpatherror.py`. The constructor always passes
`encode_edge_position=True`, so `cfg.encodePosition` must be `true` (the JSON handler forces it).

`k = None` (width) is resolved on the Python side: the request carries the `k` the constructor chose.
-/
namespace FP
open Lean

def slackFactorVar (i : Nat) : Var := .ix "path_slack_scaled" i
def scaledSlackVar (i : Nat) : Var := .ix "scaled_slack" i

structure MpeInput where
  ei : ErrInput
  /-- `path_length_ranges` -/
  ranges : List (Rat × Rat) := []
  /-- `path_length_factors` (same length as `ranges`, checked by the constructor) -/
  factors : List Rat := []
  deriving Repr, Inhabited

/-- the block guarded by `len(self.path_length_factors) > 0` (identical in both encoders):
slack-factor variables, one piecewise-constant constraint per path on `path_length`, scaled-slack
variables and the integer × continuous products `scaled_slack = slack · factor` -/
def factorBlock (inp : MpeInput) (k : Nat) (wm : Rat) : LP :=
  if inp.factors.isEmpty then {} else
  let fmin := listMin inp.factors
  let fmax := listMax inp.factors
  let ubS := wm * fmax
  let idx := List.range k
  let pw : LP := idx.foldl (fun acc i =>
      let p := piecewise (lenVar i) (slackFactorVar i) inp.ranges inp.factors ("error_scale_" ++ toString i)
      { acc with cols := acc.cols ++ p.cols, rows := acc.rows ++ p.rows }) {}
  let ip : LP := idx.foldl (fun acc i =>
      let p := intProdQ (slackVar i) (slackFactorVar i) (scaledSlackVar i) 0 ubS ("scaled_slack_i" ++ toString i)
      { acc with cols := acc.cols ++ p.cols, rows := acc.rows ++ p.rows }) {}
  { cols := idx.map (fun i => { v := slackFactorVar i, lb := fmin, ub := some fmax, isInt := false })
        ++ pw.cols
        ++ idx.map (fun i => { v := scaledSlackVar i, lb := 0, ub := some ubS, isInt := false })
        ++ ip.cols,
    rows := pw.rows ++ ip.rows }

/-- `slack_var`: the regular slack, or the scaled one when `path_length_factors` is given -/
def MpeInput.slackFor (inp : MpeInput) (i : Nat) : Var :=
  if inp.factors.isEmpty then slackVar i else scaledSlackVar i

def slackCols (k : Nat) (wm : Rat) (isInt : Bool) : List Col :=
  (List.range k).map fun i => { v := slackVar i, lb := 0, ub := some wm, isInt := isInt }

def gammaCols (s : STGraph) (k : Nat) (wm : Rat) : List Col :=
  (List.range k).flatMap fun i => s.g.edges.map fun e =>
    { v := gammaVar e i, lb := 0, ub := some wm, isInt := false }

/-- rows 9aa / 9ab: `(f − Σ expl) · scale ≤ Σ gamma` and `(f − Σ expl) · scale ≥ −Σ gamma`,
where `expl` are the terms explaining the flow of the edge (`pi` or `weight · edge`) -/
def errRows (f sc : Rat) (expl gam : Terms) : List Row :=
  let scaled : Terms := expl.map fun t => (-(t.1 * sc), t.2)
  [ rowLe (scaled ++ negTerms gam) (-(f * sc)),
    rowGe (scaled ++ gam) (-(f * sc)) ]

def mpeObj (k : Nat) : Terms := ones (List.range k) slackVar

/-- `_encode_minpatherror_decomposition` followed by `_encode_objective` -/
def kmpeLP (inp : MpeInput) : LP :=
  let e := inp.ei
  let s := e.st
  let k := e.k
  let wm := e.wmax none
  let isInt := e.fi.weightInt
  ((encodePaths s e.fi.cfg).append
    { cols := ((List.range k).map fun i => { v := weightsVar i, lb := 0, ub := some wm, isInt := isInt })
        ++ ((List.range k).flatMap fun i => s.g.edges.map fun ed =>
            { v := piVar ed i, lb := 0, ub := some wm, isInt := isInt })
        ++ slackCols k wm isInt ++ gammaCols s k wm })
  |>.append (factorBlock inp k wm)
  |>.append
    { rows := coupleBin e.basicEdges k piVar weightsVar wm
        ++ coupleBin e.basicEdges k gammaVar inp.slackFor wm
        ++ e.basicEdges.flatMap fun ed =>
          errRows (e.fi.f ed) (e.scale ed) (ones (List.range k) (piVar ed)) (ones (List.range k) (gammaVar ed)),
      obj := mpeObj k }

/-- `_encode_minpatherror_decomposition_with_given_weights` followed by `_encode_objective`;
`cfg.k = len(weights)`, `cfg.allowEmpty = true` (set by the constructor) -/
def kmpeGivenLP (inp : MpeInput) (weights : List Rat) (originalK : Nat) : LP :=
  let e := inp.ei
  let s := e.st
  let k := e.k
  let wm := e.wmax (some weights)
  let isInt := e.fi.weightInt
  let srcTerms : Terms := (List.range k).flatMap fun i =>
    ones (s.g.succ s.source) (fun v => edgeVar (s.source, v) i)
  ((encodePaths s e.fi.cfg).append { cols := slackCols k wm isInt ++ gammaCols s k wm })
  |>.append (factorBlock inp k wm)
  |>.append
    { rows := coupleBin e.basicEdges k gammaVar inp.slackFor wm
        ++ (e.basicEdges.flatMap fun ed =>
          errRows (e.fi.f ed) (e.scale ed)
            ((List.range k).map fun i => (weights.getD i 0, edgeVar ed i))
            (ones (List.range k) (gammaVar ed)))
        ++ [rowLe srcTerms originalK],
      obj := mpeObj k }

/-! ## JSON -/

def asRatPairJ (j : Json) : Except String (Rat × Rat) := do
  let a ← j.getArr?
  match a.toList with
  | [x, y] => return (← asRat x, ← asRat y)
  | _ => .error "pair expected"

def parseMpeInput (j : Json) : Except String MpeInput := do
  let ei ← parseErrInput j
  -- `super().__init__(..., encode_edge_position=True, encode_path_length=True, ...)`
  let ei := { ei with fi := { ei.fi with cfg := { ei.fi.cfg with encodePosition := true } } }
  return { ei := ei,
           ranges := (jList asRatPairJ j "path_length_ranges").toOption.getD [],
           factors := (jList asRat j "path_length_factors").toOption.getD [] }

def handleKMPE (op : String) (j : Json) : Option (Except String Json) :=
  if op ≠ "lp.kmpe" then none else some do
    let inp ← parseMpeInput j
    match ← optField j "given_weights" (asList asRat) with
    | none => return strArr (kmpeLP inp).dump
    | some ws =>
      let ok ← jNat j "original_k"
      return strArr (kmpeGivenLP { inp with ei := inp.ei.forGiven ws } ws ok).dump

end FP
