import FP.Model.Enc.KFDC
import FP.Spec.WalkDecomp
/-!
# FP.Model.Enc.KFDCWitness — from a weighted walk decomposition to an assignment of `kfdcLP`

The construction behind the completeness theorem of C04 (`FP/Proofs/KFDCComplete.lean`), executable:

* `walkSel`, `walkDist` — the connectivity witnesses of a walk: the edge by which a vertex is entered
  for the first time, and the rank of a vertex in the order of first visits;
* `coversB` — "this walk covers that subset constraint to the required fraction";
* `kfdcAsg` — values for *all* columns of `kfdcLP`: multiplicities, selected edges, distances, used
  edges, `r`, `pi`, weights and the bit / component columns of every product block;
* `satCheck` — evaluates every column bound, integrality requirement and row of an LP under an
  assignment (sound for `Sat`: `satCheck_sound`);
* driver op `kfdc.witness`: the harness sends a brute-force optimal decomposition, the answer says
  whether the assignment built from it satisfies the LP of the real constructor's k-model.
-/
namespace FP
open Lean FP.Spec

/-- the edge by which its head is entered for the first time -/
def walkSel (L : List Node) (e : Edge) : Bool :=
  decide ((walkEdges (L.take (L.idxOf e.2 + 1))).getLast? = some e)

/-- rank of `v` in the order of first visits -/
def walkDist (nodes : List Node) (L : List Node) (v : Node) : Nat :=
  (nodes.filter fun x => decide (x ∈ L.take (L.idxOf v))).length + 1

/-- layer multiplicities `mi` cover the constraint `con` to the fraction `cov`: the number of distinct
edges of `con` with positive multiplicity is at least `|set(con)|·cov` -/
def coversB (mi : Edge → Nat) (con : List Edge) (cov : Rat) : Bool :=
  decide ((con.eraseDups.length : Rat) * cov
    ≤ (con.eraseDups.map fun e => if mi e = 0 then (0 : Rat) else 1).sum)

/-- `j`-th binary digit of `k` -/
def bitOf (k j : Nat) : Rat := ((k / 2 ^ j % 2 : Nat) : Rat)

/-- the product blocks of the LP: one per non-ignored edge and layer -/
def kfdcProds (inp : WalkInput) : List (Edge × Nat) :=
  (inp.activeEdges false).flatMap fun e => (List.range inp.k).map fun i => (e, i)

/-- the values of the structured columns -/
def kfdcBaseAsg (inp : WalkInput) (m : Nat → Edge → Nat) (w : Nat → Rat) (sel : Nat → Edge → Bool)
    (dist : Nat → Node → Nat) : Asg := fun v =>
  match v with
  | .uvi pfx x y i =>
    if pfx = "edge" then (m i (x, y) : Rat)
    else if pfx = "selected_edge" then (if sel i (x, y) then 1 else 0)
    else if pfx = "used_edge" then (if m i (x, y) = 0 then 0 else 1)
    else if pfx = "pi" then (if (x, y) ∈ inp.activeEdges false then w i * (m i (x, y) : Rat) else 0)
    else 0
  | .vi pfx x i => if pfx = "distance" then (dist i x : Rat) else 0
  | .ix pfx i => if pfx = "weights" then w i else 0
  | .ij pfx i j =>
    if pfx = "r" then
      (if coversB (m i) (inp.cfg.constraints.getD j []) inp.cfg.coverage then 1 else 0)
    else 0
  | _ => 0

/-- all columns: the structured ones and the bit / component columns of the product blocks -/
def kfdcAsg (inp : WalkInput) (m : Nat → Edge → Nat) (w : Nat → Rat) (sel : Nat → Edge → Bool)
    (dist : Nat → Node → Nat) : Asg := fun v =>
  match v with
  | .ix pfx j =>
    match (kfdcProds inp).find? (fun p => pfx = "binary_" ++ kfdcProdName p.1 p.2) with
    | some p => bitOf (m p.2 p.1) j
    | none =>
      match (kfdcProds inp).find? (fun p => pfx = "comp_" ++ kfdcProdName p.1 p.2) with
      | some p => bitOf (m p.2 p.1) j * w p.2
      | none => kfdcBaseAsg inp m w sel dist v
  | _ => kfdcBaseAsg inp m w sel dist v

/-- the assignment of a family of weighted walks (inner vertex sequences, synthetic endpoints put back) -/
def kfdcWalkAsg (inp : WalkInput) (walk : Nat → List Node) (w : Nat → Rat) : Asg :=
  kfdcAsg inp (multsOf inp.st.source inp.st.sink walk) w
    (fun i => walkSel (inp.st.source :: walk i ++ [inp.st.sink]))
    (fun i => walkDist inp.st.g.nodes (inp.st.source :: walk i ++ [inp.st.sink]))

/-! ## evaluating an LP under an assignment -/

def rowOk (a : Asg) (r : Row) : Bool :=
  (match r.lo with
    | none => true
    | some l => decide (l ≤ evalTerms a r.terms)) &&
  (match r.hi with
    | none => true
    | some h => decide (evalTerms a r.terms ≤ h))

def colOk (a : Asg) (c : Col) : Bool :=
  decide (c.lb ≤ a c.v) &&
  (match c.ub with
    | none => true
    | some u => decide (a c.v ≤ u)) &&
  (!c.isInt || decide (a c.v = ((a c.v).floor : Rat)))

def satCheck (a : Asg) (lp : LP) : Bool := lp.cols.all (colOk a) && lp.rows.all (rowOk a)

def handleKFDCWitness (op : String) (j : Json) : Option (Except String Json) :=
  if op != "kfdc.witness" then none else some do
    let inp ← parseWalkInput j
    let walks ← jList (asList (·.getStr?)) j "walks"
    let ws ← jList asRat j "weights"
    let a := kfdcWalkAsg inp (fun i => walks.getD i []) (fun i => ws.getD i 0)
    let lp := kfdcLP inp none
    let badCols := (lp.cols.filter fun c => !colOk a c).map (·.v.name)
    let badRows := ((List.range lp.rows.length).zip lp.rows).filter fun p => !rowOk a p.2
    return Json.mkObj [("sat", Json.bool (satCheck a lp)),
                       ("cols", Json.num lp.cols.length), ("rows", Json.num lp.rows.length),
                       ("bad_cols", strArr badCols),
                       ("bad_rows", Json.arr (badRows.map fun p => Json.num p.1).toArray)]

end FP
