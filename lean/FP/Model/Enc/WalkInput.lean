import FP.Model.WalkCore
import FP.Model.Enc.Parse
import FP.Model.Enc.Vars
/-!
# FP.Model.Enc.WalkInput — the common input of the cyclic flow models and its JSON form

`kFlowDecompCycles`, `kLeastAbsErrorsCycles` and `kMinPathErrorCycles` start with the same
preamble (edge mode, `flow_attr_origin = "edge"`):

* `self.G = stDiGraph(G, additional_starts, additional_ends)`
* `self.edges_to_ignore = G.source_sink_edges ∪ elements_to_ignore` (∪ the keys of `error_scaling`
  whose factor is `0`, for the two error models)
* `self.w_max = k * weight_type(get_max_flow_value_and_check_non_negative_flow(...))`
-/
namespace FP
open Lean


structure WalkInput where
  base : Graph
  /-- the base edges that carry the flow attribute, with its value -/
  flow : List (Edge × Rat)
  /-- the user's `elements_to_ignore` -/
  ignore : List Edge := []
  starts : List Node := []
  ends : List Node := []
  weightInt : Bool := false
  /-- `error_scaling` (the keys need not be edges of the graph) -/
  scaling : List (Edge × Rat) := []
  cfg : WalkCfg
  deriving Repr, Inhabited

namespace WalkInput

def st (inp : WalkInput) : STGraph := augment inp.base inp.starts inp.ends

def k (inp : WalkInput) : Nat := inp.cfg.k

/-- `data.get(flow_attr)` -/
def fOpt (inp : WalkInput) (e : Edge) : Option Rat := inp.flow.lookup e

/-- `data[flow_attr]` on an edge that has it -/
def f (inp : WalkInput) (e : Edge) : Rat := (inp.fOpt e).getD 0

/-- membership in `self.edges_to_ignore`; `withScaling` adds the keys of `error_scaling` with
factor `0` (the error models) -/
def ignored (inp : WalkInput) (withScaling : Bool) (e : Edge) : Bool :=
  inp.st.sourceSinkEdges.contains e || inp.ignore.contains e
    || (withScaling && inp.scaling.any fun p => p.1 == e && p.2 == 0)

def activeEdges (inp : WalkInput) (withScaling : Bool) : List Edge :=
  inp.st.g.edges.filter fun e => !inp.ignored withScaling e

/-- `k * weight_type(max flow over the edges that are not ignored)`; `int(x)` truncates, which is
`floor` for the non-negative values that pass the check -/
def wmax (inp : WalkInput) (withScaling : Bool) : Rat :=
  let m := listMax ((inp.activeEdges withScaling).map inp.f)
  (inp.k : Rat) * (if inp.weightInt then (m.floor : Rat) else m)

/-- `edge_error_scaling.get((u, v), 1)` -/
def scale (inp : WalkInput) (e : Edge) : Rat := (inp.scaling.lookup e).getD 1

end WalkInput

/-- the block `edge(e,i) * cont(i) = prod(e,i)` for every edge that is not ignored and every layer
(the `else` branch of the loops: nothing is in `edges_set_to_zero` / `edges_set_to_one`) -/
def walkProducts (edges : List Edge) (k : Nat) (cont : Nat → Var) (prod : Edge → Nat → Var)
    (ub : Rat) (name : Edge → Nat → String) : LP :=
  let parts := edges.flatMap fun e => (List.range k).map fun i =>
    intProdQ (edgeVar e i) (cont i) (prod e i) 0 ub (name e i)
  { cols := parts.flatMap (·.cols), rows := parts.flatMap (·.rows) }

def parseWalkCfg (j : Json) : Except String WalkCfg := do
  return { k := ← jNat j "k",
           allowEmpty := (jBool j "allow_empty").toOption.getD false,
           constraints := (jList (asList asEdge) j "constraints").toOption.getD [],
           coverage := (jRat j "coverage").toOption.getD 1 }

def parseWalkInput (j : Json) : Except String WalkInput := do
  return { base := ← parseGraph j,
           flow := (jList asEdgeRat j "flow").toOption.getD [],
           ignore := (jList asEdge j "ignore").toOption.getD [],
           starts := (jList (·.getStr?) j "starts").toOption.getD [],
           ends := (jList (·.getStr?) j "ends").toOption.getD [],
           weightInt := (jStr j "weight_type").toOption == some "int",
           scaling := (jList asEdgeRat j "scaling").toOption.getD [],
           cfg := ← parseWalkCfg j }

end FP
