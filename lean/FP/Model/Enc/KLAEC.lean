import FP.Model.Enc.WalkInput
import FP.Model.Enc.Vars
/-!
# FP.Model.Enc.KLAEC — `kLeastAbsErrorsCycles` (edge mode)

`__init__` (`edges_to_ignore` with the zero-scaled edges, `max_edge_repetition_dict =
G.compute_edge_max_reachable_value(flow_attr)`), `_encode_leastabserrors_decomposition`,
`_encode_objective`.
-/
namespace FP
open Lean


/-- repetition caps of the two error models: `compute_edge_max_reachable_value` on the augmented
graph with `float(data.get(flow_attr, 0.0))` on *every* edge (ignored ones included), then 1 outside SCCs
and the floor of the value on SCC edges (fix fcfd0b0) -/
def reachBounds (inp : WalkInput) : List (Edge × Rat) :=
  let g := inp.st.g
  let mr := edgeMaxReachable g fun e => (inp.fOpt e).getD 0
  capBounds g fun e => lookupD mr e 0

def klaecProdName (e : Edge) (i : Nat) : String :=
  "u=" ++ e.1 ++ "_v=" ++ e.2 ++ "_i=" ++ toString i ++ "_10"

def klaecLP (inp : WalkInput) : LP :=
  let s := inp.st
  let k := inp.k
  let ks := List.range k
  let wm := inp.wmax true
  let bounds := reachBounds inp
  let ub := fun e => lookupD bounds e 1
  let active := inp.activeEdges true
  let prods := walkProducts active k weightsVar piVar wm klaecProdName
  (walkCore s inp.cfg ub).append
    { cols := (ks.flatMap fun i => s.g.edges.map fun e =>
          { v := piVar e i, lb := 0, ub := some wm, isInt := inp.weightInt })
        ++ (ks.map fun i => { v := weightsVar i, lb := 0, ub := some wm, isInt := inp.weightInt })
        ++ (active.map fun e => { v := eeVar e, lb := 0, ub := some wm, isInt := inp.weightInt })
        ++ prods.cols,
      rows := prods.rows
        ++ active.flatMap fun e =>
          [ -- f - Σ pi ≤ ee
            rowLe (negTerms (ones ks (piVar e)) ++ [(-1, eeVar e)]) (-(inp.f e)),
            -- Σ pi - f ≤ ee
            rowLe (ones ks (piVar e) ++ [(-1, eeVar e)]) (inp.f e) ],
      obj := active.map fun e => (inp.scale e, eeVar e) }

def handleKLAEC (op : String) (j : Json) : Option (Except String Json) :=
  if op != "lp.klaec" then none else some do
    let inp ← parseWalkInput j
    return strArr (klaecLP inp).dump

end FP
