import FP.Model.PathSafetyRows
import FP.Model.Json
import FP.Model.Enc.Parse
import FP.Model.Enc.KLAE
import FP.Model.Enc.KMPE
/-!
# FP.Model.Enc.PathSafety — driver ops `lp.kfd.safety`, `lp.kcover.safety`, `lp.klae.safety`, `lp.kmpe.safety`

Request = the request of `lp.kfd` / `lp.kcover` / `lp.klae` plus

* `"safety"`: the six flags (`safe_paths`, `safe_sequences`, `constraint_sequences`, `zero_edges`, `as_subpath`,
  `largest_antichain`),
* `"X"`: `trusted_edges_for_safety` in the iteration order of the python set — the handler checks that it is a
  permutation of the trusted set the model computes for the class (`kfdTrusted`, `kcoverTrusted`),
* `"external"`: `external_safe_paths` (`null` or a list of edge lists; `kFlowDecomp`'s flow-safe paths, captured);
  for `lp.kfd.safety` together with `"decomp_paths"`, the paths of the greedy decomposition the scan ran over
  (captured): the handler refuses the request unless `kfdExternalOK` holds — nothing is ignored and every captured
  list is reported by the modelled scan `flowSafePaths` (the hypothesis of `kfd_safety_options_preserve_feasibility`).

Answer: the LP dump; a python exception of the safety code is answered as the single item `raises\t<what>`.
-/
namespace FP
open Lean FP.Safety

def parsePathSafetyOpts (j : Json) : Except String PathSafetyOpts := do
  let o ← j.getObjVal? "safety"
  let b := fun k => (jBool o k).toOption.getD false
  return { safePaths := b "safe_paths", safeSequences := b "safe_sequences",
           constraintSequences := b "constraint_sequences", zeroEdges := b "zero_edges",
           asSubpath := b "as_subpath", largestAntichain := b "largest_antichain" }

def sameMembersE (a b : List Edge) : Bool :=
  a.length == b.length && a.all b.contains && b.all a.contains

def pathSafetyFragOf (s : STGraph) (c : PathCfg) (trusted : List Edge) (j : Json) :
    Except String (Res PathSafetyFrag) := do
  let o ← parsePathSafetyOpts j
  let X ← jList asEdge j "X"
  if !sameMembersE X trusted then
    .error s!"trusted_edges_for_safety differs from the model's: {repr trusted}"
  let external ← optField j "external" (asList (asList asEdge))
  return pathSafetyPipeline s c X external o

def answerLP (r : Res PathSafetyFrag) (f : PathSafetyFrag → LP) : Except String Json :=
  match r with
  | .ok fr => .ok (strArr (f fr).dump)
  | .raises w => .ok (strArr ["raises\t" ++ w])
  | .fuel => .error "fuel exhausted"

def handlePathSafety (op : String) (j : Json) : Option (Except String Json) :=
  match op with
  | "lp.kfd.safety" => some do
    let inp ← parseFlowInput j
    let external ← optField j "external" (asList (asList asEdge))
    let dpaths := (jList (asList (·.getStr?)) j "decomp_paths").toOption.getD []
    if !kfdExternalOK inp external dpaths then
      .error "external_safe_paths: edges are ignored, or a list is not reported by flowSafePaths"
    answerLP (← pathSafetyFragOf inp.st inp.cfg (kfdTrusted inp) j) (kfdLPS inp)
  | "lp.kcover.safety" => some do
    let inp ← parseFlowInput j
    answerLP (← pathSafetyFragOf inp.st inp.cfg (kcoverTrusted inp) j) (kcoverLPS inp)
  | "lp.klae.safety" => some do
    let inp ← parseErrInput j
    let X ← jList asEdge j "X"
    answerLP (← pathSafetyFragOf inp.st inp.fi.cfg X j) (klaeLPS inp)
  | "lp.kmpe.safety" => some do
    let inp ← parseMpeInput j
    let X ← jList asEdge j "X"
    answerLP (← pathSafetyFragOf inp.ei.st inp.ei.fi.cfg X j) (kmpeLPS inp)
  | _ => none

end FP
