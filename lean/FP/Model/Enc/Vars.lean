import FP.Model.Basic
import FP.Model.Graph
/-!
# Variable names shared by several encoders (HiGHS column names `ee(u,v)`, `weights<i>`, `slack<i>`, `gamma(u,v,i)`)
-/
namespace FP

def eeVar (e : Edge) : Var := .uv "ee" e.1 e.2
def weightsVar (i : Nat) : Var := .ix "weights" i
def slackVar (i : Nat) : Var := .ix "slack" i
def gammaVar (e : Edge) (i : Nat) : Var := .uvi "gamma" e.1 e.2 i

end FP
