import FP.Model.Enc.Parse
import FP.Model.Enc.Vars
/-!
# FP.Model.Enc.KLAE — `kLeastAbsErrors`

`_encode_leastabserrors_decomposition`, `_encode_leastabserrors_decomposition_with_given_weights`
and `_encode_objective` of `flowpaths/kleastabserrors.py`, together with the constructor logic that
reaches the LP (error scaling, `w_max`, forced options of the given-weights variant).

`ErrInput` is the common input of the two error models (`kLeastAbsErrors`, `kMinPathError`):
a `FlowInput` plus the `error_scaling` dictionary.
-/
namespace FP
open Lean


structure ErrInput where
  fi : FlowInput
  /-- `error_scaling`, in dictionary order (keys are unique) -/
  scaling : List (Edge × Rat) := []
  deriving Repr, Inhabited

namespace ErrInput

def st (inp : ErrInput) : STGraph := inp.fi.st
def k (inp : ErrInput) : Nat := inp.fi.cfg.k

/-- `self.edge_error_scaling.get((u, v), 1)` -/
def scale (inp : ErrInput) (e : Edge) : Rat := lookupD inp.scaling e 1

/-- `self.edges_to_ignore`: source/sink edges, the user's list, and every edge of scale factor 0 -/
def ignored (inp : ErrInput) (e : Edge) : Bool :=
  inp.fi.ignored e || (inp.scaling.any fun p => p.1 == e && p.2 == 0)

/-- `self.edge_indexes_basic` (also the edges visited by the encoding loops) -/
def basicEdges (inp : ErrInput) : List Edge := inp.st.g.edges.filter fun e => !inp.ignored e

/-- `weight_type(x)` for a non-negative number: `int(x)` truncates, `float(x)` is the identity -/
def cast (inp : ErrInput) (x : Rat) : Rat := if inp.fi.weightInt then (x.floor : Rat) else x

/-- `self.w_max = k * weight_type(max flow over the non-ignored edges)`, then the maximum with the
given weights (`max(self.solution_weights_superset or [0])`).
`get_max_flow_value_and_check_non_negative_flow` returns `-inf` if every edge is ignored; with
`weight_type = float` the result is then `max(-inf, 0) = 0`, which `listMax [] = 0` reproduces
(with `int` the constructor raises `OverflowError`). -/
def wmax (inp : ErrInput) (given : Option (List Rat)) : Rat :=
  let base : Rat := (inp.k : Rat) * inp.cast (listMax (inp.basicEdges.map inp.fi.f))
  match given with
  | none => max base 0
  | some ws => max base (if ws.isEmpty then 0 else listMax ws)

end ErrInput

/-- `_encode_objective`: `Σ ee(u,v) · error_scaling.get((u,v), 1)` over `edge_indexes_basic` -/
def klaeObj (inp : ErrInput) : Terms := inp.basicEdges.map fun e => (inp.scale e, eeVar e)

def eeCols (inp : ErrInput) (wm : Rat) : List Col :=
  inp.basicEdges.map fun e => { v := eeVar e, lb := 0, ub := some wm, isInt := inp.fi.weightInt }

/-- `_encode_leastabserrors_decomposition` followed by `_encode_objective` -/
def klaeLP (inp : ErrInput) : LP :=
  let s := inp.st
  let k := inp.k
  let wm := inp.wmax none
  let isInt := inp.fi.weightInt
  (encodePaths s inp.fi.cfg).append
    { cols := ((List.range k).flatMap fun i => s.g.edges.map fun e =>
          { v := piVar e i, lb := 0, ub := some wm, isInt := isInt })
        ++ ((List.range k).map fun i => { v := weightsVar i, lb := 0, ub := some wm, isInt := isInt })
        ++ eeCols inp wm,
      rows := coupleBin inp.basicEdges k piVar weightsVar wm
        ++ inp.basicEdges.flatMap fun e =>
          let sumPi := ones (List.range k) (piVar e)
          [ -- f − Σ pi ≤ ee
            rowLe (negTerms sumPi ++ [(-1, eeVar e)]) (-(inp.fi.f e)),
            -- Σ pi − f ≤ ee
            rowLe (sumPi ++ [(-1, eeVar e)]) (inp.fi.f e) ],
      obj := klaeObj inp }

/-- `_encode_leastabserrors_decomposition_with_given_weights` followed by `_encode_objective`;
`cfg.k = len(weights)`, `cfg.allowEmpty = true` (set by the constructor) -/
def klaeGivenLP (inp : ErrInput) (weights : List Rat) (originalK : Nat) : LP :=
  let s := inp.st
  let k := inp.k
  let wm := inp.wmax (some weights)
  let srcTerms : Terms := (List.range k).flatMap fun i =>
    ones (s.g.succ s.source) (fun v => edgeVar (s.source, v) i)
  (encodePaths s inp.fi.cfg).append
    { cols := eeCols inp wm,
      rows := (inp.basicEdges.flatMap fun e =>
          let sumW : Terms := (List.range k).map fun i => (weights.getD i 0, edgeVar e i)
          [ rowLe (negTerms sumW ++ [(-1, eeVar e)]) (-(inp.fi.f e)),
            rowLe (sumW ++ [(-1, eeVar e)]) (inp.fi.f e) ])
        ++ [rowLe srcTerms originalK],
      obj := klaeObj inp }

/-! ## JSON -/

def parseErrInput (j : Json) : Except String ErrInput := do
  return { fi := ← parseFlowInput j,
           scaling := (jList asEdgeRat j "scaling").toOption.getD [] }

/-- the constructor's treatment of `solution_weights_superset`: `k = len(weights)` and
`allow_empty_paths = True` -/
def ErrInput.forGiven (inp : ErrInput) (ws : List Rat) : ErrInput :=
  { inp with fi := { inp.fi with cfg := { inp.fi.cfg with k := ws.length, allowEmpty := true } } }

def handleKLAE (op : String) (j : Json) : Option (Except String Json) :=
  if op ≠ "lp.klae" then none else some do
    let inp ← parseErrInput j
    match ← optField j "given_weights" (asList asRat) with
    | none => return strArr (klaeLP inp).dump
    | some ws =>
      let ok ← jNat j "original_k"
      return strArr (klaeGivenLP (inp.forGiven ws) ws ok).dump

end FP
