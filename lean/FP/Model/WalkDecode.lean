import FP.Model.WalkCore
import FP.Model.Euler
import FP.Model.Round
/-!
# FP.Model.WalkDecode — `get_solution_walks`: residual graph per layer + Eulerian reconstruction
-/
namespace FP

/-- `_build_residual_graph_for_layer`: one adjacency entry per node (in node order), and for every
edge `(u, v)` in `G.edges()` order `multiplicity` copies of `v` appended to `u`'s list -/
def buildResidual (g : Graph) (m : Edge → Nat) : Euler.Adj Node :=
  g.nodes.map fun v => (v, (g.outEdges v).flatMap fun e => List.replicate (m e) e.2)

/-- `range(round(self.edge_vars_sol[edge_key]))`: python's `round` (nearest integer, ties to even),
a negative count gives no iteration -/
def multOf (a : Asg) (i : Nat) (e : Edge) : Nat := pyRoundCount (a (edgeVar e i))

/-- one layer of `get_solution_walks` -/
def decodeWalkLayer (s : STGraph) (a : Asg) (i : Nat) : List Node :=
  Euler.reconstruct (buildResidual s.g (multOf a i)) s.source s.sink

def decodeWalks (s : STGraph) (a : Asg) (k : Nat) : List (List Node) :=
  (List.range k).map (decodeWalkLayer s a)

end FP
