import FP.Model.NodeExpand
import FP.Model.Enc.KCover
import FP.Model.Enc.KLAE
import FP.Model.Enc.KMPE
/-!
# FP.Model.NodeExpandModes — the node branches of `kPathCover`, `kLeastAbsErrors`, `kMinPathError`

The three constructors share the shape of `kFlowDecomp.__init__` (`FP.Model.NodeExpand`): build a
`NodeExpandedDiGraph`, translate subpath constraints, additional starts / ends, the ignored nodes
(`list(set(G_internal.edges_to_ignore + [get_expanded_edge(v) …]))`) and, for the two error models, the keys of
`error_scaling`; everything after that is the edge-level constructor on `G_internal`.

Differences between the classes that reach the LP:

* `kLeastAbsErrors`, `kMinPathError`: `NodeExpandedDiGraph(G, node_flow_attr=flow_attr, node_length_attr=length_attr)`
  — the copy `(u.1, v.0)` of an edge that lacks the length attribute gets length `0` (`expandLengths`);
* `kPathCover(cover_type="node")`: `NodeExpandedDiGraph(G_with_flow_attr, node_flow_attr=<fresh dummy>,
  node_length_attr=length_attr)`: every node carries the dummy attribute (no node is ignored for lacking it); the
  length attribute is read as in the other classes (`expandLengths`) since fix 65014a7. Before that fix the class
  did not pass `node_length_attr`: the attribute was only *copied* (`add_edge(…, **G.edges[pred, node])`) and the copy
  of an edge lacking it read as the default `G[u][v].get(length_attr, 1) = 1` (`coverLengths`, kept for the
  regression theorem `FP.Props.C11.kcover_node_mode_length_regression`);
* `kMinPathError` passes `encode_edge_position=True`.
-/
namespace FP
namespace NX

/-- the additional parameters the three node branches translate -/
structure NodeModeInput where
  nf : NodeFlowInput
  starts : List Node := []
  ends : List Node := []
  /-- `error_scaling`, keyed by node, in dictionary order (not used by `kPathCover`) -/
  scaling : List (Node × Rat) := []
  deriving Repr, Inhabited

/-- `{G_internal.get_expanded_edge(node): error_scaling[node] for node in error_scaling}` -/
def expandScaling (g : Graph) (l : List (Node × Rat)) : Except String (List (Edge × Rat)) :=
  l.mapM fun p => (expandedNode g p.1).map fun x => (x, p.2)

/-- what a node branch hands to the edge-level rest of its constructor; `ng` is the node-weighted graph the
`NodeExpandedDiGraph` is built from, `lengths` the length attribute as the edge-level constructor reads it off
`G_internal`, `pos` = `encode_edge_position` -/
def nodeTranslateGen (inp : NodeModeInput) (ng : NodeGraph) (lengths : Option (List (Edge × Rat)))
    (pos : Bool) : Except String ErrInput :=
  if ng.g.nodes.isEmpty then .error "nonodes" else
  match expandConstraints ng.g inp.nf.constraints with
  | .error e => .error e
  | .ok cons =>
    match expandStarts ng.g inp.starts with
    | .error e => .error e
    | .ok xs =>
      match expandEnds ng.g inp.ends with
      | .error e => .error e
      | .ok xe =>
        match inp.nf.ignoreNodes.mapM (expandedNode ng.g) with
        | .error e => .error e
        | .ok ign =>
          match expandScaling ng.g inp.scaling with
          | .error e => .error e
          | .ok sc =>
            -- `_check_valid_subpath_constraints` of the edge-level constructor
            if cons.any (·.isEmpty) then .error "emptysubpath" else
            .ok { fi := { base := expandGraph ng.g,
                          flow := expandFlow ng,
                          ignore := (edgesToIgnore ng ++ ign).eraseDups,
                          starts := xs, ends := xe,
                          weightInt := inp.nf.weightInt,
                          cfg := { k := inp.nf.k, allowEmpty := inp.nf.allowEmpty, constraints := cons,
                                   coverage := inp.nf.coverage, coverageLength := inp.nf.coverageLength,
                                   lengths := lengths, encodePosition := pos } },
                  scaling := sc }

/-! ## `kPathCover(cover_type="node")` -/

/-- `G_with_flow_attr`: every node carries the dummy attribute, no original edge does -/
def coverNG (ng : NodeGraph) : NodeGraph :=
  { g := ng.g, nodeFlow := ng.g.nodes.map fun v => (v, 0), edgeFlow := [], nodeLen := ng.nodeLen,
    edgeLen := ng.edgeLen }

/-- **former reading (before fix 65014a7)** of the length attribute, on an expansion built *without*
`node_length_attr`: copied from nodes and edges that carry it; an edge copy without it reads as the default `1`.
No longer used by the model of the class. -/
def coverLengths (ng : NodeGraph) : Option (List (Edge × Rat)) :=
  ng.nodeLen.map fun nl =>
    nl.map (fun p => (nodeEdge p.1, p.2)) ++ ng.g.edges.map (fun e => (edgeEdge e, lookupD ng.edgeLen e 1))

def kcoverNodeInternal (inp : NodeModeInput) : Except String FlowInput :=
  match nodeTranslateGen inp (coverNG inp.nf.ng) (expandLengths inp.nf.ng) false with
  | .error e => .error e
  | .ok ei => if ei.fi.cfg.k = 0 then .error "k" else .ok ei.fi

/-- LP of `kPathCover(G, cover_type="node", …)` -/
def kcoverNodeLP (inp : NodeModeInput) : Except String LP := (kcoverNodeInternal inp).map kcoverLP

/-! ## `kLeastAbsErrors(flow_attr_origin="node")`, `kMinPathError(flow_attr_origin="node")` -/

/-- checks of the edge-level rest of the two error constructors: every scaling factor in `[0, 1]`, `k` a positive
integer, some edge left to explain ("All edges are ignored") -/
def errEdgeChecks (scaling : List (Node × Rat)) (ei : ErrInput) : Except String ErrInput :=
  if scaling.any (fun p => p.2 < 0 || 1 < p.2) then .error "scaling" else
  if ei.fi.cfg.k = 0 then .error "k" else
  if ei.basicEdges.isEmpty then .error "allignored" else .ok ei

def klaeNodeInternal (inp : NodeModeInput) : Except String ErrInput :=
  match nodeTranslateGen inp inp.nf.ng (expandLengths inp.nf.ng) false with
  | .error e => .error e
  | .ok ei => errEdgeChecks inp.scaling ei

/-- LP of `kLeastAbsErrors(G, flow_attr_origin="node", …)` -/
def klaeNodeLP (inp : NodeModeInput) : Except String LP := (klaeNodeInternal inp).map klaeLP

structure NodeMpeInput where
  nm : NodeModeInput
  ranges : List (Rat × Rat) := []
  factors : List Rat := []
  deriving Repr, Inhabited

def kmpeNodeInternal (inp : NodeMpeInput) : Except String MpeInput :=
  match nodeTranslateGen inp.nm inp.nm.nf.ng (expandLengths inp.nm.nf.ng) true with
  | .error e => .error e
  | .ok ei =>
    match errEdgeChecks inp.nm.scaling ei with
    | .error e => .error e
    | .ok ei =>
      if inp.ranges.length ≠ inp.factors.length then .error "ranges" else
      if !inp.factors.isEmpty && !inp.nm.nf.weightInt then .error "factorsfloat" else
      .ok { ei := ei, ranges := inp.ranges, factors := inp.factors }

/-- LP of `kMinPathError(G, flow_attr_origin="node", …)` -/
def kmpeNodeLP (inp : NodeMpeInput) : Except String LP := (kmpeNodeInternal inp).map kmpeLP

/-! ## the explicit expansion of the property text -/

/-- edge-level input on the expansion: additional starts `v.0`, ends `v.1`, error scaling on the node copies -/
def expandModeInput (inp : NodeModeInput) (pos : Bool) : ErrInput :=
  let fi := expandInput inp.nf
  { fi := { fi with starts := inp.starts.map n0, ends := inp.ends.map n1,
                    cfg := { fi.cfg with encodePosition := pos } },
    scaling := inp.scaling.map fun p => (nodeEdge p.1, p.2) }

/-- for the cover problem nothing carries a value: every node is to be covered unless the caller ignores it -/
def expandCoverInput (inp : NodeModeInput) : FlowInput :=
  (expandModeInput { inp with nf := { inp.nf with ng := coverNG inp.nf.ng } } false).fi

def expandMpeInput (inp : NodeMpeInput) : MpeInput :=
  { ei := expandModeInput inp.nm true, ranges := inp.ranges, factors := inp.factors }

end NX
end FP
