import FP.Model.Reach
import FP.Spec.Walk
/-!
# FP.Model.Bottleneck — `graphutils.max_bottleneck_path` and `stDAG.decompose_using_max_bottleneck`

The graph `g` is `temp_G` (the augmented graph minus the synthetic source and sink, i.e. the user's
DAG), its edges in `edges()` order, which is also the insertion order of the predecessor
dictionaries (`temp_G.add_edges_from(self.edges(data=True))`), so `g.pred v` is `G.predecessors(v)`
in iteration order. `topo` is `list(nx.topological_sort(G))` — an oracle parameter (`FP.IsTopo`).

`B[v]` is `none` for `float("inf")` (nodes without in-edges) and `some q` otherwise; the running
`float("-inf")` of the inner loop is the `none` of the accumulator of `bestPred`.
-/
namespace FP
open FP.Spec

/-- python `min(B[u], f)` with `B[u] = inf` encoded as `none` -/
def bmin (b : Option Rat) (f : Rat) : Rat :=
  match b with
  | none => f
  | some q => if f < q then f else q

/-- `a > b` on values where `none` is `+inf` -/
def bgt : Option Rat → Option Rat → Bool
  | none, none => false
  | none, some _ => true
  | some _, none => false
  | some a, some b => a > b

structure BState where
  /-- `B` -/
  B : Node → Option Rat
  /-- `maxInNeighbor` -/
  arg : Node → Node
  /-- `maxBottleneckSink` -/
  best : Option Node

/-- the inner loop `for u in G.predecessors(v)`: running maximum (`none` = `-inf`) and its first
maximiser -/
def bestPred (B : Node → Option Rat) (f : Edge → Rat) (v : Node) (preds : List Node) (init : Option Rat × Node) :
    Option Rat × Node :=
  preds.foldl (fun acc u =>
    let ub := bmin (B u) (f (u, v))
    match acc.1 with
    | none => (some ub, u)
    | some q => if ub > q then (some ub, u) else acc) init

/-- `if maxBottleneckSink is None or B[v] > B[maxBottleneckSink]: maxBottleneckSink = v` -/
def newBest (B : Node → Option Rat) (best : Option Node) (v : Node) : Option Node :=
  match best with
  | none => some v
  | some m => if bgt (B v) (B m) then some v else some m

/-- body of `for v in nx.topological_sort(G)` -/
def bstep (g : Graph) (f : Edge → Rat) (st : BState) (v : Node) : BState :=
  if (g.pred v).isEmpty then { st with B := upd st.B v none }
  else
    let r := bestPred st.B f v (g.pred v) (none, st.arg v)
    let B' := upd st.B v r.1
    { B := B', arg := upd st.arg v r.2,
      best := if (g.succ v).isEmpty then newBest B' st.best v else st.best }

def bInit : BState := { B := fun _ => none, arg := fun v => v, best := none }

def bTable (g : Graph) (f : Edge → Rat) (topo : List Node) : BState := topo.foldl (bstep g f) bInit

/-- `while G.in_degree(reverse_path[-1]) > 0: reverse_path.append(maxInNeighbor[...])`, building the
reversed list directly; `none` when the fuel runs out -/
def recover (g : Graph) (arg : Node → Node) : Nat → Node → List Node → Option (List Node)
  | 0, _, _ => none
  | n+1, cur, rest =>
    if (g.pred cur).isEmpty then some (cur :: rest) else recover g arg n (arg cur) (cur :: rest)

inductive BResult where
  /-- `(None, None)` -/
  | none
  | path (value : Rat) (p : List Node)
  /-- model-internal: fuel exhausted / infinite bottleneck; unreachable under the contract -/
  | stuck
  deriving Repr, DecidableEq

/-- `max_bottleneck_path(G, flow_attr)`;
`if maxBottleneckSink is None or B[maxBottleneckSink] == 0: return None, None` — `maxBottleneckSink`
stays `None` when no node has an in-edge and no out-edge (e.g. in a graph without edges) -/
def maxBottleneckPath (g : Graph) (f : Edge → Rat) (topo : List Node) : BResult :=
  let st := bTable g f topo
  match st.best with
  | none => .none
  | some m =>
    match st.B m with
    | none => .stuck
    | some q =>
      if q = 0 then .none
      else match recover g st.arg (topo.length + 1) m [] with
        | some p => .path q p
        | none => .stuck

/-- `temp_G[path[i]][path[i+1]][flow_attr] -= bottleneck` for every `i` -/
def subtractPath (f : Edge → Rat) (p : List Node) (b : Rat) : Edge → Rat :=
  fun e => f e - b * ((walkEdges p).count e : Nat)

structure Peeled where
  paths : List (List Node × Rat)
  residual : Edge → Rat

inductive PeelResult where
  | done (r : Peeled)
  /-- model-internal (fuel) -/
  | stuck

/-- the `while True` loop of `decompose_using_max_bottleneck` -/
def peelLoop (g : Graph) (topo : List Node) : Nat → (Edge → Rat) → List (List Node × Rat) → PeelResult
  | 0, _, _ => .stuck
  | n+1, f, acc =>
    match maxBottleneckPath g f topo with
    | .none => .done { paths := acc, residual := f }
    | .path b p => peelLoop g topo n (subtractPath f p b) (acc ++ [(p, b)])
    | .stuck => .stuck

/-- `decompose_using_max_bottleneck(flow_attr)` -/
def decompose (g : Graph) (f : Edge → Rat) (topo : List Node) : PeelResult :=
  peelLoop g topo (g.edges.length + 1) f []

end FP
