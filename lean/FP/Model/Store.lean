import FP.Model.Tables
/-!
# FP.Model.Store — object-store semantics of "construct / solve a model with caller objects" (C18)

The caller owns a heap of mutable objects (`Ref ↦ value`: graphs, option dictionaries, constraint and
ignore lists, the default objects of `= {}` / `= []` parameters). A *construction* hands some of them to
a class as arguments. What the class may do to them is determined by its row of the generated table:
a reference can only change if it is bound to a parameter for which the table lists a write through
the caller's object. *What* is written is left arbitrary (`eff`), so every statement below holds for
any behaviour of the code that stays within the may-write set read off the source.
-/
namespace FP.Store
open FP.Tables

abbrev Ref := Nat

/-- the caller-visible heap -/
abbrev Store (V : Type) := Ref → V

/-- one use of a model class: construction, `solve()`, getters — with the caller's objects as arguments -/
structure Construction where
  cls : String
  args : List (String × Ref)
deriving Repr

def lookup (tbl : List ClassAlias) (cls : String) : Option ClassAlias :=
  tbl.find? (fun ca => ca.cls = cls)

/-- the parameters through which the class writes into the caller's object -/
def writtenParams (ca : ClassAlias) : List String :=
  (ca.writes.filter (·.viaCaller)).map (·.param)

/-- a class whose row lists no write through a caller's object -/
def cleanRow (ca : ClassAlias) : Bool := ca.writes.all (fun w => !w.viaCaller)

def isClean (tbl : List ClassAlias) (cls : String) : Bool :=
  match lookup tbl cls with
  | some ca => cleanRow ca
  | none => false

/-- may the construction change the object behind `r`? A class without a row may change whatever it
is handed. -/
def mayWrite (tbl : List ClassAlias) (c : Construction) (r : Ref) : Bool :=
  match lookup tbl c.cls with
  | none => c.args.any (fun a => a.2 = r)
  | some ca => c.args.any (fun a => a.2 = r && (writtenParams ca).contains a.1)

/-- effect of one construction on the heap -/
def step {V} (tbl : List ClassAlias) (eff : Construction → Ref → V → V) (s : Store V) (c : Construction) :
    Store V :=
  fun r => if mayWrite tbl c r then eff c r (s r) else s r

/-- effect of a history of constructions -/
def run {V} (tbl : List ClassAlias) (eff : Construction → Ref → V → V) (s : Store V) :
    List Construction → Store V
  | [] => s
  | c :: h => run tbl eff (step tbl eff s c) h

theorem writtenParams_clean (ca : ClassAlias) (h : cleanRow ca = true) : writtenParams ca = [] := by
  unfold writtenParams
  have : ca.writes.filter (·.viaCaller) = [] := by
    apply List.filter_eq_nil_iff.2
    intro w hw
    have := (List.all_eq_true.1 h) w hw
    simpa using this
  simp [this]

theorem mayWrite_clean (tbl : List ClassAlias) (c : Construction) (r : Ref)
    (h : isClean tbl c.cls = true) : mayWrite tbl c r = false := by
  unfold isClean at h
  unfold mayWrite
  cases hl : lookup tbl c.cls with
  | none => simp [hl] at h
  | some ca =>
    simp only [hl] at h
    simp [writtenParams_clean ca h]

/-- **frame**: a reference that no construction of the history may write keeps its value -/
theorem run_frame {V} (tbl : List ClassAlias) (eff : Construction → Ref → V → V) (r : Ref) :
    ∀ (h : List Construction) (s : Store V), (∀ c ∈ h, mayWrite tbl c r = false) → run tbl eff s h r = s r := by
  intro h
  induction h with
  | nil => intro s _; rfl
  | cons c h ih =>
    intro s hc
    have h1 : mayWrite tbl c r = false := hc c (by simp)
    have h2 : ∀ c' ∈ h, mayWrite tbl c' r = false := fun c' hc' => hc c' (by simp [hc'])
    show run tbl eff (step tbl eff s c) h r = s r
    rw [ih (step tbl eff s c) h2]
    simp [step, h1]

/-- **store_unchanged**: after any history of constructions of classes whose rows contain no
caller-visible write, every caller-visible reference has the value it had before -/
theorem store_unchanged {V} (tbl : List ClassAlias) (eff : Construction → Ref → V → V)
    (h : List Construction) (s : Store V) (hclean : ∀ c ∈ h, isClean tbl c.cls = true) :
    ∀ r, run tbl eff s h r = s r :=
  fun r => run_frame tbl eff r h s (fun c hc => mayWrite_clean tbl c r (hclean c hc))

/-- a model's result as a pure function of the class and the *values* of its arguments -/
def resultOf {V R} (f : String → List (String × V) → R) (s : Store V) (c : Construction) : R :=
  f c.cls (c.args.map (fun a => (a.1, s a.2)))

/-- **history independence**: if no earlier construction may write an argument of `c`, then `c` computes
the same result after the history as on the untouched heap -/
theorem result_history_independent {V R} (tbl : List ClassAlias) (eff : Construction → Ref → V → V)
    (f : String → List (String × V) → R) (h : List Construction) (s : Store V) (c : Construction)
    (hsep : ∀ a ∈ c.args, ∀ c' ∈ h, mayWrite tbl c' a.2 = false) :
    resultOf f (run tbl eff s h) c = resultOf f s c := by
  unfold resultOf
  congr 1
  apply List.map_congr_left
  intro a ha
  rw [run_frame tbl eff a.2 h s (hsep a ha)]

/-- corollary for clean histories -/
theorem result_history_independent_clean {V R} (tbl : List ClassAlias) (eff : Construction → Ref → V → V)
    (f : String → List (String × V) → R) (h : List Construction) (s : Store V) (c : Construction)
    (hclean : ∀ c' ∈ h, isClean tbl c'.cls = true) :
    resultOf f (run tbl eff s h) c = resultOf f s c :=
  result_history_independent tbl eff f h s c
    (fun a _ c' hc' => mayWrite_clean tbl c' a.2 (hclean c' hc'))

/-! ## getters -/

/-- `self._solution` -/
structure GetterState (α : Type) where
  cache : Option α

/-- `get_solution()` as the table describes it: return the cached value if there is one; otherwise
compute, store it if the class caches, and return it — unless the computing path falls off the end of
the function, which returns `None`. -/
def getSolution {α} (fact : GetterFact) (compute : α) (st : GetterState α) : Option α × GetterState α :=
  match st.cache with
  | some x => (some x, st)
  | none =>
    (if fact.fallsOff then none else some compute,
     if fact.caches then ⟨some compute⟩ else st)

/-- a getter whose computing path ends in `return` answers the same on the second call -/
theorem getter_idempotent {α} (fact : GetterFact) (compute : α) (st : GetterState α)
    (h : fact.fallsOff = false) :
    (getSolution fact compute (getSolution fact compute st).2).1 = (getSolution fact compute st).1 := by
  unfold getSolution
  cases hc : st.cache with
  | some x => simp [hc]
  | none => cases hcache : fact.caches <;> simp [hc, h]

/-- from the second call on every caching getter is stable -/
theorem getter_stable_after_first {α} (fact : GetterFact) (compute : α) (st : GetterState α)
    (h : fact.caches = true) :
    let s1 := (getSolution fact compute st).2
    let s2 := (getSolution fact compute s1).2
    (getSolution fact compute s2).1 = (getSolution fact compute s1).1 := by
  unfold getSolution
  cases hc : st.cache with
  | some x => simp [hc]
  | none => simp [h]

/-- the defect: a caching getter whose computing path falls off the end returns `None` first and the
data on the second call -/
theorem getter_first_call_none {α} (fact : GetterFact) (compute : α)
    (h1 : fact.fallsOff = true) (h2 : fact.caches = true) :
    (getSolution fact compute ⟨none⟩).1 = none ∧
    (getSolution fact compute (getSolution fact compute ⟨none⟩).2).1 = some compute := by
  simp [getSolution, h1, h2]

end FP.Store
