import FP.Model.Graph
import FP.Model.Wrapper
import FP.Model.PathCore
/-!
# FP.Model.WalkCore — the shared core of the cyclic (walk) models

Mirrors, as it is written, `flowpaths/abstractwalkmodeldigraph.py`:

* `AbstractWalkModelDiGraph.__init__` — the per-edge upper bounds (`edge_upper_bounds`):
  `max_edge_repetition` for every edge, or the entries of `max_edge_repetition_dict`, and then
  every edge that is not inside an SCC of the *augmented* graph is capped to 1 and the bound of
  every SCC edge is floored (`math.floor`, since fix fcfd0b0: the bounds are those of integer
  columns) (`capBounds`).
* `_encode_walks` — variables `edge`, `distance`, `selected_edge`; rows 17a, 17b, 21, 22a, 22b,
  18a, 19c (`encodeWalks`).
* `_encode_subset_constraints` — variables `r`, `used_edge`; rows min1 (two per edge and layer),
  7a on the *set* of edges of each constraint, 7b (`subsetBlock`).

and from `flowpaths/stdigraph.py`:

* `stDiGraph.is_scc_edge` (`isSccEdge`),
* `stDiGraph.compute_edge_max_reachable_value` (`edgeMaxReachable`).

Only the configuration with `optimize_with_safe_sequences = False`,
`optimize_with_safety_as_subset_constraints = False` and
`optimize_with_max_safe_antichain_as_subset_constraints = False` is modelled: then
`safe_lists = []`, `walks_to_fix = []` and `_apply_safety_optimizations` adds nothing.

Also here: `numBitsRat` / `intProdQ`, the variant of `intProd` for a rational upper bound (the walk
models pass `ub = w_max = k * weight_type(max flow)`, which is a float such as `7.5`).
-/
namespace FP

def distVar (v : Node) (i : Nat) : Var := .vi "distance" v i
def selVar (e : Edge) (i : Nat) : Var := .uvi "selected_edge" e.1 e.2 i
def usedVar (e : Edge) (i : Nat) : Var := .uvi "used_edge" e.1 e.2 i

/-! ## `stDiGraph` helpers -/

/-- forward reachability table `v ↦ reachFrom g v` -/
def reachTable (g : Graph) : List (Node × List Node) := g.nodes.map fun v => (v, reachFrom g v)
/-- backward reachability table `v ↦ reaching g v` -/
def reachingTable (g : Graph) : List (Node × List Node) := g.nodes.map fun v => (v, reaching g v)

/-- `mapping[u] == mapping[v]` of `nx.condensation`: `u` and `v` are mutually reachable
(`t` is `reachTable g`) -/
def sameScc (t : List (Node × List Node)) (u v : Node) : Bool :=
  (lookupD t u []).contains v && (lookupD t v []).contains u

/-- `stDiGraph.is_scc_edge(u, v)`: the two endpoints lie in the same strongly connected component
of the graph the method is called on (the augmented graph). A self-loop is an SCC edge. -/
def isSccEdge (g : Graph) (e : Edge) : Bool := sameScc (reachTable g) e.1 e.2

/-- `stDiGraph.compute_edge_max_reachable_value(flow_attr)`; `w e` is
`float(data.get(flow_attr, 0.0))`. For the edge `(u, v)`:
`max(w(u,v), max_desc[scc v], max_anc[scc u])` where `max_desc[c]` is the maximum (at least `0.0`)
of `w` over the edges whose *tail* lies in an SCC reachable from `c` (`c` included) and
`max_anc[c]` the maximum (at least `0.0`) over the edges whose *head* lies in an SCC reaching `c`
(`c` included). Every edge of the graph enters, ignored or not. -/
def edgeMaxReachable (g : Graph) (w : Edge → Rat) : List (Edge × Rat) :=
  let fwd := reachTable g
  let bwd := reachingTable g
  g.edges.map fun e =>
    let desc := g.edges.filter fun e' => (lookupD fwd e.2 []).contains e'.1
    let anc := g.edges.filter fun e' => (lookupD bwd e.1 []).contains e'.2
    let maxDesc := (desc.map w).foldl max 0
    let maxAnc := (anc.map w).foldl max 0
    (e, max (w e) (max maxDesc maxAnc))

/-- the loop at the end of the bounds part of `AbstractWalkModelDiGraph.__init__`:
`edge_upper_bounds[e] = 1` for every edge that is not an SCC edge, and
`edge_upper_bounds[e] = math.floor(edge_upper_bounds[e])` for every SCC edge (floored since fix
fcfd0b0: before it the raw value — e.g. a float flow value such as `0.5` — became the fractional
upper bound of an integer column). Every bound is therefore an integer (`capBounds_int`). -/
def capBounds (g : Graph) (raw : Edge → Rat) : List (Edge × Rat) :=
  let t := reachTable g
  g.edges.map fun e => (e, if sameScc t e.1 e.2 then (((raw e).floor : Int) : Rat) else 1)

/-! ## `add_integer_continuous_product_constraint` with a rational upper bound -/

/-- `ceil(log2(ub + 1))` for a rational `ub ≥ 0`: the least `n` with `ub + 1 ≤ 2^n`
(python evaluates `log2` in floating point; for the dyadic values of the generators the two agree) -/
def numBitsRatAux : Nat → Rat → Nat → Nat
  | 0, _, n => n
  | fuel+1, ub, n => if ub + 1 ≤ (2 : Rat) ^ n then n else numBitsRatAux fuel ub (n+1)

def numBitsRat (ub : Rat) : Nat := numBitsRatAux ((ub + 1).ceil.toNat + 1) ub 0

/-! ## The walk core -/

structure WalkCfg where
  k : Nat
  allowEmpty : Bool := false
  constraints : List (List Edge) := []
  coverage : Rat := 1
  deriving Repr, Inhabited

/-- `_encode_walks`; `ub` is `self.edge_upper_bounds` (after capping) -/
def encodeWalks (s : STGraph) (c : WalkCfg) (ub : Edge → Rat) : LP :=
  let ks := List.range c.k
  let g := s.g
  let nN : Rat := g.nodes.length
  let bigM : Rat := nN + 1
  let inner := g.nodes.filter fun v => v ≠ s.source ∧ v ≠ s.sink
  let nonSource := g.nodes.filter fun v => v ≠ s.source
  { cols :=
      (ks.flatMap fun i => g.edges.map fun e =>
        { v := edgeVar e i, lb := 0, ub := some (ub e), isInt := true })
      ++ (ks.flatMap fun i => g.nodes.map fun v =>
        { v := distVar v i, lb := 0, ub := some nN, isInt := true })
      ++ (ks.flatMap fun i => g.edges.map fun e =>
        { v := selVar e i, lb := 0, ub := some 1, isInt := true }),
    rows :=
      -- 17a
      (ks.map fun i =>
        let ts := ones (g.succ s.source) (fun v => edgeVar (s.source, v) i)
        if c.allowEmpty then rowLe ts 1 else rowEq ts 1)
      -- 17b
      ++ (ks.flatMap fun i => inner.map fun v =>
        rowEq (ones (g.pred v) (fun u => edgeVar (u, v) i)
               ++ negTerms (ones (g.succ v) (fun w => edgeVar (v, w) i))) 0)
      -- 21
      ++ (ks.flatMap fun i => g.edges.map fun e =>
        rowGe [(1, edgeVar e i), (-1, selVar e i)] 0)
      -- 22a, 22b
      ++ (ks.flatMap fun i => nonSource.flatMap fun v =>
        let mv : Rat := ((g.pred v).map fun u => ub (u, v)).sum
        [ rowLe (ones (g.pred v) (fun u => edgeVar (u, v) i)
                 ++ (g.pred v).map (fun u => (-mv, selVar (u, v) i))) 0,
          rowLe (ones (g.pred v) (fun u => selVar (u, v) i)) 1 ])
      -- 18a
      ++ (ks.map fun i => rowEq [(1, distVar s.source i)] 1)
      -- 19c
      ++ (ks.flatMap fun i => g.edges.map fun e =>
        rowGe [(1, distVar e.2 i), (-1, distVar e.1 i), (-bigM, selVar e i)] (1 - bigM)) }

/-- `_encode_subset_constraints` -/
def subsetBlock (s : STGraph) (c : WalkCfg) (ub : Edge → Rat) : LP :=
  if c.constraints.isEmpty then {} else
  let ks := List.range c.k
  let js := List.range c.constraints.length
  { cols :=
      (ks.flatMap fun i => js.map fun j => { v := rVar i j, lb := 0, ub := some 1, isInt := true })
      ++ (ks.flatMap fun i => s.g.edges.map fun e =>
        { v := usedVar e i, lb := 0, ub := some 1, isInt := true }),
    rows :=
      (ks.flatMap fun i => s.g.edges.flatMap fun e =>
        [ rowLe [(1, usedVar e i), (-1, edgeVar e i)] 0,
          rowLe [(1, edgeVar e i), (-(ub e), usedVar e i)] 0 ])
      ++ (ks.flatMap fun i => (js.zip c.constraints).map fun (j, con) =>
        let asSet := con.eraseDups
        rowGe (ones asSet (fun e => usedVar e i)
               ++ [(-((asSet.length : Rat) * c.coverage), rVar i j)]) 0)
      ++ js.map fun j => rowGe (ones ks (fun i => rVar i j)) 1 }

/-- `create_solver_and_walks` with the three safety optimisations switched off -/
def walkCore (s : STGraph) (c : WalkCfg) (ub : Edge → Rat) : LP :=
  (encodeWalks s c ub).append (subsetBlock s c ub)

end FP
