/-!
# FP.Model.Search — the minimum-search loops as state machines

Models of the `solve()` loops of `MinFlowDecomp`, `MinPathCover`, `MinPathCoverCycles`
(`stopSearch`), `MinFlowDecompCycles` (`stopSearchTimed`), `MinGenSet` (`stopSearch` after the
fix, `skipSearch` for the pinned behaviour) and `NumPathsOptimization` (`npo`).

The solver is a *script*: `σ k` is the status the k-model ends with. The wall clock is a script
as well (`late k` = "the elapsed-time check after solving k fires").
-/
namespace FP.Search

inductive Status where
  | optimal      -- kOptimal
  | infeasible   -- kInfeasible
  | other        -- kTimeLimit, kInterrupt, kUnknown, custom timeout, anything else
  deriving DecidableEq, Repr, Inhabited

/-- what a search returns: the trace of `(k, status)` pairs it tried, and `some k` iff solved -/
structure Outcome where
  tried : List (Nat × Status)
  solved : Option Nat
  deriving Repr, DecidableEq, Inhabited

/-- `for k in range(lo, hi): solve k; if solved: return True; elif status != infeasible: return False`
(`n` = number of iterations left, `k` = current value) -/
def stopLoop (σ : Nat → Status) : Nat → Nat → List (Nat × Status) → Outcome
  | 0, _, acc => ⟨acc, none⟩
  | n+1, k, acc =>
    match σ k with
    | .optimal => ⟨acc ++ [(k, .optimal)], some k⟩
    | .infeasible => stopLoop σ n (k+1) (acc ++ [(k, .infeasible)])
    | .other => ⟨acc ++ [(k, .other)], none⟩

def stopSearch (σ : Nat → Status) (lo hi : Nat) : Outcome := stopLoop σ (hi - lo) lo []

/-- `MinFlowDecompCycles.solve`: after every k-model the elapsed time is compared with the limit
*before* the model's status is looked at -/
def timedLoop (σ : Nat → Status) (late : Nat → Bool) : Nat → Nat → List (Nat × Status) → Outcome
  | 0, _, acc => ⟨acc, none⟩
  | n+1, k, acc =>
    if late k then ⟨acc ++ [(k, σ k)], none⟩ else
    match σ k with
    | .optimal => ⟨acc ++ [(k, .optimal)], some k⟩
    | .infeasible => timedLoop σ late n (k+1) (acc ++ [(k, .infeasible)])
    | .other => ⟨acc ++ [(k, .other)], none⟩

def stopSearchTimed (σ : Nat → Status) (late : Nat → Bool) (lo hi : Nat) : Outcome :=
  timedLoop σ late (hi - lo) lo []

/-- the pinned `MinGenSet.solve`: any non-optimal status is skipped -/
def skipLoop (σ : Nat → Status) : Nat → Nat → List (Nat × Status) → Outcome
  | 0, _, acc => ⟨acc, none⟩
  | n+1, k, acc =>
    match σ k with
    | .optimal => ⟨acc ++ [(k, .optimal)], some k⟩
    | s => skipLoop σ n (k+1) (acc ++ [(k, s)])

def skipSearch (σ : Nat → Status) (lo hi : Nat) : Outcome := skipLoop σ (hi - lo) lo []

/-- `MinFlowDecomp.solve` / `MinFlowDecompCycles.solve` with `optimize_with_guessed_weights`: before the
loop a given-weights model may have produced a decomposition with `g` routes (`given = some g`); at
iteration `k = g` that ready-made model is taken instead of solving the k-model -/
def givenLoop (σ : Nat → Status) (given : Option Nat) : Nat → Nat → List (Nat × Status) → Outcome
  | 0, _, acc => ⟨acc, none⟩
  | n+1, k, acc =>
    if given = some k then ⟨acc, some k⟩ else
    match σ k with
    | .optimal => ⟨acc ++ [(k, .optimal)], some k⟩
    | .infeasible => givenLoop σ given n (k+1) (acc ++ [(k, .infeasible)])
    | .other => ⟨acc ++ [(k, .other)], none⟩

def givenSearch (σ : Nat → Status) (given : Option Nat) (lo hi : Nat) : Outcome :=
  givenLoop σ given (hi - lo) lo []

/-! ### NumPathsOptimization -/

structure NpoCfg where
  first : Bool            -- truthiness of stop_on_first_feasible
  deltaAbs : Option Rat   -- `none` when the option is None or 0 (python truthiness)
  deltaRel : Option Rat
  deriving Repr, Inhabited

inductive NpoStatus where
  | solved | timeout | unbounded | infeasible | zeroDivision
  deriving DecidableEq, Repr, Inhabited

structure NpoOutcome where
  tried : List (Nat × Status)
  status : NpoStatus
  model : Option Nat      -- the `k` of the variable `model` when the loop ended
  deriving Repr, DecidableEq, Inhabited

def absRat (x : Rat) : Rat := if x < 0 then -x else x

/-- one evaluation of the stopping rules on a solved model with objective `cur`;
returns (stop?, new previous value), `none` = ZeroDivisionError -/
def npoRules (cfg : NpoCfg) (prev : Option Rat) (cur : Rat) : Option (Bool × Option Rat) :=
  if cfg.first then some (true, prev) else
  -- abs rule
  let (stopA, prevA) : Bool × Option Rat :=
    match cfg.deltaAbs with
    | none => (false, prev)
    | some d =>
      match prev with
      | none => (false, some cur)
      | some p => (decide (absRat (p - cur) ≤ d), prev)
  if stopA then some (true, prevA) else
  match cfg.deltaRel with
  | none => some (false, prevA)
  | some d =>
    match prevA with
    | none => some (false, some cur)
    | some p => if p = 0 then none else some (decide (absRat (p - cur) / p ≤ d), prevA)

def npoLoop (cfg : NpoCfg) (σ : Nat → Status) (obj : Nat → Rat) (late : Nat → Bool) :
    Nat → Nat → Option Rat → Bool → List (Nat × Status) → NpoOutcome
  | 0, k, _, found, acc =>
      ⟨acc, if found then .unbounded else .infeasible, if acc.isEmpty then none else some (k-1)⟩
  | n+1, k, prev, found, acc =>
    let acc' := acc ++ [(k, σ k)]
    if σ k = .optimal then
      match npoRules cfg prev (obj k) with
      | none => ⟨acc', .zeroDivision, some k⟩
      | some (true, _) => ⟨acc', .solved, some k⟩
      | some (false, prev') =>
        if late k then ⟨acc', .timeout, some k⟩ else npoLoop cfg σ obj late n (k+1) prev' true acc'
    else
      if late k then ⟨acc', .timeout, some k⟩ else npoLoop cfg σ obj late n (k+1) prev found acc'

def npo (cfg : NpoCfg) (σ : Nat → Status) (obj : Nat → Rat) (late : Nat → Bool) (lo hi : Nat) :
    NpoOutcome := npoLoop cfg σ obj late (hi + 1 - lo) lo none false []

/-- `NumPathsOptimization.solve()` returns True iff the status is `solved` -/
def NpoOutcome.answer (o : NpoOutcome) : Option Nat :=
  if o.status = .solved then o.model else none

end FP.Search
