import FP.Model.Enc.Parse
/-!
# FP.Model.Width — `stDAG.get_width`, `stDiGraph.get_width` as functions of the min-cost-flow result

Both methods end in `stDAG.compute_max_edge_antichain(get_antichain=False, weight_function=W)`, which
builds one min-flow instance (demand `l(u,v)` per edge, cost 1 on the edges leaving the source) and
returns the cost reported by `graphutils.min_cost_flow` unchanged. What is modelled here is
*which instance* is built:

* `dagWeightFunction` / `antichainDemands` — `stDAG.get_width(edges_to_ignore)`:
  `W = {e: 1 for e in edges if e not in ignore}`; demands `W.get(e, 0)`, **except** that an empty `W`
  is falsy and the defaults `int(u != source and v != sink)` are used (python truthiness, mirrored).
* `condWeightFunction` — `stDiGraph.get_width(edges_to_ignore)` given the SCC labelling
  (`nx.condensation(self).graph["mapping"]`, an oracle parameter): the expanded condensation (every
  SCC with at least one member edge — self-loops count — becomes an edge `c → c_expanded`), the
  multiplicity of parallel inter-SCC edges, decremented once per *distinct* edge of `edges_to_ignore`
  (the loop runs over `set(edges_to_ignore)` since fix afcb013: duplicates count once), member edges
  discarded, weight 0 for an
  SCC all of whose member edges are ignored and 1 otherwise — also for trivial SCCs, whose key
  `(c, c_expanded)` is not an edge of the expanded graph (a phantom key, harmless, mirrored).
-/
namespace FP
open Lean

/-- `stDAG.get_width` / `stDiGraph.get_width`: the value returned is the min-flow cost, unchanged -/
def widthOfCost (minFlowCost : Nat) : Nat := minFlowCost

/-- python `d[k] = v` on an insertion-ordered dict -/
def dictSet {α β} [BEq α] (d : List (α × β)) (k : α) (v : β) : List (α × β) :=
  if d.any (fun p => p.1 == k) then d.map (fun p => if p.1 == k then (k, v) else p) else d ++ [(k, v)]

def dictOfWrites {α β} [BEq α] (ws : List (α × β)) : List (α × β) :=
  ws.foldl (fun d p => dictSet d p.1 p.2) []

/-- `weight_function = {e: 1 for e in self.edges() if e not in edges_to_ignore_set}` -/
def dagWeightFunction (g : Graph) (ignore : List Edge) : List (Edge × Int) :=
  (g.edges.filter fun e => !ignore.contains e).map fun e => (e, (1 : Int))

/-- the demands `compute_max_edge_antichain` puts on the edges: `int(u != source and v != sink)`,
overridden by `weight_function.get((u, v), 0)` when `weight_function is not None` (an empty dictionary
means weight 0 everywhere, since fix 820f3e3) -/
def antichainDemands (s : STGraph) (wf : Option (List (Edge × Int))) : List (Edge × Int) :=
  s.g.edges.map fun e =>
    let dflt : Int := if e.1 ≠ s.source ∧ e.2 ≠ s.sink then 1 else 0
    match wf with
    | none => (e, dflt)
    | some w => (e, lookupD w e 0)

/-- demands of `stDAG.get_width(edges_to_ignore)` -/
def dagWidthDemands (s : STGraph) (ignore : List Edge) : List (Edge × Int) :=
  antichainDemands s (some (dagWeightFunction s.g ignore))

/-! ## `stDiGraph.get_width` -/

structure CondInput where
  /-- the augmented graph (`self`) -/
  g : Graph
  /-- `self._condensation.graph["mapping"]` -/
  scc : List (Node × Nat)
  /-- `edges_to_ignore` as passed; duplicates count once since fix afcb013 -/
  ignore : List Edge
  deriving Repr, Inhabited

namespace CondInput

def comp (c : CondInput) (v : Node) : Nat := lookupD c.scc v 0
def condNodes (c : CondInput) : List Nat := (c.g.nodes.map c.comp).eraseDups
/-- `member_edges[str(k)]` -/
def members (c : CondInput) (k : Nat) : List Edge :=
  c.g.edges.filter fun e => c.comp e.1 == k && c.comp e.2 == k
def interEdges (c : CondInput) : List Edge := c.g.edges.filter fun e => c.comp e.1 != c.comp e.2
def condEdges (c : CondInput) : List (Nat × Nat) :=
  (c.interEdges.map fun e => (c.comp e.1, c.comp e.2)).eraseDups
def cname (k : Nat) : String := toString k
def cexp (k : Nat) : String := toString k ++ "_expanded"
def isTrivial (c : CondInput) (k : Nat) : Bool := (c.members k).isEmpty
def tailName (c : CondInput) (k : Nat) : String := if c.isTrivial k then cname k else cexp k

/-- `condensation_expanded` before it is handed to `stDAG(...)` -/
def expanded (c : CondInput) : Graph :=
  { nodes := c.condNodes.flatMap fun k => if c.isTrivial k then [cname k] else [cname k, cexp k],
    edges := ((c.condNodes.filter fun k => !c.isTrivial k).map fun k => (cname k, cexp k))
      ++ c.condEdges.map fun ab => (c.tailName ab.1, cname ab.2) }

/-- `self._condensation_expanded` -/
def expandedST (c : CondInput) : STGraph := augment c.expanded [] []

/-- `edge_multiplicity[(a, b)]` after the loop over `set(edges_to_ignore)` (every distinct ignored
edge decrements once, fix afcb013) -/
def multiplicity (c : CondInput) (ab : Nat × Nat) : Int :=
  ((c.interEdges.filter fun e => (c.comp e.1, c.comp e.2) == ab).length : Int)
    - ((c.ignore.eraseDups.filter fun e => c.comp e.1 != c.comp e.2 && (c.comp e.1, c.comp e.2) == ab).length : Int)

/-- `member_edges[str(k)]` after the discards -/
def membersLeft (c : CondInput) (k : Nat) : List Edge := (c.members k).filter fun e => !c.ignore.contains e

/-- `weight_function_condensation_expanded`; `none` = python raises `ValueError` (`is_scc_edge` on an
edge that is not in the graph) -/
def weightFunction (c : CondInput) : Option (List (Edge × Int)) :=
  if c.ignore.any (fun e => !c.g.edges.contains e) then none else
  some <| dictOfWrites <|
    (c.expandedST.g.edges.map fun e => (e, (0 : Int)))
    ++ (c.condEdges.map fun ab => ((c.tailName ab.1, cname ab.2), c.multiplicity ab))
    ++ (c.condNodes.map fun k =>
        ((cname k, cexp k),
          if (c.membersLeft k).isEmpty && !(c.members k).isEmpty then (0 : Int) else 1))

/-- the demands of the min-flow instance `stDiGraph.get_width` solves -/
def demands (c : CondInput) : Option (List (Edge × Int)) :=
  c.weightFunction.map fun w => antichainDemands c.expandedST (some w)

end CondInput

/-! ## driver ops -/

def edgeIntJson (l : List (Edge × Int)) : Json :=
  Json.arr (l.map fun p => Json.arr #[Json.str p.1.1, Json.str p.1.2, Json.num (JsonNumber.fromInt p.2)]).toArray

def asNodeNat (j : Json) : Except String (Node × Nat) := do
  let a ← j.getArr?
  match a.toList with
  | [v, n] => return (← v.getStr?, ← n.getNat?)
  | _ => .error "node-index pair expected"

def handleWidth (op : String) (j : Json) : Option (Except String Json) :=
  if op == "width.dagdemands" then some do
    -- {"nodes","edges","starts","ends","ignore"}: the graph `stDAG(...)` is built from
    let g ← parseGraph j
    let starts := (jList (·.getStr?) j "starts").toOption.getD []
    let ends := (jList (·.getStr?) j "ends").toOption.getD []
    let ignore := (jList asEdge j "ignore").toOption.getD []
    let s := augment g starts ends
    return Json.mkObj [("weights", edgeIntJson (dagWeightFunction s.g ignore)),
                       ("demands", edgeIntJson (dagWidthDemands s ignore))]
  else if op == "width.demands" then some do
    -- {"nodes","edges": the augmented stDiGraph, "scc": [[v, c], ...], "ignore"}
    let g ← parseGraph j
    let scc ← jList asNodeNat j "scc"
    let ignore := (jList asEdge j "ignore").toOption.getD []
    let c : CondInput := { g := g, scc := scc, ignore := ignore }
    match c.weightFunction, c.demands with
    | some w, some d =>
      return Json.mkObj [("weights", edgeIntJson w), ("demands", edgeIntJson d),
                         ("expanded", graphJson c.expandedST.g)]
    | _, _ => return Json.mkObj [("error", Json.str "ValueError")]
  else none

end FP
