import FP.Spec.Walk
/-!
# FP.Model.SafetyAdj — `find_all_bridges`, `find_path`, `find_idom` on adjacency dicts

Transcription of `flowpaths/utils/safetypathcovers.py: find_all_bridges` and
`flowpaths/utils/safetypathcoverscycles.py: find_path, find_idom`.

* an adjacency dict `node -> list of neighbours` is an association list `Adj V` in dict order;
  `adj[v].pop()` removes the **last** neighbour (`popOut`), `adj[v].remove(x)` the **first** occurrence
  of `x` (`removeOut`), `adj[v].append(x)` appends (`appendOut`);
* `component[v] != 0` is membership in the list `C` of already labelled nodes (the label value `i` itself
  is only ever compared with `0`; the round counter only distinguishes the first round);
* the index `first_node` into the path `p` is represented by the pair
  (`p[first_node-1]`, `p[first_node:]`) — `advance`;
* the FIFO `Queue` is a list (get = head, put = append); its `maxsize = n+1` is never reached because a
  node is put only at the moment it gets its label;
* python exceptions are `Res.raises`, exhausted fuel is `Res.fuel` (a separate outcome: the driver turns
  it into an infrastructure error, no theorem is decided by it).

Scope: well-formed dicts (`wfAdj`: every neighbour, `s` and `t` are keys) as produced by
`{u: list(G.successors(u)) for u in G.nodes()}`; anything else is rejected as `KeyError`.

Fuel: `greedyPath` pops one list entry per step (fuel = number of entries + 1); `bfs` dequeues every
node at most once (fuel = number of keys + 1); the bridge loop advances `first_node` by at least one per
round (fuel = |p| + 1); `dfsNode`/`dfsList` descend one tree edge or one list cell per call
(fuel = keys + entries + 2 along any call chain).
-/
namespace FP.Safety
open FP.Spec
variable {V : Type} [DecidableEq V]

inductive Res (α : Type) where
  | ok (a : α)
  | raises (what : String)
  | fuel
  deriving Repr, DecidableEq

abbrev Adj (V : Type) := List (V × List V)

def keys (g : Adj V) : List V := g.map (·.1)
def out (g : Adj V) (v : V) : List V := (g.lookup v).getD []
def updOut (g : Adj V) (v : V) (f : List V → List V) : Adj V :=
  g.map fun kl => if kl.1 = v then (kl.1, f kl.2) else kl
/-- `adj[v].pop()` -/
def popOut (g : Adj V) (v : V) : Adj V := updOut g v List.dropLast
/-- `adj[v].remove(x)` -/
def removeOut (g : Adj V) (v x : V) : Adj V := updOut g v (·.erase x)
/-- `adj[v].append(x)` -/
def appendOut (g : Adj V) (v x : V) : Adj V := updOut g v (· ++ [x])

def entryCount (g : Adj V) : Nat := (g.map (·.2.length)).sum

/-- every neighbour and both endpoints are keys -/
def wfAdj (g : Adj V) (s t : V) : Bool :=
  (keys g).contains s && (keys g).contains t && g.all fun kl => kl.2.all fun w => (keys g).contains w

/-- `while s_aux != t: x = adj[s_aux].pop(); p.append(x); s_aux = x` -/
def greedyPath (t : V) : Nat → Adj V → V → List V → Res (Adj V × List V)
  | 0, _, _, _ => .fuel
  | n+1, g, cur, p =>
    if cur = t then .ok (g, p) else
    match (out g cur).getLast? with
    | none => .raises "IndexError: pop from empty list"
    | some x => greedyPath t n (popOut g cur) x (p ++ [x])

/-- `for i in range(len(p)-1): adj[p[i+1]].append(p[i])` -/
def addReversed (g : Adj V) (p : List V) : Adj V :=
  (walkEdges p).foldl (fun g e => appendOut g e.2 e.1) g

/-- `for v in adj[u]: if component[v] == 0: q.put(v); component[v] = i` -/
def visitSuccs (succs : List V) (q C : List V) : List V × List V :=
  succs.foldl (fun qc v => if v ∈ qc.2 then qc else (qc.1 ++ [v], qc.2 ++ [v])) (q, C)

/-- `while not q.empty(): u = q.get(); ...` -/
def bfs (g : Adj V) : Nat → List V → List V → Option (List V)
  | _, [], C => some C
  | 0, _ :: _, _ => none
  | n+1, u :: q, C =>
    let r := visitSuccs (out g u) q C
    bfs g n r.1 r.2

/-- `while component[p[first_node]] != 0: first_node += 1`; `none` is python's `IndexError`.
Returns `(p[first_node-1], p[first_node], p[first_node+1:])`. -/
def advance (C : List V) : V → List V → Option (V × V × List V)
  | _, [] => none
  | prev, x :: rest => if x ∈ C then advance C x rest else some (prev, x, rest)

/-- the rounds `i ≥ 2` of the `while component[t] == 0` loop of `find_all_bridges` -/
def bridgesLoop (g : Adj V) (t : V) (bfsFuel : Nat) :
    Nat → V → List V → List V → List (V × V) → Res (List (V × V))
  | 0, _, _, _, _ => .fuel
  | n+1, prev, rest, C, acc =>
    if t ∈ C then .ok acc else
    match advance C prev rest with
    | none => .raises "IndexError: list index out of range"
    | some (y, z, rest') =>
      match bfs g bfsFuel [z] (C ++ [z]) with
      | none => .fuel
      | some C' => bridgesLoop g t bfsFuel n y (z :: rest') C' (acc ++ [(y, z)])

/-- `for i in range(len(p)-1): adj[p[i+1]].pop(); adj[p[i]].append(p[i+1])` -/
def restore (g : Adj V) (p : List V) : Adj V :=
  (walkEdges p).foldl (fun g e => appendOut (popOut g e.2) e.1 e.2) g

/-- the residual graph, the path and the bridges of `find_all_bridges` -/
def bridgesCore (g : Adj V) (s t : V) : Res (List (V × V) × Adj V × List V) :=
  match greedyPath t (entryCount g + 1) g s [s] with
  | .raises w => .raises w
  | .fuel => .fuel
  | .ok (g1, p) =>
    let R := addReversed g1 p
    let bf := (keys g).length + 1
    match bfs R bf [s] [s] with
    | none => .fuel
    | some C0 =>
      match bridgesLoop R t bf (p.length + 1) (p.getLast?.getD s) p C0 [] with
      | .ok bs => .ok (bs, R, p)
      | .raises w => .raises w
      | .fuel => .fuel

/-- `find_all_bridges(adj_dict, s, t)`: the returned list and the adjacency dict as it is left behind -/
def findAllBridges (g : Adj V) (s t : V) : Res (List (V × V) × Adj V) :=
  if !wfAdj g s t then .raises "KeyError" else
  match bridgesCore g s t with
  | .ok (bs, R, p) => .ok (bs, restore R p)
  | .raises w => .raises w
  | .fuel => .fuel

/-! ## `find_path` — recursive DFS; the outer `Option` is fuel, the inner one python's `True`/`False` -/

mutual
/-- `dfs_path(node, path, visited)`: returns the nodes appended to `path` (when `True`) and `visited` -/
def dfsNode (g : Adj V) (t : V) : Nat → V → List V → Option (Option (List V) × List V)
  | 0, _, _ => none
  | n+1, node, vis =>
    if node = t then some (some [], vis) else dfsList g t n (out g node) (vis ++ [node])
/-- the `for neighbor in adj_dict[node]` loop -/
def dfsList (g : Adj V) (t : V) : Nat → List V → List V → Option (Option (List V) × List V)
  | 0, _, _ => none
  | _+1, [], vis => some (none, vis)
  | n+1, x :: xs, vis =>
    if x ∈ vis then dfsList g t n xs vis else
    match dfsNode g t n x vis with
    | none => none
    | some (some p, vis') => some (some (x :: p), vis')
    | some (none, vis') => dfsList g t n xs vis'
end

/-- `find_path(adj_dict, s, t)`; when `t` is not reachable the python function returns `[s]` -/
def findPath (g : Adj V) (s t : V) : Option (List V) :=
  match dfsNode g t ((keys g).length + entryCount g + 2) s [] with
  | none => none
  | some (some p, _) => some (s :: p)
  | some (none, _) => some [s]

/-- remove the path edges, add the reversed ones (interleaved, as in the python loop) -/
def reversePath (g : Adj V) (p : List V) : Adj V :=
  (walkEdges p).foldl (fun g e => appendOut (removeOut g e.1 e.2) e.2 e.1) g

/-- the residual graph, the path and the first bridge of `find_idom` -/
def idomCore (g : Adj V) (s t : V) : Res (Option (V × V) × Adj V × List V) :=
  match findPath g s t with
  | none => .fuel
  | some p =>
    let R := reversePath g p
    match bfs R ((keys g).length + 1) [s] [s] with
    | none => .fuel
    | some C =>
      if t ∈ C then .ok (none, R, p) else
      match advance C (p.getLast?.getD s) p with
      | none => .raises "IndexError: list index out of range"
      | some (y, z, _) => .ok (some (y, z), R, p)

/-- `find_idom(adj_dict, s, t)`: the returned bridge (or `None`) and the adjacency dict as it is left
behind (every edge of the found path has moved to the end of its list) -/
def findIdom (g : Adj V) (s t : V) : Res (Option (V × V) × Adj V) :=
  if !wfAdj g s t then .raises "KeyError" else
  match idomCore g s t with
  | .ok (b, R, p) => .ok (b, restore R p)
  | .raises w => .raises w
  | .fuel => .fuel

end FP.Safety
