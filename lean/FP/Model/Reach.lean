import FP.Model.Graph
/-!
# FP.Model.Reach — reachability queries of `stDiGraph` and the closure tables of `stDAG`, as implemented

* `pullSweep` / `pushSweep` — the two loop shapes the code uses to fill a dictionary along a
  (reverse) topological order:
  `for c in order: for s in nbrs(c): t[c] = comb(t[c], t[s])` (pull) and
  `for c in order: for s in nbrs(c): t[s] = comb(t[c], t[s])` (push).
* `CondOracle` — what `stDiGraph` obtains from networkx: `nx.condensation` (node labelling, component
  ids, condensation edges), `nx.descendants` / `nx.ancestors` on the condensation and
  `nx.topological_sort` of it. These are **oracle parameters**; their contract is
  `FP.CondContract` (Proofs/ReachCond.lean), validated against direct search by the harness on every case.
* `nodesReachableFn`, `nodesReachingFn`, `isSccEdgeFn`, `edgeMaxFn` — the answers as the code computes
  them from the oracle values; `QState` / `qstep` / `qrun` — the same with the two memo dictionaries
  `_nodes_reachable_from_node_cache`, `_nodes_reaching_node_cache` as explicit state.
* `dagReachNodes`, `dagReachEdges`, `dagNodesReaching`, `dagReachEdgesRev` — the four lazily built
  tables of `stDAG`, the topological order being an oracle parameter (`FP.IsTopo`).
Python sets are lists here; answers are compared as sets.
-/
namespace FP

section Tables
variable {κ : Type} {α : Type} [DecidableEq κ]

/-- `t[k] = a` on a plain function (used where the table is a field of a state record) -/
def upd (t : κ → α) (k : κ) (a : α) : κ → α := fun x => if x = k then a else t x

/-- a python dictionary with a total read function. (A record and not a bare function: a
function-valued fold accumulator is compiled lazily — eta-expanded — and re-evaluated on every
read.) -/
structure Tbl (κ α : Type) where
  get : κ → α

/-- `t[k] = a` -/
@[noinline] def Tbl.set (t : Tbl κ α) (k : κ) (a : α) : Tbl κ α := ⟨fun x => if x = k then a else t.get x⟩

/-- out-neighbours of `c` in an edge list (adjacency order) -/
def succOf (es : List (κ × κ)) (c : κ) : List κ := (es.filter (fun e => e.1 = c)).map (·.2)

/-- `for c in order: for s in succ(c): t[c] = comb c s t[c] t[s]` -/
def pullSweep (es : List (κ × κ)) (comb : κ → κ → α → α → α) (order : List κ) (t0 : κ → α) : Tbl κ α :=
  order.foldl (fun t c => (succOf es c).foldl (fun t s => t.set c (comb c s (t.get c) (t.get s))) t) ⟨t0⟩

/-- `for c in order: for s in succ(c): t[s] = comb c s t[c] t[s]` -/
def pushSweep (es : List (κ × κ)) (comb : κ → κ → α → α → α) (order : List κ) (t0 : κ → α) : Tbl κ α :=
  order.foldl (fun t c => (succOf es c).foldl (fun t s => t.set s (comb c s (t.get c) (t.get s))) t) ⟨t0⟩

end Tables

/-- set union on lists (`a |= b`) -/
def lunion {α} [DecidableEq α] (a b : List α) : List α := a ++ b.filter (fun x => !a.contains x)

def swapEdges {κ} (es : List (κ × κ)) : List (κ × κ) := es.map fun e => (e.2, e.1)

/-! ## stDiGraph -/

/-- values obtained from networkx by `stDiGraph._post_build` and the query methods -/
structure CondOracle where
  /-- `C.graph["mapping"]` -/
  lab : Node → Nat
  /-- `C.nodes()` -/
  cnodes : List Nat
  /-- `C.edges()` -/
  cedges : List (Nat × Nat)
  /-- `nx.descendants(C, c)` -/
  desc : Nat → List Nat
  /-- `nx.ancestors(C, c)` -/
  anc : Nat → List Nat
  /-- `list(nx.topological_sort(C))` -/
  topo : List Nat

/-- `_nodes_by_scc[c]` -/
def nodesByScc (g : Graph) (o : CondOracle) (c : Nat) : List Node := g.nodes.filter (fun n => o.lab n = c)

/-- body of `nodes_reachable` after the membership and cache tests -/
def nodesReachableFn (g : Graph) (o : CondOracle) (v : Node) : List Node :=
  (lunion (o.desc (o.lab v)) [o.lab v]).flatMap (nodesByScc g o)

/-- body of `nodes_reaching` after the membership and cache tests -/
def nodesReachingFn (g : Graph) (o : CondOracle) (v : Node) : List Node :=
  (lunion (o.anc (o.lab v)) [o.lab v]).flatMap (nodesByScc g o)

/-- `is_scc_edge` on an edge of the graph -/
def isSccEdgeFn (o : CondOracle) (u v : Node) : Bool := o.lab u = o.lab v

/-- `local_out` / `local_in`: per-component maximum (floor 0) of the weights of the edges whose
tail / head lies in the component -/
def localMax (g : Graph) (o : CondOracle) (wt : Edge → Rat) (tail : Bool) : Tbl Nat Rat :=
  g.edges.foldl (fun t e =>
    let c := o.lab (if tail then e.1 else e.2)
    if wt e > t.get c then t.set c (wt e) else t) ⟨fun _ => 0⟩

def maxDesc (g : Graph) (o : CondOracle) (wt : Edge → Rat) : Tbl Nat Rat :=
  pullSweep o.cedges (fun _ _ a b => if b > a then b else a) o.topo.reverse (localMax g o wt true).get

def maxAnc (g : Graph) (o : CondOracle) (wt : Edge → Rat) : Tbl Nat Rat :=
  pushSweep o.cedges (fun _ _ a b => if a > b then a else b) o.topo (localMax g o wt false).get

/-- python `max(a, b, c)` -/
def max3 (a b c : Rat) : Rat := max (max a b) c

/-- `compute_edge_max_reachable_value`: value of one edge -/
def edgeMaxFn (g : Graph) (o : CondOracle) (wt : Edge → Rat) (e : Edge) : Rat :=
  max3 (wt e) ((maxDesc g o wt).get (o.lab e.2)) ((maxAnc g o wt).get (o.lab e.1))

/-- the whole result dictionary (in `edges()` order); the two tables are built once -/
def edgeMaxAll (g : Graph) (o : CondOracle) (wt : Edge → Rat) : List (Edge × Rat) :=
  let md := maxDesc g o wt
  let ma := maxAnc g o wt
  g.edges.map fun e => (e, max3 (wt e) (md.get (o.lab e.2)) (ma.get (o.lab e.1)))

/-! ### the memoised machine -/

inductive Query where
  | reachable (v : Node)
  | reaching (v : Node)
  | sccEdge (u v : Node)
  /-- `compute_edge_max_reachable_value(attr)`; the attribute values travel with the query
  (missing attribute = 0, as `data.get(flow_attr, 0.0)`) -/
  | edgeMax (w : List (Edge × Rat))
  deriving Repr

inductive Answer where
  | nodes (l : List Node)
  | bool (b : Bool)
  | vals (l : List (Edge × Rat))
  /-- `ValueError` (node / edge not in the graph) -/
  | valueError
  deriving Repr, DecidableEq

structure QState where
  /-- `_nodes_reachable_from_node_cache` -/
  fwd : List (Node × List Node) := []
  /-- `_nodes_reaching_node_cache` -/
  bwd : List (Node × List Node) := []
  deriving Repr

def wtOf (w : List (Edge × Rat)) : Edge → Rat := fun e => lookupD w e 0

/-- the answer of a query computed from scratch (no cache) -/
def pureAnswer (g : Graph) (o : CondOracle) : Query → Answer
  | .reachable v => if g.nodes.contains v then .nodes (nodesReachableFn g o v) else .valueError
  | .reaching v => if g.nodes.contains v then .nodes (nodesReachingFn g o v) else .valueError
  | .sccEdge u v => if g.edges.contains (u, v) then .bool (isSccEdgeFn o u v) else .valueError
  | .edgeMax w => .vals (edgeMaxAll g o (wtOf w))

/-- one call on the object: consult / fill the memo dictionaries exactly as the methods do -/
def qstep (g : Graph) (o : CondOracle) (s : QState) : Query → QState × Answer
  | .reachable v =>
    if g.nodes.contains v then
      match s.fwd.lookup v with
      | some r => (s, .nodes r)
      | none => let r := nodesReachableFn g o v; ({ s with fwd := (v, r) :: s.fwd }, .nodes r)
    else (s, .valueError)
  | .reaching v =>
    if g.nodes.contains v then
      match s.bwd.lookup v with
      | some r => (s, .nodes r)
      | none => let r := nodesReachingFn g o v; ({ s with bwd := (v, r) :: s.bwd }, .nodes r)
    else (s, .valueError)
  | q => (s, pureAnswer g o q)

/-- a whole query sequence; returns the final state and the answers in order -/
def qrun (g : Graph) (o : CondOracle) : QState → List Query → QState × List Answer
  | s, [] => (s, [])
  | s, q :: qs =>
    let (s1, a) := qstep g o s q
    let (s2, as) := qrun g o s1 qs
    (s2, a :: as)

/-! ## stDAG closure tables -/

/-- `reachable_nodes_from` -/
def dagReachNodes (g : Graph) (topo : List Node) : Tbl Node (List Node) :=
  pullSweep g.edges (fun _ _ a b => lunion a b) topo.reverse (fun v => [v])

/-- `reachable_edges_from` -/
def dagReachEdges (g : Graph) (topo : List Node) : Tbl Node (List Edge) :=
  pullSweep g.edges (fun c s a b => lunion (lunion a b) [(c, s)]) topo.reverse (fun _ => [])

/-- `nodes_reaching` -/
def dagNodesReaching (g : Graph) (topo : List Node) : Tbl Node (List Node) :=
  pullSweep (swapEdges g.edges) (fun _ _ a b => lunion a b) topo (fun v => [v])

/-- `reachable_edges_rev_from` -/
def dagReachEdgesRev (g : Graph) (topo : List Node) : Tbl Node (List Edge) :=
  pullSweep (swapEdges g.edges) (fun c s a b => lunion (lunion a b) [(s, c)]) topo (fun _ => [])

/-! ## executable contract checks (used by the driver before it evaluates a model function, so
that a dictionary lookup the python code would fail on is reported, never defaulted) -/

/-- `order` lists exactly the nodes, once each, no edge points backwards or is a loop -/
def checkTopo {κ} [DecidableEq κ] (nodes : List κ) (es : List (κ × κ)) (order : List κ) : Bool :=
  decide order.Nodup && nodes.all (order.contains ·) && order.all (nodes.contains ·)
  && es.all (fun e => e.1 ≠ e.2 && order.contains e.1 && order.contains e.2)
  && decide (order.Pairwise (fun a b => ¬ es.contains (b, a)))

end FP
