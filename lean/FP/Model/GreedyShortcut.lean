import FP.Model.Json
import FP.Model.Enc.Parse
import FP.Model.Bottleneck
import FP.Model.C17Json
/-!
# FP.Model.GreedyShortcut — `kFlowDecomp._get_solution_with_greedy` and its guard in `__init__`

```
if self.optimize_with_greedy and len(edges_to_ignore_internal) == 0 and satisfies_flow_conservation:
    if self._get_solution_with_greedy(): ...
```
`_get_solution_with_greedy`: `(paths, weights) = self.G.decompose_using_max_bottleneck(flow_attr)`
(model: `FP.decompose`, on the internal graph in `edges()` order); no path (all-zero flow, fix 7138f39)
→ `False`; some subpath constraint with `max_occurrence(subpath, paths, edge_lengths) <
constraint_length * coverage_fraction` → `False`; `len(paths) <= k` → pad with `paths[0]` / weight 0 up to
`k`, store the solution, `set_solved()` (the solver is never called) → `True`; otherwise `False`.

A constraint arrives as its edges paired with the length each one counts (1 when
`subpath_constraints_coverage_length is None`), `coverage` is the coverage fraction in use.
-/
namespace FP
open Lean FP.Spec

structure GSIn where
  g : Graph
  f : Edge → Rat
  topo : List Node
  k : Nat
  /-- `optimize_with_greedy` -/
  optGreedy : Bool := true
  /-- `len(edges_to_ignore_internal) == 0` -/
  ignoreEmpty : Bool := true
  /-- `satisfies_flow_conservation` as computed by the constructor -/
  conserving : Bool := true
  constraints : List (List (Edge × Rat)) := []
  coverage : Rat := 1

/-- inner loop of `max_occurrence`: `occurence += edge_lengths.get(edge, 1)` for the edges of `seq` on the path -/
def occurrence (con : List (Edge × Rat)) (p : List Node) : Rat :=
  (con.map fun el => if (walkEdges p).contains el.1 then el.2 else 0).sum

/-- `graphutils.max_occurrence(seq, paths, edge_lengths)` -/
def maxOccurrence (con : List (Edge × Rat)) (paths : List (List Node)) : Rat :=
  paths.foldl (fun m p => if occurrence con p > m then occurrence con p else m) 0

/-- `constraint_length` -/
def conLength (con : List (Edge × Rat)) : Rat := (con.map (·.2)).sum

/-- some constraint is not covered enough by the greedy paths -/
def gsConstraintFails (x : GSIn) (paths : List (List Node)) : Bool :=
  x.constraints.any fun con => decide (maxOccurrence con paths < conLength con * x.coverage)

/-- the guard of the constructor -/
def gsGuard (x : GSIn) : Bool := x.optGreedy && x.ignoreEmpty && x.conserving

/-- `some (paths, weights)` = the shortcut fires and this is `self._solution`; `none` = the solver runs.
(`decompose = .stuck` is model-internal fuel exhaustion, unreachable under the contract of C17
`greedy_exact`; the driver op reports it separately.) -/
def greedyShortcut (x : GSIn) : Option (List (List Node) × List Rat) :=
  if !gsGuard x then none else
  match decompose x.g x.f x.topo with
  | .stuck => none
  | .done r =>
    match r.paths with
    | [] => none
    | pw0 :: _ =>
      if gsConstraintFails x (r.paths.map (·.1)) then none
      else if r.paths.length ≤ x.k then
        some (r.paths.map (·.1) ++ List.replicate (x.k - r.paths.length) pw0.1,
              r.paths.map (·.2) ++ List.replicate (x.k - r.paths.length) 0)
      else none

def asConEntry (j : Json) : Except String (Edge × Rat) := asEdgeRat j

/-- op `greedy.shortcut`: `{nodes, edges, topo, flow: [[u,v,q]], k, opt_greedy, ignore_empty, conserving,
constraints: [[[u,v,len]…]…], coverage}` → `{fired, paths?, weights?}` or `{stuck: true}` -/
def handleGreedyShortcut (op : String) (j : Json) : Option (Except String Json) :=
  match op with
  | "greedy.shortcut" => some do
    let g ← parseGraph j
    let topo ← jList (·.getStr?) j "topo"
    let fl ← jList asEdgeRat j "flow"
    if !checkTopo g.nodes g.edges topo then throw "topological-order contract violated"
    for e in g.edges do
      if (fl.lookup e).isNone then throw "KeyError: flow attribute"
    let cons ← jList (fun c => asList asConEntry c) j "constraints"
    let x : GSIn := { g := g, f := wtOf fl, topo := topo, k := ← jNat j "k",
                      optGreedy := ← jBool j "opt_greedy", ignoreEmpty := ← jBool j "ignore_empty",
                      conserving := ← jBool j "conserving", constraints := cons, coverage := ← jRat j "coverage" }
    if gsGuard x then
      match decompose x.g x.f x.topo with
      | .stuck => return Json.mkObj [("stuck", Json.bool true)]
      | .done _ => pure ()
    match greedyShortcut x with
    | some (ps, ws) => return Json.mkObj [("fired", Json.bool true),
                                          ("paths", Json.arr (ps.map fun p => strArr p).toArray),
                                          ("weights", strArr (ws.map ratStr))]
    | none => return Json.mkObj [("fired", Json.bool false)]
  | _ => none

end FP
