import Lean.Data.Json
import FP.Model.Basic
/-!
# FP.Model.Json — (de)serialisation helpers for the line-protocol driver
Rationals travel as strings `"p/q"` (or `"p"`), `"inf"` / `"-inf"` for unbounded.
-/
namespace FP
open Lean

def parseInt? (s : String) : Option Int := s.toInt?

def parseRat? (s : String) : Option Rat :=
  match s.splitOn "/" with
  | [p] => (parseInt? p).map (fun n => (n : Rat))
  | [p, q] => do
    let n ← parseInt? p
    let d ← q.toNat?
    if d = 0 then none else some (mkRat n d)
  | _ => none

def ratStr (q : Rat) : String := toString q

def optRatStr (neg : Bool) : Option Rat → String
  | some q => ratStr q
  | none => if neg then "-inf" else "inf"

def jStr (j : Json) (k : String) : Except String String := (j.getObjVal? k) >>= (·.getStr?)
def jNat (j : Json) (k : String) : Except String Nat := (j.getObjVal? k) >>= (·.getNat?)
def jInt (j : Json) (k : String) : Except String Int := (j.getObjVal? k) >>= (·.getInt?)
def jBool (j : Json) (k : String) : Except String Bool := (j.getObjVal? k) >>= (·.getBool?)
def jArr (j : Json) (k : String) : Except String (Array Json) := (j.getObjVal? k) >>= (·.getArr?)

def asRat (j : Json) : Except String Rat :=
  match j with
  | .str s => match parseRat? s with
    | some q => .ok q
    | none => .error s!"bad rational {s}"
  | .num n => .ok (mkRat n.mantissa (10 ^ n.exponent))
  | _ => .error "rational expected"

def jRat (j : Json) (k : String) : Except String Rat := (j.getObjVal? k) >>= asRat

def asList {α} (f : Json → Except String α) (j : Json) : Except String (List α) := do
  let a ← j.getArr?
  a.toList.mapM f

def asStrPair (j : Json) : Except String (String × String) := do
  let a ← j.getArr?
  match a.toList with
  | [x, y] => return (← x.getStr?, ← y.getStr?)
  | _ => .error "pair expected"

def jList {α} (f : Json → Except String α) (j : Json) (k : String) : Except String (List α) :=
  (j.getObjVal? k) >>= asList f

def termsStr (ts : Terms) : List String := ts.map fun t => ratStr t.1 ++ "*" ++ t.2.name

/-- one LP as a list of text items (canonicalised on the python side) -/
def LP.dump (lp : LP) : List String :=
  lp.cols.map (fun c => "col\t" ++ c.v.name ++ "\t" ++ ratStr c.lb ++ "\t" ++ optRatStr false c.ub
      ++ "\t" ++ (if c.isInt then "int" else "cont"))
  ++ lp.rows.map (fun r => "row\t" ++ optRatStr true r.lo ++ "\t" ++ optRatStr false r.hi ++ "\t"
      ++ "\t".intercalate (termsStr r.terms))
  ++ ["obj\t" ++ (if lp.maximize then "max" else "min") ++ "\t" ++ ratStr lp.objConst ++ "\t"
      ++ "\t".intercalate (termsStr lp.obj)]

def strArr (l : List String) : Json := Json.arr (l.map Json.str).toArray

end FP
