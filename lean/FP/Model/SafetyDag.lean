import FP.Model.Graph
import FP.Model.SafetyDom
/-!
# FP.Model.SafetyDag — `safe_paths`, `safe_sequences` (DAG) and the flow-safe two-pointer scan

Transcription of `flowpaths/utils/safetypathcovers.py: safe_paths, safe_sequences` and of
`flowpaths/utils/safetyflowdecomp.py: compute_inexact_flow_decomp_safe_paths` as called by
`compute_flow_decomp_safe_paths` (`lowerbound_attr = upperbound_attr = flow_attr`).

* the thread pool only distributes the work; every worker owns a private copy of the two adjacency dicts
  and `find_all_bridges` restores them, so the result is that of the sequential loop (`no_duplicates=False`
  keeps the input order; with `True` the result is the *set* of the same tuples);
* an item to cover is an edge (python `tuple`) or a non-empty list of edges; both are `List Edge` here
  (`[e]` for a tuple): `u = item[0][0]`, `v = item[-1][-1]`;
* `G.in_degree(u) == 1` / `next(G.predecessors(u))` read the augmented graph;
* the `deque` `safe_path` of the scan always equals `path[L..R]`, it is represented by `(L, R)`.

Fuel: the univocal extensions visit every node at most once in a DAG (`|V| + 1`); in the scan `L` grows
in every outer round and `R` in every inner round (`|path| + 1` each).
-/
namespace FP.Safety
open FP

/-- `while G.in_degree(u) == 1: x = next(G.predecessors(u)); path.append((x, u)); u = x` -/
def extendLeft (g : Graph) : Nat → Node → List Edge → Option (List Edge)
  | 0, _, _ => none
  | n+1, u, acc =>
    match g.pred u with
    | [x] => extendLeft g n x (acc ++ [(x, u)])
    | _ => some acc

/-- `while G.out_degree(v) == 1: x = next(G.successors(v)); path.append((v, x)); v = x` -/
def extendRight (g : Graph) : Nat → Node → List Edge → Option (List Edge)
  | 0, _, _ => none
  | n+1, v, acc =>
    match g.succ v with
    | [x] => extendRight g n x (acc ++ [(v, x)])
    | _ => some acc

/-- `process_edge(e)` of `safe_paths` -/
def safePathOf (g : Graph) (e : Edge) : Res (List Edge) :=
  match extendLeft g (g.nodes.length + 1) e.1 [] with
  | none => .fuel
  | some l =>
    match extendRight g (g.nodes.length + 1) e.2 (l.reverse ++ [e]) with
    | none => .fuel
    | some p => .ok p

def mapRes {α β} (f : α → Res β) : List α → Res (List β)
  | [] => .ok []
  | a :: as => do
    let b ← f a
    let bs ← mapRes f as
    return b :: bs

/-- `safe_paths(G, edges_to_cover, no_duplicates=False)` -/
def safePaths (g : Graph) (es : List Edge) : Res (List (List Edge)) := mapRes (safePathOf g) es

/-- `process_edge_locked(item, _)` of `safe_sequences` -/
def safeSequenceOf (g : Graph) (source sink : Node) (item : List Edge) : Res (List Edge) :=
  match item.head?, item.getLast? with
  | some a, some b => do
    let (left, _) ← findAllBridges (predAdj g) a.1 source
    let (right, _) ← findAllBridges (succAdj g) b.2 sink
    return (left.map fun yz => (yz.2, yz.1)).reverse ++ item ++ right
  | _, _ => .raises "ValueError: Empty edge list provided"

/-- `safe_sequences(G, items, no_duplicates=False)` -/
def safeSequences (g : Graph) (source sink : Node) (items : List (List Edge)) : Res (List (List Edge)) :=
  mapRes (safeSequenceOf g source sink) items

/-! ## `compute_inexact_flow_decomp_safe_paths` with `lb = ub = flow` -/

structure ScanState where
  L : Nat
  R : Nat
  excess : Rat
  fresh : Bool              -- `path_not_suffix_of_previous`
  acc : List (List Node)
  deriving Repr

section scan
variable (f : Edge → Rat) (outflow : Node → Rat) (path : List Node)

def nodeAt (i : Nat) : Node := path.getD i ""
def flowAt (i : Nat) : Rat := f (nodeAt path i, nodeAt path (i+1))

/-- the inner `while R+1 < len(path)` loop (maximal extension to the right) -/
def extendScan : Nat → ScanState → Option ScanState
  | 0, _ => none
  | n+1, st =>
    if st.R + 1 < path.length then
      let rightdiff := flowAt f path st.R - outflow (nodeAt path st.R)
      if st.excess + rightdiff ≤ 0 then some st
      else extendScan n { st with excess := st.excess + rightdiff, R := st.R + 1, fresh := true }
    else some st

/-- the outer `while R+1 < len(path)` loop -/
def scanLoop : Nat → ScanState → Option ScanState
  | 0, _ => none
  | n+1, st =>
    if st.R + 1 < path.length then
      let st1 := if st.L = st.R then
          { st with R := st.R + 1, excess := flowAt f path st.L, fresh := true } else st
      match extendScan f outflow path (path.length + 1) st1 with
      | none => none
      | some st2 =>
        let acc := if st2.fresh then st2.acc ++ [(path.drop st2.L).take (st2.R - st2.L + 1)] else st2.acc
        let e1 := st2.excess - flowAt f path st2.L
        let e2 := if st2.L + 1 < st2.R then
            e1 + (outflow (nodeAt path (st2.L + 1)) - flowAt f path (st2.L + 1)) + flowAt f path (st2.L + 1)
          else e1
        scanLoop n { L := st2.L + 1, R := st2.R, excess := e2, fresh := false, acc := acc }
    else some st

end scan

/-- the safe paths (node lists) reported for one decomposition path -/
def scanPath (f : Edge → Rat) (outflow : Node → Rat) (path : List Node) : Option (List (List Node)) :=
  if path.length ≤ 1 then some [] else
  (scanLoop f outflow path (path.length + 1) { L := 0, R := 0, excess := 0, fresh := true, acc := [] }).map (·.acc)

/-- `compute_inexact_flow_decomp_safe_paths(G, flow, flow, decomp_paths, no_duplicates=False)`:
`G` is the caller's graph (not augmented), `flow` its edge attribute. -/
def flowSafePaths (g : Graph) (flow : List (Edge × Rat)) (paths : List (List Node)) : Res (List (List Edge)) :=
  let bad := paths.any fun p => (FP.Spec.walkEdges p).any fun e =>
    match flow.lookup e with
    | none => true
    | some q => q ≤ 0                       -- `< 0` and `== 0` both raise ValueError
  if bad then .raises "ValueError" else
  let f := fun e => lookupD flow e 0
  let outflow := fun v => ((g.outEdges v).map f).sum
  match paths.mapM (scanPath f outflow) with
  | none => .fuel
  | some ls => .ok (ls.flatten.map fun sp => FP.Spec.walkEdges sp)

end FP.Safety
