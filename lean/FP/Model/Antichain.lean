import FP.Model.Reach
/-!
# FP.Model.Antichain — the antichain extraction of `stDAG.compute_max_edge_antichain`

Inputs: the augmented DAG `g` with its synthetic `source` / `sink`, the demands `demand[(u,v)]`
and — **oracle parameters** — the pair `(minFlowCost, minFlow)` returned by
`graphutils.min_cost_flow` (network simplex of networkx). The two stack based DFS phases are
transcribed literally: python's `stack.pop()` takes the last element, so the stack is a list whose
head is the top and a batch of `append`s is prepended reversed. `visited` is the dictionary
`{node: 0|1|2}`.
-/
namespace FP

structure ACInput where
  g : Graph
  source : Node
  sink : Node
  demand : Edge → Rat
  flow : Edge → Rat

/-- `DFS_find_reachable_from_source`; `none`: fuel exhausted; `error`: the `assert u != self.sink` -/
def acPhase1 (a : ACInput) : Nat → List Node → (Node → Nat) → Except String (Option (Node → Nat))
  | _, [], vis => .ok (some vis)
  | 0, _ :: _, _ => .ok none
  | n+1, u :: rest, vis =>
    if vis u ≠ 0 then acPhase1 a n rest vis
    else if u = a.sink then .error "AssertionError"
    else
      let vis' := upd vis u 1
      let p1 := (a.g.succ u).filter (fun v => a.flow (u, v) > a.demand (u, v) && vis' v == 0)
      let p2 := (a.g.pred u).filter (fun v => vis' v == 0)
      acPhase1 a n ((p1 ++ p2).reverse ++ rest) vis'

/-- `DFS_find_saturating`; returns the antichain in `append` order -/
def acPhase2 (a : ACInput) : Nat → List Node → (Node → Nat) → List Edge → Option (List Edge)
  | _, [], _, acc => some acc
  | 0, _ :: _, _, _ => none
  | n+1, u :: rest, vis, acc =>
    if vis u ≠ 1 then acPhase2 a n rest vis acc
    else
      let vis' := upd vis u 2
      let p1 := (a.g.succ u).filter (fun v => a.flow (u, v) > a.demand (u, v) && vis' v == 1)
      let new := ((a.g.succ u).filter (fun v => !(a.flow (u, v) > a.demand (u, v)) && a.flow (u, v) == a.demand (u, v)
                    && a.demand (u, v) ≥ 1 && vis' v == 0)).map (fun v => (u, v))
      let p2 := (a.g.pred u).filter (fun v => vis' v == 1)
      acPhase2 a n ((p1 ++ p2).reverse ++ rest) vis' (acc ++ new)

def acFuel (a : ACInput) : Nat := 2 * a.g.edges.length + 2

/-- the set marked by phase 1 -/
def acVisited (a : ACInput) : Except String (Option (Node → Nat)) :=
  acPhase1 a (acFuel a) [a.source] (fun _ => 0)

/-- both phases -/
def acExtract (a : ACInput) : Except String (Option (List Edge)) :=
  match acVisited a with
  | .error e => .error e
  | .ok none => .ok none
  | .ok (some vis) => .ok (acPhase2 a (acFuel a) [a.source] vis [])

/-- the `get_antichain=True` branch including the final `assert`; `useLen` is the branch taken
when `weight_function` is falsy (`assert minFlowCost == len(antichain)`) -/
def acResult (a : ACInput) (cost : Rat) (useLen : Bool) : Except String (Option (List Edge)) :=
  match acExtract a with
  | .error e => .error e
  | .ok none => .ok none
  | .ok (some A) =>
    let w : Rat := if useLen then (A.length : Nat) else (A.map a.demand).sum
    if cost = w then .ok (some A) else .error "AssertionError"

end FP
