import FP.Model.NodeExpandModes
import FP.Model.NodeExpandModesJson
import FP.Model.Enc.KFDC
import FP.Model.Enc.KCoverC
import FP.Model.Enc.KLAEC
import FP.Model.Enc.KMPEC
/-!
# FP.Model.NodeExpandModesCyc — the node branches of the four cyclic k-classes

`kFlowDecompCycles`, `kLeastAbsErrorsCycles`, `kMinPathErrorCycles` (`flow_attr_origin = "node"`) and
`kPathCoverCycles` (`cover_type = "node"`). All four constructors start alike:

* `G_internal = NodeExpandedDiGraph(G, node_flow_attr=flow_attr)` — *without* `node_length_attr`,
  `try_filling_in_missing_flow_attr`, `additional_starts` / `additional_ends` (the cover class first puts a fresh
  dummy attribute with value `0` on every node of a deep copy, `coverNG`);
* `subset_constraints` through `get_expanded_subpath_constraints` (node lists or edge lists, decided by the type of
  `subset_constraints[0][0]`), `additional_starts` / `additional_ends` through
  `get_expanded_additional_starts` / `_ends` (`v.0` / `v.1`);
* `edges_to_ignore_internal = list(set(G_internal.edges_to_ignore + [get_expanded_edge(v) for v in elements_to_ignore]))`;
* the two error classes: `{get_expanded_edge(v): error_scaling[v] for v in error_scaling}`.

Everything after that is the edge-level constructor on `G_internal` (`FP.Model.Enc.KFDC`, `KCoverC`, `KLAEC`,
`KMPEC`): `stDiGraph(G_internal, starts, ends)`, `edges_to_ignore = source_sink_edges ∪ edges_to_ignore_internal`
(∪ the keys of `error_scaling` with factor `0`), `w_max = k * weight_type(max flow over the non-ignored edges)`, and the
per-edge repetition caps, which are computed **on the expanded graph from the attributes that sit on it**:

* `kFlowDecompCycles`: `data[flow_attr] if flow_attr in data else w_max` for every edge of the augmented expansion —
  the copy `(u.1, v.0)` of an original edge carries `flow_attr` iff the original edge `(u, v)` happens to carry an
  attribute of that name (`add_edge(pred1, node0, **G.edges[pred, node])`), and then that value is its cap;
* the two error classes: `compute_edge_max_reachable_value(flow_attr)` reads `data.get(flow_attr, 0)` on every edge,
  copies of original edges included;
* `kPathCoverCycles`: `number_of_edges * number_of_nodes` of the augmented expansion.

The model mirrors this as it is (`expandFlow` keeps the copied edge attributes). Safety optimisations off,
`trusted_edges_for_safety`, `elements_to_ignore_percentile`, `trusted_edges_for_safety_percentile` not given;
`k = None` is resolved by the caller (the request carries the resolved `k`).
-/
namespace FP
namespace NX
open Lean

/-- what a cyclic node branch hands to the edge-level rest of its constructor; `ng` is the node-weighted graph the
`NodeExpandedDiGraph` is built from. Of `inp.nf` the fields `coverageLength` and of `ng` the fields `nodeLen`,
`edgeLen` are not read (the cyclic classes have no length attribute). -/
def nxcTranslate (inp : NodeModeInput) (ng : NodeGraph) : Except String WalkInput :=
  if ng.g.nodes.isEmpty then .error "nonodes" else
  match expandConstraints ng.g inp.nf.constraints with
  | .error e => .error e
  | .ok cons =>
    match expandStarts ng.g inp.starts with
    | .error e => .error e
    | .ok xs =>
      match expandEnds ng.g inp.ends with
      | .error e => .error e
      | .ok xe =>
        match inp.nf.ignoreNodes.mapM (expandedNode ng.g) with
        | .error e => .error e
        | .ok ign =>
          match expandScaling ng.g inp.scaling with
          | .error e => .error e
          | .ok sc =>
            .ok { base := expandGraph ng.g,
                  flow := expandFlow ng,
                  ignore := (edgesToIgnore ng ++ ign).eraseDups,
                  starts := xs, ends := xe,
                  weightInt := inp.nf.weightInt,
                  scaling := sc,
                  cfg := { k := inp.nf.k, allowEmpty := inp.nf.allowEmpty, constraints := cons,
                           coverage := inp.nf.coverage } }

/-- checks of the edge-level rest shared by the four constructors: `stDiGraph._post_build` wants a source edge and a
sink edge; `k` a positive integer; `_check_valid_subset_constraints` ("must have at least 1 edge");
`subset_constraints_coverage` in `(0, 1]` when there are constraints -/
def nxcWalkChecks (wi : WalkInput) : Except String WalkInput :=
  if wi.st.sourceEdges.isEmpty then .error "nosource" else
  if wi.st.sinkEdges.isEmpty then .error "nosink" else
  if wi.cfg.k = 0 then .error "k" else
  if wi.cfg.constraints.any (·.isEmpty) then .error "emptysubset" else
  if !wi.cfg.constraints.isEmpty && (wi.cfg.coverage ≤ 0 || 1 < wi.cfg.coverage) then .error "coverage" else
  .ok wi

/-- `get_max_flow_value_and_check_non_negative_flow` over the non-ignored edges (in node mode they all carry the
attribute: attribute-less node copies and all edge copies are ignored): negative value, or nothing left -/
def nxcFlowChecks (withScaling : Bool) (wi : WalkInput) : Except String WalkInput :=
  if (wi.activeEdges withScaling).any (fun e => wi.f e < 0) then .error "negative" else
  if (wi.activeEdges withScaling).isEmpty then .error "allignored" else .ok wi

/-- every entry of `error_scaling` in `[0, 1]` -/
def nxcScalingCheck (scaling : List (Node × Rat)) (wi : WalkInput) : Except String WalkInput :=
  if scaling.any (fun p => p.2 < 0 || 1 < p.2) then .error "scaling" else .ok wi

/-! ## `kFlowDecompCycles(flow_attr_origin="node")` -/

def kfdcNodeInternal (inp : NodeModeInput) : Except String WalkInput :=
  match nxcTranslate inp inp.nf.ng with
  | .error e => .error e
  | .ok wi =>
    match nxcWalkChecks wi with
    | .error e => .error e
    | .ok wi => nxcFlowChecks false wi

/-- LP of `kFlowDecompCycles(G, flow_attr_origin="node", …)`; `given` = `optimization_options["given_weights"]`
(`_encode_given_weights` rejects more weights than `k`) -/
def kfdcNodeLP (inp : NodeModeInput) (given : Option (List Rat)) : Except String LP :=
  match kfdcNodeInternal inp with
  | .error e => .error e
  | .ok wi =>
    match given with
    | none => .ok (kfdcLP wi none)
    | some ws => if wi.k < ws.length then .error "given" else .ok (kfdcLP wi (some ws))

/-! ## `kPathCoverCycles(cover_type="node")` -/

def kcovercNodeInternal (inp : NodeModeInput) : Except String WalkInput :=
  match nxcTranslate inp (coverNG inp.nf.ng) with
  | .error e => .error e
  | .ok wi => nxcWalkChecks wi

def kcovercNodeLP (inp : NodeModeInput) : Except String LP := (kcovercNodeInternal inp).map kcovercLP

/-! ## `kLeastAbsErrorsCycles`, `kMinPathErrorCycles` (`flow_attr_origin="node"`) -/

def errcNodeInternal (inp : NodeModeInput) : Except String WalkInput :=
  match nxcTranslate inp inp.nf.ng with
  | .error e => .error e
  | .ok wi =>
    match nxcWalkChecks wi with
    | .error e => .error e
    | .ok wi =>
      match nxcScalingCheck inp.scaling wi with
      | .error e => .error e
      | .ok wi => nxcFlowChecks true wi

def klaecNodeLP (inp : NodeModeInput) : Except String LP := (errcNodeInternal inp).map klaecLP
def kmpecNodeLP (inp : NodeModeInput) : Except String LP := (errcNodeInternal inp).map kmpecLP

/-! ## the explicit expansion of the property text (specification side)

"the edge-weighted graph in which each node `v` is split into an edge carrying `v`'s value and all original edges are
ignored": only node copies carry a value; additional starts `v.0`, ends `v.1`; error scaling on the node copies;
constraints translated element by element. No validity checks, no code order. -/

def expandWalkInput (inp : NodeModeInput) : WalkInput :=
  { base := expandGraph inp.nf.ng.g,
    flow := inp.nf.ng.nodeFlow.map (fun p => (nodeEdge p.1, p.2)),
    ignore := inp.nf.ng.g.edges.map edgeEdge
              ++ (inp.nf.ng.g.nodes.filter fun v => !inp.nf.ng.hasFlow v).map nodeEdge
              ++ inp.nf.ignoreNodes.map nodeEdge,
    starts := inp.starts.map n0, ends := inp.ends.map n1,
    weightInt := inp.nf.weightInt,
    scaling := inp.scaling.map fun p => (nodeEdge p.1, p.2),
    cfg := { k := inp.nf.k, allowEmpty := inp.nf.allowEmpty, constraints := specConstraints inp.nf.constraints,
             coverage := inp.nf.coverage } }

/-- for the cover problem nothing carries a value: every node is to be covered unless the caller ignores it -/
def expandWalkCoverInput (inp : NodeModeInput) : WalkInput :=
  expandWalkInput { inp with nf := { inp.nf with ng := coverNG inp.nf.ng } }

/-! ## driver ops `lp.kfdcnode`, `lp.kcovercnode`, `lp.klaecnode`, `lp.kmpecnode`

Request = the request of `lp.klaenode` (`FP.Model.NodeExpandModesJson`); `lp.kfdcnode` reads `given_weights` in addition. -/

def handleNodeModesCyc (op : String) (j : Json) : Option (Except String Json) :=
  match op with
  | "lp.kfdcnode" => some do
    let inp ← parseNodeModeInput j
    let given ← optField j "given_weights" (asList asRat)
    return exJ (fun lp => strArr lp.dump) (kfdcNodeLP inp given)
  | "lp.kcovercnode" => some do
    let inp ← parseNodeModeInput j
    return exJ (fun lp => strArr lp.dump) (kcovercNodeLP inp)
  | "lp.klaecnode" => some do
    let inp ← parseNodeModeInput j
    return exJ (fun lp => strArr lp.dump) (klaecNodeLP inp)
  | "lp.kmpecnode" => some do
    let inp ← parseNodeModeInput j
    return exJ (fun lp => strArr lp.dump) (kmpecNodeLP inp)
  | _ => none

end NX
end FP
