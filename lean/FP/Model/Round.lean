/-!
# FP.Model.Round — Python's `round(x)` (no `ndigits`) on a float given as an exact rational

A Python float is an exact dyadic rational, so `round(float)` is a function of that rational: the
nearest integer, ties to the even neighbour (`float.__round__` → `round_half_even`). `range(n)` for
a negative `n` is empty, hence `for _ in range(round(x))` runs `(pyRound x).toNat` times.
-/
namespace FP

/-- `round(x)`: nearest integer, ties to even -/
def pyRound (x : Rat) : Int :=
  let f := x.floor
  let d := x - (f : Rat)
  if d < 1/2 then f
  else if 1/2 < d then f + 1
  else if f % 2 = 0 then f else f + 1

/-- number of iterations of `for _ in range(round(x))` -/
def pyRoundCount (x : Rat) : Nat := (pyRound x).toNat

end FP
