import FP.Model.Graph
import FP.Model.Enc.KFD
/-!
# FP.Model.NodeExpand — `NodeExpandedDiGraph` and the node branch of `kFlowDecomp.__init__`

Every node `v` of the caller's graph becomes the edge `(v.0, v.1)`, every edge `(u, v)` becomes
`(u.1, v.0)`. Names are python `str`s (sequences of code points) — modelled as Lean `String`s and
manipulated through `String.toList` exactly as the code does: `node + '.0'`, `path[i][-2:]`,
`path[i][:-2]`.

`Graph.edges` of the *input* graph is any insertion order of the edges that is consistent with the
`_succ`/`_pred` dictionaries of networkx (`g.succ v` / `g.pred v` are then `G.successors(v)` /
`G.predecessors(v)` in iteration order). The *output* graph lists its nodes in networkx insertion order
and its edges in first-insertion order (`Graph.nxOrder` of it is `G.edges()`).
-/
namespace FP
namespace NX

def n0 (v : Node) : Node := v ++ ".0"
def n1 (v : Node) : Node := v ++ ".1"

/-- `get_expanded_edge(node)` without the membership check -/
def nodeEdge (v : Node) : Edge := (n0 v, n1 v)
/-- `get_expanded_edge((u, v))` without the membership check -/
def edgeEdge (e : Edge) : Edge := (n1 e.1, n0 e.2)

/-- a node-weighted input graph: which nodes carry `node_flow_attr`, which (original) edges happen to
carry an attribute of that same name (it is copied onto `(u.1, v.0)`), and the same for
`node_length_attr` (`none` = no `node_length_attr` given) -/
structure NodeGraph where
  g : Graph
  nodeFlow : List (Node × Rat) := []
  edgeFlow : List (Edge × Rat) := []
  nodeLen : Option (List (Node × Rat)) := none
  edgeLen : List (Edge × Rat) := []
  deriving Repr, Inhabited

def NodeGraph.hasFlow (ng : NodeGraph) (v : Node) : Bool := (ng.nodeFlow.lookup v).isSome

/-! ## the expansion loop of `__init__`

For every node (in `G.nodes` order): `add_node(v.0)`, `add_node(v.1)`, `add_edge(v.0, v.1)`, then
`add_edge(p.1, v.0)` for `p in G.predecessors(v)`, then `add_edge(v.1, s.0)` for `s in G.successors(v)`.
networkx keeps the first insertion of a node / an edge, so the final orders are the first occurrences
in the sequence of mentions. -/

def nodeMentions (g : Graph) (v : Node) : List Node :=
  [n0 v, n1 v] ++ (g.pred v).map n1 ++ (g.succ v).map n0

def edgeMentions (g : Graph) (v : Node) : List Edge :=
  [nodeEdge v] ++ (g.pred v).map (fun p => (n1 p, n0 v)) ++ (g.succ v).map (fun s => (n1 v, n0 s))

def expandGraph (g : Graph) : Graph :=
  { nodes := (g.nodes.flatMap (nodeMentions g)).eraseDups,
    edges := (g.nodes.flatMap (edgeMentions g)).eraseDups }

/-- `_edges_to_ignore` after the main loop, in the order the code appends -/
def edgesToIgnore (ng : NodeGraph) : List Edge :=
  ng.g.nodes.flatMap fun v =>
    (if ng.hasFlow v then [] else [nodeEdge v]) ++ (ng.g.pred v).map (fun p => (n1 p, n0 v))

/-- the `node_flow_attr` attribute of the expanded edges (a dictionary keyed by edge): `(v.0, v.1)`
carries it iff `v` does, `(u.1, v.0)` iff `(u, v)` does -/
def expandFlow (ng : NodeGraph) : List (Edge × Rat) :=
  ng.nodeFlow.map (fun p => (nodeEdge p.1, p.2)) ++ ng.edgeFlow.map (fun p => (edgeEdge p.1, p.2))

/-- the `node_length_attr` attribute of the expanded edges: copied from the node where present; an
original edge without it gets length 0 -/
def expandLengths (ng : NodeGraph) : Option (List (Edge × Rat)) :=
  ng.nodeLen.map fun nl =>
    nl.map (fun p => (nodeEdge p.1, p.2)) ++ ng.g.edges.map (fun e => (edgeEdge e, lookupD ng.edgeLen e 0))

/-! ## optional global source / sink (`additional_starts` / `additional_ends` of the class itself) -/

/-- nodes and edges appended after the main loop; `src`/`snk` are `'source' + str(id(self))`,
`'sink' + str(id(self))`. `none` = python raises `ValueError` (node not in the original graph) -/
def globalsBlock (g : Graph) (src snk : Node) (starts ends : List Node) :
    Option (List Node × List Edge) :=
  if !(starts.all g.nodes.contains) || !(ends.all g.nodes.contains) then none else
  let s := if starts.isEmpty then ([], []) else
    ([n0 src, n1 src], [nodeEdge src] ++ starts.map (fun v => (n1 src, n0 v)))
  let t := if ends.isEmpty then ([], []) else
    ([n0 snk, n1 snk], [nodeEdge snk] ++ ends.map (fun v => (n1 v, n0 snk)))
  some (s.1 ++ t.1, s.2 ++ t.2)

/-- the graph and the ignore list of `NodeExpandedDiGraph(G, …, additional_starts, additional_ends)`
(flow values filled in by `_try_filling_in_missing_flow_values` are not modelled) -/
def expandGraphWith (ng : NodeGraph) (src snk : Node) (starts ends : List Node) :
    Option (Graph × List Edge) :=
  match globalsBlock ng.g src snk starts ends with
  | none => none
  | some (ns, es) =>
    let x := expandGraph ng.g
    some ({ nodes := (x.nodes ++ ns).eraseDups, edges := (x.edges ++ es).eraseDups },
          edgesToIgnore ng ++ es)

/-! ## translation of nodes, starts, ends, constraints -/

/-- `get_expanded_edge(node)`: `ValueError` for a node that is not in the original graph -/
def expandedNode (g : Graph) (v : Node) : Except String Edge :=
  if g.nodes.contains v then .ok (nodeEdge v) else .error "notin"

/-- `get_expanded_edge((u, v))` -/
def expandedEdge (g : Graph) (e : Edge) : Except String Edge :=
  if g.edges.contains e then .ok (edgeEdge e) else .error "notin"

def expandStarts (g : Graph) (l : List Node) : Except String (List Node) :=
  l.mapM fun v => (expandedNode g v).map (·.1)
def expandEnds (g : Graph) (l : List Node) : Except String (List Node) :=
  l.mapM fun v => (expandedNode g v).map (·.2)

/-- subpath / subset constraints in node mode are lists of nodes or lists of edges of the original
graph; python decides by the type of `subpath_constraints[0][0]` -/
inductive Constraints where
  | nodes (l : List (List Node))
  | edges (l : List (List Edge))
  deriving Repr, Inhabited

/-- one edge-constraint: for every edge `(u, v)` the pieces `(u.0, u.1), (u.1, v.0)`, and
`(v.0, v.1)` after the last edge -/
def expandEdgeConstraint : List Edge → List Edge
  | [] => []
  | [e] => [nodeEdge e.1, edgeEdge e, nodeEdge e.2]
  | e :: rest => nodeEdge e.1 :: edgeEdge e :: expandEdgeConstraint rest

/-- `get_expanded_subpath_constraints`: `[]` for no constraints, `ValueError` when some constraint is empty
(since fix b2: before, `subpath_constraints[0][0]` raised `IndexError` on an empty first constraint and an empty later
one was passed on), `ValueError` for unknown nodes / edges -/
def expandConstraints (g : Graph) : Constraints → Except String (List (List Edge))
  | .nodes [] => .ok []
  | .edges [] => .ok []
  | .nodes l => if l.any List.isEmpty then .error "empty" else l.mapM fun c => c.mapM (expandedNode g)
  | .edges l => if l.any List.isEmpty then .error "empty" else l.mapM fun c =>
      if c.all g.edges.contains then .ok (expandEdgeConstraint c) else .error "notin"

/-! ## condensing -/

/-- `name[-2:] == '.0'` -/
def endsWith0 (s : String) : Bool := s.toList.drop (s.toList.length - 2) == ['.', '0']
/-- `name[:-2]` -/
def strip2 (s : String) : String := String.ofList (s.toList.take (s.toList.length - 2))

/-- `path[i] for i in range(0, len(path) - 1, 2)` -/
def evens {α} : List α → List α
  | a :: _ :: rest => a :: evens rest
  | _ => []

/-- the body of the loop of `get_condensed_paths` over the selected names; `globals` are the global
source / sink ids, which are accepted and dropped -/
def condenseNames (orig globals : List Node) : List Node → Except String (List Node)
  | [] => .ok []
  | x :: xs =>
    if !endsWith0 x then .error "invalid" else
    let v := strip2 x
    if !orig.contains v && !globals.contains v then .error "notin" else
    match condenseNames orig globals xs with
    | .error e => .error e
    | .ok r => .ok (if globals.contains v then r else v :: r)

def condensePath (orig globals : List Node) (path : List Node) : Except String (List Node) :=
  condenseNames orig globals (evens path)

def condensePaths (orig globals : List Node) (paths : List (List Node)) : Except String (List (List Node)) :=
  paths.mapM (condensePath orig globals)

/-- the expanded form of a node path: `v.0, v.1` for every node -/
def expandPath (p : List Node) : List Node := p.flatMap fun v => [n0 v, n1 v]

/-- `get_condensed_graph`: the node attribute read back from `(v.0, v.1)` -/
def condenseFlow (g : Graph) (xflow : List (Edge × Rat)) : List (Node × Rat) :=
  g.nodes.filterMap fun v => (xflow.lookup (nodeEdge v)).map fun q => (v, q)

/-! ## the node branch of `kFlowDecomp.__init__` -/

structure NodeFlowInput where
  ng : NodeGraph
  ignoreNodes : List Node := []
  constraints : Constraints := .nodes []
  weightInt : Bool := false
  k : Nat
  allowEmpty : Bool := false
  coverage : Rat := 1
  coverageLength : Option Rat := none
  deriving Repr, Inhabited

/-- what the node branch hands to the (edge-level) rest of the constructor: `G_internal`, the flow
attribute on its edges, `edges_to_ignore_internal = list(set(G_internal.edges_to_ignore +
[get_expanded_edge(v) for v in elements_to_ignore]))`, the expanded constraints. `.error` = python raises. -/
def kfdNodeTranslate (inp : NodeFlowInput) : Except String FlowInput :=
  if inp.ng.g.nodes.isEmpty then .error "nonodes" else
  match expandConstraints inp.ng.g inp.constraints with
  | .error e => .error e
  | .ok cons =>
    match inp.ignoreNodes.mapM (expandedNode inp.ng.g) with
    | .error e => .error e
    | .ok ign =>
      -- `_check_valid_subpath_constraints` of the edge-level constructor: "must have at least 1 edge"
      if cons.any (·.isEmpty) then .error "emptysubpath" else
      .ok { base := expandGraph inp.ng.g,
            flow := expandFlow inp.ng,
            ignore := (edgesToIgnore inp.ng ++ ign).eraseDups,
            starts := [], ends := [],
            weightInt := inp.weightInt,
            cfg := { k := inp.k, allowEmpty := inp.allowEmpty, constraints := cons,
                     coverage := inp.coverage, coverageLength := inp.coverageLength,
                     lengths := expandLengths inp.ng } }

/-- checks of the edge-level rest of the constructor (the same in both modes):
`get_max_flow_value_and_check_non_negative_flow` raises "All edges are ignored" when no edge is left to
explain (fix 1731a87), and `k` must be a positive integer (fix e001a45). Negative values (also a
`ValueError`) are outside the model. -/
def kfdEdgeChecks (fi : FlowInput) : Except String FlowInput :=
  if fi.activeEdges.isEmpty then .error "allignored" else
  if fi.cfg.k = 0 then .error "k" else .ok fi

def kfdNodeInternal (inp : NodeFlowInput) : Except String FlowInput :=
  match kfdNodeTranslate inp with
  | .error e => .error e
  | .ok fi => kfdEdgeChecks fi

/-- LP of `kFlowDecomp(G, flow_attr_origin="node", …)` -/
def kfdNodeLP (inp : NodeFlowInput) : Except String LP := (kfdNodeInternal inp).map kfdLP

/-! ## the explicit expansion of the property text (specification side)

"the edge-weighted graph in which each node `v` is split into an edge carrying `v`'s value and all
original edges are ignored"; nodes lacking the attribute are ignored, and so are the caller's
ignored nodes; constraints are translated element by element. No validity checks, no code order. -/

def specConstraints : Constraints → List (List Edge)
  | .nodes l => l.map (·.map nodeEdge)
  | .edges l => l.map expandEdgeConstraint

def expandInput (inp : NodeFlowInput) : FlowInput :=
  { base := expandGraph inp.ng.g,
    flow := inp.ng.nodeFlow.map (fun p => (nodeEdge p.1, p.2)),
    ignore := inp.ng.g.edges.map edgeEdge
              ++ (inp.ng.g.nodes.filter fun v => !inp.ng.hasFlow v).map nodeEdge
              ++ inp.ignoreNodes.map nodeEdge,
    starts := [], ends := [],
    weightInt := inp.weightInt,
    cfg := { k := inp.k, allowEmpty := inp.allowEmpty, constraints := specConstraints inp.constraints,
             coverage := inp.coverage, coverageLength := inp.coverageLength,
             lengths := expandLengths inp.ng } }

end NX
end FP
