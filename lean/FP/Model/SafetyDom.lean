import FP.Model.Graph
import FP.Model.SafetyAdj
/-!
# FP.Model.SafetyDom — `Arc_Dominator_Tree` and `maximal_safe_sequences_via_dominators`

Transcription of `flowpaths/utils/dominators.py` and of
`flowpaths/utils/safetypathcoverscycles.py: maximal_safe_sequences_via_dominators`.

* a node of a dominator tree is the start node (`TNode.root`: `G.source` / `G.sink`) or an arc;
* `self.idom` is the association list `idom` in `G.edges` order, hence
  `self.children[x] = [e for e in G.edges if idom[e] == x]` (`children`);
* `build_children_relation_X` appends `(last_in_X, node)` pairs in DFS pre-order (`dfsX`);
  `children_X[x]` / `idom_X[node]` are read off that list (`childrenX`, `idomX`);
* the dict `children_X` has the keys `X` (deduplicated, in iteration order of `X`) and then `start`;
  `leaves_s_X` follows that order. With `X` a python `set` the iteration order is not determined; only the
  order of the returned list depends on it.
* the two adjacency dicts are threaded through all `find_idom` calls (each call moves the edges of the
  path it found to the end of their lists).

Fuel: the dominator tree has at most `|E| + 1` nodes, every loop walks along tree edges.
-/
namespace FP.Safety
open FP

instance : Monad Res where
  pure := .ok
  bind x f := match x with
    | .ok a => f a
    | .raises w => .raises w
    | .fuel => .fuel

variable {V : Type} [DecidableEq V]

inductive TNode (V : Type) where
  | root
  | arc (e : V × V)
  deriving DecidableEq, Repr

abbrev IdomTable (V : Type) := List ((V × V) × TNode V)

/-- `self.children[x]` -/
def children (idom : IdomTable V) (x : TNode V) : List (V × V) := (idom.filter (·.2 = x)).map (·.1)

/-- `build_children_relation_X`: the `(last_in_X, node)` pairs in the order they are appended;
`none` = fuel exhausted -/
def dfsX (idom : IdomTable V) (X : List (V × V)) : Nat → TNode V → TNode V → Option (List (TNode V × (V × V)))
  | 0, _, _ => none
  | n+1, node, last =>
    let here : List (TNode V × (V × V)) := match node with
      | .arc e => if node ≠ last ∧ e ∈ X then [(last, e)] else []
      | .root => []
    let last' := if here.isEmpty then last else node
    match (children idom node).mapM (fun c => dfsX idom X n (.arc c) last') with
    | none => none
    | some ls => some (here ++ ls.flatten)

abbrev PairsX (V : Type) := List (TNode V × (V × V))

def childrenX (pairs : PairsX V) (x : TNode V) : List (V × V) := (pairs.filter (·.1 = x)).map (·.2)
def idomX (pairs : PairsX V) (a : V × V) : Option (TNode V) := (pairs.find? (·.2 = a)).map (·.1)

/-- `get_dominators(arc)` -/
def getDominators (idom : IdomTable V) : Nat → V × V → List (V × V) → Res (List (V × V))
  | 0, _, _ => .fuel
  | n+1, a, acc =>
    match idom.lookup a with
    | none => .raises "KeyError"
    | some .root => .ok (acc ++ [a])
    | some (.arc b) => getDominators idom n b (acc ++ [a])

/-- `fn` of `find_unitary_path_X(_, "up")` -/
def upStep (pairs : PairsX V) (a : V × V) : Res (V × V) :=
  match idomX pairs a with
  | none => .raises "KeyError"
  | some .root => .ok a
  | some (.arc e) => if (childrenX pairs (.arc e)).length = 1 then .ok e else .ok a

/-- `fn` of `find_unitary_path_X(_, "down")`; `children_X` has the keys `X` (and `start`) -/
def downStep (pairs : PairsX V) (X : List (V × V)) (a : V × V) : Res (V × V) :=
  if a ∉ X then .raises "KeyError" else
  match childrenX pairs (.arc a) with
  | [c] => .ok c
  | _ => .ok a

/-- `while arc != fn(arc): arc = fn(arc); path.append(arc)` -/
def unitaryPath (fn : V × V → Res (V × V)) : Nat → V × V → List (V × V) → Res (List (V × V))
  | 0, _, _ => .fuel
  | n+1, a, path =>
    match fn a with
    | .ok b => if a = b then .ok path else unitaryPath fn n b (path ++ [b])
    | .raises w => .raises w
    | .fuel => .fuel

/-- the `while good_sequence and i < len(t_path)` loop: `t_path` is a prefix of `s_path` -/
def isPrefix : List (V × V) → List (V × V) → Bool
  | [], _ => true
  | _ :: _, [] => false
  | a :: as, b :: bs => a = b && isPrefix as bs

structure Trees (V : Type) where
  sIdom : IdomTable V
  tIdom : IdomTable V
  sPairs : PairsX V
  tPairs : PairsX V

/-- the `for leaf in leaves_s_X` loop body: is `leaf` a core? -/
def isCore (T : Trees V) (X : List (V × V)) (fuel : Nat) (leaf : TNode V) : Res Bool :=
  match leaf with
  | .root => .raises "KeyError"          -- `self.idom_X[start]`
  | .arc a => do
    let sp ← unitaryPath (upStep T.sPairs) fuel a [a]
    let tp ← unitaryPath (downStep T.tPairs X) fuel a [a]
    if tp.length > sp.length then return false
    return isPrefix tp sp && (childrenX T.tPairs (.arc (tp.getLast?.getD a))).isEmpty

def filterCores (T : Trees V) (X : List (V × V)) (fuel : Nat) : List (TNode V) → Res (List (V × V))
  | [] => .ok []
  | l :: ls => do
    let c ← isCore T X fuel l
    let rest ← filterCores T X fuel ls
    match l with
    | .arc a => return (if c then a :: rest else rest)
    | .root => return rest

def sequencesOf (T : Trees V) (fuel : Nat) : List (V × V) → Res (List (List (V × V)))
  | [] => .ok []
  | c :: cs => do
    let sd ← getDominators T.sIdom fuel c []
    let td ← getDominators T.tIdom fuel c []
    let rest ← sequencesOf T fuel cs
    return (sd.reverse ++ td.drop 1) :: rest

/-- everything after the two dominator tables have been computed -/
def maxSeqsFromIdoms (sIdom tIdom : IdomTable V) (X : List (V × V)) : Res (List (List (V × V))) :=
  let Xd := X.eraseDups
  let fuel := sIdom.length + 2
  match dfsX sIdom Xd fuel .root .root, dfsX tIdom Xd fuel .root .root with
  | some sp, some tp =>
    let T : Trees V := ⟨sIdom, tIdom, sp, tp⟩
    let leaves := (Xd.map TNode.arc ++ [TNode.root]).filter fun x => (childrenX sp x).isEmpty
    do
      let cores ← filterCores T Xd fuel leaves
      sequencesOf T fuel cores
  | _, _ => .fuel

/-- the `for (u,v) in G.edges` loop: both adjacency dicts are threaded through the calls -/
def idomTables (source sink : V) : List (V × V) → Adj V → Adj V → IdomTable V → IdomTable V →
    Res (IdomTable V × IdomTable V)
  | [], _, _, si, ti => .ok (si, ti)
  | (u, v) :: es, adj, adjRev, si, ti =>
    match findIdom adjRev u source with
    | .raises w => .raises w
    | .fuel => .fuel
    | .ok (sb, adjRev') =>
      match findIdom adj v sink with
      | .raises w => .raises w
      | .fuel => .fuel
      | .ok (tb, adj') =>
        let sn : TNode V := match sb with | some (y, z) => .arc (z, y) | none => .root
        let tn : TNode V := match tb with | some b => .arc b | none => .root
        idomTables source sink es adj' adjRev' (si ++ [((u, v), sn)]) (ti ++ [((u, v), tn)])

def succAdj (g : Graph) : Adj Node := g.nodes.map fun u => (u, g.succ u)
def predAdj (g : Graph) : Adj Node := g.nodes.map fun u => (u, g.pred u)

/-- the edges of `G` whose tail is reachable from the source and whose head reaches the sink
(`G.nodes_reachable(G.source)`, `G.nodes_reaching(G.sink)`, since fix 4057fb6): only membership in the two node
sets matters, so they are computed by a plain search here -/
def onSomeWalk (g : Graph) (source sink : Node) : Res (List Edge) :=
  let fuel := g.nodes.length + 1
  match bfs (succAdj g) fuel [source] [source], bfs (predAdj g) fuel [sink] [sink] with
  | some F, some B => .ok (g.edges.filter fun e => decide (e.1 ∈ F) && decide (e.2 ∈ B))
  | _, _ => .fuel

/-- `maximal_safe_sequences_via_dominators(G, X)`; `X` in its iteration order. Edges on no source-to-sink walk are
skipped and dropped from `X` (before fix 4057fb6 `find_idom` raised `IndexError` on them). A member of `X` that is
not an edge of `G` stays a leaf of `T_s` without `idom_X` entry and python raises `KeyError`; the same
happens here (`upStep`). -/
def maxSafeSeqs (g : Graph) (source sink : Node) (X : List Edge) : Res (List (List Edge)) :=
  if X.isEmpty then .ok [] else
  match onSomeWalk g source sink with
  | .raises w => .raises w
  | .fuel => .fuel
  | .ok es =>
    let X' := if es.length < g.edges.length then X.filter (fun e => decide (e ∈ es)) else X
    if X'.isEmpty then .ok [] else
    match idomTables source sink es (succAdj g) (predAdj g) [] [] with
    | .ok (si, ti) => maxSeqsFromIdoms si ti X'
    | .raises w => .raises w
    | .fuel => .fuel

end FP.Safety
