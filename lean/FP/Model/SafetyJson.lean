import FP.Model.Json
import FP.Model.Enc.Parse
import FP.Model.SafetyAdj
import FP.Model.SafetyDom
import FP.Model.SafetyDag
import FP.Model.SafetyFix
/-!
# FP.Model.SafetyJson — driver ops `safety.*`

A python exception is answered as `{"status": "raises", "what": ...}`; exhausted fuel is a driver error.
-/
namespace FP.Safety
open Lean FP

def edgeJson (e : Edge) : Json := strArr [e.1, e.2]
def edgesJson (l : List Edge) : Json := Json.arr (l.map edgeJson).toArray
def seqsJson (l : List (List Edge)) : Json := Json.arr (l.map edgesJson).toArray
def adjJson (g : Adj Node) : Json :=
  Json.arr (g.map fun kl => Json.arr #[Json.str kl.1, strArr kl.2]).toArray

def parseAdj (j : Json) : Except String (Adj Node) := do
  let adjJ ← jArr j "adj"
  adjJ.toList.mapM fun e => do
    let a ← e.getArr?
    match a.toList with
    | [v, ws] => return (← v.getStr?, ← asList (·.getStr?) ws)
    | _ => .error "adj entry"

def answer {α} (r : Res α) (f : α → List (String × Json)) : Except String Json :=
  match r with
  | .ok a => .ok (Json.mkObj (("status", Json.str "ok") :: f a))
  | .raises w => .ok (Json.mkObj [("status", Json.str "raises"), ("what", Json.str w)])
  | .fuel => .error "fuel exhausted"

def tnodeJson : TNode Node → Json
  | .root => Json.null
  | .arc e => edgeJson e

def handleSafety (op : String) (j : Json) : Option (Except String Json) :=
  match op with
  | "safety.bridges" => some do
    let g ← parseAdj j
    let s ← jStr j "s"
    let t ← jStr j "t"
    answer (findAllBridges g s t) fun r =>
      [("bridges", edgesJson r.1), ("adj", adjJson r.2), ("restored", Json.bool (r.2 == g))]
  | "safety.path" => some do
    let g ← parseAdj j
    let s ← jStr j "s"
    let t ← jStr j "t"
    match findPath g s t with
    | none => .error "fuel exhausted"
    | some p => return Json.mkObj [("status", Json.str "ok"), ("path", strArr p)]
  | "safety.idom" => some do
    let g ← parseAdj j
    let s ← jStr j "s"
    let t ← jStr j "t"
    answer (findIdom g s t) fun r =>
      [("bridge", match r.1 with | some b => edgeJson b | none => Json.null), ("adj", adjJson r.2)]
  | "safety.maxseq" => some do
    let g ← parseGraph j
    let s ← jStr j "source"
    let t ← jStr j "sink"
    let X ← jList asEdge j "X"
    let tabs : List (String × Json) :=
      match idomTables s t g.edges (succAdj g) (predAdj g) [] [] with
      | .ok (si, ti) => [("s_idoms", Json.arr (si.map fun p => tnodeJson p.2).toArray),
                         ("t_idoms", Json.arr (ti.map fun p => tnodeJson p.2).toArray)]
      | _ => []
    answer (maxSafeSeqs g s t X) fun r => ("seqs", seqsJson r) :: tabs
  | "safety.dagpaths" => some do
    let g ← parseGraph j
    let items ← jList asEdge j "items"
    answer (safePaths g items) fun r => [("paths", seqsJson r)]
  | "safety.dagseqs" => some do
    let g ← parseGraph j
    let s ← jStr j "source"
    let t ← jStr j "sink"
    let items ← jList (asList asEdge) j "items"
    answer (safeSequences g s t items) fun r => [("seqs", seqsJson r)]
  | "safety.flowsafe" => some do
    let g ← parseGraph j
    let flow ← jList asEdgeRat j "flow"
    let paths ← jList (asList (·.getStr?)) j "paths"
    answer (flowSafePaths g flow paths) fun r => [("paths", seqsJson r)]
  | "safety.zerofix" => some do
    let g ← parseGraph j
    let walks ← jList (asList asEdge) j "walks"
    let k ← jNat j "k"
    answer (zeroFix g walks k) fun r =>
      [("zero", Json.arr (r.map fun p => Json.arr #[Json.str p.1.1, Json.str p.1.2, Json.num p.2]).toArray)]
  | "safety.incompatible" => some do
    let g ← parseGraph j
    let mp ← jArr j "mapping"
    let mapping : List (Node × Nat) ← mp.toList.mapM fun e => do
      let a ← e.getArr?
      match a.toList with
      | [v, c] => return (← v.getStr?, ← c.getNat?)
      | _ => .error "mapping entry"
    let seqs ← jList (asList asEdge) j "seqs"
    let anti ← jList asStrPair j "antichain"
    answer (longestIncompatible ⟨g, mapping⟩ seqs anti) fun r => [("seqs", seqsJson r)]
  | _ => none

end FP.Safety
