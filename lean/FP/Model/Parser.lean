/-!
# FP.Model.Parser — token-level model of `flowpaths.utils.graphutils.read_graph` / `read_graphs`

The python code never looks at characters except through `str.lstrip/strip/split/startswith`,
`int()` and `float()`.  These primitives are **not** re-implemented: a line arrives already
classified (`Line`), the classification being done on the python side with the very same
primitives (`harness/props/c20.py: classify`), and `int()` / `float()` are oracle parameters
(`Oracles.parseInt`, `Oracles.parseFloat`).  What is modelled, statement by statement, is the
control flow of

* `read_graph(graph_raw)`:
  - the leading run of `#` lines (`takeWhile isHash`) is scanned (`scanHeader`):
    a `#S` line contributes its token list; an empty token list is skipped; a token list already
    in `subpaths_seen` is skipped; otherwise it is remembered and — only when it has at least two
    tokens — the list `zip(seq, seq[1:])` is appended to the constraints; every other `#` line
    contributes its text to `header_lines`;
  - `graph_id = header_lines[0]` if there is one, else `str(id(graph_raw))` (`id = none`);
  - blank lines are skipped; no line left: `ValueError` (`missingCount`);
  - `int(line.strip())` failing: `ValueError` (`badCount`);
  - `n == 0` (after fix 1264962): `ValueError` if any constraint was collected
    (`zeroWithConstraints`), else `ValueError` if any later line of the block is neither blank nor a
    `#` line (`zeroWithData`), else return the empty graph with `n = m = w = 0`;
  - every remaining line that is not blank and not a `#` line must split into exactly three
    tokens (`badEdgeFormat`) whose third converts with `float()` (`badWeight`);
    `G.add_edge(u, v, flow=w)` (networkx: nodes appended on first sight, an existing edge keeps its
    place and gets the new weight);
  - every constraint edge must be an edge (`constraintEdgeMissing`);
  - `n`, `m` := number of nodes / edges of the graph built (the vertex-count line is *not* used);
  - `w := stDiGraph(G).get_width()`: the constructor raises `ValueError` when the graph has no
    node without in-edges or no node without out-edges (`noSourceOrSink`); the width value itself
    is an oracle (`Oracles.width`).  (Before fix 49fd43a the code evaluated this test through
    `out_edges(self.source)` on a string that was not a node, which iterates over its characters;
    `harness/props/c20.py` keeps a separate oracle for it.  No theorem of `FP/Props/C20.lean`
    relies on `noSourceOrSink` being raised.)
* `read_graphs(filename)`: lines before the first `#` line are skipped; a block is a maximal run
  of `#` lines followed by the maximal run of non-`#` lines (`splitBlocks`); blocks are parsed in
  order, the first exception propagates (`readBlocks`).

Every `raise ValueError` is an explicit `Except.error`; all constructors of `PErr` are
`ValueError`s in python (the constructor records which statement raised).
-/
namespace FP.Parser

/-- a classified line.  `header`: `line.lstrip()` starts with `#` but not with `#S`,
`text = stripped.lstrip('#').strip()`; `subpath`: `line.lstrip()` starts with `#S`,
`tokens = stripped[2:].strip().split()`; `blank`: `line.strip() == ""`;
`data`: anything else, `text = line.strip()`, `tokens = line.split()`. -/
inductive Line (S : Type) where
  | header (text : S)
  | subpath (tokens : List S)
  | blank
  | data (text : S) (tokens : List S)
  deriving DecidableEq, Repr

/-- `line.lstrip().startswith('#')` -/
def Line.isHash {S} : Line S → Bool
  | .header _ => true
  | .subpath _ => true
  | _ => false

/-- `line.strip() == ""` -/
def Line.isBlank {S} : Line S → Bool
  | .blank => true
  | _ => false

/-- `line.strip() and not line.lstrip().startswith('#')` -/
def Line.isData {S} (l : Line S) : Bool := !l.isBlank && !l.isHash

/-- which statement raised; every one of them is a python `ValueError` -/
inductive PErr where
  | missingCount | badCount | zeroWithConstraints | zeroWithData
  | badEdgeFormat | badWeight | constraintEdgeMissing | noSourceOrSink
  deriving DecidableEq, Repr

deriving instance DecidableEq for Except

/-- `int()`, `float()` and `stDiGraph(G).get_width()` as parameters -/
structure Oracles (S W Wd : Type) where
  parseInt : S → Option Int
  parseFloat : S → Option W
  width : List S → List (S × S × W) → Wd
  /-- the literal `0` stored as `w` of a zero-vertex block -/
  zeroWidth : Wd

section
variable {S W Wd : Type} [DecidableEq S]

/-- `nx.DiGraph` as far as the parser uses it: nodes in insertion order, edges (with the `flow`
attribute) in order of first insertion -/
structure Gr (S W : Type) where
  nodes : List S := []
  edges : List (S × S × W) := []

def Gr.hasEdge (g : Gr S W) (u v : S) : Bool := g.edges.any fun e => e.1 = u ∧ e.2.1 = v

def addNode (ns : List S) (v : S) : List S := if v ∈ ns then ns else ns ++ [v]

/-- `G.add_edge(u, v, flow=w)` -/
def Gr.addEdge (g : Gr S W) (u v : S) (w : W) : Gr S W :=
  { nodes := addNode (addNode g.nodes u) v
    edges := if g.hasEdge u v then g.edges.map fun e => if e.1 = u ∧ e.2.1 = v then (u, v, w) else e
             else g.edges ++ [(u, v, w)] }

/-- `list(G.edges(data='flow'))`: networkx iterates the nodes in insertion order and, per node,
its out-edges in insertion order -/
def Gr.edgesNx (g : Gr S W) : List (S × S × W) := g.nodes.flatMap fun u => g.edges.filter fun e => e.1 = u

/-- some node has in-degree 0 -/
def Gr.hasSource (g : Gr S W) : Bool := g.nodes.any fun v => g.edges.all fun e => e.2.1 ≠ v
/-- some node has out-degree 0 -/
def Gr.hasSink (g : Gr S W) : Bool := g.nodes.any fun v => g.edges.all fun e => e.1 ≠ v

/-- state of the header loop -/
structure Hdr (S : Type) where
  headers : List S := []
  cons : List (List (S × S)) := []
  seen : List (List S) := []

/-- one iteration of the `while ... startswith("#")` loop -/
def scanLine (st : Hdr S) : Line S → Hdr S
  | .header t => { st with headers := st.headers ++ [t] }
  | .subpath toks =>
    if toks = [] then st
    else if toks ∈ st.seen then st
    else
      let es := toks.zip toks.tail
      { st with seen := st.seen ++ [toks], cons := if es = [] then st.cons else st.cons ++ [es] }
  | _ => st

def scanHeader (hs : List (Line S)) : Hdr S := hs.foldl scanLine {}

/-- the `for line in graph_raw[idx:]` loop -/
def parseEdges (o : Oracles S W Wd) : List (Line S) → Gr S W → Except PErr (Gr S W)
  | [], g => .ok g
  | .data _ toks :: rest, g =>
    match toks with
    | [u, v, ws] =>
      match o.parseFloat ws with
      | none => .error .badWeight
      | some w => parseEdges o rest (g.addEdge u v w)
    | _ => .error .badEdgeFormat
  | _ :: rest, g => parseEdges o rest g

/-- `int(graph_raw[idx].strip())`; a `#` line at this position never converts -/
def Line.countVal (o : Oracles S W Wd) : Line S → Option Int
  | .data text _ => o.parseInt text
  | _ => none

/-- what `read_graph` returns: the graph and the `G.graph` dictionary -/
structure PGraph (S W Wd : Type) where
  nodes : List S
  edges : List (S × S × W)
  /-- `none`: `str(id(graph_raw))` (no header line) -/
  id : Option S
  constraints : List (List (S × S))
  /-- `G.graph["n"]`, `["m"]`, `["w"]` -/
  n : Option Nat
  m : Option Nat
  w : Option Wd
  deriving DecidableEq, Repr

/-- the header part of a block and what follows it -/
def hashPart (ls : List (Line S)) : List (Line S) := ls.takeWhile Line.isHash
/-- the block from the vertex-count line on -/
def countPart (ls : List (Line S)) : List (Line S) := (ls.dropWhile Line.isHash).dropWhile Line.isBlank

/-- `read_graph` -/
def readGraph (o : Oracles S W Wd) (ls : List (Line S)) : Except PErr (PGraph S W Wd) :=
  let st := scanHeader (hashPart ls)
  match countPart ls with
  | [] => .error .missingCount
  | cl :: body =>
    match cl.countVal o with
    | none => .error .badCount
    | some n =>
      if n = 0 then
        if !st.cons.isEmpty then .error .zeroWithConstraints
        else if body.any Line.isData then .error .zeroWithData
        else
          .ok { nodes := [], edges := [], id := st.headers.head?, constraints := st.cons,
                n := some 0, m := some 0, w := some o.zeroWidth }
      else
        match parseEdges o body {} with
        | .error e => .error e
        | .ok g =>
          if st.cons.all (fun c => c.all fun e => g.hasEdge e.1 e.2) then
            if g.hasSource && g.hasSink then
              .ok { nodes := g.nodes, edges := g.edges, id := st.headers.head?, constraints := st.cons,
                    n := some g.nodes.length, m := some g.edges.length,
                    w := some (o.width g.nodes g.edges) }
            else .error .noSourceOrSink
          else .error .constraintEdgeMissing

/-- the block-splitting loop of `read_graphs`; one unit of fuel per block
(`FP.Parser.splitBlocks_flatten` shows that `length + 1` never runs out) -/
def splitBlocks : Nat → List (Line S) → List (List (Line S))
  | 0, _ => []
  | fuel + 1, ls =>
    match ls.dropWhile (fun l => !l.isHash) with
    | [] => []
    | ls' =>
      let r := ls'.dropWhile Line.isHash
      (ls'.takeWhile Line.isHash ++ r.takeWhile (fun l => !l.isHash))
        :: splitBlocks fuel (r.dropWhile (fun l => !l.isHash))

/-- `graphs.append(read_graph(block))` for each block in order; the first exception propagates -/
def readBlocks (o : Oracles S W Wd) : List (List (Line S)) → Except PErr (List (PGraph S W Wd))
  | [] => .ok []
  | b :: bs =>
    match readGraph o b with
    | .error e => .error e
    | .ok g =>
      match readBlocks o bs with
      | .error e => .error e
      | .ok gs => .ok (g :: gs)

/-- `read_graphs` on the classified lines of the file -/
def readGraphs (o : Oracles S W Wd) (ls : List (Line S)) : Except PErr (List (PGraph S W Wd)) :=
  readBlocks o (splitBlocks (ls.length + 1) ls)

end
end FP.Parser
