/-!
# FP.Model.Euler — model of `AbstractWalkModelDiGraph._reconstruct_eulerian_walk`

Transcription of flowpaths/abstractwalkmodeldigraph.py (`_reconstruct_eulerian_walk`,
`_build_closed_walk_from_vertex`, `_build_residual_graph_for_layer`):

* the residual graph is a python dict `vertex -> list of out-neighbours` (one entry per
  traversal), modelled as an association list `Adj V` with distinct keys;
* `graph[v].pop()` removes the **last** out-neighbour (`popOut`);
* the first phase (`trail`) follows unused edges from the source, pushing every departed
  vertex on `stack`;
* the second phase (`splice`) pops the stack; when the popped vertex still has unused
  out-edges a closed walk is built from it (`closed`, pushing on the *same* stack and
  stopping at the first return) and inserted right after the vertex's **first** occurrence
  in the walk (`walk.index`);
* finally the synthetic endpoints are stripped.

Loops take explicit fuel; `FP/Proofs/Euler*.lean` proves that the fuel supplied by
`reconstructFull` is sufficient, so fuel exhaustion never decides a theorem.
-/
namespace FP.Euler
variable {V : Type} [DecidableEq V]

abbrev Adj (V : Type) := List (V × List V)

def out (g : Adj V) (v : V) : List V := (g.lookup v).getD []

/-- `graph[v].pop()`: remove the last out-neighbour of `v`. -/
def popOut (g : Adj V) (v : V) : Adj V :=
  g.map fun kl => if kl.1 = v then (kl.1, kl.2.dropLast) else kl

/-- first `while graph[current_vertex]:` loop -/
def trail : Nat → Adj V → V → List V → List V → Adj V × V × List V × List V
  | 0, g, cur, walk, stack => (g, cur, walk, stack)
  | n+1, g, cur, walk, stack =>
    match (out g cur).getLast? with
    | none => (g, cur, walk, stack)
    | some nxt => trail n (popOut g cur) nxt (walk ++ [nxt]) (stack ++ [cur])

/-- `_build_closed_walk_from_vertex` (returns residual, closed walk, stack) -/
def closed : Nat → Adj V → V → V → List V → List V → Adj V × List V × List V
  | 0, g, _, _, cw, stack => (g, cw, stack)
  | n+1, g, start, cur, cw, stack =>
    match (out g cur).getLast? with
    | none => (g, cw, stack)
    | some nxt =>
      let g' := popOut g cur
      let stack' := stack ++ [cur]
      let cw' := cw ++ [nxt]
      if nxt = start then (g', cw', stack') else closed n g' start nxt cw' stack'

/-- `walk[idx+1:idx+1] = ins` where `idx = walk.index(v)` -/
def insertAfterFirst (walk : List V) (v : V) (ins : List V) : List V :=
  match walk with
  | [] => []
  | x :: xs => if x = v then x :: (ins ++ xs) else x :: insertAfterFirst xs v ins

/-- `while stack:` loop -/
def splice : Nat → Adj V → List V → List V → Adj V × List V
  | 0, g, walk, _ => (g, walk)
  | n+1, g, walk, stack =>
    match stack.getLast? with
    | none => (g, walk)
    | some v =>
      let stack' := stack.dropLast
      if (out g v).isEmpty then splice n g walk stack'
      else
        let r := closed (n+1) g v v [v] stack'
        splice n r.1 (insertAfterFirst walk v r.2.1.tail) r.2.2

def edgeCount (g : Adj V) : Nat := (g.map (·.2.length)).sum

/-- the multiset of edges (one per list entry) of an adjacency structure -/
def edges (g : Adj V) : List (V × V) := g.flatMap fun kl => kl.2.map fun w => (kl.1, w)

/-- the walk before the synthetic endpoints are stripped, and the residual left over -/
def reconstructFull (g : Adj V) (source : V) : Adj V × List V :=
  let m := edgeCount g
  let r := trail (m+1) g source [source] []
  splice (3*m + 2) r.1 r.2.2.1 r.2.2.2

/-- what `_reconstruct_eulerian_walk` returns -/
def reconstruct (g : Adj V) (source sink : V) : List V :=
  let walk := (reconstructFull g source).2
  if walk.length ≥ 2 ∧ walk.head? = some source ∧ walk.getLast? = some sink then
    (walk.drop 1).dropLast
  else if walk = [source] then [] else walk

/-- `total_edges_remaining` (only logged by the python code) -/
def remaining (g : Adj V) (source : V) : Nat := edgeCount (reconstructFull g source).1

end FP.Euler
