import FP.Model.WalkDecode
import FP.Model.Round
import FP.Model.Json
/-!
# FP.Model.WalkDecodeRound — `_build_residual_graph_for_layer` on raw solver values

`multiplicity = round(edge_vars_sol[(str(u), str(v), i)])`, then `for _ in range(multiplicity)`.
-/
namespace FP
open Lean

/-- the multigraph the user's vocabulary speaks of: every graph edge `e` repeated `m e` times -/
def multEdges (g : Graph) (m : Edge → Nat) : List Edge :=
  g.edges.flatMap fun e => List.replicate (m e) e

/-- `range(round(x))` iterations per edge -/
def roundMult (vals : Edge → Rat) : Edge → Nat := fun e => pyRoundCount (vals e)

/-- the walk of one layer for multiplicities `m` -/
def walkOfMult (g : Graph) (m : Edge → Nat) (s t : Node) : List Node :=
  Euler.reconstruct (buildResidual g m) s t

/-- the walk of one layer from the solver's values -/
def walkOfValues (g : Graph) (vals : Edge → Rat) (s t : Node) : List Node :=
  walkOfMult g (roundMult vals) s t

def handleRound (op : String) (j : Json) : Option (Except String Json) :=
  if op == "round.py" then some do
    -- {"xs": ["p/q", ...]} → {"rounded": [int...], "counts": [nat...]}
    let xs ← jList asRat j "xs"
    return Json.mkObj [("rounded", Json.arr (xs.map fun x => Json.num (pyRound x)).toArray),
                       ("counts", Json.arr (xs.map fun x => Json.num (pyRoundCount x : Nat)).toArray)]
  else if op == "residual.round" then some do
    -- {"nodes": [...], "edges": [[u,v],...], "values": ["p/q" | null, ...] aligned with edges};
    -- `null` = key absent from `edge_vars_sol` (the edge is skipped)
    let nodes ← jList (·.getStr?) j "nodes"
    let edges ← jList asStrPair j "edges"
    let vals ← jList (fun v => if v.isNull then pure (none : Option Rat) else some <$> asRat v) j "values"
    let tbl := edges.zip vals
    let f : Edge → Rat := fun e => ((tbl.lookup e).join).getD 0
    let adj := buildResidual { nodes := nodes, edges := edges } (roundMult f)
    return Json.mkObj [("adj", Json.arr (adj.map fun kl =>
      Json.arr #[Json.str kl.1, Json.arr (kl.2.map Json.str).toArray]).toArray)]
  else none

end FP
