import FP.Model.Basic
/-!
# FP.Model.Wrapper — model of the modelling helpers of `flowpaths/utils/solverwrapper.py`

* `binProd`   — `add_binary_continuous_product_constraint` (4 McCormick rows)
* `numBits`, `intProd` — `add_integer_continuous_product_constraint`
  (bit variables, `int_eq` row, per-bit `binProd`, `prod_eq` row)
* `piecewise` — `add_piecewise_constant_constraint` (one-hot `z`, big-M rows, `M = 2(max U − min L)`)
* `WState`/`WOp`/`wstep` — the state machine of columns, queued bound updates and objective
  (`add_variables`, `queue_fix_variable`, `queue_set_var_lower_bound`, `set_objective`,
  `optimize` = flush of the queues).

HiGHS calls are modelled by what they are documented to do (`changeColsBounds` sets both
bounds, `changeColsCost` sets costs); `getColsOrder` is the parameter that tells which components
of the tuple returned by `Highs.getCols` the code uses as "current upper bounds".
-/
namespace FP

/-- rows of `add_binary_continuous_product_constraint(b, c, p, lb, ub)` -/
def binProd (b c p : Var) (lb ub : Rat) : List Row :=
  [ rowLe [(1, p), (-ub, b)] 0,              -- p ≤ ub·b
    rowGe [(1, p), (-lb, b)] 0,              -- p ≥ lb·b
    rowLe [(1, p), (-1, c), (-lb, b)] (-lb), -- p ≤ c − lb·(1 − b)
    rowGe [(1, p), (-1, c), (-ub, b)] (-ub)  -- p ≥ c − ub·(1 − b)
  ]

/-- `ceil(log2(ub + 1))` for a natural `ub`: the least `n` with `ub + 1 ≤ 2^n` -/
def numBitsAux : Nat → Nat → Nat → Nat
  | 0, _, n => n
  | fuel+1, ub, n => if ub + 1 ≤ 2 ^ n then n else numBitsAux fuel ub (n+1)

def numBits (ub : Nat) : Nat := numBitsAux (ub + 1) ub 0

def bitVar (name : String) (i : Nat) : Var := .ix ("binary_" ++ name) i
def compVar (name : String) (i : Nat) : Var := .ix ("comp_" ++ name) i

/-- LP fragment of `add_integer_continuous_product_constraint(n, c, p, lb, ub, name)`;
`ubN` is `ub` as a natural number (the helper computes `ceil(log2(ub+1))` bits). -/
def intProd (n c p : Var) (lb : Rat) (ubN : Nat) (name : String) : LP :=
  let bits := List.range (numBits ubN)
  let ub : Rat := ubN
  { cols := bits.map (fun i => { v := bitVar name i, lb := 0, ub := some 1, isInt := true })
         ++ bits.map (fun i => { v := compVar name i, lb := lb, ub := some ub, isInt := false }),
    rows := [rowEq (bits.map (fun i => (((2:Rat)^i), bitVar name i)) ++ [(-1, n)]) 0]
         ++ bits.flatMap (fun i => binProd (bitVar name i) c (compVar name i) lb ub)
         ++ [rowEq (bits.map (fun i => (((2:Rat)^i), compVar name i)) ++ [(-1, p)]) 0] }

/-- `add_integer_continuous_product_constraint` for a bound `ub` that need not be a natural number
(e.g. `w_max * max(path_length_factors)`, a non-integral `total`): `ceil(log2(ub + 1))` is the least
`n` with `⌈ub⌉ + 1 ≤ 2^n`; the `comp` columns and the McCormick rows use `ub` itself. For a natural
`ub` this is `intProd`. -/
def intProdQ (n c p : Var) (lb ub : Rat) (name : String) : LP :=
  if ub.den = 1 ∧ 0 ≤ ub.num then intProd n c p lb ub.num.toNat name else
  let bits := List.range (numBits ub.ceil.toNat)
  { cols := bits.map (fun i => { v := bitVar name i, lb := 0, ub := some 1, isInt := true })
         ++ bits.map (fun i => { v := compVar name i, lb := lb, ub := some ub, isInt := false }),
    rows := [rowEq (bits.map (fun i => (((2:Rat)^i), bitVar name i)) ++ [(-1, n)]) 0]
         ++ bits.flatMap (fun i => binProd (bitVar name i) c (compVar name i) lb ub)
         ++ [rowEq (bits.map (fun i => (((2:Rat)^i), compVar name i)) ++ [(-1, p)]) 0] }

def zVar (name : String) (i : Nat) : Var := .ix ("z_" ++ name) i

def listMax (l : List Rat) : Rat := l.foldl max (l.headD 0)
def listMin (l : List Rat) : Rat := l.foldl min (l.headD 0)

def bigM (ranges : List (Rat × Rat)) : Rat :=
  (listMax (ranges.map (·.2)) - listMin (ranges.map (·.1))) * 2

/-- big-M of the rows linking `y` to the constants: the spread of the constants
(`M_y = max(constants) - min(constants)`; before fix 445f2b7 the code used `bigM ranges` here) -/
def bigMy (constants : List Rat) : Rat := listMax constants - listMin constants

/-- LP fragment of `add_piecewise_constant_constraint(x, y, ranges, constants, name)` -/
def piecewise (x y : Var) (ranges : List (Rat × Rat)) (constants : List Rat) (name : String) : LP :=
  let M := bigM ranges
  let My := bigMy constants
  let idx := List.range ranges.length
  { cols := idx.map (fun i => { v := zVar name i, lb := 0, ub := some 1, isInt := true }),
    rows := [rowEq (idx.map (fun i => ((1:Rat), zVar name i))) 1]
      ++ (idx.zip (ranges.zip constants)).flatMap (fun (i, (lu, c)) =>
          [ rowGe [(1, x), (-M, zVar name i)] (lu.1 - M),   -- x ≥ L − M(1 − z)
            rowLe [(1, x), (M, zVar name i)] (lu.2 + M),    -- x ≤ U + M(1 − z)
            rowLe [(1, y), (My, zVar name i)] (c + My),     -- y ≤ c + M_y(1 − z)
            rowGe [(1, y), (-My, zVar name i)] (c - My) ]) } -- y ≥ c − M_y(1 − z)

/-! ## State machine of the wrapper -/

structure WCol where
  lb : Rat
  ub : Rat
  cost : Rat
  deriving Repr, DecidableEq, Inhabited

structure WState where
  cols : List WCol := []
  pendingFix : List (Nat × Rat) := []
  pendingLb : List (Nat × Rat) := []
  deriving Repr, Inhabited

inductive WOp where
  | addVars (bounds : List (Rat × Rat))          -- add_variables
  | queueFix (idx : Nat) (v : Rat)               -- queue_fix_variable
  | queueLb (idx : Nat) (v : Rat)                -- queue_set_var_lower_bound
  | setObjective (terms : List (Nat × Rat))      -- set_objective (expression with possibly repeated vars)
  | optimize                                     -- flush of the queues
  deriving Repr, Inhabited

def setBounds (cols : List WCol) (i : Nat) (lb ub : Rat) : List WCol :=
  cols.modify i (fun c => { c with lb := lb, ub := ub })

/-- Which numbers the code passes as the new upper bounds when it raises lower bounds through
`changeColsBounds`: the real `Highs.getCols` returns `(status, n, costs, lower, upper, nnz)`;
`.upper` is the intended behaviour, `.lower` is what unpacking it as
`status, n, lowers, uppers, costs, nnz` and using `uppers` yields. -/
inductive GetColsField | upper | lower | cost
  deriving Repr, DecidableEq, Inhabited

def fieldOf (f : GetColsField) (c : WCol) : Rat :=
  match f with | .upper => c.ub | .lower => c.lb | .cost => c.cost

/-- `_apply_pending_bound_updates` (HiGHS branch; `changeColsLower` not available) -/
def flush (f : GetColsField) (s : WState) : WState :=
  let cols1 := s.pendingFix.foldl (fun cs (iv : Nat × Rat) => setBounds cs iv.1 iv.2 iv.2) s.cols
  -- `getCols` is called once, before `changeColsBounds`
  let ubs := s.pendingLb.map (fun (iv : Nat × Rat) => fieldOf f (cols1.getD iv.1 default))
  let cols2 := (s.pendingLb.zip ubs).foldl
      (fun cs (ivu : (Nat × Rat) × Rat) => setBounds cs ivu.1.1 ivu.1.2 ivu.2) cols1
  { cols := cols2, pendingFix := [], pendingLb := [] }

def setObjective (cols : List WCol) (terms : List (Nat × Rat)) : List WCol :=
  let zeroed := cols.map (fun c => { c with cost := 0 })
  -- `unique_elements` adds up the coefficients of repeated variables
  (List.range zeroed.length).zip zeroed |>.map fun (i, c) =>
    { c with cost := ((terms.filter (·.1 = i)).map (·.2)).sum }

def wstep (f : GetColsField) (s : WState) : WOp → WState
  | .addVars bs => { s with cols := s.cols ++ bs.map (fun b => { lb := b.1, ub := b.2, cost := 0 }) }
  | .queueFix i v => { s with pendingFix := s.pendingFix ++ [(i, v)] }
  | .queueLb i v => { s with pendingLb := s.pendingLb ++ [(i, v)] }
  | .setObjective ts => { s with cols := setObjective s.cols ts }
  | .optimize => flush f s

def wrun (f : GetColsField) (ops : List WOp) : WState := ops.foldl (wstep f) {}

end FP
