import FP.Model.Basic
/-!
# FP.Model.Wrapper — model of the modelling helpers of `flowpaths/utils/solverwrapper.py`

* `binProd`   — `add_binary_continuous_product_constraint` (4 McCormick rows)
* `numBits`, `intProd` — `add_integer_continuous_product_constraint`
  (bit variables, `int_eq` row, per-bit `binProd`, `prod_eq` row)
* `piecewise` — `add_piecewise_constant_constraint` (one-hot `z`, big-M rows, `M = 2(max U − min L)`)
* `WState`/`WOp`/`wstep` — the state machine of columns, queued bound updates and objective
  (`add_variables`, `queue_fix_variable`, `queue_set_var_lower_bound`, `set_objective` = costs, objective
  constant (offset) and sense, `optimize` = flush of the queues followed by a solve of the box model).
* `boxOptimum`/`solveBox` — what a solve of a model without rows (a box with a linear objective) yields;
  `readValues`/`getValues`/`getObjectiveValue` — `get_values` (index lookup in the solution vector of the
  last solve) and `get_objective_value`; `wsnaps` — the states observed right after every `optimize`.

HiGHS calls are modelled by what they are documented to do (`changeColsBounds` sets both
bounds, `changeColsCost` sets costs); `getColsOrder` is the parameter that tells which components
of the tuple returned by `Highs.getCols` the code uses as "current upper bounds".
-/
namespace FP

/-- rows of `add_binary_continuous_product_constraint(b, c, p, lb, ub)` -/
def binProd (b c p : Var) (lb ub : Rat) : List Row :=
  [ rowLe [(1, p), (-ub, b)] 0,              -- p ≤ ub·b
    rowGe [(1, p), (-lb, b)] 0,              -- p ≥ lb·b
    rowLe [(1, p), (-1, c), (-lb, b)] (-lb), -- p ≤ c − lb·(1 − b)
    rowGe [(1, p), (-1, c), (-ub, b)] (-ub)  -- p ≥ c − ub·(1 − b)
  ]

/-- `int(ceil(ub)).bit_length()` (since fix 028c63d; before: `ceil(log2(ub + 1))` in floating point, one short from
`ub = 2^49` on) for a natural `ub`: the least `n` with `ub + 1 ≤ 2^n` -/
def numBitsAux : Nat → Nat → Nat → Nat
  | 0, _, n => n
  | fuel+1, ub, n => if ub + 1 ≤ 2 ^ n then n else numBitsAux fuel ub (n+1)

def numBits (ub : Nat) : Nat := numBitsAux (ub + 1) ub 0

def bitVar (name : String) (i : Nat) : Var := .ix ("binary_" ++ name) i
def compVar (name : String) (i : Nat) : Var := .ix ("comp_" ++ name) i

/-- LP fragment of `add_integer_continuous_product_constraint(n, c, p, lb, ub, name)`;
`ubN` is `ub` as a natural number (the helper computes `ceil(log2(ub+1))` bits). -/
def intProd (n c p : Var) (lb : Rat) (ubN : Nat) (name : String) : LP :=
  let bits := List.range (numBits ubN)
  let ub : Rat := ubN
  { cols := bits.map (fun i => { v := bitVar name i, lb := 0, ub := some 1, isInt := true })
         ++ bits.map (fun i => { v := compVar name i, lb := lb, ub := some ub, isInt := false }),
    rows := [rowEq (bits.map (fun i => (((2:Rat)^i), bitVar name i)) ++ [(-1, n)]) 0]
         ++ bits.flatMap (fun i => binProd (bitVar name i) c (compVar name i) lb ub)
         ++ [rowEq (bits.map (fun i => (((2:Rat)^i), compVar name i)) ++ [(-1, p)]) 0] }

/-- `add_integer_continuous_product_constraint` for a bound `ub` that need not be a natural number
(e.g. `w_max * max(path_length_factors)`, a non-integral `total`): `ceil(log2(ub + 1))` is the least
`n` with `⌈ub⌉ + 1 ≤ 2^n`; the `comp` columns and the McCormick rows use `ub` itself. For a natural
`ub` this is `intProd`. -/
def intProdQ (n c p : Var) (lb ub : Rat) (name : String) : LP :=
  if ub.den = 1 ∧ 0 ≤ ub.num then intProd n c p lb ub.num.toNat name else
  let bits := List.range (numBits ub.ceil.toNat)
  { cols := bits.map (fun i => { v := bitVar name i, lb := 0, ub := some 1, isInt := true })
         ++ bits.map (fun i => { v := compVar name i, lb := lb, ub := some ub, isInt := false }),
    rows := [rowEq (bits.map (fun i => (((2:Rat)^i), bitVar name i)) ++ [(-1, n)]) 0]
         ++ bits.flatMap (fun i => binProd (bitVar name i) c (compVar name i) lb ub)
         ++ [rowEq (bits.map (fun i => (((2:Rat)^i), compVar name i)) ++ [(-1, p)]) 0] }

def zVar (name : String) (i : Nat) : Var := .ix ("z_" ++ name) i

def listMax (l : List Rat) : Rat := l.foldl max (l.headD 0)
def listMin (l : List Rat) : Rat := l.foldl min (l.headD 0)

def bigM (ranges : List (Rat × Rat)) : Rat :=
  (listMax (ranges.map (·.2)) - listMin (ranges.map (·.1))) * 2

/-- big-M of the rows linking `y` to the constants: the spread of the constants
(`M_y = max(constants) - min(constants)`; before fix 445f2b7 the code used `bigM ranges` here) -/
def bigMy (constants : List Rat) : Rat := listMax constants - listMin constants

/-- LP fragment of `add_piecewise_constant_constraint(x, y, ranges, constants, name)` -/
def piecewise (x y : Var) (ranges : List (Rat × Rat)) (constants : List Rat) (name : String) : LP :=
  let M := bigM ranges
  let My := bigMy constants
  let idx := List.range ranges.length
  { cols := idx.map (fun i => { v := zVar name i, lb := 0, ub := some 1, isInt := true }),
    rows := [rowEq (idx.map (fun i => ((1:Rat), zVar name i))) 1]
      ++ (idx.zip (ranges.zip constants)).flatMap (fun (i, (lu, c)) =>
          [ rowGe [(1, x), (-M, zVar name i)] (lu.1 - M),   -- x ≥ L − M(1 − z)
            rowLe [(1, x), (M, zVar name i)] (lu.2 + M),    -- x ≤ U + M(1 − z)
            rowLe [(1, y), (My, zVar name i)] (c + My),     -- y ≤ c + M_y(1 − z)
            rowGe [(1, y), (-My, zVar name i)] (c - My) ]) } -- y ≥ c − M_y(1 − z)

/-! ## State machine of the wrapper -/

structure WCol where
  lb : Rat
  ub : Rat
  cost : Rat
  deriving Repr, DecidableEq, Inhabited

/-- what the backend holds after `Highs.optimize()` on a model without rows: the model status, and for an
optimal solve the solution vector (`allVariableValues`) and the objective value (`getObjectiveValue`) -/
inductive Solve where
  | infeasible
  | optimal (x : List Rat) (obj : Rat)
  deriving Repr, DecidableEq, Inhabited

structure WState where
  cols : List WCol := []
  pendingFix : List (Nat × Rat) := []
  pendingLb : List (Nat × Rat) := []
  /-- objective constant (`HighsLp.offset_`, set by `changeObjectiveOffset`) -/
  offset : Rat := 0
  /-- objective sense (`changeObjectiveSense`); `false` = minimise (the default of HiGHS and of the wrapper) -/
  maximize : Bool := false
  /-- result of the last `optimize()`; `none` = never solved -/
  last : Option Solve := none
  /-- number of `optimize()` calls so far -/
  nSolves : Nat := 0
  deriving Repr, Inhabited

inductive WOp where
  | addVars (bounds : List (Rat × Rat))          -- add_variables
  | queueFix (idx : Nat) (v : Rat)               -- queue_fix_variable
  | queueLb (idx : Nat) (v : Rat)                -- queue_set_var_lower_bound
  /-- `set_objective(expr, sense)`: `terms` = the (index, coefficient) pairs of the expression (possibly with
  repeated variables), `const` = `expr.constant` (`none` when the expression has no constant term),
  `maximize` = `sense in ["maximize", "max"]` -/
  | setObjective (terms : List (Nat × Rat)) (const : Option Rat := none) (maximize : Bool := false)
  | optimize                                     -- flush of the queues, then solve
  deriving Repr, Inhabited

def setBounds (cols : List WCol) (i : Nat) (lb ub : Rat) : List WCol :=
  cols.modify i (fun c => { c with lb := lb, ub := ub })

/-- Which numbers the code passes as the new upper bounds when it raises lower bounds through
`changeColsBounds`: the real `Highs.getCols` returns `(status, n, costs, lower, upper, nnz)`;
`.upper` is the intended behaviour, `.lower` is what unpacking it as
`status, n, lowers, uppers, costs, nnz` and using `uppers` yields. -/
inductive GetColsField | upper | lower | cost
  deriving Repr, DecidableEq, Inhabited

def fieldOf (f : GetColsField) (c : WCol) : Rat :=
  match f with | .upper => c.ub | .lower => c.lb | .cost => c.cost

/-- `_apply_pending_bound_updates` (HiGHS branch; `changeColsLower` not available) -/
def flush (f : GetColsField) (s : WState) : WState :=
  let cols1 := s.pendingFix.foldl (fun cs (iv : Nat × Rat) => setBounds cs iv.1 iv.2 iv.2) s.cols
  -- `getCols` is called once, before `changeColsBounds`
  let ubs := s.pendingLb.map (fun (iv : Nat × Rat) => fieldOf f (cols1.getD iv.1 default))
  let cols2 := (s.pendingLb.zip ubs).foldl
      (fun cs (ivu : (Nat × Rat) × Rat) => setBounds cs ivu.1.1 ivu.1.2 ivu.2) cols1
  { s with cols := cols2, pendingFix := [], pendingLb := [] }

def setObjective (cols : List WCol) (terms : List (Nat × Rat)) : List WCol :=
  let zeroed := cols.map (fun c => { c with cost := 0 })
  -- `unique_elements` adds up the coefficients of repeated variables
  (List.range zeroed.length).zip zeroed |>.map fun (i, c) =>
    { c with cost := ((terms.filter (·.1 = i)).map (·.2)).sum }

/-- `changeObjectiveOffset(expr.constant or 0.0)`: an expression without a constant term sets the offset `0` -/
def offsetOf (const : Option Rat) : Rat := const.getD 0

/-- the column indices (`highs_var.index`) of the variables a call `add_variables(indexes, …)` returns, in
the order of `indexes`: `addVariables` appends the new columns, the `k`-th new variable is column `numCol + k` -/
def addVarsHandles (s : WState) (bounds : List (Rat × Rat)) : List Nat :=
  List.range' s.cols.length bounds.length

/-! ### solve of a model without rows, read-back -/

/-- the value an optimal solution takes on a column whose optimal value is determined: the lower bound if
moving up makes the objective worse, the upper bound if moving down does (for a cost-`0` column every value of
`[lb, ub]` is optimal; `lb` is the representative chosen here) -/
def colOpt (maximize : Bool) (c : WCol) : Rat :=
  if maximize then (if 0 < c.cost then c.ub else c.lb) else (if c.cost < 0 then c.ub else c.lb)

def boxOptimum (maximize : Bool) (cols : List WCol) : List Rat := cols.map (colOpt maximize)

def boxFeasible (cols : List WCol) : Bool := cols.all (fun c => decide (c.lb ≤ c.ub))

/-- `Σ cost·x + offset` -/
def objValue (cols : List WCol) (offset : Rat) (x : List Rat) : Rat :=
  ((cols.zip x).map (fun cx => cx.1.cost * cx.2)).sum + offset

/-- the optimal value of the column is the same in every optimal solution -/
def colDetermined (c : WCol) : Bool := decide (c.cost ≠ 0) || decide (c.lb = c.ub)

/-- `Highs.optimize()` on the columns, objective constant and sense of the state -/
def solveBox (maximize : Bool) (cols : List WCol) (offset : Rat) : Solve :=
  if boxFeasible cols then
    .optimal (boxOptimum maximize cols) (objValue cols offset (boxOptimum maximize cols))
  else .infeasible

/-- the entries of the solution vector that every optimal solution shares (`none`: not determined) -/
def expectedValues (maximize : Bool) (cols : List WCol) : List (Option Rat) :=
  cols.map (fun c => if colDetermined c then some (colOpt maximize c) else none)

/-- the loop of `get_values`: `result[key] = all_vals[var.index]` for every `(key, var)` of `variables.items()`,
in that order; an index outside the vector raises (`IndexError`) -/
def readValues {κ : Type} (x : List Rat) (asked : List (κ × Nat)) : Option (List (κ × Rat)) :=
  asked.mapM (fun kv => (x[kv.2]?).map (fun v => (kv.1, v)))

/-- `get_values(variables)` after an optimal solve: `get_all_variable_values()` is the solution vector of the
last solve. (`none` also when there is no optimal solve to read from: what HiGHS keeps then is not modelled.) -/
def getValues {κ : Type} (s : WState) (asked : List (κ × Nat)) : Option (List (κ × Rat)) :=
  match s.last with
  | some (.optimal x _) => readValues x asked
  | _ => none

/-- `get_objective_value()` after an optimal solve -/
def getObjectiveValue (s : WState) : Option Rat :=
  match s.last with
  | some (.optimal _ obj) => some obj
  | _ => none

def wstep (f : GetColsField) (s : WState) : WOp → WState
  | .addVars bs => { s with cols := s.cols ++ bs.map (fun b => { lb := b.1, ub := b.2, cost := 0 }) }
  | .queueFix i v => { s with pendingFix := s.pendingFix ++ [(i, v)] }
  | .queueLb i v => { s with pendingLb := s.pendingLb ++ [(i, v)] }
  | .setObjective ts const mx =>
    { s with cols := setObjective s.cols ts, offset := offsetOf const, maximize := mx }
  | .optimize =>
    let s' := flush f s
    { s' with last := some (solveBox s'.maximize s'.cols s'.offset), nSolves := s.nSolves + 1 }

def wrun (f : GetColsField) (ops : List WOp) : WState := ops.foldl (wstep f) {}

def WOp.isOptimize : WOp → Bool
  | .optimize => true
  | _ => false

/-- the states right after every `optimize` of a history (what a caller that reads back after each solve sees) -/
def wsnapsFrom (f : GetColsField) : WState → List WOp → List WState
  | _, [] => []
  | s, o :: rest =>
    let s' := wstep f s o
    if o.isOptimize then s' :: wsnapsFrom f s' rest else wsnapsFrom f s' rest

def wsnaps (f : GetColsField) (ops : List WOp) : List WState := wsnapsFrom f {} ops

end FP
