import FP.Model.WalkCore
import FP.Model.SafetyDom
import FP.Model.SafetyFix
import FP.Model.Enc.WalkInput
import FP.Model.Enc.KFDC
import FP.Model.Enc.KCoverC
/-!
# FP.Model.WalkSafetyRows — what `_apply_safety_optimizations` adds to the LP of a walk model

Mirrors, as written, `AbstractWalkModelDiGraph._apply_safety_optimizations` and
`_apply_safety_optimizations_fix_zero_edges` (`flowpaths/abstractwalkmodeldigraph.py`), and the use the
subclasses make of `edges_set_to_zero` / `edges_set_to_one`
(`kflowdecompcycles.py: _encode_flow_decomposition`).

```
safe_lists = maximal_safe_sequences_via_dominators(G, X)      if any of the three main flags is on
if optimize_with_safety_as_subset_constraints:   subset_constraints += safe_lists;  return
walks_to_fix = get_longest_incompatible_sequences(safe_lists)  ([] when safe_lists is empty)
if optimize_with_safe_sequences_fix_zero_edges:  row x(e,i) = 0 for every unprotected edge of slot i
if optimize_with_max_safe_antichain_as_subset_constraints:  subset_constraints += walks_to_fix;  return
if optimize_with_safe_sequences:
    for i < min(len(walks_to_fix), k), for (e, m) in Counter(walks_to_fix[i]).items():
        SCC edge     -> only if ..._allow_geq_constraints:  x(e,i) >= m  (row)  |  lower bound m (via bounds)
        non-SCC edge -> m != 1 raises;  x(e,i) = 1 (row)  |  LB = UB = 1 (via bounds);  edges_set_to_one
```

* `safetyExtra` — the fragment (rows, queued bound changes, appended subset constraints and the two
  dictionaries) from the data the routines of C06 compute: `safeLists` (`Safety.maxSafeSeqs`),
  `walksToFix` (`Safety.longestIncompatible`), `zeroFixed` (`Safety.zeroFix`);
* `safetyPipeline` — those three computations chained as the code chains them. The SCC numbering and the
  antichain of the expanded condensation are captured from the real run (as in C06);
* `walkCoreS`, `kcovercLPS`, `kfdcLPS` — the LP of `create_solver_and_walks` / `kPathCoverCycles` /
  `kFlowDecompCycles` with the fragment applied: bound changes on the edge columns (what
  `_apply_pending_bound_updates` does before the solve: fixes first, then lower bounds, the last request for a
  variable wins), extra rows, extended subset block, simplified product rows.
-/
namespace FP
open FP.Safety

/-- the six flags read by `_apply_safety_optimizations` -/
structure SafetyOpts where
  /-- `optimize_with_safe_sequences` -/
  safeSequences : Bool := false
  /-- `optimize_with_safe_sequences_allow_geq_constraints` -/
  allowGeq : Bool := false
  /-- `optimize_with_safe_sequences_fix_via_bounds` -/
  viaBounds : Bool := false
  /-- `optimize_with_safe_sequences_fix_zero_edges` -/
  fixZero : Bool := false
  /-- `optimize_with_safety_as_subset_constraints` -/
  asSubset : Bool := false
  /-- `optimize_with_max_safe_antichain_as_subset_constraints` -/
  antichainSubset : Bool := false
  deriving Repr, Inhabited, DecidableEq

/-- what the safety step leaves behind -/
structure SafetyFrag where
  /-- rows added with `add_constraint` -/
  rows : List Row := []
  /-- `queue_set_var_lower_bound(var, m)` requests, in order -/
  lower : List (Var × Rat) := []
  /-- `queue_fix_variable(var, 1)` requests, in order -/
  fixed : List (Var × Rat) := []
  /-- lists appended to `self.subset_constraints` -/
  constraints : List (List Edge) := []
  /-- keys of `edges_set_to_zero`, in insertion order -/
  zero : List (Edge × Nat) := []
  /-- keys of `edges_set_to_one`, in insertion order -/
  one : List (Edge × Nat) := []
  deriving Repr, Inhabited

/-- `Counter(walk).items()`: the distinct edges in order of first occurrence, with their multiplicities -/
def counterOf (walk : List Edge) : List (Edge × Nat) := walk.eraseDups.map fun e => (e, walk.count e)

/-- `(e, i, m)` for every slot `i < min(len(walks_to_fix), k)` and every `(e, m)` of the slot's counter
(an empty walk contributes nothing, as the `continue` of the code) -/
def seqEntries (k : Nat) (walks : List (List Edge)) : List (Edge × Nat × Nat) :=
  (List.range (min walks.length k)).flatMap fun i =>
    (counterOf (walks.getD i [])).map fun p => (p.1, i, p.2)

/-- the entries on edges inside an SCC (`x ≥ m`) -/
def geqEntries (g : Graph) (k : Nat) (walks : List (List Edge)) : List (Edge × Nat × Nat) :=
  (seqEntries k walks).filter fun p => isSccEdge g p.1
/-- the entries on edges outside the SCCs (`x = 1`) -/
def eqEntries (g : Graph) (k : Nat) (walks : List (List Edge)) : List (Edge × Nat × Nat) :=
  (seqEntries k walks).filter fun p => !isSccEdge g p.1

/-- the `raise ValueError("Unexpected multiplicity ...")` of the loop -/
def safetyRaises (g : Graph) (k : Nat) (walks : List (List Edge)) : Bool :=
  (eqEntries g k walks).any fun p => p.2.2 != 1

/-- rows `x(e,i) = 0` of `_apply_safety_optimizations_fix_zero_edges` -/
def zeroRows (zs : List (Edge × Nat)) : List Row := zs.map fun p => rowEq [(1, edgeVar p.1 p.2)] 0

/-- rows `x(e,i) ≥ m` (only with `allow_geq_constraints`) -/
def geqRows (g : Graph) (k : Nat) (walks : List (List Edge)) : List Row :=
  (geqEntries g k walks).map fun p => rowGe [(1, edgeVar p.1 p.2.1)] (p.2.2 : Rat)

/-- rows `x(e,i) = 1` -/
def eqRows (g : Graph) (k : Nat) (walks : List (List Edge)) : List Row :=
  (eqEntries g k walks).map fun p => rowEq [(1, edgeVar p.1 p.2.1)] 1

/-- **`_apply_safety_optimizations`** given the three computed inputs -/
def safetyExtra (s : STGraph) (k : Nat) (safeLists walksToFix : List (List Edge))
    (zeroFixed : List (Edge × Nat)) (o : SafetyOpts) : SafetyFrag :=
  if !(o.safeSequences || o.asSubset || o.antichainSubset) then {} else
  if o.asSubset then { constraints := safeLists } else
  let zs := if o.fixZero then zeroFixed else []
  if o.antichainSubset then { rows := zeroRows zs, zero := zs, constraints := walksToFix } else
  -- here `optimize_with_safe_sequences` is on
  let geq := if o.allowGeq then geqEntries s.g k walksToFix else []
  let eq := eqEntries s.g k walksToFix
  if o.viaBounds then
    { rows := zeroRows zs, zero := zs,
      lower := geq.map fun p => (edgeVar p.1 p.2.1, (p.2.2 : Rat)),
      fixed := eq.map fun p => (edgeVar p.1 p.2.1, (1 : Rat)),
      one := eq.map fun p => (p.1, p.2.1) }
  else
    { rows := zeroRows zs
        ++ (if o.allowGeq then geqRows s.g k walksToFix else [])
        ++ eqRows s.g k walksToFix,
      zero := zs,
      one := eq.map fun p => (p.1, p.2.1) }

/-- the row variant of a fragment: every queued bound change written as the row the code would add with
`fix_via_bounds = False` -/
def SafetyFrag.asRows (fr : SafetyFrag) : List Row :=
  fr.rows ++ fr.lower.map (fun p => rowGe [(1, p.1)] p.2) ++ fr.fixed.map (fun p => rowEq [(1, p.1)] p.2)

/-- does the safety step run at all / up to where (for `safetyPipeline`) -/
def SafetyOpts.active (o : SafetyOpts) : Bool := o.safeSequences || o.asSubset || o.antichainSubset

/-- the computations of `_apply_safety_optimizations` chained as in the code. `X` is
`trusted_edges_for_safety` in its iteration order; `mapping` and `anti` are the SCC numbering of
`nx.condensation` and the antichain returned by `compute_max_edge_antichain` (captured, see
`FP/Model/SafetyFix.lean`). -/
def safetyPipeline (s : STGraph) (k : Nat) (X : List Edge) (mapping : List (Node × Nat))
    (anti : List (String × String)) (o : SafetyOpts) : Res SafetyFrag :=
  if !o.active then .ok {} else
  match maxSafeSeqs s.g s.source s.sink X with
  | .raises w => .raises w
  | .fuel => .fuel
  | .ok safe =>
    if o.asSubset then .ok (safetyExtra s k safe [] [] o) else
    match (if safe.isEmpty then Res.ok [] else longestIncompatible ⟨s.g, mapping⟩ safe anti) with
    | .raises w => .raises w
    | .fuel => .fuel
    | .ok walks =>
      match (if o.fixZero then zeroFix s.g walks k else Res.ok []) with
      | .raises w => .raises w
      | .fuel => .fuel
      | .ok zs =>
        if !o.antichainSubset && o.safeSequences && safetyRaises s.g k walks then
          .raises "ValueError: Unexpected multiplicity"
        else .ok (safetyExtra s k safe walks zs o)

/-! ## the LP with the fragment applied -/

/-- the last queued value for `v`, if any (`{v.index: val for ...}` keeps the last) -/
def lookupLast (l : List (Var × Rat)) (v : Var) : Option Rat :=
  l.foldl (fun acc p => if p.1 = v then some p.2 else acc) none

/-- `_apply_pending_bound_updates` on one column: fixes (`LB = UB = value`) first, then lower bounds -/
def applyBounds (fr : SafetyFrag) (c : Col) : Col :=
  let c1 : Col := match lookupLast fr.fixed c.v with
    | some q => { c with lb := q, ub := some q }
    | none => c
  match lookupLast fr.lower c.v with
  | some q => { c1 with lb := q }
  | none => c1

/-- the configuration after `self.subset_constraints += ...` -/
def WalkCfg.withSafety (c : WalkCfg) (fr : SafetyFrag) : WalkCfg :=
  { c with constraints := c.constraints ++ fr.constraints }

/-- `create_solver_and_walks`: `_encode_walks`, `_apply_safety_optimizations`, `_encode_subset_constraints`
(on the extended list), with the queued bound changes flushed -/
def walkCoreS (s : STGraph) (c : WalkCfg) (ub : Edge → Rat) (fr : SafetyFrag) : LP :=
  let c' := c.withSafety fr
  let enc := encodeWalks s c' ub
  ({ enc with cols := enc.cols.map (applyBounds fr), rows := enc.rows ++ fr.rows } : LP).append
    (subsetBlock s c' ub)

/-- the loop of `_encode_flow_decomposition` with its three branches: `pi = 0` for a key of
`edges_set_to_zero`, `pi = weight` for a key of `edges_set_to_one`, the product block otherwise -/
def walkProductsS (zero one : List (Edge × Nat)) (edges : List Edge) (k : Nat) (cont : Nat → Var)
    (prod : Edge → Nat → Var) (ub : Rat) (name : Edge → Nat → String) : LP :=
  let parts : List LP := edges.flatMap fun e => (List.range k).map fun i =>
    if zero.contains (e, i) then { rows := [rowEq [(1, prod e i)] 0] }
    else if one.contains (e, i) then { rows := [rowEq [(1, prod e i), (-1, cont i)] 0] }
    else intProdQ (edgeVar e i) (cont i) (prod e i) 0 ub (name e i)
  { cols := parts.flatMap (·.cols), rows := parts.flatMap (·.rows) }

/-- `kPathCoverCycles.__init__` with the safety step -/
def kcovercLPS (inp : WalkInput) (fr : SafetyFrag) : LP :=
  let s := inp.st
  let ks := List.range inp.k
  let bounds := kcovercBounds s
  let ub := fun e => lookupD bounds e 1
  (walkCoreS s inp.cfg ub fr).append
    { rows := (inp.activeEdges false).map fun e => rowGe (ones ks (edgeVar e)) 1,
      obj := s.g.edges.flatMap fun e => ks.map fun i => ((1 : Rat), edgeVar e i) }

/-- `kFlowDecompCycles.__init__` with the safety step -/
def kfdcLPS (inp : WalkInput) (given : Option (List Rat)) (fr : SafetyFrag) : LP :=
  let s := inp.st
  let k := inp.k
  let ks := List.range k
  let wm := inp.wmax false
  let bounds := kfdcBounds inp
  let ub := fun e => lookupD bounds e 1
  let active := inp.activeEdges false
  let prods := walkProductsS fr.zero fr.one active k weightsVar piVar wm kfdcProdName
  let flowLP : LP :=
    { cols := (ks.flatMap fun i => s.g.edges.map fun e =>
          { v := piVar e i, lb := 0, ub := some wm, isInt := inp.weightInt })
        ++ (ks.map fun i => { v := weightsVar i, lb := 0, ub := some wm, isInt := inp.weightInt })
        ++ prods.cols,
      rows := prods.rows
        ++ active.map fun e => rowEq (ones ks (piVar e)) (inp.f e) }
  let lp := (walkCoreS s inp.cfg ub fr).append flowLP
  match given with
  | none => lp
  | some ws =>
    lp.append
      { rows := (List.range ws.length).map fun i => rowEq [(1, weightsVar i)] (ws.getD i 0),
        obj := s.g.edges.flatMap fun e => ks.map fun i => ((1 : Rat), edgeVar e i) }

/-- `trusted_edges_for_safety` of `kPathCoverCycles`: the edges that are not ignored (a python `set`) -/
def kcovercTrusted (inp : WalkInput) : List Edge := inp.activeEdges false

/-- `trusted_edges_for_safety` of `kFlowDecompCycles`: `get_non_zero_flow_edges` (a python `set`) -/
def kfdcTrusted (inp : WalkInput) : List Edge :=
  (inp.activeEdges false).filter fun e => (inp.fOpt e).getD 0 != 0

end FP
