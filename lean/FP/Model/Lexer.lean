import FP.Model.Json
import FP.Model.Parser
/-!
# FP.Model.Lexer — character-level model of the `str` primitives used by `read_graph` / `read_graphs`

`flowpaths.utils.graphutils` looks at the characters of a line only through `str.lstrip()`, `str.strip()`,
`str.split()` (no argument), `str.startswith('#')`, `str.startswith("#S")`, `stripped[2:]` and
`str.lstrip('#')`.  They are modelled here on `List Char` by structural recursion; `classify` turns one raw line
into the `Parser.Line` the token-level model `FP/Model/Parser.lean` consumes, statement by statement as
`harness/props/c20.py: classify` (which calls the real primitives exactly as `read_graph` does).
The tie is the suite `K1.lexer` of `harness/props/c20.py` (driver op `lex.classify`).
-/
namespace FP.Lexer
open FP.Parser

/-- the characters for which python's `str.isspace()` holds (= the separators of `str.split()` and the characters
removed by `str.strip()` on `str` objects) -/
def isPySpace (c : Char) : Bool :=
  let n := c.toNat
  (0x9 ≤ n && n ≤ 0xD) || (0x1C ≤ n && n ≤ 0x20) || n == 0x85 || n == 0xA0 || n == 0x1680 ||
  (0x2000 ≤ n && n ≤ 0x200A) || n == 0x2028 || n == 0x2029 || n == 0x202F || n == 0x205F || n == 0x3000

/-- `s.lstrip()` -/
def lstrip : List Char → List Char
  | [] => []
  | c :: cs => if isPySpace c then lstrip cs else c :: cs

/-- `s.rstrip()` -/
def rstrip : List Char → List Char
  | [] => []
  | c :: cs => if (rstrip cs).isEmpty && isPySpace c then [] else c :: rstrip cs

/-- `s.strip()` -/
def strip (cs : List Char) : List Char := rstrip (lstrip cs)

/-- `s.split()`: the maximal runs of non-whitespace characters -/
def splitWs : List Char → List (List Char)
  | [] => []
  | c :: cs =>
    if isPySpace c then splitWs cs
    else match cs with
      | [] => [[c]]
      | d :: _ =>
        if isPySpace d then [c] :: splitWs cs
        else match splitWs cs with
          | [] => [[c]]
          | t :: ts => (c :: t) :: ts

/-- `s.startswith(p)` -/
def startsWith : List Char → List Char → Bool
  | _, [] => true
  | [], _ :: _ => false
  | c :: cs, p :: ps => c == p && startsWith cs ps

/-- `s.lstrip(ch)` for a one-character argument -/
def lstripChar (ch : Char) : List Char → List Char
  | [] => []
  | c :: cs => if c == ch then lstripChar ch cs else c :: cs

/-- `classify` of `harness/props/c20.py` on character lists -/
def classifyL (line : List Char) : Line (List Char) :=
  if startsWith (lstrip line) ['#'] then
    let stripped := lstrip line
    if startsWith stripped ['#', 'S'] then .subpath (splitWs (strip (stripped.drop 2)))
    else .header (strip (lstripChar '#' stripped))
  else if (strip line).isEmpty then .blank
  else .data (strip line) (splitWs line)

def mapLine {A B} (f : A → B) : Line A → Line B
  | .header t => .header (f t)
  | .subpath ts => .subpath (ts.map f)
  | .blank => .blank
  | .data t ts => .data (f t) (ts.map f)

/-- one raw line of a graph file ↦ the classified line of the token-level model -/
def classify (s : String) : Line String := mapLine String.ofList (classifyL s.toList)

/-! ## driver op `lex.classify`

Request `{"op":"lex.classify","lines":[s..]}` and/or `"cps":[[code point..]..]` (the same lines as code-point
arrays; this transport does not depend on JSON string escapes).  Answer: one object per line (first those of
`lines`, then those of `cps`): `{"kind","text","tokens","text_cp","tokens_cp"}`. -/
open Lean

def cpArr (cs : List Char) : Json := Json.arr (cs.map fun c => Json.num c.toNat).toArray

def lineJson : Line (List Char) → Json
  | .header t => Json.mkObj [("kind", "header"), ("text", Json.str (String.ofList t)), ("tokens", Json.arr #[]),
      ("text_cp", cpArr t), ("tokens_cp", Json.arr #[])]
  | .subpath ts => Json.mkObj [("kind", "subpath"), ("text", Json.str ""), ("tokens", strArr (ts.map String.ofList)),
      ("text_cp", cpArr []), ("tokens_cp", Json.arr (ts.map cpArr).toArray)]
  | .blank => Json.mkObj [("kind", "blank"), ("text", Json.str ""), ("tokens", Json.arr #[]),
      ("text_cp", cpArr []), ("tokens_cp", Json.arr #[])]
  | .data t ts => Json.mkObj [("kind", "data"), ("text", Json.str (String.ofList t)),
      ("tokens", strArr (ts.map String.ofList)),
      ("text_cp", cpArr t), ("tokens_cp", Json.arr (ts.map cpArr).toArray)]

def asCps (j : Json) : Except String (List Char) := do
  let ns ← asList (·.getNat?) j
  return ns.map Char.ofNat

def handleLexer (op : String) (j : Json) : Option (Except String Json) :=
  if op = "lex.classify" then some do
    let ls := (jList (·.getStr?) j "lines").toOption.getD []
    let cps := (jList asCps j "cps").toOption.getD []
    return Json.arr ((ls.map fun s => lineJson (classifyL s.toList)) ++ (cps.map fun l => lineJson (classifyL l))).toArray
  else none

end FP.Lexer
