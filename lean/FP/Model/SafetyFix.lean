import FP.Model.Graph
import FP.Model.SafetyDom
/-!
# FP.Model.SafetyFix — zero-fixing by reachability and the choice of the walks to fix

Transcription of `AbstractWalkModelDiGraph._apply_safety_optimizations_fix_zero_edges`
(`flowpaths/abstractwalkmodeldigraph.py`) and of `stDiGraph.get_longest_incompatible_sequences`
(`flowpaths/stdigraph.py`).

* `G.nodes_reachable(x)` / `G.nodes_reaching(x)` are `reachFrom` / `reaching` of `Graph.lean` (the python
  code goes through the condensation, the result is the plain reachability set, `x` included); both raise
  `ValueError` for a node that is not in the graph;
* `zeroFix` returns the keys of `edges_set_to_zero` in insertion order;
* `longestIncompatible` takes two things from the real run as parameters (they are not modelled):
  `mapping` (`nx.condensation(G).graph["mapping"]`, the SCC numbering) and the antichain returned by
  `stDAG.compute_max_edge_antichain` on the expanded condensation. Modelled is everything around it:
  the map from graph edges to expanded-condensation edges, the lists `sequence_function[edge]`
  (one entry per *edge occurrence*, stably sorted by decreasing sequence length), their truncation
  (to the number of parallel graph edges between the two SCCs, resp. to one inside an SCC), the
  assembly of the result and the duplicate check.
-/
namespace FP.Safety
open FP

/-- protected edges of one walk -/
def protectedEdges (g : Graph) (walk : List Edge) : List Edge :=
  match walk.head?, walk.getLast? with
  | some a, some b =>
    let fromLast := reachFrom g b.2
    let toFirst := reaching g a.1
    let gaps := (walk.zip walk.tail).map fun p => (p.1.2, p.2.1)
    let gapTabs := gaps.map fun p => (reachFrom g p.1, reaching g p.2)
    g.edges.filter fun e =>
      walk.contains e || fromLast.contains e.1 || toFirst.contains e.2
        || gapTabs.any fun t => t.1.contains e.1 && t.2.contains e.2
  | _, _ => g.edges

/-- `_apply_safety_optimizations_fix_zero_edges`: keys `(u, v, i)` of `edges_set_to_zero` in insertion order -/
def zeroFix (g : Graph) (walks : List (List Edge)) (k : Nat) : Res (List (Edge × Nat)) :=
  let used := (walks.take k)
  let bad := used.any fun w => w.any fun e => !(g.nodes.contains e.1 && g.nodes.contains e.2)
  -- (only the endpoints that are queried matter; a safe sequence consists of graph edges)
  if bad then .raises "ValueError" else
  .ok <| ((List.range used.length).zip used).flatMap fun (i, walk) =>
    if walk.isEmpty then [] else
    let prot := protectedEdges g walk
    (g.edges.filter fun e => !prot.contains e).map fun e => (e, i)

/-! ## `get_longest_incompatible_sequences` -/

def expandedName (c : Nat) : String := toString c ++ "_expanded"

structure Cond where
  g : Graph
  mapping : List (Node × Nat)

def Cond.scc (c : Cond) (v : Node) : Nat := lookupD c.mapping v 0
/-- `len(member_edges[str(c)]) > 0` -/
def Cond.nontrivial (c : Cond) (n : Nat) : Bool := c.g.edges.any fun e => c.scc e.1 = n && c.scc e.2 = n

/-- `_edge_to_condensation_expanded_edge(u, v)` -/
def Cond.expandedEdge (c : Cond) (e : Edge) : String × String :=
  let mu := c.scc e.1
  let mv := c.scc e.2
  if mu ≠ mv then ((if c.nontrivial mu then expandedName mu else toString mu), toString mv)
  else (toString mu, expandedName mu)

def Cond.isSccEdge (ce : String × String) : Bool := ce.2 = ce.1 ++ "_expanded"

/-- `sequence_function[ce]` after sorting and truncation -/
def Cond.seqFn (c : Cond) (seqs : List (List Edge)) (ce : String × String) : List Nat :=
  let occ := ((List.range seqs.length).zip seqs).flatMap fun (i, s) =>
    (s.filter fun e => c.expandedEdge e = ce).map fun _ => i
  let len := fun i => (seqs.getD i []).length
  let sorted := occ.mergeSort fun a b => len a ≥ len b
  if Cond.isSccEdge ce then sorted.take 1
  else sorted.take (c.g.edges.countP fun e => c.expandedEdge e = ce)

def longestIncompatible (c : Cond) (seqs : List (List Edge)) (antichain : List (String × String)) :
    Res (List (List Edge)) :=
  if seqs.any (fun s => s.any fun e => !c.g.edges.contains e) then .raises "ValueError" else
  let idxs := antichain.flatMap (c.seqFn seqs)
  if ¬ idxs.Nodup then .raises "ValueError: CRITICAL BUG" else       -- `if seq_idx in seq_idx_set: raise`
  .ok (idxs.map fun i => seqs.getD i [])

end FP.Safety
