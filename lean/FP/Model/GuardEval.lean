import FP.Model.Tables
/-!
# FP.Model.GuardEval — evaluating a class's validation guards on an input descriptor (C19)

An input is abstracted to the finite descriptor `D`: which of the documented violations it contains
(one Boolean per violation flag) and whether it has at least one non-ignored weighted element. The
constructor (and, for the `Min*` wrappers, `solve()`) runs through the guards of the generated table in
source order; the first guard whose flag is set in the descriptor fires and raises `ValueError`.
-/
namespace FP.GuardEval
open FP.Tables

structure D where
  nonStringNode : Bool := false
  cyclicForDag : Bool := false
  noSourceOrSink : Bool := false
  missingWeight : Bool := false
  negativeWeight : Bool := false
  nonConservingFlow : Bool := false
  constraintNotListOfLists : Bool := false
  constraintEmpty : Bool := false
  constraintEdgeAbsent : Bool := false
  constraintNotTuples : Bool := false
  coverageOutOfRange : Bool := false
  coverageLengthOutOfRange : Bool := false
  coverageLengthWithoutLengthAttr : Bool := false
  coverageLengthWithCoverage : Bool := false
  kNonPositive : Bool := false
  kNotInt : Bool := false
  badWeightType : Bool := false
  badOrigin : Bool := false
  unknownStart : Bool := false
  unknownEnd : Bool := false
  scalingOutOfRange : Bool := false
  ignoreWrongShape : Bool := false
  emptyGraph : Bool := false
  hasWeightedElement : Bool := true
deriving DecidableEq, Repr

/-- is the violation `f` present in the input? (`optionConflict`, `other`, `unmapped` guards concern inputs
outside the vocabulary of C19 and never fire on a descriptor) -/
def D.has (d : D) : Flag → Bool
  | .nonStringNode => d.nonStringNode
  | .cyclicForDag => d.cyclicForDag
  | .noSourceOrSink => d.noSourceOrSink
  | .missingWeight => d.missingWeight
  | .negativeWeight => d.negativeWeight
  | .nonConservingFlow => d.nonConservingFlow
  | .constraintNotListOfLists => d.constraintNotListOfLists
  | .constraintEmpty => d.constraintEmpty
  | .constraintEdgeAbsent => d.constraintEdgeAbsent
  | .constraintNotTuples => d.constraintNotTuples
  | .coverageOutOfRange => d.coverageOutOfRange
  | .coverageLengthOutOfRange => d.coverageLengthOutOfRange
  | .coverageLengthWithoutLengthAttr => d.coverageLengthWithoutLengthAttr
  | .coverageLengthWithCoverage => d.coverageLengthWithCoverage
  | .kNonPositive => d.kNonPositive
  | .kNotInt => d.kNotInt
  | .badWeightType => d.badWeightType
  | .badOrigin => d.badOrigin
  | .unknownStart => d.unknownStart
  | .unknownEnd => d.unknownEnd
  | .scalingOutOfRange => d.scalingOutOfRange
  | .ignoreWrongShape => d.ignoreWrongShape
  | .emptyGraph => d.emptyGraph
  | .optionConflict _ => false
  | .other _ => false
  | .unmapped _ => false

def D.anyViolation (d : D) : Bool :=
  d.nonStringNode || d.cyclicForDag || d.noSourceOrSink || d.missingWeight || d.negativeWeight ||
  d.nonConservingFlow || d.constraintNotListOfLists || d.constraintEmpty || d.constraintEdgeAbsent ||
  d.constraintNotTuples || d.coverageOutOfRange || d.coverageLengthOutOfRange ||
  d.coverageLengthWithoutLengthAttr || d.coverageLengthWithCoverage || d.kNonPositive ||
  d.kNotInt || d.badWeightType || d.badOrigin || d.unknownStart || d.unknownEnd || d.scalingOutOfRange ||
  d.ignoreWrongShape || d.emptyGraph

/-- set one violation by its name (driver / tests) -/
def D.set (d : D) : String → D
  | "nonStringNode" => { d with nonStringNode := true }
  | "cyclicForDag" => { d with cyclicForDag := true }
  | "noSourceOrSink" => { d with noSourceOrSink := true }
  | "missingWeight" => { d with missingWeight := true }
  | "negativeWeight" => { d with negativeWeight := true }
  | "nonConservingFlow" => { d with nonConservingFlow := true }
  | "constraintNotListOfLists" => { d with constraintNotListOfLists := true }
  | "constraintEmpty" => { d with constraintEmpty := true }
  | "constraintEdgeAbsent" => { d with constraintEdgeAbsent := true }
  | "constraintNotTuples" => { d with constraintNotTuples := true }
  | "coverageOutOfRange" => { d with coverageOutOfRange := true }
  | "coverageLengthOutOfRange" => { d with coverageLengthOutOfRange := true }
  | "coverageLengthWithoutLengthAttr" => { d with coverageLengthWithoutLengthAttr := true }
  | "coverageLengthWithCoverage" => { d with coverageLengthWithCoverage := true }
  | "kNonPositive" => { d with kNonPositive := true }
  | "kNotInt" => { d with kNotInt := true }
  | "badWeightType" => { d with badWeightType := true }
  | "badOrigin" => { d with badOrigin := true }
  | "unknownStart" => { d with unknownStart := true }
  | "unknownEnd" => { d with unknownEnd := true }
  | "scalingOutOfRange" => { d with scalingOutOfRange := true }
  | "ignoreWrongShape" => { d with ignoreWrongShape := true }
  | "emptyGraph" => { d with emptyGraph := true }
  | "allIgnored" => { d with hasWeightedElement := false }
  | _ => d

def D.ofNames (l : List String) : D := l.foldl D.set {}

inductive Outcome where
  | ok          -- accepted without error
  | valueError  -- rejected as documented
  | other       -- neither: an undocumented exception, or silently accepted / silently unsolved
deriving DecidableEq, Repr

def fires (d : D) (g : Guard) : Bool := d.has g.flag

/-- the guards are evaluated in source order; the first one whose flag is set in `d` raises -/
def outcome (cg : ClassGuards) (d : D) : Outcome :=
  match cg.guards.find? (fires d) with
  | some _ => .valueError
  | none => if d.anyViolation || !d.hasWeightedElement then .other else .ok

def simpleFlags : List Flag :=
  [.nonStringNode, .cyclicForDag, .noSourceOrSink, .missingWeight, .negativeWeight, .nonConservingFlow,
   .constraintNotListOfLists, .constraintEmpty, .constraintEdgeAbsent, .constraintNotTuples, .coverageOutOfRange,
   .coverageLengthOutOfRange, .coverageLengthWithoutLengthAttr, .coverageLengthWithCoverage, .kNonPositive, .kNotInt, .badWeightType, .badOrigin, .unknownStart, .unknownEnd,
   .scalingOutOfRange, .ignoreWrongShape, .emptyGraph]

/-- the violations present in `d` -/
def D.flags (d : D) : List Flag := simpleFlags.filter d.has

def guarded (cg : ClassGuards) (f : Flag) : Bool := cg.guards.any (fun g => g.flag = f)

/-- the descriptors on which the guard table alone decides the outcome: either every violation present
is guarded and reached (then one of the guards raises), or none is guarded (then nothing rejects the
input). With a mix, whether a guard is reached before the unguarded violation makes some other statement
fail depends on statement order and data, which the table does not record; `preempted` lists the
violations whose guard is known to be reached too late on some inputs. -/
def determined (cg : ClassGuards) (preempted : List Flag) (d : D) : Bool :=
  d.hasWeightedElement &&
  (d.flags.all (fun f => guarded cg f && !preempted.contains f) || d.flags.all (fun f => !guarded cg f))

/-- the guard that fires (for reports) -/
def firing (cg : ClassGuards) (d : D) : Option Guard := cg.guards.find? (fires d)

theorem has_false_of_no_violation (d : D) (h : d.anyViolation = false) : ∀ f, d.has f = false := by
  intro f
  simp only [D.anyViolation, Bool.or_eq_false_iff] at h
  cases f <;> simp [D.has] <;> simp_all

/-- **valid_accepted** (all classes, all tables): with no violation flag set no guard fires -/
theorem outcome_ok (cg : ClassGuards) (d : D) (h : d.anyViolation = false) (hw : d.hasWeightedElement = true) :
    outcome cg d = .ok := by
  have hf : cg.guards.find? (fires d) = none := by
    apply List.find?_eq_none.2
    intro g _
    simp [fires, has_false_of_no_violation d h]
  simp [outcome, hf, h, hw]

/-- a violation whose flag some guard of the class carries is rejected with `ValueError`, whatever
else is wrong with the input -/
theorem outcome_valueError (cg : ClassGuards) (d : D) (f : Flag)
    (hg : ∃ g ∈ cg.guards, g.flag = f) (hd : d.has f = true) : outcome cg d = .valueError := by
  obtain ⟨g, hmem, hflag⟩ := hg
  unfold outcome
  cases hfind : cg.guards.find? (fires d) with
  | some _ => rfl
  | none =>
    have := (List.find?_eq_none.1 hfind) g hmem
    simp [fires, hflag, hd] at this

/-- an input with a violation is never reported as accepted -/
theorem outcome_not_ok_of_violation (cg : ClassGuards) (d : D) (h : d.anyViolation = true) :
    outcome cg d ≠ .ok := by
  unfold outcome
  cases cg.guards.find? (fires d) with
  | some _ => simp
  | none => simp [h]

theorem has_true_anyViolation (d : D) (f : Flag) (h : d.has f = true) : d.anyViolation = true := by
  cases f <;> simp [D.has] at h <;> simp [D.anyViolation, h]

end FP.GuardEval
