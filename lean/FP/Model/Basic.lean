/-!
# FP.Model.Basic — shared data types of the executable model

Plain data, core Lean only (no Mathlib), so that the driver links as an executable.

* `Var`   — structured MILP variable names; `Var.name` prints exactly the column name that
            highspy gives the variable (`<prefix><str(index)>` with spaces removed).
* `Row`, `Col`, `LP` — an LP/MILP as data; `Sat` is its semantics.
-/
namespace FP

/-- Variable identifiers. The constructors mirror the index shapes used by flowpaths:
`(u, v, i)`, `(u, v)`, `(i)`, `(i, j)`, `(v, i)`, and free-form names. -/
inductive Var where
  | uvi (pfx : String) (u v : String) (k : Nat)
  | uv  (pfx : String) (u v : String)
  | ix  (pfx : String) (k : Nat)
  | ij  (pfx : String) (k j : Nat)
  | vi  (pfx : String) (v : String) (k : Nat)
  | nm  (pfx : String) (v : String)
  | ijk (pfx : String) (a b c : Nat)
  deriving DecidableEq, Repr, Inhabited

def pyq (s : String) : String := "'" ++ s ++ "'"

/-- the HiGHS column name of a variable (python: `name_prefix + str(index)` without blanks) -/
def Var.name : Var → String
  | .uvi p a b k => p ++ "(" ++ pyq a ++ "," ++ pyq b ++ "," ++ toString k ++ ")"
  | .uv p a b    => p ++ "(" ++ pyq a ++ "," ++ pyq b ++ ")"
  | .ix p k      => p ++ toString k
  | .ij p k j    => p ++ "(" ++ toString k ++ "," ++ toString j ++ ")"
  | .vi p a k    => p ++ "(" ++ pyq a ++ "," ++ toString k ++ ")"
  | .nm p a      => p ++ pyq a
  | .ijk p a b c => p ++ "(" ++ toString a ++ "," ++ toString b ++ "," ++ toString c ++ ")"

abbrev Terms := List (Rat × Var)

/-- `lo ≤ Σ c·x ≤ hi` (`none` = unbounded on that side) -/
structure Row where
  terms : Terms
  lo : Option Rat
  hi : Option Rat
  deriving Repr, Inhabited

structure Col where
  v : Var
  lb : Rat
  ub : Option Rat
  isInt : Bool
  deriving Repr, Inhabited

structure LP where
  cols : List Col := []
  rows : List Row := []
  obj  : Terms := []
  objConst : Rat := 0
  maximize : Bool := false
  deriving Repr, Inhabited

def LP.append (a b : LP) : LP :=
  { cols := a.cols ++ b.cols, rows := a.rows ++ b.rows, obj := b.obj, objConst := b.objConst,
    maximize := b.maximize }

/-! ## Semantics -/

abbrev Asg := Var → Rat

def evalTerms (a : Asg) (ts : Terms) : Rat := (ts.map fun t => t.1 * a t.2).sum

def Row.holds (a : Asg) (r : Row) : Prop :=
  (∀ l, r.lo = some l → l ≤ evalTerms a r.terms) ∧ (∀ h, r.hi = some h → evalTerms a r.terms ≤ h)

def Col.holds (a : Asg) (c : Col) : Prop :=
  c.lb ≤ a c.v ∧ (∀ u, c.ub = some u → a c.v ≤ u) ∧ (c.isInt = true → ∃ z : Int, a c.v = z)

/-- `a` is a feasible assignment of `lp` -/
def Sat (a : Asg) (lp : LP) : Prop := (∀ c ∈ lp.cols, c.holds a) ∧ (∀ r ∈ lp.rows, r.holds a)

/-! ## Row constructors mirroring the Python comparison operators -/

def rowEq (ts : Terms) (c : Rat) : Row := { terms := ts, lo := some c, hi := some c }
def rowLe (ts : Terms) (c : Rat) : Row := { terms := ts, lo := none, hi := some c }
def rowGe (ts : Terms) (c : Rat) : Row := { terms := ts, lo := some c, hi := none }

def negTerms (ts : Terms) : Terms := ts.map fun t => (-t.1, t.2)

end FP
