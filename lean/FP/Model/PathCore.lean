import FP.Model.Graph
import FP.Model.Wrapper
/-!
# FP.Model.PathCore — `AbstractPathModelDAG._encode_paths` and `get_solution_paths`

The LP fragment shared by every DAG k-model: binary edge variables per layer, unit out-flow of the
synthetic source (10a), conservation at inner nodes (10c), subpath-constraint rows (7a/7b), and the
optional edge-position / path-length variables. `decodePaths` is the successor-following loop of
`get_solution_paths`.
-/
namespace FP

def edgeVar (e : Edge) (i : Nat) : Var := .uvi "edge" e.1 e.2 i
def rVar (i j : Nat) : Var := .ij "r" i j
def posVar (e : Edge) (i : Nat) : Var := .uvi "position" e.1 e.2 i
def lenVar (i : Nat) : Var := .ix "path_length" i

structure PathCfg where
  k : Nat
  allowEmpty : Bool := false
  constraints : List (List Edge) := []
  coverage : Rat := 1
  coverageLength : Option Rat := none
  /-- `G[u][v].get(length_attr, 1)`; `none` = no `length_attr` given -/
  lengths : Option (List (Edge × Rat)) := none
  encodePosition : Bool := false
  deriving Repr, Inhabited

def PathCfg.len (c : PathCfg) (e : Edge) : Rat :=
  match c.lengths with
  | none => 1
  | some l => lookupD l e 1

def ones {α} (l : List α) (f : α → Var) : Terms := l.map fun x => ((1 : Rat), f x)

/-- rows 10a -/
def rows10a (s : STGraph) (c : PathCfg) : List Row :=
  (List.range c.k).map fun i =>
    let ts := ones (s.g.succ s.source) (fun v => edgeVar (s.source, v) i)
    if c.allowEmpty then rowLe ts 1 else rowEq ts 1

/-- rows 10c -/
def rows10c (s : STGraph) (c : PathCfg) : List Row :=
  (List.range c.k).flatMap fun i =>
    (s.g.nodes.filter fun v => v ≠ s.source ∧ v ≠ s.sink).map fun v =>
      rowEq (ones (s.g.pred v) (fun u => edgeVar (u, v) i)
             ++ negTerms (ones (s.g.succ v) (fun w => edgeVar (v, w) i))) 0

/-- columns and rows 7a / 7b of the subpath constraints -/
def subpathBlock (c : PathCfg) : LP :=
  if c.constraints.isEmpty then {} else
  let js := List.range c.constraints.length
  { cols := (List.range c.k).flatMap fun i => js.map fun j =>
      { v := rVar i j, lb := 0, ub := some 1, isInt := true },
    rows :=
      ((List.range c.k).flatMap fun i => (js.zip c.constraints).map fun (j, con) =>
        match c.coverageLength with
        | none =>
          rowGe (ones con (fun e => edgeVar e i) ++ [(-((con.length : Rat) * c.coverage), rVar i j)]) 0
        | some cl =>
          let total := (con.map c.len).sum
          rowGe (con.map (fun e => (c.len e, edgeVar e i)) ++ [(-(total * cl), rVar i j)]) 0)
      ++ js.map fun j => rowGe (ones (List.range c.k) (fun i => rVar i j)) 1 }

def maxLength (s : STGraph) (c : PathCfg) : Rat :=
  match c.lengths with
  | none => s.g.nodes.length
  | some _ => (s.g.edges.map c.len).sum

/-- `reachable_edges_rev_from[u]`: edges on some path ending in `u` (as a duplicate-free list) -/
def edgesReaching (s : STGraph) (u : Node) : List Edge :=
  let r := reaching s.g u
  s.g.edges.filter fun e => r.contains e.2

/-- position and path-length variables (both guarded by `encode_edge_position` in the code) -/
def positionBlock (s : STGraph) (c : PathCfg) : LP :=
  if !c.encodePosition then {} else
  let ml := maxLength s c
  { cols := ((List.range c.k).flatMap fun i => s.g.edges.map fun e =>
        { v := posVar e i, lb := 0, ub := some ml, isInt := true })
      ++ (List.range c.k).map fun i => { v := lenVar i, lb := 0, ub := some ml, isInt := true },
    rows := ((List.range c.k).flatMap fun i => s.g.edges.map fun e =>
        rowEq ([(1, posVar e i)] ++ negTerms ((edgesReaching s e.1).map fun e' => (c.len e', edgeVar e' i))) 0)
      ++ (List.range c.k).map fun i =>
        rowEq ([(1, lenVar i)] ++ negTerms (s.g.edges.map fun e' => (c.len e', edgeVar e' i))) 0 }

/-- `_encode_paths` -/
def encodePaths (s : STGraph) (c : PathCfg) : LP :=
  let core : LP :=
    { cols := (List.range c.k).flatMap fun i => s.g.edges.map fun e =>
        { v := edgeVar e i, lb := 0, ub := some 1, isInt := true },
      rows := rows10a s c ++ rows10c s c }
  (core.append (subpathBlock c)).append (positionBlock s c)

/-! ## decoding -/

/-- first successor `w` of `v` (networkx order) whose edge variable is 1 in layer `i` -/
def nextOn (s : STGraph) (x : Edge → Nat → Rat) (i : Nat) (v : Node) : Option Node :=
  (s.g.succ v).find? fun w => x (v, w) i = 1

/-- the `while vertex != sink` loop; `none` models the python loop not terminating / mis-stepping:
when no successor is selected python keeps `vertex` unchanged and appends it for ever -/
def follow (s : STGraph) (x : Edge → Nat → Rat) (i : Nat) : Nat → Node → List Node → Option (List Node)
  | 0, _, _ => none
  | n+1, v, acc =>
    if v = s.sink then some acc else
    match nextOn s x i v with
    | none => none
    | some w => follow s x i n w (acc ++ [w])

/-- one layer of `get_solution_paths`: `[]` if no source edge is selected, otherwise the followed
path without the synthetic endpoints (`path[1:-1]`) -/
def decodeLayer (s : STGraph) (x : Edge → Nat → Rat) (i : Nat) : Option (List Node) :=
  match nextOn s x i s.source with
  | none => some []
  | some _ =>
    match follow s x i (s.g.nodes.length + 1) s.source [s.source] with
    | none => none
    | some p => some ((p.drop 1).dropLast)

def decodePaths (s : STGraph) (x : Edge → Nat → Rat) (k : Nat) : Option (List (List Node)) :=
  (List.range k).mapM (decodeLayer s x)

end FP
