import FP.Model.NodeExpandModes
import FP.Model.NodeExpandJson
/-!
# driver ops of the node branches of `kPathCover`, `kLeastAbsErrors`, `kMinPathError`:
`lp.kcovernode`, `lp.klaenode`, `lp.kmpenode`

Request = the request of `lp.kfdnode` plus `starts`, `ends` (node names), `scaling` (`[[node, factor], …]`) and,
for `lp.kmpenode`, `path_length_ranges`, `path_length_factors`.
-/
namespace FP
namespace NX
open Lean

def parseNodeModeInput (j : Json) : Except String NodeModeInput := do
  return { nf := ← parseNodeFlowInput j,
           starts := (jList (·.getStr?) j "starts").toOption.getD [],
           ends := (jList (·.getStr?) j "ends").toOption.getD [],
           scaling := (jList asNodeRat j "scaling").toOption.getD [] }

def handleNodeModes (op : String) (j : Json) : Option (Except String Json) :=
  match op with
  | "lp.kcovernode" => some do
    let inp ← parseNodeModeInput j
    return exJ (fun lp => strArr lp.dump) (kcoverNodeLP inp)
  | "lp.klaenode" => some do
    let inp ← parseNodeModeInput j
    return exJ (fun lp => strArr lp.dump) (klaeNodeLP inp)
  | "lp.kmpenode" => some do
    let inp ← parseNodeModeInput j
    let mi : NodeMpeInput :=
      { nm := inp,
        ranges := (jList asRatPairJ j "path_length_ranges").toOption.getD [],
        factors := (jList asRat j "path_length_factors").toOption.getD [] }
    return exJ (fun lp => strArr lp.dump) (kmpeNodeLP mi)
  | _ => none

end NX
end FP
