import FP.Model.PathCore
import FP.Model.SafetyDag
import FP.Model.Enc.KFD
import FP.Model.Enc.KCover
import FP.Model.Enc.KLAE
import FP.Model.Enc.KMPE
/-!
# FP.Model.PathSafetyRows — what the safety options do to the LP of a DAG (path) model

Mirrors, as written, `AbstractPathModelDAG.__init__` (assembly of `safe_lists`) and `create_solver_and_paths`
(`flowpaths/abstractpathmodeldag.py`), and the use the subclasses make of `edges_set_to_zero` /
`edges_set_to_one` (`kflowdecomp.py: _encode_flow_decomposition`, `kleastabserrors.py`, `kminpatherror.py`).

```
__init__:
  safe_lists  = external_safe_paths                                  if given (kFlowDecomp: flow-safe paths)
              | safe_paths(G, trusted)                               if optimize_with_safe_paths
  safe_lists += safe_sequences(G, trusted)                           if optimize_with_safe_sequences
  safe_lists += safe_sequences(G, subpath_constraints)               if optimize_with_subpath_constraints_as_safe_sequences
                                                                        and constraints given, coverage == 1, coverage_length in [1, None]
  if optimize_with_safety_as_subpath_constraints:  subpath_constraints += safe_lists
create_solver_and_paths:
  _encode_paths()
  _apply_safety_optimizations_fix_zero_edges()        # returns at `if not hasattr(self, "paths_to_fix")`
```

**`_apply_safety_optimizations` is never called** (only the walk model calls its own): the attribute
`paths_to_fix` does not exist when `_apply_safety_optimizations_fix_zero_edges` runs, so no row `safe_list_*` /
`*_fix0` is ever added, `edges_set_to_zero` / `edges_set_to_one` stay empty and the simplified branches of the
subclasses' product loops are never taken. (Called by hand the routine raises `TypeError: 'dict' object is not
callable`: it calls `self.G.nodes_reaching(first_node)`, a dict property of `stDAG`, and `self.G.nodes_reachable`,
which `stDAG` does not have.) The flags `optimize_with_safe_zero_edges` and
`optimize_with_safety_from_largest_antichain` are stored and, on this path, consulted nowhere.
(`external_safe_paths`: `kFlowDecomp` passes its flow-safe paths there, see `kfdExternalOK`.)

Hence **the only effect of the six flags on the LP** is `pathSafetyExtra`: the safe lists join the subpath
constraints when `optimize_with_safety_as_subpath_constraints` is on — sharing the coverage fraction of the
user's constraints — and nothing changes otherwise. The fragment keeps the fields `rows`, `zero`, `one` (always
empty) and the LP generators keep the three-branch product loop, so that the K2 tie (`kfd_safety`,
`kcover_safety`: real constructors with random subsets of all flags ON) breaks as soon as the routine gets
wired in.
-/
namespace FP
open FP.Safety

/-- the six flags of `AbstractPathModelDAG` -/
structure PathSafetyOpts where
  /-- `optimize_with_safe_paths` -/
  safePaths : Bool := false
  /-- `optimize_with_safe_sequences` -/
  safeSequences : Bool := false
  /-- `optimize_with_subpath_constraints_as_safe_sequences` -/
  constraintSequences : Bool := false
  /-- `optimize_with_safe_zero_edges` (stored, never consulted) -/
  zeroEdges : Bool := false
  /-- `optimize_with_safety_as_subpath_constraints` -/
  asSubpath : Bool := false
  /-- `optimize_with_safety_from_largest_antichain` -/
  largestAntichain : Bool := false
  deriving Repr, Inhabited, DecidableEq

/-- what the safety code leaves behind -/
structure PathSafetyFrag where
  /-- rows added with `add_constraint` by the safety code (none) -/
  rows : List Row := []
  /-- lists appended to `self.subpath_constraints` -/
  constraints : List (List Edge) := []
  /-- keys of `edges_set_to_zero` (stays empty) -/
  zero : List (Edge × Nat) := []
  /-- keys of `edges_set_to_one` (stays empty) -/
  one : List (Edge × Nat) := []
  deriving Repr, Inhabited

/-! ## `__init__`: the safe lists -/

/-- `self.subpath_constraints_coverage == 1 and self.subpath_constraints_coverage_length in [1, None]` -/
def PathCfg.fullCoverage (c : PathCfg) : Bool :=
  c.coverage == 1 && (match c.coverageLength with | none => true | some q => q == 1)

/-- first block: `external_safe_paths`, or `safe_paths(G, trusted)` under `optimize_with_safe_paths` -/
def safeLists0 (s : STGraph) (X : List Edge) (external : Option (List (List Edge))) (o : PathSafetyOpts) :
    Res (List (List Edge)) :=
  match external with
  | some l => .ok l
  | none => if o.safePaths then safePaths s.g X else .ok []

/-- second block: `safe_sequences(G, trusted)` under `optimize_with_safe_sequences` -/
def safeLists1 (s : STGraph) (X : List Edge) (o : PathSafetyOpts) : Res (List (List Edge)) :=
  if o.safeSequences then safeSequences s.g s.source s.sink (X.map fun e => [e]) else .ok []

/-- third block: `safe_sequences(G, subpath_constraints)` under
`optimize_with_subpath_constraints_as_safe_sequences`, constraints given and of full coverage -/
def safeLists2 (s : STGraph) (c : PathCfg) (o : PathSafetyOpts) : Res (List (List Edge)) :=
  if o.constraintSequences && !c.constraints.isEmpty && c.fullCoverage then
    safeSequences s.g s.source s.sink c.constraints else .ok []

/-- **`safe_lists` as `__init__` assembles them.** `X` is `trusted_edges_for_safety` in the iteration order of
the python set, `external` the option `external_safe_paths` (`kFlowDecomp` puts the flow-safe paths there).
The `ValueError`s of the option checks come first. -/
def pathSafeLists (s : STGraph) (c : PathCfg) (X : List Edge) (external : Option (List (List Edge)))
    (o : PathSafetyOpts) : Res (List (List Edge)) :=
  if o.safeSequences && external.isSome then
    .raises "ValueError: Cannot optimize with both external safe paths and safe sequences" else
  if o.safePaths && o.safeSequences then
    .raises "ValueError: Cannot optimize with both safe paths and safe sequences" else
  match safeLists0 s X external o with
  | .raises w => .raises w
  | .fuel => .fuel
  | .ok l0 =>
    match safeLists1 s X o with
    | .raises w => .raises w
    | .fuel => .fuel
    | .ok l1 =>
      match safeLists2 s c o with
      | .raises w => .raises w
      | .fuel => .fuel
      | .ok l2 => .ok (l0 ++ l1 ++ l2)

/-! ## `create_solver_and_paths`: nothing is fixed -/

/-- **what the constructor really does with the safe lists**: they join the subpath constraints when
`optimize_with_safety_as_subpath_constraints` is on; no row, no fixed key -/
def pathSafetyExtra (safeLists : List (List Edge)) (o : PathSafetyOpts) : PathSafetyFrag :=
  { constraints := if o.asSubpath then safeLists else [] }

/-- `__init__` + `create_solver_and_paths` -/
def pathSafetyPipeline (s : STGraph) (c : PathCfg) (X : List Edge) (external : Option (List (List Edge)))
    (o : PathSafetyOpts) : Res PathSafetyFrag := do
  let lists ← pathSafeLists s c X external o
  return pathSafetyExtra lists o

/-! ## the LP with a fragment applied -/

/-- the configuration after `self.subpath_constraints += self.safe_lists` -/
def PathCfg.withSafety (c : PathCfg) (fr : PathSafetyFrag) : PathCfg :=
  { c with constraints := c.constraints ++ fr.constraints }

/-- `create_solver_and_paths`: `_encode_paths` on the extended list of constraints, plus the rows of the fragment -/
def pathCoreS (s : STGraph) (c : PathCfg) (fr : PathSafetyFrag) : LP :=
  let enc := encodePaths s (c.withSafety fr)
  { enc with rows := enc.rows ++ fr.rows }

/-- the product loop of the subclasses with its three branches: `prod = 0` for a key of `edges_set_to_zero`,
`prod = cont` for a key of `edges_set_to_one`, the four McCormick rows otherwise -/
def coupleBinS (zero one : List (Edge × Nat)) (edges : List Edge) (k : Nat) (prod : Edge → Nat → Var)
    (cont : Nat → Var) (ub : Rat) : List Row :=
  edges.flatMap fun e => (List.range k).flatMap fun i =>
    if zero.contains (e, i) then [rowEq [(1, prod e i)] 0]
    else if one.contains (e, i) then [rowEq [(1, prod e i), (-1, cont i)] 0]
    else binProd (edgeVar e i) (cont i) (prod e i) 0 ub

/-- `FlowInput` after `self.subpath_constraints += self.safe_lists` -/
def FlowInput.withSafety (inp : FlowInput) (fr : PathSafetyFrag) : FlowInput :=
  { inp with cfg := inp.cfg.withSafety fr }

/-- `kFlowDecomp.__init__` (no given weights) with the safety step -/
def kfdLPS (inp : FlowInput) (fr : PathSafetyFrag) : LP :=
  let s := inp.st
  let k := inp.cfg.k
  let wm := inp.wmax
  (pathCoreS s inp.cfg fr).append
    { cols := ((List.range k).flatMap fun i => s.g.edges.map fun e =>
          { v := piVar e i, lb := 0, ub := some wm, isInt := inp.weightInt })
        ++ (List.range k).map fun i => { v := wVar i, lb := 0, ub := some wm, isInt := inp.weightInt },
      rows := coupleBinS fr.zero fr.one inp.activeEdges k piVar wVar wm
        ++ inp.activeEdges.map fun e => rowEq (ones (List.range k) (piVar e)) (inp.f e) }

/-- `kPathCover.__init__` with the safety step (`coverSkipped` is constantly `false`, also for the extended list
of constraints: the set of the code holds pairs of edges) -/
def kcoverLPS (inp : FlowInput) (fr : PathSafetyFrag) : LP :=
  let s := inp.st
  let k := inp.cfg.k
  (pathCoreS s inp.cfg fr).append
    { rows := (inp.activeEdges.filter fun e => !coverSkipped (inp.withSafety fr) e).map fun e =>
        rowGe (ones (List.range k) (edgeVar e)) 1 }

/-- `kLeastAbsErrors.__init__` (no given weights) with the safety step -/
def klaeLPS (inp : ErrInput) (fr : PathSafetyFrag) : LP :=
  let s := inp.st
  let k := inp.k
  let wm := inp.wmax none
  let isInt := inp.fi.weightInt
  (pathCoreS s inp.fi.cfg fr).append
    { cols := ((List.range k).flatMap fun i => s.g.edges.map fun e =>
          { v := piVar e i, lb := 0, ub := some wm, isInt := isInt })
        ++ ((List.range k).map fun i => { v := weightsVar i, lb := 0, ub := some wm, isInt := isInt })
        ++ eeCols inp wm,
      rows := coupleBinS fr.zero fr.one inp.basicEdges k piVar weightsVar wm
        ++ inp.basicEdges.flatMap fun e =>
          let sumPi := ones (List.range k) (piVar e)
          [ rowLe (negTerms sumPi ++ [(-1, eeVar e)]) (-(inp.fi.f e)),
            rowLe (sumPi ++ [(-1, eeVar e)]) (inp.fi.f e) ],
      obj := klaeObj inp }

/-- `kMinPathError.__init__` (no given weights) with the safety step: both product loops (`pi`, `gamma`) have the
three branches -/
def kmpeLPS (inp : MpeInput) (fr : PathSafetyFrag) : LP :=
  let e := inp.ei
  let s := e.st
  let k := e.k
  let wm := e.wmax none
  let isInt := e.fi.weightInt
  ((pathCoreS s e.fi.cfg fr).append
    { cols := ((List.range k).map fun i => { v := weightsVar i, lb := 0, ub := some wm, isInt := isInt })
        ++ ((List.range k).flatMap fun i => s.g.edges.map fun ed =>
            { v := piVar ed i, lb := 0, ub := some wm, isInt := isInt })
        ++ slackCols k wm isInt ++ gammaCols s k wm })
  |>.append (factorBlock inp k wm)
  |>.append
    { rows := coupleBinS fr.zero fr.one e.basicEdges k piVar weightsVar wm
        ++ coupleBinS fr.zero fr.one e.basicEdges k gammaVar inp.slackFor wm
        ++ e.basicEdges.flatMap fun ed =>
          errRows (e.fi.f ed) (e.scale ed) (ones (List.range k) (piVar ed)) (ones (List.range k) (gammaVar ed)),
      obj := mpeObj k }

/-- **where `kFlowDecomp`'s `external_safe_paths` come from** (`kflowdecomp.py: __init__`, after fix 3d0fcdd):
```
if optimize_with_flow_safe_paths and len(edges_to_ignore) == 0 and satisfies_flow_conservation:
    optimization_options["external_safe_paths"] = compute_flow_decomp_safe_paths(G, flow_attr)
```
i.e. they exist only when nothing is ignored, and they are — as a set, `no_duplicates=True` — what the two-pointer
scan `flowSafePaths` (C06) reports on the user's graph for the paths of the greedy decomposition
(`decompPaths`, captured from `decompose_using_max_bottleneck`). `none`: the option is off or the guard failed. -/
def kfdExternalOK (inp : FlowInput) (external : Option (List (List Edge))) (decompPaths : List (List Node)) : Bool :=
  match external with
  | none => true
  | some l =>
    inp.ignore.isEmpty &&
      match flowSafePaths inp.base inp.flow decompPaths with
      | .ok out => l.all out.contains
      | _ => false

/-- `trusted_edges_for_safety` of `kPathCover`: the edges that are not ignored (a python `set`) -/
def kcoverTrusted (inp : FlowInput) : List Edge := inp.activeEdges

/-- `trusted_edges_for_safety` of `kFlowDecomp`: `get_non_zero_flow_edges` (a python `set`) -/
def kfdTrusted (inp : FlowInput) : List Edge := inp.activeEdges.filter fun e => inp.f e != 0

end FP
