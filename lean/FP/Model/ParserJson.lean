import FP.Model.Json
import FP.Model.Parser
/-!
# Driver op `parse` — `read_graphs` / `read_graph` of the model on classified lines

Request: `{"op":"parse", "lines":[{"k":"header","text":s} | {"k":"subpath","tokens":[s..]} | {"k":"blank"}
| {"k":"data","text":s,"tokens":[s..]}], "ints":[[s, int|null]..], "floats":[[s, str|null]..], "single":bool}`.
`ints` / `floats` tabulate python's `int()` / `float()` on the strings occurring in the file (null = ValueError);
a float travels as the canonical exact rational string (or `nan`, `inf`, `-inf`).  The width oracle answers `"oracle"`, the literal zero width `"0"`.
`single = true` runs `read_graph` on the lines as one block.
Answer: `{"graphs":[{"nodes","edges"(networkx order),"id","constraints","n","m","w"(null | "0" | "oracle")}..]}` or
`{"error":"ValueError","kind":..}`.
-/
namespace FP.Parser
open Lean FP

def asLine (j : Json) : Except String (Line String) := do
  let k ← jStr j "k"
  match k with
  | "header" => return .header (← jStr j "text")
  | "subpath" => return .subpath (← jList (·.getStr?) j "tokens")
  | "blank" => return .blank
  | "data" => return .data (← jStr j "text") (← jList (·.getStr?) j "tokens")
  | _ => .error s!"unknown line kind {k}"

def asIntEntry (j : Json) : Except String (String × Option Int) := do
  let a ← j.getArr?
  match a.toList with
  | [s, Json.null] => return (← s.getStr?, none)
  | [s, v] => return (← s.getStr?, some (← v.getInt?))
  | _ => .error "int table entry"

def asFloatEntry (j : Json) : Except String (String × Option String) := do
  let a ← j.getArr?
  match a.toList with
  | [s, Json.null] => return (← s.getStr?, none)
  | [s, v] => return (← s.getStr?, some (← v.getStr?))
  | _ => .error "float table entry"

def tableFn {α} (t : List (String × Option α)) (s : String) : Option α := (t.lookup s).join

def errName : PErr → String
  | .missingCount => "missingCount" | .badCount => "badCount" | .badEdgeFormat => "badEdgeFormat"
  | .zeroWithConstraints => "zeroWithConstraints" | .zeroWithData => "zeroWithData"
  | .badWeight => "badWeight" | .constraintEdgeMissing => "constraintEdgeMissing"
  | .noSourceOrSink => "noSourceOrSink"

def optNatJ : Option Nat → Json
  | some n => Json.num n
  | none => Json.null

def pgraphJson (g : PGraph String String String) : Json :=
  let gr : Gr String String := { nodes := g.nodes, edges := g.edges }
  Json.mkObj [
    ("nodes", strArr g.nodes),
    ("edges", Json.arr (gr.edgesNx.map fun e => strArr [e.1, e.2.1, e.2.2]).toArray),
    ("id", match g.id with | some s => Json.str s | none => Json.null),
    ("constraints", Json.arr (g.constraints.map fun c =>
        Json.arr (c.map fun e => strArr [e.1, e.2]).toArray).toArray),
    ("n", optNatJ g.n), ("m", optNatJ g.m),
    ("w", match g.w with | some s => Json.str s | none => Json.null)]

def errJson (e : PErr) : Json := Json.mkObj [("error", Json.str "ValueError"), ("kind", Json.str (errName e))]

def handleParser (op : String) (j : Json) : Option (Except String Json) :=
  if op = "parse" then some do
    let lines ← jList asLine j "lines"
    let ints ← jList asIntEntry j "ints"
    let floats ← jList asFloatEntry j "floats"
    let single := (jBool j "single").toOption.getD false
    let o : Oracles String String String :=
      { parseInt := tableFn ints, parseFloat := tableFn floats, width := fun _ _ => "oracle", zeroWidth := "0" }
    if single then
      match readGraph o lines with
      | .ok g => return Json.mkObj [("graphs", Json.arr #[pgraphJson g])]
      | .error e => return errJson e
    else
      match readGraphs o lines with
      | .ok gs => return Json.mkObj [("graphs", Json.arr (gs.map pgraphJson).toArray)]
      | .error e => return errJson e
  else none

end FP.Parser
