import FP.Model.Enc.KFD
import FP.Model.Search
/-!
# FP.Model.MFD — `MinFlowDecomp`: lower bound, search range, the k-models it builds

* `FlowInput.withK` — the `kFlowDecomp` instance `MinFlowDecomp.solve` builds in iteration `k`
  (same graph, flow, ignore list, constraints; only `k` differs).
* `lowerboundK` — `MinFlowDecomp.get_lowerbound_k` as a function of its observable ingredients, in the
  order the code evaluates them:
    1. option `lowerbound_k` (default 1);
    2. `ceil(log2(#distinct int(flow)))` over **all** edges of the internal graph that carry the flow
       attribute — ignored edges included, exactly as the code does (`math.log2(0)` raises `ValueError`
       when no edge carries the attribute);
    3. `stDAG(G).get_width(edges_to_ignore = user's list)` — an opaque input here (the synthetic
       source/sink edges are *not* in that ignore list, exactly as in the code);
    4. if `use_min_gen_set_lowerbound`: the size of the minimum generating set, an opaque input; when
       `MinGenSet` is not solved the bound is not available (`None`, skipped by the caller) — since fix
       50cb8a9; before it the code called `exit(0)` there (`lowerboundKPre`, kept as the negative witness);
    5. if `use_subgraph_scanning_lowerbound`: the scanned bound (opaque, `none` when the scan found nothing).
* `searchHi` — `range(lb, |E(G_internal)| + 1)`.
-/
namespace FP.MFD
open FP FP.Search

/-- the `kFlowDecomp` input of iteration `k` -/
def _root_.FP.FlowInput.withK (inp : FlowInput) (k : Nat) : FlowInput :=
  { inp with cfg := { inp.cfg with k := k } }

/-- python `int(x)` of a rational: truncation towards zero -/
def pyInt (q : Rat) : Int := Int.tdiv q.num q.den

/-- `math.ceil(math.log2(n))` for `n ≥ 1`: the least `m` with `n ≤ 2^m` -/
def clog2 (n : Nat) : Nat := numBits (n - 1)

/-- number of distinct `int(flow)` values -/
def distinctInt (flows : List Rat) : Nat := ((flows.map pyInt).eraseDups).length

structure LBIn where
  /-- `optimization_options.get("lowerbound_k", 1)` -/
  optLb : Option Nat := none
  /-- flow values of all edges of the internal graph carrying the attribute (ignored ones included) -/
  flows : List Rat
  /-- `stDAG(G).get_width(edges_to_ignore=self.edges_to_ignore)` -/
  width : Nat
  useMgs : Bool := false
  /-- `len(generating set)` if `MinGenSet` was solved -/
  mgs : Option Nat := none
  useScan : Bool := false
  scan : Option Nat := none
  deriving Repr, Inhabited

inductive LBOut where
  | value (lb : Nat)
  | valueError          -- math.log2(0): "math domain error"
  | exit                -- `exit(0)` inside `_get_lowerbound_with_min_gen_set` (only before fix 50cb8a9)
  deriving Repr, DecidableEq, Inhabited

def lowerboundK (x : LBIn) : LBOut :=
  let lb0 := x.optLb.getD 1
  let n := distinctInt x.flows
  if n = 0 then .valueError else
  let lb1 := max lb0 (clog2 n)
  let lb2 := max lb1 x.width
  -- `mingenset_lowerbound is not None` guards the update
  let lb3 := if x.useMgs then max lb2 (x.mgs.getD 0) else lb2
  let lb4 := if x.useScan then (match x.scan with | some s => max lb3 s | none => lb3) else lb3
  .value lb4

/-- the behaviour before fix 50cb8a9: an unsolved `MinGenSet` terminated the interpreter -/
def lowerboundKPre (x : LBIn) : LBOut :=
  if distinctInt x.flows ≠ 0 && x.useMgs && x.mgs.isNone then .exit else lowerboundK x

/-- exclusive upper end of the search range: `range(lb, G.number_of_edges() + 1)` -/
def searchHi (numEdges : Nat) : Nat := numEdges + 1

/-- `MinFlowDecomp.solve` (plain route): lower bound, then the stop-search over `kFlowDecomp` models -/
def solve (x : LBIn) (numEdges : Nat) (σ : Nat → Status) : Option Outcome :=
  match lowerboundK x with
  | .value lo => some (stopSearch σ lo (searchHi numEdges))
  | _ => none

/-! ### driver op `mfd.lowerbound` -/
open Lean in
/-- `{"op":"mfd.lowerbound","lowerbound_k":n|null,"flows":[q..],"width":n,"use_mgs":b,"mgs":n|null,
"use_scan":b,"scan":n|null,"num_edges":n}` → `{"result":"value"|"ValueError"|"exit","lb","distinct","log","hi"}` -/
def handleMFD (op : String) (j : Json) : Option (Except String Json) :=
  if op ≠ "mfd.lowerbound" then none else some do
    let optNatField (k : String) : Option Nat := (jNat j k).toOption
    let flows ← jList asRat j "flows"
    let width ← jNat j "width"
    let x : LBIn :=
      { optLb := optNatField "lowerbound_k", flows := flows, width := width,
        useMgs := (jBool j "use_mgs").toOption.getD false, mgs := optNatField "mgs",
        useScan := (jBool j "use_scan").toOption.getD false, scan := optNatField "scan" }
    let n := distinctInt flows
    let natJ : Option Nat → Json := fun o => match o with | some v => Json.num v | none => Json.null
    let (res, lb) : String × Option Nat := match lowerboundK x with
      | .value v => ("value", some v)
      | .valueError => ("ValueError", none)
      | .exit => ("exit", none)
    return Json.mkObj [("result", Json.str res), ("lb", natJ lb), ("distinct", Json.num n),
      ("log", natJ (if n = 0 then none else some (clog2 n))),
      ("hi", natJ ((optNatField "num_edges").map searchHi))]

end FP.MFD
