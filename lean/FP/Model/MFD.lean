import FP.Model.Enc.KFD
import FP.Model.Search
/-!
# FP.Model.MFD — `MinFlowDecomp`: lower bound, search range, the k-models it builds

* `FlowInput.withK` — the `kFlowDecomp` instance `MinFlowDecomp.solve` builds in iteration `k`
  (same graph, flow, ignore list, constraints; only `k` differs).
* `lowerboundK` — `MinFlowDecomp.get_lowerbound_k` as a function of its observable ingredients, in the
  order the code evaluates them (tree with fixes 50cb8a9, 01f9777, 264fceb):
    1. option `lowerbound_k` (default 1);
    2. `ceil(log2(#distinct int(flow)))` over the **non-ignored** edges of the internal graph that carry
       the flow attribute; skipped when there is no such value (`if len(all_weights) > 0`);
    3. `stDAG(G).get_width(edges_to_ignore = ignored ∪ source_sink_edges)` — an opaque input here
       (captured from the real call; certified per run by the antichain the code extracts);
    4. only if the ignore list is empty and `use_min_gen_set_lowerbound`: the size of the minimum
       generating set, an opaque input; an unsolved `MinGenSet` gives no bound (`None`);
    5. if `use_subgraph_scanning_lowerbound`: the scanned bound (opaque, `none` when the scan found nothing).
  `lowerboundKPre` is the function as it was before those fixes (all edges counted, `math.log2(0)`
  raising, `exit(0)` on an unsolved `MinGenSet`), kept for the negative witnesses.
* `searchHi` — `range(lb, |E(G_internal)| + len(subpath_constraints) + 1)` (fix e0ac661).
-/
namespace FP.MFD
open FP FP.Search

/-- the `kFlowDecomp` input of iteration `k` -/
def _root_.FP.FlowInput.withK (inp : FlowInput) (k : Nat) : FlowInput :=
  { inp with cfg := { inp.cfg with k := k } }

/-- python `int(x)` of a rational: truncation towards zero -/
def pyInt (q : Rat) : Int := Int.tdiv q.num q.den

/-- `math.ceil(math.log2(n))` for `n ≥ 1`: the least `m` with `n ≤ 2^m` -/
def clog2 (n : Nat) : Nat := numBits (n - 1)

/-- number of distinct `int(flow)` values -/
def distinctInt (flows : List Rat) : Nat := ((flows.map pyInt).eraseDups).length

structure LBIn where
  /-- `optimization_options.get("lowerbound_k", 1)` -/
  optLb : Option Nat := none
  /-- flow values of the non-ignored edges of the internal graph carrying the attribute -/
  flows : List Rat
  /-- `stDAG(G).get_width(edges_to_ignore = ignored ∪ source_sink_edges)` -/
  width : Nat
  /-- `len(ignored) == 0` (internal ignore list: for node weights it is never empty) -/
  ignoreEmpty : Bool := true
  useMgs : Bool := false
  /-- `len(generating set)` if `MinGenSet` was solved -/
  mgs : Option Nat := none
  useScan : Bool := false
  scan : Option Nat := none
  deriving Repr, Inhabited

inductive LBOut where
  | value (lb : Nat)
  | valueError          -- math.log2(0): "math domain error" (only before fix 01f9777)
  | exit                -- `exit(0)` inside `_get_lowerbound_with_min_gen_set` (only before fix 50cb8a9)
  deriving Repr, DecidableEq, Inhabited

/-- `get_lowerbound_k` on the current tree: always a value -/
def lowerboundN (x : LBIn) : Nat :=
  let lb0 := x.optLb.getD 1
  let n := distinctInt x.flows
  let lb1 := if n = 0 then lb0 else max lb0 (clog2 n)
  let lb2 := max lb1 x.width
  -- `mingenset_lowerbound is not None` guards the update
  let lb3 := if x.ignoreEmpty && x.useMgs then max lb2 (x.mgs.getD 0) else lb2
  if x.useScan then (match x.scan with | some s => max lb3 s | none => lb3) else lb3

def lowerboundK (x : LBIn) : LBOut := .value (lowerboundN x)

/-- the behaviour before fixes 50cb8a9 / 01f9777 (`flows` then being the values of *all* edges and
`width` the width with the user's ignore list only): `math.log2(0)` raised, an unsolved `MinGenSet`
terminated the interpreter, the generating-set bound was used with ignored edges too -/
def lowerboundKPre (x : LBIn) : LBOut :=
  if distinctInt x.flows = 0 then .valueError else
  if x.useMgs && x.mgs.isNone then .exit else lowerboundK { x with ignoreEmpty := true }

/-- exclusive upper end of the search range:
`range(lb, G.number_of_edges() + len(self.subpath_constraints) + 1)` -/
def searchHi (numEdges numCons : Nat) : Nat := numEdges + numCons + 1

/-- the range before fix e0ac661 -/
def searchHiPre (numEdges : Nat) : Nat := numEdges + 1

/-- `MinFlowDecomp.solve` (plain route): lower bound, then the stop-search over `kFlowDecomp` models -/
def solve (x : LBIn) (numEdges numCons : Nat) (σ : Nat → Status) : Outcome :=
  stopSearch σ (lowerboundN x) (searchHi numEdges numCons)

/-! ### driver op `mfd.lowerbound` -/
open Lean in
/-- `{"op":"mfd.lowerbound","lowerbound_k":n|null,"flows":[q..],"width":n,"ignore_empty":b,"use_mgs":b,
"mgs":n|null,"use_scan":b,"scan":n|null,"num_edges":n,"num_constraints":n}` →
`{"result":"value","lb","distinct","log","hi"}` -/
def handleMFD (op : String) (j : Json) : Option (Except String Json) :=
  if op ≠ "mfd.lowerbound" then none else some do
    let optNatField (k : String) : Option Nat := (jNat j k).toOption
    let flows ← jList asRat j "flows"
    let width ← jNat j "width"
    let x : LBIn :=
      { optLb := optNatField "lowerbound_k", flows := flows, width := width,
        ignoreEmpty := (jBool j "ignore_empty").toOption.getD true,
        useMgs := (jBool j "use_mgs").toOption.getD false, mgs := optNatField "mgs",
        useScan := (jBool j "use_scan").toOption.getD false, scan := optNatField "scan" }
    let n := distinctInt flows
    let natJ : Option Nat → Json := fun o => match o with | some v => Json.num v | none => Json.null
    let (res, lb) : String × Option Nat := match lowerboundK x with
      | .value v => ("value", some v)
      | .valueError => ("ValueError", none)
      | .exit => ("exit", none)
    return Json.mkObj [("result", Json.str res), ("lb", natJ lb), ("distinct", Json.num n),
      ("log", natJ (if n = 0 then none else some (clog2 n))),
      ("hi", natJ ((optNatField "num_edges").map fun e => searchHi e ((optNatField "num_constraints").getD 0)))]

end FP.MFD
