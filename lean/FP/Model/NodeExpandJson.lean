import FP.Model.NodeExpand
import FP.Model.Enc.Parse
/-!
# driver ops of the node-expansion model: `nodeexpand`, `nodeexpand.translate`, `condense`, `lp.kfdnode`
-/
namespace FP
namespace NX
open Lean

def asNodeRat (j : Json) : Except String (Node × Rat) := do
  let a ← j.getArr?
  match a.toList with
  | [v, q] => return (← v.getStr?, ← asRat q)
  | _ => .error "node-value pair expected"

def parseNodeGraph (j : Json) : Except String NodeGraph := do
  return { g := ← parseGraph j,
           nodeFlow := (jList asNodeRat j "node_flow").toOption.getD [],
           edgeFlow := (jList asEdgeRat j "edge_flow").toOption.getD [],
           nodeLen := ← optField j "node_len" (asList asNodeRat),
           edgeLen := (jList asEdgeRat j "edge_len").toOption.getD [] }

def parseConstraints (j : Json) : Except String Constraints := do
  let kind := (jStr j "constraints_kind").toOption.getD "nodes"
  if kind = "edges" then
    return .edges ((jList (asList asEdge) j "constraints").toOption.getD [])
  else
    return .nodes ((jList (asList (·.getStr?)) j "constraints").toOption.getD [])

def edgeJson (e : Edge) : Json := strArr [e.1, e.2]
def edgesJson (l : List Edge) : Json := Json.arr (l.map edgeJson).toArray
def edgeRatsJson (l : List (Edge × Rat)) : Json :=
  Json.arr (l.map fun p => strArr [p.1.1, p.1.2, ratStr p.2]).toArray
def raises (k : String) : Json := Json.mkObj [("raises", Json.str k)]
def okJ (j : Json) : Json := Json.mkObj [("ok", j)]
def exJ {α} (f : α → Json) : Except String α → Json
  | .ok a => okJ (f a)
  | .error e => raises e

def parseNodeFlowInput (j : Json) : Except String NodeFlowInput := do
  return { ng := ← parseNodeGraph j,
           ignoreNodes := (jList (·.getStr?) j "ignore").toOption.getD [],
           constraints := ← parseConstraints j,
           weightInt := (jStr j "weight_type").toOption == some "int",
           k := ← jNat j "k",
           allowEmpty := (jBool j "allow_empty").toOption.getD false,
           coverage := (jRat j "coverage").toOption.getD 1,
           coverageLength := ← optField j "coverage_length" asRat }

def handleNodeExpand (op : String) (j : Json) : Option (Except String Json) :=
  match op with
  | "nodeexpand" => some do
    let ng ← parseNodeGraph j
    let starts := (jList (·.getStr?) j "starts").toOption.getD []
    let ends := (jList (·.getStr?) j "ends").toOption.getD []
    let src := (jStr j "src").toOption.getD "source#"
    let snk := (jStr j "snk").toOption.getD "sink#"
    match expandGraphWith ng src snk starts ends with
    | none => return raises "notin"
    | some (x, ign) =>
      return okJ (Json.mkObj [
        ("nodes", strArr x.nodes),
        ("edges", edgesJson (Graph.nxOrder x.nodes x.edges)),
        ("pred_edges", edgesJson (x.nodes.flatMap fun v => x.edges.filter (·.2 = v))),
        ("flow", edgeRatsJson (expandFlow ng)),
        ("lengths", match expandLengths ng with
                    | none => Json.null
                    | some l => edgeRatsJson l),
        ("ignore", edgesJson ign)])
  | "nodeexpand.translate" => some do
    let g ← parseGraph j
    let cons ← parseConstraints j
    let starts := (jList (·.getStr?) j "starts").toOption.getD []
    let ends := (jList (·.getStr?) j "ends").toOption.getD []
    let elems := (jList (·.getStr?) j "elements").toOption.getD []
    let eds := (jList asEdge j "element_edges").toOption.getD []
    return Json.mkObj [
      ("constraints", exJ (fun l => Json.arr (l.map edgesJson).toArray) (expandConstraints g cons)),
      ("starts", exJ strArr (expandStarts g starts)),
      ("ends", exJ strArr (expandEnds g ends)),
      ("elements", Json.arr (elems.map fun v => exJ edgeJson (expandedNode g v)).toArray),
      ("element_edges", Json.arr (eds.map fun e => exJ edgeJson (expandedEdge g e)).toArray)]
  | "condense" => some do
    let orig ← jList (·.getStr?) j "orig"
    let globals := (jList (·.getStr?) j "globals").toOption.getD []
    let paths ← jList (asList (·.getStr?)) j "paths"
    return exJ (fun l => Json.arr (l.map strArr).toArray) (condensePaths orig globals paths)
  | "condense.graph" => some do
    let g ← parseGraph j
    let xf ← jList asEdgeRat j "xflow"
    return Json.arr ((condenseFlow g xf).map fun p => strArr [p.1, ratStr p.2]).toArray
  | "lp.kfdnode" => some do
    let inp ← parseNodeFlowInput j
    match ← optField j "given_weights" (asList asRat) with
    | none => return exJ (fun lp => strArr lp.dump) (kfdNodeLP inp)
    | some ws =>
      let ok ← jNat j "original_k"
      -- the caller's `k` is validated before it is replaced by the number of given weights
      if ok = 0 then return raises "k"
      return exJ (fun fi => strArr (kfdGivenLP fi ws ok).dump)
        (kfdNodeInternal { inp with k := ws.length, allowEmpty := true })
  | _ => none

end NX
end FP
