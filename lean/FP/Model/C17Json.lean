import FP.Model.Json
import FP.Model.Enc.Parse
import FP.Model.Reach
import FP.Model.Bottleneck
import FP.Model.Antichain
/-!
# Driver ops of C17: `reach.query`, `dag.tables`, `bottleneck`, `greedy`, `antichain`

Oracle tables arrive as association lists; the handler refuses (error) a table that lacks an entry
the model would read, so that no lookup default is ever used silently.
-/
namespace FP
open Lean

def asNatPair (j : Json) : Except String (Nat × Nat) := do
  let a ← j.getArr?
  match a.toList with
  | [x, y] => return (← x.getNat?, ← y.getNat?)
  | _ => .error "pair expected"

def c17NodeNat (j : Json) : Except String (Node × Nat) := do
  let a ← j.getArr?
  match a.toList with
  | [x, y] => return (← x.getStr?, ← y.getNat?)
  | _ => .error "pair expected"

def asNatList (j : Json) : Except String (Nat × List Nat) := do
  let a ← j.getArr?
  match a.toList with
  | [x, y] => return (← x.getNat?, ← asList (·.getNat?) y)
  | _ => .error "pair expected"

def c17EdgeJson (e : Edge) : Json := strArr [e.1, e.2]
def c17EdgesJson (l : List Edge) : Json := Json.arr (l.map c17EdgeJson).toArray
def c17EdgeRatJson (p : Edge × Rat) : Json := Json.arr #[Json.str p.1.1, Json.str p.1.2, Json.str (ratStr p.2)]
def natArr (l : List Nat) : Json := Json.arr (l.map (fun (n : Nat) => Json.num (n : JsonNumber))).toArray

def parseCond (g : Graph) (j : Json) : Except String CondOracle := do
  let label ← jList c17NodeNat j "label"
  let cnodes ← jList (·.getNat?) j "cnodes"
  let cedges ← jList asNatPair j "cedges"
  let desc ← jList asNatList j "desc"
  let anc ← jList asNatList j "anc"
  let topo ← jList (·.getNat?) j "ctopo"
  for v in g.nodes do
    if (label.lookup v).isNone then throw s!"KeyError: mapping[{v}]"
  for c in cnodes do
    if (desc.lookup c).isNone then throw s!"descendants table lacks {c}"
    if (anc.lookup c).isNone then throw s!"ancestors table lacks {c}"
  if !checkTopo cnodes cedges topo then throw "condensation order violates the topological-order contract"
  return { lab := fun v => lookupD label v 0, cnodes := cnodes, cedges := cedges,
           desc := fun c => lookupD desc c [], anc := fun c => lookupD anc c [], topo := topo }

def asQuery (j : Json) : Except String Query := do
  let q ← jStr j "q"
  match q with
  | "reachable" => return .reachable (← jStr j "v")
  | "reaching" => return .reaching (← jStr j "v")
  | "scc" => return .sccEdge (← jStr j "u") (← jStr j "v")
  | "edgemax" => return .edgeMax (← jList asEdgeRat j "w")
  | _ => .error s!"unknown query {q}"

def answerJson : Answer → Json
  | .nodes l => Json.mkObj [("nodes", strArr l)]
  | .bool b => Json.mkObj [("bool", Json.bool b)]
  | .vals l => Json.mkObj [("vals", Json.arr (l.map c17EdgeRatJson).toArray)]
  | .valueError => Json.mkObj [("raise", Json.str "ValueError")]

def bresultJson : BResult → Json
  | .none => Json.mkObj [("none", Json.bool true)]
  | .path q p => Json.mkObj [("value", Json.str (ratStr q)), ("path", strArr p)]
  | .stuck => Json.mkObj [("stuck", Json.bool true)]

def handleC17 (op : String) (j : Json) : Option (Except String Json) :=
  match op with
  | "reach.query" => some do
    let g ← parseGraph j
    let o ← parseCond g j
    let qs ← jList asQuery j "queries"
    let (s, as) := qrun g o {} qs
    let pure := qs.map (pureAnswer g o)
    return Json.mkObj [("answers", Json.arr (as.map answerJson).toArray),
                       ("pure", Json.arr (pure.map answerJson).toArray),
                       ("fwd_keys", strArr (s.fwd.map (·.1)).reverse),
                       ("bwd_keys", strArr (s.bwd.map (·.1)).reverse)]
  | "dag.tables" => some do
    let g ← parseGraph j
    let topo ← jList (·.getStr?) j "topo"
    if !checkTopo g.nodes g.edges topo then throw "topological-order contract violated"
    let tbl := fun (f : Tbl Node (List Node)) => Json.arr (g.nodes.map fun v => Json.arr #[Json.str v, strArr (f.get v)]).toArray
    let tblE := fun (f : Tbl Node (List Edge)) => Json.arr (g.nodes.map fun v => Json.arr #[Json.str v, c17EdgesJson (f.get v)]).toArray
    return Json.mkObj [("reachable_nodes_from", tbl (dagReachNodes g topo)),
                       ("reachable_edges_from", tblE (dagReachEdges g topo)),
                       ("nodes_reaching", tbl (dagNodesReaching g topo)),
                       ("reachable_edges_rev_from", tblE (dagReachEdgesRev g topo))]
  | "bottleneck" => some do
    let g ← parseGraph j
    let topo ← jList (·.getStr?) j "topo"
    let fl ← jList asEdgeRat j "flow"
    if !checkTopo g.nodes g.edges topo then throw "topological-order contract violated"
    for e in g.edges do
      if (fl.lookup e).isNone then throw "KeyError: flow attribute"
    return bresultJson (maxBottleneckPath g (wtOf fl) topo)
  | "greedy" => some do
    let g ← parseGraph j
    let topo ← jList (·.getStr?) j "topo"
    let fl ← jList asEdgeRat j "flow"
    if !checkTopo g.nodes g.edges topo then throw "topological-order contract violated"
    for e in g.edges do
      if (fl.lookup e).isNone then throw "KeyError: flow attribute"
    match decompose g (wtOf fl) topo with
    | .done r => return Json.mkObj [("paths", Json.arr (r.paths.map fun p => strArr p.1).toArray),
                                    ("weights", strArr (r.paths.map fun p => ratStr p.2)),
                                    ("residual", Json.arr (g.edges.map fun e => c17EdgeRatJson (e, r.residual e)).toArray)]
    | .stuck => return Json.mkObj [("stuck", Json.bool true)]
  | "antichain" => some do
    let g ← parseGraph j
    let dem ← jList asEdgeRat j "demand"
    let fl ← jList asEdgeRat j "flow"
    let cost ← jRat j "cost"
    let useLen ← jBool j "use_len"
    for e in g.edges do
      if (fl.lookup e).isNone then throw "KeyError: minFlow"
      if (dem.lookup e).isNone then throw "KeyError: demand"
    let a : ACInput := { g := g, source := ← jStr j "source", sink := ← jStr j "sink",
                         demand := wtOf dem, flow := wtOf fl }
    let visJ := match acVisited a with
      | .ok (some vis) => strArr (g.nodes.filter (fun v => vis v != 0))
      | _ => Json.null
    match acResult a cost useLen with
    | .ok (some A) => return Json.mkObj [("antichain", c17EdgesJson A), ("visited", visJ)]
    | .ok none => return Json.mkObj [("stuck", Json.bool true)]
    | .error e => return Json.mkObj [("raise", Json.str e), ("visited", visJ)]
  | _ => none

end FP
