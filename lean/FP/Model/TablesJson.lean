import FP.Model.Json
import FP.Model.Store
import FP.Model.GuardEval
import FP.Model.Generated.Aliasing
import FP.Model.Generated.Guards
import FP.Spec.Rejections
/-!
# FP.Model.TablesJson — driver ops `k4.*`: the predictions of the generated tables (C18, C19)

The observation suites compare these answers — computed by the very functions the theorems are about —
with the behaviour of the real code.
-/
namespace FP
open Lean FP.Tables FP.Store FP.GuardEval FP.Generated

def outcomeStr : Outcome → String
  | .ok => "ok" | .valueError => "valueError" | .other => "other"

def k4GuardsOf (cls : String) : List Guard :=
  (guardTable.filter (fun cg => cg.cls = cls)).flatMap (·.guards)

def asConstruction (j : Json) : Except String Construction := do
  let cls ← jStr j "cls"
  let args ← jArr j "args"
  let as ← args.toList.mapM fun a => do
    let p ← a.getArr?
    match p.toList with
    | [x, y] => return (← x.getStr?, ← y.getNat?)
    | _ => .error "argument binding [param, ref] expected"
  return ⟨cls, as⟩

def handleK4 (op : String) (j : Json) : Option (Except String Json) :=
  match op with
  | "k4.outcome" => some do
    -- {"cls":, "flags": [violation names, "allIgnored"]}
    let cls ← jStr j "cls"
    let flags ← jList (·.getStr?) j "flags"
    let d := D.ofNames flags
    let cg : ClassGuards := ⟨cls, k4GuardsOf cls⟩
    let g := firing cg d
    let pre := (FP.Spec.Rejections.knownPreempted.filter (fun p => p.1 = cls)).map (·.2)
    return Json.mkObj [("outcome", Json.str (outcomeStr (outcome cg d))),
                       ("determined", Json.bool (determined cg pre d)),
                       ("guard", match g with
                                 | some g => Json.str (g.func ++ " | " ++ g.cond ++ (if g.path = "" then "" else "   [within: " ++ g.path ++ "]"))
                                 | none => Json.null),
                       ("guards", Json.num cg.guards.length)]
  | "k4.alias" => some do
    let cls ← jStr j "cls"
    match lookup aliasTable cls with
    | none => .error s!"no aliasing row for {cls}"
    | some ca =>
      let ws := ca.writes.filter (·.viaCaller)
      return Json.mkObj [
        ("written", strArr (ws.map (·.param)).eraseDups),
        ("writes", Json.arr (ws.map fun w =>
            Json.arr #[Json.str w.param, Json.str w.key, Json.str w.op, Json.bool w.whenNonEmpty]).toArray),
        ("defaultsWritten", Json.arr ((ca.defaults.filter (·.written)).map fun d =>
            Json.arr #[Json.str d.func, Json.str d.param]).toArray),
        ("clean", Json.bool (cleanRow ca)),
        ("delegates", strArr ca.delegates),
        ("fallsOff", Json.bool ca.getter.fallsOff),
        ("caches", Json.bool ca.getter.caches)]
  | "k4.expected" => some do
    -- the hand-written specification table of C19: which violations the class is to reject
    let cls ← jStr j "cls"
    let ex := FP.Spec.Rejections.expected cls
    let miss := (FP.Spec.Rejections.knownMissing.filter (fun p => p.1 = cls)).map (·.2)
    return Json.mkObj [("expected", strArr (ex.map FP.Spec.Rejections.Flag.name)),
                       ("knownMissing", strArr (miss.map FP.Spec.Rejections.Flag.name)),
                       ("knownPreempted", strArr (((FP.Spec.Rejections.knownPreempted.filter (fun p => p.1 = cls)).map (·.2)).map
                          FP.Spec.Rejections.Flag.name)),
                       ("guarded", strArr (((k4GuardsOf cls).map (fun g => FP.Spec.Rejections.Flag.name g.flag)).eraseDups))]
  | "k4.mayWrite" => some do
    -- {"history": [{"cls":, "args": [[param, ref], ...]}], "refs": n}: which of the refs 0..n-1 may change
    let hs ← jArr j "history"
    let h ← hs.toList.mapM asConstruction
    let n ← jNat j "refs"
    let rs := (List.range n).filter fun r => h.any fun c => mayWrite aliasTable c r
    return Json.arr (rs.map (fun (r : Nat) => Json.num (r : JsonNumber))).toArray
  | _ => none

end FP
