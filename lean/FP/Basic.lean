def hello := "world"
