import FP.Proofs.SafetyAdj
/-!
# FP.Proofs.SafetyBridges — every edge reported by `find_all_bridges` / `find_idom` is on every walk

The cut argument: at the moment a bridge `(y, z)` is reported the set `C` of labelled nodes contains `s`,
does not contain `t`, is closed under the residual adjacency `R` (the BFS queue is empty), the path prefix
up to `y` lies in `C` and `z` does not. An edge of the original graph that leaves `C` cannot be an edge of
`R` (closure), so it is a path edge; it is not before `(y, z)` (those end in `C`) and not after it (the
reversed path edges are in `R`, so its tail in `C` would pull `z` into `C`). Any walk from `s` to `t`
leaves `C`, hence traverses `(y, z)`.
-/
namespace FP.Safety
open FP.Spec
variable {V : Type} [DecidableEq V]

def Closed (R : Adj V) (C : List V) : Prop := ∀ u ∈ C, ∀ v ∈ out R u, v ∈ C
def QInv (R : Adj V) (q C : List V) : Prop := ∀ u ∈ C, u ∈ q ∨ ∀ v ∈ out R u, v ∈ C

/-- `w` is a walk from `s` to `t` in the adjacency dict `G` -/
structure IsWalkAdj (G : Adj V) (s t : V) (w : List V) : Prop where
  walk : ∀ e ∈ walkEdges w, e.2 ∈ out G e.1
  first : w.head? = some s
  last : w.getLast? = some t

theorem visitSuccs_spec (succs q C : List V) :
    (∀ x ∈ q, x ∈ (visitSuccs succs q C).1) ∧ (∀ x ∈ C, x ∈ (visitSuccs succs q C).2) ∧
    (∀ x ∈ succs, x ∈ (visitSuccs succs q C).2) ∧
    (∀ x ∈ (visitSuccs succs q C).2, x ∈ C ∨ x ∈ (visitSuccs succs q C).1) := by
  induction succs generalizing q C with
  | nil => simp only [visitSuccs, List.foldl_nil]; exact ⟨fun _ h => h, fun _ h => h, by simp, fun _ h => Or.inl h⟩
  | cons v succs ih =>
    unfold visitSuccs
    rw [List.foldl_cons]
    by_cases hv : v ∈ C
    · simp only [hv, if_true]
      obtain ⟨h1, h2, h3, h4⟩ := ih q C
      unfold visitSuccs at h1 h2 h3 h4
      refine ⟨h1, h2, ?_, h4⟩
      intro x hx
      rcases List.mem_cons.1 hx with rfl | hx
      · exact h2 _ hv
      · exact h3 _ hx
    · simp only [hv, if_false]
      obtain ⟨h1, h2, h3, h4⟩ := ih (q ++ [v]) (C ++ [v])
      unfold visitSuccs at h1 h2 h3 h4
      refine ⟨fun x hx => h1 x (by simp [hx]), fun x hx => h2 x (by simp [hx]), ?_, ?_⟩
      · intro x hx
        rcases List.mem_cons.1 hx with rfl | hx
        · exact h2 _ (by simp)
        · exact h3 _ hx
      · intro x hx
        rcases h4 x hx with h | h
        · rcases List.mem_append.1 h with h | h
          · left; exact h
          · right; apply h1; simp at h; simp [h]
        · right; exact h

theorem bfs_closed (R : Adj V) : ∀ n q C C', bfs R n q C = some C' → QInv R q C →
    Closed R C' ∧ ∀ x ∈ C, x ∈ C' := by
  intro n
  induction n with
  | zero =>
    intro q C C' h hq
    cases q with
    | nil =>
      simp [bfs] at h; subst h
      exact ⟨fun u hu => (hq u hu).resolve_left (by simp), fun x hx => hx⟩
    | cons u q => simp [bfs] at h
  | succ n ih =>
    intro q C C' h hq
    cases q with
    | nil =>
      simp [bfs] at h; subst h
      exact ⟨fun u hu => (hq u hu).resolve_left (by simp), fun x hx => hx⟩
    | cons u q =>
      simp only [bfs] at h
      obtain ⟨h1, h2, h3, h4⟩ := visitSuccs_spec (out R u) q C
      have hq' : QInv R (visitSuccs (out R u) q C).1 (visitSuccs (out R u) q C).2 := by
        intro x hx
        rcases h4 x hx with hxC | hxq
        · rcases hq x hxC with hm | hcl
          · rcases List.mem_cons.1 hm with rfl | hm
            · right; exact h3
            · left; exact h1 _ hm
          · right; intro v hv; exact h2 _ (hcl v hv)
        · left; exact hxq
      obtain ⟨hc, hs⟩ := ih _ _ _ h hq'
      exact ⟨hc, fun x hx => hs x (h2 x hx)⟩

theorem advance_spec (C : List V) : ∀ rest prev y z rest', advance C prev rest = some (y, z, rest') →
    ∃ sk, rest = sk ++ z :: rest' ∧ (∀ x ∈ sk, x ∈ C) ∧ z ∉ C ∧ (prev :: sk).getLast? = some y := by
  intro rest
  induction rest with
  | nil => intro prev y z rest' h; simp [advance] at h
  | cons x rest ih =>
    intro prev y z rest' h
    unfold advance at h
    by_cases hx : x ∈ C
    · rw [if_pos hx] at h
      obtain ⟨sk, h1, h2, h3, h4⟩ := ih x y z rest' h
      refine ⟨x :: sk, by rw [h1]; rfl, ?_, h3, ?_⟩
      · intro a ha; rcases List.mem_cons.1 ha with rfl | ha
        · exact hx
        · exact h2 a ha
      · simpa [List.getLast?_cons_cons] using h4
    · rw [if_neg hx] at h
      simp only [Option.some.injEq, Prod.mk.injEq] at h
      obtain ⟨rfl, rfl, rfl⟩ := h
      exact ⟨[], rfl, by simp, hx, by simp⟩

/-- along reversed path edges closure propagates backwards -/
theorem back_closure (R : Adj V) (C : List V) (hc : Closed R C) :
    ∀ l : List V, (∀ e ∈ walkEdges l, e.1 ∈ out R e.2) → ∀ e ∈ walkEdges l, e.1 ∈ C →
      ∀ h, l.head? = some h → h ∈ C := by
  intro l
  induction l with
  | nil => intro _ e he; simp [we_nil] at he
  | cons x l ih =>
    intro hr e he heC h hh
    simp at hh; subst hh
    cases l with
    | nil => simp [we_single] at he
    | cons y l =>
      rw [we_cons_cons] at he hr
      rcases List.mem_cons.1 he with rfl | he
      · exact heC
      · have hy : y ∈ C := ih (fun e he => hr e (List.mem_cons_of_mem _ he)) e he heC y rfl
        exact hc y hy x (hr (x, y) (by simp))

section cut
variable (G R : Adj V) (p : List V)
variable (h1 : ∀ a b, b ∈ out G a → b ∈ out R a ∨ (a, b) ∈ walkEdges p)
variable (h2 : ∀ e ∈ walkEdges p, e.1 ∈ out R e.2)
include h1 h2

/-- the only edge of `G` leaving a closed set that contains the path up to `y` but not `z` is `(y, z)` -/
theorem crossing_eq (C : List V) (hc : Closed R C) (pre post : List V) (y z : V)
    (hp : p = pre ++ y :: z :: post) (hpre : ∀ x ∈ pre ++ [y], x ∈ C) (hz : z ∉ C)
    (a b : V) (hab : b ∈ out G a) (ha : a ∈ C) (hb : b ∉ C) : (a, b) = (y, z) := by
  rcases h1 a b hab with h | h
  · exact absurd (hc a ha b h) hb
  · rw [hp, we_append_cons, we_cons_cons] at h
    rcases List.mem_append.1 h with h | h
    · exact absurd (hpre _ (we_snd_mem h)) hb
    · rcases List.mem_cons.1 h with h | h
      · exact h
      · exfalso
        apply hz
        have hr : ∀ e ∈ walkEdges (z :: post), e.1 ∈ out R e.2 := by
          intro e he
          apply h2; rw [hp]
          have : pre ++ y :: z :: post = (pre ++ [y]) ++ (z :: post) := by simp
          rw [this]; exact we_sub_append_left _ _ e he
        exact back_closure R C hc (z :: post) hr (a, b) h ha z rfl

theorem bridge_of_cut (C : List V) (hc : Closed R C) (pre post : List V) (y z : V)
    (hp : p = pre ++ y :: z :: post) (hpre : ∀ x ∈ pre ++ [y], x ∈ C) (hz : z ∉ C)
    (s t : V) (hs : s ∈ C) (ht : t ∉ C) (w : List V) (hw : IsWalkAdj G s t w) : (y, z) ∈ walkEdges w := by
  obtain ⟨e, he, ha, hb⟩ := cut_edge (· ∈ C) w s t hw.first hw.last hs ht
  have := crossing_eq G R p h1 h2 C hc pre post y z hp hpre hz e.1 e.2 (hw.walk e he) ha hb
  rw [← this]; exact he

structure LoopInv (s : V) (rest C : List V) : Prop where
  split : ∃ pre, p = pre ++ rest ∧ ∀ x ∈ pre, x ∈ C
  headC : ∀ h, rest.head? = some h → h ∈ C
  sC : s ∈ C
  closed : Closed R C

omit h1 h2 in
/-- what `advance` finds under the loop invariant -/
theorem advance_split (s prev : V) (rest C : List V) (hinv : LoopInv R p s rest C)
    (y z : V) (rest' : List V) (h : advance C prev rest = some (y, z, rest')) :
    ∃ pre, p = pre ++ y :: z :: rest' ∧ (∀ x ∈ pre ++ [y], x ∈ C) ∧ z ∉ C ∧ y ∈ rest := by
  obtain ⟨sk, hr, hsk, hz, hy⟩ := advance_spec C rest prev y z rest' h
  obtain ⟨pre, hp, hpre⟩ := hinv.split
  have hne : sk ≠ [] := by
    intro h0; subst h0
    rw [hr] at hinv
    exact hz (hinv.headC z rfl)
  obtain ⟨a, l, rfl⟩ := List.exists_cons_of_ne_nil hne
  have hl : (a :: l).getLast? = some y := by simpa [List.getLast?_cons_cons] using hy
  obtain ⟨sk', hsk'⟩ := List.getLast?_eq_some_iff.1 hl
  refine ⟨pre ++ sk', ?_, ?_, hz, ?_⟩
  · rw [hp, hr, hsk']; simp
  · intro x hx
    rw [List.append_assoc, ← hsk'] at hx
    rcases List.mem_append.1 hx with hx | hx
    · exact hpre x hx
    · exact hsk x hx
  · rw [hr, hsk']; simp

omit h1 in
/-- no node of the path from `z` on is labelled while `z` is not -/
theorem rest_unlabelled (C : List V) (hc : Closed R C) (pre post : List V) (y z : V)
    (hp : p = pre ++ y :: z :: post) (hz : z ∉ C) : ∀ x ∈ z :: post, x ∉ C := by
  have hr : ∀ e ∈ walkEdges (z :: post), e.1 ∈ out R e.2 := by
    intro e he
    apply h2; rw [hp]
    have : pre ++ y :: z :: post = (pre ++ [y]) ++ (z :: post) := by simp
    rw [this]; exact we_sub_append_left _ _ e he
  intro x hx hxC
  rcases List.mem_cons.1 hx with rfl | hx
  · exact hz hxC
  · -- x is the head of an edge of the rest of the path ... use the edge entering x
    obtain ⟨l1, l2, hl⟩ := List.append_of_mem hx
    -- z :: post = (z :: l1) ++ x :: l2 ; the edge (last (z::l1), x) has tail? we use the edge leaving x backwards
    have hsplit : z :: post = (z :: l1) ++ x :: l2 := by rw [hl]; rfl
    obtain ⟨u, l0, hu⟩ : ∃ u l0, z :: l1 = l0 ++ [u] :=
      ⟨(z :: l1).getLast (by simp), _, (List.dropLast_concat_getLast (by simp)).symm⟩
    have hmem : (u, x) ∈ walkEdges (z :: post) := by
      rw [hsplit, hu, List.append_assoc]; exact mem_we_mid _ _ _ _
    have huC : u ∈ C := hc x hxC u (hr (u, x) hmem)
    -- now propagate back from u along the prefix z :: l1 = l0 ++ [u]
    have hr' : ∀ e ∈ walkEdges (l0 ++ [u]), e.1 ∈ out R e.2 := by
      intro e he; apply hr; rw [hsplit, hu]; exact we_sub_append_right _ _ e he
    by_cases hl0 : l0 = []
    · subst hl0; simp at hu; exact hz (hu.1 ▸ huC)
    · obtain ⟨u', l00, hu'⟩ : ∃ u' l00, l0 = l00 ++ [u'] :=
        ⟨l0.getLast hl0, _, (List.dropLast_concat_getLast hl0).symm⟩
      have hm2 : (u', u) ∈ walkEdges (l0 ++ [u]) := by
        rw [hu', List.append_assoc]; exact mem_we_mid _ _ _ _
      have hu'C : u' ∈ C := hc u huC u' (hr' (u', u) hm2)
      have hhd : (l0 ++ [u]).head? = some z := by rw [← hu]; rfl
      exact hz (back_closure R C hc (l0 ++ [u]) hr' (u', u) hm2 hu'C z hhd)

/-- the bridges are met **in the order reported** by every walk from `s` to `t` -/
theorem bridgesLoop_ordered (s t : V) (bf : Nat) :
    ∀ n prev rest C acc bs, bridgesLoop R t bf n prev rest C acc = .ok bs →
      LoopInv R p s rest C →
      (∃ Cp : List V, (∀ x ∈ rest, x ∉ Cp) ∧ t ∉ Cp ∧
        ∀ x, x ∉ Cp → ∀ w, IsWalkAdj G s x w → acc.Sublist (walkEdges w)) →
      ∀ w, IsWalkAdj G s t w → bs.Sublist (walkEdges w) := by
  intro n
  induction n with
  | zero => intro prev rest C acc bs h; simp [bridgesLoop] at h
  | succ n ih =>
    intro prev rest C acc bs h hinv hacc
    unfold bridgesLoop at h
    by_cases ht : t ∈ C
    · rw [if_pos ht] at h; injection h with h; subst h
      obtain ⟨Cp, _, htp, hJ⟩ := hacc
      exact hJ t htp
    · rw [if_neg ht] at h
      split at h
      · cases h
      · rename_i y z rest' hadv
        split at h
        · cases h
        · rename_i C' hbfs
          obtain ⟨pre, hp, hpre, hz, hyr⟩ := advance_split R p s prev rest C hinv y z rest' hadv
          have hq : QInv R [z] (C ++ [z]) := by
            intro u hu
            rcases List.mem_append.1 hu with hu | hu
            · right; intro v hv; exact List.mem_append_left _ (hinv.closed u hu v hv)
            · left; simpa using hu
          obtain ⟨hcl, hsub⟩ := bfs_closed R _ _ _ _ hbfs hq
          apply ih y (z :: rest') C' (acc ++ [(y, z)]) bs h
          · refine ⟨⟨pre ++ [y], by rw [hp]; simp, ?_⟩, ?_, hsub s (by simp [hinv.sC]), hcl⟩
            · intro x hx; exact hsub x (List.mem_append_left _ (hpre x hx))
            · intro h hh; simp at hh; subst hh; exact hsub _ (by simp)
          · obtain ⟨Cp, hrest, _, hJ⟩ := hacc
            refine ⟨C, rest_unlabelled R p h2 C hinv.closed pre rest' y z hp hz, ht, ?_⟩
            intro x hx w hw
            have hyz : (y, z) ∈ walkEdges w :=
              bridge_of_cut G R p h1 h2 C hinv.closed pre rest' y z hp hpre hz s x hinv.sC hx w hw
            obtain ⟨w1, w2, rfl⟩ := mem_we_split hyz
            simp only at hw ⊢
            have hpw : IsWalkAdj G s y (w1 ++ [y]) := by
              refine ⟨?_, ?_, by simp⟩
              · intro e he; apply hw.walk
                have : w1 ++ y :: z :: w2 = (w1 ++ [y]) ++ (z :: w2) := by simp
                rw [this]; exact we_sub_append_right _ _ e he
              · have := hw.first; cases w1 <;> simpa using this
            have hsub1 := hJ y (hrest y hyr) _ hpw
            rw [we_append_cons, we_cons_cons]
            exact hsub1.append (List.Sublist.cons_cons _ (List.nil_sublist _))

end cut

/-! ## `find_all_bridges` -/

theorem greedyPath_spec (t : V) : ∀ n (g : Adj V) cur p0 g1 p, greedyPath t n g cur p0 = .ok (g1, p) →
    p0.getLast? = some cur →
    (∃ ext, p = p0 ++ ext) ∧ (∀ a b, b ∈ out g a → b ∈ out g1 a ∨ (a, b) ∈ walkEdges p) ∧
    (∀ e ∈ walkEdges p, e ∈ walkEdges p0 ∨ e.2 ∈ out g e.1) ∧ keys g1 = keys g := by
  intro n
  induction n with
  | zero => intro g cur p0 g1 p h; simp [greedyPath] at h
  | succ n ih =>
    intro g cur p0 g1 p h hl
    unfold greedyPath at h
    by_cases hc : cur = t
    · rw [if_pos hc] at h
      injection h with h; injection h with ha hb; subst ha; subst hb
      exact ⟨⟨[], by simp⟩, fun a b hb => Or.inl hb, fun e he => Or.inl he, rfl⟩
    · rw [if_neg hc] at h
      split at h
      · cases h
      · rename_i x hx
        obtain ⟨⟨ext, hext⟩, hA, hB, hK⟩ := ih (popOut g cur) x (p0 ++ [x]) g1 p h (by simp)
        have hxm : x ∈ out g cur := List.mem_of_getLast? hx
        have hwe : walkEdges (p0 ++ [x]) = walkEdges p0 ++ [(cur, x)] := we_concat p0 cur x hl
        refine ⟨⟨[x] ++ ext, by rw [hext]; simp⟩, ?_, ?_, by rw [hK, keys_popOut]⟩
        · intro a b hb
          rcases out_popOut_sub g cur a b hb with h' | ⟨rfl, h'⟩
          · exact hA a b h'
          · right
            rw [hx] at h'; injection h' with h'; subst h'
            rw [hext]; apply we_sub_append_right; rw [hwe]; simp
        · intro e he
          rcases hB e he with h' | h'
          · rw [hwe] at h'
            rcases List.mem_append.1 h' with h' | h'
            · left; exact h'
            · right; simp at h'; subst h'; exact hxm
          · right; exact out_popOut_mem g cur _ _ h'

theorem addReversed_fold (es : List (V × V)) : ∀ g : Adj V, (∀ e ∈ es, e.2 ∈ keys g) →
    (∀ a b, b ∈ out g a → b ∈ out (es.foldl (fun g e => appendOut g e.2 e.1) g) a) ∧
    (∀ e ∈ es, e.1 ∈ out (es.foldl (fun g e => appendOut g e.2 e.1) g) e.2) := by
  induction es with
  | nil => intro g _; exact ⟨fun _ _ h => h, by simp⟩
  | cons e es ih =>
    intro g hk
    rw [List.foldl_cons]
    obtain ⟨hA, hB⟩ := ih (appendOut g e.2 e.1) (fun e' he' => by
      rw [keys_appendOut]; exact hk e' (List.mem_cons_of_mem _ he'))
    refine ⟨fun a b hb => hA a b (out_appendOut_sub g _ _ a b hb), ?_⟩
    intro e' he'
    rcases List.mem_cons.1 he' with rfl | he'
    · exact hA _ _ (out_appendOut_new g _ _ (hk _ (by simp)))
    · exact hB e' he'

/-- T2 for the core of `find_all_bridges`: the reported list is met in order by every walk from `s` to `t` -/
theorem bridgesCore_ordered (g : Adj V) (s t : V) (hwf : wfAdj g s t = true)
    (bs : List (V × V)) (R : Adj V) (p : List V) (h : bridgesCore g s t = .ok (bs, R, p)) :
    ∀ w, IsWalkAdj g s t w → bs.Sublist (walkEdges w) := by
  obtain ⟨_, _, hkeys⟩ := wfAdj_out g s t hwf
  unfold bridgesCore at h
  split at h
  · cases h
  · cases h
  · rename_i g1 p' hgp
    obtain ⟨⟨ext, hext⟩, hA, hB, hK⟩ := greedyPath_spec t _ g s [s] g1 p' hgp (by simp)
    have hpk : ∀ e ∈ walkEdges p', e.2 ∈ keys g1 := by
      intro e he
      rcases hB e he with h' | h'
      · simp [we_single] at h'
      · rw [hK]; exact hkeys _ _ h'
    obtain ⟨hC, hD⟩ := addReversed_fold (walkEdges p') g1 hpk
    simp only at h
    split at h
    · cases h
    · rename_i C0 hbfs
      split at h
      · rename_i bs' hloop
        injection h with h; injection h with h1 h2; injection h2 with h2 h3; subst h1; subst h2; subst h3
        have hq : QInv (addReversed g1 p') [s] [s] := by intro u hu; left; exact hu
        obtain ⟨hcl, hsub⟩ := bfs_closed _ _ _ _ _ hbfs hq
        refine bridgesLoop_ordered g (addReversed g1 p') p' ?_ ?_ s t _ _ _ _ _ _ bs' hloop ?_ ?_
        · intro a b hb
          rcases hA a b hb with h' | h'
          · left; exact hC a b h'
          · right; exact h'
        · exact hD
        · refine ⟨⟨[], by simp, by simp⟩, ?_, hsub s (by simp), hcl⟩
          intro h hh; rw [hext] at hh; simp at hh; subst hh; exact hsub _ (by simp)
        · exact ⟨[], by simp, by simp, fun _ _ _ _ => List.nil_sublist _⟩
      · cases h
      · cases h

theorem findAllBridges_ordered (g : Adj V) (s t : V) (bs : List (V × V)) (g' : Adj V)
    (h : findAllBridges g s t = .ok (bs, g')) :
    ∀ w, IsWalkAdj g s t w → bs.Sublist (walkEdges w) := by
  unfold findAllBridges at h
  by_cases hwf : wfAdj g s t = true
  · rw [hwf] at h
    simp only [Bool.not_true, Bool.false_eq_true, if_false] at h
    cases hc : bridgesCore g s t with
    | ok r =>
      obtain ⟨bs', R, p⟩ := r
      rw [hc] at h
      injection h with h; injection h with h1 h2; subst h1
      exact bridgesCore_ordered g s t hwf bs' R p hc
    | raises w => rw [hc] at h; cases h
    | fuel => rw [hc] at h; cases h
  · have : wfAdj g s t = false := by simpa using hwf
    rw [this] at h; simp at h

theorem findAllBridges_sound (g : Adj V) (s t : V) (bs : List (V × V)) (g' : Adj V)
    (h : findAllBridges g s t = .ok (bs, g')) :
    ∀ e ∈ bs, ∀ w, IsWalkAdj g s t w → e ∈ walkEdges w :=
  fun _ he w hw => (findAllBridges_ordered g s t bs g' h w hw).subset he

end FP.Safety
