import FP.Proofs.KLAEC
import FP.Proofs.KFDCComplete
import FP.Proofs.LPLemmas
/-!
# FP.Proofs.KLAECAsg — building blocks of the completeness proofs of the two cyclic error models

* `klaecBits` — the number of bit columns of every product block of the two models
  (`⌈log2(w_max + 1)⌉`, as `intProdQ` computes it); `klaec_intProdQ_bits` (the block *is* the fragment
  with that many bits), `klaec_intProdQ_sat_of_bits` (completeness from explicit values, multiplicity
  `< 2^bits`), `klaec_prodFrag_mult_lt` (soundness: the integer factor is `< 2^bits`);
* `klaecProdAsg` — values of the bit / component columns of a family of named product blocks on top of
  a base assignment, with the evaluation lemmas (`klaecProdAsg_bit`, `_comp`, `_ix_other`, …);
* `klaecBaseAsg` — values of the structured columns of both models (edge, selected edge, used edge,
  distance, `r`, `pi`, `gamma`, weights, slack, `ee`).
-/
namespace FP
open FP.Spec

/-! ## the number of bits of a product block -/

/-- `ceil(log2(ub + 1))` as the helper computes it (least `n` with `⌈ub⌉ + 1 ≤ 2^n`) -/
def klaecBitsOf (ub : Rat) : Nat := numBits ub.ceil.toNat

/-- the number of bit columns of every product block of `kLeastAbsErrorsCycles` /
`kMinPathErrorCycles`: `⌈log2(w_max + 1)⌉` -/
def klaecBits (inp : WalkInput) : Nat := klaecBitsOf (inp.wmax true)

theorem klaec_intProdQ_bits (n c p : Var) (lb ub : Rat) (name : String) :
    intProdQ n c p lb ub name = prodFrag n c p lb ub name (klaecBitsOf ub) := by
  unfold intProdQ klaecBitsOf
  split
  · rename_i h
    have hc : ub.ceil = ub.num := by unfold Rat.ceil; rw [if_pos h.1]
    rw [intProd_eq_prodFrag, ← rat_eq_natCast_of_den_one ub h.1 h.2, hc]
  · rfl

/-- a natural number within the bound fits into the bits -/
theorem klaec_lt_bits_of_le (ub : Rat) (k : Nat) (h : (k : Rat) ≤ ub) : k < 2 ^ klaecBitsOf ub := by
  unfold klaecBitsOf
  apply lt_two_pow_numBits
  have h1 : (k : Rat) ≤ ((ub.ceil : Int) : Rat) := Rat.le_trans h Rat.le_ceil
  have h2 : ((k : Int) : Rat) ≤ ((ub.ceil : Int) : Rat) := by rwa [Rat.intCast_natCast]
  have h3 : (k : Int) ≤ ub.ceil := Rat.intCast_le_intCast.1 h2
  omega

/-- **integer × continuous with a rational bound, completeness in terms of the bits**: explicit values
with `n = k < 2^bits`, `0 ≤ c ≤ ub`, `p = n·c`, binary digits and digit × `c` satisfy the block -/
theorem klaec_intProdQ_sat_of_bits (a : Asg) (n c p : Var) (ub : Rat) (name : String) (k : Nat)
    (hk : a n = k) (hkb : k < 2 ^ klaecBitsOf ub) (hc : 0 ≤ a c ∧ a c ≤ ub)
    (hp : a p = a n * a c)
    (hbit : ∀ j, a (bitVar name j) = bitOf k j)
    (hcomp : ∀ j, a (compVar name j) = bitOf k j * a c) :
    Sat a (intProdQ n c p 0 ub name) := by
  rw [klaec_intProdQ_bits]
  exact prodFrag_sat_of_values a n c p 0 ub name _ k hk hkb Rat.le_refl
    (Rat.le_trans hc.1 hc.2) hc hp hbit hcomp

/-- soundness: the integer factor of a satisfied fragment with `nb` bits is `< 2^nb` -/
theorem klaec_prodFrag_mult_lt (a : Asg) (n c p : Var) (lb ub : Rat) (name : String) (nb k : Nat)
    (hk : a n = k) (h : Sat a (prodFrag n c p lb ub name nb)) : k < 2 ^ nb := by
  obtain ⟨hcols, hrows⟩ := h
  simp only [prodFrag] at hcols hrows
  have hbit : ∀ i, i < nb → a (bitVar name i) = 0 ∨ a (bitVar name i) = 1 := by
    intro i hi
    have := hcols { v := bitVar name i, lb := 0, ub := some 1, isInt := true }
      (List.mem_append_left _ (List.mem_map.2 ⟨i, List.mem_range.2 hi, rfl⟩))
    obtain ⟨h0, h1, hz⟩ := this
    exact int01 _ h0 (h1 1 rfl) (hz rfl)
  have hint := hrows _ (List.mem_append_left _ (List.mem_append_left _ (List.mem_singleton.2 rfl)))
  simp only [Row.holds, rowEq, evalTerms_append, evalTerms_map, evalTerms_single] at hint
  have h1 := hint.1 0 rfl
  have h2 := hint.2 0 rfl
  have hs := FP.GS.bits_sum_le nb (fun i => a (bitVar name i)) hbit
  have hle : (k : Rat) ≤ (2:Rat)^nb - 1 := by
    rw [← hk]; grind
  have := FP.GS.nat_le_of_rat_le_pow k nb hle
  have hpos : 0 < 2 ^ nb := Nat.two_pow_pos nb
  omega

/-! ## strings -/

theorem binary_ne_slack (s : String) : "binary_" ++ s ≠ "slack" :=
  str_ne_of_head _ _ 'b' 's' ("inary_".toList ++ s.toList) "lack".toList
    (by rw [String.toList_append]; rfl) rfl (by decide)

theorem comp_ne_slack (s : String) : "comp_" ++ s ≠ "slack" :=
  str_ne_of_head _ _ 'c' 's' ("omp_".toList ++ s.toList) "lack".toList
    (by rw [String.toList_append]; rfl) rfl (by decide)

/-! ## bit / component columns of a family of product blocks -/

/-- values for the bit and component columns of the product blocks `idx` (block `p` has the name
`name p`, the integer factor `mult p` and the continuous factor `cont p`); every other column as in
`base` -/
def klaecProdAsg {ι : Type} (idx : List ι) (name : ι → String) (mult : ι → Nat) (cont : ι → Rat)
    (base : Asg) : Asg := fun v =>
  match v with
  | .ix pfx j =>
    match idx.find? (fun p => pfx = "binary_" ++ name p) with
    | some p => bitOf (mult p) j
    | none =>
      match idx.find? (fun p => pfx = "comp_" ++ name p) with
      | some p => bitOf (mult p) j * cont p
      | none => base v
  | _ => base v

section ProdAsg
variable {ι : Type} (idx : List ι) (name : ι → String) (mult : ι → Nat) (cont : ι → Rat) (base : Asg)

theorem klaecProdAsg_uvi (pfx u v : String) (i : Nat) :
    klaecProdAsg idx name mult cont base (.uvi pfx u v i) = base (.uvi pfx u v i) := rfl

theorem klaecProdAsg_uv (pfx u v : String) :
    klaecProdAsg idx name mult cont base (.uv pfx u v) = base (.uv pfx u v) := rfl

theorem klaecProdAsg_vi (pfx u : String) (i : Nat) :
    klaecProdAsg idx name mult cont base (.vi pfx u i) = base (.vi pfx u i) := rfl

theorem klaecProdAsg_ij (pfx : String) (i j : Nat) :
    klaecProdAsg idx name mult cont base (.ij pfx i j) = base (.ij pfx i j) := rfl

theorem klaecProdAsg_ix_other (pfx : String) (j : Nat)
    (h1 : ∀ s, "binary_" ++ s ≠ pfx) (h2 : ∀ s, "comp_" ++ s ≠ pfx) :
    klaecProdAsg idx name mult cont base (.ix pfx j) = base (.ix pfx j) := by
  unfold klaecProdAsg
  simp only
  rw [find?_none_of_forall _ _ (fun p _ => by
      have := h1 (name p)
      simpa using fun h => this h.symm),
    find?_none_of_forall _ _ (fun p _ => by
      have := h2 (name p)
      simpa using fun h => this h.symm)]

theorem klaecProdAsg_bit (hinj : ∀ p ∈ idx, ∀ q ∈ idx, name p = name q → p = q)
    (p : ι) (hp : p ∈ idx) (j : Nat) :
    klaecProdAsg idx name mult cont base (bitVar (name p) j) = bitOf (mult p) j := by
  unfold klaecProdAsg bitVar
  simp only
  rw [find?_unique idx _ p hp (by simp) (fun q hq hqe => by
    have h1 : "binary_" ++ name p = "binary_" ++ name q := by simpa using hqe
    exact hinj q hq p hp ((String.append_right_inj _).1 h1).symm)]

theorem klaecProdAsg_comp (hinj : ∀ p ∈ idx, ∀ q ∈ idx, name p = name q → p = q)
    (p : ι) (hp : p ∈ idx) (j : Nat) :
    klaecProdAsg idx name mult cont base (compVar (name p) j) = bitOf (mult p) j * cont p := by
  unfold klaecProdAsg compVar
  simp only
  rw [find?_none_of_forall _ _ (fun q _ => by
      have := binary_ne_comp (name q) (name p)
      simpa using fun h => this h.symm),
    find?_unique idx _ p hp (by simp) (fun q hq hqe => by
      have h1 : "comp_" ++ name p = "comp_" ++ name q := by simpa using hqe
      exact hinj q hq p hp ((String.append_right_inj _).1 h1).symm)]

end ProdAsg

/-! ## the structured columns -/

/-- values of the structured columns of both cyclic error models: multiplicities `m`, weights `w`,
slacks `sl`, error values `ee`, connectivity witnesses `sel`, `dist` -/
def klaecBaseAsg (inp : WalkInput) (m : Nat → Edge → Nat) (w sl : Nat → Rat) (ee : Edge → Rat)
    (sel : Nat → Edge → Bool) (dist : Nat → Node → Nat) : Asg := fun v =>
  match v with
  | .uvi pfx x y i =>
    if pfx = "edge" then (m i (x, y) : Rat)
    else if pfx = "selected_edge" then (if sel i (x, y) then 1 else 0)
    else if pfx = "used_edge" then (if m i (x, y) = 0 then 0 else 1)
    else if pfx = "pi" then (if (x, y) ∈ inp.activeEdges true then w i * (m i (x, y) : Rat) else 0)
    else if pfx = "gamma" then (if (x, y) ∈ inp.activeEdges true then sl i * (m i (x, y) : Rat) else 0)
    else 0
  | .uv pfx x y => if pfx = "ee" then ee (x, y) else 0
  | .vi pfx x i => if pfx = "distance" then (dist i x : Rat) else 0
  | .ix pfx i => if pfx = "weights" then w i else if pfx = "slack" then sl i else 0
  | .ij pfx i j =>
    if pfx = "r" then
      (if coversB (m i) (inp.cfg.constraints.getD j []) inp.cfg.coverage then 1 else 0)
    else 0
  | _ => 0

section BaseAsg
variable (inp : WalkInput) (m : Nat → Edge → Nat) (w sl : Nat → Rat) (ee : Edge → Rat)
  (sel : Nat → Edge → Bool) (dist : Nat → Node → Nat)

theorem klaecBaseAsg_edge (e : Edge) (i : Nat) :
    klaecBaseAsg inp m w sl ee sel dist (edgeVar e i) = (m i e : Rat) := by
  simp [klaecBaseAsg, edgeVar]

theorem klaecBaseAsg_sel (e : Edge) (i : Nat) :
    klaecBaseAsg inp m w sl ee sel dist (selVar e i) = if sel i e then 1 else 0 := by
  simp [klaecBaseAsg, selVar]

theorem klaecBaseAsg_used (e : Edge) (i : Nat) :
    klaecBaseAsg inp m w sl ee sel dist (usedVar e i) = if m i e = 0 then 0 else 1 := by
  simp [klaecBaseAsg, usedVar]

theorem klaecBaseAsg_pi (e : Edge) (i : Nat) :
    klaecBaseAsg inp m w sl ee sel dist (piVar e i)
      = if e ∈ inp.activeEdges true then w i * (m i e : Rat) else 0 := by
  simp [klaecBaseAsg, piVar]

theorem klaecBaseAsg_gamma (e : Edge) (i : Nat) :
    klaecBaseAsg inp m w sl ee sel dist (gammaVar e i)
      = if e ∈ inp.activeEdges true then sl i * (m i e : Rat) else 0 := by
  simp [klaecBaseAsg, gammaVar]

theorem klaecBaseAsg_ee (e : Edge) : klaecBaseAsg inp m w sl ee sel dist (eeVar e) = ee e := by
  simp [klaecBaseAsg, eeVar]

theorem klaecBaseAsg_dist (v : Node) (i : Nat) :
    klaecBaseAsg inp m w sl ee sel dist (distVar v i) = (dist i v : Rat) := by
  simp [klaecBaseAsg, distVar]

theorem klaecBaseAsg_r (i j : Nat) :
    klaecBaseAsg inp m w sl ee sel dist (rVar i j)
      = if coversB (m i) (inp.cfg.constraints.getD j []) inp.cfg.coverage then 1 else 0 := by
  simp [klaecBaseAsg, rVar]

theorem klaecBaseAsg_weights (i : Nat) : klaecBaseAsg inp m w sl ee sel dist (weightsVar i) = w i := by
  simp [klaecBaseAsg, weightsVar]

theorem klaecBaseAsg_slack (i : Nat) : klaecBaseAsg inp m w sl ee sel dist (slackVar i) = sl i := by
  simp [klaecBaseAsg, slackVar]

end BaseAsg

/-! ## the walk core under such an assignment -/

/-- the walk core (`_encode_walks` and `_encode_subset_constraints`) is satisfied by every assignment
that carries multiplicities with layer witnesses on its structured columns -/
theorem klaec_core_sat (inp : WalkInput) (a : Asg) (m : Nat → Edge → Nat)
    (sel : Nat → Edge → Bool) (dist : Nat → Node → Nat)
    (hwf : STWFc inp.st) (hsrc : inp.st.source ∈ inp.st.g.nodes)
    (hlayer : ∀ i, i < inp.k → LayerWitness inp.st inp.cfg.allowEmpty (klaecCap inp) (m i) (sel i) (dist i))
    (hcov : ∀ j (hj : j < inp.cfg.constraints.length), ∃ i, i < inp.k ∧
      coversB (m i) inp.cfg.constraints[j] inp.cfg.coverage = true)
    (hx : ∀ i e, a (edgeVar e i) = (m i e : Rat))
    (hs : ∀ i e, a (selVar e i) = if sel i e then 1 else 0)
    (hd : ∀ i v, a (distVar v i) = (dist i v : Rat))
    (hu : ∀ i e, a (usedVar e i) = if m i e = 0 then 0 else 1)
    (hr : ∀ i j, a (rVar i j)
      = if coversB (m i) (inp.cfg.constraints.getD j []) inp.cfg.coverage then 1 else 0) :
    Sat a (klaecCore inp) := by
  refine sat_append_intro _ _ _ ?_ ?_
  · exact encodeWalks_sat inp.st inp.cfg (klaecCap inp) _ hwf.edgesNodup hwf.closed hsrc m sel dist
      hlayer (fun i _ e _ => hx i e) (fun i _ e _ => hs i e) (fun i _ v _ => hd i v)
  · apply subsetBlock_sat inp.st inp.cfg (klaecCap inp) _ m (fun i hi => (hlayer i hi).cap)
      (fun i _ e _ => hx i e) (fun i _ e => hu i e)
    · intro i _ j hj
      rw [hr]
      have : inp.cfg.constraints.getD j [] = inp.cfg.constraints[j] := by
        rw [List.getD_eq_getElem?_getD, List.getElem?_eq_getElem hj]; rfl
      rw [this]
    · exact hcov

end FP
