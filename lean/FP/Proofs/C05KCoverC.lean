import FP.Proofs.C05Opt
import FP.Proofs.KFDC
import FP.Proofs.SafetyIncompat
import FP.Proofs.SafetyMaxSeq
/-!
# FP.Proofs.C05KCoverC — `kPathCoverCycles`: the safety options preserve feasibility and the minimum

`kcoverc_safety_preserves_proof`: for every subset `o` of the six flags, the LP with the fragment
`safetyExtra … o` applied (`kcovercLPS`) is feasible iff the LP without it (`kcovercLP`) is, and both have the
same minimal objective (total number of edge traversals), given what C06 proves about the computed data
(`SafetyData`). `safetyData_of_pipeline` derives `SafetyData` for what `safetyPipeline` computes, from C06's
T5 (`maxSafeSeqs_safe`), T6 (`longestIncompatible_pairwise`, under its hypotheses) and T3 (`zeroFix_sound`).
-/
namespace FP
open FP.Spec FP.Safety

/-- the repetition cap of `kPathCoverCycles` -/
def kcovercCap (inp : WalkInput) (e : Edge) : Rat := lookupD (kcovercBounds inp.st) e 1

/-- cover rows and objective -/
def kcovercCover (inp : WalkInput) : LP :=
  { rows := (inp.activeEdges false).map fun e => rowGe (ones (List.range inp.k) (edgeVar e)) 1,
    obj := inp.st.g.edges.flatMap fun e => (List.range inp.k).map fun i => ((1 : Rat), edgeVar e i) }

theorem kcovercLP_eq (inp : WalkInput) :
    kcovercLP inp = (walkCore inp.st inp.cfg (kcovercCap inp)).append (kcovercCover inp) := rfl

theorem kcovercLPS_eq (inp : WalkInput) (fr : SafetyFrag) :
    kcovercLPS inp fr = (walkCoreS inp.st inp.cfg (kcovercCap inp) fr).append (kcovercCover inp) := rfl

theorem kcovercCap_nonScc (inp : WalkInput) (e : Edge) (he : e ∈ inp.st.g.edges)
    (h : isSccEdge inp.st.g e = false) : kcovercCap inp e = 1 := by
  unfold kcovercCap lookupD kcovercBounds capBounds
  rw [lookup_map_self _ _ e he]
  unfold isSccEdge at h
  simp [h]

/-- the cover rows read edge columns only -/
theorem kcovercCover_congr (inp : WalkInput) (a a' : Asg)
    (hE : ∀ e i, a' (edgeVar e i) = a (edgeVar e i)) (h : Sat a (kcovercCover inp)) :
    Sat a' (kcovercCover inp) := by
  refine ⟨fun col hc => by simp [kcovercCover] at hc, fun r hr => ?_⟩
  have hc := h.2 r hr
  obtain ⟨e, _, rfl⟩ := List.mem_map.1 hr
  simp only [Row.holds, rowGe, evalTerms_ones, hE] at hc ⊢
  exact hc

theorem edgeSum_congr (a a' : Asg) (hE : ∀ e i, a' (edgeVar e i) = a (edgeVar e i)) (k : Nat) (es : List Edge) :
    evalTerms a' (es.flatMap fun e => (List.range k).map fun i => ((1 : Rat), edgeVar e i))
      = evalTerms a (es.flatMap fun e => (List.range k).map fun i => ((1 : Rat), edgeVar e i)) := by
  induction es with
  | nil => rfl
  | cons e es ih =>
    simp only [List.flatMap_cons, evalTerms_append, ih]
    congr 1
    simp only [evalTerms, List.map_map, Function.comp_def, hE]

/-- every edge that is not ignored is traversed by some layer -/
theorem kcoverc_cover (inp : WalkInput) (a : Asg) (h : Sat a (kcovercLP inp)) :
    ∀ x ∈ kcovercTrusted inp, ∃ i, i < inp.k ∧ 1 ≤ a (edgeVar x i) := by
  intro x hx
  rw [kcovercLP_eq] at h
  have henc : Sat a (encodeWalks inp.st inp.cfg (kcovercCap inp)) :=
    sat_append_left a _ _ (sat_append_left a _ _ h)
  have hxe : x ∈ inp.st.g.edges := (List.mem_filter.1 hx).1
  have hrow := (sat_append_right a _ _ h).2 (rowGe (ones (List.range inp.k) (edgeVar x)) 1)
    (List.mem_map.2 ⟨x, hx, rfl⟩)
  have h1 := hrow.1 1 rfl
  simp only [rowGe, evalTerms_ones] at h1
  have hnz : ((List.range inp.k).map fun i => a (edgeVar x i)).sum ≠ 0 := by
    intro h0; rw [h0] at h1; exact absurd h1 (by decide)
  obtain ⟨i, hi, hne⟩ := exists_ne_zero_of_sum_ne_zero _ _ hnz
  have hi' : i < inp.cfg.k := List.mem_range.1 hi
  refine ⟨i, hi', ?_⟩
  have hm := edge_col henc hi' hxe
  rw [hm] at hne ⊢
  have : multOf a i x ≠ 0 := by
    intro h0; apply hne; rw [h0]; simp
  have h2 : ((1 : Nat) : Rat) ≤ (multOf a i x : Rat) := Rat.natCast_le_natCast.2 (by omega)
  simpa using h2

/-- **T3 + T4 for `kPathCoverCycles`**, every subset of the flags -/
theorem kcoverc_safety_preserves_proof (inp : WalkInput) (hb : BaseWF inp.base)
    (safe seqs : List (List Edge)) (zs : List (Edge × Nat))
    (D : SafetyData inp.st inp.k (kcovercTrusted inp) safe seqs zs) (o : SafetyOpts)
    (hcons : ∀ con ∈ inp.cfg.constraints, ∀ e ∈ con, e ∈ inp.st.g.edges)
    (hcov1 : inp.cfg.coverage ≤ 1) :
    ((∃ a, Sat a (kcovercLP inp)) ↔ (∃ a, Sat a (kcovercLPS inp (safetyExtra inp.st inp.k safe seqs zs o)))) ∧
    (∀ v, IsMin (fun a => Sat a (kcovercLP inp)) (fun a => evalTerms a (kcovercLP inp).obj) v ↔
      IsMin (fun a => Sat a (kcovercLPS inp (safetyExtra inp.st inp.k safe seqs zs o)))
        (fun a => evalTerms a (kcovercLPS inp (safetyExtra inp.st inp.k safe seqs zs o)).obj) v) := by
  have hwf : STWFc inp.st := augment_wfc inp.base inp.starts inp.ends hb
  have hub1 : ∀ e ∈ inp.st.g.edges, isSccEdge inp.st.g e = false → 1 ≤ kcovercCap inp e := by
    intro e he h; rw [kcovercCap_nonScc inp e he h]; exact Rat.le_refl
  apply c05_opt_transfer
  · intro a ha
    have hcover := kcoverc_cover inp a ha
    rw [kcovercLP_eq] at ha
    obtain ⟨π, _, hall⟩ := walkCoreS_of_walkCore (c := inp.cfg) hwf a (sat_append_left a _ _ ha)
      (kcovercTrusted inp) (fun x hx => (List.mem_filter.1 hx).1) hcover safe seqs zs D o hcons hcov1 hub1
    obtain ⟨_, _, hs'⟩ := hall (permLayers π.fwd) (permLayers_isLayerRenaming π.fwd)
    have hperm := kcovercLP_perm inp a π _ (permLayers_isLayerRenaming π.fwd) (by rw [kcovercLP_eq]; exact ha)
    refine ⟨subsetAsg (a ∘ permLayers π.fwd)
      (inp.cfg.constraints ++ (safetyExtra inp.st inp.cfg.k safe seqs zs o).constraints) inp.cfg.coverage, ?_, ?_⟩
    · rw [kcovercLPS_eq]
      have hcv := kcovercCover_congr inp (a ∘ permLayers π.fwd)
        (subsetAsg (a ∘ permLayers π.fwd)
          (inp.cfg.constraints ++ (safetyExtra inp.st inp.cfg.k safe seqs zs o).constraints) inp.cfg.coverage)
        (subsetAsg_edge (a ∘ permLayers π.fwd) _ _)
        (by have := hperm.1; rw [kcovercLP_eq] at this; exact sat_append_right _ _ _ this)
      exact ⟨fun col hc => (List.mem_append.1 hc).elim (hs'.1 col) (hcv.1 col),
             fun r hr => (List.mem_append.1 hr).elim (hs'.2 r) (hcv.2 r)⟩
    · show evalTerms (subsetAsg (a ∘ permLayers π.fwd) _ _) (kcovercLP inp).obj = evalTerms a (kcovercLP inp).obj
      rw [← hperm.2]
      exact edgeSum_congr (a ∘ permLayers π.fwd) _ (subsetAsg_edge (a ∘ permLayers π.fwd) _ _) inp.k _
  · intro a ha
    refine ⟨a, ?_, rfl⟩
    rw [kcovercLPS_eq] at ha
    rw [kcovercLP_eq]
    have hok := safetyExtra_boundsOK inp.st inp.k (kcovercCap inp) safe seqs zs o D.seqEdges hub1
    have h1 := walkCore_of_walkCoreS (c := inp.cfg) _ hok a (sat_append_left a _ _ ha)
    have h2 := sat_append_right a _ _ ha
    exact ⟨fun col hc => (List.mem_append.1 hc).elim (h1.1 col) (h2.1 col),
           fun r hr => (List.mem_append.1 hr).elim (h1.2 r) (h2.2 r)⟩

/-! ## what `safetyPipeline` computes satisfies `SafetyData` -/

theorem c05_longestIncompatible_sub (c : Cond) (seqs : List (List Edge)) (anti : List (String × String))
    (chosen : List (List Edge)) (h : longestIncompatible c seqs anti = .ok chosen) :
    (∀ q ∈ seqs, ∀ e ∈ q, e ∈ c.g.edges) ∧ ∀ q ∈ chosen, q ∈ seqs := by
  unfold longestIncompatible at h
  split at h
  · cases h
  · rename_i hedges
    simp only at h
    split at h
    · cases h
    · injection h with h; subst h
      constructor
      · intro q hq e he
        apply Classical.byContradiction
        intro hne
        apply hedges
        simp only [List.any_eq_true]
        exact ⟨q, hq, e, he, by simpa using hne⟩
      · intro q hq
        obtain ⟨i, hi, rfl⟩ := List.mem_map.1 hq
        obtain ⟨a, _, hia⟩ := List.mem_flatMap.1 hi
        obtain ⟨e, he, _⟩ := seqFn_mem c seqs a i hia
        have hlt : i < seqs.length := by
          apply Classical.byContradiction
          intro hge
          have : seqs.getD i [] = [] := by
            rw [List.getD_eq_getElem?_getD, List.getElem?_eq_none (by omega)]; rfl
          rw [this] at he; cases he
        exact c05_getD_mem seqs i [] hlt

theorem c05_safeFor_mono {g : Graph} {s t : Node} {X X' : List Edge} (h : ∀ x ∈ X, x ∈ X') {q : List Edge}
    (hq : SafeFor g s t X q) : SafeFor g s t X' q :=
  fun ws hws hc => hq ws hws (fun x hx => hc x (h x hx))

theorem safetyExtra_inactive (s : STGraph) (k : Nat) (safe seqs : List (List Edge)) (zs : List (Edge × Nat))
    (o : SafetyOpts) (h : o.active = false) : safetyExtra s k safe seqs zs o = {} := by
  unfold safetyExtra
  unfold SafetyOpts.active at h
  simp [h]

/-- with `fix_zero_edges` off the keys handed over do not matter -/
theorem safetyExtra_nofix (s : STGraph) (k : Nat) (safe seqs : List (List Edge)) (zs zs' : List (Edge × Nat))
    (o : SafetyOpts) (h : o.fixZero = false) :
    safetyExtra s k safe seqs zs o = safetyExtra s k safe seqs zs' o := by
  unfold safetyExtra
  simp [h]

/-- **the computed data satisfies what the optimum theorem needs**: C06 T5 for the maximal safe sequences,
C06 T6 (under its hypotheses: the captured antichain is an antichain, no shared parallel inter-SCC edge) for
the sequences handed to the slots, C06 T3 for the zero-fixed keys -/
theorem safetyData_of_pipeline (s : STGraph) (hg : GraphWF s.g) (k : Nat) (X T : List Edge)
    (hXT : ∀ x ∈ X, x ∈ T) (mapping : List (Node × Nat)) (anti : List (String × String)) (o : SafetyOpts)
    (fr : SafetyFrag) (h : safetyPipeline s k X mapping anti o = .ok fr)
    (hanti : AntichainHyp ⟨s.g, mapping⟩ s.source s.sink anti)
    (hshare : ∀ safe, maxSafeSeqs s.g s.source s.sink X = .ok safe → NoSharedParallel ⟨s.g, mapping⟩ safe anti) :
    ∃ safe seqs zs, fr = safetyExtra s k safe seqs zs o ∧ SafetyData s k T safe seqs zs := by
  have htriv : SafetyData s k T [] [] [] :=
    ⟨(fun _ h => nomatch h), (fun _ h => nomatch h), (fun _ h => nomatch h), List.Pairwise.nil,
     zeroSound_nil _ _ _⟩
  unfold safetyPipeline at h
  split at h
  · rename_i hact
    injection h with h
    refine ⟨[], [], [], ?_, htriv⟩
    rw [safetyExtra_inactive s k [] [] [] o (by simpa using hact)]
    exact h.symm
  split at h
  · cases h
  · cases h
  rename_i safe hsafe
  have hsafeOK : ∀ q ∈ safe, SafeFor s.g s.source s.sink T q := by
    intro q hq
    obtain ⟨c, hc, hf⟩ := maxSafeSeqs_safe s.g hg s.source s.sink X safe hsafe q hq
    exact c05_safeFor_mono hXT (safeFor_of_forcedBy hc hf)
  split at h
  · injection h with h
    exact ⟨safe, [], [], h.symm, ⟨hsafeOK, (fun _ h => nomatch h), (fun _ h => nomatch h), List.Pairwise.nil,
      zeroSound_nil _ _ _⟩⟩
  split at h
  · cases h
  · cases h
  rename_i walks hwalks
  have hW : (∀ q ∈ walks, q ∈ safe) ∧ (∀ q ∈ walks, ∀ e ∈ q, e ∈ s.g.edges) ∧
      walks.Pairwise fun p q => ¬ CoOccur s.g s.source s.sink p q := by
    split at hwalks
    · injection hwalks with hw; subst hw
      exact ⟨(fun _ h => nomatch h), (fun _ h => nomatch h), List.Pairwise.nil⟩
    · obtain ⟨h1, h2⟩ := c05_longestIncompatible_sub ⟨s.g, mapping⟩ safe anti walks hwalks
      refine ⟨h2, fun q hq e he => h1 q (h2 q hq) e he, ?_⟩
      exact longestIncompatible_pairwise ⟨s.g, mapping⟩ s.source s.sink safe anti walks hanti
        (hshare safe hsafe) hwalks
  split at h
  · cases h
  · cases h
  rename_i zs hzs
  split at h
  · cases h
  injection h with h
  have hzero : ZeroSound s.g walks k zs := by
    split at hzs
    · exact zeroSound_of_zeroFix s.g hg walks k zs hzs
    · injection hzs with hz; subst hz; exact zeroSound_nil _ _ _
  exact ⟨safe, walks, zs, h.symm, ⟨hsafeOK, fun q hq => hsafeOK q (hW.1 q hq), hW.2.1, hW.2.2, hzero⟩⟩

/-! ## the generic statement, and the pipeline forms -/

/-- **T3, generic.** `Base` is the feasible set of any model built on `_encode_walks` that is invariant under
permutations of the layers, `obj` a layer-symmetric objective, `X` edges that every solution traverses. Adding
the rows of the safety fragment changes neither feasibility nor the minimum. -/
theorem safety_rows_preserve_optimum_proof (s : STGraph) (c : WalkCfg) (ub : Edge → Rat) (hwf : STWFc s)
    (Base : Asg → Prop) (obj : Asg → Rat) (X : List Edge) (hX : ∀ x ∈ X, x ∈ s.g.edges)
    (hcore : ∀ a, Base a → Sat a (encodeWalks s c ub))
    (hcover : ∀ a, Base a → ∀ x ∈ X, ∃ i, i < c.k ∧ 1 ≤ a (edgeVar x i))
    (hsym : ∀ a (π : LayerPerm c.k), Base a →
      Base (a ∘ permLayers π.fwd) ∧ obj (a ∘ permLayers π.fwd) = obj a)
    (seqs : List (List Edge)) (hsafe : ∀ q ∈ seqs, SafeFor s.g s.source s.sink X q)
    (hinc : seqs.Pairwise fun p q => ¬ CoOccur s.g s.source s.sink p q)
    (zs : List (Edge × Nat)) (hzs : ZeroSound s.g seqs c.k zs) (safe : List (List Edge)) (o : SafetyOpts) :
    ((∃ a, Base a) ↔ (∃ a, Base a ∧ ∀ r ∈ (safetyExtra s c.k safe seqs zs o).asRows, r.holds a)) ∧
    (∀ v, IsMin Base obj v ↔
      IsMin (fun a => Base a ∧ ∀ r ∈ (safetyExtra s c.k safe seqs zs o).asRows, r.holds a) obj v) := by
  apply opt_preserved_proof
  intro a ha
  obtain ⟨π, hfit⟩ := slotsFit_exists hwf (hcore a ha) X hX (hcover a ha) seqs hsafe hinc zs hzs
  obtain ⟨h1, h2⟩ := hsym a π ha
  exact ⟨a ∘ permLayers π.fwd, h1,
    safetyRows_hold hfit _ (permLayers_isLayerRenaming π.fwd) safe o, h2⟩

/-- `kPathCoverCycles`, with the fragment computed by `safetyPipeline` -/
theorem kcoverc_pipeline_preserves_proof (inp : WalkInput) (hb : BaseWF inp.base) (X : List Edge)
    (hX : ∀ x ∈ X, x ∈ kcovercTrusted inp) (mapping : List (Node × Nat)) (anti : List (String × String))
    (o : SafetyOpts) (fr : SafetyFrag) (h : safetyPipeline inp.st inp.k X mapping anti o = .ok fr)
    (hanti : AntichainHyp ⟨inp.st.g, mapping⟩ inp.st.source inp.st.sink anti)
    (hshare : ∀ safe, maxSafeSeqs inp.st.g inp.st.source inp.st.sink X = .ok safe →
      NoSharedParallel ⟨inp.st.g, mapping⟩ safe anti)
    (hcons : ∀ con ∈ inp.cfg.constraints, ∀ e ∈ con, e ∈ inp.st.g.edges)
    (hcov1 : inp.cfg.coverage ≤ 1) :
    ((∃ a, Sat a (kcovercLP inp)) ↔ (∃ a, Sat a (kcovercLPS inp fr))) ∧
    (∀ v, IsMin (fun a => Sat a (kcovercLP inp)) (fun a => evalTerms a (kcovercLP inp).obj) v ↔
      IsMin (fun a => Sat a (kcovercLPS inp fr)) (fun a => evalTerms a (kcovercLPS inp fr).obj) v) := by
  have hwf : STWFc inp.st := augment_wfc inp.base inp.starts inp.ends hb
  obtain ⟨safe, seqs, zs, rfl, D⟩ := safetyData_of_pipeline inp.st hwf.closed inp.k X (kcovercTrusted inp) hX
    mapping anti o fr h hanti hshare
  exact kcoverc_safety_preserves_proof inp hb safe seqs zs D o hcons hcov1

end FP
