import FP.Proofs.KFDCRangeLists
import FP.Proofs.FlowDecompExists
/-!
# FP.Proofs.KFDCRangePeel — a circulation on the closed-up s-t graph is a sum of few simple closed walks

The augmented graph is closed up by the edge `sink → source` (`kfdcr_Ehat`). A natural-valued function
on these edges that is balanced at every vertex and vanishes on the source edge of isolated vertices
(`kfdcr_Circ`) is the sum of at most `#{base edges with a positive value}` weighted simple closed walks,
each of which runs through a base edge (`kfdcr_peel`). "Base" = neither leaving the synthetic source nor
entering or leaving the synthetic sink; on the shape `augment` produces without additional starts/ends
(`Thin`) every other edge of a positive simple closed walk dominates a base edge of that walk
(`kfdcr_base_below`), so the bottleneck can be taken at a base edge.
-/
namespace FP
open FP.Spec FP.Euler

/-- the edges of the augmented graph and the closing edge `sink → source` -/
def kfdcr_Ehat (s : STGraph) : List Edge := s.g.edges ++ [(s.sink, s.source)]

/-- the closed-up graph (vertex list: only used as a finite superset of the endpoints) -/
def kfdcr_Gc (s : STGraph) : Graph := kfdcr_G (s.source :: s.sink :: s.g.nodes) (kfdcr_Ehat s)

/-- an edge of the user's graph: it neither leaves the synthetic source nor touches the synthetic sink -/
def kfdcr_isBase (s : STGraph) (e : Edge) : Bool :=
  decide (e.1 ≠ s.source) && decide (e.2 ≠ s.sink) && decide (e.1 ≠ s.sink)

/-- number of base edges with a positive value -/
def kfdcr_posBase (s : STGraph) (g : Edge → Nat) : Nat :=
  (kfdcr_Ehat s).countP (fun e => decide (0 < g e) && kfdcr_isBase s e)

structure kfdcr_Circ (s : STGraph) (g : Edge → Nat) : Prop where
  supp : ∀ e, 0 < g e → e ∈ kfdcr_Ehat s
  bal : ∀ v, inN (kfdcr_Gc s) g v = outN (kfdcr_Gc s) g v
  s3 : ∀ v, (s.source, v) ∈ s.g.edges → (v, s.sink) ∈ s.g.edges → g (s.source, v) = 0

theorem kfdcr_exists_min {α} (l : List α) (f : α → Nat) (hne : l ≠ []) : ∃ a ∈ l, ∀ b ∈ l, f a ≤ f b := by
  induction l with
  | nil => exact absurd rfl hne
  | cons x xs ih =>
    by_cases hxs : xs = []
    · subst hxs
      exact ⟨x, by simp, fun b hb => by
        have : b = x := by simpa using hb
        rw [this]; exact Nat.le_refl _⟩
    · obtain ⟨a, ha, hmin⟩ := ih hxs
      by_cases hxa : f x ≤ f a
      · refine ⟨x, by simp, fun b hb => ?_⟩
        rcases List.mem_cons.1 hb with rfl | hb
        · exact Nat.le_refl _
        · exact Nat.le_trans hxa (hmin b hb)
      · refine ⟨a, by simp [ha], fun b hb => ?_⟩
        rcases List.mem_cons.1 hb with rfl | hb
        · omega
        · exact hmin b hb

theorem kfdcr_mem_Ehat {s : STGraph} {e : Edge} :
    e ∈ kfdcr_Ehat s ↔ e ∈ s.g.edges ∨ e = (s.sink, s.source) := by
  unfold kfdcr_Ehat; simp

theorem kfdcr_posBase_le (s : STGraph) (g : Edge → Nat) :
    kfdcr_posBase s g ≤ (s.g.edges.filter (isInner s)).length := by
  unfold kfdcr_posBase kfdcr_Ehat
  rw [List.countP_append, ← List.countP_eq_length_filter]
  have h2 : [(s.sink, s.source)].countP (fun e => decide (0 < g e) && kfdcr_isBase s e) = 0 := by
    simp [kfdcr_isBase]
  rw [h2, Nat.add_zero]
  apply List.countP_mono_left
  intro e _ h
  simp only [Bool.and_eq_true, kfdcr_isBase, decide_eq_true_eq] at h
  simp [isInner, h.2.1.1, h.2.1.2]

section Frame
variable {s : STGraph} (hwf : STWFc s)
include hwf

theorem kfdcr_Ehat_nodup : (kfdcr_Ehat s).Nodup := by
  unfold kfdcr_Ehat
  rw [List.nodup_append]
  refine ⟨hwf.edgesNodup, by simp, ?_⟩
  intro a ha b hb
  have : b = (s.sink, s.source) := by simpa using hb
  rw [this]
  intro hab
  exact hwf.snkNoOut a ha (by rw [hab])

theorem kfdcr_Ehat_closed : ∀ e ∈ kfdcr_Ehat s, e.1 ∈ (kfdcr_Gc s).nodes ∧ e.2 ∈ (kfdcr_Gc s).nodes := by
  intro e he
  unfold kfdcr_Ehat at he
  show e.1 ∈ s.source :: s.sink :: s.g.nodes ∧ e.2 ∈ s.source :: s.sink :: s.g.nodes
  rcases List.mem_append.1 he with h | h
  · have := hwf.closed e h
    simp [this.1, this.2]
  · have : e = (s.sink, s.source) := by simpa using h
    rw [this]; simp

end Frame

/-! ## linearity of in- and out-sums -/

theorem kfdcr_inN_add (G : Graph) (g1 g2 : Edge → Nat) (v : Node) :
    inN G (fun e => g1 e + g2 e) v = inN G g1 v + inN G g2 v := by
  unfold inN; exact nat_sum_map_add_p04 _ _ _

theorem kfdcr_outN_add (G : Graph) (g1 g2 : Edge → Nat) (v : Node) :
    outN G (fun e => g1 e + g2 e) v = outN G g1 v + outN G g2 v := by
  unfold outN; exact nat_sum_map_add_p04 _ _ _

theorem kfdcr_inN_mul (G : Graph) (g1 : Edge → Nat) (k : Nat) (v : Node) :
    inN G (fun e => k * g1 e) v = k * inN G g1 v := by
  unfold inN; exact kfdcr_sum_map_mul _ _ _

theorem kfdcr_outN_mul (G : Graph) (g1 : Edge → Nat) (k : Nat) (v : Node) :
    outN G (fun e => k * g1 e) v = k * outN G g1 v := by
  unfold outN; exact kfdcr_sum_map_mul _ _ _

/-- the traversal counts of a closed walk of a graph are balanced -/
theorem kfdcr_closed_walk_bal (G : Graph) (hnd : G.edges.Nodup) (x : Node) (b : List Node)
    (hW : IsWalkIn G (x :: b ++ [x])) (v : Node) :
    inN G (traversals (x :: b ++ [x])) v = outN G (traversals (x :: b ++ [x])) v := by
  have h1 := inN_traversals G hnd _ hW v
  have h2 := outN_traversals G hnd _ hW v
  unfold indeg at h1
  unfold outdeg at h2
  have := kfdcr_closed_bal x b v
  omega

/-- the traversal counts of a weighted family of closed walks of a graph are balanced -/
theorem kfdcr_tot_bal (G : Graph) (hnd : G.edges.Nodup) (D : List (List Node × Nat))
    (hD : ∀ d ∈ D, ∃ x b, d.1 = x :: b ++ [x] ∧ IsWalkIn G d.1) (v : Node) :
    inN G (kfdcr_tot D) v = outN G (kfdcr_tot D) v := by
  induction D with
  | nil =>
    have : kfdcr_tot [] = fun _ => 0 := by funext e; simp [kfdcr_tot]
    rw [this]
    unfold inN outN
    rw [nat_sum_eq_zero _ _ (fun _ _ => rfl), nat_sum_eq_zero _ _ (fun _ _ => rfl)]
  | cons d D ih =>
    have hfun : kfdcr_tot (d :: D) = fun e => d.2 * traversals d.1 e + kfdcr_tot D e := by
      funext e; exact kfdcr_tot_cons d D e
    obtain ⟨x, b, hxb, hW⟩ := hD d (by simp)
    rw [hfun, kfdcr_inN_add, kfdcr_outN_add, kfdcr_inN_mul, kfdcr_outN_mul,
      ih (fun d' hd' => hD d' (by simp [hd']))]
    rw [hxb] at hW ⊢
    rw [kfdcr_closed_walk_bal G hnd x b hW v]

/-! ## the bottleneck of a positive simple closed walk lies on a base edge -/

section Below
variable {s : STGraph} (hwf : STWFc s) (hth : Thin s) {g : Edge → Nat} (hc : kfdcr_Circ s g)
include hwf hth hc

omit hc in
/-- a vertex fed by the synthetic source only: what enters it is the value of that edge -/
theorem kfdcr_in_of_source_edge (v : Node) (hv : (s.source, v) ∈ s.g.edges) :
    inN (kfdcr_Gc s) g v = g (s.source, v) := by
  unfold inN
  apply kfdcr_sum_filter_single _ (kfdcr_Ehat_nodup hwf) _ g (s.source, v)
  · exact kfdcr_mem_Ehat.2 (Or.inl hv)
  · simp
  · intro e he hp
    have h2 : e.2 = v := by simpa using hp
    rcases kfdcr_mem_Ehat.1 he with h | h
    · have h1 : e.1 = s.source := hth.s1 v hv e.1 (by rw [← h2]; exact h)
      exact Prod.ext h1 h2
    · rw [h] at h2
      exact absurd h2.symm (hwf.srcNoIn _ hv)

omit hc in
/-- a vertex feeding the synthetic sink only -/
theorem kfdcr_out_of_sink_edge (v : Node) (hv : (v, s.sink) ∈ s.g.edges) :
    outN (kfdcr_Gc s) g v = g (v, s.sink) := by
  unfold outN
  apply kfdcr_sum_filter_single _ (kfdcr_Ehat_nodup hwf) _ g (v, s.sink)
  · exact kfdcr_mem_Ehat.2 (Or.inl hv)
  · simp
  · intro e he hp
    have h1 : e.1 = v := by simpa using hp
    rcases kfdcr_mem_Ehat.1 he with h | h
    · have h2 : e.2 = s.sink := hth.s2 v hv e.2 (by rw [← h1]; exact h)
      exact Prod.ext h1 h2
    · rw [h] at h1
      exact absurd h1.symm (hwf.snkNoOut _ hv)

omit hth hc in
/-- what enters the synthetic source is the value of the closing edge -/
theorem kfdcr_in_source : inN (kfdcr_Gc s) g s.source = g (s.sink, s.source) := by
  unfold inN
  apply kfdcr_sum_filter_single _ (kfdcr_Ehat_nodup hwf) _ g (s.sink, s.source)
  · exact kfdcr_mem_Ehat.2 (Or.inr rfl)
  · simp
  · intro e he hp
    have h2 : e.2 = s.source := by simpa using hp
    rcases kfdcr_mem_Ehat.1 he with h | h
    · exact absurd h2 (hwf.srcNoIn e h)
    · exact h

theorem kfdcr_below_source (x : Node) (b : List Node)
    (hpos : ∀ e ∈ walkEdges (x :: b ++ [x]), e ∈ kfdcr_Ehat s ∧ 0 < g e)
    (v : Node) (he : (s.source, v) ∈ walkEdges (x :: b ++ [x])) :
    ∃ e' ∈ walkEdges (x :: b ++ [x]), kfdcr_isBase s e' = true ∧ g e' ≤ g (s.source, v) := by
  have hmem : (s.source, v) ∈ s.g.edges := by
    rcases kfdcr_mem_Ehat.1 (hpos _ he).1 with h | h
    · exact h
    · exact absurd (congrArg Prod.fst h) hwf.ne
  have hvc : v ∈ x :: b ++ [x] := mem_of_mem_walkEdges _ _ he
  obtain ⟨w, hw⟩ := kfdcr_closed_out x b v hvc
  have hwE := (hpos _ hw).1
  have hvsnk : v ≠ s.sink := fun h => hwf.noDirect (h ▸ hmem)
  have hvsrc : v ≠ s.source := hwf.srcNoIn _ hmem
  have hwmem : (v, w) ∈ s.g.edges := by
    rcases kfdcr_mem_Ehat.1 hwE with h | h
    · exact h
    · exact absurd (congrArg Prod.fst h) hvsnk
  have hwsnk : w ≠ s.sink := by
    intro h
    have := hc.s3 v hmem (h ▸ hwmem)
    have hp := (hpos _ he).2
    omega
  refine ⟨(v, w), hw, by simp [kfdcr_isBase, hvsrc, hwsnk, hvsnk], ?_⟩
  have h1 : g (v, w) ≤ outN (kfdcr_Gc s) g v := le_outN (kfdcr_Gc s) g (e := (v, w)) hwE
  rw [← hc.bal v, kfdcr_in_of_source_edge hwf hth v hmem] at h1
  exact h1

/-- **every edge of a positive closed walk dominates a base edge of that walk** -/
theorem kfdcr_base_below (x : Node) (b : List Node)
    (hpos : ∀ e ∈ walkEdges (x :: b ++ [x]), e ∈ kfdcr_Ehat s ∧ 0 < g e)
    (e : Edge) (he : e ∈ walkEdges (x :: b ++ [x])) :
    ∃ e' ∈ walkEdges (x :: b ++ [x]), kfdcr_isBase s e' = true ∧ g e' ≤ g e := by
  obtain ⟨u, v⟩ := e
  by_cases h1 : u = s.source
  · subst h1
    exact kfdcr_below_source hwf hth hc x b hpos v he
  by_cases h2 : u = s.sink
  · -- the closing edge
    subst h2
    have hv : v = s.source := by
      rcases kfdcr_mem_Ehat.1 (hpos _ he).1 with h | h
      · exact absurd rfl (hwf.snkNoOut _ h)
      · exact congrArg Prod.snd h
    subst hv
    have hsc : s.source ∈ x :: b ++ [x] := mem_of_mem_walkEdges _ _ he
    obtain ⟨w, hw⟩ := kfdcr_closed_out x b s.source hsc
    obtain ⟨e', he', hb', hle⟩ := kfdcr_below_source hwf hth hc x b hpos w hw
    refine ⟨e', he', hb', Nat.le_trans hle ?_⟩
    have h1' : g (s.source, w) ≤ outN (kfdcr_Gc s) g s.source :=
      le_outN (kfdcr_Gc s) g (e := (s.source, w)) (hpos _ hw).1
    rw [← hc.bal, kfdcr_in_source hwf] at h1'
    exact h1'
  by_cases h3 : v = s.sink
  · subst h3
    have hmem : (u, s.sink) ∈ s.g.edges := by
      rcases kfdcr_mem_Ehat.1 (hpos _ he).1 with h | h
      · exact h
      · exact absurd (congrArg Prod.fst h) h2
    have huc : u ∈ x :: b ++ [x] := List.dropLast_subset _ (fst_mem_of_mem_walkEdges _ _ he)
    obtain ⟨y, hy⟩ := kfdcr_closed_in x b u huc
    have hyE := (hpos _ hy).1
    have hymem : (y, u) ∈ s.g.edges := by
      rcases kfdcr_mem_Ehat.1 hyE with h | h
      · exact h
      · exact absurd (congrArg Prod.snd h) h1
    have hysrc : y ≠ s.source := by
      intro h
      have := hc.s3 u (h ▸ hymem) hmem
      have hp := (hpos _ hy).2
      rw [h] at hp
      omega
    have hysnk : y ≠ s.sink := hwf.snkNoOut _ hymem
    refine ⟨(y, u), hy, by simp [kfdcr_isBase, hysrc, h2, hysnk], ?_⟩
    have h1' : g (y, u) ≤ inN (kfdcr_Gc s) g u := le_inN (kfdcr_Gc s) g (e := (y, u)) hyE
    rw [hc.bal u, kfdcr_out_of_sink_edge hwf hth u hmem] at h1'
    exact h1'
  · exact ⟨(u, v), he, by simp [kfdcr_isBase, h1, h2, h3], Nat.le_refl _⟩

end Below

/-! ## peeling -/

/-- what `kfdcr_peel` produces: weighted simple closed walks of the closed-up graph, each through a base edge -/
def kfdcr_Piece (s : STGraph) (d : List Node × Nat) : Prop :=
  1 ≤ d.2 ∧ ∃ x b, d.1 = x :: b ++ [x] ∧ (x :: b).Nodup ∧ (∀ e ∈ walkEdges d.1, e ∈ kfdcr_Ehat s) ∧
    ∃ e ∈ walkEdges d.1, kfdcr_isBase s e = true

theorem kfdcr_peel (s : STGraph) (hwf : STWFc s) (hth : Thin s) :
    ∀ (n : Nat) (g : Edge → Nat), kfdcr_posBase s g ≤ n → kfdcr_Circ s g →
      ∃ D : List (List Node × Nat), D.length ≤ kfdcr_posBase s g ∧ (∀ d ∈ D, kfdcr_Piece s d) ∧
        ∀ e, kfdcr_tot D e = g e := by
  intro n
  induction n with
  | zero =>
    intro g hn hc
    refine ⟨[], Nat.zero_le _, ?_, ?_⟩
    · intro d hd; cases hd
    intro e
    apply Classical.byContradiction
    intro hne
    have hpos : 0 < g e := by
      have : kfdcr_tot [] e = 0 := by simp [kfdcr_tot]
      omega
    obtain ⟨x, b, _, hcyc⟩ := kfdcr_find_cycle _ (kfdcr_Ehat s) g (kfdcr_Ehat_closed hwf) hc.bal e (hc.supp e hpos) hpos
    obtain ⟨e0, he0⟩ := List.exists_mem_of_ne_nil _ (kfdcr_closed_ne_nil x b)
    obtain ⟨e', he', hb', _⟩ := kfdcr_base_below hwf hth hc x b hcyc e0 he0
    have : 0 < kfdcr_posBase s g := by
      unfold kfdcr_posBase
      apply List.countP_pos_iff.2
      exact ⟨e', (hcyc e' he').1, by simp [hb', (hcyc e' he').2]⟩
    omega
  | succ n ih =>
    intro g hn hc
    by_cases hz : ∀ e, g e = 0
    · refine ⟨[], Nat.zero_le _, ?_, ?_⟩
      · intro d hd; cases hd
      · intro e; simp [kfdcr_tot, hz e]
    · have hex : ∃ e, 0 < g e := by
        apply Classical.byContradiction
        intro h
        apply hz
        intro e
        apply Classical.byContradiction
        intro he
        exact h ⟨e, by omega⟩
      obtain ⟨e0, hpos0⟩ := hex
      obtain ⟨x, b, hnd, hcyc⟩ := kfdcr_find_cycle _ (kfdcr_Ehat s) g (kfdcr_Ehat_closed hwf) hc.bal e0
        (hc.supp e0 hpos0) hpos0
      -- the cheapest base edge of the closed walk
      obtain ⟨e1, he1⟩ := List.exists_mem_of_ne_nil _ (kfdcr_closed_ne_nil x b)
      obtain ⟨eb, heb, hbb, _⟩ := kfdcr_base_below hwf hth hc x b hcyc e1 he1
      have hne : (walkEdges (x :: b ++ [x])).filter (kfdcr_isBase s) ≠ [] :=
        List.ne_nil_of_mem (List.mem_filter.2 ⟨heb, hbb⟩)
      obtain ⟨em, hem, hmin⟩ := kfdcr_exists_min _ g hne
      have hemw := (List.mem_filter.1 hem).1
      have hemb := (List.mem_filter.1 hem).2
      have hmpos : 0 < g em := (hcyc em hemw).2
      have hminall : ∀ e ∈ walkEdges (x :: b ++ [x]), g em ≤ g e := by
        intro e he
        obtain ⟨e', he', hb', hle⟩ := kfdcr_base_below hwf hth hc x b hcyc e he
        exact Nat.le_trans (hmin e' (List.mem_filter.2 ⟨he', hb'⟩)) hle
      have hEnd := kfdcr_simple_edges_nodup x b hnd
      have htrav : ∀ e, traversals (x :: b ++ [x]) e = if e ∈ walkEdges (x :: b ++ [x]) then 1 else 0 := by
        intro e
        unfold traversals
        by_cases he : e ∈ walkEdges (x :: b ++ [x])
        · rw [if_pos he]
          have h1 := List.nodup_iff_count.1 hEnd e
          have h2 := List.count_pos_iff.2 he
          omega
        · rw [if_neg he]; exact List.count_eq_zero.2 he
      let g' : Edge → Nat := fun e => g e - g em * traversals (x :: b ++ [x]) e
      have hsplit : ∀ e, g e = g' e + g em * traversals (x :: b ++ [x]) e := by
        intro e
        show g e = g e - g em * traversals (x :: b ++ [x]) e + g em * traversals (x :: b ++ [x]) e
        rw [htrav e]
        by_cases he : e ∈ walkEdges (x :: b ++ [x])
        · have := hminall e he
          rw [if_pos he]; omega
        · rw [if_neg he]; omega
      have hle : ∀ e, g' e ≤ g e := fun e => Nat.sub_le _ _
      have hW : IsWalkIn (kfdcr_Gc s) (x :: b ++ [x]) := fun e he => (hcyc e he).1
      have hc' : kfdcr_Circ s g' := by
        refine ⟨fun e he => hc.supp e (Nat.lt_of_lt_of_le he (hle e)), ?_, ?_⟩
        · intro v
          have hfun : g = fun e => g' e + g em * traversals (x :: b ++ [x]) e := funext hsplit
          have h1 := hc.bal v
          rw [hfun, kfdcr_inN_add, kfdcr_outN_add, kfdcr_inN_mul, kfdcr_outN_mul,
            kfdcr_closed_walk_bal (kfdcr_Gc s) (kfdcr_Ehat_nodup hwf) x b hW v] at h1
          omega
        · intro v h1 h2
          have := hc.s3 v h1 h2
          have := hle (s.source, v)
          omega
      have hlt : kfdcr_posBase s g' < kfdcr_posBase s g := by
        unfold kfdcr_posBase
        apply countP_lt _ _ _ _ em (hcyc em hemw).1
        · simp [hemb, hmpos]
        · have h0 : g' em = 0 := by
            show g em - g em * traversals (x :: b ++ [x]) em = 0
            rw [htrav em, if_pos hemw]; omega
          simp [h0]
        · intro e _ he
          simp only [Bool.and_eq_true, decide_eq_true_eq] at he ⊢
          exact ⟨Nat.lt_of_lt_of_le he.1 (hle e), he.2⟩
      obtain ⟨D', hlen, hD', hex'⟩ := ih g' (by omega) hc'
      refine ⟨(x :: b ++ [x], g em) :: D', by simp only [List.length_cons]; omega, ?_, ?_⟩
      · intro d hd
        rcases List.mem_cons.1 hd with rfl | hd
        · exact ⟨hmpos, x, b, rfl, hnd, fun e he => (hcyc e he).1, em, hemw, hemb⟩
        · exact hD' d hd
      · intro e
        rw [kfdcr_tot_cons, hex' e, hsplit e]
        show g em * traversals (x :: b ++ [x]) e + g' e = g' e + g em * traversals (x :: b ++ [x]) e
        omega

end FP
