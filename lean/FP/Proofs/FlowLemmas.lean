import FP.Model.PathCore
import FP.Spec.Routes
import FP.Proofs.WrapperBase
/-!
# FP.Proofs.FlowLemmas — list sums over `Rat`, flows on edge lists, the zero-flow lemma
-/
namespace FP
open FP.Spec

/-! ## sums of non-negative rationals -/

theorem sum_map_nonneg {α} (l : List α) (f : α → Rat) (h : ∀ e ∈ l, 0 ≤ f e) :
    0 ≤ (l.map f).sum := by
  induction l with
  | nil => simp
  | cons x xs ih =>
    have h1 := h x (by simp)
    have h2 := ih (fun e he => h e (by simp [he]))
    simp only [List.map_cons, List.sum_cons]; grind

theorem le_sum_of_mem {α} (l : List α) (f : α → Rat) (h : ∀ e ∈ l, 0 ≤ f e) (a : α) (ha : a ∈ l) :
    f a ≤ (l.map f).sum := by
  induction l with
  | nil => simp at ha
  | cons x xs ih =>
    have h1 := h x (by simp)
    have h2 := sum_map_nonneg xs f (fun e he => h e (by simp [he]))
    simp only [List.map_cons, List.sum_cons]
    rcases List.mem_cons.1 ha with rfl | hm
    · grind
    · have := ih (fun e he => h e (by simp [he])) hm
      grind

theorem sum_map_zero {α} (l : List α) (f : α → Rat) (h : ∀ e ∈ l, f e = 0) : (l.map f).sum = 0 := by
  induction l with
  | nil => simp
  | cons x xs ih =>
    have h1 := h x (by simp)
    have h2 := ih (fun e he => h e (by simp [he]))
    simp only [List.map_cons, List.sum_cons, h1, h2]; grind

theorem all_zero_of_sum_zero {α} (l : List α) (f : α → Rat) (h : ∀ e ∈ l, 0 ≤ f e)
    (hs : (l.map f).sum = 0) : ∀ e ∈ l, f e = 0 := by
  intro e he
  have h1 := le_sum_of_mem l f h e he
  have h2 := h e he
  grind

theorem exists_ne_zero_of_sum_ne_zero {α} (l : List α) (f : α → Rat) (hs : (l.map f).sum ≠ 0) :
    ∃ e ∈ l, f e ≠ 0 := by
  apply Classical.byContradiction
  intro hn
  apply hs
  apply sum_map_zero
  intro e he
  apply Classical.byContradiction
  intro h0
  exact hn ⟨e, he, h0⟩

theorem sum_map_sub {α} (l : List α) (f g : α → Rat) :
    (l.map (fun e => f e - g e)).sum = (l.map f).sum - (l.map g).sum := by
  induction l with
  | nil => simp only [List.map_nil, List.sum_nil]; grind
  | cons x xs ih => simp only [List.map_cons, List.sum_cons, ih]; grind

theorem sum_map_add {α} (l : List α) (f g : α → Rat) :
    (l.map (fun e => f e + g e)).sum = (l.map f).sum + (l.map g).sum := by
  induction l with
  | nil => simp only [List.map_nil, List.sum_nil]; grind
  | cons x xs ih => simp only [List.map_cons, List.sum_cons, ih]; grind

/-- the indicator of a single element summed over a list not containing it -/
theorem sum_single_not_mem {α} [DecidableEq α] (l : List α) (p : α) (h : p ∉ l) :
    (l.map (fun e => if p = e then (1 : Rat) else 0)).sum = 0 := by
  apply sum_map_zero
  intro e he
  have : p ≠ e := fun h' => h (h' ▸ he)
  simp [this]

/-- the indicator of a single element summed over a duplicate-free list containing it -/
theorem sum_single_mem {α} [DecidableEq α] (l : List α) (hnd : l.Nodup) (p : α) (h : p ∈ l) :
    (l.map (fun e => if p = e then (1 : Rat) else 0)).sum = 1 := by
  induction l with
  | nil => simp at h
  | cons x xs ih =>
    have hx : x ∉ xs := (List.nodup_cons.1 hnd).1
    simp only [List.map_cons, List.sum_cons]
    by_cases h1 : p = x
    · subst h1
      rw [sum_single_not_mem xs p hx]; simp; grind
    · have h2 : p ∈ xs := by simpa [h1] using h
      rw [ih (List.nodup_cons.1 hnd).2 h2]; simp [h1]; grind

/-! ## `mapM` in `Option` -/

theorem mapM_option_map {α β} (f : α → Option β) (l : List α) (r : List β)
    (h : l.mapM f = some r) : l.map f = r.map some := by
  induction l generalizing r with
  | nil => simp at h; simp [h]
  | cons x xs ih =>
    rw [List.mapM_cons] at h
    cases hx : f x with
    | none => simp [hx] at h
    | some y =>
      cases hxs : xs.mapM f with
      | none => simp [hx, hxs] at h
      | some ys =>
        simp [hx, hxs] at h
        subst h
        simp [hx, ih ys hxs]

theorem mapM_option_exists {α β} (f : α → Option β) (l : List α)
    (h : ∀ x ∈ l, ∃ y, f x = some y) : ∃ r, l.mapM f = some r := by
  induction l with
  | nil => exact ⟨[], by simp⟩
  | cons x xs ih =>
    obtain ⟨y, hy⟩ := h x (by simp)
    obtain ⟨ys, hys⟩ := ih (fun x hx => h x (by simp [hx]))
    exact ⟨y :: ys, by rw [List.mapM_cons]; simp [hy, hys]⟩

theorem mapM_range_get {β} (f : Nat → Option β) (k : Nat) (r : List β) (d : β)
    (h : (List.range k).mapM f = some r) : r.length = k ∧ ∀ i, i < k → f i = some (r.getD i d) := by
  have hm := mapM_option_map f _ r h
  have hlen : r.length = k := by
    have := congrArg List.length hm
    simpa using this.symm
  refine ⟨hlen, fun i hi => ?_⟩
  have := congrArg (fun l => l[i]?) hm
  simp [hi] at this
  rw [List.getD_eq_getElem?_getD]
  have hi' : i < r.length := by omega
  simp [List.getElem?_eq_getElem hi'] at this ⊢
  exact this
/-! ## successors and predecessors -/

theorem mem_succ {g : Graph} {v w : Node} : w ∈ g.succ v ↔ (v, w) ∈ g.edges := by
  unfold Graph.succ
  constructor
  · intro h
    obtain ⟨e, he, rfl⟩ := List.mem_map.1 h
    have hm := List.mem_filter.1 he
    have : e.1 = v := by simpa using hm.2
    rw [← this]; exact hm.1
  · intro h
    exact List.mem_map.2 ⟨(v, w), List.mem_filter.2 ⟨h, by simp⟩, rfl⟩

theorem mem_pred {g : Graph} {v u : Node} : u ∈ g.pred v ↔ (u, v) ∈ g.edges := by
  unfold Graph.pred
  constructor
  · intro h
    obtain ⟨e, he, rfl⟩ := List.mem_map.1 h
    have hm := List.mem_filter.1 he
    have : e.2 = v := by simpa using hm.2
    rw [← this]; exact hm.1
  · intro h
    exact List.mem_map.2 ⟨(u, v), List.mem_filter.2 ⟨h, by simp⟩, rfl⟩

/-! ## flows -/

/-- total value of `y` on the edges leaving `v` -/
def outflow (g : Graph) (y : Edge → Rat) (v : Node) : Rat := ((g.edges.filter (·.1 = v)).map y).sum
/-- total value of `y` on the edges entering `v` -/
def inflow (g : Graph) (y : Edge → Rat) (v : Node) : Rat := ((g.edges.filter (·.2 = v)).map y).sum

/-- **zero-flow lemma.** A non-negative edge function on a DAG which is conserved at the tail of
every edge not leaving `src` and has no out-flow at `src` vanishes. -/
theorem flow_zero (g : Graph) (rank : Node → Nat) (hr : ∀ e ∈ g.edges, rank e.1 < rank e.2)
    (src : Node) (y : Edge → Rat) (hy : ∀ e ∈ g.edges, 0 ≤ y e)
    (hcons : ∀ e ∈ g.edges, e.1 ≠ src → inflow g y e.1 = outflow g y e.1)
    (hsrc : outflow g y src = 0) : ∀ e ∈ g.edges, y e = 0 := by
  have key : ∀ n, ∀ e ∈ g.edges, rank e.1 < n → y e = 0 := by
    intro n
    induction n with
    | zero => intro e _ h; omega
    | succ n ih =>
      intro e he hlt
      have hout : outflow g y e.1 = 0 := by
        by_cases hs : e.1 = src
        · rw [hs]; exact hsrc
        · rw [← hcons e he hs]
          apply sum_map_zero
          intro e' he'
          have hm := List.mem_filter.1 he'
          have h2 : e'.2 = e.1 := by simpa using hm.2
          have := hr e' hm.1
          rw [h2] at this
          exact ih e' hm.1 (by omega)
      have hall := all_zero_of_sum_zero (g.edges.filter (fun e' : Edge => e'.1 = e.1)) y
        (fun e' he' => hy e' (List.mem_filter.1 he').1) hout
      exact hall e (List.mem_filter.2 ⟨he, by simp⟩)
  intro e he
  exact key (rank e.1 + 1) e he (by omega)

end FP
