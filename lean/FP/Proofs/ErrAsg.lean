import FP.Proofs.PathCoreComplete
/-!
# FP.Proofs.ErrAsg — the assignment representing a k-route solution of the error models, integrality
lemmas, and the decoded routes of a satisfying assignment
-/
namespace FP
open FP.Spec

/-! ## integrality -/

theorem isInt_add {a b : Rat} (ha : IsInt a) (hb : IsInt b) : IsInt (a + b) := by
  obtain ⟨x, rfl⟩ := ha; obtain ⟨y, rfl⟩ := hb; exact ⟨x + y, (Rat.intCast_add x y).symm⟩
theorem isInt_sub {a b : Rat} (ha : IsInt a) (hb : IsInt b) : IsInt (a - b) := by
  obtain ⟨x, rfl⟩ := ha; obtain ⟨y, rfl⟩ := hb; exact ⟨x - y, (Rat.intCast_sub x y).symm⟩
theorem isInt_mul {a b : Rat} (ha : IsInt a) (hb : IsInt b) : IsInt (a * b) := by
  obtain ⟨x, rfl⟩ := ha; obtain ⟨y, rfl⟩ := hb; exact ⟨x * y, (Rat.intCast_mul x y).symm⟩
theorem isInt_neg {a : Rat} (ha : IsInt a) : IsInt (-a) := by
  obtain ⟨x, rfl⟩ := ha; exact ⟨-x, (Rat.intCast_neg x).symm⟩
theorem isInt_abs {a : Rat} (ha : IsInt a) : IsInt a.abs := by
  unfold Rat.abs; split
  · exact ha
  · exact isInt_neg ha
theorem isInt_zero : IsInt 0 := ⟨0, by simp⟩
theorem isInt_min {a b : Rat} (ha : IsInt a) (hb : IsInt b) : IsInt (min a b) := by
  by_cases h : a ≤ b
  · rw [Rat.min_def, if_pos h]; exact ha
  · rw [Rat.min_def, if_neg h]; exact hb
theorem isInt_sum_map {α} (l : List α) (f : α → Rat) (h : ∀ x ∈ l, IsInt (f x)) : IsInt (l.map f).sum := by
  induction l with
  | nil => exact isInt_zero
  | cons x xs ih =>
    simp only [List.map_cons, List.sum_cons]
    exact isInt_add (h x (by simp)) (ih (fun y hy => h y (by simp [hy])))

/-! ## absolute values -/

theorem le_abs (q : Rat) : q ≤ q.abs := by unfold Rat.abs; split <;> grind
theorem neg_le_abs (q : Rat) : -q ≤ q.abs := by unfold Rat.abs; split <;> grind
theorem abs_nonneg (q : Rat) : 0 ≤ q.abs := by unfold Rat.abs; split <;> grind
theorem abs_le (q g : Rat) (h1 : q ≤ g) (h2 : -q ≤ g) : q.abs ≤ g := by unfold Rat.abs; split <;> grind

/-! ## sums -/

theorem sum_map_le_p07 {α} (l : List α) (f g : α → Rat) (h : ∀ x ∈ l, f x ≤ g x) :
    (l.map f).sum ≤ (l.map g).sum := by
  induction l with
  | nil => exact Rat.le_refl
  | cons x xs ih =>
    have h1 := h x (by simp)
    have h2 := ih (fun y hy => h y (by simp [hy]))
    simp only [List.map_cons, List.sum_cons]; grind

theorem sum_map_lt {α} (l : List α) (f g : α → Rat) (h : ∀ x ∈ l, f x ≤ g x) (x0 : α) (hx0 : x0 ∈ l)
    (hlt : f x0 < g x0) : (l.map f).sum < (l.map g).sum := by
  induction l with
  | nil => simp at hx0
  | cons x xs ih =>
    have h1 := h x (by simp)
    have h2 := sum_map_le_p07 xs f g (fun y hy => h y (by simp [hy]))
    simp only [List.map_cons, List.sum_cons]
    rcases List.mem_cons.1 hx0 with rfl | hm
    · grind
    · have := ih (fun y hy => h y (by simp [hy])) hm
      grind

theorem sum_map_mul_left_p07 {α} (l : List α) (f : α → Rat) (k : Rat) :
    (l.map (fun i => k * f i)).sum = k * (l.map f).sum := by
  induction l with
  | nil => simp
  | cons x xs ih => simp only [List.map_cons, List.sum_cons, ih]; grind

theorem sum_map_const {α} (l : List α) (c : Rat) : (l.map fun _ => c).sum = (l.length : Rat) * c := by
  induction l with
  | nil => simp
  | cons x xs ih => simp only [List.map_cons, List.sum_cons, ih, List.length_cons, Rat.natCast_add]; grind

/-! ## the representing assignment -/

/-- a k-route solution: inner paths, weights, slacks, per-edge errors -/
structure ErrSol where
  P : Nat → List Node
  w : Nat → Rat
  sl : Nat → Rat := fun _ => 0
  ee : Edge → Rat := fun _ => 0

/-- the assignment of the LP columns that represents a solution: `edge` = route indicators,
`pi` = indicator · weight, `gamma` = indicator · slack, `position` / `path_length` = edge counts,
`weights`, `slack`, `ee` as given; every other column 0 -/
def solAsg (s : STGraph) (σ : ErrSol) : Asg := fun v =>
  match v with
  | .uvi pfx u v i =>
    if pfx = "edge" then trav s (σ.P i) (u, v)
    else if pfx = "pi" then trav s (σ.P i) (u, v) * σ.w i
    else if pfx = "gamma" then trav s (σ.P i) (u, v) * σ.sl i
    else if pfx = "position" then ((edgesReaching s u).map (trav s (σ.P i))).sum
    else 0
  | .ix pfx i =>
    if pfx = "weights" then σ.w i else if pfx = "slack" then σ.sl i
    else if pfx = "path_length" then (s.g.edges.map (trav s (σ.P i))).sum else 0
  | .uv pfx u v => if pfx = "ee" then σ.ee (u, v) else 0
  | _ => 0

section
variable (s : STGraph) (σ : ErrSol)
theorem solAsg_edge (e : Edge) (i : Nat) : solAsg s σ (edgeVar e i) = trav s (σ.P i) e := by
  simp [solAsg, edgeVar]
theorem solAsg_pi (e : Edge) (i : Nat) : solAsg s σ (piVar e i) = trav s (σ.P i) e * σ.w i := by
  simp [solAsg, piVar]
theorem solAsg_gamma (e : Edge) (i : Nat) : solAsg s σ (gammaVar e i) = trav s (σ.P i) e * σ.sl i := by
  simp [solAsg, gammaVar]
theorem solAsg_pos (e : Edge) (i : Nat) :
    solAsg s σ (posVar e i) = ((edgesReaching s e.1).map (trav s (σ.P i))).sum := by
  simp [solAsg, posVar]
theorem solAsg_len (i : Nat) : solAsg s σ (lenVar i) = (s.g.edges.map (trav s (σ.P i))).sum := by
  simp [solAsg, lenVar]
theorem solAsg_w (i : Nat) : solAsg s σ (weightsVar i) = σ.w i := by simp [solAsg, weightsVar]
theorem solAsg_slack (i : Nat) : solAsg s σ (slackVar i) = σ.sl i := by simp [solAsg, slackVar]
theorem solAsg_ee (e : Edge) : solAsg s σ (eeVar e) = σ.ee e := by simp [solAsg, eeVar]
end

/-- the route indicators of `k` routes satisfy the path encoding -/
theorem solAsg_sat_paths (s : STGraph) (c : PathCfg) (σ : ErrSol) (hwf : STWF s)
    (hroute : ∀ i, i < c.k → Route s c.allowEmpty (σ.P i))
    (hcons : c.constraints = []) (hlen : c.lengths = none) : Sat (solAsg s σ) (encodePaths s c) :=
  encodePaths_complete s c (solAsg s σ) σ.P hwf hroute hcons hlen
    (fun i _ e _ => solAsg_edge s σ e i)
    (fun _ i _ => ⟨fun e _ => solAsg_pos s σ e i, solAsg_len s σ i⟩)

/-! ## decoding a satisfying assignment -/

/-- every layer of a satisfying assignment of `encodePaths` decodes to a route whose indicator is
the layer's edge columns -/
theorem decode_routes (s : STGraph) (c : PathCfg) (a : Asg) (hwf : STWF s)
    (hsat : Sat a (encodePaths s c)) :
    ∃ ps : List (List Node), decodePaths s (fun e i => a (edgeVar e i)) c.k = some ps ∧
      ps.length = c.k ∧
      (∀ i, i < c.k → Route s c.allowEmpty (ps.getD i [])) ∧
      ∀ i, i < c.k → ∀ e ∈ s.g.edges, a (edgeVar e i) = trav s (ps.getD i []) e := by
  obtain ⟨ps, hps, hlen, htrav⟩ := decode_all s c a hwf hsat
  have hget := mapM_range_get _ c.k ps [] hps
  refine ⟨ps, hps, hlen, ?_, htrav⟩
  intro i hi
  obtain ⟨p, hp, hempty, hne⟩ := pathcore_sound s c a hwf hsat i hi
  have hpe : p = ps.getD i [] := by
    have := hget.2 i hi
    rw [hp] at this
    exact Option.some.inj this
  rw [← hpe]
  by_cases hp0 : p = []
  · exact Or.inl ⟨hp0, (hempty hp0).1⟩
  · obtain ⟨hw, hnd, _⟩ := hne hp0
    exact Or.inr ⟨hp0, hw, hnd⟩

/-- `explained` only looks at the layers `i < k` -/
theorem explained_congr (s : STGraph) (k : Nat) (P P' : Nat → List Node) (w w' : Nat → Rat) (e : Edge)
    (h : ∀ i, i < k → w i * trav s (P i) e = w' i * trav s (P' i) e) :
    explained s k P w e = explained s k P' w' e :=
  sum_map_congr _ _ _ (fun i hi => h i (List.mem_range.1 hi))

theorem mem_basicEdges (inp : ErrInput) (e : Edge) (he : e ∈ inp.basicEdges) : e ∈ inp.st.g.edges :=
  (List.mem_filter.1 he).1

end FP
