import FP.Proofs.FlowDecompExists
/-!
# FP.Proofs.KFDCRangeCara — Carathéodory's theorem for cones, over the rationals

`kfdcr_caratheodory`: a non-negative combination of vectors `vec i` (`i` in a duplicate-free index list)
agrees, on a list `Ea` of coordinates, with a non-negative combination of at most `|Ea|` of them.
Proof: more than `|Ea|` vectors are linearly dependent on `Ea` (`kfdcr_lin_dep`, Gaussian elimination on
one coordinate at a time); moving the weights along a dependency until the first weight reaches zero
(`kfdcr_shift`) removes one vector.
-/
namespace FP

/-- `Σ_{i ∈ I} c i · vec i e` -/
def kfdcr_comb (I : List Nat) (c : Nat → Rat) (vec : Nat → Edge → Rat) (e : Edge) : Rat :=
  (I.map fun i => c i * vec i e).sum

theorem kfdcr_comb_erase (I : List Nat) (c : Nat → Rat) (vec : Nat → Edge → Rat) (e : Edge) (p : Nat)
    (hp : p ∈ I) : kfdcr_comb I c vec e = c p * vec p e + kfdcr_comb (I.erase p) c vec e := by
  unfold kfdcr_comb
  have := perm_sum ((List.perm_cons_erase hp).map fun i => c i * vec i e)
  rw [this]; simp

theorem kfdcr_comb_congr (I : List Nat) (c c' : Nat → Rat) (vec vec' : Nat → Edge → Rat) (e : Edge)
    (h : ∀ i ∈ I, c i * vec i e = c' i * vec' i e) : kfdcr_comb I c vec e = kfdcr_comb I c' vec' e := by
  unfold kfdcr_comb
  exact sum_map_congr _ _ _ h

/-- **more vectors than coordinates are linearly dependent** -/
theorem kfdcr_lin_dep : ∀ (Ea : List Edge) (vec : Nat → Edge → Rat) (I : List Nat), I.Nodup →
    Ea.length < I.length →
    ∃ c : Nat → Rat, (∃ i ∈ I, c i ≠ 0) ∧ ∀ e ∈ Ea, kfdcr_comb I c vec e = 0 := by
  intro Ea
  induction Ea with
  | nil =>
    intro vec I _ hlen
    cases I with
    | nil => simp at hlen
    | cons i0 I' =>
      refine ⟨fun _ => 1, ⟨i0, by simp, ?_⟩, ?_⟩
      · show (1 : Rat) ≠ 0
        decide
      · intro e he; cases he
  | cons e0 Ea ih =>
    intro vec I hnd hlen
    simp only [List.length_cons] at hlen
    by_cases hall : ∀ i ∈ I, vec i e0 = 0
    · obtain ⟨c, hc, hz⟩ := ih vec I hnd (by omega)
      refine ⟨c, hc, ?_⟩
      intro e he
      rcases List.mem_cons.1 he with rfl | he
      · unfold kfdcr_comb
        apply sum_map_zero
        intro i hi
        rw [hall i hi, Rat.mul_zero]
      · exact hz e he
    · have hex : ∃ p ∈ I, vec p e0 ≠ 0 := by
        apply Classical.byContradiction
        intro h
        apply hall
        intro i hi
        apply Classical.byContradiction
        intro hne
        exact h ⟨i, hi, hne⟩
      obtain ⟨p, hp, hpne⟩ := hex
      let r : Nat → Rat := fun i => vec i e0 * (vec p e0)⁻¹
      let vec' : Nat → Edge → Rat := fun i e => vec i e - r i * vec p e
      have hnd' : (I.erase p).Nodup := hnd.erase p
      have hlen' : Ea.length < (I.erase p).length := by
        rw [List.length_erase_of_mem hp]; omega
      obtain ⟨c', ⟨i1, hi1, hc1⟩, hz⟩ := ih vec' (I.erase p) hnd' hlen'
      let s : Rat := ((I.erase p).map fun i => c' i * r i).sum
      let c : Nat → Rat := fun i => if i = p then -s else c' i
      have hne_p : ∀ i ∈ I.erase p, i ≠ p := fun i hi => ((hnd.mem_erase_iff).1 hi).1
      -- the combination of the original vectors equals the combination of the reduced ones
      have hkey : ∀ e, kfdcr_comb I c vec e = kfdcr_comb (I.erase p) c' vec' e := by
        intro e
        rw [kfdcr_comb_erase I c vec e p hp]
        have h1 : kfdcr_comb (I.erase p) c vec e = kfdcr_comb (I.erase p) c' vec e := by
          apply kfdcr_comb_congr
          intro i hi
          show (if i = p then -s else c' i) * vec i e = c' i * vec i e
          rw [if_neg (hne_p i hi)]
        have h2 : kfdcr_comb (I.erase p) c' vec' e
            = kfdcr_comb (I.erase p) c' vec e - s * vec p e := by
          unfold kfdcr_comb
          have hfun : ((I.erase p).map fun i => c' i * vec' i e)
              = (I.erase p).map fun i => c' i * vec i e - (c' i * r i) * vec p e := by
            apply List.map_congr_left
            intro i _
            show c' i * (vec i e - r i * vec p e) = _
            grind
          rw [hfun, sum_map_sub]
          have hfun2 : ((I.erase p).map fun i => (c' i * r i) * vec p e)
              = (I.erase p).map fun i => vec p e * (c' i * r i) := by
            apply List.map_congr_left
            intro i _
            exact Rat.mul_comm _ _
          rw [hfun2, sum_map_mul_left_p03]
          show _ = _ - s * vec p e
          rw [Rat.mul_comm (vec p e) _]
        have hcp : c p = -s := by show (if p = p then -s else c' p) = -s; simp
        rw [h1, h2, hcp]
        grind
      refine ⟨c, ⟨i1, List.mem_of_mem_erase hi1, ?_⟩, ?_⟩
      · show (if i1 = p then -s else c' i1) ≠ 0
        rw [if_neg (hne_p i1 hi1)]; exact hc1
      · intro e he
        rw [hkey e]
        rcases List.mem_cons.1 he with rfl | he
        · unfold kfdcr_comb
          apply sum_map_zero
          intro i _
          show c' i * (vec i e - vec i e * (vec p e)⁻¹ * vec p e) = 0
          rw [Rat.mul_assoc, Rat.inv_mul_cancel _ hpne, Rat.mul_one]
          grind
        · exact hz e he

/-- **moving along a dependency until a weight vanishes** -/
theorem kfdcr_shift (Ea : List Edge) (vec : Nat → Edge → Rat) (I : List Nat) (w c : Nat → Rat)
    (hw : ∀ i ∈ I, 0 ≤ w i) (hpos : ∃ i ∈ I, 0 < c i) (hz : ∀ e ∈ Ea, kfdcr_comb I c vec e = 0) :
    ∃ (w' : Nat → Rat) (q : Nat), q ∈ I ∧ w' q = 0 ∧ (∀ i ∈ I, 0 ≤ w' i) ∧
      ∀ e ∈ Ea, kfdcr_comb I w' vec e = kfdcr_comb I w vec e := by
  obtain ⟨i0, hi0, hc0⟩ := hpos
  have hne : I.filter (fun i => decide (0 < c i)) ≠ [] :=
    List.ne_nil_of_mem (List.mem_filter.2 ⟨hi0, by simpa using hc0⟩)
  obtain ⟨q, hq, hmin⟩ := exists_min _ (fun i => w i * (c i)⁻¹) hne
  have hqI : q ∈ I := (List.mem_filter.1 hq).1
  have hcq : 0 < c q := by simpa using (List.mem_filter.1 hq).2
  have hcq0 : c q ≠ 0 := by grind
  let t : Rat := w q * (c q)⁻¹
  have ht0 : 0 ≤ t := Rat.mul_nonneg (hw q hqI) (Rat.le_of_lt (Rat.inv_pos.2 hcq))
  refine ⟨fun i => w i - t * c i, q, hqI, ?_, ?_, ?_⟩
  · show w q - w q * (c q)⁻¹ * c q = 0
    rw [Rat.mul_assoc, Rat.inv_mul_cancel _ hcq0, Rat.mul_one]
    grind
  · intro i hi
    show 0 ≤ w i - t * c i
    by_cases hci : 0 < c i
    · have hle : t ≤ w i * (c i)⁻¹ := hmin i (List.mem_filter.2 ⟨hi, by simpa using hci⟩)
      have h1 := Rat.mul_le_mul_of_nonneg_right hle (Rat.le_of_lt hci)
      have hci0 : c i ≠ 0 := by grind
      rw [Rat.mul_assoc (w i), Rat.inv_mul_cancel _ hci0, Rat.mul_one] at h1
      grind
    · have hci' : 0 ≤ -c i := by grind
      have h1 := Rat.mul_nonneg ht0 hci'
      have h2 := hw i hi
      grind
  · intro e he
    unfold kfdcr_comb
    have hfun : (I.map fun i => (w i - t * c i) * vec i e)
        = I.map fun i => w i * vec i e - t * (c i * vec i e) := by
      apply List.map_congr_left
      intro i _
      grind
    rw [hfun, sum_map_sub, sum_map_mul_left_p03]
    have := hz e he
    unfold kfdcr_comb at this
    rw [this]
    grind

/-- **Carathéodory for cones** -/
theorem kfdcr_caratheodory (Ea : List Edge) (vec : Nat → Edge → Rat) :
    ∀ (n : Nat) (I : List Nat) (w : Nat → Rat), I.length ≤ n → I.Nodup → (∀ i ∈ I, 0 ≤ w i) →
      ∃ (I' : List Nat) (w' : Nat → Rat), I'.Nodup ∧ (∀ i ∈ I', i ∈ I) ∧ I'.length ≤ Ea.length ∧
        (∀ i ∈ I', 0 ≤ w' i) ∧ ∀ e ∈ Ea, kfdcr_comb I' w' vec e = kfdcr_comb I w vec e := by
  intro n
  induction n with
  | zero =>
    intro I w hlen hnd hw
    have : I = [] := List.eq_nil_of_length_eq_zero (by omega)
    subst this
    exact ⟨[], w, List.nodup_nil, fun i hi => hi, Nat.zero_le _, hw, fun e _ => rfl⟩
  | succ n ih =>
    intro I w hlen hnd hw
    by_cases hsmall : I.length ≤ Ea.length
    · exact ⟨I, w, hnd, fun i hi => hi, hsmall, hw, fun e _ => rfl⟩
    · obtain ⟨c, ⟨i1, hi1, hc1⟩, hz⟩ := kfdcr_lin_dep Ea vec I hnd (by omega)
      -- a dependency with a positive coefficient
      have hdep : ∃ c : Nat → Rat, (∃ i ∈ I, 0 < c i) ∧ ∀ e ∈ Ea, kfdcr_comb I c vec e = 0 := by
        by_cases hpos : 0 < c i1
        · exact ⟨c, ⟨i1, hi1, hpos⟩, hz⟩
        · refine ⟨fun i => -c i, ⟨i1, hi1, by show 0 < -c i1; grind⟩, ?_⟩
          intro e he
          have := hz e he
          unfold kfdcr_comb at this ⊢
          have hfun : (I.map fun i => -c i * vec i e) = I.map fun i => (-1 : Rat) * (c i * vec i e) := by
            apply List.map_congr_left
            intro i _
            grind
          rw [hfun, sum_map_mul_left_p03, this]
          grind
      obtain ⟨c2, hpos2, hz2⟩ := hdep
      obtain ⟨w', q, hq, hwq, hw', heq⟩ := kfdcr_shift Ea vec I w c2 hw hpos2 hz2
      have hlen' : (I.erase q).length ≤ n := by
        rw [List.length_erase_of_mem hq]; omega
      obtain ⟨I', w'', hnd', hsub, hlen'', hw'', heq'⟩ := ih (I.erase q) w' hlen' (hnd.erase q)
        (fun i hi => hw' i (List.mem_of_mem_erase hi))
      refine ⟨I', w'', hnd', fun i hi => List.mem_of_mem_erase (hsub i hi), hlen'', hw'', ?_⟩
      intro e he
      rw [heq' e he, ← heq e he, kfdcr_comb_erase I w' vec e q hq, hwq]
      grind

end FP
