import FP.Proofs.WalkLemmas
import FP.Proofs.EulerClosed
import FP.Proofs.RouteFacts
/-!
# FP.Proofs.C09Compress — every walk can be replaced by one that repeats no edge more than `2·|E| + 1` times

`c09c_compress`: a walk `l` from `u` to `v` along edges of `es` has a companion `l'` from `u` to `v`
along edges of `es` that runs through every edge of `l` and through no edge more than
`2 · es.length + 1` times.

Construction (`c09c_compress_aux`, by induction on the number of edges still to be visited): go along a
*simple* path (`c09c_simple`) to the tail of the first edge of `l` that is still required, take the edge,
continue from the rest of `l` with one required edge less. A simple path uses an edge at most once, so
every round adds at most two traversals to any edge.

This is why the repetition cap `|E|·|V|` that `kPathCoverCycles` passes to the walk model cuts off no
cover (`FP.Proofs.C09WalkComplete`): whatever `k` walks cover, `k` walks within the cap cover as well.
-/
namespace FP
open FP.Spec

/-- `l` is a walk from `u` to `v` along edges of `es` (as a vertex sequence) -/
structure c09c_W (es : List Edge) (u v : Node) (l : List Node) : Prop where
  head : l.head? = some u
  last : l.getLast? = some v
  edges : ∀ e ∈ walkEdges l, e ∈ es

theorem c09c_W_single (es : List Edge) (u : Node) : c09c_W es u u [u] :=
  ⟨rfl, rfl, fun e he => by simp [walkEdges] at he⟩

theorem c09c_W_cons (es : List Edge) (u x v : Node) (l : List Node) (he : (u, x) ∈ es)
    (h : c09c_W es x v l) : c09c_W es u v (u :: l) := by
  cases l with
  | nil => exact absurd h.head (by simp)
  | cons y l' =>
    have hy : y = x := by simpa using h.head
    subst hy
    refine ⟨rfl, ?_, ?_⟩
    · rw [List.getLast?_cons_cons]; exact h.last
    · intro e hm
      rw [walkEdges_cons_cons] at hm
      rcases List.mem_cons.1 hm with rfl | hm
      · exact he
      · exact h.edges e hm

/-- a walk that ends where the next one starts: glue them (the shared vertex once) -/
theorem c09c_W_join (es : List Edge) (u x v : Node) (l1 l2 : List Node)
    (h1 : c09c_W es u x l1) (h2 : c09c_W es x v l2) :
    c09c_W es u v (l1 ++ l2.tail) ∧ walkEdges (l1 ++ l2.tail) = walkEdges l1 ++ walkEdges l2 := by
  obtain ⟨A, rfl⟩ := List.getLast?_eq_some_iff.1 h1.last
  cases l2 with
  | nil => exact absurd h2.head (by simp)
  | cons y B =>
    have hy : y = x := by simpa using h2.head
    subst hy
    have heq : A ++ [y] ++ (y :: B).tail = A ++ y :: B := by simp
    have hw : walkEdges (A ++ [y] ++ (y :: B).tail) = walkEdges (A ++ [y]) ++ walkEdges (y :: B) := by
      rw [heq]; exact FP.Euler.walkEdges_append_cons A y B
    refine ⟨⟨?_, ?_, ?_⟩, hw⟩
    · rw [heq]
      have := h1.head
      cases A with
      | nil => simpa using this
      | cons a A' => simpa using this
    · rw [heq, List.getLast?_append]
      rw [h2.last]; rfl
    · intro e he
      rw [hw] at he
      rcases List.mem_append.1 he with h | h
      · exact h1.edges e h
      · exact h2.edges e h

/-- the part of a walk from an inner occurrence of a vertex onwards -/
theorem c09c_W_suffix (es : List Edge) (u v w : Node) (A B : List Node)
    (h : c09c_W es u v (A ++ w :: B)) : c09c_W es w v (w :: B) := by
  refine ⟨rfl, ?_, ?_⟩
  · have := h.last
    rw [List.getLast?_append] at this
    cases hB : (w :: B).getLast? with
    | none => simp at hB
    | some z => rw [hB] at this; simpa using this
  · intro e he
    apply h.edges
    rw [FP.Euler.walkEdges_append_cons]
    exact List.mem_append_right _ he

/-- the part of a walk up to an inner occurrence of a vertex -/
theorem c09c_W_prefix (es : List Edge) (u v w : Node) (A B : List Node)
    (h : c09c_W es u v (A ++ w :: B)) : c09c_W es u w (A ++ [w]) := by
  refine ⟨?_, by simp, ?_⟩
  · have := h.head
    cases A with
    | nil => simpa using this
    | cons a A' => simpa using this
  · intro e he
    apply h.edges
    rw [FP.Euler.walkEdges_append_cons]
    exact List.mem_append_left _ he

/-- **a simple path between the endpoints of a walk** -/
theorem c09c_simple (es : List Edge) : ∀ (l : List Node) (u v : Node), c09c_W es u v l →
    ∃ p, c09c_W es u v p ∧ p.Nodup := by
  intro l
  induction l with
  | nil => intro u v h; exact absurd h.head (by simp)
  | cons a l ih =>
    intro u v h
    have ha : a = u := by simpa using h.head
    subst ha
    cases l with
    | nil =>
      have hv : a = v := by simpa using h.last
      subst hv
      exact ⟨[a], c09c_W_single es a, by simp⟩
    | cons b l' =>
      have hab : (a, b) ∈ es := h.edges _ (by rw [walkEdges_cons_cons]; simp)
      have hrest : c09c_W es b v (b :: l') := c09c_W_suffix es a v b [a] l' h
      obtain ⟨p, hp, hnd⟩ := ih b v hrest
      by_cases hin : a ∈ p
      · obtain ⟨A, B, rfl⟩ := List.mem_iff_append.1 hin
        refine ⟨a :: B, c09c_W_suffix es b v a A B hp, ?_⟩
        exact hnd.sublist (List.sublist_append_right A (a :: B))
      · exact ⟨a :: p, c09c_W_cons es a b v p hab hp, List.nodup_cons.2 ⟨hin, hnd⟩⟩

/-- a simple path runs through an edge at most once -/
theorem c09c_count_simple (p : List Node) (hnd : p.Nodup) (e : Edge) : (walkEdges p).count e ≤ 1 := by
  rw [List.Nodup.count (walkEdges_nodup p hnd)]
  split <;> omega

/-- the first edge of a walk that belongs to `R` -/
theorem c09c_first_required (R : List Edge) : ∀ (l : List Node), (∃ e ∈ R, e ∈ walkEdges l) →
    ∃ A x y B, l = A ++ x :: y :: B ∧ (x, y) ∈ R ∧ ∀ e ∈ walkEdges (A ++ [x]), e ∉ R := by
  intro l
  induction l with
  | nil => rintro ⟨e, _, he⟩; simp [walkEdges] at he
  | cons a l ih =>
    rintro ⟨e, heR, he⟩
    cases l with
    | nil => simp [walkEdges] at he
    | cons b l' =>
      by_cases hab : (a, b) ∈ R
      · exact ⟨[], a, b, l', rfl, hab, fun e he => by simp [walkEdges] at he⟩
      · rw [walkEdges_cons_cons] at he
        have he' : e ∈ walkEdges (b :: l') := by
          rcases List.mem_cons.1 he with rfl | h
          · exact absurd heR hab
          · exact h
        obtain ⟨A, x, y, B, hl, hxy, hno⟩ := ih ⟨e, heR, he'⟩
        refine ⟨a :: A, x, y, B, by rw [hl]; rfl, hxy, ?_⟩
        obtain ⟨C, hC⟩ : ∃ C, A ++ [x] = b :: C := by
          cases A with
          | nil =>
            have : b = x := by simpa using congrArg List.head? hl
            exact ⟨[], by simp [this]⟩
          | cons c A' =>
            have : b = c := by simpa using congrArg List.head? hl
            exact ⟨A' ++ [x], by simp [this]⟩
        intro e' he'
        have : a :: A ++ [x] = a :: (A ++ [x]) := rfl
        rw [this, hC, walkEdges_cons_cons] at he'
        rcases List.mem_cons.1 he' with rfl | h
        · exact hab
        · exact hno e' (by rw [hC]; exact h)

/-- `n` edges to visit: no edge is used more than `2n + 1` times -/
theorem c09c_compress_aux (es : List Edge) : ∀ (n : Nat) (R : List Edge), R.length ≤ n →
    ∀ (l : List Node) (u v : Node), c09c_W es u v l →
    ∃ l', c09c_W es u v l' ∧ (∀ e ∈ R, e ∈ walkEdges l → e ∈ walkEdges l') ∧
      ∀ e, (walkEdges l').count e ≤ 2 * n + 1 := by
  intro n
  induction n with
  | zero =>
    intro R hR l u v h
    have hR0 : R = [] := List.eq_nil_of_length_eq_zero (by omega)
    subst hR0
    obtain ⟨p, hp, hnd⟩ := c09c_simple es l u v h
    exact ⟨p, hp, fun e he => by simp at he, fun e => by have := c09c_count_simple p hnd e; omega⟩
  | succ n ih =>
    intro R hR l u v h
    by_cases hex : ∃ e ∈ R, e ∈ walkEdges l
    · obtain ⟨A, x, y, B, rfl, hxy, hno⟩ := c09c_first_required R l hex
      have hpre : c09c_W es u x (A ++ [x]) := c09c_W_prefix es u v x A (y :: B) h
      have hsufx : c09c_W es x v (x :: y :: B) := c09c_W_suffix es u v x A (y :: B) h
      have hedge : (x, y) ∈ es := hsufx.edges _ (by rw [walkEdges_cons_cons]; simp)
      have hsufy : c09c_W es y v (y :: B) := c09c_W_suffix es x v y [x] B hsufx
      have hlen : (R.erase (x, y)).length ≤ n := by
        rw [List.length_erase_of_mem hxy]; omega
      obtain ⟨l2, hl2, hcov2, hcnt2⟩ := ih (R.erase (x, y)) hlen (y :: B) y v hsufy
      obtain ⟨p, hp, hnd⟩ := c09c_simple es _ u x hpre
      have hxl2 : c09c_W es x v (x :: l2) := c09c_W_cons es x y v l2 hedge hl2
      obtain ⟨hj, hjw⟩ := c09c_W_join es u x v p (x :: l2) hp hxl2
      have hl2cons : ∃ l2', l2 = y :: l2' := by
        cases l2 with
        | nil => exact absurd hl2.head (by simp)
        | cons z l2' =>
          have : z = y := by simpa using hl2.head
          exact ⟨l2', by rw [this]⟩
      obtain ⟨l2', rfl⟩ := hl2cons
      have hwe : walkEdges (p ++ (x :: y :: l2').tail)
          = walkEdges p ++ (x, y) :: walkEdges (y :: l2') := by
        rw [hjw, walkEdges_cons_cons]
      refine ⟨p ++ (x :: y :: l2').tail, hj, ?_, ?_⟩
      · intro e heR he
        rw [hwe]
        rw [FP.Euler.walkEdges_append_cons, walkEdges_cons_cons] at he
        rcases List.mem_append.1 he with h1 | h1
        · exact absurd heR (hno e h1)
        · by_cases hexy : e = (x, y)
          · subst hexy; exact List.mem_append_right _ List.mem_cons_self
          · rcases List.mem_cons.1 h1 with h2 | h2
            · exact absurd h2 hexy
            · exact List.mem_append_right _ (List.mem_cons_of_mem _
                (hcov2 e ((List.mem_erase_of_ne hexy).2 heR) h2))
      · intro e
        rw [hwe, List.count_append, List.count_cons]
        have h1 := c09c_count_simple p hnd e
        have h2 := hcnt2 e
        split <;> omega
    · obtain ⟨p, hp, hnd⟩ := c09c_simple es l u v h
      refine ⟨p, hp, fun e heR he => absurd ⟨e, heR, he⟩ hex, fun e => ?_⟩
      have := c09c_count_simple p hnd e
      omega

/-- **walk compression.** -/
theorem c09c_compress (es : List Edge) (l : List Node) (u v : Node) (h : c09c_W es u v l) :
    ∃ l', c09c_W es u v l' ∧ (∀ e ∈ walkEdges l, e ∈ walkEdges l') ∧
      ∀ e, (walkEdges l').count e ≤ 2 * es.length + 1 := by
  obtain ⟨l', hl', hcov, hcnt⟩ := c09c_compress_aux es es.length es (Nat.le_refl _) l u v h
  exact ⟨l', hl', fun e he => hcov e (h.edges e he) he, hcnt⟩

end FP
