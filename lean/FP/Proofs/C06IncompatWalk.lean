import FP.Spec.Safety
import FP.Proofs.SafetyWalk
import FP.Proofs.SafetyReach
import FP.Proofs.SafetyDom
/-!
# FP.Proofs.C06IncompatWalk — walks, reachability and re-routing round an inter-SCC edge that has a parallel twin

* `c06i_reach_of_walk`, `c06i_walk_of_reach` — walks and `Reach` are the same thing;
* `c06i_walk_order` — two different edges of one walk are comparable;
* `c06i_reroute` — an edge `e` that no walk can take twice and that has a twin `e'` joining the same two strongly
  connected components dominates nothing: every source-to-sink walk through `e` and another edge `cc` can be
  re-routed through `e'` so that it still contains `cc` but not `e`.
-/
namespace FP.Safety
open FP FP.Spec

/-- a walk is a witness of reachability -/
theorem c06i_reach_of_walk (g : Graph) : ∀ (l : List Node) (a b : Node), IsWalkIn g (a :: l) →
    (a :: l).getLast? = some b → Reach g.edges a b := by
  intro l
  induction l with
  | nil => intro a b _ h; simp at h; subst h; exact Reach.refl _
  | cons y l ih =>
    intro a b hw hl
    have hay : (a, y) ∈ g.edges := hw _ (by rw [we_cons_cons]; simp)
    have hl' : (y :: l).getLast? = some b := by simpa [List.getLast?_cons_cons] using hl
    have := ih y b (fun e' he' => hw e' (by rw [we_cons_cons]; exact List.mem_cons_of_mem _ he')) hl'
    exact reach_trans (Reach.step (Reach.refl a) hay) this

theorem c06i_reach_of_stwalk (g : Graph) {a b : Node} {w : List Node} (hw : IsSTWalkG g a b w) :
    Reach g.edges a b := by
  cases w with
  | nil => have := hw.first; simp at this
  | cons x l =>
    have hx : x = a := by have := hw.first; simpa using this
    subst hx
    exact c06i_reach_of_walk g l x b hw.walk hw.last

/-- the head of every edge of a walk reaches the last vertex -/
theorem c06i_reach_last (g : Graph) {a b : Node} {w : List Node} (hw : IsSTWalkG g a b w) :
    ∀ d ∈ walkEdges w, Reach g.edges d.2 b := by
  intro d hd
  obtain ⟨w1, w2, rfl⟩ := mem_we_split hd
  exact c06i_reach_of_stwalk g (suffix_walk hw)

/-- the first vertex reaches the tail of every edge of a walk -/
theorem c06i_reach_first (g : Graph) {a b : Node} {w : List Node} (hw : IsSTWalkG g a b w) :
    ∀ d ∈ walkEdges w, Reach g.edges a d.1 := by
  intro d hd
  obtain ⟨w1, w2, rfl⟩ := mem_we_split hd
  exact c06i_reach_of_stwalk g (prefix_walk hw)

/-- reachability is witnessed by a walk -/
theorem c06i_walk_of_reach (g : Graph) {x y : Node} (h : Reach g.edges x y) : ∃ w, IsSTWalkG g x y w := by
  induction h with
  | refl => exact ⟨[x], ⟨fun e he => by simp [we_single] at he, rfl, rfl⟩⟩
  | @step y z _ he ih =>
    obtain ⟨w, hw⟩ := ih
    refine ⟨w ++ [z], ⟨?_, ?_, by simp⟩⟩
    · intro d hd
      rw [we_concat w y z hw.last] at hd
      rcases List.mem_append.1 hd with hd | hd
      · exact hw.walk d hd
      · simp at hd; subst hd; exact he
    · have := hw.first
      cases w with
      | nil => simp at this
      | cons a w => simpa using this

/-- two walks glued along an edge -/
theorem c06i_glue (g : Graph) {s t a b : Node} {w1 w2 : List Node} (h1 : IsSTWalkG g s a w1)
    (hab : (a, b) ∈ g.edges) (h2 : IsSTWalkG g b t w2) :
    IsSTWalkG g s t (w1 ++ w2) ∧ (a, b) ∈ walkEdges (w1 ++ w2) ∧
      ∀ d ∈ walkEdges (w1 ++ w2), d ∈ walkEdges w1 ∨ d = (a, b) ∨ d ∈ walkEdges w2 := by
  obtain ⟨u1, rfl⟩ := List.getLast?_eq_some_iff.1 h1.last
  cases w2 with
  | nil => have := h2.first; simp at this
  | cons b' u2 =>
    have hb : b' = b := by have := h2.first; simpa using this
    subst hb
    have hsplit : walkEdges (u1 ++ [a] ++ b' :: u2) = walkEdges (u1 ++ [a]) ++ (a, b') :: walkEdges (b' :: u2) := by
      rw [List.append_assoc]
      show walkEdges (u1 ++ a :: b' :: u2) = _
      rw [we_append_cons, we_cons_cons]
    refine ⟨⟨?_, ?_, ?_⟩, ?_, ?_⟩
    · intro d hd
      rw [hsplit] at hd
      rcases List.mem_append.1 hd with hd | hd
      · exact h1.walk d hd
      · rcases List.mem_cons.1 hd with rfl | hd
        · exact hab
        · exact h2.walk d hd
    · have := h1.first
      cases u1 <;> simpa using this
    · have := h2.last
      rw [List.getLast?_append]
      cases hq : (b' :: u2).getLast? with
      | none => simp at hq
      | some z => rw [hq] at this; simpa using this
    · rw [hsplit]; simp
    · intro d hd
      rw [hsplit] at hd
      rcases List.mem_append.1 hd with hd | hd
      · exact Or.inl hd
      · rcases List.mem_cons.1 hd with rfl | hd
        · exact Or.inr (Or.inl rfl)
        · exact Or.inr (Or.inr hd)

/-- two different edges of one walk are comparable: the head of one reaches the tail of the other -/
theorem c06i_walk_order (g : Graph) {s t : Node} {w : List Node} (hw : IsSTWalkG g s t w) {e1 e2 : Edge}
    (h1 : e1 ∈ walkEdges w) (h2 : e2 ∈ walkEdges w) (hne : e1 ≠ e2) :
    Reach g.edges e1.2 e2.1 ∨ Reach g.edges e2.2 e1.1 := by
  obtain ⟨w1, w2, rfl⟩ := mem_we_split h1
  rw [we_append_cons, we_cons_cons] at h2
  rcases List.mem_append.1 h2 with h2 | h2
  · exact Or.inr (c06i_reach_last g (prefix_walk hw) e2 h2)
  · rcases List.mem_cons.1 h2 with h2 | h2
    · exact absurd h2.symm hne
    · exact Or.inl (c06i_reach_first g (suffix_walk hw) e2 h2)

/-- reachability along steps that all satisfy `P` is reachability in the filtered edge list -/
theorem c06i_reach_filter {es : List Edge} (P : Edge → Bool) {a b : Node} (h : Reach es a b) :
    (∀ d ∈ es, Reach es a d.1 → Reach es d.2 b → P d = true) → Reach (es.filter P) a b := by
  induction h with
  | refl => intro _; exact Reach.refl _
  | @step u v hau huv ih =>
    intro hP
    have h1 := ih (fun d hd h1 h2 => hP d hd h1 (Reach.step h2 huv))
    exact Reach.step h1 (List.mem_filter.2 ⟨huv, hP (u, v) huv hau (Reach.refl _)⟩)

/-- the graph without the edge `e` -/
def c06i_without (g : Graph) (e : Edge) : Graph := { g with edges := g.edges.filter fun d => d != e }

theorem c06i_without_walk (g : Graph) (e : Edge) {a b : Node} {w : List Node} (hw : IsSTWalkG g a b w)
    (he : e ∉ walkEdges w) : IsSTWalkG (c06i_without g e) a b w :=
  ⟨fun d hd => List.mem_filter.2 ⟨hw.walk d hd, by
      simp only [bne_iff_ne, ne_eq]; intro h; subst h; exact he hd⟩, hw.first, hw.last⟩

/-- **re-routing.** `e` cannot be taken twice (`hback`), `e'` is another edge whose tail is mutually reachable
with the tail of `e` and whose head is mutually reachable with the head of `e`. Then for every source-to-sink
walk through `e` and `cc ≠ e` there is one through `cc` that avoids `e`. -/
theorem c06i_reroute (g : Graph) (s t : Node) (e e' cc : Edge) (w : List Node)
    (hw : IsSTWalkG g s t w) (he : e ∈ walkEdges w) (hcc : cc ∈ walkEdges w) (hne : cc ≠ e)
    (hback : ¬ Reach g.edges e.2 e.1)
    (he' : e' ∈ g.edges) (hne' : e' ≠ e)
    (h1 : Reach g.edges e.1 e'.1) (h1' : Reach g.edges e'.1 e.1)
    (h2 : Reach g.edges e'.2 e.2) (h2' : Reach g.edges e.2 e'.2) :
    ∃ w', IsSTWalkG g s t w' ∧ cc ∈ walkEdges w' ∧ e ∉ walkEdges w' := by
  obtain ⟨x, y⟩ := e
  simp only at hback h1 h1' h2 h2'
  let g' := c06i_without g (x, y)
  have hsub : ∀ d ∈ g'.edges, d ∈ g.edges ∧ d ≠ (x, y) := by
    intro d hd
    have := List.mem_filter.1 hd
    exact ⟨this.1, by simpa using this.2⟩
  obtain ⟨w1, w2, hsplit⟩ := mem_we_split he
  simp only at hsplit
  subst hsplit
  have hA : IsSTWalkG g s x (w1 ++ [x]) := prefix_walk hw
  have hB : IsSTWalkG g y t (y :: w2) := suffix_walk hw
  -- neither part takes `e` again
  have hAe : (x, y) ∉ walkEdges (w1 ++ [x]) := fun hm => hback (c06i_reach_last g hA _ hm)
  have hBe : (x, y) ∉ walkEdges (y :: w2) := fun hm => hback (c06i_reach_first g hB _ hm)
  have hA' : Reach g'.edges s x := c06i_reach_of_stwalk g' (c06i_without_walk g _ hA hAe)
  have hB' : Reach g'.edges y t := c06i_reach_of_stwalk g' (c06i_without_walk g _ hB hBe)
  -- the detour `x ⇝ e'.1 → e'.2 ⇝ y` avoids `e`
  have hD1 : Reach g'.edges x e'.1 := by
    apply c06i_reach_filter _ h1
    intro d _ _ hd2
    simp only [bne_iff_ne, ne_eq]
    intro hd; subst hd
    exact hback (reach_trans hd2 h1')
  have hD2 : Reach g'.edges e'.2 y := by
    apply c06i_reach_filter _ h2
    intro d _ hd1 _
    simp only [bne_iff_ne, ne_eq]
    intro hd; subst hd
    exact hback (reach_trans h2' hd1)
  have he'' : (e'.1, e'.2) ∈ g'.edges := by
    show e' ∈ g'.edges
    exact List.mem_filter.2 ⟨he', by simp only [bne_iff_ne, ne_eq]; exact hne'⟩
  have hxy : Reach g'.edges x y := reach_trans (Reach.step hD1 he'') hD2
  -- where is `cc`?
  have hccg : cc ∈ g'.edges := List.mem_filter.2 ⟨hw.walk cc hcc, by simpa using hne⟩
  have hends : Reach g'.edges s cc.1 ∧ Reach g'.edges cc.2 t := by
    rw [we_append_cons, we_cons_cons] at hcc
    rcases List.mem_append.1 hcc with hc | hc
    · obtain ⟨a1, a2, ha⟩ := mem_we_split hc
      have hA2 : IsSTWalkG g s x (a1 ++ cc.1 :: cc.2 :: a2) := ha ▸ hA
      have hAe2 : (x, y) ∉ walkEdges (a1 ++ cc.1 :: cc.2 :: a2) := ha ▸ hAe
      have hp := prefix_walk hA2
      have hs := suffix_walk hA2
      have hpe : (x, y) ∉ walkEdges (a1 ++ [cc.1]) := by
        intro hm; apply hAe2
        have : a1 ++ cc.1 :: cc.2 :: a2 = (a1 ++ [cc.1]) ++ (cc.2 :: a2) := by simp
        rw [this]; exact we_sub_append_right _ _ _ hm
      have hse : (x, y) ∉ walkEdges (cc.2 :: a2) := by
        intro hm; apply hAe2
        have : a1 ++ cc.1 :: cc.2 :: a2 = (a1 ++ [cc.1]) ++ (cc.2 :: a2) := by simp
        rw [this]; exact we_sub_append_left _ _ _ hm
      exact ⟨c06i_reach_of_stwalk g' (c06i_without_walk g _ hp hpe),
        reach_trans (c06i_reach_of_stwalk g' (c06i_without_walk g _ hs hse)) (reach_trans hxy hB')⟩
    · rcases List.mem_cons.1 hc with hc | hc
      · exact absurd hc hne
      · obtain ⟨a1, a2, ha⟩ := mem_we_split hc
        have hB2 : IsSTWalkG g y t (a1 ++ cc.1 :: cc.2 :: a2) := ha ▸ hB
        have hBe2 : (x, y) ∉ walkEdges (a1 ++ cc.1 :: cc.2 :: a2) := ha ▸ hBe
        have hp := prefix_walk hB2
        have hs := suffix_walk hB2
        have hpe : (x, y) ∉ walkEdges (a1 ++ [cc.1]) := by
          intro hm; apply hBe2
          have : a1 ++ cc.1 :: cc.2 :: a2 = (a1 ++ [cc.1]) ++ (cc.2 :: a2) := by simp
          rw [this]; exact we_sub_append_right _ _ _ hm
        have hse : (x, y) ∉ walkEdges (cc.2 :: a2) := by
          intro hm; apply hBe2
          have : a1 ++ cc.1 :: cc.2 :: a2 = (a1 ++ [cc.1]) ++ (cc.2 :: a2) := by simp
          rw [this]; exact we_sub_append_left _ _ _ hm
        exact ⟨reach_trans hA' (reach_trans hxy (c06i_reach_of_stwalk g' (c06i_without_walk g _ hp hpe))),
          c06i_reach_of_stwalk g' (c06i_without_walk g _ hs hse)⟩
  obtain ⟨u1, hu1⟩ := c06i_walk_of_reach g' hends.1
  obtain ⟨u2, hu2⟩ := c06i_walk_of_reach g' hends.2
  obtain ⟨hw', hmem, hall⟩ := c06i_glue g' hu1 (show (cc.1, cc.2) ∈ g'.edges from hccg) hu2
  refine ⟨u1 ++ u2, ⟨fun d hd => (hsub d (hw'.walk d hd)).1, hw'.first, hw'.last⟩, hmem, ?_⟩
  intro hm
  exact (hsub _ (hw'.walk _ hm)).2 rfl

end FP.Safety
